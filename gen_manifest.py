#!/usr/bin/env python3
"""Writes MANIFEST.json from checks.json + manifest_meta.json (kept as a script so the manifest never drifts from the driver's configuration)."""
import json, os
ROOT = os.path.dirname(os.path.abspath(__file__))
cfg = json.load(open(os.path.join(ROOT, "checks.json")))
meta = json.load(open(os.path.join(ROOT, "manifest_meta.json")))
props = [json.loads(l)["id"] for l in open(os.path.join(ROOT, "properties.jsonl"))]
checks = []
for pid in props:
    if pid not in cfg:
        continue
    m = meta["checks"][pid]
    checks.append({
        "property_id": pid,
        "quick_cmd": "./check %s --tier quick" % pid,
        "thorough_cmd": "./check %s --tier thorough" % pid,
        "evidence_file": "evidence/%s.json" % pid,
        "replay_cmd_template": "./check %s --replay {path}" % pid,
        "engine": "coq+correspondence",
        "level_claimed": {"category": "proof", "text": m["text"], "design_ref": m.get("design_ref", "DESIGN.md section 8, " + pid)},
        "level_note": m["note"],
        "technique": m.get("technique", "machine-checked proof in Coq 8.16.1 about a hand-written executable model, tied to the code by a differential correspondence run (Rust harness vs OCaml-extracted model)"),
    })
na = [{"property_id": p, "reason": meta["not_applicable"].get(p, "check not built yet in this development; not claimed")} for p in props if p not in cfg]
man = {
    "version": 1,
    "setup_cmd": "./setup.sh",
    "hooks": meta["hooks"],
    "engines": meta["engines"],
    "checks": checks,
    "notes": meta["notes"],
    "not_applicable": na,
}
json.dump(man, open(os.path.join(ROOT, "MANIFEST.json"), "w"), indent=1)
print("MANIFEST.json: %d checks, %d not claimed" % (len(checks), len(na)))
