//! C20 — Resolver dispatch and completion-order independence against the model.
//! see coq/theories/Run/C20Run.v for the case encoding.
use crate::common::*;
use futures::channel::oneshot;
use futures::task::noop_waker;
use identity_core::common::{Object, Url};
use identity_core::convert::{FromJson, ToJson};
use identity_did::{CoreDID, DIDJwk, DID};
use identity_document::document::CoreDocument;
use identity_document::service::Service;
use identity_resolver::{ErrorCause, SingleThreadedResolver};
use identity_verification::jwk::Jwk;
use identity_verification::{MethodData, MethodRelationship, MethodScope};
use std::cell::RefCell;
use std::collections::HashMap;
use std::future::Future;
use std::rc::Rc;
use std::task::{Context, Poll};

fn mname(m: i64) -> &'static str { match m { 1 => "a", 2 => "b", 3 => "c", 9 => "jwk", _ => "zz" } }
fn did_str(m: i64, i: i64) -> String { format!("did:{}:{}", mname(m), i) }
fn doc_for(did: &str, h: i64) -> CoreDocument {
  let id: CoreDID = did.parse().unwrap();
  let svc = Service::builder(Object::new()).id(id.to_url().join("#h").unwrap()).type_("H").service_endpoint(Url::parse(format!("https://h.example/{}", h)).unwrap()).build().unwrap();
  CoreDocument::builder(Object::new()).id(id).service(svc).build().unwrap()
}
fn doc_number(doc: &CoreDocument) -> i64 {
  let h: i64 = doc.service().iter().next().and_then(|s| serde_json::to_value(s.service_endpoint()).ok()).and_then(|v| v.as_str().map(|t| t.to_string())).and_then(|t| t.rsplit('/').next().and_then(|n| n.parse().ok())).unwrap_or(-1);
  let s = doc.id().as_str().to_string(); let parts: Vec<&str> = s.split(':').collect();
  let m = match parts[1] { "a" => 1, "b" => 2, "c" => 3, "jwk" => 9, _ => 0 };
  1000 * h + 10 * m + parts[2].parse::<i64>().unwrap_or(-1)
}
#[derive(Debug)]
struct HErr;
impl std::fmt::Display for HErr { fn fmt(&self, f: &mut std::fmt::Formatter<'_>) -> std::fmt::Result { write!(f, "handler failed") } }
impl std::error::Error for HErr {}

type Log = Rc<RefCell<Vec<(i64, String)>>>;
type Chans = Rc<RefCell<HashMap<String, oneshot::Receiver<Result<CoreDocument, HErr>>>>>;
type Script = Rc<RefCell<HashMap<String, bool>>>;

fn build(tab: &[(i64, i64, i64)], log: &Log, chans: &Chans, script: &Script, use_channels: bool) -> SingleThreadedResolver<CoreDocument> {
  let mut r = SingleThreadedResolver::<CoreDocument>::new();
  for (m, h, kind) in tab {
    let (log, chans, script, h) = (log.clone(), chans.clone(), script.clone(), *h);
    if *kind == 0 {
      r.attach_handler(mname(*m).to_string(), move |did: CoreDID| {
        let (log, chans, script) = (log.clone(), chans.clone(), script.clone());
        async move {
          log.borrow_mut().push((h, did.as_str().to_string()));
          if use_channels { let rx = chans.borrow_mut().remove(did.as_str()); match rx { Some(rx) => match rx.await { Ok(Ok(_)) => Ok(doc_for(did.as_str(), h)), _ => Err(HErr) }, None => Err(HErr) } }
          else if *script.borrow().get(did.as_str()).unwrap_or(&false) { Ok(doc_for(did.as_str(), h)) } else { Err(HErr) }
        }
      });
    } else {
      r.attach_handler(mname(*m).to_string(), move |did: DIDJwk| { let log = log.clone(); async move { log.borrow_mut().push((h, did.as_str().to_string())); CoreDocument::expand_did_jwk(did).map_err(|_| HErr) } });
    }
  }
  r
}
fn take3(v: &mut &[i64], n: usize) -> Vec<(i64, i64, i64)> { (0..n).map(|_| (take1(v).unwrap(), take1(v).unwrap(), take1(v).unwrap())).collect() }

pub fn exec(case: &[i64]) -> Outcome {
  let kind = case[0]; let mut v = &case[1..];
  let nt = take1(&mut v).unwrap() as usize; let tab = take3(&mut v, nt);
  let log: Log = Rc::new(RefCell::new(vec![])); let chans: Chans = Rc::new(RefCell::new(HashMap::new())); let script: Script = Rc::new(RefCell::new(HashMap::new()));
  // the handler a method ends up with: the one attached last
  let registered = |m: i64| tab.iter().rev().find(|e| e.0 == m).map(|e| (e.1, e.2));
  match kind {
    1 => {
      let (m, i, ok) = (v[0], v[1], v[2] != 0);
      let did: CoreDID = did_str(m, i).parse().unwrap();
      script.borrow_mut().insert(did.as_str().to_string(), ok);
      let r = build(&tab, &log, &chans, &script, false);
      let res = crate::jws_storage::rt().block_on(r.resolve(&did));
      let mut obs = match &res { Ok(d) => vec![0, doc_number(d)], Err(e) => vec![match e.error_cause() { ErrorCause::UnsupportedMethodError { .. } => 1, ErrorCause::DIDParsingError { .. } => 2, _ => 3 }] };
      let calls = log.borrow().clone();
      obs.push(calls.len() as i64); for (h, s) in &calls { let p: Vec<&str> = s.split(':').collect(); obs.extend([*h, m * ((p[1] == mname(m)) as i64), p[2].parse::<i64>().unwrap_or(-1)]); }
      let mut o = Outcome::new(obs).class(if res.is_ok() { "single-ok" } else { "single-err" });
      match registered(m) {
        None => { if !calls.is_empty() { o = o.fail("a handler was called for a DID whose method has no handler"); } if !matches!(&res, Err(e) if matches!(e.error_cause(), ErrorCause::UnsupportedMethodError { .. })) { o = o.fail("no unsupported-method error"); } }
        Some((h, 0)) => { if calls != vec![(h, did.as_str().to_string())] { o = o.fail("not exactly the registered handler, once, with that DID"); } if res.is_ok() != ok { o = o.fail("handler result not returned"); } if let Ok(d) = &res { if doc_number(d) != 1000 * h + 10 * m + i { o = o.fail("returned document is not the handler's"); } } }
        Some(_) => { if !calls.is_empty() { o = o.fail("handler called although its DID type does not parse the DID"); } if res.is_ok() { o = o.fail("resolution succeeded without a usable handler"); } }
      }
      o
    }
    2 => {
      let nd = take1(&mut v).unwrap() as usize; let ds = take3(&mut v, nd);
      let no = take1(&mut v).unwrap() as usize; let order: Vec<(i64, i64)> = (0..no).map(|_| (take1(&mut v).unwrap(), take1(&mut v).unwrap())).collect();
      let dids: Vec<CoreDID> = ds.iter().map(|(m, i, _)| did_str(*m, *i).parse().unwrap()).collect();
      let mut senders: HashMap<String, oneshot::Sender<Result<CoreDocument, HErr>>> = HashMap::new();
      for d in &dids { if !senders.contains_key(d.as_str()) { let (tx, rx) = oneshot::channel(); senders.insert(d.as_str().to_string(), tx); chans.borrow_mut().insert(d.as_str().to_string(), rx); } }
      let okmap: HashMap<String, bool> = ds.iter().map(|(m, i, ok)| (did_str(*m, *i), ds.iter().any(|(m2, i2, ok2)| m2 == m && i2 == i && *ok2 != 0) && *ok != 0 || ds.iter().any(|(m2, i2, ok2)| m2 == m && i2 == i && *ok2 != 0))).collect();
      let r = build(&tab, &log, &chans, &script, true);
      let waker = noop_waker(); let mut cx = Context::from_waker(&waker);
      let mut not_started: Option<String> = None;
      let result = {
        let fut = r.resolve_multiple(&dids); futures::pin_mut!(fut);
        let mut out = None;
        if let Poll::Ready(x) = fut.as_mut().poll(&mut cx) { out = Some(x); }
        for (m, i) in &order {
          if out.is_some() { break; }
          let key = did_str(*m, *i);
          // a handler can only complete once it has been invoked: the completion order of the case must be realisable, i.e. every handler was started before any result arrives
          if matches!(registered(*m), Some((_, 0))) && !log.borrow().iter().any(|(_, c)| c == &key) { not_started.get_or_insert(key.clone()); }
          if let Some(tx) = senders.remove(&key) { let ok = *okmap.get(&key).unwrap_or(&false); let _ = tx.send(if ok { Ok(doc_for(&key, 0)) } else { Err(HErr) }); }
          if let Poll::Ready(x) = fut.as_mut().poll(&mut cx) { out = Some(x); }
        }
        if out.is_none() { for _ in 0..4 { if let Poll::Ready(x) = fut.as_mut().poll(&mut cx) { out = Some(x); break; } } }
        out
      };
      let calls = log.borrow().clone();
      let distinct: std::collections::BTreeSet<String> = dids.iter().map(|d| d.as_str().to_string()).collect();
      match result {
        None => Outcome::new(vec![-8]).class("multi-pending").fail("resolve_multiple did not complete after every handler completed"),
        Some(Err(_)) => {
          let mut o = Outcome::new(vec![1]).class("multi-err");
          let expect_fail = distinct.iter().any(|s| { let p: Vec<&str> = s.split(':').collect(); let m = match p[1] { "a" => 1, "b" => 2, "c" => 3, _ => 9 }; match registered(m) { Some((_, 0)) => !*okmap.get(s).unwrap_or(&false), _ => true } });
          if !expect_fail { o = o.fail("resolve_multiple failed although every DID resolves"); }
          o
        }
        Some(Ok(map)) => {
          let mut pairs: Vec<(i64, i64, i64)> = map.iter().map(|(d, doc)| { let p: Vec<&str> = d.as_str().split(':').collect(); (match p[1] { "a" => 1, "b" => 2, "c" => 3, _ => 9 }, p[2].parse().unwrap(), doc_number(doc)) }).collect();
          // canonical order: the completion order given in the case (the map itself is unordered)
          pairs.sort_by_key(|(m, i, _)| order.iter().position(|o| o == &(*m, *i)).unwrap_or(99));
          let mut obs = vec![0, pairs.len() as i64]; for (m, i, x) in &pairs { obs.extend([*m, *i, *x]); }
          let mut o = Outcome::new(obs).class("multi-ok");
          if let Some(k) = &not_started { o = o.fail(&format!("the handler for {} had not been invoked when its turn to complete came: not every completion order is possible", k)); }
          if map.len() != distinct.len() || !distinct.iter().all(|s| map.keys().any(|k| k.as_str() == s)) { o = o.fail("not exactly one entry per distinct input DID"); }
          for (d, doc) in &map { if doc.id().as_str() != d.as_str() { o = o.fail("entry holds the document of another DID"); } let p: Vec<&str> = d.as_str().split(':').collect(); let m = match p[1] { "a" => 1, "b" => 2, "c" => 3, _ => 9 }; if let Some((h, _)) = registered(m) { if doc_number(doc) / 1000 != h { o = o.fail("entry does not come from the handler registered for the DID's method"); } } }
          for s in &distinct { if calls.iter().filter(|(_, c)| c == s).count() != 1 { o = o.fail("a DID was not resolved exactly once"); } }
          if distinct.iter().any(|s| !*okmap.get(s).unwrap_or(&false)) { o = o.fail("resolve_multiple succeeded although a handler failed"); }
          o
        }
      }
    }
    5 => {
      // kind 1 on the DEFAULT resolver (Send + Sync handlers, its own attach_handler): same observation
      use std::sync::{Arc, Mutex};
      let (m, i, ok) = (v[0], v[1], v[2] != 0);
      let did: CoreDID = did_str(m, i).parse().unwrap();
      let slog: Arc<Mutex<Vec<(i64, String)>>> = Arc::new(Mutex::new(vec![]));
      let mut r = identity_resolver::Resolver::<CoreDocument>::new();
      for (tm, th, kind) in &tab {
        let (slog, th) = (slog.clone(), *th);
        if *kind == 0 {
          r.attach_handler(mname(*tm).to_string(), move |d: CoreDID| { let slog = slog.clone(); async move { slog.lock().unwrap().push((th, d.as_str().to_string())); if ok { Ok(doc_for(d.as_str(), th)) } else { Err(HErr) } } });
        } else {
          r.attach_handler(mname(*tm).to_string(), move |d: DIDJwk| { let slog = slog.clone(); async move { slog.lock().unwrap().push((th, d.as_str().to_string())); CoreDocument::expand_did_jwk(d).map_err(|_| HErr) } });
        }
      }
      let res = crate::jws_storage::rt().block_on(r.resolve(&did));
      let mut obs = match &res { Ok(d) => vec![0, doc_number(d)], Err(e) => vec![match e.error_cause() { ErrorCause::UnsupportedMethodError { .. } => 1, ErrorCause::DIDParsingError { .. } => 2, _ => 3 }] };
      let calls = slog.lock().unwrap().clone();
      obs.push(calls.len() as i64); for (h, s) in &calls { let p: Vec<&str> = s.split(':').collect(); obs.extend([*h, m * ((p[1] == mname(m)) as i64), p[2].parse::<i64>().unwrap_or(-1)]); }
      let mut o = Outcome::new(obs).class(if res.is_ok() { "single-default-ok" } else { "single-default-err" });
      match registered(m) {
        None => { if !calls.is_empty() { o = o.fail("a handler was called for a DID whose method has no handler"); } }
        Some((h, 0)) => { if calls != vec![(h, did.as_str().to_string())] { o = o.fail("default resolver: not exactly the handler attached last for the method, once, with that DID"); } if res.is_ok() != ok { o = o.fail("handler result not returned"); } }
        Some(_) => { if !calls.is_empty() { o = o.fail("handler called although its DID type does not parse the DID"); } }
      }
      o
    }
    3 | 4 => {
      let key = v[1];
      let jwk_json = match key % 10 {
        0 => serde_json::json!({"kty": "OKP", "crv": "Ed25519", "x": "11qYAYKxCrfVS_7TyWQHOg7hcvPapiMlrwIaaPcHURo"}),
        1 => serde_json::json!({"kty": "EC", "crv": "P-256", "x": "MKBCTNIcKUSDii11ySs3526iDZ8AiTo7Tu6KPAqv7D4", "y": "4Etl6SRW2YiLUrN5vfvVHuhp7x8PxltmWWlbbM4IFyM"}),
        2 => serde_json::json!({"kty": "RSA", "n": "0vx7agoebGcQSuuPiLJXZptN9nndrQmbXEps2aiAFbWhM78LhWx4cbbfAAtVT86zwu1RK7aPFFxuhDR1L6tSoc_BJECPebWKRXjBZCiFV4n3oknjhMstn64tZ_2W-5JsGY4Hc5n9yBXArwl93lqt7_RN5w6Cf0h4QyQ5v-65YGjQR0_FDW2QvzqY368QQMicAtaSqzs8KJZgnYb9c7d0zgdAZHzu6qMQvRL5hj8vWTuFhjjSIXRdjeN1cGFHuGsX41B3GHq1OrzIUK8rZcTTqnowIBMAaB1Qj4Pt4gkp1Cg-oXF2I5fVhnyeW3CFQx1w9RI3RFX1jUSp5ctM2ZV6s2rS6Q", "e": "AQAB"}),
        _ => serde_json::json!({"kty": "OKP", "crv": "X25519", "x": "hSDwCYkwp1R0i33ctD73Wg2_Og0mOBr066SpjqqbTmo"}),
      };
      let mut jwk_json = jwk_json;
      // optional members (key / 10 is a bit mask): the method must carry EXACTLY the key encoded in the DID, optional members included
      let opt = key / 10;
      for (bit, name, val) in [(0, "use", serde_json::json!("sig")), (1, "key_ops", serde_json::json!(["verify"])), (2, "alg", serde_json::json!("EdDSA")), (3, "kid", serde_json::json!("key-1")),
        (4, "x5u", serde_json::json!("https://example.com/cert.pem")), (5, "x5c", serde_json::json!(["MIIB"])), (6, "x5t", serde_json::json!("dGh1bWI")), (7, "x5t#S256", serde_json::json!("dGh1bWIyNTY"))] { if opt >> bit & 1 == 1 { jwk_json[name] = val; } }
      if kind == 4 { jwk_json["d"] = serde_json::json!("nWGxne_9WmC6hEr0kuwsxERJxWl7MmkZcDusAxyuf2A"); }
      let did = format!("did:jwk:{}", identity_jose::jwu::encode_b64(serde_json::to_vec(&jwk_json).unwrap()));
      let mut r = SingleThreadedResolver::<CoreDocument>::new(); r.attach_did_jwk_handler();
      let parsed: Result<DIDJwk, _> = did.parse();
      let res = match &parsed { Ok(d) => crate::jws_storage::rt().block_on(r.resolve(d)).ok(), Err(_) => None };
      if kind == 4 {
        let mut o = Outcome::new(vec![]).class("did-jwk-private");
        if let Some(doc) = &res { if doc.to_json().unwrap_or_default().contains("\"d\":") { o = o.fail("did:jwk with a private JWK expanded to a document carrying the private key"); } }
        return o;
      }
      let doc = match res { Some(d) => d, None => return Outcome::new(vec![-9]).class("did-jwk-err").fail("did:jwk over a public JWK did not resolve") };
      // compared as JSON too: the expected value must not come out of the deserialiser under test alone
      let expect: Jwk = serde_json::from_value(jwk_json.clone()).unwrap();
      let rt = matches!(CoreDocument::from_json(&doc.to_json().unwrap()), Ok(ref b) if *b == doc);
      let all = doc.methods(None);
      let mut obs = vec![rt as i64, all.len() as i64];
      let id = format!("{}#0", did);
      for rel in [MethodRelationship::Authentication, MethodRelationship::AssertionMethod, MethodRelationship::KeyAgreement, MethodRelationship::CapabilityDelegation, MethodRelationship::CapabilityInvocation] {
        obs.push(match doc.resolve_method(id.as_str(), Some(MethodScope::VerificationRelationship(rel))) { Some(m) => match m.data() { MethodData::PublicKeyJwk(j) if *j == expect && serde_json::to_value(j).ok().as_ref() == Some(&jwk_json) => 1, _ => 2 }, None => 0 });
      }
      let mut o = Outcome::new(obs.clone()).class("did-jwk");
      if all.len() != 1 { o = o.fail("did:jwk document does not have exactly one method"); }
      if obs[2..] != [1, 1, 0, 1, 1] { o = o.fail("did:jwk method is not referenced from exactly authentication, assertionMethod, capabilityDelegation, capabilityInvocation with the encoded key"); }
      if doc.id().as_str() != did { o = o.fail("document id is not the did:jwk DID"); }
      o
    }
    _ => Outcome::new(vec![-998]).fail("bad case kind"),
  }
}

fn perms(n: usize) -> Vec<Vec<usize>> {
  fn go(cur: &mut Vec<usize>, used: &mut Vec<bool>, n: usize, out: &mut Vec<Vec<usize>>) { if cur.len() == n { out.push(cur.clone()); return; } for i in 0..n { if !used[i] { used[i] = true; cur.push(i); go(cur, used, n, out); cur.pop(); used[i] = false; } } }
  let mut out = vec![]; go(&mut vec![], &mut vec![false; n], n, &mut out); out
}

pub fn gen(rng: &mut Rng, thorough: bool, sink: &mut Sink) {
  let tables: Vec<Vec<(i64, i64, i64)>> = vec![vec![], vec![(1, 1, 0)], vec![(1, 1, 0), (2, 2, 0)], vec![(1, 1, 0), (2, 2, 0), (3, 3, 0)], vec![(1, 1, 0), (1, 4, 0)], vec![(1, 1, 0), (2, 5, 1)], vec![(2, 2, 0), (1, 1, 0), (2, 6, 0)]];
  let head = |kind: i64, t: &Vec<(i64, i64, i64)>| { let mut c = vec![kind, t.len() as i64]; for (m, h, k) in t { c.extend([*m, *h, *k]); } c };
  for t in &tables { for m in [1i64, 2, 3] { for i in [1i64, 2] { for ok in 0..2 { let mut c = head(1, t); c.extend([m, i, ok]); sink.case(c, "single"); } } } }
  for t in &tables { for m in [1i64, 2, 3] { for i in [1i64, 2] { for ok in 0..2 { let mut c = head(5, t); c.extend([m, i, ok]); sink.case(c, "single-default-resolver"); } } } }
  // resolve_multiple: DID lists with duplicates and unsupported methods; ALL completion orders; all ok/err scripts
  let lists: Vec<Vec<(i64, i64)>> = vec![vec![(1, 1)], vec![(1, 1), (1, 2)], vec![(1, 1), (2, 1), (1, 1)], vec![(1, 1), (1, 2), (2, 1), (2, 2), (1, 2)], vec![(1, 1), (3, 1)], vec![(1, 1), (1, 2), (2, 1), (1, 3), (2, 2)], vec![]];
  for t in &tables[1..] { for l in &lists {
    let mut distinct: Vec<(i64, i64)> = vec![]; for d in l { if !distinct.contains(d) { distinct.push(*d); } }
    if distinct.len() > (if thorough { 5 } else { 4 }) { continue; }
    let scripts: Vec<u32> = if distinct.len() <= 3 || thorough { (0..(1u32 << distinct.len())).collect() } else { vec![(1 << distinct.len()) - 1, 0b0101, 0b1110, 0b0111] };
    for p in perms(distinct.len()) { for sc in &scripts {
      let mut c = head(2, t); c.push(l.len() as i64);
      for d in l { let k = distinct.iter().position(|x| x == d).unwrap(); c.extend([d.0, d.1, ((sc >> k) & 1) as i64]); }
      c.push(distinct.len() as i64); for k in &p { c.extend([distinct[*k].0, distinct[*k].1]); }
      sink.case(c, "multi-permutations");
    } }
  } }
  // every input sequence of length <= 4 over three DIDs (two methods): repeats in every position relative to first occurrences
  { let pool = [(1i64, 1i64), (1, 2), (2, 1)]; let mut seqs: Vec<Vec<(i64, i64)>> = vec![vec![]];
    for len in 1..=4usize { let mut idx = vec![0usize; len]; loop { seqs.push(idx.iter().map(|i| pool[*i]).collect()); let mut k = 0; while k < len { idx[k] += 1; if idx[k] < 3 { break; } idx[k] = 0; k += 1; } if k == len { break; } } }
    for t in &tables[1..] { for l in &seqs {
      let mut distinct: Vec<(i64, i64)> = vec![]; for d in l { if !distinct.contains(d) { distinct.push(*d); } }
      if distinct.len() == l.len() && !thorough { continue; }       // sequences without a repeat are covered above
      let all = (1u32 << distinct.len()) - 1;
      for p in perms(distinct.len()) { for sc in [all, all & !1] {
        let mut c = head(2, t); c.push(l.len() as i64);
        for d in l { let k = distinct.iter().position(|x| x == d).unwrap(); c.extend([d.0, d.1, ((sc >> k) & 1) as i64]); }
        c.push(distinct.len() as i64); for k in &p { c.extend([distinct[*k].0, distinct[*k].1]); }
        sink.case(c, "multi-repeats");
      } }
    } }
  }
  if thorough { for _ in 0..300 { let t = &tables[3]; let n = 6; let l: Vec<(i64, i64)> = (0..n).map(|k| (1 + k % 3, 1 + k / 3)).collect(); let mut p: Vec<usize> = (0..n as usize).collect(); for i in (1..p.len()).rev() { let j = rng.below(i as u64 + 1) as usize; p.swap(i, j); }
    let mut c = head(2, t); c.push(n); for d in &l { c.extend([d.0, d.1, rng.chance(9, 10) as i64]); } c.push(n); for k in &p { c.extend([l[*k].0, l[*k].1]); } sink.case(c, "multi-random-6"); } }
  // many distinct DIDs at once (more than any plausible concurrency limit), completing last-listed first, first-listed first and interleaved
  for n in [9i64, 12, 17] { let t = &tables[3]; let l: Vec<(i64, i64)> = (0..n).map(|k| (1 + k % 3, 1 + k / 3)).collect();
    let orders: Vec<Vec<usize>> = vec![(0..n as usize).rev().collect(), (0..n as usize).collect(), (0..n as usize).map(|k| if k % 2 == 0 { k / 2 } else { n as usize - 1 - k / 2 }).collect()];
    for p in &orders { for bad in [-1i64, 0, n - 1] {
      let mut c = head(2, t); c.push(n); for (k, d) in l.iter().enumerate() { c.extend([d.0, d.1, (k as i64 != bad) as i64]); } c.push(n); for k in p { c.extend([l[*k].0, l[*k].1]); } sink.case(c, "multi-many");
    } } }
  for key in 0..4 { sink.case(vec![3, 0, 9, key], "did-jwk"); sink.case(vec![4, 0, 9, key], "did-jwk-private"); }
  // every single optional member, all of them, and random subsets, on every key type
  for key in 0..4 { for opt in (0..8).map(|b| 1i64 << b).chain([255, 15, 240]) { sink.case(vec![3, 0, 9, key + 10 * opt], "did-jwk-optional-members"); sink.case(vec![4, 0, 9, key + 10 * opt], "did-jwk-private"); }
    for _ in 0..(if thorough { 60 } else { 8 }) { sink.case(vec![3, 0, 9, key + 10 * rng.range(1, 254)], "did-jwk-optional-members"); } }
}
