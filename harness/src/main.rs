//! vharness <prop> gen <seed> <tier> <outfile> [corpus files...]   — generate cases, run the implementation
//! vharness <prop> replay <file>                                   — re-run the cases of a file, print lines
mod common;
mod c02;
mod c03;
mod c04;
mod c05;
mod c06;
mod c07;
mod c09;
mod c10;
mod jws;
mod jws_storage;
mod c11;
mod c12;
mod c13;
mod c14;
mod c15;
mod c16;
mod c17;
mod c18;
mod c19;
mod c20;

use common::*;
use std::io::{BufRead, BufWriter, Write};

struct Prop {
  id: &'static str,
  exec: ExecFn,
  classify: ClassifyFn,
  gen: fn(&mut Rng, bool, &mut Sink),
}

fn props() -> Vec<Prop> {
  vec![
    Prop { id: "C01", exec: jws::exec, classify: no_class, gen: jws::gen_c01 },
    Prop { id: "C02", exec: c02::exec, classify: no_class, gen: c02::gen },
    Prop { id: "C03", exec: c03::exec, classify: no_class, gen: c03::gen },
    Prop { id: "C04", exec: c04::exec, classify: no_class, gen: c04::gen },
    Prop { id: "C08", exec: jws::exec, classify: no_class, gen: jws::gen_c08 },
    Prop { id: "C09", exec: c09::exec, classify: no_class, gen: c09::gen },
    Prop { id: "C10", exec: c10::exec, classify: c10::classify, gen: c10::gen },
    Prop { id: "C11", exec: c11::exec, classify: no_class, gen: c11::gen },
    Prop { id: "C12", exec: c12::exec, classify: no_class, gen: c12::gen },
    Prop { id: "C13", exec: c13::exec, classify: no_class, gen: c13::gen },
    Prop { id: "C05", exec: c05::exec, classify: c05::classify, gen: c05::gen },
    Prop { id: "C06", exec: c06::exec, classify: no_class, gen: c06::gen },
    Prop { id: "C07", exec: c07::exec, classify: no_class, gen: c07::gen },
    Prop { id: "C14", exec: c14::exec, classify: no_class, gen: c14::gen },
    Prop { id: "C15", exec: c15::exec, classify: no_class, gen: c15::gen },
    Prop { id: "C16", exec: c16::exec, classify: no_class, gen: c16::gen },
    Prop { id: "C17", exec: c17::exec, classify: no_class, gen: c17::gen },
    Prop { id: "C18", exec: c18::exec, classify: no_class, gen: c18::gen },
    Prop { id: "C19", exec: c19::exec, classify: no_class, gen: c19::gen },
    Prop { id: "C20", exec: c20::exec, classify: no_class, gen: c20::gen },
  ]
}

fn parse_case_line(line: &str) -> Option<(Vec<i64>, String)> {
  let body = line.split('#').next()?;
  let comment = line.splitn(2, '#').nth(1).unwrap_or("").trim().to_string();
  let inp = body.split('|').next()?;
  let mut toks = inp.split_whitespace();
  let pid = toks.next()?;
  if !pid.starts_with('C') { return None; }
  let ints: Option<Vec<i64>> = toks.map(|t| t.parse::<i64>().ok()).collect();
  Some((ints?, comment))
}

fn main() {
  if std::env::var_os("VH_PANIC").is_none() { std::panic::set_hook(Box::new(|_| {})); }
  let args: Vec<String> = std::env::args().collect();
  if args.len() < 4 { eprintln!("usage: vharness <prop> gen <seed> <tier> <out> [corpus...] | replay <file>"); std::process::exit(2); }
  let pid = args[1].to_uppercase();
  let prop = match props().into_iter().find(|p| p.id == pid) { Some(p) => p, None => { eprintln!("unknown property {}", pid); std::process::exit(2) } };
  match args[2].as_str() {
    // abortprobe <probe> <hex of the input>: runs one consuming conversion in THIS process; the parent (c05 entry 42) looks at how the process ended,
    // because a stack overflow or abort cannot be caught by catch_unwind
    "abortprobe" => {
      let probe: i64 = args[3].parse().unwrap_or(0);
      let bytes: Vec<u8> = (0..args.get(4).map_or(0, |h| h.len() / 2)).map(|i| u8::from_str_radix(&args[4][2 * i..2 * i + 2], 16).unwrap_or(0)).collect();
      c05::abort_probe(probe, &bytes);
      std::process::exit(0);
    }
    "gen" => {
      let seed: u64 = args[3].parse().unwrap_or(1);
      let thorough = args.get(4).map(|t| t == "thorough").unwrap_or(false);
      let out = args.get(5).expect("outfile");
      let f = std::fs::File::create(out).expect("create outfile");
      let mut w = BufWriter::new(f);
      let mut sink = Sink { prop: prop.id, out: &mut w, exec: prop.exec, classify: prop.classify, count: 0 };
      for cf in args.iter().skip(6) {
        if let Ok(fh) = std::fs::File::open(cf) {
          for line in std::io::BufReader::new(fh).lines().flatten() {
            if let Some((ints, c)) = parse_case_line(&line) { sink.case(ints, &format!("corpus {}", c)); }
          }
        }
      }
      let mut rng = Rng::new(seed);
      (prop.gen)(&mut rng, thorough, &mut sink);
      let n = sink.count;
      w.flush().unwrap();
      println!("GENERATED {}", n);
    }
    "replay" => {
      let fh = std::fs::File::open(&args[3]).expect("open replay file");
      let stdout = std::io::stdout();
      let mut w = stdout.lock();
      let mut sink = Sink { prop: prop.id, out: &mut w, exec: prop.exec, classify: prop.classify, count: 0 };
      for line in std::io::BufReader::new(fh).lines().flatten() {
        if let Some((ints, c)) = parse_case_line(&line) { sink.case(ints, &c); }
      }
    }
    _ => { eprintln!("unknown mode"); std::process::exit(2) }
  }
}
