//! C19 — OrderedSet / OneOrSet / OneOrMany against the list model.
//! Elements: `u8` (key = value; on the wire the pair (k, 0)) and `Kv {k, v}` keyed by `k`.
//! Case kinds (first integer), see coq/theories/Run/C19Run.v:
//!  1 ordered-set op sequence   2 constructors   3 OneOrSet deserialise   4 OneOrSet try_from+appends
//!  5 OneOrMany deserialise     6 OneOrMany from(vec)+pushes+from_iter     7 OneOrSet map (key collapse)   8 every constructor route of both wrappers on one list
//! The element type is chosen by the sign convention: every case carries pairs; when all values
//! are 0 and the last integer flag says so the u8 instantiation is used as well.
use crate::common::*;
use identity_core::common::{KeyComparable, OneOrMany, OneOrSet, OrderedSet};
use serde::{Deserialize, Serialize};

#[derive(Clone, Debug, PartialEq, Eq, Serialize, Deserialize)]
pub struct Kv { k: u8, v: u8 }
impl KeyComparable for Kv {
  type Key = u8;
  fn key(&self) -> &u8 { &self.k }
}

fn take_pairs(v: &mut &[i64]) -> Option<Vec<Kv>> {
  let n = take1(v)? as usize;
  let mut out = Vec::new();
  for _ in 0..n { let k = take1(v)?; let x = take1(v)?; out.push(Kv { k: k as u8, v: x as u8 }); }
  Some(out)
}
fn put_pairs(o: &mut Vec<i64>, xs: &[Kv]) { o.push(xs.len() as i64); for x in xs { o.push(x.k as i64); o.push(x.v as i64); } }

/// independent reference: the abstract duplicate-free list model, written directly
fn ref_step(l: &mut Vec<Kv>, op: &[i64]) -> Vec<i64> {
  let has = |l: &Vec<Kv>, k: u8| l.iter().any(|x| x.k == k);
  match op[0] {
    0 => { let x = Kv { k: op[1] as u8, v: op[2] as u8 }; if has(l, x.k) { vec![0] } else { l.push(x); vec![1] } }
    1 => { let x = Kv { k: op[1] as u8, v: op[2] as u8 }; if has(l, x.k) { vec![0] } else { l.insert(0, x); vec![1] } }
    2 | 3 => {
      let (cur, x) = if op[0] == 2 { (op[1] as u8, Kv { k: op[2] as u8, v: op[3] as u8 }) } else { (op[1] as u8, Kv { k: op[1] as u8, v: op[2] as u8 }) };
      let m = |y: &Kv| y.k == cur || y.k == x.k;
      match l.iter().position(m) {
        None => vec![0],
        Some(i) => {
          let mut out: Vec<Kv> = Vec::new();
          for (j, y) in l.iter().enumerate() { if j == i { out.push(x.clone()) } else if !m(y) { out.push(y.clone()) } }
          *l = out; vec![1]
        }
      }
    }
    4 => match l.iter().position(|y| y.k == op[1] as u8) { None => vec![0], Some(i) => { let y = l.remove(i); vec![1, y.k as i64, y.v as i64] } },
    _ => vec![-1],
  }
}

fn uniq(l: &[Kv]) -> bool { (0..l.len()).all(|i| (0..i).all(|j| l[i].k != l[j].k)) }

fn split_ops(mut v: &[i64]) -> Option<Vec<Vec<i64>>> {
  let mut ops = Vec::new();
  while !v.is_empty() {
    let n = match v[0] { 0 | 1 | 3 => 3, 2 => 4, 4 => 2, _ => return None };
    if v.len() < n { return None; }
    ops.push(v[..n].to_vec());
    v = &v[n..];
  }
  Some(ops)
}

fn as_u8s(l: &[Kv]) -> Option<Vec<u8>> { if l.iter().all(|x| x.v == 0) { Some(l.iter().map(|x| x.k).collect()) } else { None } }

fn shape_of(j: &serde_json::Value) -> i64 { if j.is_array() { 1 } else { 0 } }

pub fn exec(case: &[i64]) -> Outcome {
  let mut v = &case[1..];
  match case[0] {
    1 => {
      let init = take_pairs(&mut v).unwrap();
      let ops = split_ops(v).unwrap();
      let set = OrderedSet::try_from(init.clone());
      let mut set = match set { Ok(s) => s, Err(_) => { let o = Outcome::new(vec![0]).class("init-dup").trivial(); return if uniq(&init) { o.fail("try_from rejected duplicate-free list") } else { o } } };
      if !uniq(&init) { return Outcome::new(vec![1]).fail("try_from accepted duplicates"); }
      // the same run on OrderedSet<u8> when every value is 0 (key = value instantiation)
      let all_zero = init.iter().all(|x| x.v == 0) && ops.iter().all(|o| match o[0] { 0 | 1 | 3 => o[2] == 0, 2 => o[3] == 0, _ => true });
      let mut set8: Option<OrderedSet<u8>> = if all_zero { Some(OrderedSet::try_from(as_u8s(&init).unwrap()).unwrap()) } else { None };
      let mut reference = init.clone();
      let mut obs = vec![1];
      let mut why: Option<String> = None;
      let (mut changed, mut refused) = (false, false);
      for op in &ops {
        let before: Vec<Kv> = set.as_slice().to_vec();
        let here: Vec<i64> = match op[0] {
          0 => vec![set.append(Kv { k: op[1] as u8, v: op[2] as u8 }) as i64],
          1 => vec![set.prepend(Kv { k: op[1] as u8, v: op[2] as u8 }) as i64],
          2 => vec![set.replace(&Kv { k: op[1] as u8, v: 0 }, Kv { k: op[2] as u8, v: op[3] as u8 }) as i64],
          3 => vec![set.update(Kv { k: op[1] as u8, v: op[2] as u8 }) as i64],
          4 => match set.remove(&Kv { k: op[1] as u8, v: 0 }) { Some(x) => vec![1, x.k as i64, x.v as i64], None => vec![0] },
          _ => vec![-1],
        };
        if let Some(s8) = set8.as_mut() {
          let h8: Vec<i64> = match op[0] {
            0 => vec![s8.append(op[1] as u8) as i64],
            1 => vec![s8.prepend(op[1] as u8) as i64],
            2 => vec![s8.replace(&(op[1] as u8), op[2] as u8) as i64],
            3 => vec![s8.update(op[1] as u8) as i64],
            4 => match s8.remove(&(op[1] as u8)) { Some(x) => vec![1, x as i64, 0], None => vec![0] },
            _ => vec![-1],
          };
          if h8 != here || Some(s8.as_slice().to_vec()) != as_u8s(set.as_slice()) { why.get_or_insert("u8 and struct instantiations disagree".into()); }
        }
        let expect = ref_step(&mut reference, op);
        if here[0] == 0 { refused = true; if before != set.as_slice() { why.get_or_insert("refused operation changed the set".into()); } } else { changed = true; }
        if expect != here { why.get_or_insert(format!("flag differs from list model at op {:?}", op)); }
        if reference != set.as_slice() { why.get_or_insert(format!("order/content differs from list model after op {:?}", op)); }
        if !uniq(set.as_slice()) { why.get_or_insert("duplicate key in set".into()); }
        obs.extend(here);
      }
      put_pairs(&mut obs, set.as_slice());
      let mut o = Outcome::new(obs).class("seq");
      if !(changed && refused) { o = o.trivial(); }
      match why { Some(w) => o.fail(&w), None => o }
    }
    2 => {
      let l = take_pairs(&mut v).unwrap();
      let mut obs = Vec::new();
      let mut why: Option<&str> = None;
      match OrderedSet::try_from(l.clone()) {
        Ok(s) => { obs.push(1); put_pairs(&mut obs, s.as_slice()); if !uniq(&l) { why = Some("try_from accepted duplicates"); } if s.as_slice() != l.as_slice() { why = Some("try_from changed the list"); } }
        Err(_) => { obs.push(0); if uniq(&l) { why = Some("try_from rejected duplicate-free list"); } }
      }
      let c: OrderedSet<Kv> = l.iter().cloned().collect();
      put_pairs(&mut obs, c.as_slice());
      // keep-first reference
      let mut r: Vec<Kv> = Vec::new();
      for x in &l { if !r.iter().any(|y| y.k == x.k) { r.push(x.clone()); } }
      if r != c.as_slice() { why = Some("collect did not keep first occurrences"); }
      // JSON gate of the set itself
      let js = serde_json::to_string(&l).unwrap();
      let de: Result<OrderedSet<Kv>, _> = serde_json::from_str(&js);
      if de.is_ok() != uniq(&l) { why = Some("deserialisation gate differs from uniqueness"); }
      let mut o = Outcome::new(obs).class(if uniq(&l) { "ctor-unique" } else { "ctor-dup" });
      if uniq(&l) && l.len() < 2 { o = o.trivial(); }
      match why { Some(w) => o.fail(w), None => o }
    }
    3 | 5 => {
      let json = if v[0] == 0 { serde_json::to_value(Kv { k: v[1] as u8, v: v[2] as u8 }).unwrap() } else { let mut w = &v[1..]; serde_json::to_value(take_pairs(&mut w).unwrap()).unwrap() };
      let mut why: Option<&str> = None;
      let mut obs = Vec::new();
      let cls;
      if case[0] == 3 {
        match serde_json::from_value::<OneOrSet<Kv>>(json.clone()) {
          Err(_) => { obs.push(0); cls = "deser-err"; }
          Ok(x) => {
            cls = "deser-ok";
            let ser = serde_json::to_value(&x).unwrap();
            obs.push(if ser.is_array() { 2 } else { 1 });       // the representation the value has (One / Set), read off its own serialisation
            put_pairs(&mut obs, x.as_slice());
            obs.push(shape_of(&ser));
            let back = serde_json::from_value::<OneOrSet<Kv>>(ser.clone());
            let same = matches!(&back, Ok(b) if *b == x);
            obs.push(same as i64);
            if !same { why = Some("OneOrSet does not deserialise from its own JSON to an equal value"); }
            if x.len() == 0 { why = Some("empty OneOrSet"); }
            if !uniq(x.as_slice()) { why = Some("OneOrSet with duplicate keys"); }
            // a one-element array is held as One (like every constructor does) and written back as the bare item; every other text comes back verbatim
            let single_array = json.as_array().map_or(false, |a| a.len() == 1);
            if ser != json && !(single_array && Some(&ser) == json.get(0)) { why = Some("OneOrSet reserialises differently"); }
            if single_array && serde_json::from_value::<OneOrSet<Kv>>(json[0].clone()).ok().as_ref() != Some(&x) { why = Some("a one-element array and the bare item deserialise to unequal OneOrSet values"); }
          }
        }
      } else {
        match serde_json::from_value::<OneOrMany<Kv>>(json.clone()) {
          Err(_) => { obs.push(0); cls = "deser-err"; why = Some("OneOrMany rejected a scalar/array of elements"); }
          Ok(x) => {
            cls = "deser-ok";
            obs.push(if matches!(x, OneOrMany::One(_)) { 1 } else { 2 });
            put_pairs(&mut obs, x.as_slice());
            let ser = serde_json::to_value(&x).unwrap();
            obs.push(shape_of(&ser));
            let back = serde_json::from_value::<OneOrMany<Kv>>(ser.clone());
            let same = matches!(&back, Ok(b) if *b == x);
            obs.push(same as i64);
            if !same { why = Some("OneOrMany does not deserialise from its own JSON to an equal value"); }
            if ser != json { why = Some("OneOrMany reserialises differently"); }
          }
        }
      }
      let o = Outcome::new(obs).class(cls);
      match why { Some(w) => o.fail(w), None => o }
    }
    4 => {
      let l = take_pairs(&mut v).unwrap();
      let xs = take_pairs(&mut v).unwrap();
      let mut why: Option<&str> = None;
      let oos_obs = |x: &OneOrSet<Kv>, obs: &mut Vec<i64>| {
        let ser = serde_json::to_value(x).unwrap();
        obs.push(if ser.is_array() { 2 } else { 1 });
        put_pairs(obs, x.as_slice());
      };
      let mut obs = Vec::new();
      match OneOrSet::try_from(l.clone()) {
        Err(_) => { obs.push(0); if !l.is_empty() && uniq(&l) { why = Some("OneOrSet::try_from rejected a valid list"); } let o = Outcome::new(obs).class("oos-ctor-err").trivial(); return match why { Some(w) => o.fail(w), None => o }; }
        Ok(mut x) => {
          if l.is_empty() || !uniq(&l) { why = Some("OneOrSet::try_from accepted empty/duplicate list"); }
          oos_obs(&x, &mut obs);
          if l.len() == 1 && serde_json::to_value(&x).unwrap().is_array() { why = Some("singleton not serialised bare"); }
          for a in &xs {
            let before = x.clone();
            let b = x.append(a.clone());
            obs.push(b as i64);
            if !b && before != x { why = Some("refused append changed the value"); }
            if b != !before.as_slice().iter().any(|y| y.k == a.k) { why = Some("append flag wrong"); }
            if !uniq(x.as_slice()) || x.len() == 0 { why = Some("OneOrSet invariant broken by append"); }
          }
          oos_obs(&x, &mut obs);
          let ser = serde_json::to_value(&x).unwrap();
          obs.push(shape_of(&ser));
          let back = serde_json::from_value::<OneOrSet<Kv>>(ser);
          if !matches!(&back, Ok(b) if *b == x) { why = Some("OneOrSet does not deserialise from its own JSON to an equal value"); }
        }
      }
      let o = Outcome::new(obs).class("oos-seq");
      match why { Some(w) => o.fail(w), None => o }
    }
    6 => {
      let l = take_pairs(&mut v).unwrap();
      let xs = take_pairs(&mut v).unwrap();
      let mut why: Option<&str> = None;
      let oom_obs = |x: &OneOrMany<Kv>, obs: &mut Vec<i64>| { obs.push(if matches!(x, OneOrMany::One(_)) { 1 } else { 2 }); put_pairs(obs, x.as_slice()); };
      let mut obs = Vec::new();
      let mut x: OneOrMany<Kv> = OneOrMany::from(l.clone());
      oom_obs(&x, &mut obs);
      if l.len() == 1 && serde_json::to_value(&x).unwrap().is_array() { why = Some("singleton not serialised bare"); }
      for a in &xs { x.push(a.clone()); }
      oom_obs(&x, &mut obs);
      let mut all = l.clone(); all.extend(xs.iter().cloned());
      if x.as_slice() != all.as_slice() { why = Some("push lost or reordered elements"); }
      let ser = serde_json::to_value(&x).unwrap();
      obs.push(shape_of(&ser));
      let back = serde_json::from_value::<OneOrMany<Kv>>(ser);
      if !matches!(&back, Ok(b) if *b == x) { why = Some("OneOrMany does not deserialise from its own JSON to an equal value"); }
      let fi: OneOrMany<Kv> = all.iter().cloned().collect();
      oom_obs(&fi, &mut obs);
      if fi.as_slice() != all.as_slice() { why = Some("from_iter lost or reordered elements"); }
      let o = Outcome::new(obs).class("oom-seq");
      match why { Some(w) => o.fail(w), None => o }
    }
    7 => {
      let m = take1(&mut v).unwrap();
      let l = take_pairs(&mut v).unwrap();
      let mut obs = Vec::new();
      let mut why: Option<&str> = None;
      match OneOrSet::try_from(l.clone()) {
        Err(_) => { obs.push(0); return Outcome::new(obs).class("oos-ctor-err").trivial(); }
        Ok(x) => {
          let y = x.map(|e| Kv { k: if m == 0 { e.k } else { (e.k as i64 % m) as u8 }, v: e.v });
          let ser = serde_json::to_value(&y).unwrap();
          obs.push(if ser.is_array() { 2 } else { 1 });
          put_pairs(&mut obs, y.as_slice());
          if y.len() == 0 || !uniq(y.as_slice()) { why = Some("OneOrSet invariant broken by map"); }
          if y.len() == 1 && ser.is_array() { why = Some("singleton not serialised bare after map"); }
          let back = serde_json::from_value::<OneOrSet<Kv>>(ser);
          if !matches!(&back, Ok(b) if *b == y) { why = Some("OneOrSet does not deserialise from its own JSON to an equal value"); }
        }
      }
      let o = Outcome::new(obs).class("oos-map");
      match why { Some(w) => o.fail(w), None => o }
    }
    8 => {
      // every constructor route of the wrappers on one list: OneOrSet::try_from(Vec), new_set(OrderedSet), TryFrom<OrderedSet>, (singleton) new_one, From<T>;
      // OneOrMany::from(Vec), from_iter, (singleton) From<T>, One(x).  Each value: shape + elements; singletons bare; routes equal; own JSON reads back equal
      let l = take_pairs(&mut v).unwrap();
      let mut obs = Vec::new(); let mut why: Option<&str> = None;
      let set = OrderedSet::try_from(l.clone()).ok();
      let mut oos: Vec<Option<OneOrSet<Kv>>> = vec![OneOrSet::try_from(l.clone()).ok(), set.clone().and_then(|s| OneOrSet::new_set(s).ok()), set.clone().and_then(|s| OneOrSet::try_from(s).ok())];
      if l.len() == 1 { oos.push(Some(OneOrSet::new_one(l[0].clone()))); oos.push(Some(OneOrSet::from(l[0].clone()))); }
      for x in &oos { match x { None => { obs.push(0); if !l.is_empty() && uniq(&l) { why = Some("a OneOrSet constructor rejected a valid list"); } }
        Some(x) => { let ser = serde_json::to_value(x).unwrap(); obs.push(if ser.is_array() { 2 } else { 1 }); put_pairs(&mut obs, x.as_slice());
          if l.is_empty() || !uniq(&l) { why = Some("a OneOrSet constructor accepted an empty / duplicate list"); }
          if x.len() == 1 && ser.is_array() { why = Some("singleton OneOrSet built through a constructor is not serialised as a bare value"); }
          if !matches!(serde_json::from_value::<OneOrSet<Kv>>(ser), Ok(b) if b == *x) { why = Some("OneOrSet does not deserialise from its own JSON to an equal value"); }
          if x.as_slice() != l.as_slice() { why = Some("OneOrSet constructor lost or reordered elements"); } } } }
      for a in oos.iter().flatten() { for b in oos.iter().flatten() { if a != b { why = Some("two OneOrSet constructors give unequal values for one list"); } } }
      let mut oom: Vec<OneOrMany<Kv>> = vec![OneOrMany::from(l.clone()), l.iter().cloned().collect()];
      if l.len() == 1 { oom.push(OneOrMany::from(l[0].clone())); oom.push(OneOrMany::One(l[0].clone())); }
      for x in &oom { let ser = serde_json::to_value(x).unwrap(); obs.push(if matches!(x, OneOrMany::One(_)) { 1 } else { 2 }); put_pairs(&mut obs, x.as_slice());
        if x.len() == 1 && ser.is_array() { why = Some("singleton OneOrMany built through a constructor is not serialised as a bare value"); }
        if !matches!(serde_json::from_value::<OneOrMany<Kv>>(ser), Ok(b) if b == *x) { why = Some("OneOrMany does not deserialise from its own JSON to an equal value"); }
        if x.as_slice() != l.as_slice() { why = Some("OneOrMany constructor lost or reordered elements"); } }
      for a in &oom { for b in &oom { if a != b { why = Some("two OneOrMany constructors give unequal values for one list"); } } }
      // from_iter looks at the iterator's size hint: the same list through iterators with every kind of hint (exact, loose, open, lower bound 1, wrong)
      struct Hinted<I> { inner: I, lo: usize, hi: Option<usize> }
      impl<I: Iterator> Iterator for Hinted<I> { type Item = I::Item; fn next(&mut self) -> Option<I::Item> { self.inner.next() } fn size_hint(&self) -> (usize, Option<usize>) { (self.lo, self.hi) } }
      let mut fi: Vec<OneOrMany<Kv>> = vec![l.clone().into_iter().filter(|_| true).collect(), { let mut it = l.clone().into_iter(); std::iter::from_fn(move || it.next()).collect() }];
      if let Some(first) = l.first().cloned() {
        fi.push(std::iter::once(first.clone()).chain(l[1..].to_vec().into_iter().filter(|_| true)).collect());
        let rest = l[1..].to_vec(); let mut k = 0usize; fi.push(std::iter::successors(Some(first), move |_| { let r = rest.get(k).cloned(); k += 1; r }).collect());
      }
      for (lo, hi) in [(0, Some(0)), (0, Some(1)), (1, Some(1)), (1, Some(2)), (1, None), (0, None), (2, Some(2)), (l.len(), Some(l.len())), (1, Some(usize::MAX))] { fi.push(Hinted { inner: l.clone().into_iter(), lo, hi }.collect()); }
      for x in &fi { if *x != oom[0] || x.as_slice() != l.as_slice() { why = Some("OneOrMany::from_iter gives a different value for the same elements depending on the iterator's size hint"); }
        if x.len() == 1 && serde_json::to_value(x).unwrap().is_array() { why = Some("singleton OneOrMany built through a constructor is not serialised as a bare value"); } }
      let o = Outcome::new(obs).class("wrapper-routes");
      match why { Some(w) => o.fail(w), None => o }
    }
    _ => Outcome::new(vec![-998]).fail("bad case kind"),
  }
}

fn all_ops(keys: &[i64], vals: &[i64]) -> Vec<Vec<i64>> {
  let mut ops = Vec::new();
  for &k in keys { for &v in vals { ops.push(vec![0, k, v]); ops.push(vec![1, k, v]); ops.push(vec![3, k, v]); for &c in keys { ops.push(vec![2, c, k, v]); } } ops.push(vec![4, k]); }
  ops
}

fn seqs(ops: &[Vec<i64>], depth: usize, prefix: &mut Vec<i64>, init: &[i64], sink: &mut Sink, tag: &str) {
  if depth == 0 {
    let mut c = vec![1]; c.extend_from_slice(init); c.extend_from_slice(prefix);
    sink.case(c, tag);
    return;
  }
  for op in ops {
    let n = prefix.len();
    prefix.extend_from_slice(op);
    seqs(ops, depth - 1, prefix, init, sink, tag);
    prefix.truncate(n);
  }
}

fn lists(univ: &[(i64, i64)], maxlen: usize, cur: &mut Vec<(i64, i64)>, f: &mut dyn FnMut(&[(i64, i64)])) {
  f(cur);
  if cur.len() == maxlen { return; }
  for &e in univ { cur.push(e); lists(univ, maxlen, cur, f); cur.pop(); }
}
fn enc_pairs(l: &[(i64, i64)]) -> Vec<i64> { let mut v = vec![l.len() as i64]; for (a, b) in l { v.push(*a); v.push(*b); } v }

pub fn gen(rng: &mut Rng, thorough: bool, sink: &mut Sink) {
  // (a) exhaustive op sequences: key = projection type, universe 3 keys x 2 values (39 ops)
  let ops_kv = all_ops(&[1, 2, 3], &[0, 1]);
  let ops_u8 = all_ops(&[1, 2, 3], &[0]);
  let inits: [&[i64]; 2] = [&[0], &[2, 1, 0, 2, 1]];
  let depth_kv = if thorough { 4 } else { 3 };
  for d in 1..=depth_kv { for init in inits.iter() { if d == 4 && init.len() > 1 { continue; } seqs(&ops_kv, d, &mut Vec::new(), init, sink, "exh-kv"); } }
  // key = value type: all values 0 -> the harness also drives OrderedSet<u8>
  let depth_u8 = if thorough { 5 } else { 4 };
  for d in 1..=depth_u8 { seqs(&ops_u8, d, &mut Vec::new(), &[0], sink, "exh-u8"); seqs(&ops_u8, d.min(4), &mut Vec::new(), &[3, 3, 0, 1, 0, 2, 0], sink, "exh-u8-init"); }
  // four keys: order defects that need a later non-last entry (e.g. swap_remove) show only with >= 4 elements
  let ops_u8_4 = all_ops(&[1, 2, 3, 4], &[0]);
  for d in 1..=(if thorough { 4 } else { 3 }) { seqs(&ops_u8_4, d, &mut Vec::new(), &[4, 1, 0, 2, 0, 3, 0, 4, 0], sink, "exh-u8-4keys"); }
  seqs(&all_ops(&[1, 2, 3, 4, 5], &[0, 1]), 2, &mut Vec::new(), &[5, 1, 0, 2, 1, 3, 0, 4, 1, 5, 0], sink, "exh-kv-5keys");
  // (b) every list over a 4-element universe up to length 4: constructors, wrappers, JSON
  let univ = [(1, 0), (1, 1), (2, 0), (3, 5)];
  let mut all: Vec<Vec<(i64, i64)>> = Vec::new();
  lists(&univ, 4, &mut Vec::new(), &mut |l| all.push(l.to_vec()));
  for l in &all {
    let p = enc_pairs(l);
    let mut c = vec![2]; c.extend(&p); sink.case(c, "ctor");
    let mut c = vec![3, 1]; c.extend(&p); sink.case(c, "oos-deser-array");
    let mut c = vec![5, 1]; c.extend(&p); sink.case(c, "oom-deser-array");
    for m in [0, 2] { let mut c = vec![7, m]; c.extend(&p); sink.case(c, "oos-map"); }
    let mut c = vec![8]; c.extend(&p); sink.case(c, "wrapper-routes");
  }
  for &(k, v) in &univ { sink.case(vec![3, 0, k, v], "oos-deser-scalar"); sink.case(vec![5, 0, k, v], "oom-deser-scalar"); }
  // wrappers: constructor list x appended/pushed elements (up to 2 / 3)
  let short: Vec<&Vec<(i64, i64)>> = all.iter().filter(|l| l.len() <= 3).collect();
  let adds: Vec<&Vec<(i64, i64)>> = all.iter().filter(|l| l.len() <= 2).collect();
  for l in &short { for a in &adds {
    let mut c = vec![4]; c.extend(enc_pairs(l)); c.extend(enc_pairs(a)); sink.case(c, "oos-append");
    let mut c = vec![6]; c.extend(enc_pairs(l)); c.extend(enc_pairs(a)); sink.case(c, "oom-push");
  } }
  // (c) random long sequences over a larger universe
  let n = if thorough { 40000 } else { 3000 };
  for _ in 0..n {
    let nk = rng.range(2, 6);
    let mut init: Vec<(i64, i64)> = Vec::new();
    for k in 0..nk { if rng.chance(1, 2) { init.push((k, rng.range(0, 3))); } }
    let mut c = vec![1]; c.extend(enc_pairs(&init));
    let len = rng.range(4, 50);
    for _ in 0..len {
      let k = rng.range(0, nk); let v = rng.range(0, 3);
      match rng.below(5) { 0 => c.extend([0, k, v]), 1 => c.extend([1, k, v]), 2 => c.extend([2, rng.range(0, nk), k, v]), 3 => c.extend([3, k, v]), _ => c.extend([4, k]) }
    }
    sink.case(c, "rand-seq");
  }
}
