//! C05 — panic freedom of the public entry points, against "returns" (and the IntegrityMetadata model).
//! case = entry <LP bytes> extra..   see coq/theories/Run/C05Run.v
use crate::common::*;
use async_trait::async_trait;
use identity_core::common::{Object, OneOrMany, OneOrSet, OrderedSet, Timestamp, Url};
use identity_core::convert::{FromJson, ToJson};
use identity_credential::credential::{Credential, Jwt, LinkedDomainService, LinkedVerifiablePresentationService, RevocationBitmapStatus, Status};
use identity_credential::domain_linkage::{DomainLinkageConfiguration, JwtDomainLinkageValidator};
use identity_credential::sd_jwt_vc::metadata::{ClaimMetadata, IssuerMetadata, TypeMetadata};
use identity_credential::presentation::{JwtPresentationOptions, Presentation};
use identity_credential::revocation::status_list_2021::{StatusList2021, StatusList2021Credential};
use identity_credential::revocation::RevocationBitmap;
use identity_credential::sd_jwt_payload::{SdJwt, SdObjectDecoder};
use identity_credential::sd_jwt_vc::metadata::IntegrityMetadata;
use identity_credential::sd_jwt_vc::{resolver, Resolver, SdJwtVc};
use identity_credential::validator::{FailFast, JwtCredentialValidationOptions, JwtCredentialValidator, JwtPresentationValidationOptions, JwtPresentationValidator, KeyBindingJWTValidationOptions, SdJwtCredentialValidator};
use identity_did::{CoreDID, DIDJwk, DIDUrl, DID};
use identity_document::document::CoreDocument;
use identity_document::service::Service;
use identity_document::verifiable::JwsVerificationOptions;
use identity_ecdsa_verifier::EcDSAJwsVerifier;
use identity_eddsa_verifier::EdDSAJwsVerifier;
use identity_iota_core::{IotaDID, IotaDocument, NetworkName, StateMetadataDocument};
use identity_jose::jwk::{Jwk, JwkSet};
use identity_jose::jws::{Decoder, JwsAlgorithm, JwsHeader, JwsVerifier, SignatureVerificationError, VerificationInput};
use identity_storage::key_id_storage::MethodDigest;
use identity_verification::{MethodScope, VerificationMethod};
use serde_json::{json, Value};

/// dispatches on alg like the verifiers an integrator would plug in
struct AnyVerifier;
impl JwsVerifier for AnyVerifier {
  fn verify(&self, input: VerificationInput, key: &Jwk) -> Result<(), SignatureVerificationError> {
    match input.alg { JwsAlgorithm::EdDSA => EdDSAJwsVerifier::default().verify(input, key), _ => EcDSAJwsVerifier::default().verify(input, key) }
  }
}
struct NoResolver;
#[async_trait]
impl Resolver<Url, Vec<u8>> for NoResolver { async fn resolve(&self, input: &Url) -> Result<Vec<u8>, resolver::Error> { Err(resolver::Error::NotFound(input.to_string())) } }
#[async_trait]
impl Resolver<Url, Value> for NoJsonResolver { async fn resolve(&self, input: &Url) -> Result<Value, resolver::Error> {
  // answers with a type that extends itself / a schema, so that the recursive path is walked
  if input.as_str().ends_with("/schema") { Ok(json!({"type": "object"})) } else if input.as_str().ends_with("/loop") { Ok(json!({"vct": "https://issuer.example/loop", "extends": "https://issuer.example/loop"})) } else { Err(resolver::Error::NotFound(input.to_string())) } } }
struct NoJsonResolver;
#[async_trait]
impl Resolver<identity_core::common::StringOrUrl, Vec<u8>> for NoResolver { async fn resolve(&self, input: &identity_core::common::StringOrUrl) -> Result<Vec<u8>, resolver::Error> { Err(resolver::Error::NotFound(input.to_string())) } }

const DOC: &str = r#"{"id":"did:example:issuer","verificationMethod":[{"id":"did:example:issuer#k","controller":"did:example:issuer","type":"JsonWebKey","publicKeyJwk":{"kty":"OKP","crv":"Ed25519","x":"11qYAYKxCrfVS_7TyWQHOg7hcvPapiMlrwIaaPcHURo"}},{"id":"did:example:issuer#p","controller":"did:example:issuer","type":"JsonWebKey","publicKeyJwk":{"kty":"EC","crv":"P-256","x":"MKBCTNIcKUSDii11ySs3526iDZ8AiTo7Tu6KPAqv7D4","y":"4Etl6SRW2YiLUrN5vfvVHuhp7x8PxltmWWlbbM4IFyM"}}],"authentication":["did:example:issuer#k"],"service":[{"id":"did:example:issuer#rev","type":"RevocationBitmap2022","serviceEndpoint":"data:application/octet-stream;base64,eJyzMmAAAwADKABr"}]}"#;
pub const ENTRIES: usize = 46;
fn s(bytes: &[u8]) -> String { String::from_utf8_lossy(bytes).to_string() }
fn sink<T: std::fmt::Debug>(x: T) { let _ = format!("{:?}", x); }

/// runs entry point `e` on `bytes`; panics propagate to exec_caught
fn run(e: i64, bytes: &[u8], extra: &[i64]) -> Vec<i64> {
  let t = s(bytes); let doc = CoreDocument::from_json(DOC).unwrap();
  match e {
    1 => { if let Ok(d) = CoreDID::parse(&t) { sink((d.method(), d.method_id(), d.as_str(), d.to_string(), d.to_url().to_string())); let _ = d.clone().join("#x"); let _ = d.to_json(); sink(d); } }
    2 => { if let Ok(u) = DIDUrl::parse(&t) { sink((u.did().method(), u.did().method_id(), u.path(), u.query(), u.fragment(), u.to_string())); let _: Vec<_> = u.query_pairs().collect(); let _ = u.to_json(); let _ = Url::from(u.clone()); let _ = u.join("#y"); } }
    3 => { let base = DIDUrl::parse("did:example:abc").unwrap(); if let Ok(u) = base.join(&t) { sink((u.path(), u.query(), u.fragment(), u.to_string())); } let mut m = base.clone(); let _ = m.set_path(Some(&t)); let _ = m.set_query(Some(&t)); let _ = m.set_fragment(Some(&t)); sink(m.to_string()); }
    4 => { if let Ok(d) = IotaDID::parse(&t) { sink((d.network_str(), d.tag_str(), d.to_string())); let _ = d.to_json(); let _ = d.to_url().to_string(); } let _ = IotaDID::check_validity(&match CoreDID::parse(&t) { Ok(c) => c, Err(_) => return vec![0] }); }
    5 => { if let Ok(d) = DIDJwk::parse(&t) { let j = d.jwk(); sink((j.kty(), j.is_public())); let _ = CoreDocument::expand_did_jwk(d); } }
    6 => { if let Ok(ts) = Timestamp::parse(&t) { sink((ts.to_rfc3339(), ts.to_unix(), ts.to_string())); let _ = ts.to_json(); let _ = ts.checked_add(identity_core::common::Duration::days(1)); let _ = ts.checked_sub(identity_core::common::Duration::weeks(500000)); } }
    7 => { if let Ok(ts) = serde_json::from_slice::<Timestamp>(bytes) { sink(ts.to_rfc3339()); } if let Some(n) = extra.first() { if let Ok(ts) = Timestamp::from_unix(*n) { sink((ts.to_rfc3339(), ts.to_unix())); } } }
    8 => { if let Ok(j) = Jwk::from_json_slice(bytes) { sink((j.kty(), j.alg(), j.kid(), j.is_private(), j.is_public(), j.thumbprint_sha256_b64())); let _ = j.to_public(); let _ = j.try_okp_params().map(|p| p.try_ed_curve().is_ok()); let _ = j.try_ec_params().map(|p| p.try_ec_curve().is_ok()); let _ = j.try_rsa_params().is_ok(); let _ = j.check_alg("EdDSA"); let _ = j.to_json();
                   let inp = VerificationInput { alg: if extra.first() == Some(&1) { JwsAlgorithm::ES256 } else if extra.first() == Some(&2) { JwsAlgorithm::ES256K } else { JwsAlgorithm::EdDSA }, signing_input: b"abc".to_vec().into(), decoded_signature: vec![7u8; 64].into() }; let _ = AnyVerifier.verify(inp, &j); let _ = MethodDigest::new(&match VerificationMethod::new_from_jwk(CoreDID::parse("did:example:abc").unwrap(), j, Some("k")) { Ok(m) => m, Err(_) => return vec![0] }); } }
    9 => { if let Ok(js) = JwkSet::from_json_slice(bytes) { sink(js.len()); for j in js.iter() { sink(j.thumbprint_sha256_b64()); } let _ = js.get("a"); let _ = js.to_json(); } }
    10 => { let d = Decoder::new(); if let Ok(item) = d.decode_compact_serialization(bytes, None) { sink((item.alg(), item.kid(), item.nonce(), item.claims().len(), item.signing_input().len(), item.decoded_signature().len())); let _ = doc.verify_jws(&t, None, &AnyVerifier, &JwsVerificationOptions::default()); let key = doc.methods(None)[(extra.first().copied().unwrap_or(0) as usize) % 2].data().public_key_jwk().unwrap().clone(); let _ = item.verify(&AnyVerifier, &key); }
            let _ = d.decode_compact_serialization(bytes, Some(b"detached")); }
    11 => { let d = Decoder::new(); if let Ok(item) = d.decode_flattened_serialization(bytes, None) { sink((item.alg(), item.kid(), item.claims().len())); let key = doc.methods(None)[0].data().public_key_jwk().unwrap().clone(); let _ = item.verify(&AnyVerifier, &key); } let _ = d.decode_flattened_serialization(bytes, Some(b"x")); }
    12 => { let d = Decoder::new(); if let Ok(it) = d.decode_general_serialization(bytes, None) { for item in it.flatten() { sink((item.alg(), item.kid())); let key = doc.methods(None)[0].data().public_key_jwk().unwrap().clone(); let _ = item.verify(&AnyVerifier, &key); } } }
    13 => { if let Ok(d) = CoreDocument::from_json_slice(bytes) { sink((d.id().to_string(), d.methods(None).len(), d.service().len())); for sc in [None, Some(MethodScope::VerificationMethod), Some(MethodScope::authentication())] { let _ = d.resolve_method("#k", sc); let _ = d.resolve_method(t.get(..8).unwrap_or("x"), sc); } let _ = d.resolve_service("#rev"); let _ = d.to_json(); let _ = d.to_string();
            let _ = d.verify_jws("eyJhbGciOiJFZERTQSIsImtpZCI6IiNrIn0.e30.AAAA", None, &AnyVerifier, &JwsVerificationOptions::default()); for m in d.methods(None) { let _ = MethodDigest::new(m); } } }
    14 => { if let Ok(d) = IotaDocument::from_json_slice(bytes) { sink(d.id().to_string()); if let Ok(p) = d.clone().pack() { let _ = StateMetadataDocument::unpack(&p).and_then(|x| x.into_iota_document(d.id())); } let _ = d.to_json(); let _ = d.to_string(); } }
    15 => { if let Ok(x) = StateMetadataDocument::unpack(bytes) { let did = IotaDID::parse("did:iota:0x1111111111111111111111111111111111111111111111111111111111111111").unwrap(); if let Ok(d) = x.into_iota_document(&did) { let _ = d.to_json(); let _ = d.pack(); } } }
    16 => { if let Ok(c) = Credential::<Object>::from_json_slice(bytes) { let _ = c.check_structure(); let _ = c.serialize_jwt(None); let _ = c.to_json(); let _ = c.to_string(); if let Some(st) = &c.credential_status { let _ = RevocationBitmapStatus::try_from(st.clone()).map(|r| (r.id().is_ok(), r.index().is_ok())); }
            let _ = identity_credential::validator::JwtCredentialValidatorUtils::check_status(&c, std::slice::from_ref(&doc), identity_credential::validator::StatusCheck::Strict); let _ = StatusList2021Credential::try_from(c).map(|sl| { let _ = sl.entry(0); let _ = sl.entry(usize::MAX); sl.purpose() }); } }
    17 => { if let Ok(p) = Presentation::<Jwt, Object>::from_json_slice(bytes) { let _ = p.serialize_jwt(&JwtPresentationOptions::default()); let _ = p.to_json(); let _ = p.to_string(); } }
    18 => { if let Ok(st) = Status::from_json_slice(bytes) { if let Ok(r) = RevocationBitmapStatus::try_from(st.clone()) { sink((r.id().is_ok(), r.index().is_ok())); } let _ = identity_credential::revocation::status_list_2021::StatusList2021Entry::try_from(&st).map(|e| (e.index(), e.purpose())); } }
    19 => { if let Ok(mut l) = StatusList2021::try_from_encoded_str(&t) { for i in [0usize, 1, 7, 8, 131071, 131072, extra.first().copied().unwrap_or(0) as usize, usize::MAX] { let _ = l.get(i); } let _ = l.set(extra.first().copied().unwrap_or(0) as usize, true); let _ = l.set(usize::MAX, false); sink(l.len()); let _ = l.into_encoded_str(); }
            let _ = StatusList2021::new(extra.first().copied().unwrap_or(0).unsigned_abs() as usize % 300000).map(|mut l| { let _ = l.set(3, true); l.get(3) }); }
    20 => { if let Ok(sv) = Service::from_json_slice(bytes) { let _ = RevocationBitmap::try_from(&sv).map(|b| (b.is_revoked(0), b.is_revoked(u32::MAX), b.len())); let _ = sv.to_json(); } }
    21 => { let v = JwtCredentialValidator::with_signature_verifier(AnyVerifier); let jwt = Jwt::new(t.clone()); for ff in [FailFast::FirstError, FailFast::AllErrors] { let _ = v.validate::<CoreDocument, Object>(&jwt, &doc, &JwtCredentialValidationOptions::default(), ff); } let _ = identity_credential::validator::JwtCredentialValidatorUtils::extract_issuer_from_jwt::<CoreDID>(&jwt); }
    22 => { let v = JwtPresentationValidator::with_signature_verifier(AnyVerifier); let jwt = Jwt::new(t.clone()); let _ = v.validate::<CoreDocument, Jwt, Object>(&jwt, &doc, &JwtPresentationValidationOptions::default()); let _ = identity_credential::validator::JwtPresentationValidatorUtils::extract_holder::<CoreDID>(&jwt); }
    23 => { if let Ok(sd) = SdJwt::parse(&t) { let v = SdJwtCredentialValidator::with_signature_verifier(AnyVerifier, SdObjectDecoder::new_with_sha256()); let _ = v.validate_credential::<CoreDocument, Object>(&sd, &doc, &JwtCredentialValidationOptions::default(), FailFast::AllErrors); let _ = v.validate_key_binding_jwt(&sd, &doc, &KeyBindingJWTValidationOptions::default()); sink(sd.presentation()); } }
    24 => { return match MethodDigest::unpack(bytes.to_vec()) { Ok(d) => { let mut o = vec![0]; o.extend(d.pack().iter().map(|b| *b as i64)); o } Err(_) => vec![1] }; }
    25 => { if let Ok(m) = VerificationMethod::from_json_slice(bytes) { sink((m.id().to_string(), m.controller().to_string(), m.type_().to_string())); let _ = m.data().public_key_jwk(); let _ = m.data().try_decode(); let _ = MethodDigest::new(&m); let _ = m.to_json(); } }
    26 => { return match IntegrityMetadata::parse(&t) { Ok(i) => vec![0, i.alg().len() as i64, i.digest().len() as i64, i.digest_bytes().len() as i64], Err(_) => vec![1] }; }
    27 => { let (xl, yl) = (extra.first().copied().unwrap_or(32) as usize, extra.get(1).copied().unwrap_or(32) as usize); let crv = if extra.get(2) == Some(&1) { "secp256k1" } else { "P-256" };
            let j: Jwk = serde_json::from_value(json!({"kty": "EC", "crv": crv, "x": identity_jose::jwu::encode_b64(vec![bytes.first().copied().unwrap_or(1); xl]), "y": identity_jose::jwu::encode_b64(vec![bytes.get(1).copied().unwrap_or(2); yl])})).unwrap();
            for alg in [JwsAlgorithm::ES256, JwsAlgorithm::ES256K] { let _ = EcDSAJwsVerifier::default().verify(VerificationInput { alg, signing_input: b"abc".to_vec().into(), decoded_signature: bytes.to_vec().into() }, &j); } }
    28 => { let j: Jwk = serde_json::from_value(json!({"kty": "OKP", "crv": "Ed25519", "x": identity_jose::jwu::encode_b64(&bytes[..bytes.len().min(extra.first().copied().unwrap_or(32) as usize)])})).unwrap(); let _ = EdDSAJwsVerifier::default().verify(VerificationInput { alg: JwsAlgorithm::EdDSA, signing_input: b"abc".to_vec().into(), decoded_signature: bytes.to_vec().into() }, &j); }
    29 => { if let Ok(n) = serde_json::from_value::<NetworkName>(json!(t)) { let d = IotaDID::new(&[1u8; 32], &n); sink(d.to_string()); } if let Ok(n) = NetworkName::try_from(t.clone()) { sink(IotaDID::new(&[0u8; 32], &n).to_string()); } }
    30 => { let _ = serde_json::from_slice::<OneOrSet<String>>(bytes).map(|x| x.len()); let _ = serde_json::from_slice::<OneOrMany<String>>(bytes).map(|x| (x.len(), x.get(0).cloned())); let _ = serde_json::from_slice::<OrderedSet<String>>(bytes).map(|x| (x.len(), x.head().cloned(), x.tail().cloned())); let _ = serde_json::from_slice::<Url>(bytes).map(|u| u.to_string()); }
    31 => { if let Ok(h) = JwsHeader::from_json_slice(bytes) { sink((h.alg(), h.kid(), h.b64(), h.crit(), h.typ(), h.nonce())); let _ = h.to_json(); } }
    32 => { if let Ok(vc) = SdJwtVc::parse(&t) { sink((vc.claims().iss.to_string(), vc.claims().vct.to_string())); let _ = crate::jws_storage::rt().block_on(vc.issuer_metadata(&NoResolver)); let _ = crate::jws_storage::rt().block_on(vc.type_metadata(&NoResolver)); let _ = crate::jws_storage::rt().block_on(vc.issuer_jwk(&NoResolver)); let key = doc.methods(None)[0].data().public_key_jwk().unwrap().clone(); let _ = vc.verify_signature(&AnyVerifier, &key); } }
    33 => { for sc in [None, Some(MethodScope::VerificationMethod), Some(MethodScope::assertion_method())] { let _ = doc.resolve_method(t.as_str(), sc); } let _ = doc.resolve_service(t.as_str()); let mut d2 = doc.clone(); let _ = d2.remove_method(&match DIDUrl::parse(&t) { Ok(u) => u, Err(_) => return vec![0] }); }
    34 => { if let Ok(sv) = Service::from_json_slice(bytes) { if let Ok(l) = LinkedDomainService::try_from(sv.clone()) { sink((l.domains().len(), l.id().to_string())); let _ = Service::from(l).to_json(); } let _ = LinkedDomainService::check_structure(&sv); } }
    35 => { if let Ok(sv) = Service::from_json_slice(bytes) { if let Ok(l) = LinkedVerifiablePresentationService::try_from(sv.clone()) { sink((l.verifiable_presentation_urls().len(), l.id().to_string())); let _ = Service::from(l).to_json(); } let _ = LinkedVerifiablePresentationService::check_structure(&sv); } }
    36 => { if let Ok(cfg) = DomainLinkageConfiguration::from_json_slice(bytes) { sink((cfg.linked_dids().len(), cfg.issuers().map(|v| v.len()).ok())); let _ = cfg.to_json();
            let v = JwtDomainLinkageValidator::with_signature_verifier(AnyVerifier); let dom = Url::parse("https://foo.example.com").unwrap();
            let _ = v.validate_linkage(&doc, &cfg, &dom, &JwtCredentialValidationOptions::default());
            for j in cfg.linked_dids() { let _ = v.validate_credential(&doc, j, &dom, &JwtCredentialValidationOptions::default()); } } }
    37 => { if let Ok(tm) = serde_json::from_slice::<TypeMetadata>(bytes) { sink((tm.name(), tm.description(), tm.extends().map(|u| u.to_string()), tm.extends_integrity(), tm.claim_metadata().len(), tm.display_metadata().len()));
            let cred = json!({"vct": "https://issuer.example/type", "name": "x", "address": {"street": "s"}, "degrees": [{"n": 1}, null, 3]});
            let _ = tm.validate_credential(&cred); for cm in tm.claim_metadata() { let _ = cm.check_value_disclosability(&cred); sink(cm.path.to_string()); }
            let _ = crate::jws_storage::rt().block_on(tm.validate_credential_with_resolver(&cred, &NoJsonResolver)); let _ = serde_json::to_vec(&tm); } }
    38 => { if let Ok(cm) = serde_json::from_slice::<ClaimMetadata>(bytes) { for v in [json!({"name": "x", "address": {"street": "s", "_sd": ["a"]}, "degrees": [{"n": 1}, null, 3], "_sd": ["d"]}), json!([1, 2]), json!(null), json!({"degrees": [{"...": "x"}]})] { let _ = cm.check_value_disclosability(&v); } sink(cm.path.to_string()); let _ = serde_json::to_vec(&cm); } }
    39 => { if let Ok(im) = serde_json::from_slice::<IssuerMetadata>(bytes) { let tok = format!("{}.{}.{}~", identity_jose::jwu::encode_b64(br#"{"alg":"EdDSA","typ":"vc+sd-jwt"}"#), identity_jose::jwu::encode_b64(br#"{"iss":"https://issuer.example/a","vct":"https://issuer.example/type","iat":1}"#), identity_jose::jwu::encode_b64([7u8; 64]));
            if let Ok(vc) = SdJwtVc::parse(&tok) { let _ = im.validate(&vc); } let _ = serde_json::to_vec(&im); } }
    40 => { use std::str::FromStr; let _ = identity_core::common::StringOrUrl::parse(&t).map(|x| (x.to_string(), x.as_url().is_some())); let _ = Url::parse(&t).map(|u| (u.to_string(), u.join(&t).is_ok()));
            let _ = MethodScope::from_str(&t); let _ = identity_verification::MethodType::from_str(&t).map(|m| m.to_string()); let _ = JwsAlgorithm::from_str(&t).map(|a| a.name());
            let _ = identity_credential::revocation::status_list_2021::StatusPurpose::from_str(&t); }
    41 => { if let Ok(c) = Credential::<Object>::from_json_slice(bytes) { if let Ok(sl) = StatusList2021Credential::try_from(c) { let _ = sl.purpose(); for i in [0usize, 7, 8, 131071, 131072, usize::MAX] { let _ = sl.entry(i); } let mut m = sl.clone(); let ix = extra.first().copied().unwrap_or(0) as usize;
            let _ = m.update(|l| { let _ = l.set_entry(ix, true); let _ = l.set_entry(usize::MAX, false); let _ = l.set_entry(1, true); Ok(()) }); let _ = sl.to_json(); let _ = Credential::from(sl).to_json(); } } }
    // 43: the input is a raw (uncompressed) roaring serialisation; it is wrapped the way a RevocationBitmap2022 service carries it (zlib, base64url, data URL)
    //     and handed to every reader of such a service: the TryFrom, the document's resolver and batch updates, the validator's status check
    43 => { use std::io::Write; use identity_credential::revocation::RevocationDocumentExt; let mut z = flate2::write::ZlibEncoder::new(Vec::new(), flate2::Compression::default()); let _ = z.write_all(bytes); let comp = z.finish().unwrap_or_default();
            let ep = format!("data:application/octet-stream;base64,{}", identity_jose::jwu::encode_b64(&comp));
            let sv = json!({"id": "did:example:issuer#rev", "type": "RevocationBitmap2022", "serviceEndpoint": ep});
            if let Ok(sv) = Service::from_json_value(sv.clone()) { if let Ok(b) = RevocationBitmap::try_from(&sv) { sink((b.is_revoked(0), b.is_revoked(3), b.is_revoked(5), b.is_revoked(65536 + 7), b.is_revoked(u32::MAX), b.len(), b.is_empty()));
                let mut b2 = b.clone(); let _ = b2.revoke(3); let _ = b2.unrevoke(5); let _ = b2.revoke(70000); sink(b2.len()); let _ = b2.to_service(sv.id().clone()).map(|s2| RevocationBitmap::try_from(&s2).map(|b3| b3 == b2)); let _ = b.to_service(sv.id().clone()); } }
            let mut dj: Value = serde_json::from_str(DOC).unwrap(); dj["service"] = json!([sv]);
            if let Ok(mut d) = CoreDocument::from_json_value(dj) { let _ = d.resolve_revocation_bitmap("#rev".into()).map(|b| (b.len(), b.is_revoked(5)));
              let _ = d.revoke_credentials("#rev", &[1, 5, 70000]); let _ = d.unrevoke_credentials("#rev", &[3, 5]); let _ = d.to_json();
              if let Ok(c) = Credential::<Object>::from_json_value(json!({"@context": "https://www.w3.org/2018/credentials/v1", "type": ["VerifiableCredential"], "issuer": "did:example:issuer", "issuanceDate": "2020-01-01T00:00:00Z", "credentialSubject": {"id": "did:example:s"},
                  "credentialStatus": {"id": "did:example:issuer?index=5#rev", "type": "RevocationBitmap2022", "revocationBitmapIndex": "5"}})) {
                for sc in [identity_credential::validator::StatusCheck::Strict, identity_credential::validator::StatusCheck::SkipUnsupported] { let _ = identity_credential::validator::JwtCredentialValidatorUtils::check_status(&c, &[&d], sc); } } } }
    // 44: a did:jwk value accepted by ANY route (parse, FromStr, TryFrom<CoreDID>, serde bare or nested) then handed to the accessors that assume a validated value
    44 => { use std::str::FromStr; let mut got: Vec<DIDJwk> = vec![]; if let Ok(d) = DIDJwk::parse(&t) { got.push(d); } if let Ok(d) = DIDJwk::from_str(&t) { got.push(d); } if let Ok(d) = DIDJwk::try_from(t.as_str()) { got.push(d); }
            if let Ok(c) = CoreDID::parse(&t) { if let Ok(d) = DIDJwk::try_from(c) { got.push(d); } }
            if let Ok(d) = serde_json::from_value::<DIDJwk>(json!(t)) { got.push(d); } if let Ok(v) = serde_json::from_value::<Vec<DIDJwk>>(json!([t])) { got.extend(v); }
            if let Ok(m) = serde_json::from_value::<std::collections::BTreeMap<String, DIDJwk>>(json!({"k": t})) { got.extend(m.into_values()); } if let Ok(d) = serde_json::from_slice::<DIDJwk>(bytes) { got.push(d); }
            for d in got { let j = d.jwk(); sink((j.kty(), j.is_public(), d.to_string())); let _ = VerificationMethod::try_from(d.clone()).map(|m| m.id().to_string()); let _ = CoreDocument::expand_did_jwk(d.clone()).map(|x| x.methods(None).len()); let _ = serde_json::to_value(&d); } }
    // 45: the JSON-proof-token key type and the conversions to and from Jwk (jwk_ext.rs)
    45 => { if let Ok(ext) = serde_json::from_slice::<jsonprooftoken::jwk::key::Jwk>(bytes) { if let Ok(j) = Jwk::try_from(ext.clone()) { sink((j.kty(), j.is_public(), j.is_private(), j.thumbprint_sha256_b64())); let _ = j.to_public(); let _ = j.to_json();
              let _ = <&Jwk as TryInto<jsonprooftoken::jwk::key::Jwk>>::try_into(&j); } let _ = serde_json::to_vec(&ext); }
            if let Ok(j) = Jwk::from_json_slice(bytes) { let _ = <&Jwk as TryInto<jsonprooftoken::jwk::key::Jwk>>::try_into(&j).map(|e| Jwk::try_from(e).map(|b| b == j)); } }
    _ => { let _ = serde_json::from_slice::<Value>(bytes); }
  }
  vec![0]
}
/// consuming conversions of accepted values, run in a child process (entry 42): 0 IotaDID, 1 CoreDID, 2 DIDJwk, 3 DIDUrl
pub fn abort_probe(probe: i64, bytes: &[u8]) {
  let t = s(bytes);
  match probe {
    0 => { if let Ok(d) = IotaDID::parse(&t) { sink(String::from(d.clone())); sink(d.clone().into_string()); sink(CoreDID::from(d.clone()).into_string()); sink(d.into_url().to_string()); } }
    1 => { if let Ok(d) = CoreDID::parse(&t) { sink(String::from(d.clone())); sink(d.clone().into_string()); sink(d.into_url().to_string()); } }
    2 => { if let Ok(d) = DIDJwk::parse(&t) { sink(String::from(d.clone())); sink(d.clone().into_string()); sink(CoreDID::from(d).into_string()); } }
    _ => { if let Ok(u) = DIDUrl::parse(&t) { sink(String::from(u.clone())); sink(Url::from(u.clone()).to_string()); sink(u.did().clone().into_string()); } }
  }
}
pub fn exec(case: &[i64]) -> Outcome {
  if case[0] == 42 {
    // a conversion that consumes an accepted value must return: run it in a child process and look at how that process ended
    let mut v = &case[1..]; let bytes = take_bytes(&mut v).unwrap_or_default(); let probe = v.first().copied().unwrap_or(0);
    let hex: String = bytes.iter().map(|b| format!("{:02x}", b)).collect();
    let mut child = match std::process::Command::new(std::env::current_exe().unwrap()).args(["c05", "abortprobe", &probe.to_string(), &hex]).stdout(std::process::Stdio::null()).stderr(std::process::Stdio::null()).spawn() { Ok(c) => c, Err(_) => return Outcome::new(vec![-7]).class("entry-42").trivial() };
    // 0 returned, -778 died (stack overflow / abort / panic), -779 did not return within 5 s (unbounded recursion compiled into a loop)
    let mut code = -779; let t0 = std::time::Instant::now();
    while t0.elapsed() < std::time::Duration::from_secs(5) { match child.try_wait() { Ok(Some(st)) => { code = if st.success() { 0 } else { -778 }; break; } Ok(None) => std::thread::sleep(std::time::Duration::from_millis(5)), Err(_) => break } }
    if code == -779 { let _ = child.kill(); let _ = child.wait(); }
    let o = Outcome::new(vec![code]).class("entry-42");
    return if code == 0 { o } else { o.fail("a conversion that consumes an accepted value does not return: the process dies (stack overflow / abort, not catchable) or recurses without end") };
  }
  let e = case[0]; let mut v = &case[1..]; let bytes = take_bytes(&mut v).unwrap_or_default();
  let obs = run(e, &bytes, v);
  Outcome::new(obs).class(&format!("entry-{e:02}"))
}
/// no known class is left for C05 (K_pct was repaired by 6c07746 and 23a2156): every panic is a violation
pub fn classify(_case: &[i64]) -> Option<&'static str> { None }

fn mutate(rng: &mut Rng, seed: &[u8], alphabet: &[u8]) -> Vec<u8> {
  let mut b = seed.to_vec();
  for _ in 0..rng.range(1, 3) {
    if b.is_empty() { b.push(*rng.pick(alphabet)); continue; }
    let k = rng.below(b.len() as u64) as usize;
    match rng.below(6) { 0 => b[k] = *rng.pick(alphabet), 1 => { b.insert(k, *rng.pick(alphabet)); } 2 => { b.remove(k); } 3 => b.truncate(k), 4 => { let j = rng.below(b.len() as u64) as usize; b.swap(k, j); } _ => { let piece: Vec<u8> = b[k..(k + 6).min(b.len())].to_vec(); let at = rng.below(b.len() as u64) as usize; for (i, x) in piece.into_iter().enumerate() { b.insert((at + i).min(b.len()), x); } } }
  }
  b
}
fn json_mutations(v: &Value) -> Vec<Value> {
  let mut out = vec![];
  if let Some(o) = v.as_object() { for k in o.keys() { let mut d = o.clone(); d.remove(k); out.push(Value::Object(d));
      for r in [json!(null), json!(5), json!(-1), json!("x"), json!(""), json!([]), json!({}), json!([{}]), json!(18446744073709551615u64), json!("did:a:%41"), json!("9999-12-31T23:59:59-01:00")] { let mut d = o.clone(); d.insert(k.clone(), r); out.push(Value::Object(d)); }
      for sub in json_mutations(&o[k]).into_iter().take(40) { let mut d = o.clone(); d.insert(k.clone(), sub); out.push(Value::Object(d)); } } }
  if let Some(a) = v.as_array() { out.push(json!([])); let mut dup = a.clone(); dup.extend(a.iter().cloned()); out.push(Value::Array(dup)); for (i, x) in a.iter().enumerate() { for sub in json_mutations(x).into_iter().take(25) { let mut d = a.clone(); d[i] = sub; out.push(Value::Array(d)); } } }
  out
}

pub fn gen(rng: &mut Rng, thorough: bool, sink: &mut Sink) {
  let mut emit = |e: i64, bytes: &[u8], extra: &[i64], what: &str, sink: &mut Sink| { if e == 26 && std::str::from_utf8(bytes).is_err() { return; } let mut c = vec![e]; put_bytes(&mut c, bytes); c.extend_from_slice(extra); sink.case(c, what); };
  let alpha: &[u8] = b"a:%4#/? \n+-.=_~0Zz\xc3\xa9\"{}[],";
  // exhaustive short tails after a valid prefix for the DID-shaped entry points
  let tail_alpha: &[u8] = b"a:%4#/? \n\xc3";
  let depth = if thorough { 4 } else { 3 };
  let mut tails: Vec<Vec<u8>> = vec![vec![]]; let mut frontier: Vec<Vec<u8>> = vec![vec![]];
  for _ in 0..depth { let mut next = vec![]; for f in &frontier { for c in tail_alpha { let mut x = f.clone(); x.push(*c); next.push(x); } } tails.extend(next.iter().cloned()); frontier = next; }
  for t in &tails { for (e, prefix) in [(1i64, &b"did:m:"[..]), (2, b"did:m:a"), (3, b""), (4, b"did:iota:"), (33, b"#"), (33, b""), (33, b"did"), (33, b"di"), (33, b"did:example:issuer")] { let mut b = prefix.to_vec(); b.extend_from_slice(t); emit(e, &b, &[], "short-tail", sink); } }
  // seeds per entry point
  let jwk_ed = json!({"kty": "OKP", "crv": "Ed25519", "x": "11qYAYKxCrfVS_7TyWQHOg7hcvPapiMlrwIaaPcHURo", "alg": "EdDSA", "kid": "k", "key_ops": ["verify"]});
  let jwk_ec = json!({"kty": "EC", "crv": "P-256", "x": "MKBCTNIcKUSDii11ySs3526iDZ8AiTo7Tu6KPAqv7D4", "y": "4Etl6SRW2YiLUrN5vfvVHuhp7x8PxltmWWlbbM4IFyM"});
  let jwk_rsa = json!({"kty": "RSA", "n": "0vx7agoebGcQSuuPiLJXZptN9nndrQmbXEps2aiAFbWhM78LhWx4cbbfAAtVT86zwu1RK7aPFFxuhDR1L6tSoc_BJECPebWKRXjBZCiFV4n3oknjhMstn64tZ_2W-5JsGY4Hc5n9yBXArwl93lqt7_RN5w6Cf0h4QyQ5v-65YGjQR0_FDW2QvzqY368QQMicAtaSqzs8KJZgnYb9c7d0zgdAZHzu6qMQvRL5hj8vWTuFhjjSIXRdjeN1cGFHuGsX41B3GHq1OrzIUK8rZcTTqnowIBMAaB1Qj4Pt4gkp1Cg-oXF2I5fVhnyeW3CFQx1w9RI3RFX1jUSp5ctM2ZV6s2rS6Q", "e": "AQAB"});
  let cred = json!({"@context": ["https://www.w3.org/2018/credentials/v1"], "id": "https://example.edu/credentials/3732", "type": ["VerifiableCredential", "StatusList2021Credential"], "issuer": "did:example:issuer", "issuanceDate": "2010-01-01T00:00:00Z", "expirationDate": "2030-01-01T00:00:00Z",
    "credentialSubject": {"id": "did:example:subject", "type": "StatusList2021", "statusPurpose": "revocation", "encodedList": "H4sIAAAAAAAAA-3BMQEAAADCoPVPbQwfoAAAAAAAAAAAAAAAAAAAAIC3AYbSVKsAQAAA"},
    "credentialStatus": {"id": "did:example:issuer?index=5#rev", "type": "RevocationBitmap2022", "revocationBitmapIndex": "5"}});
  let pres = json!({"@context": "https://www.w3.org/2018/credentials/v1", "type": "VerifiablePresentation", "verifiableCredential": ["eyJhbGciOiJFZERTQSJ9.e30.AAAA"], "holder": "did:example:holder"});
  let iota_doc = json!({"doc": {"id": "did:iota:0x1111111111111111111111111111111111111111111111111111111111111111", "verificationMethod": [{"id": "did:iota:0x1111111111111111111111111111111111111111111111111111111111111111#k", "controller": "did:iota:0x1111111111111111111111111111111111111111111111111111111111111111", "type": "JsonWebKey", "publicKeyJwk": jwk_ed.clone()}]}, "meta": {"created": "2023-01-01T00:00:00Z", "updated": "2023-01-01T00:00:00Z"}});
  let hdr = |h: Value, claims: &[u8], sig: &[u8]| format!("{}.{}.{}", identity_jose::jwu::encode_b64(serde_json::to_vec(&h).unwrap()), identity_jose::jwu::encode_b64(claims), identity_jose::jwu::encode_b64(sig));
  let vc_claims = json!({"iss": "did:example:issuer", "nbf": 1262304000, "exp": 1893456000, "sub": "did:example:subject", "vc": {"@context": "https://www.w3.org/2018/credentials/v1", "type": "VerifiableCredential", "credentialSubject": {"name": "x"}, "credentialStatus": cred["credentialStatus"].clone()}});
  let vp_claims = json!({"iss": "did:example:issuer", "nbf": 1262304000, "vp": {"@context": "https://www.w3.org/2018/credentials/v1", "type": "VerifiablePresentation", "verifiableCredential": []}});
  let jws_ed = hdr(json!({"alg": "EdDSA", "kid": "did:example:issuer#k"}), &serde_json::to_vec(&vc_claims).unwrap(), &[7u8; 64]);
  let jws_ec = hdr(json!({"alg": "ES256", "kid": "did:example:issuer#p"}), &serde_json::to_vec(&vp_claims).unwrap(), &[9u8; 64]);
  let kb = hdr(json!({"alg": "EdDSA", "typ": " kb+jwt", "kid": "did:example:issuer#k"}), br#"{"iat":1,"aud":"a","nonce":"n","sd_hash":"x"}"#, &[7u8; 64]);
  let sdjwt = format!("{}~WyJzYWx0IiwibmFtZSIsIngiXQ~{}", jws_ed, kb);
  let sdvc = format!("{}~", hdr(json!({"alg": "EdDSA", "typ": "vc+sd-jwt"}), br#"{"iss":"https://issuer.example/a","vct":"https://issuer.example/type","iat":1,"_sd_alg":"sha-256"}"#, &[7u8; 64]));
  let sdvc_did = format!("{}~", hdr(json!({"alg": "EdDSA", "typ": "vc+sd-jwt"}), br#"{"iss":"did:example:issuer","vct":"data:text/plain,x","iat":1}"#, &[7u8; 64]));
  let flat = json!({"payload": "e30", "protected": identity_jose::jwu::encode_b64(br#"{"alg":"EdDSA","kid":"k"}"#), "header": {"x": 1}, "signature": "AAAA"});
  let general = json!({"payload": "e30", "signatures": [{"protected": identity_jose::jwu::encode_b64(br#"{"alg":"EdDSA"}"#), "signature": "AAAA"}, {"protected": identity_jose::jwu::encode_b64(br#"{"alg":"ES256","b64":false,"crit":["b64"]}"#), "header": {"kid": "p"}, "signature": "AAAA"}]});
  let packed = IotaDocument::from_json_value(iota_doc.clone()).unwrap().pack().unwrap();
  let text_seeds: Vec<(i64, Vec<Vec<u8>>)> = vec![
    (1, vec![b"did:example:abc".to_vec(), b"did:iota:rms:0x1111".to_vec(), b"did:a:b%41c".to_vec(), b"did:a:%41".to_vec(), b" did:a:b".to_vec()]),
    (2, vec![b"did:example:abc/path?query=1#frag".to_vec(), b"did:a:b?x#y".to_vec(), b"did:a:b#%41".to_vec()]),
    (3, vec![b"#frag".to_vec(), b"/path".to_vec(), b"?a=b&c=d".to_vec(), b"?index=%41".to_vec()]),
    (4, vec![b"did:iota:0x1111111111111111111111111111111111111111111111111111111111111111".to_vec(), b"did:iota:smr:0x1111111111111111111111111111111111111111111111111111111111111111".to_vec()]),
    (5, vec![format!("did:jwk:{}", identity_jose::jwu::encode_b64(serde_json::to_vec(&jwk_ec).unwrap())).into_bytes(), b"did:jwk:e30".to_vec(), b"did:jwk:W10".to_vec()]),
    (6, vec![b"2023-06-01T12:30:45Z".to_vec(), b"9999-12-31T23:59:59-01:00".to_vec(), b"0000-01-01T00:00:00+01:00".to_vec(), b"0000-01-01T00:00:00+00:30".to_vec(), b"0000-01-01T00:00:00+00:01".to_vec(), b"0000-01-01T00:29:59+00:59".to_vec(), b"9999-12-31T23:59:59-00:01".to_vec(), b"2023-06-01T12:30:45.123+23:59".to_vec(), b"2016-12-31T23:59:60Z".to_vec()]),
    (7, vec![b"\"2023-06-01T12:30:45Z\"".to_vec(), b"\"9999-12-31T23:59:59-00:01\"".to_vec()]),
    (10, vec![jws_ed.clone().into_bytes(), jws_ec.clone().into_bytes(), hdr(json!({"alg": "EdDSA", "b64": false, "crit": ["b64"]}), b"{}", &[1]).into_bytes(), b"e30..".to_vec(), b"..".to_vec()]),
    (19, vec![b"H4sIAAAAAAAAA-3BMQEAAADCoPVPbQwfoAAAAAAAAAAAAAAAAAAAAIC3AYbSVKsAQAAA".to_vec(), b"H4sIAAAAAAAAAwMAAAAAAAAAAAA".to_vec(), b"eJyzMmAAAwADKABr".to_vec()]),
    (21, vec![jws_ed.clone().into_bytes(), jws_ec.clone().into_bytes()]), (22, vec![jws_ec.clone().into_bytes(), jws_ed.clone().into_bytes()]),
    (23, vec![sdjwt.clone().into_bytes(), format!("{}~", jws_ed).into_bytes(), format!("{}~~{}", jws_ed, kb).into_bytes()]),
    (24, vec![vec![0, 1, 2, 3, 4, 5, 6, 7, 8], vec![1; 9], vec![0; 8], vec![0; 10], vec![]]),
    (26, vec![b"sha256-9cLlJNXN2TlqRXkHJ1VtbMkeCXzeXbFLQaAkUFGl7Tk".to_vec(), b"sha256-9cLlJNXN2TlqRXkHJ1VtbMkeCXzeXbFLQaAkUFGl7Tk=".to_vec(), b"sha384-dOTZf16X8p34q2/kYyEFm0jh89uTjikhnzjeLeF0FHsEaYKb1A1cv+Lyv4Hk8vHd-opt".to_vec(), b"sha256".to_vec(), b"-".to_vec(), b"a-A=".to_vec(), b"a-AA==".to_vec(), b"a-AQ-x-y".to_vec(), b"--".to_vec(), b"sha256-9cLlJNXN2TlqRXkHJ1VtbMkeCXzeXbFLQaAkUFGl7Tk-opt-more".to_vec(), b"sha256-9cLlJNXN2TlqRXkHJ1VtbMkeCXzeXbFLQaAkUFGl7Tk-".to_vec()]),
    (29, vec![b"iota".to_vec(), b"smr".to_vec(), b"Rms".to_vec(), b"toolongname".to_vec(), b"a:b".to_vec(), b"".to_vec()]),
    (32, vec![sdvc.clone().into_bytes(), sdvc_did.clone().into_bytes()]),
    (33, vec![b"did:example:issuer#k".to_vec(), b"#k".to_vec(), b"k".to_vec(), b"did:example:issuer?x#k".to_vec()]),
    (40, vec![b"https://foo.example.com/a?b#c".to_vec(), b"did:example:1".to_vec(), b"VerificationMethod".to_vec(), b"authentication".to_vec(), b"EdDSA".to_vec(), b"revocation".to_vec(), b"JsonWebKey".to_vec(), b"".to_vec(), b"//".to_vec(), b"a b".to_vec()]),
    (15, vec![packed.clone(), b"DID\x01\x00\x02\x00{}".to_vec()]),
  ];
  // consuming conversions in a child process (abort / stack overflow cannot be caught in-process)
  for (probe, inputs) in [(0i64, vec!["did:iota:0x1111111111111111111111111111111111111111111111111111111111111111", "did:iota:smr:0x1111111111111111111111111111111111111111111111111111111111111111", "did:iota:x"]),
    (1, vec!["did:example:abc", "did:a:b:c", "did:a"]), (2, vec!["did:jwk:eyJrdHkiOiJPS1AiLCJjcnYiOiJFZDI1NTE5IiwieCI6IjExcVlBWUt4Q3JmVlNfN1R5V1FIT2c3aGN2UGFwaU1scndJYWFQY0hVUm8ifQ", "did:jwk:e30"]),
    (3, vec!["did:example:abc/path?query=1#frag", "did:a:b#f"])] { for i in inputs { emit(42, i.as_bytes(), &[probe], "consuming-conversions", sink); } }
  // token-level enumeration of DID-shaped strings: every sequence of up to `tdepth` tokens after "did:" (CoreDID, DIDUrl, IotaDID entry points)
  let tag64 = "0x1111111111111111111111111111111111111111111111111111111111111111";
  let toks: Vec<&str> = vec![":", "iota", "smr", "0x", tag64, "a", "/", "?", "#", "%41", " ", "IOTA", "x=1"];
  let small: Vec<&str> = vec![":", "iota", "0x", tag64, "a"];
  let tdepth = if thorough { 5 } else { 4 };
  let mut seqs: Vec<String> = vec![String::new()]; let mut fr: Vec<String> = vec![String::new()];
  for d in 0..tdepth { let mut nx = vec![]; for f in &fr { for t in if d < 3 || thorough { &toks } else { &small } { nx.push(format!("{f}{t}")); } } seqs.extend(nx.iter().cloned()); fr = nx; }
  { let mut nx = vec![]; for f in &fr { if f.chars().all(|c| c != '/' && c != '?' && c != '#' && c != '%' && c != ' ') { for t in &small { nx.push(format!("{f}{t}")); } } } if !thorough { nx.truncate(40000); } seqs.extend(nx); }
  for sq in &seqs { let st = format!("did:{sq}"); emit(4, st.as_bytes(), &[], "did-tokens", sink); if sq.len() < 40 { emit(1, st.as_bytes(), &[], "did-tokens", sink); emit(2, st.as_bytes(), &[], "did-tokens", sink); } }
  let n_mut = if thorough { 400 } else { 60 };
  for (e, seeds) in &text_seeds { for sd in seeds { emit(*e, sd, &[], "seed", sink); for _ in 0..n_mut { let m = mutate(rng, sd, alpha); emit(*e, &m, &[rng.range(-3, 140000)], "seed-mutation", sink); } } }
  let json_seeds: Vec<(i64, Vec<Value>)> = vec![
    (8, vec![jwk_ed.clone(), jwk_ec.clone(), jwk_rsa.clone(), json!({"kty": "oct", "k": "AAAA"}), json!({"kty": "EC", "crv": "secp256k1", "x": "AAAA", "y": "AAAA"}), json!({"kty": "OKP", "crv": "Ed25519", "x": "AA", "d": "AA"})]),
    (9, vec![json!({"keys": [jwk_ed.clone(), jwk_ec.clone()]})]), (11, vec![flat.clone()]), (12, vec![general.clone()]),
    (13, vec![serde_json::from_str(DOC).unwrap()]), (14, vec![iota_doc.clone()]), (16, vec![cred.clone()]), (17, vec![pres.clone()]), (18, vec![cred["credentialStatus"].clone(), json!({"id": "https://example.com/status#94567", "type": "StatusList2021Entry", "statusPurpose": "revocation", "statusListIndex": "94567", "statusListCredential": "https://example.com/status"})]),
    (20, vec![serde_json::from_str::<Value>(DOC).unwrap()["service"][0].clone()]), (25, vec![serde_json::from_str::<Value>(DOC).unwrap()["verificationMethod"][0].clone(), json!({"id": "did:a:b#k", "controller": "did:a:b", "type": "Ed25519VerificationKey2018", "publicKeyMultibase": "z6Mk"}), json!({"id": "did:a:b", "controller": "did:a:b", "type": "X", "publicKeyBase58": "0OIl"}),
      // multibase / base58 texts whose FIRST character is multi-byte, that are empty, one character long, or of an unknown base
      json!({"id": "did:a:b#k", "controller": "did:a:b", "type": "X", "publicKeyMultibase": "\u{e9}6Mk"}), json!({"id": "did:a:b#k", "controller": "did:a:b", "type": "X", "publicKeyMultibase": "\u{20ac}abc"}),
      json!({"id": "did:a:b#k", "controller": "did:a:b", "type": "X", "publicKeyMultibase": "\u{1f574}"}), json!({"id": "did:a:b#k", "controller": "did:a:b", "type": "X", "publicKeyMultibase": ""}),
      json!({"id": "did:a:b#k", "controller": "did:a:b", "type": "X", "publicKeyMultibase": "z"}), json!({"id": "did:a:b#k", "controller": "did:a:b", "type": "X", "publicKeyMultibase": "z\u{e9}"}),
      json!({"id": "did:a:b#k", "controller": "did:a:b", "type": "X", "publicKeyMultibase": "?abc"}), json!({"id": "did:a:b#k", "controller": "did:a:b", "type": "X", "publicKeyMultibase": "mAQID"}),
      json!({"id": "did:a:b#k", "controller": "did:a:b", "type": "X", "publicKeyBase58": "\u{e9}"}), json!({"id": "did:a:b#k", "controller": "did:a:b", "type": "X", "publicKeyBase58": ""})]),
    (30, vec![json!(["a", "b"]), json!("a"), json!(["a", "a"]), json!([])]),
    (34, vec![json!({"id": "did:example:issuer#dl", "type": "LinkedDomains", "serviceEndpoint": {"origins": ["https://foo.example.com", "https://bar.example.com"]}}), json!({"id": "did:example:issuer#dl", "type": ["LinkedDomains"], "serviceEndpoint": "https://foo.example.com"}),
              json!({"id": "did:example:issuer#dl", "type": "LinkedDomains", "serviceEndpoint": {"origin": ["https://foo.example.com"]}}), json!({"id": "did:example:issuer#dl", "type": "LinkedDomains", "serviceEndpoint": {"other": [], "origins": []}}), json!({"id": "did:example:issuer#dl", "type": "LinkedDomains", "serviceEndpoint": ["https://foo.example.com"]})]),
    (35, vec![json!({"id": "did:example:issuer#lvp", "type": "LinkedVerifiablePresentation", "serviceEndpoint": ["https://foo.example.com/vp.jwt", "https://bar.example.com/vp.jwt"]}), json!({"id": "did:example:issuer#lvp", "type": "LinkedVerifiablePresentation", "serviceEndpoint": "https://foo.example.com/vp.jwt"}),
              json!({"id": "did:example:issuer#lvp", "type": "LinkedVerifiablePresentation", "serviceEndpoint": {"origins": ["https://foo.example.com"]}}), json!({"id": "did:example:issuer#lvp", "type": "LinkedVerifiablePresentation", "serviceEndpoint": []})]),
    (36, vec![json!({"@context": "https://identity.foundation/.well-known/did-configuration/v1", "linked_dids": [jws_ed.clone(), jws_ec.clone()]}), json!({"@context": "https://identity.foundation/.well-known/did-configuration/v1", "linked_dids": [hdr(json!({"alg": "EdDSA", "kid": "did:example:issuer#k"}), &serde_json::to_vec(&json!({"iss": "did:example:issuer", "sub": "did:example:issuer", "nbf": 1262304000, "exp": 1893456000, "vc": {"@context": ["https://www.w3.org/2018/credentials/v1", "https://identity.foundation/.well-known/did-configuration/v1"], "type": ["VerifiableCredential", "DomainLinkageCredential"], "credentialSubject": {"origin": "https://foo.example.com"}}})).unwrap(), &[7u8; 64])]})]),
    (37, vec![json!({"vct": "https://issuer.example/type", "name": "n", "description": "d", "extends": "https://issuer.example/loop", "extends#integrity": "sha256-9cLlJNXN2TlqRXkHJ1VtbMkeCXzeXbFLQaAkUFGl7Tk", "schema": {"type": "object", "properties": {"name": {"type": "string"}}}, "claims": [{"path": ["name"], "sd": "always"}, {"path": ["degrees", null, "n"], "sd": "never"}, {"path": ["degrees", 1]}], "display": [{"lang": "en", "name": "x"}]}),
              json!({"vct": "https://issuer.example/type", "schema_uri": "https://issuer.example/schema", "schema_uri#integrity": "sha256-9cLlJNXN2TlqRXkHJ1VtbMkeCXzeXbFLQaAkUFGl7Tk", "extends": "https://issuer.example/other"}), json!({"vct": "https://issuer.example/type"})]),
    (38, vec![json!({"path": ["address", "street"], "sd": "always"}), json!({"path": ["degrees", null, "n"], "sd": "never", "display": [{"lang": "en", "label": "l"}]}), json!({"path": ["degrees", 2], "sd": "allowed", "svg_id": "x"}), json!({"path": []}), json!({"path": [null]}), json!({"path": [-1]}),
              // positions at and beyond the end of the arrays the values hold, positions applied to objects / scalars / null, every sd mode
              json!({"path": ["degrees", 3], "sd": "always"}), json!({"path": ["degrees", 3], "sd": "never"}), json!({"path": ["degrees", 99, "n"], "sd": "always"}), json!({"path": ["degrees", null, "n", 1], "sd": "always"}), json!({"path": ["degrees", 0, "n", 0], "sd": "never"}),
              json!({"path": ["name", 0], "sd": "always"}), json!({"path": [0], "sd": "always"}), json!({"path": [2], "sd": "never"}), json!({"path": ["address", 0], "sd": "always"}), json!({"path": ["degrees", 1, 0], "sd": "always"}), json!({"path": ["degrees", 18446744073709551615u64], "sd": "always"}), json!({"path": ["degrees", 1], "sd": "always"})]),
    (39, vec![json!({"issuer": "https://issuer.example/a", "jwks": {"keys": [jwk_ed.clone()]}}), json!({"issuer": "https://issuer.example/a", "jwks_uri": "https://issuer.example/jwks"}), json!({"issuer": "did:example:x", "jwks_uri": "https://issuer.example/jwks", "jwks": {"keys": []}})]),
    (45, vec![json!({"kty": "EC", "crv": "BLS12381G2", "x": "AA", "y": "AA", "d": "AA", "kid": "k", "alg": "BBS-BLS12381-SHA256", "use": "sig", "key_ops": ["sign", "proofGeneration"], "x5u": "https://a.example/c", "x5c": ["AA"], "x5t": "AA"}),
              json!({"kty": "OKP", "crv": "Ed25519", "x": "AA"}), json!({"kty": "OKP", "crv": "BLS12381G2", "x": "AA", "d": "AA"}), json!({"kty": "OKP", "crv": "BLS12381G2", "x": "AA", "y": "AA"}), json!({"kty": "EC", "crv": "P-256", "x": "AA", "y": "AA"}), json!({"kty": "RSA", "crv": "P-256", "x": "AA"}), jwk_ec.clone(), jwk_ed.clone()]),
    (41, vec![cred.clone()]), (31, vec![json!({"alg": "EdDSA", "kid": "k", "b64": false, "crit": ["b64"], "typ": "JWT", "nonce": "n", "custom": 1})]),
  ];
  for (e, seeds) in &json_seeds { for sd in seeds { let txt = serde_json::to_vec(sd).unwrap(); emit(*e, &txt, &[0], "seed", sink);
      let muts = json_mutations(sd); let take = if thorough { muts.len() } else { muts.len().min(250) }; let step = (muts.len() / take.max(1)).max(1);
      for (k, m) in muts.iter().enumerate() { if k % step == 0 { emit(*e, &serde_json::to_vec(m).unwrap(), &[(k % 3) as i64], "json-mutation", sink); } }
      for _ in 0..n_mut / 2 { let m = mutate(rng, &txt, alpha); emit(*e, &m, &[rng.range(0, 2)], "seed-mutation", sink); } } }
  // JWS / JWT with each part mutated at the JSON level (header and claims), all serializations
  for (h0, c0, e) in [(json!({"alg": "EdDSA", "kid": "did:example:issuer#k"}), vc_claims.clone(), 21i64), (json!({"alg": "ES256", "kid": "did:example:issuer#p", "nonce": "n"}), vp_claims.clone(), 22), (json!({"alg": "EdDSA", "kid": "did:example:issuer#k", "typ": "JWT"}), vc_claims.clone(), 10)] {
    for hm in json_mutations(&h0).into_iter().take(if thorough { 400 } else { 60 }) { emit(e, hdr(hm, &serde_json::to_vec(&c0).unwrap(), &[7u8; 64]).as_bytes(), &[0], "jws-header-mutation", sink); }
    for cm in json_mutations(&c0).into_iter().take(if thorough { 1500 } else { 250 }) { emit(e, hdr(h0.clone(), &serde_json::to_vec(&cm).unwrap(), &[7u8; 64]).as_bytes(), &[1], "jws-claims-mutation", sink); }
    for siglen in [0usize, 1, 31, 32, 63, 64, 65, 128] { emit(e, hdr(h0.clone(), &serde_json::to_vec(&c0).unwrap(), &vec![5u8; siglen]).as_bytes(), &[0], "jws-signature-length", sink); }
  }
  // general / flattened envelopes: every combination of decodable, undecodable and missing protected members over 1..3 signatures
  let prot: Vec<Option<Value>> = vec![None, Some(json!(identity_jose::jwu::encode_b64(br#"{"alg":"EdDSA"}"#))), Some(json!(identity_jose::jwu::encode_b64(br#"{"alg":"ES256","b64":false,"crit":["b64"]}"#))), Some(json!("!!")), Some(json!(identity_jose::jwu::encode_b64(b"not a header"))), Some(json!("")), Some(json!(identity_jose::jwu::encode_b64(b"[]")))];
  let mk_sig = |p: &Option<Value>, with_header: bool| { let mut m = serde_json::Map::new(); if let Some(p) = p { m.insert("protected".into(), p.clone()); } if with_header { m.insert("header".into(), json!({"kid": "k"})); } m.insert("signature".into(), json!("AAAA")); Value::Object(m) };
  for a in &prot { for wh in [false, true] { emit(12, &serde_json::to_vec(&json!({"payload": "e30", "signatures": [mk_sig(a, wh)]})).unwrap(), &[0], "general-envelopes", sink);
    let mut f = mk_sig(a, wh); f["payload"] = json!("e30"); emit(11, &serde_json::to_vec(&f).unwrap(), &[0], "flattened-envelopes", sink);
    for b in &prot { emit(12, &serde_json::to_vec(&json!({"payload": "e30", "signatures": [mk_sig(a, wh), mk_sig(b, !wh)]})).unwrap(), &[0], "general-envelopes", sink);
      if !wh { for c in &prot { emit(12, &serde_json::to_vec(&json!({"payload": "e30", "signatures": [mk_sig(a, false), mk_sig(b, true), mk_sig(c, false)]})).unwrap(), &[0], "general-envelopes", sink); } } } } }
  emit(12, br#"{"payload":"e30","signatures":[]}"#, &[0], "general-envelopes", sink); emit(12, br#"{"signatures":[{"signature":"AAAA"}]}"#, &[0], "general-envelopes", sink);
  // kid / iss values that are short or degenerate DID strings, through the decoder and the three validators
  for kid in ["", "d", "di", "did", "did:", "did::", "did:a", "did:a:", "did:a:b", "did:a:b#", "#", "#k", "k", "did#k", "did:example:issuer", "did:example:issuer#", "did:example:issuer#k#", "dıd", " did:example:issuer#k"] {
    for (e, claims) in [(10i64, &vc_claims), (21, &vc_claims), (22, &vp_claims)] { emit(e, hdr(json!({"alg": "EdDSA", "kid": kid}), &serde_json::to_vec(claims).unwrap(), &[7u8; 64]).as_bytes(), &[0], "jws-kid-table", sink);
      let mut c2 = claims.clone(); c2["iss"] = json!(kid); emit(e, hdr(json!({"alg": "EdDSA", "kid": "did:example:issuer#k"}), &serde_json::to_vec(&c2).unwrap(), &[7u8; 64]).as_bytes(), &[1], "jws-iss-table", sink); }
    emit(23, format!("{}~{}", hdr(json!({"alg": "EdDSA", "kid": kid}), &serde_json::to_vec(&vc_claims).unwrap(), &[7u8; 64]), hdr(json!({"alg": "EdDSA", "typ": " kb+jwt", "kid": kid}), br#"{"iat":1,"aud":"a","nonce":"n","sd_hash":"x"}"#, &[7u8; 64])).as_bytes(), &[], "jws-kid-table", sink);
  }
  for cm in json_mutations(&json!({"iat": 1, "aud": "a", "nonce": "n", "sd_hash": "x"})).into_iter().take(80) { let kb2 = hdr(json!({"alg": "EdDSA", "typ": " kb+jwt", "kid": "did:example:issuer#k"}), &serde_json::to_vec(&cm).unwrap(), &[7u8; 64]); emit(23, format!("{}~WyJzYWx0IiwibmFtZSIsIngiXQ~{}", jws_ed, kb2).as_bytes(), &[], "kb-claims-mutation", sink); }
  for cm in json_mutations(&json!({"iss": "https://issuer.example/a", "vct": "https://issuer.example/type", "iat": 1, "_sd_alg": "sha-256", "cnf": {"jwk": jwk_ed.clone()}, "status": {"status_list": {"idx": 1, "uri": "https://x.example/"}}})).into_iter().take(150) { emit(32, format!("{}~", hdr(json!({"alg": "EdDSA", "typ": "vc+sd-jwt"}), &serde_json::to_vec(&cm).unwrap(), &[7u8; 64])).as_bytes(), &[], "sd-jwt-vc-claims-mutation", sink); }
  for iss in ["did:example:issuer", "data:text/plain,x", "https://issuer.example", "https://issuer.example:8443/a/b?q#f", "urn:uuid:1", "file:///etc", "https://[::1]/x"] { emit(32, format!("{}~", hdr(json!({"alg": "EdDSA", "typ": "vc+sd-jwt"}), json!({"iss": iss, "vct": iss, "iat": 1}).to_string().as_bytes(), &[7u8; 64])).as_bytes(), &[], "sd-jwt-vc-iss", sink); }
  // key coordinates of every length around 32
  for xl in [0i64, 1, 16, 31, 32, 33, 48, 64] { for yl in [0i64, 1, 31, 32, 33, 64] { for crv in 0..2 { for sl in [0usize, 63, 64, 65] { emit(27, &vec![3u8; sl], &[xl, yl, crv], "ec-coordinate-lengths", sink); } } } }
  for xl in [0i64, 1, 31, 32, 33, 64] { for sl in [0usize, 1, 63, 64, 65] { emit(28, &vec![4u8; sl.max(xl as usize)], &[xl], "ed-key-lengths", sink); } }
  for n in [0i64, 1, 7, 8, 9, 131071, 131072, 131073, 1 << 20] { emit(19, b"H4sIAAAAAAAAA-3BMQEAAADCoPVPbQwfoAAAAAAAAAAAAAAAAAAAAIC3AYbSVKsAQAAA", &[n], "status-list-index", sink); }
  for n in [i64::MIN, -62167219201, -62167219200, 0, 253402300799, 253402300800, i64::MAX] { emit(7, b"0", &[n], "unix-boundary", sink); }
  // framing of packed state metadata
  for pos in 0..7usize { for val in [0u8, 1, 2, 0x44, 0x7f, 0x80, 0xff] { let mut b = packed.clone(); b[pos] = val; emit(15, &b, &[], "state-metadata-header", sink); } }
  for cut in 0..12usize { emit(15, &packed[..cut.min(packed.len())], &[], "state-metadata-truncated", sink); }
  // hand-built roaring serialisations (entry 43): well-formed ones and every way a container can contradict its header
  for b in roaring_payloads() { emit(43, &b, &[], "roaring-containers", sink); for _ in 0..(if thorough { 12 } else { 2 }) { let m = mutate(rng, &b[..b.len().min(64)], alpha); let mut mm = m; if b.len() > 64 { mm.extend_from_slice(&b[64..]); } emit(43, &mm, &[], "roaring-mutation", sink); } }
  for n in 0..24usize { let b = roaring_payloads()[0].clone(); emit(43, &b[..n.min(b.len())], &[], "roaring-truncated", sink); }
  // did:jwk through every acceptance route (entry 44)
  let okjwk = identity_jose::jwu::encode_b64(br#"{"kty":"OKP","crv":"Ed25519","x":"11qYAYKxCrfVS_7TyWQHOg7hcvPapiMlrwIaaPcHURo"}"#);
  let mut jw: Vec<String> = vec![format!("did:jwk:{okjwk}"), "did:jwk:abc".into(), "did:jwk:e30".into(), "did:jwk:".into(), "did:jwk".into(), "did:example:123".into(), "did:jwk:e30:x".into(), format!("did:jwk:{okjwk}#0"), format!("did:JWK:{okjwk}"), format!("did:jwk:{}", identity_jose::jwu::encode_b64(br#"{"kty":"EC","crv":"Ed25519","x":"AA"}"#)),
    format!("did:jwk:{}", identity_jose::jwu::encode_b64(br#"{"kty":"OKP","crv":"Ed25519","x":"AA","d":"AA"}"#)), format!("did:jwk:{}", identity_jose::jwu::encode_b64(b"[1]")), format!("did:jwk:{}", identity_jose::jwu::encode_b64(b"\xff\xfe")), format!("did:jwk:{okjwk}="), format!("did:web:{okjwk}")];
  for sq in seqs.iter().filter(|q| q.len() < 12).take(400) { jw.push(format!("did:{sq}")); jw.push(format!("did:jwk:{sq}")); }
  for t in &jw { emit(44, t.as_bytes(), &[], "did-jwk-routes", sink); emit(44, serde_json::to_vec(&json!(t)).unwrap().as_slice(), &[], "did-jwk-routes", sink); for _ in 0..(if thorough { 6 } else { 1 }) { emit(44, &mutate(rng, t.as_bytes(), alpha), &[], "did-jwk-mutation", sink); } }
  let _ = ENTRIES;
}
/// roaring "standard" serialisations built by hand. A container is (key, declared cardinality, payload); arrays hold u16 values, bitmaps 1024 u64 words.
pub fn roaring_payloads() -> Vec<Vec<u8>> {
  #[derive(Clone)] enum P { Arr(Vec<u16>), Bits(Vec<(usize, u64)>), Runs(Vec<(u16, u16)>) }
  let ser = |cookie_runs: bool, conts: &[(u16, u32, P)], size_claim: Option<u32>, offsets: bool| -> Vec<u8> {
    let mut o = vec![]; let n = conts.len() as u32;
    if cookie_runs { o.extend(((12347u32) | ((n.wrapping_sub(1)) << 16)).to_le_bytes()); let mut bm = vec![0u8; (conts.len() + 7) / 8]; for (i, c) in conts.iter().enumerate() { if matches!(c.2, P::Runs(_)) { bm[i / 8] |= 1 << (i % 8); } } o.extend(bm); }
    else { o.extend(12346u32.to_le_bytes()); o.extend(size_claim.unwrap_or(n).to_le_bytes()); }
    for (k, card, _) in conts { o.extend(k.to_le_bytes()); o.extend((card.wrapping_sub(1) as u16).to_le_bytes()); }
    if offsets && (!cookie_runs || conts.len() >= 4) { let mut off = o.len() as u32 + 4 * n; for (_, _, p) in conts { o.extend(off.to_le_bytes()); off += match p { P::Arr(a) => 2 * a.len() as u32, P::Bits(_) => 8192, P::Runs(r) => 2 + 4 * r.len() as u32 }; } }
    for (_, _, p) in conts { match p { P::Arr(a) => for x in a { o.extend(x.to_le_bytes()); }, P::Bits(ws) => { let mut w = vec![0u64; 1024]; for (i, x) in ws { w[*i] = *x; } for x in w { o.extend(x.to_le_bytes()); } }, P::Runs(r) => { o.extend((r.len() as u16).to_le_bytes()); for (a, l) in r { o.extend(a.to_le_bytes()); o.extend(l.to_le_bytes()); } } } }
    o };
  let full: Vec<(usize, u64)> = (0..65).map(|i| (i, u64::MAX)).collect();   // 4160 bits
  vec![
    ser(false, &[(0, 3, P::Arr(vec![3, 5, 9]))], None, true),                                  // well formed
    ser(false, &[(0, 2, P::Arr(vec![5, 3]))], None, true),                                     // array out of order
    ser(false, &[(0, 3, P::Arr(vec![3, 3, 9]))], None, true),                                  // duplicate value
    ser(false, &[(0, 3, P::Arr(vec![3, 5]))], None, true),                                     // fewer values than declared
    ser(false, &[(0, 2, P::Arr(vec![3, 5, 9]))], None, true),                                  // more values than declared
    ser(false, &[(1, 1, P::Arr(vec![7])), (0, 1, P::Arr(vec![5]))], None, true),               // keys out of order
    ser(false, &[(0, 1, P::Arr(vec![7])), (0, 1, P::Arr(vec![5]))], None, true),               // duplicate key
    ser(false, &[(0, 1, P::Arr(vec![5])), (1, 1, P::Arr(vec![7]))], None, true),               // two containers, fine
    ser(false, &[(0, 4160, P::Bits(full.clone()))], None, true),                               // bitmap container, fine
    ser(false, &[(0, 4097, P::Bits(full.clone()))], None, true),                               // bitmap: declared count differs from the bits set
    ser(false, &[(0, 4097, P::Bits(vec![(0, 0b101000)]))], None, true),                        // bitmap: 2 bits set, 4097 declared
    ser(false, &[(0, 65536, P::Bits((0..1024).map(|i| (i, u64::MAX)).collect()))], None, true),// full container
    ser(false, &[(0, 5000, P::Arr(vec![3, 5, 9]))], None, true),                               // array data where a bitmap is declared
    ser(false, &[(0, 3, P::Arr(vec![3, 5, 9]))], Some(2), true),                               // size claims more containers
    ser(false, &[(0, 3, P::Arr(vec![3, 5, 9]))], Some(0), true),                               // size claims none
    ser(false, &[(0, 3, P::Arr(vec![3, 5, 9]))], Some(u32::MAX), true),                        // absurd size
    ser(false, &[(0, 3, P::Arr(vec![3, 5, 9]))], None, false),                                 // offset header missing
    ser(false, &[], None, true),                                                               // empty bitmap
    ser(true, &[(0, 3, P::Runs(vec![(3, 2)]))], None, true),                                   // run container, fine
    ser(true, &[(0, 3, P::Runs(vec![(9, 1), (3, 2)]))], None, true),                           // runs out of order
    ser(true, &[(0, 9, P::Runs(vec![(3, 5), (5, 3)]))], None, true),                           // overlapping runs
    ser(true, &[(0, 3, P::Runs(vec![(65535, 7)]))], None, true),                               // run past the end of the container
    ser(true, &[(0, 3, P::Runs(vec![]))], None, true),                                         // no runs at all
    ser(true, &[(0, 2, P::Arr(vec![5, 3])), (1, 3, P::Runs(vec![(3, 2)]))], None, true),       // mixed, array out of order
  ]
}
