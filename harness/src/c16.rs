//! C16 — SD-JWT credentials and key-binding JWTs against the model.
//! see coq/theories/Run/C16Run.v for the case encoding.
use crate::c02::{base_case, err_code, jws_options, key_bytes, mutations, ustr, Case as C02Case, IssuerDoc, KeyEcho, St, DIDS, U, VC};
use crate::common::*;
use identity_core::common::{Object, Timestamp, Url};
use identity_credential::sd_jwt_payload::{Hasher, SdJwt, SdObjectDecoder, SdObjectEncoder, Sha256Hasher};
use identity_credential::validator::{FailFast, JwtCredentialValidationOptions, KeyBindingJWTValidationOptions, KeyBindingJwtError, JwtValidationError, SdJwtCredentialValidator, StatusCheck, SubjectHolderRelationship};
use identity_document::document::CoreDocument;
use serde_json::{json, Map, Value};

const NOW: i64 = 1_900_000_000;
/// bit 3: the issuer claim itself is selectively disclosable (always disclosed when concealed: the model reads the claims after decoding)
const PATHS: [&str; 4] = ["/vc/credentialSubject/name", "/vc/credentialSubject/degree", "/vc/credentialStatus", "/iss"];
fn b64(x: &[u8]) -> String { identity_jose::jwu::encode_b64(x) }
fn compact(header: &Value, payload: &[u8], sigkey: i64) -> String { format!("{}.{}.{}", b64(&serde_json::to_vec(header).unwrap()), b64(payload), b64(&key_bytes(sigkey))) }
/// the claims of a credential whose subject carries two concealable members
fn rich_claims(c: &C02Case) -> Value {
  let mut top = if c.claims_ok { c.vc.claims(true) } else { c.vc.bad_claims(c.bad) };
  if !c.vc.sub_empty { top["vc"]["credentialSubject"]["name"] = json!("x"); top["vc"]["credentialSubject"]["degree"] = json!({"type": "B", "level": 3}); }
  top
}
/// what the validation units read off the claims once the withheld disclosures are gone
fn effective(vc: &VC, conceal: i64, disclose: i64) -> VC {
  let gone = |k: i64| conceal >> k & 1 == 1 && disclose >> k & 1 == 0;
  let mut v = vc.clone();
  // withholding every member of the subject does NOT empty it: sd-jwt-payload 0.2.1 keeps an object whose decoded form is empty as it was (with its `_sd` array)
  if vc.status.is_some() && gone(2) { v.status = None; }
  v
}
struct Built { token: SdJwt, decodes: bool }
fn build_sd(c: &C02Case, conceal: i64, disclose: i64, tamper: i64) -> Option<Built> {
  let claims = rich_claims(c);
  let mut enc = SdObjectEncoder::new(&claims.to_string()).ok()?;
  let mut ds: Vec<String> = vec![];
  for (k, p) in PATHS.iter().enumerate() { if conceal >> k & 1 == 1 && claims.pointer(p).is_some() { let d = enc.conceal(p, Some(format!("salt{k}"))).ok()?; if disclose >> k & 1 == 1 { ds.push(d.to_string()); } } }
  enc.add_sd_alg_property();
  let payload = enc.try_to_string().ok()?;
  match tamper {
    1 => ds.push(identity_credential::sd_jwt_payload::Disclosure::new("forgedsalt".into(), Some("admin".into()), json!(true)).to_string()),   // a disclosure whose digest is not in the signed claims
    2 => if let Some(d) = ds.first().cloned() { ds.push(d); },                                                                         // duplicated
    3 => ds.reverse(),                                                                                                                  // reordered
    4 => ds.push("bm90IGEgZGlzY2xvc3VyZQ".into()),                                                                                      // not a disclosure
    // segments that are no base64url at all: long multi-byte text (error messages are built from them), emoji, empty, a lone delimiter-like byte
    6 => ds.push("\u{e9}".repeat(64)), 7 => ds.push("\u{20ac}".repeat(45)), 8 => ds.push("\u{1f600}".repeat(41)), 9 => ds.push(format!("{}{}", "a".repeat(159), "\u{e9}\u{e9}")),
    5 => if let Some(d) = ds.first_mut() { let forged = identity_credential::sd_jwt_payload::Disclosure::new("salt0".into(), Some("name".into()), json!("mallory")).to_string(); *d = forged; },   // same claim, other value
    _ => {}
  }
  let kid = match c.kid.0 { 0 => None, 1 => Some("not a did url".to_string()), _ => Some(ustr(c.kid.1)) };
  let mut h = Map::new(); h.insert("alg".into(), json!("EdDSA")); h.insert("typ".into(), json!("JWT")); if let Some(k) = kid { h.insert("kid".into(), json!(k)); } if let Some(n) = c.nonce { h.insert("nonce".into(), json!(crate::c02::nonce_str(n))); }
  let jwt = compact(&Value::Object(h), payload.as_bytes(), c.sigkey);
  let decodes = SdObjectDecoder::new_with_sha256().decode(serde_json::from_str::<Value>(&payload).ok()?.as_object()?, &ds).is_ok();
  Some(Built { token: SdJwt::new(jwt, ds, None), decodes })
}
fn tail(case: &[i64]) -> (C02Case, i64, i64, i64, VC) {
  // [1, sd] ++ C02 case (without its kind) ++ [conceal, disclose, tamper] ++ original credential view
  let mut as02 = vec![1]; as02.extend_from_slice(&case[2..]); let c = C02Case::dec(&as02);
  let used = c.enc().len() - 1; let mut v = &case[2 + used..];
  let (conceal, disclose, tamper) = (take1(&mut v).unwrap(), take1(&mut v).unwrap(), take1(&mut v).unwrap());
  let orig = VC::dec(&mut v);
  (c, conceal, disclose, tamper, orig)
}

#[derive(Clone, Debug)]
struct Kb { present: bool, sd_variant: i64, kb_garbage: bool, typ: i64, kid: (i64, U), sigkey: i64, claims_variant: i64, hash_variant: i64, nonce: i64, aud: i64, iat: i64,
  o_nonce: Option<i64>, o_aud: Option<i64>, method_id: Option<U>, scope: i64, earliest: Option<i64>, latest: Option<i64> }
fn wo(o: &mut Vec<i64>, x: Option<i64>) { match x { Some(v) => o.extend([1, v]), None => o.extend([0, 0]) } }
impl Kb {
  fn enc(&self, holder: &IssuerDoc) -> Vec<i64> {
    let mut o = vec![2, NOW, self.present as i64, (self.sd_variant == 0) as i64, 1, (!self.kb_garbage) as i64];
    match self.typ { 0 => o.extend([1, 1]), 1 => o.extend([0, 0]), t => o.extend([1, 10 + t]) }
    o.push(self.kid.0); if self.kid.0 == 2 { o.extend([self.kid.1.d, self.kid.1.r, self.kid.1.f]); }
    o.push(self.sigkey);
    if self.claims_variant == 0 { o.extend([1, if self.hash_variant == 0 { 1 } else { 2 }, self.nonce, self.aud, self.iat]); } else { o.push(0); }
    let mut hd = vec![]; holder.enc(&mut hd); o.extend_from_slice(&hd[1..hd.len() - 1]);      // the document without its id and without the bitmap table
    wo(&mut o, self.o_nonce); wo(&mut o, self.o_aud); match self.method_id { Some(u) => o.extend([1, u.d, u.r, u.f]), None => o.push(0) } o.push(self.scope); wo(&mut o, self.earliest); wo(&mut o, self.latest);
    // harness-only tail
    o.extend([self.sd_variant, self.kb_garbage as i64, self.typ, self.claims_variant, self.hash_variant]); o
  }
}
fn holder_doc() -> IssuerDoc { let mut h = crate::c02::base_issuer(); h.bms.clear(); h }
fn kb_err_code(e: &KeyBindingJwtError) -> i64 {
  match e {
    KeyBindingJwtError::MissingKeyBindingJwt => 1,
    KeyBindingJwtError::JwtValidationError(inner) => match inner { JwtValidationError::JwsDecodingError(_) => 2, JwtValidationError::MethodDataLookupError { message, .. } => if message.contains("extract kid") { 5 } else if message.contains("parse kid") { 6 } else { 7 }, JwtValidationError::Signature { .. } => 8, _ => 20 },
    KeyBindingJwtError::DeserializationError(m) => if m.contains("kb-jwt") { 9 } else { 2 },
    KeyBindingJwtError::SdJwtError(_) => 2, KeyBindingJwtError::InvalidHeaderTypValue => 4, KeyBindingJwtError::InvalidDigest => 10, KeyBindingJwtError::InvalidNonce => 11, KeyBindingJwtError::AudianceMismatch => 12,
    KeyBindingJwtError::IssuanceDate(m) => if m.contains("deserialization") { 13 } else if m.contains("earlier") { 14 } else if m.contains("later") { 15 } else { 16 },
    _ => 21,
  }
}

pub fn exec(case: &[i64]) -> Outcome {
  if case[0] == 1 || case[0] == 3 {
    let multi = case[0] == 3;      // kind 3: verify_signature over ALL trusted issuers (no validation units)
    let (c, conceal, disclose, tamper, orig) = tail(case);
    let docs: Vec<CoreDocument> = match c.issuers.iter().map(|i| i.build()).collect::<Option<Vec<_>>>() { Some(d) => d, None => return Outcome::new(vec![-7]).class("unbuildable").trivial().fail("issuer document does not build") };
    let src = C02Case { vc: orig.clone(), ..c.clone() };
    let built = match build_sd(&src, conceal, disclose, tamper) { Some(b) => b, None => return Outcome::new(vec![-7]).class("unbuildable").trivial().fail("SD-JWT does not build") };
    let mut opts = JwtCredentialValidationOptions::default().earliest_expiry_date(Timestamp::from_unix(c.earliest).unwrap()).latest_issuance_date(Timestamp::from_unix(c.latest).unwrap())
      .status_check(match c.status_mode { 0 => StatusCheck::Strict, 1 => StatusCheck::SkipUnsupported, _ => StatusCheck::SkipAll }).verification_options(jws_options(&c));
    if let Some((h, m)) = c.sh { opts = opts.subject_holder_relationship(Url::parse(format!("did:example:holder{h}")).unwrap(), match m { 0 => SubjectHolderRelationship::AlwaysSubject, 1 => SubjectHolderRelationship::SubjectOnNonTransferable, _ => SubjectHolderRelationship::Any }); }
    let validator = SdJwtCredentialValidator::with_signature_verifier(KeyEcho, SdObjectDecoder::new_with_sha256());
    let res: Result<identity_credential::validator::DecodedJwtCredential<Object>, Vec<JwtValidationError>> = if multi {
      validator.verify_signature::<CoreDocument, Object>(&built.token, &docs, &jws_options(&c)).map_err(|e| vec![e])
    } else {
      validator.validate_credential::<CoreDocument, Object>(&built.token, &docs[0], &opts, if c.ff { FailFast::FirstError } else { FailFast::AllErrors }).map_err(|e| e.validation_errors)
    };
    // conditions of the statement
    let bad_disclosures = [1, 2, 4, 5, 6, 7, 8, 9].contains(&tamper) && (tamper != 2 && tamper != 5 || !built.token.disclosures.is_empty());
    let eff = &c.vc; let used = if multi { &c.issuers[..] } else { &c.issuers[..1] };
    let mid: Option<U> = c.method_id.or(if c.kid.0 == 2 { Some(c.kid.1) } else { None });
    let key = mid.and_then(|u| used.iter().find(|i| i.id == u.d).and_then(|d| d.resolve(u, if c.scope < 0 { 9 } else { c.scope })));
    let sig_ok = c.nonce == c.o_nonce && key.map_or(false, |k| k >= 0 && k == c.sigkey);
    let stage1 = sig_ok && !bad_disclosures && built.decodes && c.claims_ok && mid.is_some() && eff.issuer == mid.map(|u| u.d);
    let matches = c.sh.map_or(false, |(h, _)| eff.sub_id == Some(h));
    let units_ok = multi || eff.issued <= c.latest && eff.expires.map_or(true, |e| e >= c.earliest) && eff.ctx_ok && eff.type_ok && !(eff.sub_id.is_none() && eff.sub_empty)
      && match c.sh { None => true, Some((_, 0)) => matches, Some((_, 1)) => matches || !eff.nontransf.unwrap_or(false), _ => true }
      && (c.status_mode == 2 || match &eff.status { None => true, Some(s) => if !s.bitmap { c.status_mode == 1 } else { s.wf && eff.issuer.and_then(|d| used.iter().find(|i| i.id == d)).and_then(|i| i.svc.iter().find(|e| e.0.d == s.u.d && s.u.f >= 0 && e.0.f == s.u.f).and_then(|e| i.bms.iter().find(|b| b.0 == e.1))).map_or(false, |b| b.1 && !b.2.contains(&s.idx)) } });
    match res {
      Ok(dec) => { let mut obs = vec![0]; let got = serde_json::to_value(&dec.credential).unwrap_or(Value::Null);
        let subj_ok = got.pointer("/credentialSubject/name").is_some() == (!orig.sub_empty && !(conceal & 1 == 1 && disclose & 1 == 0)) && got.get("credentialStatus").is_some() == eff.status.is_some();
        if subj_ok { eff.enc(&mut obs); } else { obs.push(-6); }
        let mut o = Outcome::new(obs).class("sd-accepted");
        if !(stage1 && units_ok) { o = o.fail(if bad_disclosures { "accepted although a supplied disclosure does not hash to a digest in the signed claims" } else { "accepted although a checked condition is false" }); }
        else if !subj_ok || got.pointer("/credentialSubject/name").map_or(false, |n| n != "x") { o = o.fail("the reconstructed credential does not consist of the signed claims and the supplied disclosures"); }
        o }
      Err(e) => { let es: Vec<i64> = e.iter().map(|x| { let c = err_code(x); if c == 20 && format!("{x:?}").contains("sd-jwt claims") { 17 } else { c } }).collect();
        let mut obs = vec![1, es.len() as i64]; obs.extend(es.iter());
        let mut o = Outcome::new(obs).class(if es.contains(&17) { "sd-disclosures-rejected" } else if es.len() == 1 && es[0] < 10 { "sd-rejected-signature-stage" } else { "sd-rejected-units" });
        if stage1 && units_ok { o = o.fail("rejected although every checked condition holds"); }
        o }
    }
  } else {
    // ---- key binding ----
    let mut v = &case[2..]; let take_o = |v: &mut &[i64]| { let f = take1(v).unwrap(); let x = take1(v).unwrap(); if f != 0 { Some(x) } else { None } };
    let present = take1(&mut v).unwrap() != 0; let _sd_ok = take1(&mut v); let _dg = take1(&mut v); let _dec = take1(&mut v); let _typ = take_o(&mut v);
    let kt = take1(&mut v).unwrap(); let ku = if kt == 2 { U { d: take1(&mut v).unwrap(), r: take1(&mut v).unwrap(), f: take1(&mut v).unwrap() } } else { U { d: 0, r: 0, f: -1 } };
    let sigkey = take1(&mut v).unwrap(); let cf = take1(&mut v).unwrap(); let (mut nonce, mut aud, mut iat) = (1, 1, 0); if cf != 0 { let _h = take1(&mut v); nonce = take1(&mut v).unwrap(); aud = take1(&mut v).unwrap(); iat = take1(&mut v).unwrap(); }
    // skip the holder document (fixed)
    let holder = holder_doc(); { let mut hd = vec![]; holder.enc(&mut hd); v = &v[hd.len() - 2..]; }
    let o_nonce = take_o(&mut v); let o_aud = take_o(&mut v); let method_id = if take1(&mut v).unwrap() != 0 { Some(U { d: take1(&mut v).unwrap(), r: take1(&mut v).unwrap(), f: take1(&mut v).unwrap() }) } else { None };
    let scope = take1(&mut v).unwrap(); let earliest = take_o(&mut v); let latest = take_o(&mut v);
    let (sd_variant, kb_garbage, typ, claims_variant, hash_variant) = (take1(&mut v).unwrap(), take1(&mut v).unwrap() != 0, take1(&mut v).unwrap(), take1(&mut v).unwrap(), take1(&mut v).unwrap());
    // the presented SD-JWT
    let mut enc = SdObjectEncoder::new(&json!({"iss": DIDS[1], "nbf": 0, "vc": {"@context": "https://www.w3.org/2018/credentials/v1", "type": "VerifiableCredential", "credentialSubject": {"name": "x", "degree": "y"}}}).to_string()).unwrap();
    let d1 = enc.conceal(PATHS[0], Some("s1".into())).unwrap().to_string(); let d2 = enc.conceal(PATHS[1], Some("s2".into())).unwrap().to_string();
    if sd_variant != 3 { enc.add_sd_alg_property(); } let mut payload: Value = serde_json::from_str(&enc.try_to_string().unwrap()).unwrap();
    if sd_variant == 3 { payload["_sd_alg"] = json!("sha-512"); }
    let jwt = match sd_variant { 1 => "abc".to_string(), 2 => compact(&json!({"alg": "EdDSA", "kid": format!("{}#f0", DIDS[1])}), b"[1,2]", 10), _ => compact(&json!({"alg": "EdDSA", "kid": format!("{}#f0", DIDS[1])}), payload.to_string().as_bytes(), 10) };
    let disclosures = vec![d1.clone(), d2.clone()];
    let hash_over = |ds: &[String]| Sha256Hasher::new().encoded_digest(&format!("{}~{}~", jwt, ds.join("~")));
    let sd_hash = match hash_variant { 0 => hash_over(&disclosures), 1 => hash_over(&[d2.clone(), d1.clone()]), 2 => hash_over(&[d1.clone()]), 3 => Sha256Hasher::new().encoded_digest(&jwt), 4 => "AAAA".to_string(),
      // a digest must be compared as a whole: the empty string, a proper prefix and an extension of the right digest are all wrong
      5 => String::new(), 6 => hash_over(&disclosures)[..10].to_string(), _ => format!("{}x", hash_over(&disclosures)) };
    let mut h = Map::new(); h.insert("alg".into(), json!("EdDSA"));
    match typ { 0 => { h.insert("typ".into(), json!(identity_credential::sd_jwt_payload::KeyBindingJwtClaims::KB_JWT_HEADER_TYP)); } 1 => {} 2 => { h.insert("typ".into(), json!("JWT")); } 3 => { h.insert("typ".into(), json!("kb+jwt2")); }
      4 => { h.insert("typ".into(), json!(identity_credential::sd_jwt_payload::KeyBindingJwtClaims::KB_JWT_HEADER_TYP.to_uppercase())); } _ => { h.insert("typ".into(), json!(format!("{}x", identity_credential::sd_jwt_payload::KeyBindingJwtClaims::KB_JWT_HEADER_TYP))); } }
    match kt { 0 => {} 1 => { h.insert("kid".into(), json!("not a did url")); } _ => { h.insert("kid".into(), json!(ustr(ku))); } }
    let claims = match claims_variant { 0 => json!({"iat": iat, "aud": format!("aud{aud}"), "nonce": format!("n{nonce}"), "sd_hash": sd_hash}), 1 => json!({"iat": iat, "aud": format!("aud{aud}"), "nonce": format!("n{nonce}")}), 2 => json!({"iat": "now", "aud": "a", "nonce": "n", "sd_hash": sd_hash}), _ => json!([1]) };
    let kb = if kb_garbage { "garbage".to_string() } else { compact(&Value::Object(h), claims.to_string().as_bytes(), sigkey) };
    let token = SdJwt::new(jwt.clone(), disclosures, if present { Some(kb) } else { None });
    let as02 = C02Case { o_nonce: None, method_id, scope, ..base_case() };
    let mut ko = KeyBindingJWTValidationOptions::new().jws_verifier_options(jws_options(&as02));
    if let Some(n) = o_nonce { ko = ko.nonce(format!("n{n}")); } if let Some(a) = o_aud { ko = ko.aud(format!("aud{a}")); }
    if let Some(e) = earliest { ko = ko.earliest_issuance_date(Timestamp::from_unix(e).unwrap()); } if let Some(l) = latest { ko = ko.latest_issuance_date(Timestamp::from_unix(l).unwrap()); }
    let doc = holder.build().unwrap();
    let res = SdJwtCredentialValidator::with_signature_verifier(KeyEcho, SdObjectDecoder::new_with_sha256()).validate_key_binding_jwt(&token, &doc, &ko);
    // the conditions
    let mid: Option<U> = method_id.or(if kt == 2 { Some(ku) } else { None });
    let key = mid.and_then(|u| holder.resolve(u, if scope < 0 { 9 } else { scope }));
    let gate = (crate::c07::TS_MIN..=crate::c07::TS_MAX).contains(&iat);
    let all_ok = present && sd_variant == 0 && !kb_garbage && typ == 0 && key.map_or(false, |k| k >= 0 && k == sigkey) && claims_variant == 0 && hash_variant == 0
      && o_nonce.map_or(true, |n| n == nonce) && o_aud.map_or(true, |a| a == aud) && gate && earliest.map_or(true, |e| iat >= e) && match latest { Some(l) => iat <= l, None => iat <= NOW };
    match res {
      Ok(c) => { let h = if c.sd_hash == hash_over(&[d1.clone(), d2.clone()]) { 1 } else { 2 };
        let mut o = Outcome::new(vec![0, h, c.nonce.trim_start_matches('n').parse().unwrap_or(-1), c.aud.trim_start_matches("aud").parse().unwrap_or(-1), c.iat]).class("kb-accepted");
        if !all_ok { o = o.fail("a key-binding JWT was accepted although a bound field is wrong"); } o }
      Err(e) => { let code = kb_err_code(&e); let mut o = Outcome::new(vec![1, code]).class(&format!("kb-rejected-{code}")); if all_ok { o = o.fail("a fully bound key-binding JWT was rejected"); } o }
    }
  }
}

pub fn gen(rng: &mut Rng, thorough: bool, sink: &mut Sink) {
  // (1) credentials: C02's dimensions x which claims are concealed / disclosed x what is done to the disclosure list
  let muts = mutations();
  let emit1 = |c: &C02Case, conceal: i64, disclose: i64, tamper: i64, sink: &mut Sink| {
    let eff = C02Case { vc: effective(&c.vc, conceal, disclose), ..c.clone() };
    let decodes = match build_sd(c, conceal, disclose, tamper) { Some(b) => b.decodes, None => return };
    let e = eff.enc(); let mut case = vec![1, decodes as i64]; case.extend_from_slice(&e[1..]); case.extend([conceal, disclose, tamper]); c.vc.enc(&mut case);
    sink.case(case, if tamper == 0 { "sd-credential" } else { "sd-credential-tampered" });
  };
  for conceal in 0..8 { for disclose in 0..8 { if disclose & !conceal != 0 { continue; } for tamper in 0..10 { emit1(&base_case(), conceal, disclose, tamper, sink); } } }
  for (_, fs) in &muts { for f in fs { let mut c = base_case(); f(&mut c); for (conceal, disclose) in [(7, 7), (7, 0), (5, 1), (3, 2), (8, 8), (15, 15), (13, 9)] { emit1(&c, conceal, disclose, 0, sink); } emit1(&c, 7, 7, 1, sink); } }
  for _ in 0..(if thorough { 6000 } else { 700 }) { let mut c = base_case(); for (k, (_, fs)) in muts.iter().enumerate() { if rng.chance(if k < 7 { 1 } else { 3 }, 8) { rng.pick(fs)(&mut c); } } let iss = if rng.chance(1, 4) { 8 } else { 0 }; let conceal = rng.range(0, 7) | iss; let disclose = (rng.range(0, 7) & conceal) | iss; emit1(&c, conceal, disclose, if rng.chance(1, 3) { rng.range(1, 5) } else { 0 }, sink); }
  // (1b) verify_signature over several trusted issuers (both orders, with and without the right one): kind 3
  let emit3 = |c: &C02Case, conceal: i64, disclose: i64, tamper: i64, sink: &mut Sink| {
    let eff = C02Case { vc: effective(&c.vc, conceal, disclose), ..c.clone() };
    let decodes = match build_sd(c, conceal, disclose, tamper) { Some(b) => b.decodes, None => return };
    let e = eff.enc(); let mut case = vec![3, decodes as i64]; case.extend_from_slice(&e[1..]); case.extend([conceal, disclose, tamper]); c.vc.enc(&mut case);
    sink.case(case, "sd-trusted-issuers");
  };
  for order in 0..5 { for (_, fs) in &muts[..7] { for f in fs { let mut c = base_case(); f(&mut c);
    c.issuers = match order { 0 => vec![crate::c02::other_issuer(), crate::c02::base_issuer()], 1 => vec![crate::c02::base_issuer(), crate::c02::other_issuer()], 2 => vec![crate::c02::other_issuer()], 3 => vec![crate::c02::base_issuer()], _ => vec![] };
    for (conceal, disclose, tamper) in [(7, 7, 0), (7, 0, 0), (3, 1, 1), (8, 8, 0), (15, 15, 0)] { emit3(&c, conceal, disclose, tamper, sink); } } } }
  for _ in 0..(if thorough { 4000 } else { 400 }) { let mut c = base_case(); for (_, fs) in &muts[..7] { if rng.chance(1, 3) { rng.pick(fs)(&mut c); } }
    c.issuers = if rng.chance(1, 2) { vec![crate::c02::other_issuer(), crate::c02::base_issuer()] } else { vec![crate::c02::base_issuer(), crate::c02::other_issuer()] };
    let conceal = rng.range(0, 7); let disclose = rng.range(0, 7) & conceal; emit3(&c, conceal, disclose, if rng.chance(1, 4) { rng.range(1, 5) } else { 0 }, sink); }
  // (2) key binding: each bound field right / wrong, singles and pairs
  let holder = holder_doc();
  let base = Kb { present: true, sd_variant: 0, kb_garbage: false, typ: 0, kid: (2, U { d: 1, r: 0, f: 0 }), sigkey: 10, claims_variant: 0, hash_variant: 0, nonce: 1, aud: 1, iat: 1000, o_nonce: Some(1), o_aud: Some(1), method_id: None, scope: -1, earliest: Some(500), latest: Some(2000) };
  let kmuts: Vec<Vec<fn(&mut Kb)>> = vec![
    vec![|k| k.present = false], vec![|k| k.sd_variant = 1, |k| k.sd_variant = 2, |k| k.sd_variant = 3], vec![|k| k.kb_garbage = true], vec![|k| k.typ = 1, |k| k.typ = 2, |k| k.typ = 3, |k| k.typ = 4, |k| k.typ = 5],
    vec![|k| k.kid = (0, U { d: 0, r: 0, f: -1 }), |k| k.kid = (1, U { d: 0, r: 0, f: -1 }), |k| k.kid.1.f = 5, |k| k.kid.1 = U { d: 2, r: 0, f: 0 }, |k| { k.kid.1.f = 1; k.sigkey = 11; }, |k| k.kid.1.f = 1, |k| k.kid.1.f = 2, |k| { k.kid.1.f = 3; k.sigkey = 13; }],
    vec![|k| k.sigkey = 11, |k| k.sigkey = 20, |k| k.sigkey = 99], vec![|k| k.claims_variant = 1, |k| k.claims_variant = 2, |k| k.claims_variant = 3], vec![|k| k.hash_variant = 1, |k| k.hash_variant = 2, |k| k.hash_variant = 3, |k| k.hash_variant = 4, |k| k.hash_variant = 5, |k| k.hash_variant = 6, |k| k.hash_variant = 7],
    vec![|k| k.nonce = 2, |k| k.o_nonce = None, |k| { k.o_nonce = None; k.nonce = 2; }, |k| k.nonce = 10, |k| k.nonce = 12], vec![|k| k.aud = 2, |k| k.o_aud = None, |k| { k.o_aud = None; k.aud = 2; }],
    vec![|k| k.iat = 499, |k| k.iat = 500, |k| k.iat = 501, |k| k.iat = 1999, |k| k.iat = 2000, |k| k.iat = 2001, |k| k.iat = crate::c07::TS_MAX + 1, |k| k.iat = crate::c07::TS_MIN - 1, |k| k.iat = 220_000_000_000],
    vec![|k| k.earliest = None, |k| k.latest = None, |k| { k.earliest = None; k.latest = None; }, |k| { k.earliest = Some(1000); k.latest = Some(1000); }, |k| { k.earliest = Some(1001); k.latest = Some(999); }, |k| { k.latest = None; k.iat = 220_000_000_000; }, |k| { k.latest = None; k.earliest = None; k.iat = 220_000_000_000; }, |k| { k.latest = None; k.iat = 1_000_000_000; }, |k| { k.latest = None; k.earliest = Some(0); k.iat = 3_000_000_000; }, |k| { k.earliest = None; k.iat = 220_000_000_000; }],
    vec![|k| k.method_id = Some(U { d: 1, r: 0, f: 0 }), |k| { k.method_id = Some(U { d: 1, r: 0, f: 1 }); k.sigkey = 11; }, |k| k.method_id = Some(U { d: 1, r: 0, f: 1 }), |k| { k.method_id = Some(U { d: 1, r: 0, f: 0 }); k.kid = (0, U { d: 0, r: 0, f: -1 }); }],
    vec![|k| k.scope = 0, |k| k.scope = 1, |k| k.scope = 2, |k| k.scope = 3],
  ];
  sink.case(base.enc(&holder), "kb-base");
  for fs in &kmuts { for f in fs { let mut k = base.clone(); f(&mut k); sink.case(k.enc(&holder), "kb-single"); } }
  for a in 0..kmuts.len() { for b in (a + 1)..kmuts.len() { for fa in &kmuts[a] { for fb in &kmuts[b] { let mut k = base.clone(); fa(&mut k); fb(&mut k); sink.case(k.enc(&holder), "kb-pair"); } } } }
  for _ in 0..(if thorough { 10000 } else { 1000 }) { let mut k = base.clone(); for fs in &kmuts { if rng.chance(1, 5) { rng.pick(fs)(&mut k); } } sink.case(k.enc(&holder), "kb-random"); }
}
