//! C09 — generate_method / purge_method under storage faults against the model.
//! case: <start document as in C04 without queries> op ...    (see coq/theories/Run/C09Run.v)
//! The start document is built for real: every method by generate_method on fault-free stores, references by
//! attach, dangling references and services by editing the JSON.  Faults are injected by wrappers around the
//! in-memory stores that fail the storage calls named by a bit script indexed by call occurrence.
use crate::c04::{self, U};
use crate::common::*;
use async_trait::async_trait;
use identity_core::convert::{FromJson, ToJson};
use identity_did::{DIDUrl, DID};
use identity_document::document::CoreDocument;
use identity_storage::key_id_storage::{KeyIdStorage, KeyIdStorageError, KeyIdStorageErrorKind, KeyIdStorageResult, MethodDigest};
use identity_storage::key_storage::{JwkGenOutput, JwkStorage, KeyId, KeyStorageError, KeyStorageErrorKind, KeyStorageResult, KeyType};
use identity_storage::{JwkStorageDocumentError as StorageError, JwkDocumentExt, JwkMemStore, JwsSignatureOptions, KeyIdMemstore, Storage};
use identity_verification::jwk::Jwk;
use identity_verification::jws::JwsAlgorithm;
use identity_verification::{MethodRef, MethodRelationship, MethodScope};
use std::cell::{Cell, RefCell};
use std::collections::HashMap;
use std::rc::Rc;

pub struct Ctl { pub script: RefCell<Vec<i64>>, pub next: Cell<usize>, pub active: Cell<bool>, pub calls: RefCell<Vec<&'static str>>, /// the store hands out generated JWKs without a `kid` (the JwkStorage contract allows it)
  pub strip_kid: Cell<bool> }
impl Ctl {
  /// 0 = the call goes through; otherwise the KIND of the injected failure (the property quantifies over every failure, whatever its kind)
  fn hit(&self, name: &'static str) -> i64 {
    if !self.active.get() { return 0; }
    self.calls.borrow_mut().push(name);
    let i = self.next.get(); self.next.set(i + 1);
    self.script.borrow().get(i).copied().unwrap_or(0)
  }
}
pub struct FaultyJwk { pub inner: JwkMemStore, pub ctl: Rc<Ctl> }
pub struct FaultyKid { pub inner: KeyIdMemstore, pub ctl: Rc<Ctl> }
fn kerr(k: i64) -> KeyStorageError { KeyStorageError::new(match k { 2 => KeyStorageErrorKind::KeyNotFound, 3 => KeyStorageErrorKind::Unavailable, 4 => KeyStorageErrorKind::KeyAlgorithmMismatch, 5 => KeyStorageErrorKind::RetryableIOFailure, _ => KeyStorageErrorKind::Unspecified }) }
fn ierr(k: i64) -> KeyIdStorageError { KeyIdStorageError::new(match k { 2 => KeyIdStorageErrorKind::KeyIdNotFound, 3 => KeyIdStorageErrorKind::Unavailable, 4 => KeyIdStorageErrorKind::KeyIdAlreadyExists, 5 => KeyIdStorageErrorKind::RetryableIOFailure, _ => KeyIdStorageErrorKind::Unspecified }) }
#[async_trait(?Send)]
impl JwkStorage for FaultyJwk {
  async fn generate(&self, key_type: KeyType, alg: JwsAlgorithm) -> KeyStorageResult<JwkGenOutput> { { let k = self.ctl.hit("generate"); if k != 0 { return Err(kerr(k)); } }
    let out = self.inner.generate(key_type, alg).await?;
    if self.ctl.active.get() && self.ctl.strip_kid.get() { let mut j = serde_json::to_value(&out.jwk).unwrap(); j.as_object_mut().unwrap().remove("kid"); return Ok(JwkGenOutput::new(out.key_id, serde_json::from_value(j).unwrap())); }
    Ok(out) }
  async fn insert(&self, jwk: Jwk) -> KeyStorageResult<KeyId> { { let k = self.ctl.hit("insert"); if k != 0 { return Err(kerr(k)); } } self.inner.insert(jwk).await }
  async fn sign(&self, key_id: &KeyId, data: &[u8], public_key: &Jwk) -> KeyStorageResult<Vec<u8>> { { let k = self.ctl.hit("sign"); if k != 0 { return Err(kerr(k)); } } self.inner.sign(key_id, data, public_key).await }
  async fn delete(&self, key_id: &KeyId) -> KeyStorageResult<()> { { let k = self.ctl.hit("delete"); if k != 0 { return Err(kerr(k)); } } self.inner.delete(key_id).await }
  async fn exists(&self, key_id: &KeyId) -> KeyStorageResult<bool> { { let k = self.ctl.hit("exists"); if k != 0 { return Err(kerr(k)); } } self.inner.exists(key_id).await }
}
#[async_trait(?Send)]
impl KeyIdStorage for FaultyKid {
  async fn insert_key_id(&self, d: MethodDigest, k: KeyId) -> KeyIdStorageResult<()> { { let k = self.ctl.hit("insert_key_id"); if k != 0 { return Err(ierr(k)); } } self.inner.insert_key_id(d, k).await }
  async fn get_key_id(&self, d: &MethodDigest) -> KeyIdStorageResult<KeyId> { { let k = self.ctl.hit("get_key_id"); if k != 0 { return Err(ierr(k)); } } self.inner.get_key_id(d).await }
  async fn delete_key_id(&self, d: &MethodDigest) -> KeyIdStorageResult<()> { { let k = self.ctl.hit("delete_key_id"); if k != 0 { return Err(ierr(k)); } } self.inner.delete_key_id(d).await }
}
type FStorage = Storage<FaultyJwk, FaultyKid>;
const RELS: [MethodRelationship; 5] = [MethodRelationship::Authentication, MethodRelationship::AssertionMethod, MethodRelationship::KeyAgreement, MethodRelationship::CapabilityDelegation, MethodRelationship::CapabilityInvocation];
fn scope_of(z: i64) -> MethodScope { if z == 0 { MethodScope::VerificationMethod } else { MethodScope::VerificationRelationship(RELS[(z - 1) as usize]) } }

struct World { doc: CoreDocument, storage: FStorage, ctl: Rc<Ctl>, data_of_id: HashMap<String, i64>, keys: Vec<(i64, KeyId, MethodDigest)> }

fn canon_doc(doc: &CoreDocument, w: &World, obs: &mut Vec<i64>) {
  let d = |id: &DIDUrl| *w.data_of_id.get(&id.to_string()).unwrap_or(&-1);
  let put = |o: &mut Vec<i64>, u: U| o.extend([u.d, u.r, u.f]);
  obs.push(doc.verification_method().len() as i64);
  for m in doc.verification_method().iter() { put(obs, c04::uints(m.id())); obs.push(d(m.id())); }
  let sets: [&identity_core::common::OrderedSet<MethodRef>; 5] = [doc.authentication(), doc.assertion_method(), doc.key_agreement(), doc.capability_delegation(), doc.capability_invocation()];
  for s in sets { obs.push(s.len() as i64); for e in s.iter() { match e { MethodRef::Embed(m) => { obs.push(0); put(obs, c04::uints(m.id())); obs.push(d(m.id())); } MethodRef::Refer(u) => { obs.push(1); put(obs, c04::uints(u)); } } } }
  obs.push(doc.service().len() as i64);
  for s in doc.service().iter() { put(obs, c04::uints(s.id())); obs.push(30); }
}
fn sorted_json(doc: &CoreDocument) -> serde_json::Value {
  fn sort(v: &mut serde_json::Value) { match v { serde_json::Value::Array(a) => { for x in a.iter_mut() { sort(x); } a.sort_by_key(|x| x.to_string()); } serde_json::Value::Object(m) => { for (_, x) in m.iter_mut() { sort(x); } } _ => {} } }
  let mut v = serde_json::to_value(doc).unwrap(); sort(&mut v); v
}

async fn gen_one(w: &mut World, u: U, data: i64, scope: MethodScope) {
  let frag = format!("#f{}", u.f);
  w.doc.generate_method(&w.storage, JwkMemStore::ED25519_KEY_TYPE, JwsAlgorithm::EdDSA, Some(&frag), scope).await.unwrap();
  let m = w.doc.resolve_method(frag.as_str(), Some(scope)).unwrap().clone();
  let dg = MethodDigest::new(&m).unwrap();
  let kid = w.storage.key_id_storage().inner.get_key_id(&dg).await.unwrap();
  w.data_of_id.insert(m.id().to_string(), data);
  w.keys.push((data, kid, dg));
}

pub fn exec(case: &[i64]) -> Outcome {
  crate::jws_storage::rt().block_on(async {
    let mut v = case;
    let ctl = Rc::new(Ctl { script: RefCell::new(vec![]), next: Cell::new(0), active: Cell::new(false), calls: RefCell::new(vec![]), strip_kid: Cell::new(false) });
    let storage: FStorage = Storage::new(FaultyJwk { inner: JwkMemStore::new(), ctl: ctl.clone() }, FaultyKid { inner: KeyIdMemstore::new(), ctl: ctl.clone() });
    let mut w = World { doc: CoreDocument::builder(Default::default()).id(c04::DIDS[1].parse().unwrap()).build().unwrap(), storage, ctl, data_of_id: HashMap::new(), keys: vec![] };
    // ---- build the start document
    let mut take_u = |v: &mut &[i64]| U { d: take1(v).unwrap(), r: take1(v).unwrap(), f: take1(v).unwrap() };
    let n = take1(&mut v).unwrap(); let mut vm = Vec::new(); for _ in 0..n { vm.push((take_u(&mut v), take1(&mut v).unwrap())); }
    let mut rels: Vec<Vec<(bool, U, i64)>> = Vec::new();
    for _ in 0..5 { let n = take1(&mut v).unwrap(); let mut l = Vec::new(); for _ in 0..n { let t = take1(&mut v).unwrap(); let u = take_u(&mut v); if t == 0 { l.push((true, u, take1(&mut v).unwrap())); } else { l.push((false, u, -1)); } } rels.push(l); }
    let n = take1(&mut v).unwrap(); let mut svc = Vec::new(); for _ in 0..n { svc.push((take_u(&mut v), take1(&mut v).unwrap())); }
    // payloads >= 500 are KEYLESS methods (no key in the stores: e.g. the controller's key listed in this document): written into the JSON below
    // a keyed method that is NOT '<own DID>#f' (another DID, or a path / query in its id) is generated under a temporary fragment and re-labelled below
    let relabelled = |u: &U| u.d != 1 || u.r != 0;
    for (i, (u, x)) in vm.iter().enumerate() { if *x < 500 { let gu = if relabelled(u) { U { d: 1, r: 0, f: 900 + i as i64 } } else { *u }; gen_one(&mut w, gu, *x, MethodScope::VerificationMethod).await; } }
    for (ri, l) in rels.iter().enumerate() { for (e, u, x) in l { if *e { gen_one(&mut w, *u, *x, MethodScope::VerificationRelationship(RELS[ri])).await; } } }
    // references (dangling ones too) and services: edit the JSON so that the order inside each set is the case's order
    let mut j: serde_json::Value = serde_json::to_value(&w.doc).unwrap();
    let names = ["authentication", "assertionMethod", "keyAgreement", "capabilityDelegation", "capabilityInvocation"];
    // a general method of ANOTHER DID (the controller's key listed in this document): generated for real above, then re-labelled
    { let generated: Vec<serde_json::Value> = j.get("verificationMethod").and_then(|a| a.as_array()).cloned().unwrap_or_default(); let mut g = generated.into_iter(); let mut out = Vec::new();
      for (u, x) in vm.iter() {
        if *x >= 500 { let mut m = c04::meth_json(*u, *x); m["controller"] = serde_json::json!(c04::DIDS[u.d as usize]); m["publicKeyMultibase"] = serde_json::json!(format!("z{}", x.to_string().replace('0', "A")));   // decodable base58: the method digest of such a method can be computed
          out.push(m); w.data_of_id.insert(c04::ustr(*u), *x); continue; }
        let mut m = g.next().unwrap();
        if relabelled(u) { m["id"] = serde_json::json!(c04::ustr(*u)); m["controller"] = serde_json::json!(c04::DIDS[u.d as usize]); w.data_of_id.insert(c04::ustr(*u), *x); }
        out.push(m); }
      if !out.is_empty() { j["verificationMethod"] = serde_json::Value::Array(out); } }
    for (ri, l) in rels.iter().enumerate() {
      let existing: Vec<serde_json::Value> = j.get(names[ri]).and_then(|a| a.as_array()).cloned().unwrap_or_default();
      let mut out = Vec::new(); let mut emb = existing.into_iter();
      for (e, u, _) in l { if *e { out.push(emb.next().unwrap()); } else { out.push(serde_json::json!(c04::ustr(*u))); } }
      if !out.is_empty() { j[names[ri]] = serde_json::Value::Array(out); }
    }
    if !svc.is_empty() { j["service"] = serde_json::Value::Array(svc.iter().map(|(u, x)| c04::svc_json(*u, *x)).collect()); }
    w.doc = match CoreDocument::from_json(&j.to_string()) { Ok(d) => d, Err(_) => return Outcome::new(vec![-6]).class("start-rejected").trivial() };
    // the key id of a re-labelled method is recorded under the digest of the method as the document now holds it (the digest covers the fragment)
    for (u, x) in vm.iter() { if *x < 500 && relabelled(u) {
      let id = c04::ustr(*u);
      if let Some(m) = w.doc.verification_method().iter().find(|m| m.id().to_string() == id) { if let Ok(dg_new) = MethodDigest::new(m) {
        if let Some(entry) = w.keys.iter_mut().find(|(d, _, _)| d == x) { let _ = w.storage.key_id_storage().inner.delete_key_id(&entry.2).await; let _ = w.storage.key_id_storage().inner.insert_key_id(dg_new.clone(), entry.1.clone()).await; entry.2 = dg_new; } } }
    } }
    // ---- the operation under test
    let before = w.doc.clone();
    let (keys_before, kids_before) = (w.storage.key_storage().inner.count().await, w.storage.key_id_storage().inner.count().await);
    let op = take1(&mut v).unwrap();
    let mut new_key: Option<i64> = None; let mut purged_id: Option<String> = None;
    let (res, target): (Result<(), StorageError>, String) = if op == 0 {
      let k = take1(&mut v).unwrap(); let u = take_u(&mut v); let sc = take1(&mut v).unwrap();
      let bits = take_lp(&mut v).unwrap(); *w.ctl.script.borrow_mut() = bits.to_vec();
      new_key = Some(k);
      let frag = format!("#f{}", u.f);
      // fragment -1: no fragment is given AND the store's JWK carries no kid, so the method cannot be built
      let no_id = u.f == -1; w.ctl.strip_kid.set(no_id);
      w.ctl.active.set(true);
      let r = w.doc.generate_method(&w.storage, JwkMemStore::ED25519_KEY_TYPE, JwsAlgorithm::EdDSA, if no_id { None } else { Some(&frag) }, scope_of(sc)).await;
      w.ctl.active.set(false); w.ctl.strip_kid.set(false);
      // the new method is addressed by its FULL id from here on: a bare fragment may also name a method of another DID listed earlier
      let full = if no_id { frag.clone() } else { c04::ustr(u) };
      if before.resolve_method(full.as_str(), None).is_none() { w.data_of_id.insert(c04::ustr(u), k); }
      (r.map(|_| ()), full)
    } else {
      let u = take_u(&mut v);
      let bits = take_lp(&mut v).unwrap(); *w.ctl.script.borrow_mut() = bits.to_vec();
      let id = DIDUrl::parse(c04::ustr(u)).unwrap(); purged_id = Some(c04::ustr(u));
      w.ctl.active.set(true);
      let r = w.doc.purge_method(&w.storage, &id).await;
      w.ctl.active.set(false);
      (r, c04::ustr(U { d: u.d, r: 0, f: u.f }))
    };
    let kind = match &res { Ok(()) => 0, Err(StorageError::UndoOperationFailed { .. }) => 2, Err(_) => 1 };
    let mut obs = vec![kind];
    canon_doc(&w.doc, &w, &mut obs);
    let (keys_after, kids_after) = (w.storage.key_storage().inner.count().await, w.storage.key_id_storage().inner.count().await);
    obs.push(keys_after as i64); obs.push(kids_after as i64);
    let mut key_flags = Vec::new(); let mut kid_flags = Vec::new();
    for (_, kid, dg) in &w.keys { key_flags.push(w.storage.key_storage().inner.exists(kid).await.unwrap_or(false) as i64); kid_flags.push(matches!(w.storage.key_id_storage().inner.get_key_id(dg).await, Ok(ref k) if k == kid) as i64); }
    if new_key.is_some() {
      // the new key: present iff the store grew; recorded iff the new method's digest maps to a key that exists
      key_flags.push((keys_after > keys_before) as i64);
      let rec = match w.doc.resolve_method(target.as_str(), None) { Some(m) if w.data_of_id.get(&m.id().to_string()) == new_key.as_ref() => match MethodDigest::new(m) { Ok(dg) => w.storage.key_id_storage().inner.get_key_id(&dg).await.is_ok(), Err(_) => false }, _ => false };
      kid_flags.push(rec as i64);
    }
    obs.extend(key_flags.iter()); obs.extend(kid_flags.iter());
    // ---- the property itself
    let mut o = Outcome::new(obs).class(match kind { 0 => "completed", 1 => "plain-error", _ => "undo-failed" });
    let faults = w.ctl.script.borrow().iter().filter(|b| **b != 0).count();
    if faults == 0 { o = o.trivial(); }
    match kind {
      1 => {
        if sorted_json(&w.doc) != sorted_json(&before) { o = o.fail("plain error but the document changed (methods, scopes or relationship references)"); }
        else if w.doc != before { o.class = "plain-error-reordered".into(); }
        if keys_after != keys_before || key_flags.iter().take(w.keys.len()).any(|f| *f == 0) { o = o.fail("plain error but the key store changed (orphaned or lost key)"); }
        if kids_after != kids_before || kid_flags.iter().take(w.keys.len()).any(|f| *f == 0) { o = o.fail("plain error but the key-id store changed"); }
      }
      0 => {
        if op == 0 {
          let ok = match w.doc.resolve_method(target.as_str(), None) { Some(m) => { let dg = MethodDigest::new(m).unwrap(); w.storage.key_id_storage().inner.get_key_id(&dg).await.is_ok() } None => false };
          if !ok { o = o.fail("generate completed but the method does not resolve / its key id is not recorded"); }
          if w.doc.create_jws(&w.storage, &target, b"payload", &JwsSignatureOptions::new()).await.is_err() { o = o.fail("generate completed but signing with the method fails"); }
          if keys_after != keys_before + 1 || kids_after != kids_before + 1 { o = o.fail("generate completed but the stores did not grow by one"); }
        } else {
          if w.doc.resolve_method(target.as_str(), None).is_some() && sorted_json(&w.doc) == sorted_json(&before) { o = o.fail("purge completed but the method is still there"); }
          if keys_after + 1 != keys_before || kids_after + 1 != kids_before { o = o.fail("purge completed but key / key id were not removed together"); }
          // exactly the purged method's key and key id are gone, every other method keeps a usable key
          let purged_data = purged_id.as_ref().and_then(|id| w.data_of_id.get(id)).copied();
          for (idx, (data, _, _)) in w.keys.iter().enumerate() { let should_exist = Some(*data) != purged_data; if (key_flags[idx] == 1) != should_exist || (kid_flags[idx] == 1) != should_exist { o = o.fail("purge completed but not exactly the purged method's key and key id were removed (another method lost its key, or the purged one kept it)"); } }
        }
      }
      _ => {}
    }
    o
  })
}

pub fn gen(rng: &mut Rng, thorough: bool, sink: &mut Sink) {
  use c04::{u, Start};
  let e = || -> [Vec<(bool, U, i64)>; 5] { [vec![], vec![], vec![], vec![], vec![]] };
  let mut shapes: Vec<Start> = vec![Start { vm: vec![], rels: e(), svc: vec![] }];
  shapes.push(Start { vm: vec![(u(1, 0, 1), 1)], rels: e(), svc: vec![] });
  let mut r = e(); r[0].push((false, u(1, 0, 1), -1)); shapes.push(Start { vm: vec![(u(1, 0, 1), 1)], rels: r, svc: vec![] });
  let mut r = e(); r[0].push((false, u(1, 0, 1), -1)); r[1].push((false, u(1, 0, 1), -1)); r[4].push((false, u(1, 0, 1), -1)); shapes.push(Start { vm: vec![(u(1, 0, 1), 1), (u(1, 0, 2), 2)], rels: r, svc: vec![] });
  let mut r = e(); r[0].push((true, u(1, 0, 1), 1)); shapes.push(Start { vm: vec![], rels: r, svc: vec![] });
  let mut r = e(); r[0].push((false, u(1, 0, 1), -1)); r[1].push((true, u(1, 0, 2), 2)); r[2].push((false, u(1, 0, 3), -1)); r[3].push((false, u(1, 0, 1), -1));
  shapes.push(Start { vm: vec![(u(1, 0, 1), 1)], rels: r, svc: vec![(u(1, 0, 4), 30)] });
  // a general method of another DID with the fragment that is about to be generated / purged (listed before and after an own method)
  shapes.push(Start { vm: vec![(u(2, 0, 1), 1)], rels: e(), svc: vec![] });
  shapes.push(Start { vm: vec![(u(2, 0, 1), 1), (u(1, 0, 2), 2), (u(2, 0, 3), 3)], rels: e(), svc: vec![] });
  // two keyed methods that share DID and fragment and differ in the query of their ids (both orders)
  shapes.push(Start { vm: vec![(u(1, 0, 1), 1), (u(1, 2, 1), 2)], rels: e(), svc: vec![] });
  shapes.push(Start { vm: vec![(u(1, 2, 1), 2), (u(1, 0, 1), 1), (u(1, 1, 2), 3)], rels: e(), svc: vec![] });
  // ... and the same with a KEYLESS foreign method (payload >= 500), whose digest is free in the key-id store
  shapes.push(Start { vm: vec![(u(2, 0, 1), 501)], rels: e(), svc: vec![] });
  shapes.push(Start { vm: vec![(u(2, 0, 1), 501), (u(1, 0, 2), 2), (u(2, 0, 5), 505)], rels: e(), svc: vec![] });
  // references that spell an existing method's DID and fragment WITH a path / query (not that method's id), next to a plain one
  let mut r = e(); r[0].push((false, u(1, 1, 1), -1)); r[1].push((false, u(1, 0, 1), -1)); r[2].push((false, u(1, 2, 1), -1)); shapes.push(Start { vm: vec![(u(1, 0, 1), 1)], rels: r, svc: vec![] });
  let mut r = e(); r[0].push((false, u(1, 2, 2), -1)); r[4].push((false, u(1, 1, 2), -1)); shapes.push(Start { vm: vec![(u(1, 0, 1), 1), (u(1, 0, 2), 2)], rels: r, svc: vec![] });
  let masks = |n: usize| -> Vec<Vec<i64>> { (0..(1u32 << n)).map(|m| (0..n).map(|i| ((m >> i) & 1) as i64).collect()).collect() };
  for s in &shapes {
    let head = { let mut c = c04::enc_start(s, &[]); c.pop(); c };   // drop the query count
    for f in [1i64, 2, 3, 4, 5] { for sc in [0i64, 1, 2] { for m in masks(4) {
      let mut c = head.clone(); c.extend([0, 9, 1, 0, f, sc]); put_lp(&mut c, &m); sink.case(c, "generate-masks");
    } } }
    for f in [1i64, 2, 3, 5] { for m in masks(4) {
      let mut c = head.clone(); c.extend([1, 1, 0, f]); put_lp(&mut c, &m); sink.case(c, "purge-masks");
    } }
    // purge by an id that names an existing method's DID and fragment but carries a path / query: not that method's id
    for f in [1i64, 2, 5] { for r in [1i64, 2] { for m in masks(2) {
      let mut c = head.clone(); c.extend([1, 1, r, f]); put_lp(&mut c, &m); sink.case(c, "purge-other-spelling");
    } } }
    for sc in [0i64, 1, 4] { for m in masks(3) { for k in [1i64, 2, 3] {
      let mut c = head.clone(); c.extend([0, 9, 1, 0, -1, sc]); put_lp(&mut c, &m.iter().map(|b| b * k).collect::<Vec<i64>>()); sink.case(c, "generate-without-id");
    } } }
  }
  // the KIND of the injected failure must not matter: every mask again with not-found / unavailable / other kinds on each failing call
  let kinds_of = |m: &Vec<i64>, k: i64| -> Vec<i64> { m.iter().map(|b| if *b != 0 { k } else { 0 }).collect() };
  for s in &shapes {
    let head = { let mut c = c04::enc_start(s, &[]); c.pop(); c };
    for k in [2i64, 3, 4, 5] { for m in masks(4) { if m.iter().all(|b| *b == 0) { continue; }
      for (f, sc) in [(1i64, 0i64), (1, 1), (2, 0), (5, 2)] { let mut c = head.clone(); c.extend([0, 9, 1, 0, f, sc]); put_lp(&mut c, &kinds_of(&m, k)); sink.case(c, "generate-masks-kinds"); }
      for f in [1i64, 2] { let mut c = head.clone(); c.extend([1, 1, 0, f]); put_lp(&mut c, &kinds_of(&m, k)); sink.case(c, "purge-masks-kinds"); }
      // mixed kinds: the first failing call not-found, the later ones generic (and the other way round)
      let mut first = true; let mixed: Vec<i64> = m.iter().map(|b| if *b != 0 { let v = if first { k } else { 1 }; first = false; v } else { 0 }).collect();
      let mut c = head.clone(); c.extend([0, 9, 1, 0, 1, 0]); put_lp(&mut c, &mixed); sink.case(c, "generate-masks-kinds");
      let mut c = head.clone(); c.extend([1, 1, 0, 1]); put_lp(&mut c, &mixed); sink.case(c, "purge-masks-kinds");
      let rev: Vec<i64> = { let mut first = true; m.iter().map(|b| if *b != 0 { let v = if first { 1 } else { k }; first = false; v } else { 0 }).collect() };
      let mut c = head.clone(); c.extend([0, 9, 1, 0, 1, 0]); put_lp(&mut c, &rev); sink.case(c, "generate-masks-kinds");
      let mut c = head.clone(); c.extend([1, 1, 0, 1]); put_lp(&mut c, &rev); sink.case(c, "purge-masks-kinds");
    } }
  }
  if thorough { for _ in 0..2000 { let s = rng.pick(&shapes); let mut c = c04::enc_start(s, &[]); c.pop(); if rng.chance(1, 2) { c.extend([0, 9, 1, 0, rng.range(1, 5), rng.range(0, 5)]); } else { c.extend([1, 1, 0, rng.range(1, 5)]); } let m: Vec<i64> = (0..6).map(|_| rng.chance(1, 3) as i64).collect(); put_lp(&mut c, &m); sink.case(c, "random-faults"); } }
}
