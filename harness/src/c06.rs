//! C06 — revocation bitmaps against the model.
//! see coq/theories/Run/C06Run.v for the case encoding.
use crate::common::*;
use flate2::write::{ZlibDecoder, ZlibEncoder};
use flate2::Compression;
use identity_core::common::{Object, Timestamp, Url};
use identity_core::convert::{Base, BaseEncoding, FromJson};
use identity_credential::credential::Credential;
use identity_credential::revocation::{RevocationBitmap, RevocationDocumentExt};
use identity_credential::validator::{JwtCredentialValidatorUtils, JwtValidationError, StatusCheck};
use identity_document::document::CoreDocument;
use identity_document::service::Service;
use roaring::RoaringBitmap;
use serde_json::{json, Value};
use std::io::Write;

const NONCANON: i64 = 4611686018427387904;
const PREFIX: &str = "data:application/octet-stream;base64,";
/// an IOTA DID, so that the same histories also run on an IotaDocument (the wrappers in identity_iota_core)
const DID1: &str = "did:iota:0x1111111111111111111111111111111111111111111111111111111111111111";
const DIDS: [&str; 3] = ["", DID1, "did:iota:0x2222222222222222222222222222222222222222222222222222222222222222"];
// ---- the harness's own codec (roaring + zlib), used to record the oracle tables and to read members out of an endpoint ----
fn rser(set: &[u32]) -> Vec<u8> { let b: RoaringBitmap = set.iter().copied().collect(); let mut o = vec![]; b.serialize_into(&mut o).unwrap(); o }
fn zcomp(data: &[u8]) -> Vec<u8> { let mut e = ZlibEncoder::new(Vec::new(), Compression::default()); e.write_all(data).unwrap(); e.finish().unwrap() }
fn zdecomp(data: &[u8]) -> Option<Vec<u8>> { let mut d = ZlibDecoder::new(Vec::new()); d.write_all(data).ok()?; d.finish().ok() }
/// a corrupted stream can deserialise to a roaring structure whose containers are out of order (members not strictly increasing): that is not a bitmap
fn rde(data: &[u8]) -> Option<Vec<u32>> { RoaringBitmap::deserialize_from(data).ok().map(|b| b.iter().collect::<Vec<u32>>()).filter(|s| s.windows(2).all(|w| w[0] < w[1])) }
fn unz(z: &[u8]) -> Option<Vec<u32>> { zdecomp(z).and_then(|d| rde(&d)) }
fn b64u_dec(t: &str) -> Option<Vec<u8>> { BaseEncoding::decode(t, Base::Base64Url).ok() }
fn b64s_dec(t: &str) -> Option<Vec<u8>> { BaseEncoding::decode(t, Base::Base64).ok() }
/// the z-byte candidates a decoder may look at for an endpoint text: read directly, and read as the legacy form
fn candidates(text: &str) -> Vec<Vec<u8>> {
  let mut out = vec![]; if let Some(z) = b64u_dec(text) { out.push(z); }
  if let Some(inner) = b64s_dec(text).and_then(|d| String::from_utf8(d).ok()) { if let Some(z) = b64u_dec(&inner) { out.push(z); } } out
}
fn members_of_endpoint(url: &str) -> Option<Vec<u32>> { let t = url.strip_prefix(PREFIX)?; for z in candidates(t) { if let Some(s) = unz(&z) { return Some(s); } } None }
fn bitmap_of(set: &[u32]) -> RevocationBitmap { let mut b = RevocationBitmap::new(); for i in set { b.revoke(*i); } b }
fn digest(o: &mut Vec<i64>, s: &[u32]) {
  if s.len() <= 64 { o.push(s.len() as i64); o.extend(s.iter().map(|x| *x as i64)); }
  else { let mut acc: u64 = 0; for x in s { acc = (acc + *x as u64) % 2305843009213693952; } o.extend([s.len() as i64, acc as i64, s[0] as i64, *s.last().unwrap() as i64]); }
}
fn svc_id(d: i64, f: i64) -> String { format!("{}#f{}", DIDS[d as usize], f) }
/// type code: 0 another type, 1 RevocationBitmap2022, 2 [other, RevocationBitmap2022], 3 [RevocationBitmap2022, other] (a service may carry several types)
fn service_json(id: &str, tcode: i64, endpoint: Value) -> Value {
  let ty = match tcode { 0 => json!("LinkedDomains"), 1 => json!("RevocationBitmap2022"), 2 => json!(["CredentialStatusRegistry", "RevocationBitmap2022"]), _ => json!(["RevocationBitmap2022", "CredentialStatusRegistry"]) };
  json!({"id": id, "type": ty, "serviceEndpoint": endpoint})
}
fn endpoint_text(svc: &Service) -> Option<String> { serde_json::to_value(svc.service_endpoint()).ok()?.as_str().map(|s| s.to_string()) }
fn sorted_set(v: &[i64]) -> Vec<u32> { let mut s: Vec<u32> = v.iter().map(|x| *x as u32).collect(); s.sort(); s.dedup(); s }
/// every member is reported revoked, its non-member neighbours are not, and the count agrees
fn probe(b: &RevocationBitmap, set: &[u32]) -> bool {
  if b.len() != set.len() as u64 { return false; }
  let step = (set.len() / 300).max(1);
  for (k, x) in set.iter().enumerate() { if k % step != 0 && k + 2 < set.len() { continue; } if !b.is_revoked(*x) { return false; }
    for y in [x.wrapping_sub(1), x.wrapping_add(1)] { if set.binary_search(&y).is_err() && b.is_revoked(y) { return false; } } }
  true
}

pub fn exec(case: &[i64]) -> Outcome {
  let kind = case[0]; let mut v = &case[1..];
  match kind {
    1 | 2 => {
      let set = sorted_set(take_lp(&mut v).unwrap());
      let bm = bitmap_of(&set);
      let svc = match bm.to_service(identity_did::DIDUrl::parse(svc_id(1, 7)).unwrap()) { Ok(s) => s, Err(_) => return Outcome::new(vec![-8]).class("encode-error").fail("to_service failed") };
      let url = endpoint_text(&svc).unwrap_or_default(); let text = url.strip_prefix(PREFIX).unwrap_or("").to_string();
      let third = text.chars().nth(2).unwrap_or('?');
      if kind == 1 {
        let mut obs = vec![text.len() as i64]; obs.extend(text.bytes().take(3).map(|b| b as i64));
        let back = RevocationBitmap::try_from(&svc);
        let mut o = match &back { Ok(b) => { obs.push(0); if *b == bm { digest(&mut obs, &set); } else { obs.push(-6); } Outcome::new(obs).class(&format!("roundtrip-eJ{third}")) }
                                  Err(_) => { obs.push(1); Outcome::new(obs).class(&format!("own-encoding-rejected-eJ{third}")).fail("a bitmap does not decode from the service endpoint it was encoded into") } };
        if !url.starts_with(PREFIX) { o = o.fail("the endpoint is not an application/octet-stream;base64 data url"); }
        if let Ok(b) = &back { if *b != bm || !probe(b, &set) { o = o.fail("the decoded bitmap differs from the encoded one"); } }
        if members_of_endpoint(&url).as_deref() != Some(&set[..]) { o = o.fail("the endpoint does not hold zlib(roaring(set)) in base64url"); }
        o
      } else {
        let legacy = BaseEncoding::encode(text.as_bytes(), Base::Base64);
        let svc2 = Service::from_json_value(service_json(&svc_id(1, 7), 1, json!(format!("{PREFIX}{legacy}")))).unwrap();
        match RevocationBitmap::try_from(&svc2) {
          Ok(b) => { let mut obs = vec![0]; if b == bm { digest(&mut obs, &set); } else { obs.push(-6); } let mut o = Outcome::new(obs).class("legacy-decoded"); if b != bm || !probe(&b, &set) { o = o.fail("the legacy form decodes to a different bitmap"); } o }
          Err(_) => Outcome::new(vec![1]).class("legacy-rejected").fail("an endpoint in the legacy double-encoded form does not decode"),
        }
      }
    }
    3 => {
      let tcode = take1(&mut v).unwrap(); let type_ok = tcode != 0; let eptag = take1(&mut v).unwrap(); let text = String::from_utf8_lossy(&take_bytes(&mut v).unwrap()).to_string();
      let ep = if eptag == 1 { json!(text) } else if eptag == 0 { json!([text, "https://other.example/"]) } else { json!({"origins": [text]}) };
      let svc = match Service::from_json_value(service_json(&svc_id(1, 7), tcode, ep)) { Ok(s) => s, Err(_) => return Outcome::new(vec![-7]).class("unbuildable").trivial() };
      let want: Option<Vec<u32>> = if type_ok && eptag == 1 { members_of_endpoint(&text) } else { None };
      match RevocationBitmap::try_from(&svc) {
        Ok(b) => { let mut obs = vec![0]; match &want { Some(s) if !s.windows(2).all(|w| w[0] < w[1]) => obs.extend([1, NONCANON]), Some(s) if b == bitmap_of(s) => digest(&mut obs, s), _ => obs.push(-6) } let mut o = Outcome::new(obs).class("endpoint-accepted");
                   if want.is_none() { o = o.fail("a service that is not a valid RevocationBitmap2022 service was decoded"); } o }
        Err(_) => { let mut o = Outcome::new(vec![1]).class("endpoint-rejected"); if want.is_some() { o = o.fail("a valid bitmap endpoint was rejected"); } o }
      }
    }
    4 => {
      let ns = take1(&mut v).unwrap();
      let mut svcs: Vec<(String, bool, Option<Vec<u32>>)> = vec![]; let mut tcodes: Vec<i64> = vec![];
      for _ in 0..ns { let (d, _r, f) = (take1(&mut v).unwrap(), take1(&mut v).unwrap(), take1(&mut v).unwrap()); let tc = take1(&mut v).unwrap(); tcodes.push(tc); let t = tc != 0; let bf = take1(&mut v).unwrap(); let s = sorted_set(take_lp(&mut v).unwrap()); svcs.push((svc_id(d, f), t, if bf != 0 { Some(s) } else { None })); }
      let nops = take1(&mut v).unwrap(); let mut ops = vec![];
      for _ in 0..nops { let op = take1(&mut v).unwrap(); let qd = { let f = take1(&mut v).unwrap(); let x = take1(&mut v).unwrap(); if f != 0 { Some(x) } else { None } }; let qf = { let f = take1(&mut v).unwrap(); let x = take1(&mut v).unwrap(); if f != 0 { Some(x) } else { None } }; ops.push((op, qd, qf, take_lp(&mut v).unwrap().iter().map(|x| *x as u32).collect::<Vec<u32>>())); }
      let sv_json: Vec<Value> = svcs.iter().zip(tcodes.iter()).map(|((id, _t, s), tc)| match s { Some(s) => service_json(id, *tc, json!(format!("{PREFIX}{}", BaseEncoding::encode(&zcomp(&rser(s)), Base::Base64Url)))), None => service_json(id, *tc, json!("https://plain.example/")) }).collect();
      let mut doc = match CoreDocument::from_json_value(json!({"id": DID1, "service": sv_json})) { Ok(d) => d, Err(_) => return Outcome::new(vec![-7]).class("unbuildable").trivial().fail("case document does not build") };
      let mut shadow: Option<identity_iota_core::IotaDocument> = identity_iota_core::IotaDocument::from_json_value(json!({"doc": {"id": DID1, "service": sv_json}, "meta": {}})).ok();
      let mut expect: Vec<Option<Vec<u32>>> = svcs.iter().map(|(_, t, s)| if *t { s.clone() } else { None }).collect();
      let mut why: Option<String> = None; let mut obs = vec![];
      let observe = |doc: &CoreDocument, obs: &mut Vec<i64>, expect: &Vec<Option<Vec<u32>>>, why: &mut Option<String>| {
        for (k, (id, _, _)) in svcs.iter().enumerate() {
          match doc.resolve_revocation_bitmap(id.as_str().into()) {
            Ok(b) => { obs.push(0); let actual = doc.service().iter().find(|s| s.id().to_string() == *id).and_then(endpoint_text).and_then(|u| members_of_endpoint(&u));
              match &actual { Some(a) if b == bitmap_of(a) => digest(obs, a), _ => obs.push(-6) }
              match &expect[k] { Some(e) => if actual.as_ref() != Some(e) || !probe(&b, e) { why.get_or_insert(format!("service {id} does not hold exactly the indices revoked so far")); }, None => { why.get_or_insert(format!("service {id} resolved to a bitmap although it is not a bitmap service")); } } }
            Err(_) => { obs.push(1); if expect[k].is_some() { why.get_or_insert(format!("bitmap service {id} no longer resolves")); } }
          }
        }
      };
      observe(&doc, &mut obs, &expect, &mut why);
      for (op, qd, qf, idxs) in &ops {
        let q = format!("{}{}", qd.map(|d| DIDS[d as usize]).unwrap_or(""), qf.map(|f| format!("#f{f}")).unwrap_or_default());
        let target = svcs.iter().position(|(id, _, _)| { let (d, f) = id.split_once('#').unwrap(); qd.map_or(true, |x| DIDS[x as usize] == d) && qf.map_or(false, |x| format!("f{x}") == f) });
        let before = doc.clone();
        let r = if *op == 0 { doc.revoke_credentials(q.as_str(), idxs) } else { doc.unrevoke_credentials(q.as_str(), idxs) };
        // the IotaDocument wrappers (revoke_credentials / unrevoke_credentials / resolve_revocation_bitmap) must track the core document
        if let Some(sh) = shadow.as_mut() { let r2 = if *op == 0 { sh.revoke_credentials(q.as_str(), idxs) } else { sh.unrevoke_credentials(q.as_str(), idxs) };
          if r.is_ok() != r2.is_ok() { why.get_or_insert("IotaDocument::revoke / unrevoke_credentials answers differently from CoreDocument's".into()); }
          if sh.core_document() != &doc { why.get_or_insert("after the same history the IotaDocument's core document differs from the CoreDocument".into()); }
 }
        let should = target.map_or(false, |t| expect[t].is_some());
        match r {
          Ok(()) => { obs.push(0); if !should { why.get_or_insert("an operation on a missing or invalid bitmap service succeeded".into()); }
            if let Some(t) = target { if let Some(e) = expect[t].as_mut() { for i in idxs { if *op == 0 { if let Err(p) = e.binary_search(i) { e.insert(p, *i); } } else if let Ok(p) = e.binary_search(i) { e.remove(p); } } } } }
          Err(_) => { obs.push(1); if should { why.get_or_insert("an operation on a valid bitmap service failed".into()); } if doc != before { why.get_or_insert("a failed operation changed the document".into()); } }
        }
        for (k, (id, _, _)) in svcs.iter().enumerate() { if Some(k) != target { let a = doc.service().iter().find(|s| s.id().to_string() == *id); let b = before.service().iter().find(|s| s.id().to_string() == *id); if a != b { why.get_or_insert(format!("service {id}, which the operation does not address, changed")); } } }
        observe(&doc, &mut obs, &expect, &mut why);
      }
      // validation reports revoked exactly the members
      for (k, (id, _, _)) in svcs.iter().enumerate() { if let Some(e) = &expect[k] { if !id.starts_with(DID1) { continue; }
        let mut probes: Vec<u32> = e.iter().take(3).copied().collect(); probes.extend([0u32, 1, 65535, 65536, 4_000_000_000]);
        for p in probes {
          let cred: Credential = Credential::from_json_value(json!({"@context": "https://www.w3.org/2018/credentials/v1", "type": "VerifiableCredential", "issuer": DID1, "issuanceDate": Timestamp::from_unix(0).unwrap().to_rfc3339(), "credentialSubject": {"id": "did:example:s"},
            "credentialStatus": {"id": format!("{}?index={}#{}", DID1, p, id.split_once('#').unwrap().1), "type": "RevocationBitmap2022", "revocationBitmapIndex": format!("{p}")}})).unwrap();
          let r = JwtCredentialValidatorUtils::check_status(&cred, std::slice::from_ref(&doc), StatusCheck::Strict);
          let revoked = matches!(r, Err(JwtValidationError::Revoked)); let member = e.binary_search(&p).is_ok();
          if revoked != member || (!member && r.is_err()) { why.get_or_insert(format!("validation reports index {p} of {id} as {} although it is {}a member", if revoked { "revoked" } else { "not revoked" }, if member { "" } else { "not " })); }
        } } }
      let _ = (Object::new(), Url::parse("https://x.example/").unwrap());
      let mut o = Outcome::new(obs).class("document-history");
      if let Some(w) = why { o = o.fail(&w); }
      o
    }
    5 => {
      // the status entry itself: [type_ok, prop kind (0 absent 1 number 2 string), <prop text>, id kind (0 DID URL 1 https URL), <query text>, id_ok, n (<decoded index value>).., <set>, i]
      let type_ok = take1(&mut v).unwrap() != 0; let pk = take1(&mut v).unwrap(); let ptext = String::from_utf8_lossy(&take_bytes(&mut v).unwrap()).to_string();
      let idk = take1(&mut v).unwrap(); let q = String::from_utf8_lossy(&take_bytes(&mut v).unwrap()).to_string(); let id_ok = take1(&mut v).unwrap() != 0;
      let nq = take1(&mut v).unwrap(); for _ in 0..nq { let _ = take_bytes(&mut v); }
      let set = sorted_set(take_lp(&mut v).unwrap()); let i = take1(&mut v).unwrap() as u32;
      let id = status_id(idk, &q);
      let mut st = json!({"id": id, "type": if type_ok { "RevocationBitmap2022" } else { "StatusList2021Entry" }});
      match pk { 1 => { st["revocationBitmapIndex"] = json!(5); } 2 => { st["revocationBitmapIndex"] = json!(ptext); } _ => {} }
      let status = match identity_credential::credential::Status::from_json_value(st.clone()) { Ok(s) => s, Err(_) => return Outcome::new(vec![-7]).class("unbuildable").trivial() };
      let mut obs = vec![]; let mut why: Option<String> = None;
      let tf = identity_credential::credential::RevocationBitmapStatus::try_from(status.clone());
      match &tf { Ok(r) => { match r.index() { Ok(n) => obs.extend([0, n as i64]), Err(_) => { obs.extend([0, -6]); why = Some("an accepted status entry does not give its index".into()); } }
                             if r.id().is_ok() != id_ok { why = Some("id() of an accepted status entry disagrees with DIDUrl::parse of its id".into()); } }
                  Err(_) => obs.push(1) }
      // validation over a document whose service #f7 holds the set
      let doc = CoreDocument::from_json_value(json!({"id": DID1, "service": [service_json(&svc_id(1, 7), 1, json!(format!("{PREFIX}{}", BaseEncoding::encode(&zcomp(&rser(&set)), Base::Base64Url))))]})).unwrap();
      let cred = Credential::<Object>::from_json_value(json!({"@context": "https://www.w3.org/2018/credentials/v1", "type": "VerifiableCredential", "issuer": DID1, "issuanceDate": Timestamp::from_unix(0).unwrap().to_rfc3339(), "credentialSubject": {"id": "did:example:s"}, "credentialStatus": st}));
      match cred { Err(_) => obs.push(-7), Ok(cred) => {
        let r = JwtCredentialValidatorUtils::check_status(&cred, std::slice::from_ref(&doc), StatusCheck::Strict);
        let code = match &r { Ok(()) => 0, Err(JwtValidationError::Revoked) => 1, Err(JwtValidationError::InvalidStatus(_)) => 2, Err(_) => 3 };
        obs.push(code);
        if let Ok(x) = &tf { if id_ok && idk == 0 { let member = x.index().map_or(false, |n| set.binary_search(&n).is_ok()); if (code == 1) != member || (code == 0) == member { why = Some("validation does not report 'revoked' exactly when the entry's index is a member of the service's bitmap".into()); } } }
        else if code == 0 || code == 1 { why = Some("validation evaluated a status entry that RevocationBitmapStatus::try_from refuses".into()); }
      } }
      // RevocationBitmapStatus::new(id, i) is accepted and gives i back
      if let Ok(u) = identity_did::DIDUrl::parse(format!("{DID1}#f7")) { let n = identity_credential::credential::RevocationBitmapStatus::new(u, i);
        match identity_credential::credential::RevocationBitmapStatus::try_from(identity_credential::credential::Status::from(n.clone())) { Ok(b) if b.index().ok() == Some(i) && n.index().ok() == Some(i) => obs.extend([0, i as i64]), _ => { obs.push(1); why = Some("a status entry built by RevocationBitmapStatus::new is not accepted with its own index".into()); } } }
      let mut o = Outcome::new(obs).class(if tf.is_ok() { "status-accepted" } else { "status-refused" });
      if let Some(w) = why { o = o.fail(&w); }
      o
    }
    _ => Outcome::new(vec![-998]).fail("bad case kind"),
  }
}
fn status_id(idk: i64, q: &str) -> String { let base = if idk == 0 { DID1.to_string() } else { "https://status.example/list".to_string() }; if q.is_empty() { format!("{base}#f7") } else { format!("{base}?{q}#f7") } }
fn case5(type_ok: bool, pk: i64, ptext: &str, idk: i64, q: &str, set: &[u32], i: u32) -> Option<Vec<i64>> {
  let id = status_id(idk, q);
  let url = Url::parse(&id).ok()?;
  let vals: Vec<Vec<u8>> = url.query_pairs().filter(|(k, _)| k == "index").map(|(_, v)| v.as_bytes().to_vec()).collect();
  let id_ok = !id.contains('%') && identity_did::DIDUrl::parse(url.as_str()).is_ok();
  let mut c = vec![5, type_ok as i64, pk]; put_bytes(&mut c, ptext.as_bytes()); c.push(idk); put_bytes(&mut c, q.as_bytes()); c.push(id_ok as i64);
  c.push(vals.len() as i64); for v in &vals { put_bytes(&mut c, v); }
  let mut s = set.to_vec(); s.sort(); s.dedup(); c.push(s.len() as i64); c.extend(s.iter().map(|x| *x as i64)); c.push(i as i64);
  Some(c)
}

fn case12(kind: i64, set: &[u32]) -> Vec<i64> {
  let mut s = set.to_vec(); s.sort(); s.dedup();
  let mut c = vec![kind]; c.push(s.len() as i64); c.extend(s.iter().map(|x| *x as i64)); let rb = rser(&s); put_bytes(&mut c, &rb); put_bytes(&mut c, &zcomp(&rb)); c
}
fn case3(type_ok: bool, eptag: i64, text: &str) -> Vec<i64> { case3t(type_ok as i64, eptag, text) }
fn case3t(tcode: i64, eptag: i64, text: &str) -> Vec<i64> {
  let mut c = vec![3, tcode, eptag]; put_bytes(&mut c, text.as_bytes());
  let cands = text.strip_prefix(PREFIX).map(candidates).unwrap_or_default();
  c.push(cands.len() as i64);
  for z in cands { put_bytes(&mut c, &z); match zdecomp(&z) { Some(b) => { c.push(1); put_bytes(&mut c, &b); } None => { c.push(0); c.push(0); } } }
  c
}
type Svc = (i64, i64, bool, Option<Vec<u32>>);
type Op = (i64, Option<i64>, Option<i64>, Vec<u32>);
fn case4(svcs: &[Svc], ops: &[Op]) -> Vec<i64> {
  let mut c = vec![4, svcs.len() as i64];
  for (k, (d, f, t, s)) in svcs.iter().enumerate() { c.extend([*d, 0, *f, if *t { 1 + ((k as i64 + s.as_ref().map_or(0, |x| x.len() as i64)) % 3) } else { 0 }, s.is_some() as i64]); let s = s.clone().unwrap_or_default(); c.push(s.len() as i64); c.extend(s.iter().map(|x| *x as i64)); }
  c.push(ops.len() as i64);
  for (op, qd, qf, idxs) in ops { c.push(*op); match qd { Some(x) => c.extend([1, *x]), None => c.extend([0, 0]) } match qf { Some(x) => c.extend([1, *x]), None => c.extend([0, 0]) } c.push(idxs.len() as i64); c.extend(idxs.iter().map(|x| *x as i64)); }
  // the codec table: every set any service can hold along the history (computed by set arithmetic on every service for every prefix of the operations)
  let mut sets: Vec<Vec<u32>> = vec![];
  let mut cur: Vec<Option<Vec<u32>>> = svcs.iter().map(|s| s.3.clone().map(|mut v| { v.sort(); v.dedup(); v })).collect();
  for s in cur.iter().flatten() { if !sets.contains(s) { sets.push(s.clone()); } }
  for (op, qd, qf, idxs) in ops {
    if let Some(t) = svcs.iter().position(|(d, f, _, _)| qd.map_or(true, |x| x == *d) && *qf == Some(*f)) { if svcs[t].2 { if let Some(e) = cur[t].as_mut() {
      for i in idxs { if *op == 0 { if let Err(p) = e.binary_search(i) { e.insert(p, *i); } } else if let Ok(p) = e.binary_search(i) { e.remove(p); } } if !sets.contains(e) { sets.push(e.clone()); } } } }
    // partial applications of the batch (what a faulty update could write)
    if let Some(t) = svcs.iter().position(|(d, f, _, _)| qd.map_or(true, |x| x == *d) && *qf == Some(*f)) { let _ = t; }
  }
  c.push(sets.len() as i64);
  for s in &sets { let rb = rser(s); put_bytes(&mut c, &rb); put_bytes(&mut c, &zcomp(&rb)); }
  c
}

pub fn gen(rng: &mut Rng, thorough: bool, sink: &mut Sink) {
  // (1,2) sets: boundaries of roaring containers, dense, sparse, run-heavy, many containers
  let mut sets: Vec<Vec<u32>> = vec![vec![], vec![0], vec![1], vec![65535], vec![65536], vec![u32::MAX], vec![0, u32::MAX], vec![65535, 65536, 131071, 131072]];
  for n in [2u32, 3, 10, 100, 1000, 4095, 4096, 4097, 5000, 65535, 65536, 65537, 100000] { sets.push((0..n).collect()); sets.push((0..n).map(|i| i * 2).collect()); sets.push((0..n.min(20000)).map(|i| i.wrapping_mul(2654435761)).collect()); }
  sets.push((0..65537u32).map(|i| i << 16).collect());                       // more than 65536 containers
  sets.push((0..3000u32).flat_map(|i| (i * 1000..i * 1000 + 700)).collect());   // run heavy
  for _ in 0..(if thorough { 600 } else { 120 }) { let n = match rng.below(4) { 0 => rng.range(1, 8), 1 => rng.range(8, 200), 2 => rng.range(200, 3000), _ => rng.range(1, 60) } as usize; let span = *rng.pick(&[300u64, 70000, 1 << 20, 1 << 32]); sets.push((0..n).map(|_| rng.below(span) as u32).collect()); }
  if thorough { for _ in 0..6 { let n = rng.range(20000, 100000) as usize; sets.push((0..n).map(|_| rng.below(1 << 32) as u32).collect()); } }
  for s in &sets { sink.case(case12(1, s), "set"); }
  for s in sets.iter().filter(|s| s.len() <= 5000) { sink.case(case12(2, s), "legacy"); }
  // (3) endpoints that are not valid bitmap services
  let good = format!("{PREFIX}{}", BaseEncoding::encode(&zcomp(&rser(&[1, 5, 70000])), Base::Base64Url));
  sink.case(case3t(2, 1, &good), "endpoint-good-several-types"); sink.case(case3t(3, 1, &good), "endpoint-good-several-types");
  sink.case(case3(true, 1, &good), "endpoint-good"); sink.case(case3(false, 1, &good), "endpoint-wrong-type"); sink.case(case3(true, 0, &good), "endpoint-set"); sink.case(case3(true, 2, &good), "endpoint-map");
  for bad in ["data:application/octet-stream;base64;", "data:text/plain;base64,", "https://example.com/", "data:application/octet-stream;base64"] { sink.case(case3(true, 1, &format!("{bad}{}", &good[PREFIX.len()..])), "endpoint-prefix"); }
  for cut in [0usize, 1, 2, 3, 4, 5, 8, 12, 16] { if good.len() > PREFIX.len() + cut { sink.case(case3(true, 1, &good[..good.len() - cut]), "endpoint-truncated"); sink.case(case3(true, 1, &format!("{PREFIX}{}", &good[PREFIX.len() + cut..])), "endpoint-head-cut"); } }
  for junk in ["", "eJ", "eJy", "eJw", "ZUp", "!!!!", "eJy-_-_", "AAAA", "eJwDAAAAAAE"] { sink.case(case3(true, 1, &format!("{PREFIX}{junk}")), "endpoint-junk"); }
  sink.case(case3(true, 1, &format!("{PREFIX}{}", BaseEncoding::encode(&zcomp(b"not a roaring bitmap"), Base::Base64Url))), "endpoint-zlib-of-junk");
  sink.case(case3(true, 1, &format!("{PREFIX}{}", BaseEncoding::encode(&rser(&[1, 2, 3]), Base::Base64Url))), "endpoint-uncompressed");
  sink.case(case3(true, 1, &format!("{PREFIX}{}", BaseEncoding::encode(BaseEncoding::encode(&zcomp(&rser(&[7])), Base::Base64Url).as_bytes(), Base::Base64))), "endpoint-legacy");
  sink.case(case3(true, 1, &format!("{PREFIX}{}", BaseEncoding::encode(b"\xff\xfe not utf8", Base::Base64))), "endpoint-legacy-not-utf8");
  // well-framed roaring payloads whose containers contradict their headers, run containers included (the writer never emits those)
  for b in crate::c05::roaring_payloads() { sink.case(case3(true, 1, &format!("{PREFIX}{}", BaseEncoding::encode(&zcomp(&b), Base::Base64Url))), "endpoint-roaring-containers"); }
  for _ in 0..(if thorough { 400 } else { 80 }) { let mut b = good.clone().into_bytes(); let k = rng.range(PREFIX.len() as i64, b.len() as i64 - 1) as usize; b[k] = *rng.pick(b"ABCxyz019-_+/=!"); sink.case(case3(true, 1, &String::from_utf8(b).unwrap()), "endpoint-char-flip"); }
  // (5) the status entry: every spelling of the index property x every query shape, against small bitmaps
  let props = ["5", "+5", "05", "0005", "", "+", "-0", "-5", " 5", "5 ", "5.0", "0x5", "five", "4294967295", "4294967296", "+4294967295", "99999999999999999999", "\u{665}", "5\u{0}", "0", "+0", "00"];
  let queries = ["", "index=5", "index=05", "index=+5", "index=5&index=5", "index=5&index=6", "index=6&index=5", "Index=6", "index", "index=", "x=1&index=5", "x=index=9", "index=4294967295", "index=4294967296", "index=0", "a=b", "index=5&x", "index=five"];
  let sets5: [&[u32]; 4] = [&[5], &[], &[0, 5, 6], &[4294967295]];
  for (pi, p) in props.iter().enumerate() { for (qi, q) in queries.iter().enumerate() { if let Some(c) = case5(true, 2, p, 0, q, sets5[(pi + qi) % 4], (pi * 7919 + qi) as u32) { sink.case(c, "status-entry"); } } }
  for q in queries.iter() { for (pk, ty, idk) in [(0i64, true, 0i64), (1, true, 0), (2, false, 0), (2, true, 1), (2, false, 1)] { if let Some(c) = case5(ty, pk, "5", idk, q, &[5], 5) { sink.case(c, "status-entry-shape"); } } }
  for i in [0u32, 1, 9, 10, 99, 100, 65535, 65536, 999999999, 1000000000, 4294967294, 4294967295] { if let Some(c) = case5(true, 2, &i.to_string(), 0, &format!("index={i}"), &[i], i) { sink.case(c, "status-entry-new"); } }
  for _ in 0..(if thorough { 2000 } else { 200 }) { let i = rng.below(1 << 32) as u32; let p = match rng.below(4) { 0 => format!("+{i}"), 1 => format!("0{i}"), 2 => format!("{}", i as u64 + rng.below(3)), _ => i.to_string() }; let q = match rng.below(4) { 0 => String::new(), 1 => format!("index={i}"), 2 => format!("index={}&index={i}", i as u64 + rng.below(2)), _ => format!("x=1&index={p}") };
    let set: Vec<u32> = if rng.chance(1, 2) { vec![i] } else { vec![i.wrapping_add(1)] }; if let Some(c) = case5(true, 2, &p, 0, &q, &set, i) { sink.case(c, "status-entry-random"); } }
  // (4) histories of revoke / unrevoke batches through the document
  let pool: [u32; 12] = [0, 1, 2, 3, 7, 8, 65535, 65536, 65537, 131072, 4_000_000_000, u32::MAX];
  for _ in 0..(if thorough { 3000 } else { 400 }) {
    let mut svcs: Vec<Svc> = vec![(1, 7, true, Some((0..rng.below(5)).map(|_| *rng.pick(&pool)).collect()))];
    if rng.chance(2, 3) { svcs.push((1, 8, true, Some((0..rng.below(4)).map(|_| *rng.pick(&pool)).collect()))); }
    if rng.chance(1, 3) { svcs.push((1, 9, rng.chance(1, 2), None)); }
    if rng.chance(1, 4) { svcs.push((2, 7, true, Some(vec![1, 2]))); }
    if rng.chance(1, 8) { let j = 1.min(svcs.len() - 1); svcs.swap(0, j); }
    for s in svcs.iter_mut() { if let Some(v) = s.3.as_mut() { v.sort(); v.dedup(); } }
    let mut ops: Vec<Op> = vec![];
    let mut state: Vec<u32> = svcs.iter().find(|s| s.0 == 1 && s.1 == 7).and_then(|s| s.3.clone()).unwrap_or_default();
    for _ in 0..rng.range(1, 6) {
      let op = rng.below(2) as i64; let n = rng.range(1, 5) as usize; let mut idxs: Vec<u32> = (0..n).map(|_| *rng.pick(&pool)).collect();
      // end the batch with a no-op index (already revoked / not a member) half of the time
      if rng.chance(1, 2) { let noop = if op == 0 { state.first().copied() } else { pool.iter().find(|p| !state.contains(p)).copied() }; if let Some(x) = noop { idxs.push(x); } }
      let (qd, qf) = match rng.below(8) { 0 => (None, Some(7)), 1 => (Some(1), Some(8)), 2 => (Some(1), Some(9)), 3 => (Some(1), Some(5)), 4 => (Some(2), Some(7)), _ => (Some(1), Some(7)) };
      if qf == Some(7) && qd != Some(2) && svcs[0].1 == 7 { for i in &idxs { if op == 0 { if !state.contains(i) { state.push(*i); } } else { state.retain(|x| x != i); } } }
      ops.push((op, qd, qf, idxs));
    }
    sink.case(case4(&svcs, &ops), "history");
  }
}
