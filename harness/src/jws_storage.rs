//! Storage-backed signing (C08 kind 7) and real-key single-bit mutation sweeps (C01 kind 8).
//! These rows are decided by the property oracle only (the model's observation is empty).
//! kind 7: which_method(0..2) option_mask(9 bits) payload_class
//! kind 8: payload_class b64false detached
use crate::common::*;
use identity_core::convert::FromJson;
use identity_core::common::{Object, Url};
use identity_did::DID;
use identity_document::document::CoreDocument;
use identity_document::verifiable::JwsVerificationOptions;
use identity_eddsa_verifier::EdDSAJwsVerifier;
use identity_storage::{JwkDocumentExt, JwkMemStore, JwsSignatureOptions, KeyIdMemstore, Storage};
use identity_verification::jws::JwsAlgorithm;
use identity_verification::jwu::encode_b64;
use identity_verification::{MethodRelationship, MethodScope};

pub type MemStorage = Storage<JwkMemStore, KeyIdMemstore>;
pub fn rt() -> tokio::runtime::Runtime { tokio::runtime::Builder::new_current_thread().build().unwrap() }

const PAYLOADS: &[&[u8]] = &[b"{\"iss\":\"joe\",\"n\":1}", b"hello world", b"with.dot", b"\x00\xff\x10binary", "gr\u{fc}\u{df}e".as_bytes(), b"q\"uote\\", b"x"];
const SCOPES: [MethodScope; 3] = [MethodScope::VerificationMethod, MethodScope::VerificationRelationship(MethodRelationship::Authentication), MethodScope::VerificationRelationship(MethodRelationship::AssertionMethod)];

pub async fn doc_with_methods() -> (CoreDocument, MemStorage, Vec<String>) {
  let mut doc = CoreDocument::builder(Object::new()).id("did:example:holder1".parse().unwrap()).build().unwrap();
  let storage = Storage::new(JwkMemStore::new(), KeyIdMemstore::new());
  let mut frags = Vec::new();
  for (i, sc) in SCOPES.iter().enumerate() {
    let f = doc.generate_method(&storage, JwkMemStore::ED25519_KEY_TYPE, JwsAlgorithm::EdDSA, Some(&format!("#k{}", i)), *sc).await.unwrap();
    frags.push(f);
  }
  (doc, storage, frags)
}

pub fn options(mask: i64) -> JwsSignatureOptions {
  let mut o = JwsSignatureOptions::new();
  if mask & 1 != 0 { o = o.attach_jwk_to_header(true); }
  if mask & 2 != 0 { o = o.b64(false); }
  if mask & 4 != 0 { o = o.typ("vp+jwt"); }
  if mask & 8 != 0 { o = o.cty("application/x"); }
  if mask & 16 != 0 { o = o.url(Url::parse("https://verifier.example/cb").unwrap()); }
  if mask & 32 != 0 { o = o.nonce("nonce-1"); }
  if mask & 64 != 0 { o = o.kid("custom-kid"); }
  if mask & 128 != 0 { o = o.detached_payload(true); }
  if mask & 256 != 0 { let mut m = Object::new(); m.insert("x-a".into(), serde_json::json!({"a": [1, 2]})); o = o.custom_header_parameters(m); }
  o
}

pub fn exec(case: &[i64]) -> Outcome {
  let (which, mask, pc) = (case[1] as usize, case[2], case[3] as usize);
  let payload = PAYLOADS[pc];
  rt().block_on(async {
    let (doc, storage, frags) = doc_with_methods().await;
    let opts = options(mask);
    let jws = match doc.create_jws(&storage, &frags[which], payload, &opts).await {
      Ok(j) => j,
      Err(_) => { // the encoder may refuse (b64=false with a payload outside the compact character set)
        let refusable = mask & 2 != 0 && mask & 128 == 0;
        let o = Outcome::new(vec![0]).class("create-refused");
        return if refusable { o } else { o.fail("create_jws failed for a valid option set") };
      }
    };
    let own_id = doc.id().to_url().join(&format!("#{}", frags[which].trim_start_matches('#'))).unwrap();
    let other = (which + 1) % 3;
    let other_id = doc.id().to_url().join(&format!("#{}", frags[other].trim_start_matches('#'))).unwrap();
    let b64 = mask & 2 == 0;
    let signed_form: Vec<u8> = if b64 { encode_b64(payload).into_bytes() } else { payload.to_vec() };
    let det: Option<&[u8]> = if mask & 128 != 0 { Some(&signed_form) } else { None };
    let base = || { let mut v = JwsVerificationOptions::new(); if mask & 32 != 0 { v = v.nonce("nonce-1"); } if mask & 64 != 0 { v = v.method_id(own_id.clone()); } v };
    // the protected header as the decoder's header type reads it: which parameters the options put there
    let mut obs = vec![1];
    let hdr_seg = jws.as_str().split('.').next().unwrap_or("");
    match identity_jose::jwu::decode_b64(hdr_seg).ok().and_then(|b| identity_jose::jws::JwsHeader::from_json_slice(&b).ok()) { Some(h) => crate::c11::put_hdr(&mut obs, Some(&crate::jws::describe_fields_pub(&h))), None => obs.push(-6) }
    let mut o = Outcome::new(obs).class("storage");
    // (1) verifies for the method it was produced for, with and without its own scope
    for scoped in [false, true] {
      let mut v = base(); if scoped { v = v.method_scope(SCOPES[which]); }
      match doc.verify_jws(jws.as_str(), det, &EdDSAJwsVerifier::default(), &v) {
        Ok(d) => { if d.claims.as_ref() != payload { o = o.fail("verified claims differ from the signed payload"); } }
        Err(e) => { o = o.fail(&format!("token does not verify for the method it was produced for (scoped={}): {}", scoped, e)); }
      }
    }
    // (2) never under another method's key, a different nonce, or an excluding scope
    if doc.verify_jws(jws.as_str(), det, &EdDSAJwsVerifier::default(), &base().method_id(other_id)).is_ok() { o = o.fail("token verifies under another method's key"); }
    // a method id of ANOTHER DID with the same fragment names no method of this document
    for foreign in ["did:example:holder2", "did:other:holder1", "did:example:holder1:sub"] {
      let fid = identity_did::DIDUrl::parse(format!("{}#{}", foreign, frags[which].trim_start_matches('#'))).unwrap();
      if doc.verify_jws(jws.as_str(), det, &EdDSAJwsVerifier::default(), &base().method_id(fid)).is_ok() { o = o.fail("token verifies although the configured method id names a method of another DID (same fragment)"); }
    }
    let wrong_nonce = { let mut v = JwsVerificationOptions::new(); v = if mask & 32 != 0 { v.nonce("nonce-2") } else { v.nonce("nonce-1") }; if mask & 64 != 0 { v = v.method_id(own_id.clone()); } v };
    if doc.verify_jws(jws.as_str(), det, &EdDSAJwsVerifier::default(), &wrong_nonce).is_ok() { o = o.fail("token verifies under a different nonce"); }
    if mask & 32 != 0 { let mut v = JwsVerificationOptions::new(); if mask & 64 != 0 { v = v.method_id(own_id.clone()); } if doc.verify_jws(jws.as_str(), det, &EdDSAJwsVerifier::default(), &v).is_ok() { o = o.fail("token with a nonce verifies without one"); } }
    // a nonce must be compared as a whole: a proper prefix, an extension and the empty string are different nonces
    for other in ["nonce-", "nonce-1x", "n", ""] {
      if mask & 32 == 0 && !other.is_empty() { continue; }
      let mut v = JwsVerificationOptions::new().nonce(other); if mask & 64 != 0 { v = v.method_id(own_id.clone()); }
      if doc.verify_jws(jws.as_str(), det, &EdDSAJwsVerifier::default(), &v).is_ok() { o = o.fail("token verifies under a nonce that is a prefix / an extension of its own (or the empty nonce)"); }
    }
    for (k, sc) in SCOPES.iter().enumerate() {
      let excluded = match (which, k) { (w, s) if w == s => false, (_, 0) => false /* unscoped general lookup is not a relationship scope */, _ => true };
      if k == 0 { continue; }
      if excluded && doc.verify_jws(jws.as_str(), det, &EdDSAJwsVerifier::default(), &base().method_scope(*sc)).is_ok() { o = o.fail("token verifies in a scope that excludes its method"); }
    }
    if which != 0 && doc.verify_jws(jws.as_str(), det, &EdDSAJwsVerifier::default(), &base().method_scope(SCOPES[0])).is_ok() { o = o.fail("embedded method's token verifies in the general-purpose scope"); }
    o
  })
}

pub fn exec_bitflip(case: &[i64]) -> Outcome {
  let (pc, b64false, detached) = (case[1] as usize, case[2] != 0, case[3] != 0);
  let payload = PAYLOADS[pc];
  rt().block_on(async {
    let (doc, storage, frags) = doc_with_methods().await;
    let mut opts = JwsSignatureOptions::new();
    if b64false { opts = opts.b64(false); }
    if detached { opts = opts.detached_payload(true); }
    let jws = match doc.create_jws(&storage, &frags[0], payload, &opts).await { Ok(j) => j, Err(_) => return Outcome::new(vec![]).class("create-refused").trivial() };
    let signed_form: Vec<u8> = if !b64false { encode_b64(payload).into_bytes() } else { payload.to_vec() };
    let v = JwsVerificationOptions::new();
    let verify = |tok: &[u8], det: Option<&[u8]>| -> bool { match std::str::from_utf8(tok) { Ok(s) => doc.verify_jws(s, det, &EdDSAJwsVerifier::default(), &v).is_ok(), Err(_) => false } };
    let det_ref: Option<&[u8]> = if detached { Some(&signed_form) } else { None };
    let mut o = Outcome::new(vec![]).class("bitflip");
    if !verify(jws.as_str().as_bytes(), det_ref) { return o.fail("unmodified token does not verify"); }
    let tok = jws.as_str().as_bytes().to_vec();
    let mut accepted = 0usize; let mut first = None;
    for i in 0..tok.len() { for bit in 0..8 { let mut m = tok.clone(); m[i] ^= 1 << bit; if verify(&m, det_ref) { accepted += 1; first.get_or_insert((i, bit)); } } }
    // the detached payload is a received part as well
    if detached { for i in 0..signed_form.len() { for bit in 0..8 { let mut d = signed_form.clone(); d[i] ^= 1 << bit; if verify(&tok, Some(&d)) { accepted += 1; first.get_or_insert((10000 + i, bit)); } } } }
    // padding appended to a segment is a change of the bytes received, too
    for seg in 0..3 { for pad in ["=", "==", " "] { let mut parts: Vec<Vec<u8>> = tok.split(|b| *b == b'.').map(|p| p.to_vec()).collect(); parts[seg].extend(pad.bytes()); if verify(&parts.join(&b'.'), det_ref) { accepted += 1; first.get_or_insert((20000 + seg, 0)); } } }
    // the signature segment re-encoded with bytes added or removed: 64 bytes exactly are an Ed25519 signature
    { let parts: Vec<Vec<u8>> = tok.split(|b| *b == b'.').map(|p| p.to_vec()).collect();
      if let Ok(sig) = identity_jose::jwu::decode_b64(&parts[2]) {
        for (k, m) in [[sig.clone(), vec![0]].concat(), [sig.clone(), vec![0xff; 3]].concat(), [sig.clone(), sig.clone()].concat(), sig[..sig.len() - 1].to_vec(), [vec![0], sig.clone()].concat()].into_iter().enumerate() {
          let t = [parts[0].clone(), parts[1].clone(), encode_b64(&m).into_bytes()].join(&b'.'); if verify(&t, det_ref) { accepted += 1; first.get_or_insert((30000 + k, 0)); } } } }
    if accepted > 0 { o = o.fail(&format!("{} mutated tokens still verify, first at byte {} bit {}", accepted, first.unwrap().0, first.unwrap().1)); }
    o
  })
}

fn case7(which: i64, mask: i64, pc: i64) -> Vec<i64> { let mut c = vec![7, which, mask, pc]; put_bytes(&mut c, PAYLOADS[pc as usize]); c }
pub fn gen_bitflips(rng: &mut Rng, thorough: bool, sink: &mut Sink) {
  for pc in 0..PAYLOADS.len() as i64 { for b in 0..2 { for d in 0..2 { if thorough || (pc + b + d) % 3 == 0 { sink.case(vec![8, pc, b, d], "bitflip-sweep"); } } } }
  if thorough { for _ in 0..60 { sink.case(vec![8, rng.range(0, PAYLOADS.len() as i64 - 1), rng.range(0, 1), rng.range(0, 1)], "bitflip-sweep"); } }
}
pub fn gen_storage(rng: &mut Rng, thorough: bool, sink: &mut Sink) {
  // all 2^9 option sets x 3 methods for one payload; the other payload classes on a sample
  for mask in 0..512 { for which in 0..3 { sink.case(case7(which, mask, mask % PAYLOADS.len() as i64), "storage-options"); } }
  let n = if thorough { 6000 } else { 600 };
  for _ in 0..n { sink.case(case7(rng.range(0, 2), rng.range(0, 511), rng.range(0, PAYLOADS.len() as i64 - 1)), "storage-random"); }
}
