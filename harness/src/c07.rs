//! C07 — credential / presentation <-> JWT claims against the model.
//! see coq/theories/Run/C07Run.v for the case encoding.
use crate::common::*;
use identity_core::common::{Object, Timestamp, Url};
use identity_core::convert::{FromJson, ToJson};
use identity_credential::credential::{Credential, Jwt};
use identity_credential::presentation::{JwtPresentationOptions, Presentation};
use identity_credential::validator::{JwtCredentialValidator, JwtPresentationValidationOptions, JwtPresentationValidator};
use identity_document::document::CoreDocument;
use identity_document::verifiable::JwsVerificationOptions;
use identity_jose::jwk::Jwk;
use identity_jose::jws::{JwsVerifier, SignatureVerificationError, VerificationInput};
use serde_json::{json, Map, Value};

pub const TS_MIN: i64 = -62167219200;
pub const TS_MAX: i64 = 253402300799;
pub struct AcceptAll;
impl JwsVerifier for AcceptAll { fn verify(&self, _input: VerificationInput, _key: &Jwk) -> Result<(), SignatureVerificationError> { Ok(()) } }
pub fn doc_with_key(did: &str) -> CoreDocument {
  CoreDocument::from_json_value(json!({"id": did, "verificationMethod": [{"id": format!("{did}#key"), "controller": did, "type": "JsonWebKey", "publicKeyJwk": {"kty": "OKP", "crv": "Ed25519", "x": "11qYAYKxCrfVS_7TyWQHOg7hcvPapiMlrwIaaPcHURo"}}]})).unwrap()
}
pub fn fake_jws(kid: &str, claims: &[u8]) -> String {
  let h = serde_json::to_vec(&json!({"alg": "EdDSA", "kid": kid, "typ": "JWT"})).unwrap();
  format!("{}.{}.{}", identity_jose::jwu::encode_b64(h), identity_jose::jwu::encode_b64(claims), identity_jose::jwu::encode_b64(b"sig"))
}
const ISSUER: &str = "did:example:issuer";
const HOLDER: &str = "did:example:holder";
fn rfc(t: i64) -> Value { json!(Timestamp::from_unix(t).unwrap().to_rfc3339()) }
fn unrfc(v: &Value) -> Option<i64> { Some(Timestamp::parse(v.as_str()?).ok()?.to_unix()) }
type Tab = Vec<(i64, Value)>;
fn rev(t: &Tab, v: Option<&Value>) -> i64 { t.iter().find(|e| Some(&e.1) == v || (v.is_none() && e.1.is_null())).map(|e| e.0).unwrap_or(-99) }
fn fwd(t: &Tab, k: i64) -> Value { t.iter().find(|e| e.0 == k).map(|e| e.1.clone()).unwrap_or(json!({"unknown": k})) }
fn t_ctx() -> Tab { let b = "https://www.w3.org/2018/credentials/v1"; vec![(0, json!(b)), (1, json!([b, "https://www.w3.org/2018/credentials/examples/v1"])), (2, json!([b, {"@vocab": "https://x.example/"}]))] }
fn t_types() -> Tab { vec![(0, json!("VerifiableCredential")), (1, json!(["VerifiableCredential", "UniversityDegreeCredential"]))] }
fn t_ptypes() -> Tab { vec![(0, json!("VerifiablePresentation")), (1, json!(["VerifiablePresentation", "CredentialManagerPresentation"]))] }
fn t_issuer() -> Tab { vec![(1, json!(ISSUER)), (2, json!({"id": ISSUER, "name": "Issuer Inc"})), (3, json!({"id": ISSUER, "name": "Other name"})),
  (1001, json!(ISSUER.replace("issuer", "ISSUER"))), (1002, json!({"id": ISSUER.replace("issuer", "ISSUER"), "name": "Issuer Inc"})), (1003, json!({"id": ISSUER.replace("issuer", "ISSUER"), "name": "Other name"}))] }
fn t_subp() -> Tab { vec![(0, json!({})), (1, json!({"degree": {"type": "BachelorDegree", "name": "B.Sc."}})), (2, json!({"GPA": "4.0", "name": "Alice"}))] }
fn t_schema() -> Tab { let s = |k: i64| json!({"id": format!("https://example.org/schema/{k}"), "type": "JsonSchemaValidator2018"}); vec![(0, Value::Null), (1, s(1)), (2, json!([s(1), s(2)]))] }
fn t_refresh() -> Tab { let s = |k: i64| json!({"id": format!("https://example.edu/refresh/{k}"), "type": "ManualRefreshService2018"}); vec![(0, Value::Null), (1, s(1)), (2, json!([s(1), s(2)]))] }
fn t_tou() -> Tab { vec![(0, Value::Null), (1, json!({"type": "IssuerPolicy", "id": "https://example.com/policies/1", "profile": "x"}))] }
fn t_evid() -> Tab { vec![(0, Value::Null), (1, json!({"id": "https://example.edu/evidence/1", "type": ["DocumentVerification"]}))] }
fn t_props() -> Tab { vec![(0, json!({})), (1, json!({"name": "cred"})), (2, json!({"description": {"a": [1, 2]}, "extra": 5}))] }
fn t_vcs() -> Tab { vec![(0, Value::Null), (1, json!(["eyJhbGciOiJFZERTQSJ9.eyJ2YyI6MX0.c2ln"])), (2, json!(["eyJhbGciOiJFZERTQSJ9.eyJ2YyI6MX0.c2ln", "eyJhbGciOiJFZERTQSJ9.eyJ2YyI6Mn0.c2ln"]))] }
/// codes 1000 + k spell the same identifier with another letter case: a DIFFERENT URL / DID (only scheme and host are case-insensitive)
pub fn url_id(k: i64) -> Value { if k >= 1000 { json!(format!("https://example.edu/credentials/ID{}", k - 1000)) } else { json!(format!("https://example.edu/credentials/id{k}")) } }
pub fn un_url_id(v: &Value) -> Option<i64> { let t = v.as_str()?.strip_prefix("https://example.edu/credentials/")?; if let Some(n) = t.strip_prefix("id") { n.parse().ok() } else { t.strip_prefix("ID")?.parse::<i64>().ok().map(|n| n + 1000) } }
fn sub_id(k: i64) -> Value { if k >= 1000 { json!(format!("did:example:SUBJECT{}", k - 1000)) } else { json!(format!("did:example:subject{k}")) } }
fn un_sub_id(v: &Value) -> Option<i64> { let t = v.as_str()?; if let Some(n) = t.strip_prefix("did:example:subject") { n.parse().ok() } else { t.strip_prefix("did:example:SUBJECT")?.parse::<i64>().ok().map(|n| n + 1000) } }
fn status(k: i64) -> Value { json!({"id": format!("https://example.edu/status/{k}"), "type": "CredentialStatusList2017"}) }
fn un_status(v: &Value) -> Option<i64> { v.get("id")?.as_str()?.strip_prefix("https://example.edu/status/")?.parse().ok() }
fn proof(k: i64) -> Value { json!({"type": "RsaSignature2018", "proofValue": format!("abc{k}")}) }
fn un_proof(v: &Value) -> Option<i64> { v.get("proofValue")?.as_str()?.strip_prefix("abc")?.parse().ok() }
fn holder(k: i64) -> Value { json!(if k == 1 { HOLDER.to_string() } else if k == 1001 { HOLDER.replace("holder", "HOLDER") } else { format!("did:example:other{k}") }) }
fn un_holder(v: &Value) -> Option<i64> { let s = v.as_str()?; if s == HOLDER { Some(1) } else if s == HOLDER.replace("holder", "HOLDER") { Some(1001) } else { s.strip_prefix("did:example:other")?.parse().ok() } }
pub fn aud(k: i64) -> Value { json!(format!("https://verifier.example/{k}")) }
pub fn un_aud(v: &Value) -> Option<i64> { v.as_str()?.strip_prefix("https://verifier.example/")?.parse().ok() }
const CNAMES: [(i64, &str); 12] = [(1, "exp"), (2, "iss"), (3, "iat"), (4, "nbf"), (5, "jti"), (6, "sub"), (7, "vc"), (8, "aud"), (9, "vp"), (20, "nonce"), (21, "foo"), (22, "cnf")];
/// a custom claim value, typed as the registered member of that name would be (a well-typed collision)
fn custom_val(name: i64, v: i64, pres: bool) -> Value {
  match name { 1 | 3 | 4 => json!(v), 2 => if pres { holder(v) } else { fwd(&t_issuer(), v) }, 5 => url_id(v), 6 => sub_id(v), 7 | 9 => json!({"x": v}), 8 => if pres { aud(v) } else { json!(v) }, _ => json!({"v": v}) }
}
fn custom_unval(name: i64, x: &Value, pres: bool) -> Option<i64> {
  match name { 1 | 3 | 4 => x.as_i64(), 2 => if pres { un_holder(x) } else { Some(rev(&t_issuer(), Some(x))) }, 5 => un_url_id(x), 6 => un_sub_id(x), 7 | 9 => x.get("x")?.as_i64(), 8 => if pres { un_aud(x) } else { x.as_i64() }, _ => x.get("v")?.as_i64() }
}
pub fn custom_obj(cu: &[(i64, i64)], pres: bool) -> Option<Object> {
  if cu.is_empty() { return None; }
  let mut o = Object::new(); for (n, v) in cu { o.insert(CNAMES.iter().find(|c| c.0 == *n).unwrap().1.to_string(), custom_val(*n, *v, pres)); } Some(o)
}
pub fn custom_ints(o: &Option<Object>, pres: bool, order: &[(i64, i64)]) -> Vec<i64> {
  let mut ps: Vec<(i64, i64)> = vec![];
  if let Some(o) = o { for (k, x) in o.iter() { let n = CNAMES.iter().find(|c| c.1 == k).map(|c| c.0).unwrap_or(-99); ps.push((n, custom_unval(n, x, pres).unwrap_or(-99))); } }
  // canonical order: the order of the case's custom list (a JSON object is unordered)
  ps.sort_by_key(|p| order.iter().position(|q| q.0 == p.0).unwrap_or(99));
  let mut out = vec![ps.len() as i64]; for (n, v) in ps { out.extend([n, v]); } out
}

pub fn ro(v: &mut &[i64]) -> Option<i64> { let f = take1(v).unwrap(); let x = take1(v).unwrap(); if f == 0 { None } else { Some(x) } }
pub fn wo(o: &mut Vec<i64>, x: Option<i64>) { match x { Some(v) => o.extend([1, v]), None => o.extend([0, 0]) } }
#[derive(Clone, Debug, PartialEq)]
struct C { ctx: i64, id: Option<i64>, types: i64, sub_id: Option<i64>, sub_props: i64, issuer: i64, issued: i64, expires: Option<i64>, status: Option<i64>, schema: i64, refresh: i64, tou: i64, evidence: i64, nontransf: Option<i64>, props: i64, proof: Option<i64> }
fn rd_c(v: &mut &[i64]) -> C { C { ctx: take1(v).unwrap(), id: ro(v), types: take1(v).unwrap(), sub_id: ro(v), sub_props: take1(v).unwrap(), issuer: take1(v).unwrap(), issued: take1(v).unwrap(), expires: ro(v), status: ro(v), schema: take1(v).unwrap(), refresh: take1(v).unwrap(), tou: take1(v).unwrap(), evidence: take1(v).unwrap(), nontransf: ro(v), props: take1(v).unwrap(), proof: ro(v) } }
fn wr_c(o: &mut Vec<i64>, c: &C) { o.push(c.ctx); wo(o, c.id); o.push(c.types); wo(o, c.sub_id); o.extend([c.sub_props, c.issuer, c.issued]); wo(o, c.expires); wo(o, c.status); o.extend([c.schema, c.refresh, c.tou, c.evidence]); wo(o, c.nontransf); o.push(c.props); wo(o, c.proof); }
fn put_opt(m: &mut Map<String, Value>, k: &str, v: Value) { if !v.is_null() { m.insert(k.into(), v); } }
/// members shared by a credential and the vc claim
fn cred_body(m: &mut Map<String, Value>, ctx: i64, types: i64, sub: Map<String, Value>, status_: Option<i64>, schema: i64, refresh: i64, tou: i64, evidence: i64, nontransf: Option<i64>, props: i64, proof_: Option<i64>) {
  for (k, x) in fwd(&t_props(), props).as_object().unwrap() { m.insert(k.clone(), x.clone()); }
  m.insert("@context".into(), fwd(&t_ctx(), ctx)); m.insert("type".into(), fwd(&t_types(), types)); m.insert("credentialSubject".into(), Value::Object(sub));
  if let Some(s) = status_ { m.insert("credentialStatus".into(), status(s)); }
  put_opt(m, "credentialSchema", fwd(&t_schema(), schema)); put_opt(m, "refreshService", fwd(&t_refresh(), refresh)); put_opt(m, "termsOfUse", fwd(&t_tou(), tou)); put_opt(m, "evidence", fwd(&t_evid(), evidence));
  if let Some(n) = nontransf { m.insert("nonTransferable".into(), json!(n != 0)); }
  if let Some(p) = proof_ { m.insert("proof".into(), proof(p)); }
}
fn subj(id: Option<i64>, props: i64) -> Map<String, Value> { let mut s = fwd(&t_subp(), props).as_object().unwrap().clone(); if let Some(i) = id { s.insert("id".into(), sub_id(i)); } s }
fn cred_json(c: &C) -> Value {
  let mut m = Map::new();
  cred_body(&mut m, c.ctx, c.types, subj(c.sub_id, c.sub_props), c.status, c.schema, c.refresh, c.tou, c.evidence, c.nontransf, c.props, c.proof);
  if let Some(i) = c.id { m.insert("id".into(), url_id(i)); }
  m.insert("issuer".into(), fwd(&t_issuer(), c.issuer)); m.insert("issuanceDate".into(), rfc(c.issued));
  if let Some(e) = c.expires { m.insert("expirationDate".into(), rfc(e)); }
  Value::Object(m)
}
fn cred_ints(v: &Value) -> Option<C> {
  let mut m = v.as_object()?.clone();
  let mut sub = m.remove("credentialSubject")?.as_object()?.clone();
  let sub_id_ = match sub.remove("id") { Some(x) => Some(un_sub_id(&x)?), None => None };
  let c = C { ctx: rev(&t_ctx(), m.remove("@context").as_ref()), id: match m.remove("id") { Some(x) => Some(un_url_id(&x)?), None => None }, types: rev(&t_types(), m.remove("type").as_ref()),
    sub_id: sub_id_, sub_props: rev(&t_subp(), Some(&Value::Object(sub))), issuer: rev(&t_issuer(), m.remove("issuer").as_ref()), issued: unrfc(&m.remove("issuanceDate")?)?,
    expires: match m.remove("expirationDate") { Some(x) => Some(unrfc(&x)?), None => None }, status: match m.remove("credentialStatus") { Some(x) => Some(un_status(&x)?), None => None },
    schema: rev(&t_schema(), m.remove("credentialSchema").as_ref()), refresh: rev(&t_refresh(), m.remove("refreshService").as_ref()), tou: rev(&t_tou(), m.remove("termsOfUse").as_ref()), evidence: rev(&t_evid(), m.remove("evidence").as_ref()),
    nontransf: match m.remove("nonTransferable") { Some(x) => Some(x.as_bool()? as i64), None => None }, proof: match m.remove("proof") { Some(x) => Some(un_proof(&x)?), None => None }, props: 0 };
  Some(C { props: rev(&t_props(), Some(&Value::Object(m))), ..c })
}
fn cred_err(dbg: &str) -> Vec<i64> {
  let code = if dbg.contains("inconsistent issuer") { 1 } else if dbg.contains("inconsistent issuanceDate") { 2 } else if dbg.contains("inconsistent credential expirationDate") { 3 } else if dbg.contains("inconsistent credential id") { 4 }
    else if dbg.contains("expected identifier in sub") { 5 } else if dbg.contains("identifiers do not match") { 6 } else if dbg.contains("TimestampConversionError") { 7 } else if dbg.contains("JwtClaimsSetDeserializationError") { return vec![2]; } else { 99 };
  vec![1, code]
}
fn decode_cred(claims: &[u8]) -> Result<(Credential, Option<Object>), String> {
  let jws = fake_jws(&format!("{ISSUER}#key"), claims);
  JwtCredentialValidator::with_signature_verifier(AcceptAll).verify_signature::<CoreDocument, Object>(&Jwt::new(jws), &[doc_with_key(ISSUER)], &JwsVerificationOptions::default()).map(|d| (d.credential, d.custom_claims)).map_err(|e| format!("{:?}", e))
}

/// kinds 6 / 7: the same conversions through the storage-backed issuing calls of a DID document and the real Ed25519 verifier
pub fn sig_options(mask: i64) -> identity_storage::JwsSignatureOptions {
  let mut o = crate::jws_storage::options(mask & 0x1ff);
  if mask & 512 != 0 { o = o.b64(true); }
  o
}
pub fn jwt_opts_ok(mask: i64) -> bool { mask & 128 == 0 && (mask & 2 == 0 || mask & 512 != 0) }
fn signer_doc(did: &str) -> (CoreDocument, crate::jws_storage::MemStorage, String) {
  use identity_storage::{JwkDocumentExt, JwkMemStore};
  crate::jws_storage::rt().block_on(async {
    let mut doc = CoreDocument::builder(Object::new()).id(did.parse().unwrap()).build().unwrap();
    let storage = identity_storage::Storage::new(JwkMemStore::new(), identity_storage::KeyIdMemstore::new());
    let f = doc.generate_method(&storage, JwkMemStore::ED25519_KEY_TYPE, identity_verification::jws::JwsAlgorithm::EdDSA, Some("#key"), identity_verification::MethodScope::VerificationMethod).await.unwrap();
    (doc, storage, f)
  })
}
fn verifier_options(mask: i64, did: &str) -> JwsVerificationOptions {
  let mut v = JwsVerificationOptions::new();
  if mask & 32 != 0 { v = v.nonce("nonce-1"); }
  if mask & 64 != 0 { v = v.method_id(identity_did::DIDUrl::parse(format!("{did}#key")).unwrap()); }
  v
}
fn payload_text(jwt: &str) -> Option<String> { let seg = jwt.split('.').nth(1)?; String::from_utf8(identity_jose::jwu::decode_b64(seg).ok()?).ok() }
/// the protected header of the token is the one create_jws assembles: typ "JWT" unless set, kid the method id unless set
fn header_as_created(jwt: &str, mask: i64, did: &str) -> bool {
  let h: Option<Value> = jwt.split('.').next().and_then(|s| identity_jose::jwu::decode_b64(s).ok()).and_then(|b| serde_json::from_slice(&b).ok());
  match h { Some(h) => h.get("alg") == Some(&json!("EdDSA")) && h.get("typ") == Some(&json!(if mask & 4 != 0 { "vp+jwt" } else { "JWT" })) && h.get("kid") == Some(&json!(if mask & 64 != 0 { "custom-kid".to_string() } else { format!("{did}#key") }))
      && h.get("b64").is_none() && h.get("crit").is_none() && h.get("jwk").is_some() == (mask & 1 != 0) && h.get("nonce").is_some() == (mask & 32 != 0), None => false }
}

#[derive(Clone, Debug, PartialEq)]
pub struct P { pub ctx: i64, pub id: Option<i64>, pub types: i64, pub vcs: i64, pub holder: i64, pub refresh: i64, pub tou: i64, pub props: i64, pub proof: Option<i64> }
pub fn rd_p(v: &mut &[i64]) -> P { P { ctx: take1(v).unwrap(), id: ro(v), types: take1(v).unwrap(), vcs: take1(v).unwrap(), holder: take1(v).unwrap(), refresh: take1(v).unwrap(), tou: take1(v).unwrap(), props: take1(v).unwrap(), proof: ro(v) } }
pub fn wr_p(o: &mut Vec<i64>, p: &P) { o.push(p.ctx); wo(o, p.id); o.extend([p.types, p.vcs, p.holder, p.refresh, p.tou, p.props]); wo(o, p.proof); }
pub fn pres_body(m: &mut Map<String, Value>, p: &P) {
  for (k, x) in fwd(&t_props(), p.props).as_object().unwrap() { m.insert(k.clone(), x.clone()); }
  m.insert("@context".into(), fwd(&t_ctx(), p.ctx)); m.insert("type".into(), fwd(&t_ptypes(), p.types)); put_opt(m, "verifiableCredential", fwd(&t_vcs(), p.vcs));
  put_opt(m, "refreshService", fwd(&t_refresh(), p.refresh)); put_opt(m, "termsOfUse", fwd(&t_tou(), p.tou));
  if let Some(x) = p.proof { m.insert("proof".into(), proof(x)); }
}
pub fn pres_ints(v: &Value) -> Option<P> {
  let mut m = v.as_object()?.clone();
  let p = P { ctx: rev(&t_ctx(), m.remove("@context").as_ref()), id: match m.remove("id") { Some(x) => Some(un_url_id(&x)?), None => None }, types: rev(&t_ptypes(), m.remove("type").as_ref()), vcs: rev(&t_vcs(), m.remove("verifiableCredential").as_ref()),
    holder: un_holder(&m.remove("holder")?)?, refresh: rev(&t_refresh(), m.remove("refreshService").as_ref()), tou: rev(&t_tou(), m.remove("termsOfUse").as_ref()), proof: match m.remove("proof") { Some(x) => Some(un_proof(&x)?), None => None }, props: 0 };
  Some(P { props: rev(&t_props(), Some(&Value::Object(m))), ..p })
}
fn pres_err(dbg: &str) -> Vec<i64> {
  if dbg.contains("inconsistent presentation id") { vec![1, 1] } else if dbg.contains("inconsistent presentation holder") { vec![1, 2] } else if dbg.contains("Timestamp") { vec![1, 3] } else if dbg.contains("JwtClaimsSetDeserializationError") { vec![2] } else { vec![1, 99] }
}
type PDec = (Presentation<Jwt>, Option<Timestamp>, Option<Timestamp>, Option<Url>, Option<Object>);
fn decode_pres(claims: &[u8]) -> Result<PDec, String> {
  let jws = fake_jws(&format!("{HOLDER}#key"), claims);
  let opts = JwtPresentationValidationOptions::default().earliest_expiry_date(Timestamp::from_unix(TS_MIN).unwrap()).latest_issuance_date(Timestamp::from_unix(TS_MAX).unwrap());
  JwtPresentationValidator::with_signature_verifier(AcceptAll).validate::<CoreDocument, Jwt, Object>(&Jwt::new(jws), &doc_with_key(HOLDER), &opts)
    .map(|d| (d.presentation, d.expiration_date, d.issuance_date, d.aud, d.custom_claims)).map_err(|e| format!("{:?}", e))
}
/// no custom claims: None and an empty object are the same thing
pub fn norm(o: &Option<Object>) -> Option<Object> { o.clone().filter(|m| !m.is_empty()) }
pub fn gate(t: i64) -> bool { (TS_MIN..=TS_MAX).contains(&t) }
pub fn used_issuance(iat: Option<i64>, nbf: Option<i64>) -> Option<i64> { match nbf { Some(n) => if gate(n) { Some(n) } else { None }, None => iat.filter(|i| gate(*i)) } }

pub fn exec(case: &[i64]) -> Outcome {
  let kind = case[0]; let mut v = &case[1..];
  match kind {
    1 | 6 => {
      let signed: Option<i64> = if kind == 6 { Some(take1(&mut v).unwrap()) } else { None };
      let c = rd_c(&mut v); let n = take1(&mut v).unwrap(); let cu: Vec<(i64, i64)> = (0..n).map(|_| (take1(&mut v).unwrap(), take1(&mut v).unwrap())).collect();
      let cred: Credential = match Credential::from_json_value(cred_json(&c)) { Ok(x) => x, Err(_) => return Outcome::new(vec![-7]).class("unbuildable").trivial().fail("case credential does not build") };
      let collide = cu.iter().any(|(n, _)| (1..=7).contains(n));
      let mut why: Option<String> = None;
      let mut token: Option<(Jwt, CoreDocument, i64)> = None;
      let text = match signed {
        None => match cred.serialize_jwt(custom_obj(&cu, false)) { Ok(t) => t, Err(_) => return Outcome::new(vec![-8]).class("serialize-error").fail("serialize_jwt failed on a single-subject credential") },
        Some(mask) => {
          use identity_storage::JwkDocumentExt;
          let (doc, storage, frag) = signer_doc(ISSUER);
          match crate::jws_storage::rt().block_on(doc.create_credential_jwt(&cred, &storage, &frag, &sig_options(mask), custom_obj(&cu, false))) {
            Ok(jwt) => {
              if !jwt_opts_ok(mask) { return Outcome::new(vec![-9]).class("cred-jwt-not-refused").fail("a credential JWT was produced with a detached or unencoded payload"); }
              if !header_as_created(jwt.as_str(), mask, ISSUER) { why = Some("the protected header is not the one the signature options describe".into()); }
              let t = match payload_text(jwt.as_str()) { Some(t) => t, None => return Outcome::new(vec![-8]).class("cred-jwt-shape").fail("the credential JWT has no readable payload segment") };
              if cred.serialize_jwt(custom_obj(&cu, false)).ok().as_deref() != Some(t.as_str()) { why = Some("the signed payload is not the credential's JWT claims text".into()); }
              token = Some((jwt, doc, mask)); t
            }
            Err(e) => { let o = Outcome::new(vec![3]).class("cred-jwt-refused"); return if jwt_opts_ok(mask) { o.fail(&format!("create_credential_jwt failed for usable options: {}", e)) } else { o }; }
          }
        }
      };
      // registered claims carried once
      if !collide { if let Ok(Value::Object(top)) = serde_json::from_str::<Value>(&text) {
        let vc = top.get("vc").and_then(|x| x.as_object()).cloned().unwrap_or_default();
        let once = top.get("iss") == Some(&fwd(&t_issuer(), c.issuer)) && top.get("nbf") == Some(&json!(c.issued)) && top.get("iat").is_none() && top.get("jti") == c.id.map(url_id).as_ref() && top.get("sub") == c.sub_id.map(sub_id).as_ref() && top.get("exp") == c.expires.map(|e| json!(e)).as_ref()
          && !vc.contains_key("id") && !vc.contains_key("issuer") && !vc.contains_key("issuanceDate") && !vc.contains_key("expirationDate") && vc.get("credentialSubject").and_then(|s| s.get("id")).is_none();
        if !once { why = Some("issuer / subject id / credential id / issuance / expiration are not carried exactly once in iss / sub / jti / nbf / exp".into()); }
      } else { why = Some("serialize_jwt output is not a JSON object".into()); } }
      let decoded = match &token {
        None => decode_cred(text.as_bytes()),
        Some((jwt, doc, mask)) => JwtCredentialValidator::with_signature_verifier(identity_eddsa_verifier::EdDSAJwsVerifier::default())
          .verify_signature::<CoreDocument, Object>(jwt, &[doc.clone()], &verifier_options(*mask, ISSUER)).map(|d| (d.credential, d.custom_claims)).map_err(|e| format!("{:?}", e)),
      };
      let (obs, class) = match decoded {
        Ok((back, custom)) => {
          let mut o = vec![0]; match back.to_json_value().ok().as_ref().and_then(cred_ints) { Some(bc) => wr_c(&mut o, &bc), None => o.push(-6) }
          o.extend(custom_ints(&custom, false, &cu));
          if back != cred { why.get_or_insert("the credential decoded from its own JWT claims differs from the credential".into()); }
          else if !collide && norm(&custom) != custom_obj(&cu, false) { why.get_or_insert("custom claims differ after the round trip".into()); }
          (o, if collide { "cred-roundtrip-custom-collides" } else { "cred-roundtrip" })
        }
        Err(e) => { let o = cred_err(&e); if !collide { why.get_or_insert(format!("own JWT claims rejected: {}", &e[..e.len().min(80)])); } (o, "cred-own-claims-rejected") }
      };
      let mut o = Outcome::new(obs).class(class);
      if collide { o = o.known("K_custom_registered"); }
      if let Some(w) = why { o = o.fail(&w); }
      o
    }
    2 => {
      let (exp, iss, iat, nbf, jti, sub) = (ro(&mut v), take1(&mut v).unwrap(), ro(&mut v), ro(&mut v), ro(&mut v), ro(&mut v));
      let (ctx, iid, types, iissuer, isub, subp, iissued, iexp) = (take1(&mut v).unwrap(), ro(&mut v), take1(&mut v).unwrap(), ro(&mut v), ro(&mut v), take1(&mut v).unwrap(), ro(&mut v), ro(&mut v));
      let (status_, schema, refresh, tou, evid, nt, props, proof_) = (ro(&mut v), take1(&mut v).unwrap(), take1(&mut v).unwrap(), take1(&mut v).unwrap(), take1(&mut v).unwrap(), ro(&mut v), take1(&mut v).unwrap(), ro(&mut v));
      let mut vc = Map::new();
      cred_body(&mut vc, ctx, types, subj(isub, subp), status_, schema, refresh, tou, evid, nt, props, proof_);
      if let Some(i) = iid { vc.insert("id".into(), url_id(i)); } if let Some(i) = iissuer { vc.insert("issuer".into(), fwd(&t_issuer(), i)); }
      if let Some(t) = iissued { vc.insert("issuanceDate".into(), rfc(t)); } if let Some(t) = iexp { vc.insert("expirationDate".into(), rfc(t)); }
      let mut top = Map::new(); top.insert("iss".into(), fwd(&t_issuer(), iss)); top.insert("vc".into(), Value::Object(vc));
      if let Some(e) = exp { top.insert("exp".into(), json!(e)); } if let Some(e) = iat { top.insert("iat".into(), json!(e)); } if let Some(e) = nbf { top.insert("nbf".into(), json!(e)); }
      if let Some(e) = jti { top.insert("jti".into(), url_id(e)); } if let Some(e) = sub { top.insert("sub".into(), sub_id(e)); }
      let res = decode_cred(&serde_json::to_vec(&Value::Object(top)).unwrap());
      // what the statement demands, computed on the integers
      let d = used_issuance(iat, nbf);
      let inconsistent = iissuer.map_or(false, |x| x != iss) || (d.is_some() && iissued.map_or(false, |x| Some(x) != d)) || iexp.map_or(false, |x| exp != Some(x)) || iid.map_or(false, |x| jti != Some(x)) || isub.map_or(false, |x| sub != Some(x));
      let out_of_range = d.is_none() || exp.map_or(false, |e| !gate(e));
      match res {
        Ok((cred, _)) => {
          let mut o = vec![0]; let bc = cred.to_json_value().ok().as_ref().and_then(cred_ints); match &bc { Some(bc) => wr_c(&mut o, bc), None => o.push(-6) }
          let mut out = Outcome::new(o).class("claims-accepted");
          if inconsistent { out = out.fail("a value repeated inside vc disagrees with its registered claim, yet the claims set was accepted"); }
          else if out_of_range { out = out.fail("a numeric date outside years 0000-9999 (or no issuance date) was accepted"); }
          else if let Some(bc) = bc { let want = C { ctx, id: jti, types, sub_id: sub, sub_props: subp, issuer: iss, issued: d.unwrap(), expires: exp, status: status_, schema, refresh, tou, evidence: evid, nontransf: nt, props, proof: proof_ }; if bc != want { out = out.fail("the credential is not rebuilt from the registered claims and the vc members"); } }
          out
        }
        Err(e) => { let mut out = Outcome::new(cred_err(&e)).class(if inconsistent { "claims-inconsistent-rejected" } else if out_of_range { "claims-date-rejected" } else { "claims-rejected" }); if !inconsistent && !out_of_range { out = out.fail("a consistent claims set with dates in range was rejected"); } out }
      }
    }
    3 | 7 => {
      let signed: Option<i64> = if kind == 7 { Some(take1(&mut v).unwrap()) } else { None };
      let p = rd_p(&mut v); let (oexp, oiss, oaud) = (ro(&mut v), ro(&mut v), ro(&mut v)); let n = take1(&mut v).unwrap(); let cu: Vec<(i64, i64)> = (0..n).map(|_| (take1(&mut v).unwrap(), take1(&mut v).unwrap())).collect();
      let mut m = Map::new(); pres_body(&mut m, &p); m.insert("holder".into(), holder(p.holder)); if let Some(i) = p.id { m.insert("id".into(), url_id(i)); }
      let pres: Presentation<Jwt> = match Presentation::from_json_value(Value::Object(m)) { Ok(x) => x, Err(_) => return Outcome::new(vec![-7]).class("unbuildable").trivial().fail("case presentation does not build") };
      let collide = cu.iter().any(|(n, _)| (1..=5).contains(n) || *n == 8 || *n == 9);
      let opts = JwtPresentationOptions { expiration_date: oexp.map(|t| Timestamp::from_unix(t).unwrap()), issuance_date: oiss.map(|t| Timestamp::from_unix(t).unwrap()), audience: oaud.map(|a| Url::parse(aud(a).as_str().unwrap()).unwrap()), custom_claims: custom_obj(&cu, true) };
      let mut why: Option<String> = None;
      let mut token: Option<(Jwt, CoreDocument, i64)> = None;
      let text = match signed {
        None => match pres.serialize_jwt(&opts) { Ok(t) => t, Err(_) => return Outcome::new(vec![-8]).class("serialize-error").fail("serialize_jwt failed") },
        Some(mask) => {
          use identity_storage::JwkDocumentExt;
          let (doc, storage, frag) = signer_doc(HOLDER);
          match crate::jws_storage::rt().block_on(doc.create_presentation_jwt(&pres, &storage, &frag, &sig_options(mask), &opts)) {
            Ok(jwt) => {
              if !jwt_opts_ok(mask) { return Outcome::new(vec![-9]).class("pres-jwt-not-refused").fail("a presentation JWT was produced with a detached or unencoded payload"); }
              if !header_as_created(jwt.as_str(), mask, HOLDER) { why = Some("the protected header is not the one the signature options describe".into()); }
              let t = match payload_text(jwt.as_str()) { Some(t) => t, None => return Outcome::new(vec![-8]).class("pres-jwt-shape").fail("the presentation JWT has no readable payload segment") };
              if pres.serialize_jwt(&opts).ok().as_deref() != Some(t.as_str()) { why = Some("the signed payload is not the presentation's JWT claims text".into()); }
              token = Some((jwt, doc, mask)); t
            }
            Err(e) => { let o = Outcome::new(vec![3]).class("pres-jwt-refused"); return if jwt_opts_ok(mask) { o.fail(&format!("create_presentation_jwt failed for usable options: {}", e)) } else { o }; }
          }
        }
      };
      if !collide { if let Ok(Value::Object(top)) = serde_json::from_str::<Value>(&text) {
        let vp = top.get("vp").and_then(|x| x.as_object()).cloned().unwrap_or_default();
        let once = top.get("iss") == Some(&holder(p.holder)) && top.get("jti") == p.id.map(url_id).as_ref() && top.get("exp") == oexp.map(|e| json!(e)).as_ref() && top.get("nbf") == oiss.map(|e| json!(e)).as_ref() && top.get("aud") == oaud.map(aud).as_ref() && !vp.contains_key("id") && !vp.contains_key("holder");
        if !once { why = Some("holder / id / expiry / issuance / audience are not carried exactly once in iss / jti / exp / nbf / aud".into()); }
      } }
      let decoded = match &token {
        None => decode_pres(text.as_bytes()),
        Some((jwt, doc, mask)) => {
          let vo = JwtPresentationValidationOptions::default().earliest_expiry_date(Timestamp::from_unix(TS_MIN).unwrap()).latest_issuance_date(Timestamp::from_unix(TS_MAX).unwrap()).presentation_verifier_options(verifier_options(*mask, HOLDER));
          JwtPresentationValidator::with_signature_verifier(identity_eddsa_verifier::EdDSAJwsVerifier::default()).validate::<CoreDocument, Jwt, Object>(jwt, doc, &vo)
            .map(|d| (d.presentation, d.expiration_date, d.issuance_date, d.aud, d.custom_claims)).map_err(|e| format!("{:?}", e))
        }
      };
      let (obs, class) = match decoded {
        Ok((back, e, i, a, custom)) => {
          let mut o = vec![0]; match back.to_json_value().ok().as_ref().and_then(pres_ints) { Some(bp) => wr_p(&mut o, &bp), None => o.push(-6) }
          wo(&mut o, e.map(|t| t.to_unix())); wo(&mut o, i.map(|t| t.to_unix())); wo(&mut o, a.as_ref().and_then(|u| un_aud(&json!(u.as_str())))); o.extend(custom_ints(&custom, true, &cu));
          if back != pres { why.get_or_insert("the presentation decoded from its own JWT claims differs from the presentation".into()); }
          else if !collide && (e != opts.expiration_date || i != opts.issuance_date || a != opts.audience || norm(&custom) != opts.custom_claims) { why.get_or_insert("expiry / issuance / audience / custom claims differ after the round trip".into()); }
          (o, if collide { "pres-roundtrip-custom-collides" } else { "pres-roundtrip" })
        }
        Err(e) => { let o = pres_err(&e); if !collide { why.get_or_insert(format!("own JWT claims rejected: {}", &e[..e.len().min(80)])); } (o, "pres-own-claims-rejected") }
      };
      let mut o = Outcome::new(obs).class(class);
      if collide { o = o.known("K_custom_registered"); }
      if let Some(w) = why { o = o.fail(&w); }
      o
    }
    4 => {
      let (exp, iss, iat, nbf, jti, au) = (ro(&mut v), take1(&mut v).unwrap(), ro(&mut v), ro(&mut v), ro(&mut v), ro(&mut v));
      let p = { let ctx = take1(&mut v).unwrap(); let id = ro(&mut v); let types = take1(&mut v).unwrap(); let vcs = take1(&mut v).unwrap(); let h = ro(&mut v); (P { ctx, id, types, vcs, holder: iss, refresh: take1(&mut v).unwrap(), tou: take1(&mut v).unwrap(), props: take1(&mut v).unwrap(), proof: ro(&mut v) }, h) };
      let (pi, ph) = p;
      let mut vp = Map::new(); pres_body(&mut vp, &pi); if let Some(i) = pi.id { vp.insert("id".into(), url_id(i)); } if let Some(h) = ph { vp.insert("holder".into(), holder(h)); }
      let mut top = Map::new(); top.insert("iss".into(), holder(iss)); top.insert("vp".into(), Value::Object(vp));
      if let Some(e) = exp { top.insert("exp".into(), json!(e)); } if let Some(e) = iat { top.insert("iat".into(), json!(e)); } if let Some(e) = nbf { top.insert("nbf".into(), json!(e)); }
      if let Some(e) = jti { top.insert("jti".into(), url_id(e)); } if let Some(e) = au { top.insert("aud".into(), aud(e)); }
      let res = decode_pres(&serde_json::to_vec(&Value::Object(top)).unwrap());
      let inconsistent = pi.id.map_or(false, |x| jti != Some(x)) || ph.map_or(false, |x| x != iss);
      let d = used_issuance(iat, nbf);
      let out_of_range = exp.map_or(false, |e| !gate(e)) || ((iat.is_some() || nbf.is_some()) && d.is_none());
      match res {
        Ok((back, e, i, a, _)) => {
          let mut o = vec![0]; let bp = back.to_json_value().ok().as_ref().and_then(pres_ints); match &bp { Some(bp) => wr_p(&mut o, bp), None => o.push(-6) }
          wo(&mut o, e.map(|t| t.to_unix())); wo(&mut o, i.map(|t| t.to_unix())); wo(&mut o, a.as_ref().and_then(|u| un_aud(&json!(u.as_str()))));
          let mut out = Outcome::new(o).class("pclaims-accepted");
          if inconsistent { out = out.fail("vp.id / vp.holder disagrees with jti / iss, yet the claims set was accepted"); }
          else if out_of_range { out = out.fail("a numeric date outside years 0000-9999 was accepted"); }
          else if bp != Some(P { id: jti, ..pi.clone() }) || e.map(|t| t.to_unix()) != exp || i.map(|t| t.to_unix()) != d { out = out.fail("presentation, expiry or issuance are not those of the claims"); }
          out
        }
        Err(e) => { let mut out = Outcome::new(pres_err(&e)).class(if inconsistent { "pclaims-inconsistent-rejected" } else if out_of_range { "pclaims-date-rejected" } else { "pclaims-rejected" }); if !inconsistent && !out_of_range { out = out.fail("a consistent claims set with dates in range was rejected"); } out }
      }
    }
    _ => Outcome::new(vec![-998]).fail("bad case kind"),
  }
}

fn opt(rng: &mut Rng, p: u64, lo: i64, hi: i64) -> Option<i64> { if rng.chance(p, 100) { Some(rng.range(lo, hi)) } else { None } }
const DATES_IN: [i64; 6] = [TS_MIN, TS_MIN + 1, 0, 1_700_000_000, TS_MAX - 1, TS_MAX];
const DATES_ANY: [i64; 10] = [TS_MIN - 1, TS_MIN, TS_MIN + 1, 0, 1_700_000_000, 1_700_000_001, TS_MAX - 1, TS_MAX, TS_MAX + 1, i64::MAX / 4];
fn gen_c(rng: &mut Rng) -> C { C { ctx: rng.range(0, 2), id: opt(rng, 60, 1, 3), types: rng.range(0, 1), sub_id: opt(rng, 60, 1, 3), sub_props: rng.range(0, 2), issuer: rng.range(1, 2), issued: *rng.pick(&DATES_IN), expires: if rng.chance(1, 2) { Some(*rng.pick(&DATES_IN)) } else { None },
  status: opt(rng, 40, 1, 2), schema: rng.range(0, 2), refresh: rng.range(0, 2), tou: rng.range(0, 1), evidence: rng.range(0, 1), nontransf: opt(rng, 50, 0, 1), props: rng.range(0, 2), proof: opt(rng, 30, 1, 2) } }
fn gen_p(rng: &mut Rng) -> P { P { ctx: rng.range(0, 2), id: opt(rng, 60, 1, 3), types: rng.range(0, 1), vcs: rng.range(0, 2), holder: 1, refresh: rng.range(0, 2), tou: rng.range(0, 1), props: rng.range(0, 2), proof: opt(rng, 30, 1, 2) } }

pub fn gen(rng: &mut Rng, thorough: bool, sink: &mut Sink) {
  let put_cu = |c: &mut Vec<i64>, cu: &[(i64, i64)]| { c.push(cu.len() as i64); for (n, v) in cu { c.extend([*n, *v]); } };
  // (1) every optional member on/off: the 2^7 lattice of optional members x issuer form, other members drawn at random
  for mask in 0..(1u32 << 7) { for issuer in [1i64, 2] {
    let b = |k: u32| mask >> k & 1 == 1;
    let c = C { ctx: rng.range(0, 2), id: b(0).then(|| 1), types: rng.range(0, 1), sub_id: b(1).then(|| 2), sub_props: rng.range(0, 2), issuer, issued: *rng.pick(&DATES_IN), expires: b(2).then(|| *rng.pick(&DATES_IN)), status: b(3).then(|| 1),
      schema: rng.range(0, 2), refresh: rng.range(0, 2), tou: rng.range(0, 1), evidence: rng.range(0, 1), nontransf: b(4).then(|| (mask & 1) as i64), props: if b(5) { rng.range(1, 2) } else { 0 }, proof: b(6).then(|| 1) };
    let mut case = vec![1]; wr_c(&mut case, &c); let cu: Vec<(i64, i64)> = match mask % 3 { 0 => vec![], 1 => vec![(20, 7)], _ => vec![(21, 1), (22, 2)] }; put_cu(&mut case, &cu); sink.case(case, "cred-lattice");
  } }
  for _ in 0..(if thorough { 3000 } else { 300 }) { let c = gen_c(rng); let mut case = vec![1]; wr_c(&mut case, &c); put_cu(&mut case, &[]); sink.case(case, "cred-random"); }
  // custom claims that carry a registered name (well typed)
  for name in [1i64, 2, 3, 4, 5, 6, 7] { for _ in 0..(if thorough { 40 } else { 8 }) { let c = gen_c(rng); let mut case = vec![1]; wr_c(&mut case, &c); let val = match name { 1 | 3 | 4 => *rng.pick(&DATES_IN), 2 => rng.range(1, 3), _ => rng.range(1, 3) }; put_cu(&mut case, &[(20, 1), (name, val)]); sink.case(case, "cred-custom-registered-name"); } }
  // (2) claims sets: each duplicated member absent / equal / different; dates at and beyond the range; iat vs nbf
  let n2 = if thorough { 20000 } else { 2500 };
  for i in 0..n2 {
    let c = gen_c(rng);
    let nbf = if rng.chance(3, 4) { Some(*rng.pick(&DATES_ANY)) } else { None }; let iat = if rng.chance(1, 2) { Some(*rng.pick(&DATES_ANY)) } else { None };
    let exp = if rng.chance(2, 3) { Some(*rng.pick(&DATES_ANY)) } else { None };
    let d = used_issuance(iat, nbf);
    let dup = |rng: &mut Rng, reg: Option<i64>, alt: i64| -> Option<i64> { match rng.below(if i % 3 == 0 { 4 } else { 12 }) { 0 => if rng.chance(1, 2) { Some(alt) } else { Some(reg.map_or(alt, |r| r + 1000)) }, 1 | 2 => reg.or(Some(alt)), _ => if reg.is_some() && rng.chance(1, 2) { reg } else { None } } };
    let iissuer = dup(rng, Some(c.issuer), 3); let iid = dup(rng, c.id, 3); let isub = dup(rng, c.sub_id, 3);
    let iissued = match rng.below(8) { 0 | 1 => d.or(Some(0)), 2 => Some(*rng.pick(&DATES_IN)), _ => None };
    let iexp = match rng.below(8) { 0 | 1 => exp.filter(|e| gate(*e)).or(Some(0)), 2 => Some(*rng.pick(&DATES_IN)), _ => None };
    let mut case = vec![2]; wo(&mut case, exp); case.push(c.issuer); wo(&mut case, iat); wo(&mut case, nbf); wo(&mut case, c.id); wo(&mut case, c.sub_id);
    case.push(c.ctx); wo(&mut case, iid); case.push(c.types); wo(&mut case, iissuer); wo(&mut case, isub); case.push(c.sub_props); wo(&mut case, iissued); wo(&mut case, iexp); wo(&mut case, c.status);
    case.extend([c.schema, c.refresh, c.tou, c.evidence]); wo(&mut case, c.nontransf); case.push(c.props); wo(&mut case, c.proof);
    sink.case(case, "claims-set");
  }
  // (3) presentations
  for _ in 0..(if thorough { 3000 } else { 400 }) {
    let p = gen_p(rng); let mut case = vec![3]; wr_p(&mut case, &p);
    wo(&mut case, if rng.chance(1, 2) { Some(*rng.pick(&DATES_IN)) } else { None }); wo(&mut case, if rng.chance(1, 2) { Some(*rng.pick(&DATES_IN)) } else { None }); wo(&mut case, opt(rng, 50, 1, 2));
    let cu: Vec<(i64, i64)> = match rng.below(4) { 0 => vec![], 1 => vec![(20, 7)], 2 => vec![(21, 1), (22, 2)], _ => vec![(6, 2), (20, 1)] }; put_cu(&mut case, &cu); sink.case(case, "pres-random");
  }
  for name in [1i64, 2, 3, 4, 5, 8, 9] { for _ in 0..(if thorough { 40 } else { 8 }) { let p = gen_p(rng); let mut case = vec![3]; wr_p(&mut case, &p);
    wo(&mut case, if rng.chance(1, 2) { Some(*rng.pick(&DATES_IN)) } else { None }); wo(&mut case, if rng.chance(1, 2) { Some(*rng.pick(&DATES_IN)) } else { None }); wo(&mut case, opt(rng, 50, 1, 2));
    let val = match name { 1 | 3 | 4 => *rng.pick(&DATES_IN), 2 => 1, _ => rng.range(1, 3) }; put_cu(&mut case, &[(name, val)]); sink.case(case, "pres-custom-registered-name"); } }
  // (6)/(7) the same conversions through create_credential_jwt / create_presentation_jwt: every signature-option set once, then random
  let masks: Vec<i64> = (0..1024).collect();
  for (i, mask) in masks.iter().enumerate() { if thorough || i % 4 == 0 || mask & (2 | 128 | 512) != 0 && i % 2 == 0 {
    let c = gen_c(rng); let mut case = vec![6, *mask]; wr_c(&mut case, &c); let cu: Vec<(i64, i64)> = match i % 3 { 0 => vec![], 1 => vec![(20, 7)], _ => vec![(21, 1), (22, 2)] }; put_cu(&mut case, &cu); sink.case(case, "cred-jwt-signed");
    let p = gen_p(rng); let mut case = vec![7, *mask]; wr_p(&mut case, &p);
    wo(&mut case, if rng.chance(1, 2) { Some(*rng.pick(&DATES_IN)) } else { None }); wo(&mut case, if rng.chance(1, 2) { Some(*rng.pick(&DATES_IN)) } else { None }); wo(&mut case, opt(rng, 50, 1, 2));
    let cu: Vec<(i64, i64)> = match i % 4 { 0 => vec![], 1 => vec![(20, 7)], 2 => vec![(21, 1), (22, 2)], _ => vec![(6, 2), (20, 1)] }; put_cu(&mut case, &cu); sink.case(case, "pres-jwt-signed");
  } }
  for _ in 0..(if thorough { 1500 } else { 150 }) { let mask = rng.range(0, 1023) & !(if rng.chance(4, 5) { 2 | 128 } else { 0 }); let c = gen_c(rng); let mut case = vec![6, mask]; wr_c(&mut case, &c); put_cu(&mut case, &[]); sink.case(case, "cred-jwt-signed"); }
  // (4) presentation claims sets
  for _ in 0..(if thorough { 10000 } else { 1500 }) {
    let p = gen_p(rng);
    let nbf = if rng.chance(1, 2) { Some(*rng.pick(&DATES_ANY)) } else { None }; let iat = if rng.chance(1, 3) { Some(*rng.pick(&DATES_ANY)) } else { None }; let exp = if rng.chance(1, 2) { Some(*rng.pick(&DATES_ANY)) } else { None };
    let iid = match rng.below(7) { 0 | 1 => p.id.or(Some(3)), 2 => Some(3), 3 => Some(p.id.map_or(3, |x| x + 1000)), _ => None }; let ih = match rng.below(7) { 0 | 1 => Some(1), 2 => Some(2), 3 => Some(1001), _ => None };
    let mut case = vec![4]; wo(&mut case, exp); case.push(1); wo(&mut case, iat); wo(&mut case, nbf); wo(&mut case, p.id); wo(&mut case, opt(rng, 50, 1, 2));
    case.push(p.ctx); wo(&mut case, iid); case.extend([p.types, p.vcs]); wo(&mut case, ih); case.extend([p.refresh, p.tou, p.props]); wo(&mut case, p.proof);
    sink.case(case, "pclaims-set");
  }
}
