//! C15 — key stores against the model.
//! see coq/theories/Run/C15Run.v for the case encoding.
use crate::common::*;
use crypto::signatures::ed25519::SecretKey;
use identity_eddsa_verifier::EdDSAJwsVerifier;
use identity_jose::jwk::Jwk;
use identity_jose::jws::{JwsAlgorithm, JwsVerifier, VerificationInput};
use identity_storage::key_id_storage::{KeyIdMemstore, KeyIdStorage, KeyIdStorageErrorKind, MethodDigest};
use identity_storage::key_storage::{JwkMemStore, JwkStorage, KeyId, KeyStorageErrorKind, KeyType};
use identity_verification::VerificationMethod;
use serde_json::json;
use std::sync::Arc;

fn b64(x: &[u8]) -> String { identity_jose::jwu::encode_b64(x) }
fn pool_secret(j: i64) -> [u8; 32] { let mut s = [0u8; 32]; for (k, b) in s.iter_mut().enumerate() { *b = (j as u8).wrapping_mul(31).wrapping_add(k as u8 * 7 + 1); } s }
fn pool_x(j: i64) -> String { b64(SecretKey::from_bytes(&pool_secret(j)).public_key().as_ref()) }
/// a JWK offered to insert: kind 0 Ed25519, 1 X25519 (other OKP curve), 2 EC BLS12381G2, 3 EC P-256, 4 RSA / oct
fn offered(kind: i64, private: bool, alg: i64, secret: i64, d_ok: bool) -> Jwk {
  let j = secret - 1000;
  let mut v = match kind {
    0 => json!({"kty": "OKP", "crv": "Ed25519", "x": pool_x(j)}),
    1 => json!({"kty": "OKP", "crv": "X25519", "x": pool_x(j)}),
    2 => json!({"kty": "EC", "crv": "BLS12381G2", "x": pool_x(j), "y": pool_x(j + 1)}),
    3 => json!({"kty": "EC", "crv": "P-256", "x": "MKBCTNIcKUSDii11ySs3526iDZ8AiTo7Tu6KPAqv7D4", "y": "4Etl6SRW2YiLUrN5vfvVHuhp7x8PxltmWWlbbM4IFyM"}),
    _ => json!({"kty": "oct", "k": "AAAA"}),
  };
  if private && kind != 4 { v["d"] = json!(if d_ok { b64(&pool_secret(j)) } else { "AAAA".to_string() }); }
  // 2..7: names that are not JWS algorithms (spellings of EdDSA in another case, padded, empty included)
  match alg { 0 => v["alg"] = json!("EdDSA"), 1 => v["alg"] = json!("ES256"), 2 => v["alg"] = json!("Ed25519Signature"), 3 => v["alg"] = json!("eddsa"), 4 => v["alg"] = json!("EDDSA"), 5 => v["alg"] = json!(""), 6 => v["alg"] = json!("EdDSA "), 7 => v["alg"] = json!("Eddsa"), _ => {} }
  serde_json::from_value(v).unwrap()
}
fn kerr(k: &KeyStorageErrorKind) -> i64 { match k { KeyStorageErrorKind::UnsupportedKeyType => 1, KeyStorageErrorKind::KeyAlgorithmMismatch => 2, KeyStorageErrorKind::UnsupportedSignatureAlgorithm => 3, KeyStorageErrorKind::Unspecified => 4, KeyStorageErrorKind::KeyNotFound => 5, _ => 9 } }
fn verifies(sig: &[u8], msg: &[u8], x: &str) -> bool {
  let jwk: Jwk = serde_json::from_value(json!({"kty": "OKP", "crv": "Ed25519", "x": x})).unwrap();
  EdDSAJwsVerifier::default().verify(VerificationInput { alg: JwsAlgorithm::EdDSA, signing_input: msg.into(), decoded_signature: sig.into() }, &jwk).is_ok()
}
fn method(frag: i64, key: i64) -> VerificationMethod {
  serde_json::from_value(json!({"id": format!("did:example:abc#frag{frag}"), "controller": "did:example:abc", "type": "JsonWebKey", "publicKeyJwk": {"kty": "OKP", "crv": "Ed25519", "x": pool_x(key)}})).unwrap()
}

/// one history of JwkStorage operations on ANY shipped store (the in-memory one, Stronghold)
fn run_jwk_history<S: JwkStorage>(store: &S, ops: &[i64], ed: KeyType, bls: KeyType, class: &str) -> Outcome {
  let rt = crate::jws_storage::rt(); let mut v = ops;
  // the Stronghold-backed store: error kinds are not compared, and a private member that is not a 32-byte key is refused at insertion
  let sh = class.starts_with("stronghold"); let kerr = |k: &KeyStorageErrorKind| if sh { -1 } else { kerr(k) };
      let mut ids: Vec<KeyId> = vec![];                    // canonical index -> real key id
      let mut live: Vec<Option<(i64, String)>> = vec![];   // per created key: secret number and public x, None once deleted
      let mut obs = vec![]; let mut why: Option<String> = None; let mut n = 0i64;
      let real_id = |ids: &Vec<KeyId>, i: i64| if i >= 0 && (i as usize) < ids.len() { ids[i as usize].clone() } else { KeyId::new(format!("never-issued-{i}")) };
      while !v.is_empty() {
        let t = take1(&mut v).unwrap();
        match t {
          0 => { let k = take1(&mut v).unwrap(); let e = take1(&mut v).unwrap();
            let kt = match k { 0 => ed.clone(), 1 => bls.clone(), _ => KeyType::new("secp256k1") };
            match rt.block_on(store.generate(kt, if e != 0 { JwsAlgorithm::EdDSA } else { JwsAlgorithm::ES256 })) {
              Ok(out) => { let x = out.jwk.try_okp_params().map(|p| p.x.clone()).unwrap_or_default();
                let thumb = out.jwk.kid() == Some(out.jwk.thumbprint_sha256_b64().as_str()); let alg = match out.jwk.alg() { Some("EdDSA") => 0, Some(_) => 1, None => -1 };
                if ids.contains(&out.key_id) { why.get_or_insert("generate returned a key id that is already in use".into()); }
                obs.extend([0, ids.len() as i64, out.jwk.is_public() as i64, thumb as i64, alg, 5000 + n]);
                if !out.jwk.is_public() || !thumb || alg != 0 || k != 0 || e == 0 { why.get_or_insert("generate output is not a public-only JWK with kid = thumbprint and the requested alg for a supported key type".into()); }
                ids.push(out.key_id); live.push(Some((5000 + n, x))); }
              Err(err) => { obs.extend([1, kerr(err.kind())]); if k == 0 && e != 0 { why.get_or_insert("generate of an Ed25519 / EdDSA key failed".into()); } }
            } }
          1 => { let (kind, private, alg, secret, d_ok) = (take1(&mut v).unwrap(), take1(&mut v).unwrap() != 0, take1(&mut v).unwrap(), take1(&mut v).unwrap(), take1(&mut v).unwrap() != 0);
            let good = kind == 0 && private && alg == 0 && (d_ok || !sh);
            match rt.block_on(store.insert(offered(kind, private, alg, secret, d_ok))) {
              Ok(id) => { if ids.contains(&id) { why.get_or_insert("insert returned a key id that is already in use".into()); } obs.extend([0, ids.len() as i64]); ids.push(id); live.push(Some((secret, pool_x(secret - 1000))));
                if !good { why.get_or_insert("insert accepted a JWK that is not a fully private Ed25519 key with alg EdDSA".into()); } }
              Err(err) => { obs.extend([1, kerr(err.kind())]); if good { why.get_or_insert("insert rejected a fully private Ed25519 JWK with alg EdDSA".into()); } }
            } }
          2 => { let (i, pkind, palg) = (take1(&mut v).unwrap(), take1(&mut v).unwrap(), take1(&mut v).unwrap());
            let pj = offered(pkind, false, palg, 1000, true); let msg = format!("message {n}").into_bytes();
            let present = i >= 0 && (i as usize) < live.len() && live[i as usize].is_some();
            match rt.block_on(store.sign(&real_id(&ids, i), &msg, &pj)) {
              Ok(sig) => {
                // verify under EVERY key ever stored (and the pool): exactly the keys with the signer's secret accept
                let mut accepted: Vec<i64> = vec![]; for l in live.iter().flatten() { if verifies(&sig, &msg, &l.1) && !accepted.contains(&l.0) { accepted.push(l.0); } }
                let own = if present { live[i as usize].as_ref().map(|l| l.0) } else { None };
                obs.extend([0, if accepted.len() == 1 { accepted[0] } else { -6 }]);
                if !present { why.get_or_insert("a deleted or never-issued key id signed".into()); } else if accepted != vec![own.unwrap()] { why.get_or_insert("the signature does not verify under exactly the stored key of that id".into()); } }
              Err(err) => { obs.extend([1, kerr(err.kind())]); }
            } }
          3 => { let i = take1(&mut v).unwrap(); let present = i >= 0 && (i as usize) < live.len() && live[i as usize].is_some();
            match rt.block_on(store.delete(&real_id(&ids, i))) { Ok(()) => { obs.push(0); if !present { why.get_or_insert("a deleted or never-issued key id was deleted".into()); } else { live[i as usize] = None; } } Err(err) => { obs.extend([1, kerr(err.kind())]); if present { why.get_or_insert("deleting a stored key failed".into()); } } } }
          _ => { let i = take1(&mut v).unwrap(); let present = i >= 0 && (i as usize) < live.len() && live[i as usize].is_some();
            match rt.block_on(store.exists(&real_id(&ids, i))) { Ok(b) => { obs.extend([0, b as i64]); if b != present { why.get_or_insert("exists disagrees with the history".into()); } } Err(err) => obs.extend([1, kerr(err.kind())]) } }
        }
        n += 1;
      }
      let mut o = Outcome::new(obs).class(class); if let Some(w) = why { o = o.fail(&w); } o
}
/// one history of KeyIdStorage operations on any shipped store
fn run_kid_history<S: KeyIdStorage>(store: &S, ops: &[i64], class: &str) -> Outcome {
  let rt = crate::jws_storage::rt(); let mut v = ops; let mut obs = vec![]; let mut why: Option<String> = None;
      let mut map: std::collections::HashMap<i64, i64> = Default::default();
      let digest = |d: i64| MethodDigest::new(&method(d % 4, d / 4)).unwrap();
      while !v.is_empty() {
        match take1(&mut v).unwrap() {
          0 => { let (d, k) = (take1(&mut v).unwrap(), take1(&mut v).unwrap()); match rt.block_on(store.insert_key_id(digest(d), KeyId::new(format!("kid{k}")))) {
              Ok(()) => { obs.push(0); if map.contains_key(&d) { why.get_or_insert("a second insert for a digest succeeded".into()); } map.insert(d, k); }
              Err(e) => { obs.push(if matches!(e.kind(), KeyIdStorageErrorKind::KeyIdAlreadyExists) { 1 } else { 9 }); if !map.contains_key(&d) { why.get_or_insert("a first insert for a digest failed".into()); } } } }
          1 => { let d = take1(&mut v).unwrap(); match rt.block_on(store.get_key_id(&digest(d))) {
              Ok(k) => { let kk = k.as_str().trim_start_matches("kid").parse().unwrap_or(-1); obs.extend([0, kk]); if map.get(&d) != Some(&kk) { why.get_or_insert("the digest does not map to the key id of its first insert".into()); } }
              Err(_) => { obs.push(2); if map.contains_key(&d) { why.get_or_insert("a stored mapping was not found".into()); } } } }
          _ => { let d = take1(&mut v).unwrap(); match rt.block_on(store.delete_key_id(&digest(d))) { Ok(()) => { obs.push(0); if map.remove(&d).is_none() { why.get_or_insert("deleting an absent mapping succeeded".into()); } } Err(_) => { obs.push(2); if map.contains_key(&d) { why.get_or_insert("deleting a stored mapping failed".into()); } } } }
        }
      }
      let mut o = Outcome::new(obs).class(class); if let Some(w) = why { o = o.fail(&w); } o
}
fn stronghold() -> (identity_stronghold::StrongholdStorage, std::path::PathBuf) {
  let _ = iota_stronghold::engine::snapshot::try_set_encrypt_work_factor(0);
  static N: std::sync::atomic::AtomicU64 = std::sync::atomic::AtomicU64::new(0);
  let mut file = std::env::temp_dir(); file.push(format!("vharness-stronghold-{}-{}", std::process::id(), N.fetch_add(1, std::sync::atomic::Ordering::SeqCst))); file.set_extension("stronghold");
  let sm = iota_sdk::client::secret::stronghold::StrongholdSecretManager::builder().password(iota_sdk::client::Password::from("secure_password".to_owned())).build(&file).unwrap();
  (identity_stronghold::StrongholdStorage::new(sm), file)
}
pub fn exec(case: &[i64]) -> Outcome {
  let rt = crate::jws_storage::rt();
  match case[0] {
    1 => run_jwk_history(&JwkMemStore::new(), &case[2..], JwkMemStore::ED25519_KEY_TYPE, JwkMemStore::BLS12381G2_KEY_TYPE, "jwk-store-history"),
    2 => run_kid_history(&KeyIdMemstore::new(), &case[2..], "keyid-store-history"),
    // 11 / 12: the same histories on the Stronghold-backed store (a throw-away snapshot file per case)
    11 => { let (st, file) = stronghold(); let o = run_jwk_history(&st, &case[2..], identity_stronghold::ED25519_KEY_TYPE, identity_stronghold::BLS12381G2_KEY_TYPE, "stronghold-jwk-history"); drop(st); let _ = std::fs::remove_file(&file); o }
    12 => { let (st, file) = stronghold(); let o = run_kid_history(&st, &case[2..], "stronghold-keyid-history"); drop(st); let _ = std::fs::remove_file(&file); o }
    3 => {
      let n = case[1] as usize; let rounds = 1500;
      let mut worst = (1i64, 1i64);
      for round in 0..rounds {
        let store = Arc::new(KeyIdMemstore::new()); let d = MethodDigest::new(&method(round % 4, round)).unwrap();
        let barrier = Arc::new(std::sync::Barrier::new(n));
        let hs: Vec<_> = (0..n).map(|t| { let (store, d, barrier) = (store.clone(), d.clone(), barrier.clone());
          std::thread::spawn(move || { let rt = tokio::runtime::Builder::new_current_thread().build().unwrap(); let kid = KeyId::new(format!("t{t}"));
            // released INSIDE the runtime, right before the call, so that the calls really overlap
            rt.block_on(async move { barrier.wait(); store.insert_key_id(d, kid).await }).is_ok() }) }).collect();
        let oks: Vec<bool> = hs.into_iter().map(|h| h.join().unwrap_or(false)).collect();
        let wins: Vec<usize> = oks.iter().enumerate().filter(|x| *x.1).map(|x| x.0).collect();
        let mapped = rt.block_on(store.get_key_id(&d)).ok().map(|k| k.as_str().to_string());
        let consistent = wins.len() == 1 && mapped == Some(format!("t{}", wins[0]));
        if wins.len() != 1 || !consistent { worst = (wins.len() as i64, consistent as i64); break; }
      }
      let mut o = Outcome::new(vec![worst.0, worst.1]).class(&format!("race-{n}-threads"));
      if worst != (1, 1) { o = o.fail("racing inserts of one digest: not exactly one succeeded, or the digest does not map to the winner's key id"); }
      o
    }
    // 13: BBS+ keys through JwkStorageBbsPlusExt (oracle only): [13, store (0 memory, 1 Stronghold), ciphersuite (0 SHA-256, 1 SHAKE-256)]
    13 => {
      use identity_storage::JwkStorageBbsPlusExt; use jsonprooftoken::jpa::algs::ProofAlgorithm; use std::str::FromStr;
      use zkryptium::bbsplus::ciphersuites::{Bls12381Sha256, Bls12381Shake256}; use zkryptium::schemes::algorithms::BBSplus; use zkryptium::schemes::generics::Signature;
      let alg = if case[2] == 0 { ProofAlgorithm::BLS12381_SHA256 } else { ProofAlgorithm::BLS12381_SHAKE256 };
      fn verifies(public_jwk: &Jwk, signature: &[u8], data: &[Vec<u8>], header: &[u8]) -> bool {
        let Some(alg) = public_jwk.alg().and_then(|a| ProofAlgorithm::from_str(a).ok()) else { return false };
        let Ok((_, pk)) = identity_storage::key_storage::bls::expand_bls_jwk(public_jwk) else { return false };
        let Ok(bytes) = <&[u8; 80]>::try_from(signature) else { return false };
        match alg { ProofAlgorithm::BLS12381_SHA256 => Signature::<BBSplus<Bls12381Sha256>>::from_bytes(bytes).and_then(|s| s.verify(&pk, Some(data), Some(header))).is_ok(),
                    ProofAlgorithm::BLS12381_SHAKE256 => Signature::<BBSplus<Bls12381Shake256>>::from_bytes(bytes).and_then(|s| s.verify(&pk, Some(data), Some(header))).is_ok(), _ => false }
      }
      async fn history<S: JwkStorage + JwkStorageBbsPlusExt>(store: &S, kt: KeyType, alg: ProofAlgorithm) -> Option<String> {
        let data: Vec<Vec<u8>> = vec![b"first message".to_vec(), b"second message".to_vec(), Vec::new()]; let header: &[u8] = b"header";
        let a = match store.generate_bbs(kt.clone(), alg).await { Ok(o) => o, Err(_) => return Some("generate_bbs failed for a supported key type and algorithm".into()) };
        let b = match store.generate_bbs(kt, alg).await { Ok(o) => o, Err(_) => return Some("generate_bbs failed".into()) };
        if a.key_id == b.key_id { return Some("generate_bbs returned a key id twice".into()); }
        for j in [&a.jwk, &b.jwk] { if !j.is_public() || j.kid() != Some(j.thumbprint_sha256_b64().as_str()) || j.alg() != Some(alg.to_string().as_str()) { return Some("generate_bbs output is not a public-only JWK with kid = thumbprint and the requested alg".into()); } }
        let sa = match store.sign_bbs(&a.key_id, &data, header, &a.jwk).await { Ok(s) => s, Err(_) => return Some("sign_bbs failed for a stored key".into()) };
        let sb = match store.sign_bbs(&b.key_id, &data, header, &b.jwk).await { Ok(s) => s, Err(_) => return Some("sign_bbs failed for a stored key".into()) };
        if !verifies(&a.jwk, &sa, &data, header) || !verifies(&b.jwk, &sb, &data, header) { return Some("a BBS+ signature does not verify under the public JWK of its key (the ciphersuite is the one the JWK names)".into()); }
        if verifies(&b.jwk, &sa, &data, header) || verifies(&a.jwk, &sb, &data, header) { return Some("a BBS+ signature verifies under another stored key".into()); }
        if store.delete(&a.key_id).await.is_err() { return Some("deleting a stored key failed".into()); }
        if !matches!(store.exists(&a.key_id).await, Ok(false)) || store.sign_bbs(&a.key_id, &data, header, &a.jwk).await.is_ok() || store.delete(&a.key_id).await.is_ok() { return Some("a deleted key id still exists, signs or deletes".into()); }
        match store.sign_bbs(&b.key_id, &data, header, &b.jwk).await { Ok(s) if verifies(&b.jwk, &s, &data, header) => None, _ => Some("the other key was affected by the deletion".into()) }
      }
      let why = if case[1] == 0 { rt.block_on(history(&JwkMemStore::new(), JwkMemStore::BLS12381G2_KEY_TYPE, alg)) }
                else { let (st, file) = stronghold(); let w = rt.block_on(history(&st, identity_stronghold::BLS12381G2_KEY_TYPE, alg)); drop(st); let _ = std::fs::remove_file(&file); w };
      let o = Outcome::new(vec![-5555]).class("bbs-history"); match why { Some(w) => o.fail(&w), None => o }
    }
    _ => Outcome::new(vec![-998]).fail("bad case kind"),
  }
}

pub fn gen(rng: &mut Rng, thorough: bool, sink: &mut Sink) {
  for st in 0..2 { for cs in 0..2 { sink.case(vec![13, st, cs], "bbs-history"); } }
  // every alg spelling on a fully private Ed25519 key offered for insertion, and on the public key handed to sign
  for alg in -1..=7i64 { sink.case(vec![1, 3, 1, 0, 1, alg, 1000, 1, 0, 0, 1, 2, 0, 0, alg], "alg-table"); sink.case(vec![11, 3, 1, 0, 1, alg, 1000, 1, 0, 0, 1, 2, 0, 0, alg], "stronghold-alg-table"); }
  let mut hk = 0;
  for _ in 0..(if thorough { 3000 } else { 400 }) {
    let len = rng.range(1, if thorough { 60 } else { 30 }); let mut c = vec![1, len]; let mut created = 0i64;
    for _ in 0..len {
      match rng.below(10) {
        0 | 1 => { let k = if rng.chance(3, 4) { 0 } else { rng.range(1, 2) }; let e = rng.chance(5, 6) as i64; c.extend([0, k, e]); if k == 0 && e == 1 { created += 1; } }
        2 | 3 => { let good = rng.chance(1, 2); let (kind, private, alg) = if good { (0, 1, 0) } else { (*rng.pick(&[0i64, 0, 1, 2, 3, 4]), rng.chance(2, 3) as i64, rng.range(-1, 7)) }; let d_ok = rng.chance(7, 8) as i64;
                   c.extend([1, kind, private, alg, 1000 + rng.range(0, 5), d_ok]); if kind == 0 && private == 1 && alg == 0 { created += 1; } }
        4 | 5 | 6 => { let i = if rng.chance(5, 6) && created > 0 { rng.range(0, created - 1) } else { created + rng.range(0, 3) }; let (pk, pa) = if rng.chance(3, 4) { (0, 0) } else { (rng.range(0, 4), rng.range(-1, 7)) }; c.extend([2, i, pk, pa]); }
        7 => { let i = if rng.chance(4, 5) && created > 0 { rng.range(0, created - 1) } else { created + rng.range(0, 3) }; c.extend([3, i]); }
        _ => { let i = if rng.chance(3, 4) && created > 0 { rng.range(0, created - 1) } else { created + rng.range(0, 3) }; c.extend([4, i]); }
      }
    }
    // the first histories also run on the Stronghold-backed store
    if hk < (if thorough { 400 } else { 60 }) { let mut c2 = c.clone(); c2[0] = 11; sink.case(c2, "stronghold-jwk-history"); }
    hk += 1;
    sink.case(c, "jwk-history");
  }
  let mut kk = 0;
  for _ in 0..(if thorough { 2000 } else { 300 }) { let len = rng.range(1, 40); let mut c = vec![2, len]; for _ in 0..len { match rng.below(5) { 0 | 1 => c.extend([0, rng.range(0, 7), rng.range(0, 9)]), 2 | 3 => c.extend([1, rng.range(0, 7)]), _ => c.extend([2, rng.range(0, 7)]) } } if kk < (if thorough { 400 } else { 60 }) { let mut c2 = c.clone(); c2[0] = 12; sink.case(c2, "stronghold-keyid-history"); } kk += 1; sink.case(c, "keyid-history"); }
  for n in [2i64, 3, 4, 8, 16] { let steps = (n * 4) as usize; let mut sched: Vec<i64> = (0..steps * 3).map(|_| rng.range(1, n)).collect(); for t in 1..=n { sched.extend([t, t, t, t]); } let mut c = vec![3, n, sched.len() as i64]; c.extend(sched); sink.case(c, "race"); }
}
