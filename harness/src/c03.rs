//! C03 — JWT presentation validation against the model.
//! see coq/theories/Run/C03Run.v for the case encoding.
use crate::c02::{jws_options, key_bytes, ustr, Case as C02Case, Ent, IssuerDoc, KeyEcho, DIDS, U};
use crate::c07::{aud, gate, pres_body, pres_ints, ro, un_aud, url_id, used_issuance, wo, wr_p, P};
use crate::common::*;
use identity_core::common::{Object, Timestamp};
use identity_credential::credential::Jwt;
use identity_credential::validator::{JwtPresentationValidationOptions, JwtPresentationValidator, JwtValidationError};
use identity_document::document::CoreDocument;
use serde_json::{json, Map, Value};

fn iss_str(v: i64) -> String { match v { 1 | 2 | 5 => DIDS[v as usize].to_string(), 6 => format!("{}#f1", DIDS[1]), 7 => format!("{}/p?q=1", DIDS[1]),   // DID URLs built on the holder DID are not DIDs
  3 => "https://holder.example/".to_string(), 1001 => DIDS[1].replace("issuer", "ISSUER"), _ => format!("did:example:nobody{v}") } }
fn iss_did(v: i64) -> Option<i64> { match v { 1 | 2 => Some(v), 3 | 6 | 7 => None, _ => Some(90 + v) } }
#[derive(Clone, Debug)]
struct PC { exp: Option<i64>, iss: i64, iat: Option<i64>, nbf: Option<i64>, jti: Option<i64>, aud: Option<i64>, p: P, vp_id: Option<i64>, vp_holder: Option<i64> }
#[derive(Clone, Debug)]
struct Case { nonce: Option<i64>, kid: Option<(i64, Option<i64>, Option<i64>)>, sigkey: i64, claims_ok: bool, bad: i64, pc: PC, holder: IssuerDoc, o_nonce: Option<i64>, method_id: Option<U>, scope: i64, earliest: i64, latest: i64 }
impl Case {
  fn enc(&self) -> Vec<i64> {
    let mut o = vec![]; wo(&mut o, self.nonce);
    match self.kid { None => o.push(0), Some((form, d, f)) => { o.extend([1, form]); wo(&mut o, d); wo(&mut o, f); } }
    o.push(self.sigkey); o.push(self.claims_ok as i64);
    if self.claims_ok { let c = &self.pc; wo(&mut o, c.exp); o.push(c.iss); wo(&mut o, c.iat); wo(&mut o, c.nbf); wo(&mut o, c.jti); wo(&mut o, c.aud);
      o.push(c.p.ctx); wo(&mut o, c.vp_id); o.extend([c.p.types, c.p.vcs]); wo(&mut o, c.vp_holder); o.extend([c.p.refresh, c.p.tou, c.p.props]); wo(&mut o, c.p.proof); } else { o.push(self.bad); }
    wo(&mut o, iss_did(self.pc.iss));
    self.holder.enc(&mut o); let n = o.len(); o.truncate(n - 1 - self.holder.bms.iter().map(|b| 3 + b.2.len()).sum::<usize>());   // holder = id + document, no bitmap table
    wo(&mut o, self.o_nonce); match self.method_id { Some(u) => o.extend([1, u.d, u.r, u.f]), None => o.push(0) } o.extend([self.scope, self.earliest, self.latest]); o
  }
  fn dec(case: &[i64]) -> Case {
    let mut v = case; let nonce = ro(&mut v);
    let kid = if take1(&mut v).unwrap() == 0 { None } else { let form = take1(&mut v).unwrap(); Some((form, ro(&mut v), ro(&mut v))) };
    let sigkey = take1(&mut v).unwrap(); let claims_ok = take1(&mut v).unwrap() != 0; let mut bad = 0;
    let mut pc = PC { exp: None, iss: 1, iat: None, nbf: None, jti: None, aud: None, p: P { ctx: 0, id: None, types: 0, vcs: 1, holder: 1, refresh: 0, tou: 0, props: 0, proof: None }, vp_id: None, vp_holder: None };
    if claims_ok { pc.exp = ro(&mut v); pc.iss = take1(&mut v).unwrap(); pc.iat = ro(&mut v); pc.nbf = ro(&mut v); pc.jti = ro(&mut v); pc.aud = ro(&mut v);
      pc.p.ctx = take1(&mut v).unwrap(); pc.vp_id = ro(&mut v); pc.p.types = take1(&mut v).unwrap(); pc.p.vcs = take1(&mut v).unwrap(); pc.vp_holder = ro(&mut v); pc.p.refresh = take1(&mut v).unwrap(); pc.p.tou = take1(&mut v).unwrap(); pc.p.props = take1(&mut v).unwrap(); pc.p.proof = ro(&mut v); }
    else { bad = take1(&mut v).unwrap(); }
    let issd = ro(&mut v); if !claims_ok { pc.iss = match issd { Some(1) => 1, Some(2) => 2, None => 3, Some(x) => x - 90 }; }
    // the holder document is encoded like an issuer document without the bitmap table: append an empty table to reuse the decoder
    let holder = { let mut tmp: Vec<i64> = v.to_vec(); let consumed = { let mut w = &tmp[..]; let before = w.len();
        let _id = take1(&mut w); for _ in 0..take1(&mut w).unwrap() { w = &w[4..]; } for _ in 0..5 { for _ in 0..take1(&mut w).unwrap() { let t = take1(&mut w).unwrap(); w = &w[if t == 0 { 4 } else { 3 }..]; } } for _ in 0..take1(&mut w).unwrap() { w = &w[4..]; } before - w.len() };
      tmp.insert(consumed, 0); let mut w = &tmp[..]; let h = IssuerDoc::dec(&mut w); v = &v[consumed..]; h };
    let o_nonce = ro(&mut v); let method_id = if take1(&mut v).unwrap() != 0 { Some(U { d: take1(&mut v).unwrap(), r: take1(&mut v).unwrap(), f: take1(&mut v).unwrap() }) } else { None };
    Case { nonce, kid, sigkey, claims_ok, bad, pc, holder, o_nonce, method_id, scope: take1(&mut v).unwrap(), earliest: take1(&mut v).unwrap(), latest: take1(&mut v).unwrap() }
  }
  fn kid_text(&self) -> Option<String> {
    self.kid.map(|(form, d, f)| { let frag = f.map(|f| format!("f{f}")); match (d, frag) { (Some(d), Some(fr)) => format!("{}{}#{}", DIDS[d as usize], if form == 1 { "/path?x=1" } else { "" }, fr), (Some(d), None) => DIDS[d as usize].to_string(),
      (None, Some(fr)) => if form == 1 { fr } else if form == 2 { format!("?q=1#{fr}") } else { format!("#{fr}") }, (None, None) => if form == 1 { "#".to_string() } else { String::new() } } })
  }
  fn claims(&self) -> Value {
    let c = &self.pc; let mut vp = Map::new(); pres_body(&mut vp, &c.p);
    if let Some(i) = c.vp_id { vp.insert("id".into(), url_id(i)); } if let Some(h) = c.vp_holder { vp.insert("holder".into(), json!(iss_str(h))); }
    let mut top = Map::new(); top.insert("iss".into(), json!(iss_str(c.iss))); top.insert("vp".into(), Value::Object(vp));
    if let Some(e) = c.exp { top.insert("exp".into(), json!(e)); } if let Some(e) = c.iat { top.insert("iat".into(), json!(e)); } if let Some(e) = c.nbf { top.insert("nbf".into(), json!(e)); }
    if let Some(e) = c.jti { top.insert("jti".into(), url_id(e)); } if let Some(e) = c.aud { top.insert("aud".into(), aud(e)); }
    if !self.claims_ok { match self.bad { 0 => { top.remove("vp"); } 1 => { top.insert("exp".into(), json!("tomorrow")); } 2 => { top.insert("iss".into(), json!(5)); } _ => { top["vp"]["@context"] = json!(7); } } }
    Value::Object(top)
  }
}
fn resolve(h: &IssuerDoc, qd: Option<i64>, qf: Option<i64>, scope: i64) -> Option<i64> {
  let m = |u: &U| qd.map_or(true, |d| d == u.d) && qf.is_some() && u.f >= 0 && Some(u.f) == qf;
  let vm_ref = |u: &U| h.vm.iter().find(|e| e.0.d == u.d && u.f >= 0 && e.0.f == u.f).map(|e| e.1);
  let via = |e: &Ent| match e { Ent::Embed(_, x) => Some(*x), Ent::Refer(u) => vm_ref(u) };
  let id = |e: &Ent| match e { Ent::Embed(u, _) => *u, Ent::Refer(u) => *u };
  match scope { 0 => h.vm.iter().find(|e| m(&e.0)).map(|e| e.1), 1..=5 => h.rels[(scope - 1) as usize].iter().find(|e| m(&id(e))).and_then(via),
    _ => match h.rels.iter().flatten().find(|e| m(&id(e))) { Some(e) => via(e), None => h.vm.iter().find(|e| m(&e.0)).map(|e| e.1) } }
}
fn err_code(e: &JwtValidationError) -> i64 {
  let dbg = format!("{e:?}");
  match e {
    JwtValidationError::PresentationJwsError(_) => if dbg.contains("invalid nonce") { 1 } else if dbg.contains("missing kid") { 2 } else if dbg.contains("MethodNotFound") { 3 } else if dbg.contains("InvalidKeyMaterial") { 4 } else { 5 },
    JwtValidationError::PresentationStructure(_) => if dbg.contains("inconsistent presentation") { 12 } else if dbg.contains("Timestamp") { 9 } else { 6 },
    JwtValidationError::SignerUrl { .. } => 7, JwtValidationError::DocumentMismatch { .. } => 8, JwtValidationError::ExpirationDate => 10, JwtValidationError::IssuanceDate => 11, _ => 20,
  }
}

pub fn exec(case: &[i64]) -> Outcome {
  let c = Case::dec(case);
  let doc: CoreDocument = match c.holder.build() { Some(d) => d, None => return Outcome::new(vec![-7]).class("unbuildable").trivial().fail("the holder document of the case does not build") };
  let claims = c.claims();
  let token = Jwt::new(crate::c02::jws(c.kid_text(), c.nonce, &claims, c.sigkey));
  let as02 = C02Case { o_nonce: c.o_nonce, method_id: c.method_id, scope: c.scope, ..crate::c02::base_case() };
  // bounds equal to BOUND_UNSET are left unset (the validator then reads the clock): see c02.rs
  let mut opts = JwtPresentationValidationOptions::default().presentation_verifier_options(jws_options(&as02)); if c.earliest != crate::c02::BOUND_UNSET { opts = opts.earliest_expiry_date(Timestamp::from_unix(c.earliest).unwrap()); } if c.latest != crate::c02::BOUND_UNSET { opts = opts.latest_issuance_date(Timestamp::from_unix(c.latest).unwrap()); }
  let res = JwtPresentationValidator::with_signature_verifier(KeyEcho).validate::<CoreDocument, Jwt, Object>(&token, &doc, &opts);
  // ---- the conditions of the statement, from the case description ----
  let pc = &c.pc;
  let nonce_ok = c.nonce == c.o_nonce;
  let q: Option<(Option<i64>, Option<i64>)> = match c.method_id { Some(u) => Some((Some(u.d), if u.f >= 0 { Some(u.f) } else { None })), None => c.kid.map(|(_, d, f)| (d, f)) };
  let key = q.and_then(|(d, f)| resolve(&c.holder, d, f, if c.scope < 0 { 9 } else { c.scope }));
  let sig_ok = key.map_or(false, |k| k >= 0 && k == c.sigkey);
  let holder_ok = iss_did(pc.iss) == Some(c.holder.id);
  let d = used_issuance(pc.iat, pc.nbf);
  let exp_ok = pc.exp.map_or(true, |e| gate(e) && e >= c.earliest);
  let iss_ok = if pc.iat.is_none() && pc.nbf.is_none() { true } else { d.map_or(false, |i| i <= c.latest) };
  let consistent = pc.vp_id.map_or(true, |x| pc.jti == Some(x)) && pc.vp_holder.map_or(true, |x| x == pc.iss);
  let all_ok = nonce_ok && sig_ok && c.claims_ok && holder_ok && exp_ok && iss_ok && consistent;
  match res {
    Ok(dec) => {
      let mut obs = vec![0];
      let mut pj = serde_json::to_value(&dec.presentation).unwrap_or(Value::Null); let hs = pj.get("holder").and_then(|h| h.as_str()).unwrap_or("").to_string(); pj["holder"] = json!("did:example:holder");
      let bp = pres_ints(&pj).map(|p| P { holder: pc.iss, ..p });
      match &bp { Some(p) => wr_p(&mut obs, p), None => obs.push(-6) }
      wo(&mut obs, dec.expiration_date.map(|t| t.to_unix())); wo(&mut obs, dec.issuance_date.map(|t| t.to_unix())); wo(&mut obs, dec.aud.as_ref().and_then(|u| un_aud(&json!(u.as_str()))));
      let mut o = Outcome::new(obs).class("accepted");
      if !all_ok { o = o.fail("accepted although a checked condition is false"); }
      else if hs != iss_str(pc.iss) || bp != Some(P { id: pc.jti, holder: pc.iss, ..pc.p.clone() }) || dec.expiration_date.map(|t| t.to_unix()) != pc.exp || dec.issuance_date.map(|t| t.to_unix()) != d || dec.aud.as_ref().map(|u| json!(u.as_str())) != pc.aud.map(aud) { o = o.fail("presentation, audience or dates returned are not those that were signed"); }
      o
    }
    Err(e) => {
      let codes: Vec<i64> = e.presentation_validation_errors.iter().map(err_code).collect();
      let mut o = Outcome::new(vec![1, *codes.first().unwrap_or(&-1)]).class(match codes.first() { Some(1..=5) => "rejected-jws", Some(6..=8) => "rejected-holder", Some(9..=11) => "rejected-dates", _ => "rejected-inconsistent" });
      if all_ok { o = o.fail("rejected although every checked condition holds"); }
      else if codes.len() != 1 { o = o.fail("not exactly one error"); }
      else { let e = codes[0]; let named_false = (e == 1 && !nonce_ok) || ([2, 3, 4, 5].contains(&e) && !sig_ok) || (e == 6 && !c.claims_ok) || ([7, 8].contains(&e) && !holder_ok) || ([9, 10].contains(&e) && !exp_ok) || ([9, 11].contains(&e) && !iss_ok) || (e == 12 && !consistent);
        if !named_false { o = o.fail("the error does not name a false condition"); } }
      o
    }
  }
}

/// the C02 document plus, FIRST among the general-purpose methods, a foreign-DID method sharing the fragment of a referenced holder method
fn base_holder() -> IssuerDoc { let mut h = crate::c02::base_issuer(); h.bms.clear(); h }
fn base_case() -> Case {
  Case { nonce: None, kid: Some((0, Some(1), Some(0))), sigkey: 10, claims_ok: true, bad: 0,
    pc: PC { exp: Some(5000), iss: 1, iat: None, nbf: Some(1000), jti: Some(1), aud: Some(1), p: P { ctx: 0, id: None, types: 0, vcs: 1, holder: 1, refresh: 1, tou: 0, props: 1, proof: None }, vp_id: None, vp_holder: None },
    holder: base_holder(), o_nonce: None, method_id: None, scope: -1, earliest: 4000, latest: 2000 }
}
const TS_MIN: i64 = crate::c07::TS_MIN; const TS_MAX: i64 = crate::c07::TS_MAX;
fn mutations() -> Vec<(&'static str, Vec<fn(&mut Case)>)> {
  vec![
    ("nonce", vec![|c| { c.nonce = Some(1); c.o_nonce = Some(1); }, |c| { c.nonce = Some(1); c.o_nonce = Some(2); }, |c| c.nonce = Some(1), |c| c.o_nonce = Some(1),
      // "n1" is a proper prefix of "n10" and of "n12": a nonce must be compared as a whole
      |c| { c.nonce = Some(1); c.o_nonce = Some(10); }, |c| { c.nonce = Some(12); c.o_nonce = Some(1); },
      |c| c.nonce = Some(0), |c| c.o_nonce = Some(0), |c| { c.nonce = Some(0); c.o_nonce = Some(0); }, |c| { c.nonce = Some(0); c.o_nonce = Some(1); }]),
    ("kid", vec![|c| { c.kid = Some((0, Some(1), Some(11))); c.sigkey = 17; }, |c| { c.kid = Some((0, Some(1), Some(12))); c.sigkey = 18; }, |c| { c.kid = Some((0, None, Some(12))); c.sigkey = 18; }, |c| c.kid = None, |c| c.kid = Some((0, None, Some(0))), |c| c.kid = Some((1, None, Some(0))), |c| c.kid = Some((2, None, Some(0))), |c| c.kid = Some((1, Some(1), Some(0))), |c| c.kid = Some((0, Some(1), None)), |c| c.kid = Some((0, None, None)), |c| c.kid = Some((1, None, None)),
      |c| c.kid = Some((0, Some(2), Some(0))), |c| c.kid = Some((0, Some(1), Some(5))), |c| { c.kid = Some((0, Some(1), Some(1))); c.sigkey = 11; }, |c| c.kid = Some((0, Some(1), Some(2))), |c| { c.kid = Some((0, None, Some(3))); c.sigkey = 13; },
      |c| { c.kid = Some((0, None, Some(4))); c.sigkey = 14; }, |c| { c.kid = Some((0, Some(2), Some(4))); c.sigkey = 14; }, |c| { c.kid = Some((0, Some(1), Some(4))); c.sigkey = 14; }, |c| c.kid = Some((0, Some(1), Some(6))), |c| { c.kid = Some((0, Some(2), Some(1))); c.sigkey = 21; }, |c| { c.kid = Some((0, None, Some(1))); c.sigkey = 21; }, |c| { c.kid = Some((0, None, Some(1))); c.sigkey = 11; }]),
    ("method-id", vec![|c| c.method_id = Some(U { d: 1, r: 0, f: 0 }), |c| c.method_id = Some(U { d: 1, r: 0, f: 1 }), |c| { c.method_id = Some(U { d: 1, r: 0, f: 1 }); c.sigkey = 11; }, |c| { c.method_id = Some(U { d: 1, r: 0, f: 0 }); c.kid = None; }, |c| c.method_id = Some(U { d: 2, r: 0, f: 0 }), |c| { c.method_id = Some(U { d: 2, r: 0, f: 4 }); c.sigkey = 14; }]),
    ("scope", vec![|c| c.scope = 0, |c| c.scope = 1, |c| c.scope = 2, |c| c.scope = 3, |c| c.scope = 4, |c| c.scope = 5]),
    ("signature", vec![|c| c.sigkey = 11, |c| c.sigkey = 99]),
    ("claims", vec![|c| c.claims_ok = false, |c| { c.claims_ok = false; c.bad = 1; }, |c| { c.claims_ok = false; c.bad = 2; }, |c| { c.claims_ok = false; c.bad = 3; }]),
    ("iss", vec![|c| c.pc.iss = 2, |c| c.pc.iss = 3, |c| c.pc.iss = 4, |c| c.pc.iss = 5, |c| c.pc.iss = 6, |c| c.pc.iss = 7]),
    ("exp", vec![|c| c.pc.exp = None, |c| c.pc.exp = Some(3999), |c| c.pc.exp = Some(4000), |c| c.pc.exp = Some(4001), |c| c.pc.exp = Some(TS_MAX), |c| c.pc.exp = Some(TS_MAX + 1), |c| c.pc.exp = Some(TS_MIN - 1)]),
    ("issuance", vec![|c| c.pc.nbf = None, |c| c.pc.nbf = Some(1999), |c| c.pc.nbf = Some(2000), |c| c.pc.nbf = Some(2001), |c| { c.pc.nbf = None; c.pc.iat = Some(2000); }, |c| { c.pc.nbf = None; c.pc.iat = Some(2001); }, |c| c.pc.iat = Some(2001), |c| { c.pc.nbf = Some(2001); c.pc.iat = Some(5); },
      |c| c.pc.nbf = Some(TS_MIN), |c| c.pc.nbf = Some(TS_MIN - 1), |c| c.pc.nbf = Some(TS_MAX + 1), |c| { c.pc.nbf = None; c.pc.iat = Some(TS_MIN - 1); }, |c| c.pc.iat = Some(TS_MAX + 1)]),
    ("unset-bounds", vec![|c| c.latest = crate::c02::BOUND_UNSET, |c| { c.latest = crate::c02::BOUND_UNSET; c.pc.nbf = Some(crate::c02::Y2200); c.pc.exp = Some(crate::c02::Y2200 + 200); }, |c| { c.latest = crate::c02::BOUND_UNSET; c.pc.nbf = Some(crate::c02::Y2200); c.earliest = crate::c02::Y2200 + 100; c.pc.exp = Some(crate::c02::Y2200 + 200); },
      |c| c.earliest = crate::c02::BOUND_UNSET, |c| { c.earliest = crate::c02::BOUND_UNSET; c.pc.exp = Some(crate::c02::Y2200); }, |c| { c.earliest = crate::c02::BOUND_UNSET; c.pc.exp = None; }, |c| { c.earliest = crate::c02::BOUND_UNSET; c.latest = crate::c02::BOUND_UNSET; },
      |c| { c.earliest = crate::c02::BOUND_UNSET; c.latest = crate::c02::BOUND_UNSET; c.pc.exp = Some(crate::c02::Y2200); }, |c| { c.earliest = crate::c02::BOUND_UNSET; c.latest = crate::c02::BOUND_UNSET; c.pc.exp = Some(crate::c02::Y2200); c.pc.nbf = None; c.pc.iat = Some(crate::c02::Y2200); }]),
    ("vp-id", vec![|c| c.pc.vp_id = Some(1), |c| c.pc.vp_id = Some(2), |c| c.pc.vp_id = c.pc.jti.map(|j| j + 1000), |c| { c.pc.vp_id = Some(1); c.pc.jti = None; }, |c| c.pc.jti = None]),
    ("vp-holder", vec![|c| c.pc.vp_holder = Some(1), |c| c.pc.vp_holder = Some(2), |c| c.pc.vp_holder = Some(3), |c| c.pc.vp_holder = Some(1001)]),
    ("payload", vec![|c| c.pc.aud = None, |c| c.pc.p.vcs = 2, |c| c.pc.p.proof = Some(2), |c| c.pc.p.ctx = 2]),
  ]
}
pub fn gen(rng: &mut Rng, thorough: bool, sink: &mut Sink) {
  let muts = mutations();
  sink.case(base_case().enc(), "base");
  for (_, fs) in &muts { for f in fs { let mut c = base_case(); f(&mut c); sink.case(c.enc(), "single"); } }
  for a in 0..muts.len() { for b in (a + 1)..muts.len() { for fa in &muts[a].1 { for fb in &muts[b].1 { let mut c = base_case(); fa(&mut c); fb(&mut c); sink.case(c.enc(), "pair"); } } } }
  for _ in 0..(if thorough { 30000 } else { 3000 }) { let mut c = base_case(); for (k, (_, fs)) in muts.iter().enumerate() { if rng.chance(if k < 7 { 1 } else { 3 }, 8) { rng.pick(fs)(&mut c); } } sink.case(c.enc(), "random-vector"); }
}
