//! C12 — StatusList2021 against the bit-vector model.
//! kinds: 1 per-byte table row (len b o v)   2 list op sequence (n, ops: 0 i v = set | 1 i = get)
//!        3 credential op sequence (purpose n ops: 0 i v = set_credential_status | 1 i v = update(set_entry) | 2 i = entry | 3 k (i v)*k = update(best-effort batch) | 4 k (i v)*k = update(batch with ?))
//!        4 validator row (list_purpose entry_purpose id_match index bit_set mode has_status parses)
use crate::common::*;
use flate2::read::GzDecoder;
use flate2::write::GzEncoder;
use flate2::Compression;
use identity_core::common::Url;
use identity_core::convert::{Base, BaseEncoding};
use identity_credential::credential::{Credential, CredentialBuilder, Issuer, Status, Subject};
use identity_credential::revocation::status_list_2021::*;
use identity_credential::validator::{JwtCredentialValidatorUtils, JwtValidationError, StatusCheck};
use std::io::{Read, Write};

fn encode_bytes(bytes: &[u8]) -> String {
  let mut c = GzEncoder::new(vec![], Compression::best());
  c.write_all(bytes).unwrap();
  BaseEncoding::encode(&c.finish().unwrap()[..], Base::Base64)
}
fn decode_bytes(s: &str) -> Option<Vec<u8>> {
  let z = BaseEncoding::decode(s, Base::Base64).ok()?;
  let mut d = GzDecoder::new(&z[..]);
  let mut out = vec![];
  d.read_to_end(&mut out).ok()?;
  Some(out)
}
/// the list's bytes read entry by entry (no codec involved)
fn bytes_of_raw(l: &StatusList2021) -> Vec<u8> { (0..l.len() / 8).map(|j| (0..8).fold(0u8, |a, b| a | ((l.get(j * 8 + b).unwrap_or(false) as u8) << (7 - b)))).collect() }
fn gz_of(bytes: &[u8]) -> Vec<u8> { let mut c = GzEncoder::new(vec![], Compression::best()); c.write_all(bytes).unwrap(); c.finish().unwrap() }
fn gunzip_of(z: &[u8]) -> Option<Vec<u8>> { let mut d = GzDecoder::new(z); let mut out = vec![]; d.read_to_end(&mut out).ok()?; Some(out) }
fn bytes_of(l: &StatusList2021) -> Vec<u8> { decode_bytes(&l.clone().into_encoded_str()).unwrap() }
fn sparse(bytes: &[u8], obs: &mut Vec<i64>) {
  let nz: Vec<(usize, u8)> = bytes.iter().cloned().enumerate().filter(|(_, b)| *b != 0).collect();
  obs.push(nz.len() as i64);
  for (i, b) in nz { obs.push(i as i64); obs.push(b as i64); }
}
fn roundtrip_ok(l: &StatusList2021) -> bool {
  matches!(StatusList2021::try_from_encoded_str(&l.clone().into_encoded_str()), Ok(ref d) if d == l)
}

fn make_cred(purpose: StatusPurpose, list: StatusList2021, id: &str) -> StatusList2021Credential {
  let url = Url::parse(id).unwrap();
  StatusList2021CredentialBuilder::new(list).issuer(Issuer::Url(url.clone())).purpose(purpose).subject_id(url).build().unwrap()
}
fn cred_bytes(c: &StatusList2021Credential) -> Vec<u8> {
  let v = serde_json::to_value(c).unwrap();
  decode_bytes(v["credentialSubject"]["encodedList"].as_str().unwrap()).unwrap()
}
fn some_credential() -> Credential {
  CredentialBuilder::default()
    .issuer(Issuer::Url(Url::parse("did:example:issuer").unwrap()))
    .subject(Subject::with_id(Url::parse("did:example:subject").unwrap()))
    .build().unwrap()
}

pub fn exec(case: &[i64]) -> Outcome {
  let v = &case[1..];
  match case[0] {
    1 => {
      let (len, b, o, val) = (v[0] as usize, v[1] as u8, v[2] as usize, v[3] != 0);
      let mut bytes = vec![0u8; len]; bytes[0] = b;
      let mut l = StatusList2021::try_from_encoded_str(&encode_bytes(&bytes)).unwrap();
      let before: Vec<bool> = (0..8 * len).map(|i| l.get(i).unwrap()).collect();
      match l.set(o, val) {
        Err(_) => Outcome::new(vec![0, 1]).class("byte-err").fail("in-range set refused"),
        Ok(()) => {
          let mut obs = vec![1];
          let mut why = None;
          for i in 0..(8 * len).min(16) { obs.push(l.get(i).unwrap() as i64); }
          for i in 0..8 * len {
            let g = l.get(i).unwrap();
            if i == o && g != val { why = Some("read does not return the written value"); }
            if i != o && g != before[i] { why = Some("write changed another entry"); }
          }
          if l.len() != 8 * len { why = Some("length changed"); }
          if !roundtrip_ok(&l) { why = Some("encoded form does not decode to the identical list"); }
          sparse(&bytes_of(&l), &mut obs);
          let o2 = Outcome::new(obs).class("byte");
          match why { Some(w) => o2.fail(w), None => o2 }
        }
      }
    }
    2 => {
      let n = v[0];
      let mut ops = &v[1..];
      let mut l = match StatusList2021::new(n as usize) {
        Err(_) => { let o = Outcome::new(vec![0]).class("new-err").trivial(); return if n >= 131072 { o.fail("new refused a permitted size") } else { o } }
        Ok(l) => l,
      };
      let mut why: Option<String> = None;
      if n < 131072 { why = Some("new accepted a list below the minimum size".into()); }
      let len = l.len();
      if len < n as usize || len >= n as usize + 8 { why = Some("unexpected length".into()); }
      let mut reference = vec![false; len];
      let mut obs = vec![1, len as i64];
      let (mut wrote, mut oob) = (false, false);
      while !ops.is_empty() {
        if ops[0] == 0 {
          let (i, val) = (ops[1], ops[2] != 0); ops = &ops[3..];
          match l.set(i as usize, val) {
            Ok(()) => { obs.push(1); if (i as usize) < len { reference[i as usize] = val; wrote = true; } else { why = Some(format!("out-of-range set({}) accepted", i)); } }
            Err(e) => { obs.push(0); oob = true; if (i as usize) < len { why = Some(format!("in-range set({}) refused", i)); } if e != StatusListError::IndexOutOfBounds { why = Some("wrong error".into()); } }
          }
        } else {
          let i = ops[1]; ops = &ops[2..];
          match l.get(i as usize) {
            Ok(b) => { obs.push(1); obs.push(b as i64); if (i as usize) >= len { why = Some(format!("out-of-range get({}) accepted", i)); } else if b != reference[i as usize] { why = Some(format!("get({}) differs from last write", i)); } }
            Err(_) => { obs.push(0); oob = true; if (i as usize) < len { why = Some(format!("in-range get({}) refused", i)); } }
          }
        }
        if l.len() != len { why = Some("length changed".into()); }
      }
      // every entry against the reference bit vector, and the encode/decode round trip
      for i in 0..len { if l.get(i).unwrap() != reference[i] { why.get_or_insert(format!("entry {} differs from the bit-vector model", i)); break; } }
      if !roundtrip_ok(&l) { why = Some("encoded form does not decode to the identical list".into()); }
      sparse(&bytes_of(&l), &mut obs);
      let mut o = Outcome::new(obs).class("list-seq");
      if !(wrote && oob) { o = o.trivial(); }
      match why { Some(w) => o.fail(&w), None => o }
    }
    3 => {
      let purpose = if v[0] == 0 { StatusPurpose::Revocation } else { StatusPurpose::Suspension };
      let n = v[1];
      let mut ops = &v[2..];
      let list = match StatusList2021::new(n as usize) { Ok(l) => l, Err(_) => return Outcome::new(vec![0]).class("new-err").trivial() };
      let len = list.len();
      let mut c = make_cred(purpose, list, "https://example.com/status/3");
      let mut reference = vec![false; len];
      let mut obs = vec![1];
      let mut why: Option<String> = None;
      let (mut refused, mut cleared) = (false, false);
      let code = |e: &StatusList2021CredentialError| match e {
        StatusList2021CredentialError::StatusListError(StatusListError::IndexOutOfBounds) => 1,
        StatusList2021CredentialError::UnreversibleRevocation => 2,
        _ => 3,
      };
      while !ops.is_empty() {
        if ops[0] == 2 {
          let i = ops[1]; ops = &ops[2..];
          match c.entry(i as usize) {
            Ok(CredentialStatus::Valid) => { obs.push(10); if (i as usize) < len && reference[i as usize] { why = Some(format!("entry {} reads valid although set", i)); } }
            Ok(CredentialStatus::Revoked) => { obs.push(11); if !((i as usize) < len && reference[i as usize] && purpose == StatusPurpose::Revocation) { why = Some(format!("entry {} wrongly revoked", i)); } }
            Ok(CredentialStatus::Suspended) => { obs.push(12); if !((i as usize) < len && reference[i as usize] && purpose == StatusPurpose::Suspension) { why = Some(format!("entry {} wrongly suspended", i)); } }
            Err(e) => { obs.push(code(&e)); if (i as usize) < len { why = Some("in-range entry refused".into()); } }
          }
        } else if ops[0] == 3 || ops[0] == 4 {
          // one update() call over a batch of writes: 3 = best effort (every refusal swallowed, closure returns Ok), 4 = the first refusal is propagated with `?`
          let swallow = ops[0] == 3; let n = ops[1] as usize; let batch: Vec<(i64, bool)> = (0..n).map(|k| (ops[2 + 2 * k], ops[3 + 2 * k] != 0)).collect(); ops = &ops[2 + 2 * n..];
          let r = c.update(|l| { for (i, v) in &batch { let w = l.set_entry(*i as usize, *v); if !swallow { w?; } } Ok(()) });
          // what the statement demands: every write that is neither out of range nor the clearing of a set revocation entry takes effect, the others change nothing
          let mut want = reference.clone(); let mut first_refusal: Option<i64> = None;
          for (i, v) in &batch { let ok = (*i as usize) < len && !(purpose == StatusPurpose::Revocation && want[*i as usize] && !*v); if ok { want[*i as usize] = *v; } else if first_refusal.is_none() { first_refusal = Some(if (*i as usize) >= len { 1 } else { 2 }); if !swallow { break; } } }
          match r {
            Ok(()) => { obs.push(0); if !swallow && first_refusal.is_some() { why = Some("a batch containing a refused write was committed".into()); } if want.iter().zip(reference.iter()).any(|(a, b)| !*a && *b) { cleared = true; } reference = want; }
            Err(e) => { obs.push(code(&e)); refused = true; if swallow || first_refusal.is_none() { why = Some(format!("batch refused: {:?}", e)); } }
          }
        } else {
          let (route, i, val) = (ops[0], ops[1], ops[2] != 0); ops = &ops[3..];
          let r = if route == 0 {
            let mut target = some_credential();
            c.set_credential_status(&mut target, i as usize, val).map(|_| ())
          } else {
            c.update(|l| l.set_entry(i as usize, val))
          };
          match r {
            Ok(()) => {
              obs.push(0);
              if (i as usize) >= len { why = Some("out-of-range write accepted".into()); }
              else {
                if purpose == StatusPurpose::Revocation && reference[i as usize] && !val { why = Some(format!("revocation of entry {} was cleared", i)); }
                if reference[i as usize] && !val { cleared = true; }
                reference[i as usize] = val;
              }
            }
            Err(e) => {
              obs.push(code(&e)); refused = true;
              let expect_unrev = (i as usize) < len && purpose == StatusPurpose::Revocation && reference[i as usize] && !val;
              if (i as usize) < len && !expect_unrev { why = Some(format!("write to entry {} refused: {:?}", i, e)); }
            }
          }
        }
        // one-way revocation + independence, checked against the reference after every step
        let bytes = cred_bytes(&c);
        for (k, r) in reference.iter().enumerate() { if ((bytes[k / 8] >> (7 - k % 8)) & 1 == 1) != *r { why.get_or_insert(format!("entry {} differs from the bit-vector model after a step", k)); break; } }
      }
      sparse(&cred_bytes(&c), &mut obs);
      // JSON round trip of the status-list credential keeps the list
      let back: Result<StatusList2021Credential, _> = serde_json::from_value(serde_json::to_value(&c).unwrap());
      if !matches!(&back, Ok(b) if *b == c) { why = Some("status list credential does not survive its JSON round trip".into()); }
      let mut o = Outcome::new(obs).class(if purpose == StatusPurpose::Revocation { "cred-revocation" } else { "cred-suspension" });
      if !(refused || cleared) { o = o.trivial(); }
      match why { Some(w) => o.fail(&w), None => o }
    }
    4 => {
      let pur = |z: i64| if z == 0 { StatusPurpose::Revocation } else { StatusPurpose::Suspension };
      let (lp, ep, idm, idx, setbit, mode, has, parses) = (pur(v[0]), pur(v[1]), v[2] != 0, v[3] as usize, v[4] != 0, v[5], v[6] != 0, v[7] != 0);
      let mut list = StatusList2021::default();
      if setbit { list.set(idx, true).unwrap(); }
      let slc = make_cred(lp, list, "https://example.com/status/3");
      let mut cred = some_credential();
      if has {
        let url = Url::parse(if idm { "https://example.com/status/3" } else { "https://example.com/status/4" }).unwrap();
        let entry = StatusList2021Entry::new(url, ep, idx, None);
        let mut st: Status = entry.into();
        if !parses { st.type_ = "SomethingElse2021".into(); }
        cred.credential_status = Some(st);
      }
      let m = match mode { 0 => StatusCheck::Strict, 1 => StatusCheck::SkipUnsupported, _ => StatusCheck::SkipAll };
      let r = JwtCredentialValidatorUtils::check_status_with_status_list_2021(&cred, &slc, m);
      let obs = match &r { Ok(()) => 0, Err(JwtValidationError::Revoked) => 1, Err(JwtValidationError::Suspended) => 2, Err(_) => 3 };
      let expect_flagged = mode != 2 && has && parses && idm && lp == ep && setbit;
      let flagged = obs == 1 || obs == 2;
      let mut o = Outcome::new(vec![obs]).class("validator");
      if flagged != expect_flagged { o = o.fail("revoked/suspended report differs from 'entry set in a list of the matching purpose'"); }
      if flagged && (obs == 1) != (lp == StatusPurpose::Revocation) { o = o.fail("wrong status kind reported"); }
      if !has || mode == 2 { o = o.trivial(); }
      o
    }
    // 5: a DENSE list (entries set by a fixed pseudo-random rule, so the gzip stream is long): [5, n, a, b] sets entry i when a 64-bit mix of i * a + b is odd.
    //    Oracle only: the encoded form decodes to the identical list; reading back every entry gives the rule
    5 => {
      let (n, a, b) = (v[0] as usize, v[1] as u64, v[2] as u64);
      let mut l = match StatusList2021::new(n) { Ok(l) => l, Err(_) => return Outcome::new(vec![-5555]).class("dense-new-err").trivial() };
      let rule = |i: usize| { let mut z = (i as u64).wrapping_mul(a).wrapping_add(b).wrapping_add(0x9E3779B97F4A7C15); z = (z ^ (z >> 30)).wrapping_mul(0xBF58476D1CE4E5B9); z = (z ^ (z >> 27)).wrapping_mul(0x94D049BB133111EB); (z ^ (z >> 31)) & 1 == 1 };
      for i in 0..l.len() { if rule(i) { if l.set(i, true).is_err() { return Outcome::new(vec![-5555]).class("dense").fail("in-range set refused"); } } }
      let enc = l.clone().into_encoded_str();
      let mut o = Outcome::new(vec![-5555]).class("dense");
      match StatusList2021::try_from_encoded_str(&enc) {
        Err(_) => { o = o.fail("a list does not decode from its own encoded form"); }
        Ok(d) => { if d.len() != l.len() { o = o.fail("the decoded list has another length than the encoded one"); } else if d != l { o = o.fail("the decoded list differs from the encoded one"); }
                   else { for i in (0..d.len()).step_by(997).chain(d.len().saturating_sub(64)..d.len()) { if d.get(i).ok() != Some(rule(i)) { o = o.fail("an entry of the decoded list differs from what was written"); break; } } } }
      }
      o
    }
    // 6: the text of an encoded list: [6, <LP gzip bytes as the harness's own GzEncoder gives them>, n, k, (index).. k times] -> the text into_encoded_str returns
    //    (the model Base64-encodes the recorded gzip bytes: standard alphabet, no padding)
    6 => {
      let mut v = v;
      let gz = take_bytes(&mut v).unwrap(); let n = take1(&mut v).unwrap() as usize; let k = take1(&mut v).unwrap();
      let mut l = match StatusList2021::new(n) { Ok(l) => l, Err(_) => return Outcome::new(vec![-7]).class("encode-new-err").trivial() };
      for _ in 0..k { let i = take1(&mut v).unwrap() as usize; let _ = l.set(i, true); }
      let text = l.clone().into_encoded_str();
      let mut obs = vec![]; put_bytes(&mut obs, text.as_bytes());
      let mut o = Outcome::new(obs).class("encoded-text");
      if BaseEncoding::decode(&text, Base::Base64).ok().as_deref() != Some(&gz[..]) { o = o.fail("the encoded text is not the Base64 (standard alphabet, no padding) of the gzip stream of the list"); }
      if !matches!(StatusList2021::try_from_encoded_str(&text), Ok(ref d) if *d == l) { o = o.fail("the encoded form does not decode to the identical list"); }
      o
    }
    // 7: a text handed to try_from_encoded_str: [7, <LP text>, inflates, <LP inflated bytes>] -> 0 len first-bytes.. | 1
    7 => {
      let mut v = v;
      let text = String::from_utf8_lossy(&take_bytes(&mut v).unwrap()).to_string();
      match StatusList2021::try_from_encoded_str(&text) {
        Ok(l) => { let b = bytes_of_raw(&l); let mut obs = vec![0, b.len() as i64]; obs.extend(b.iter().take(16).map(|x| *x as i64)); Outcome::new(obs).class("text-decoded") }
        Err(_) => Outcome::new(vec![1]).class("text-rejected"),
      }
    }
    _ => Outcome::new(vec![-998]).fail("bad case kind"),
  }
}

pub fn gen(rng: &mut Rng, thorough: bool, sink: &mut Sink) {
  // (a) the full per-byte table: 256 bytes x 8 offsets x 2 values, through the public API
  for b in 0..256 { for o in 0..8 { for val in 0..2 { sink.case(vec![1, 2, b, o, val], "byte-table"); } } }
  // second byte of a 3-byte list as well (offset 8..15 hits byte 1 which is 0): writes next to a full byte
  for o in 8..16 { for val in 0..2 { sink.case(vec![1, 3, 255, o, val], "byte-neighbour"); } }
  // (b) validator decision table
  for lp in 0..2 { for ep in 0..2 { for idm in 0..2 { for setbit in 0..2 { for mode in 0..3 { for has in 0..2 { for parses in 0..2 {
    for idx in [0i64, 7, 8, 131071] { sink.case(vec![4, lp, ep, idm, idx, setbit, mode, has, parses], "validator-table"); }
  } } } } } } }
  // (c) constructor sizes
  for n in [0i64, 1, 131071, 131072, 131073, 131079, 131080, 131081, 1 << 20, (1 << 20) + 1, (1 << 20) + 9, 1 << 21, 3_000_001, (8 << 20) - 8, 8 << 20, (8 << 20) + 1, (8 << 20) + 9, 10_000_001, 1 << 24] { sink.case(vec![2, n, 1, n - 1, 1, n, 1, n + 7, 1, n + 8, 0, n - 1, 1, 0, n + 8, 1], "sizes"); }
  // (c') dense lists of several sizes (long compressed streams)
  for (n, a, b) in [(131072i64, 2654435761i64, 12345i64), (600_000, 2654435761, 7), (1 << 20, 40503, 99), (1_048_583, 2246822519, 3), (3_000_001, 2654435761, 1)] { sink.case(vec![5, n, a, b], "dense-list"); }
  // (c'') the encoded text (kind 6) and texts handed to the decoder (kind 7): Base64 is the model's, gzip is recorded
  for (n, idxs) in [(131072usize, vec![]), (131072, vec![0]), (131072, vec![7, 8, 131071]), (131073, vec![1, 2, 3, 131079]), (200000, vec![5, 77777, 199999]), (131072, (0..400).map(|i| (i * 331) % 131072).collect::<Vec<usize>>())] {
    let mut l = StatusList2021::new(n).unwrap(); for i in &idxs { let _ = l.set(*i, true); }
    let gz = gz_of(&bytes_of_raw(&l)); let mut c = vec![6]; put_bytes(&mut c, &gz); c.push(n as i64); c.push(idxs.len() as i64); c.extend(idxs.iter().map(|i| *i as i64)); sink.case(c, "encoded-text");
    let text = BaseEncoding::encode(&gz[..], Base::Base64);
    let mut variants: Vec<String> = vec![text.clone(), format!("{text}="), format!("{text}=="), text[..text.len() - 1].to_string(), text[..text.len() - 2].to_string(), text.replace('+', "-").replace('/', "_"), format!(" {text}"), format!("{text}\n"), text.to_lowercase(), String::new(), "A".into(), "AA".into(), "AAA".into(), "AAAA".into(), "!!!!".into(), "H4sI".into()];
    { let mut b = text.clone().into_bytes(); let last = b.len() - 1; b[last] = if b[last] == b'A' { b'B' } else { b'A' }; variants.push(String::from_utf8(b).unwrap()); }
    for t in variants { let z = BaseEncoding::decode(&t, Base::Base64).ok(); let inflated = z.as_deref().and_then(gunzip_of);
      // the model gets: the text, and for the bytes ITS Base64 decoder should produce, what gzip makes of them (recorded for the harness's own decoding; a disagreement about the bytes shows as a difference)
      let mut c = vec![7]; put_bytes(&mut c, t.as_bytes()); match (&z, &inflated) { (Some(zb), Some(inf)) => { c.push(1); put_bytes(&mut c, zb); put_bytes(&mut c, inf); } (Some(zb), None) => { c.push(2); put_bytes(&mut c, zb); put_bytes(&mut c, &[]); } _ => { c.push(0); put_bytes(&mut c, &[]); put_bytes(&mut c, &[]); } }
      sink.case(c, "text-to-decode"); }
  }
  // (d) write sequences clustered inside bytes and at both ends
  let nseq = if thorough { 6000 } else { 600 };
  for k in 0..nseq {
    let n: i64 = *rng.pick(&[131072, 131073, 131075, 131080, 131081, 131072 + 9, if thorough && k % 50 == 0 { 1 << 20 } else { 131072 }]);
    let len = ((n + 7) / 8) * 8;
    let rb = rng.range(0, len / 8 - 2) * 8;
    let base = *rng.pick(&[0, 8, len - 16, len - 8, rb]);
    let mut c = vec![2, n];
    let nops = rng.range(4, 60);
    for _ in 0..nops {
      let i = match rng.below(10) { 0 => len + rng.range(0, 9), 1 => rng.range(0, len - 1), 2 => len - 1, _ => base + rng.range(0, 15) };
      if rng.chance(2, 3) { c.extend([0, i, rng.range(0, 1)]); } else { c.extend([1, i]); }
    }
    sink.case(c, "list-seq");
  }
  // (e) credential-level histories, both purposes, both public write routes
  let ncred = if thorough { 2500 } else { 250 };
  for kc in 0..ncred {
    let p = rng.range(0, 1);
    // two histories per run on a list above 1 MiB (every credential write decodes and re-encodes the whole list)
    let n = if kc < 2 { (8i64 << 20) + 9 } else { *rng.pick(&[131072i64, 131073, 131081]) };
    let len = ((n + 7) / 8) * 8;
    let rb = rng.range(0, len / 8 - 2) * 8;
    let base = *rng.pick(&[0, len - 16, rb]);
    let mut c = vec![3, p, n];
    for _ in 0..rng.range(3, 14) {
      let i = if rng.chance(1, 10) { len + rng.range(0, 3) } else { base + rng.range(0, 11) };
      match rng.below(7) { 0 => c.extend([2, i]), 1 | 2 => c.extend([0, i, rng.range(0, 1)]), 3 | 4 => c.extend([1, i, rng.range(0, 1)]),
        t => { let n = rng.range(1, 4); c.extend([if t == 5 { 3 } else { 4 }, n]); for _ in 0..n { let j = if rng.chance(1, 8) { len + rng.range(0, 3) } else { base + rng.range(0, 11) }; c.extend([j, if rng.chance(3, 5) { 0 } else { 1 }]); } } }
    }
    sink.case(c, "cred-seq");
  }
  // the minimal one-way-revocation histories of finding F1/F2, always run
  sink.case(vec![3, 0, 131072, 0, 0, 1, 0, 1, 0, 2, 0, 2, 1], "cred-f2");
  // best-effort and all-or-nothing batches over a set revocation entry, both purposes
  for p in 0..2 { for t in [3i64, 4] { sink.case(vec![3, p, 131072, 1, 5, 1, t, 1, 5, 0, 2, 5], "cred-batch"); sink.case(vec![3, p, 131072, 0, 5, 1, t, 3, 6, 1, 5, 0, 7, 1, 2, 5, 2, 6, 2, 7], "cred-batch"); sink.case(vec![3, p, 131072, t, 2, 131072, 1, 3, 1, 2, 3], "cred-batch"); } }
  sink.case(vec![2, 131072, 0, 0, 1, 0, 1, 1, 0, 2, 1, 0, 1, 0, 1, 0, 1, 1, 1, 2, 1, 131072], "list-f1-f3");
}
