//! C01 (decode + verify) and C08 (encode -> decode, storage-backed signing) against the JWS model.
//! case: kind ntable (<lp json> parses <hdr> algv)* ...     see coq/theories/Run/JwsRun.v
//!  1 compact decode   2 flattened decode   3 general decode   4 compact encode+decode
//!  5 flattened encode+decode   6 general encode+decode   7 storage-backed create_jws/verify_jws (oracle only)
//!  8 real-key verification of a token and of its single-bit mutants (oracle only)
use crate::c11::{self, H};
use crate::common::*;
use identity_jose::jwk::Jwk;
use identity_jose::jws::*;
use identity_jose::jwu::{decode_b64, encode_b64};
use serde_json::{json, Map, Value};
use std::cell::RefCell;
use std::rc::Rc;

/// 1..4 registered JWS names; 5..7 values a JWK may pin that are NOT JWS algorithm names (a key pinned to one of them must verify nothing)
const ALGS: &[&str] = &["", "EdDSA", "ES256", "ES256K", "HS256", "ECDH-ES", "eddsa", ""];
fn alg_id(a: JwsAlgorithm) -> i64 { ALGS.iter().position(|n| *n == a.name()).map(|i| i as i64).unwrap_or(9) }

#[derive(Clone, Debug)]
pub struct Entry { pub json: Vec<u8>, pub parses: bool, pub h: Option<H>, pub algv: i64, pub value: Option<JwsHeader> }

fn name_id(n: &str) -> i64 { c11::NAMES.iter().find(|(_, s)| *s == n).map(|(i, _)| *i).unwrap_or(999) }
pub fn describe(hd: &JwsHeader) -> (H, i64) {
  let v = serde_json::to_value(hd).unwrap_or(Value::Null);
  let common: Vec<i64> = (3..=13).filter(|i| hd.has(c11::name(*i)) && !hd.custom().map(|c| c.contains_key(c11::name(*i))).unwrap_or(false) || (v.get(c11::name(*i)).is_some() && hd.deref_has(*i))).collect();
  let custom = hd.custom().map(|c| { let mut k: Vec<i64> = c.keys().map(|k| name_id(k)).collect(); k.sort(); k });
  let custom = match custom { Some(k) if k.is_empty() => None, x => x };
  (H { alg: hd.alg().is_some(), b64: hd.b64(), crit: hd.crit().map(|c| c.iter().map(|n| name_id(n)).collect()), common, custom }, hd.alg().map(alg_id).unwrap_or(-1))
}
trait DerefHas { fn deref_has(&self, id: i64) -> bool; }
impl DerefHas for JwsHeader {
  fn deref_has(&self, id: i64) -> bool {
    match id { 3 => self.jku().is_some(), 4 => self.jwk().is_some(), 5 => self.kid().is_some(), 6 => self.x5u().is_some(), 7 => self.x5c().is_some(), 8 => self.x5t().is_some(),
      9 => self.x5t_s256().is_some(), 10 => self.typ().is_some(), 11 => self.cty().is_some(), 12 => self.url().is_some(), 13 => self.nonce().is_some(), _ => false }
  }
}
fn describe_fields(hd: &JwsHeader) -> (H, i64) {
  let common: Vec<i64> = (3..=13).filter(|i| hd.deref_has(*i)).collect();
  let custom = hd.custom().map(|c| { let mut k: Vec<i64> = c.keys().map(|k| name_id(k)).collect(); k.sort(); k });
  let custom = match custom { Some(k) if k.is_empty() => None, x => x };
  (H { alg: hd.alg().is_some(), b64: hd.b64(), crit: hd.crit().map(|c| c.iter().map(|n| name_id(n)).collect()), common, custom }, hd.alg().map(alg_id).unwrap_or(-1))
}
pub fn describe_fields_pub(hd: &JwsHeader) -> H { describe_fields(hd).0 }
pub fn entry_from_json(text: &[u8]) -> Entry {
  match serde_json::from_slice::<JwsHeader>(text) {
    Ok(v) => { let (h, a) = describe_fields(&v); Entry { json: text.to_vec(), parses: true, h: Some(h), algv: a, value: Some(v) } }
    Err(_) => Entry { json: text.to_vec(), parses: false, h: None, algv: -1, value: None },
  }
}
pub fn entry_from_value(v: &JwsHeader) -> Entry {
  let js = serde_json::to_vec(v).unwrap();
  let parses = matches!(serde_json::from_slice::<JwsHeader>(&js), Ok(ref b) if b == v);
  let (h, a) = describe_fields(v);
  Entry { json: js, parses, h: Some(h), algv: a, value: Some(v.clone()) }
}
/// index of a header value in the table (added if missing); a value that serde does not give back
/// unchanged gets a second entry for what its JSON text really parses to
fn push_value(tab: &mut Vec<Entry>, v: &JwsHeader) -> i64 {
  if let Some(i) = tab.iter().position(|e| e.value.as_ref() == Some(v) && e.json == serde_json::to_vec(v).unwrap()) { return i as i64; }
  let e = entry_from_value(v);
  let idx = tab.len() as i64;
  let (js, parses) = (e.json.clone(), e.parses);
  tab.push(e);
  if !parses { let back = entry_from_json(&js); if back.parses { tab.push(back); } }
  idx
}
fn put_table(c: &mut Vec<i64>, tab: &[Entry]) {
  c.push(tab.len() as i64);
  for e in tab { put_bytes(c, &e.json); c.push(e.parses as i64); c11::put_hdr(c, e.h.as_ref()); c.push(e.algv); }
}
fn take_table(v: &mut &[i64]) -> Vec<Entry> {
  let n = take1(v).unwrap() as usize;
  (0..n).map(|_| { let js = take_bytes(v).unwrap(); let parses = take1(v).unwrap() != 0; let h = c11::take_hdr(v); let a = take1(v).unwrap();
    let value = if parses { serde_json::from_slice::<JwsHeader>(&js).ok() } else { None };
    // headers that cannot be expressed in JSON (custom key named like a field) are rebuilt from the description
    let value = match (&value, &h) { (None, Some(hh)) if hh.custom.as_ref().map(|k| k.iter().any(|i| *i < 14)).unwrap_or(false) => rebuild(hh, a), _ => value };
    Entry { json: js, parses, h, algv: a, value } }).collect()
}
fn rebuild(h: &H, algv: i64) -> Option<JwsHeader> {
  let mut v = c11::hdr_value(h)?;
  if algv > 0 { v.set_alg(serde_json::from_value::<JwsAlgorithm>(json!(ALGS[algv as usize])).ok()?); }
  Some(v)
}
fn take_opt(v: &mut &[i64]) -> Option<Vec<u8>> { let f = take1(v).unwrap() != 0; let b = take_bytes(v).unwrap(); if f { Some(b) } else { None } }
fn put_opt(c: &mut Vec<i64>, o: Option<&[u8]>) { c.push(o.is_some() as i64); put_bytes(c, o.unwrap_or(&[])); }
fn take_idx(v: &mut &[i64]) -> Option<usize> { let i = take1(v).unwrap(); if i < 0 { None } else { Some(i as usize) } }

fn key_with_alg(kalg: i64) -> Jwk {
  let mut k: Jwk = serde_json::from_value(json!({"kty": "OKP", "crv": "Ed25519", "x": "11qYAYKxCrfVS_7TyWQHOg7hcvPapiMlrwIaaPcHURo"})).unwrap();
  if kalg > 0 { k.set_alg(ALGS[kalg as usize]); }
  k
}

type Seen = Rc<RefCell<Option<(i64, Vec<u8>, Vec<u8>)>>>;
fn index_of(tab: &[Entry], h: Option<&JwsHeader>) -> i64 { match h { None => -1, Some(h) => tab.iter().position(|e| e.value.as_ref() == Some(h)).map(|i| i as i64).unwrap_or(-2) } }

/// observation of a decoded item + scripted verification; also the direct property oracle
fn item_obs(tab: &[Entry], it: JwsValidationItem<'_>, kalg: i64, vbit: bool, expect_si: &[u8], expect_payload: Option<&[u8]>, obs: &mut Vec<i64>) -> Option<String> {
  let mut why: Option<String> = None;
  let (si, sg, claims) = (it.signing_input().to_vec(), it.decoded_signature().to_vec(), it.claims().to_vec());
  obs.push(1); put_bytes(obs, &si); put_bytes(obs, &sg); put_bytes(obs, &claims);
  let p = it.protected_header().cloned(); let u = it.unprotected_header().cloned();
  obs.push(index_of(tab, p.as_ref())); obs.push(index_of(tab, u.as_ref()));
  if si != expect_si { why = Some("signing input is not protected-as-received + '.' + payload-as-received".into()); }
  if let Some(pl) = expect_payload {
    let b64 = p.as_ref().and_then(|h| h.b64()).unwrap_or(true);
    let want = if b64 { decode_b64(pl).ok() } else { Some(pl.to_vec()) };
    if want.as_deref() != Some(&claims[..]) { why = Some("claims are not the signed payload (base64url-decoded unless b64=false)".into()); }
  }
  let seen: Seen = Rc::new(RefCell::new(None));
  let s2 = seen.clone();
  let verifier = JwsVerifierFn::from(move |i: VerificationInput, _k: &Jwk| {
    *s2.borrow_mut() = Some((alg_id(i.alg), i.signing_input.to_vec(), i.decoded_signature.to_vec()));
    if vbit { Ok(()) } else { Err(SignatureVerificationErrorKind::InvalidSignature.into()) }
  });
  let r = it.verify(&verifier, &key_with_alg(kalg));
  let called = seen.borrow().is_some();
  obs.push(called as i64); obs.push(r.is_ok() as i64);
  let palg = p.as_ref().and_then(|h| h.alg()).map(alg_id);
  if let Some((a, m, s)) = seen.borrow().clone() {
    if m != si || s != sg { why = Some("verifier was handed other bytes than the item's signing input / signature".into()); }
    if Some(a) != palg { why = Some("verifier was handed an algorithm other than the protected header's".into()); }
  }
  let should = palg.is_some() && (kalg <= 0 || Some(kalg) == palg) && vbit;
  if r.is_ok() != should { why = Some(format!("reported verified = {} but protected alg / key alg pin / verifier answer say {}", r.is_ok(), should)); }
  if let Ok(d) = &r { if d.claims.as_ref() != &claims[..] { why = Some("verified claims differ from the decoded claims".into()); } }
  why
}

fn json_env(payload: Option<&[u8]>, protected: Option<&[u8]>, header: Option<&JwsHeader>, signature: &[u8]) -> Option<Map<String, Value>> {
  let mut m = Map::new();
  if let Some(p) = payload { m.insert("payload".into(), json!(String::from_utf8(p.to_vec()).ok()?)); }
  if let Some(p) = protected { m.insert("protected".into(), json!(String::from_utf8(p.to_vec()).ok()?)); }
  if let Some(h) = header { m.insert("header".into(), serde_json::to_value(h).ok()?); }
  m.insert("signature".into(), json!(String::from_utf8(signature.to_vec()).ok()?));
  Some(m)
}
fn needs_escape(s: &[u8]) -> bool { s.iter().any(|c| *c < 32 || *c == b'"' || *c == b'\\') }

fn dec_back(r: Result<JwsValidationItem<'_>, identity_jose::error::Error>, si: &[u8], sg: &[u8], payload: &[u8], p: Option<&JwsHeader>, u: Option<&JwsHeader>, obs: &mut Vec<i64>) -> Option<String> {
  match r {
    Err(e) => { obs.push(0); Some(format!("produced JWS is not decoded by the library's decoder: {}", e)) }
    Ok(it) => {
      let flags = [it.signing_input() == si, it.decoded_signature() == sg, it.claims() == payload, it.protected_header() == p && it.unprotected_header() == u];
      obs.push(1); obs.extend(flags.iter().map(|b| *b as i64));
      if !flags[0] { return Some("decoded signing input differs from the one that was signed".into()); }
      if !flags[1] { return Some("decoded signature differs".into()); }
      if !flags[2] { return Some("decoded payload differs from the signed payload".into()); }
      if !flags[3] { return Some("decoded headers differ from the signed headers".into()); }
      None
    }
  }
}

pub fn exec(case: &[i64]) -> Outcome {
  let kind = case[0];
  let mut v = &case[1..];
  if kind == 7 { return crate::jws_storage::exec(case); }
  if kind == 8 { return crate::jws_storage::exec_bitflip(case); }
  if kind == 9 { return exec_ecdsa(case); }
  if kind == 10 { return exec_verifiers(case); }
  let tab = take_table(&mut v);
  let hdr = |i: Option<usize>| -> Option<&JwsHeader> { i.and_then(|i| tab.get(i)).and_then(|e| e.value.as_ref()) };
  let known_custom = tab.iter().any(|e| e.h.as_ref().and_then(|h| h.custom.as_ref()).map(|k| k.iter().any(|i| *i < 14)).unwrap_or(false));
  let dec = Decoder::new();
  match kind {
    1 => {
      let tok = take_bytes(&mut v).unwrap(); let det = take_opt(&mut v); let kalg = take1(&mut v).unwrap(); let vbit = take1(&mut v).unwrap() != 0;
      match dec.decode_compact_serialization(&tok, det.as_deref()) {
        Err(_) => Outcome::new(vec![0]).class("dec-err"),
        Ok(it) => {
          let segs: Vec<&[u8]> = tok.split(|b| *b == b'.').collect();
          let pay: &[u8] = if segs[1].is_empty() { det.as_deref().unwrap_or(&[]) } else { segs[1] };
          let mut si = segs[0].to_vec(); si.push(b'.'); si.extend_from_slice(pay);
          let mut obs = vec![];
          let mut why = item_obs(&tab, it, kalg, vbit, &si, Some(pay), &mut obs);
          if segs.len() != 3 { why = Some("token without exactly three segments accepted".into()); }
          if !segs[1].is_empty() && det.is_some() { why = Some("both payload sources accepted".into()); }
          let o = Outcome::new(obs).class("compact-ok");
          match why { Some(w) => o.fail(&w), None => o }
        }
      }
    }
    2 => {
      let payload = take_opt(&mut v); let protected = take_opt(&mut v); let hi = take_idx(&mut v); let sig = take_bytes(&mut v).unwrap();
      let det = take_opt(&mut v); let kalg = take1(&mut v).unwrap(); let vbit = take1(&mut v).unwrap() != 0;
      let m = match json_env(payload.as_deref(), protected.as_deref(), hdr(hi), &sig) { Some(m) => m, None => return Outcome::new(vec![-3]).class("not-utf8").trivial() };
      let text = serde_json::to_vec(&Value::Object(m)).unwrap();
      match dec.decode_flattened_serialization(&text, det.as_deref()) {
        Err(_) => Outcome::new(vec![0]).class("dec-err"),
        Ok(it) => {
          let pay: Vec<u8> = match payload.as_deref() { Some(p) if !p.is_empty() => p.to_vec(), _ => det.clone().unwrap_or_default() };
          let mut si = protected.clone().unwrap_or_default(); si.push(b'.'); si.extend_from_slice(&pay);
          let mut obs = vec![];
          let mut why = item_obs(&tab, it, kalg, vbit, &si, Some(&pay), &mut obs);
          if payload.as_deref().map(|p| !p.is_empty()).unwrap_or(false) && det.is_some() { why = Some("both payload sources accepted".into()); }
          let o = Outcome::new(obs).class("flattened-ok");
          match why { Some(w) => o.fail(&w), None => o }
        }
      }
    }
    3 => {
      let payload = take_opt(&mut v); let n = take1(&mut v).unwrap() as usize;
      let mut sigs = Vec::new();
      for _ in 0..n { let _pl = take_opt(&mut v); let protected = take_opt(&mut v); let hi = take_idx(&mut v); let sig = take_bytes(&mut v).unwrap(); sigs.push((protected, hi, sig)); }
      let det = take_opt(&mut v); let kalg = take1(&mut v).unwrap(); let vbit = take1(&mut v).unwrap() != 0;
      let mut arr = Vec::new();
      for (p, hi, s) in &sigs { match json_env(None, p.as_deref(), hdr(*hi), s) { Some(m) => arr.push(Value::Object(m)), None => return Outcome::new(vec![-3]).class("not-utf8").trivial() } }
      let mut m = Map::new();
      if let Some(p) = &payload { match String::from_utf8(p.clone()) { Ok(s) => { m.insert("payload".into(), json!(s)); } Err(_) => return Outcome::new(vec![-3]).class("not-utf8").trivial() } }
      m.insert("signatures".into(), Value::Array(arr));
      let text = serde_json::to_vec(&Value::Object(m)).unwrap();
      match dec.decode_general_serialization(&text, det.as_deref()) {
        Err(_) => Outcome::new(vec![0]).class("dec-err"),
        Ok(iter) => {
          let pay: Vec<u8> = match payload.as_deref() { Some(p) if !p.is_empty() => p.to_vec(), _ => det.clone().unwrap_or_default() };
          let mut obs = vec![1]; let mut why = None;
          for (k, r) in iter.enumerate() {
            match r {
              Err(_) => obs.push(0),
              Ok(it) => { let mut si = sigs[k].0.clone().unwrap_or_default(); si.push(b'.'); si.extend_from_slice(&pay); if let Some(w) = item_obs(&tab, it, kalg, vbit, &si, Some(&pay), &mut obs) { why = Some(w); } }
            }
          }
          let o = Outcome::new(obs).class("general-ok");
          match why { Some(w) => o.fail(&w), None => o }
        }
      }
    }
    4 => {
      let h = take_idx(&mut v); let payload = take_bytes(&mut v).unwrap(); let mode = take1(&mut v).unwrap(); let sig = take_bytes(&mut v).unwrap();
      let hv = match hdr(h) { Some(x) => x, None => return Outcome::new(vec![-4]).class("no-header").trivial() };
      let opts = match mode { 0 => CompactJwsEncodingOptions::Detached, 1 => CompactJwsEncodingOptions::NonDetached { charset_requirements: CharSet::Default }, _ => CompactJwsEncodingOptions::NonDetached { charset_requirements: CharSet::UrlSafe } };
      match CompactJwsEncoder::new_with_options(&payload, hv, opts) {
        Err(_) => Outcome::new(vec![0]).class("enc-err"),
        Ok(enc) => {
          let si = enc.signing_input().to_vec();
          let tok = enc.into_jws(&sig);
          let mut obs = vec![1]; put_bytes(&mut obs, tok.as_bytes()); put_bytes(&mut obs, &si);
          let signed_form = if hv.b64().unwrap_or(true) { encode_b64(&payload).into_bytes() } else { payload.clone() };
          let det = if mode == 0 { Some(signed_form) } else { None };
          let why = dec_back(dec.decode_compact_serialization(tok.as_bytes(), det.as_deref()), &si, &sig, &payload, Some(hv), None, &mut obs);
          let mut o = Outcome::new(obs).class("enc-compact");
          if known_custom { o = o.known("K_custom_registered"); }
          if payload.is_empty() { o = o.trivial(); return o; }
          match why { Some(w) => o.fail(&w), None => o }
        }
      }
    }
    5 => {
      let p = take_idx(&mut v); let u = take_idx(&mut v); let payload = take_bytes(&mut v).unwrap(); let detached = take1(&mut v).unwrap() != 0; let _u8 = take1(&mut v).unwrap(); let sig = take_bytes(&mut v).unwrap();
      let mut rec = Recipient::new(); if let Some(x) = hdr(p) { rec = rec.protected(x); } if let Some(x) = hdr(u) { rec = rec.unprotected(x); }
      match FlattenedJwsEncoder::new(&payload, rec, detached) {
        Err(_) => Outcome::new(vec![0]).class("enc-err"),
        Ok(enc) => {
          let si = enc.signing_input().to_vec();
          let mut obs = vec![1]; put_bytes(&mut obs, &si);
          let b64 = hdr(p).and_then(|h| h.b64()).unwrap_or(true);
          let signed_form = if b64 { encode_b64(&payload).into_bytes() } else { payload.clone() };
          let det = if detached { Some(signed_form) } else { None };
          let why = match enc.into_jws(&sig) {
            Err(e) => { obs.push(0); Some(format!("into_jws failed: {}", e)) }
            Ok(tok) => dec_back(dec.decode_flattened_serialization(tok.as_bytes(), det.as_deref()), &si, &sig, &payload, hdr(p), hdr(u), &mut obs),
          };
          let mut o = Outcome::new(obs).class("enc-flattened");
          if known_custom { o = o.known("K_custom_registered"); }
          else if !b64 && !detached && needs_escape(&payload) { o = o.known("K_json_escape"); }
          if payload.is_empty() { return o.trivial(); }
          match why { Some(w) => o.fail(&w), None => o }
        }
      }
    }
    6 => {
      let payload = take_bytes(&mut v).unwrap(); let detached = take1(&mut v).unwrap() != 0; let _u8 = take1(&mut v).unwrap(); let n = take1(&mut v).unwrap() as usize;
      let mut rs = Vec::new();
      for _ in 0..n { let p = take_idx(&mut v); let u = take_idx(&mut v); let sg = take_bytes(&mut v).unwrap(); rs.push((p, u, sg)); }
      let mk = |p: Option<usize>, u: Option<usize>| { let mut rec = Recipient::new(); if let Some(x) = hdr(p) { rec = rec.protected(x); } if let Some(x) = hdr(u) { rec = rec.unprotected(x); } rec };
      let first = match GeneralJwsEncoder::new(&payload, mk(rs[0].0, rs[0].1), detached) { Ok(e) => e, Err(_) => return Outcome::new(vec![0]).class("enc-err") };
      let mut sis = vec![first.signing_input().to_vec()];
      let mut enc = first.set_signature(&rs[0].2);
      for (p, u, sg) in rs.iter().skip(1) {
        match enc.add_recipient(mk(*p, *u)) { Ok(e) => { sis.push(e.signing_input().to_vec()); enc = e.set_signature(sg); } Err(_) => return Outcome::new(vec![0]).class("enc-err") }
      }
      let tok = match enc.into_jws() { Ok(t) => t, Err(_) => return Outcome::new(vec![0]).class("enc-err") };
      let b64 = hdr(rs[0].0).and_then(|h| h.b64()).unwrap_or(true);
      let signed_form = if b64 { encode_b64(&payload).into_bytes() } else { payload.clone() };
      let det = if detached { Some(signed_form) } else { None };
      let mut obs = vec![1]; let mut why: Option<String> = None;
      match dec.decode_general_serialization(tok.as_bytes(), det.as_deref()) {
        Err(e) => { obs.push(0); why = Some(format!("produced JWS is not decoded by the library's decoder: {}", e)); }
        Ok(iter) => { obs.push(1); for (k, r) in iter.enumerate() { if let Some(w) = dec_back(r, &sis[k], &rs[k].2, &payload, hdr(rs[k].0), hdr(rs[k].1), &mut obs) { why = Some(w); } } }
      }
      let mut o = Outcome::new(obs).class("enc-general");
      if known_custom { o = o.known("K_custom_registered"); }
      else if !b64 && !detached && needs_escape(&payload) { o = o.known("K_json_escape"); }
      if payload.is_empty() { return o.trivial(); }
      match why { Some(w) => o.fail(&w), None => o }
    }
    _ => Outcome::new(vec![-998]).fail("bad case kind"),
  }
}

// ---------------------------------------------------------------- generators
fn b64(s: &[u8]) -> Vec<u8> { encode_b64(s).into_bytes() }
fn tabled(kind: i64, tab: &[Entry]) -> Vec<i64> { let mut c = vec![kind]; put_table(&mut c, tab); c }

const HEADER_TEXTS: &[&str] = &[
  r#"{"alg":"EdDSA"}"#, r#"{ "alg" : "EdDSA" }"#, r#"{"kid":"k","alg":"EdDSA"}"#, r#"{"alg":"EdDSA","b64":false,"crit":["b64"]}"#,
  r#"{"alg":"EdDSA","b64":true,"crit":["b64"]}"#, r#"{"alg":"ES256"}"#, r#"{"kid":"k"}"#, r#"{"alg":"EdDSA","b64":false}"#,
  r#"{"alg":"EdDSA","typ":"JWT"}"#, r#"not json"#, r#"{"alg":"EdDSA","alg":"ES256"}"#, r#"{"alg":"EdDSA","crit":["b64"]}"#, r#"{"alg":"EdDSA","x-a":1,"nonce":"n"}"#, r#"{}"#,
];
const PAYLOADS: &[&[u8]] = &[b"{\"iss\":\"joe\"}", b"hello", b"he.llo", b"\x00\xff\x10", b"", b"aGVsbG8", b"he said \"hi\"\\"];

/// kind 9: real ES256 / ES256K signatures through EcDSAJwsVerifier.  case = [9, key curve (0 P-256, 1 secp256k1), signing curve, header alg (2 ES256, 3 ES256K), key pin (0 none, 2, 3), serialisation (0 compact, 1 flattened)]
/// verified iff the header's algorithm is the one of the key's curve, the signature was made with that key, and the pin (if any) equals the header's algorithm
fn exec_ecdsa(case: &[i64]) -> Outcome {
  use p256::ecdsa::signature::Signer;
  let (kc, sc, halg, pin, ser) = (case[1], case[2], case[3], case[4], case[5]); let shape = case.get(6).copied().unwrap_or(0);
  let hdr = format!(r#"{{"alg":"{}"}}"#, ALGS[halg as usize]);
  let si = format!("{}.{}", identity_jose::jwu::encode_b64(hdr.as_bytes()), identity_jose::jwu::encode_b64(b"{\"iss\":\"x\"}"));
  let secret = [7u8; 32];
  let p_sk = p256::ecdsa::SigningKey::from_slice(&secret).unwrap(); let k_sk = k256::ecdsa::SigningKey::from_slice(&secret).unwrap();
  let sig: Vec<u8> = if sc == 0 { let s: p256::ecdsa::Signature = p_sk.sign(si.as_bytes()); s.to_bytes().to_vec() } else { let s: k256::ecdsa::Signature = k_sk.sign(si.as_bytes()); s.to_bytes().to_vec() };
  // signature shapes: 0 as signed; 1 one byte appended; 2 a second copy appended; 3 last byte dropped; 4 a zero byte in front
  let sig: Vec<u8> = match shape { 1 => [sig.clone(), vec![0]].concat(), 2 => [sig.clone(), sig.clone()].concat(), 3 => sig[..sig.len() - 1].to_vec(), 4 => [vec![0], sig.clone()].concat(), _ => sig };
  let (x, y, crv) = if kc == 0 { let p = p_sk.verifying_key().to_encoded_point(false); (p.x().unwrap().to_vec(), p.y().unwrap().to_vec(), "P-256") } else { let p = k_sk.verifying_key().to_encoded_point(false); (p.x().unwrap().to_vec(), p.y().unwrap().to_vec(), "secp256k1") };
  let mut jwk: Jwk = serde_json::from_value(json!({"kty": "EC", "crv": crv, "x": identity_jose::jwu::encode_b64(&x), "y": identity_jose::jwu::encode_b64(&y)})).unwrap();
  if pin > 0 { jwk.set_alg(ALGS[pin as usize]); }
  let dec = Decoder::new(); let verifier = identity_ecdsa_verifier::EcDSAJwsVerifier::default();
  let tok: Vec<u8> = if ser == 0 { format!("{}.{}", si, identity_jose::jwu::encode_b64(&sig)).into_bytes() } else { let mut parts = si.split('.'); serde_json::to_vec(&json!({"protected": parts.next().unwrap(), "payload": parts.next().unwrap(), "signature": identity_jose::jwu::encode_b64(&sig)})).unwrap() };
  let verified = if ser == 0 { dec.decode_compact_serialization(&tok, None).and_then(|it| it.verify(&verifier, &jwk)).is_ok() } else { dec.decode_flattened_serialization(&tok, None).and_then(|it| it.verify(&verifier, &jwk)).is_ok() };
  let should = shape == 0 && kc == sc && ((kc == 0 && halg == 2) || (kc == 1 && halg == 3)) && (pin == 0 || pin == halg);
  let mut o = Outcome::new(vec![]).class(if verified { "ecdsa-verified" } else { "ecdsa-rejected" });
  if verified != should { o = o.fail(if verified { "a real ECDSA token was reported verified although the header's algorithm, the key's curve, the signing key or the key's pinned algorithm do not match" } else { "a correctly signed ECDSA token was rejected" }); }
  o
}

/// kind 10: the shipped verifiers around their primitive (model: Jose/Verifiers.v).
/// [10, 0, which, alg, family, <crv> <x> <y> <signature> <message>, point_ok, sig_ok, verdict] - the three flags are what the PRIMITIVES answer (computed when the case is generated)
fn exec_verifiers(case: &[i64]) -> Outcome {
  let (which, alg, fam) = (case[2], case[3], case[4]); let mut v = &case[5..];
  let crv = String::from_utf8(take_bytes(&mut v).unwrap()).unwrap(); let x = String::from_utf8(take_bytes(&mut v).unwrap()).unwrap(); let y = String::from_utf8(take_bytes(&mut v).unwrap()).unwrap();
  let sig = take_bytes(&mut v).unwrap(); let msg = take_bytes(&mut v).unwrap(); let verdict = v[2] != 0; let prime = v.get(3).copied().unwrap_or(0);
  let mut jv = match fam { 0 => json!({"kty": "EC", "crv": crv, "x": x, "y": y}), 1 => json!({"kty": "RSA", "n": "AQAB", "e": "AQAB"}), 2 => json!({"kty": "oct", "k": "AAAA"}), _ => json!({"kty": "OKP", "crv": crv, "x": x}) };
  if prime != 0 {
    // the verdict for THIS key must not depend on what the verifier was asked before: first a successful verification under ANOTHER key that carries the same kid
    use crypto::signatures::ed25519 as ed; use p256::ecdsa::signature::Signer;
    jv["kid"] = json!("same-label");
    let m0 = b"priming message".to_vec();
    if which == 0 { let sk = ed::SecretKey::from_bytes(&[7u8; 32]); let k: Jwk = serde_json::from_value(json!({"kty": "OKP", "crv": "Ed25519", "x": encode_b64(sk.public_key().as_slice()), "kid": "same-label"})).unwrap();
      let _ = identity_eddsa_verifier::EdDSAJwsVerifier::default().verify(VerificationInput { alg: JwsAlgorithm::EdDSA, signing_input: m0.clone().into_boxed_slice(), decoded_signature: sk.sign(&m0).to_bytes().to_vec().into_boxed_slice() }, &k); }
    else { let sk = p256::ecdsa::SigningKey::from_slice(&[7u8; 32]).unwrap(); let p = sk.verifying_key().to_encoded_point(false); let s: p256::ecdsa::Signature = sk.sign(&m0);
      let k: Jwk = serde_json::from_value(json!({"kty": "EC", "crv": "P-256", "x": encode_b64(p.x().unwrap()), "y": encode_b64(p.y().unwrap()), "kid": "same-label"})).unwrap();
      let _ = identity_ecdsa_verifier::EcDSAJwsVerifier::default().verify(VerificationInput { alg: JwsAlgorithm::ES256, signing_input: m0.clone().into_boxed_slice(), decoded_signature: s.to_bytes().to_vec().into_boxed_slice() }, &k); }
  }
  let jwk: Jwk = match serde_json::from_value(jv) { Ok(j) => j, Err(_) => return Outcome::new(vec![-4]).class("verifier-key-rejected").trivial() };
  let a = match alg { 0 => JwsAlgorithm::EdDSA, 1 => JwsAlgorithm::ES256, 2 => JwsAlgorithm::ES256K, _ => JwsAlgorithm::ES384 };
  let input = VerificationInput { alg: a, signing_input: msg.clone().into_boxed_slice(), decoded_signature: sig.clone().into_boxed_slice() };
  let r = if which == 0 { identity_eddsa_verifier::EdDSAJwsVerifier::default().verify(input, &jwk) } else { identity_ecdsa_verifier::EcDSAJwsVerifier::default().verify(input, &jwk) };
  let obs = match &r { Ok(()) => vec![0], Err(e) => vec![1, match e.kind() { SignatureVerificationErrorKind::UnsupportedAlg => 1, SignatureVerificationErrorKind::UnsupportedKeyType => 2, SignatureVerificationErrorKind::UnsupportedKeyParams => 3,
    SignatureVerificationErrorKind::KeyDecodingFailure => 4, SignatureVerificationErrorKind::InvalidSignature => 5, _ => 9 }] };
  let mut o = Outcome::new(obs).class(if r.is_ok() { "verifier-ok" } else { "verifier-err" });
  if r.is_ok() && (!verdict || sig.len() != 64) { o = o.fail("a shipped verifier reports a signature verified that the primitive does not accept as received (length or equation)"); }
  o
}
fn gen_verifiers(rng: &mut Rng, thorough: bool, sink: &mut Sink) {
  use crypto::signatures::ed25519 as ed; use p256::ecdsa::signature::{Signer, Verifier};
  let msg = b"eyJhbGciOiJFZERTQSJ9.eyJpc3MiOiJ4In0".to_vec(); let other = b"eyJhbGciOiJFZERTQSJ9.eyJpc3MiOiJ5In0".to_vec();
  let esk = ed::SecretKey::from_bytes(&[7u8; 32]); let epk = esk.public_key(); let esig = esk.sign(&msg).to_bytes().to_vec();
  let p_sk = p256::ecdsa::SigningKey::from_slice(&[7u8; 32]).unwrap(); let k_sk = k256::ecdsa::SigningKey::from_slice(&[7u8; 32]).unwrap();
  let psig: p256::ecdsa::Signature = p_sk.sign(&msg); let ksig: k256::ecdsa::Signature = k_sk.sign(&msg);
  let pp = p_sk.verifying_key().to_encoded_point(false); let kp = k_sk.verifying_key().to_encoded_point(false);
  let b = |x: &[u8]| encode_b64(x);
  // primitives: what they answer for the bytes of a case
  let ed_flags = |x: &str, sig: &[u8], m: &[u8]| -> (i64, i64, i64) {
    let pk = decode_b64(x).ok().and_then(|v| <[u8; 32]>::try_from(v).ok()).and_then(|a| ed::PublicKey::try_from(a).ok());
    let verdict = match (&pk, <[u8; 64]>::try_from(sig)) { (Some(pk), Ok(s)) => pk.verify(&ed::Signature::from_bytes(s), m), _ => false };
    (pk.is_some() as i64, 1, verdict as i64) };
  let ec_flags = |k1: bool, x: &str, y: &str, sig: &[u8], m: &[u8]| -> (i64, i64, i64) {
    let xy = match (decode_b64(x), decode_b64(y)) { (Ok(a), Ok(c)) if a.len() == 32 && c.len() == 32 => Some([a, c].concat()), _ => None };
    if k1 {
      let pk = xy.and_then(|v| { let ep = k256::EncodedPoint::from_untagged_bytes(k256::elliptic_curve::generic_array::GenericArray::from_slice(&v)); Option::<k256::PublicKey>::from(<k256::PublicKey as k256::elliptic_curve::sec1::FromEncodedPoint<k256::Secp256k1>>::from_encoded_point(&ep)) });
      let s = k256::ecdsa::Signature::try_from(sig).ok();
      let verdict = match (&pk, &s) { (Some(pk), Some(s)) => k256::ecdsa::VerifyingKey::from(*pk).verify(m, s).is_ok(), _ => false };
      (pk.is_some() as i64, s.is_some() as i64, verdict as i64)
    } else {
      let pk = xy.and_then(|v| { let ep = p256::EncodedPoint::from_untagged_bytes(p256::elliptic_curve::generic_array::GenericArray::from_slice(&v)); Option::<p256::PublicKey>::from(<p256::PublicKey as p256::elliptic_curve::sec1::FromEncodedPoint<p256::NistP256>>::from_encoded_point(&ep)) });
      let s = p256::ecdsa::Signature::try_from(sig).ok();
      let verdict = match (&pk, &s) { (Some(pk), Some(s)) => p256::ecdsa::VerifyingKey::from(*pk).verify(m, s).is_ok(), _ => false };
      (pk.is_some() as i64, s.is_some() as i64, verdict as i64)
    } };
  let mut emit = |sink: &mut Sink, which: i64, alg: i64, fam: i64, crv: &str, x: &str, y: &str, sig: &[u8], m: &[u8], tag: &str| {
    let (pok, sok, verdict) = if which == 0 { ed_flags(x, sig, m) } else { ec_flags(alg == 2, x, y, sig, m) };
    let mut c = vec![10, 0, which, alg, fam]; put_bytes(&mut c, crv.as_bytes()); put_bytes(&mut c, x.as_bytes()); put_bytes(&mut c, y.as_bytes()); put_bytes(&mut c, sig); put_bytes(&mut c, m); c.extend([pok, sok, verdict]); sink.case(c.clone(), tag);
    // the same question after the verifier has just verified under another key with the same kid
    if tag.ends_with("-bytes") { c.push(1); sink.case(c, "verifier-after-another-key-same-kid"); } };
  let sig_shapes = |s: &[u8]| -> Vec<Vec<u8>> { let mut flipped = s.to_vec(); flipped[5] ^= 1; let mut lastflip = s.to_vec(); let n = lastflip.len(); lastflip[n - 1] ^= 0x80;
    vec![s.to_vec(), flipped, lastflip, s[..63].to_vec(), [s.to_vec(), vec![0]].concat(), [s.to_vec(), s.to_vec()].concat(), vec![], vec![0; 64], vec![0xff; 64], s[..32].to_vec(), [vec![0], s.to_vec()].concat()] };
  // EdDSA verifier
  let ex = b(epk.as_slice());
  let x_shapes: Vec<String> = vec![ex.clone(), b(&epk.as_slice()[..31]), b(&[epk.as_slice(), &[0u8][..]].concat()), "!!".into(), "".into(), b(&[0xffu8; 32]), b(&[0u8; 32]), format!("{}=", ex), b(&[2u8; 32])];
  for alg in 0..4 { for fam in 0..4 { for crv in ["Ed25519", "Ed448", "X25519", "ed25519", "", "P-256"] { emit(sink, 0, alg, fam, crv, &ex, "", &esig, &msg, "verifier-eddsa-dispatch"); } } }
  for x in &x_shapes { for sg in sig_shapes(&esig) { for m in [&msg, &other] { emit(sink, 0, 0, 3, "Ed25519", x, "", &sg, m, "verifier-eddsa-bytes"); } } }
  { let esk2 = ed::SecretKey::from_bytes(&[9u8; 32]); let ex2 = b(esk2.public_key().as_slice()); let esig2 = esk2.sign(&msg).to_bytes().to_vec();
    for (x, sg) in [(&ex2, &esig), (&ex2, &esig2), (&ex, &esig2)] { emit(sink, 0, 0, 3, "Ed25519", x, "", sg, &msg, "verifier-eddsa-other-key-bytes"); } }
  { let p_sk2 = p256::ecdsa::SigningKey::from_slice(&[9u8; 32]).unwrap(); let pp2 = p_sk2.verifying_key().to_encoded_point(false); let psig2: p256::ecdsa::Signature = p_sk2.sign(&msg);
    let (px2, py2) = (b(pp2.x().unwrap()), b(pp2.y().unwrap())); let pxo = b(pp.x().unwrap()); let pyo = b(pp.y().unwrap());
    for (x, y, sg) in [(&px2, &py2, psig.to_bytes().to_vec()), (&px2, &py2, psig2.to_bytes().to_vec()), (&pxo, &pyo, psig2.to_bytes().to_vec())] { emit(sink, 1, 1, 0, "P-256", x, y, &sg, &msg, "verifier-ecdsa-other-key-bytes"); } }
  // ECDSA verifier: both curves, keys of either curve under either algorithm
  let (px, py, kx, ky) = (b(pp.x().unwrap()), b(pp.y().unwrap()), b(kp.x().unwrap()), b(kp.y().unwrap()));
  for alg in 0..4 { for fam in 0..4 { for crv in ["P-256", "secp256k1", "P-384", ""] { for (x, y, sg) in [(&px, &py, psig.to_bytes().to_vec()), (&kx, &ky, ksig.to_bytes().to_vec())] { emit(sink, 1, alg, fam, crv, x, y, &sg, &msg, "verifier-ecdsa-dispatch"); } } } }
  for (alg, x, y, s) in [(1i64, &px, &py, psig.to_bytes().to_vec()), (2, &kx, &ky, ksig.to_bytes().to_vec())] {
    for sg in sig_shapes(&s) { for m in [&msg, &other] { emit(sink, 1, alg, 0, if alg == 1 { "P-256" } else { "secp256k1" }, x, y, &sg, m, "verifier-ecdsa-bytes"); } }
    let short = b(&decode_b64(x.as_str()).unwrap()[..31]); let long = b(&[decode_b64(x.as_str()).unwrap(), vec![0]].concat());
    for (xx, yy) in [(short.clone(), y.clone()), (x.clone(), short.clone()), (long.clone(), y.clone()), ("!!".to_string(), y.clone()), (x.clone(), "".to_string()), (y.clone(), x.clone()), (b(&[0xffu8; 32]), b(&[0xffu8; 32])), (b(&[0u8; 32]), b(&[0u8; 32]))] { emit(sink, 1, alg, 0, "P-256", &xx, &yy, &s, &msg, "verifier-ecdsa-key-bytes"); }
  }
  if thorough { for _ in 0..400 { let mut sg = esig.clone(); let i = rng.below(64) as usize; sg[i] ^= 1 << rng.below(8); emit(sink, 0, 0, 3, "Ed25519", &ex, "", &sg, &msg, "verifier-eddsa-bitflips"); } }
}
pub fn gen_c01(rng: &mut Rng, thorough: bool, sink: &mut Sink) {
  gen_verifiers(rng, thorough, sink);
  for kc in 0..2 { for sc in 0..2 { for halg in [2i64, 3] { for pin in [0i64, 2, 3] { for ser in 0..2 { sink.case(vec![9, kc, sc, halg, pin, ser], "ecdsa-real-keys"); } } } } }
  for kc in 0..2 { for pin in [0i64, 2, 3] { for ser in 0..2 { for shape in 1..5 { sink.case(vec![9, kc, kc, 2 + kc, pin, ser, shape], "ecdsa-signature-length"); } } } }
  let sig = b"signature-bytes!";
  // (a) compact: header text x payload x form x attached/detached x key alg pin x verifier answer
  for ht in HEADER_TEXTS { let e = entry_from_json(ht.as_bytes()); for pl in PAYLOADS { for form in 0..2 { for detached in 0..3 {
    let body: Vec<u8> = if form == 0 { b64(pl) } else { pl.to_vec() };
    let (seg, det): (Vec<u8>, Option<Vec<u8>>) = match detached { 0 => (body.clone(), None), 1 => (vec![], Some(body.clone())), _ => (body.clone(), Some(body.clone())) };
    let mut tok = b64(ht.as_bytes()); tok.push(b'.'); tok.extend(&seg); tok.push(b'.'); tok.extend(b64(sig));
    for kalg in [-1i64, 1, 2, 5, 6, 7] { for vbit in 0..2 {
      if (kalg >= 2 || vbit == 0) && (form == 1 && detached == 2) { continue; }
      if kalg >= 5 && (vbit == 0 || detached != 0) { continue; }
      let mut c = tabled(1, &[e.clone()]); put_bytes(&mut c, &tok); put_opt(&mut c, det.as_deref()); c.push(kalg); c.push(vbit); sink.case(c, "compact-table");
    } }
  } } } }
  // (b) malformed compact tokens derived from a good one
  let good_h = r#"{"alg":"EdDSA"}"#; let e = entry_from_json(good_h.as_bytes());
  let (p, m, s) = (b64(good_h.as_bytes()), b64(b"hello"), b64(sig));
  let join = |parts: &[&[u8]]| -> Vec<u8> { parts.join(&b'.') };
  let mut variants: Vec<Vec<u8>> = vec![join(&[&p]), join(&[&p, &m]), join(&[&p, &m, &s, &s]), join(&[&p, &m, &s, b""]), join(&[b"", &m, &s]), join(&[&p, &m, b""]), vec![], b"..".to_vec(), b"...".to_vec()];
  for (i, part) in [&p, &m, &s].iter().enumerate() {
    for suffix in ["=", "==", "===", " ", "\n", "A", "-", "_", "*", "%3D"] { let mut parts: Vec<Vec<u8>> = vec![p.clone(), m.clone(), s.clone()]; parts[i].extend(suffix.bytes()); variants.push(join(&[&parts[0], &parts[1], &parts[2]])); }
    for prefix in [" ", "="] { let mut parts: Vec<Vec<u8>> = vec![p.clone(), m.clone(), s.clone()]; let mut x = prefix.as_bytes().to_vec(); x.extend(part.iter()); parts[i] = x; variants.push(join(&[&parts[0], &parts[1], &parts[2]])); }
    // every last-character variant (trailing bits) and one flipped character in the middle
    for ch in b"ABCDEFGHIJKLMNOPQRSTUVWXYZabcdefghijklmnopqrstuvwxyz0123456789-_+/".iter() { let mut parts: Vec<Vec<u8>> = vec![p.clone(), m.clone(), s.clone()]; let l = parts[i].len(); parts[i][l - 1] = *ch; variants.push(join(&[&parts[0], &parts[1], &parts[2]])); }
  }
  for t in &variants { for vbit in 0..2 { let mut c = tabled(1, &[e.clone(), entry_from_json(b"{\"alg\":\"EdDSA\"}x")]); put_bytes(&mut c, t); put_opt(&mut c, None); c.push(-1); c.push(vbit); sink.case(c, "compact-malformed"); } }
  // (c) flattened: protected / unprotected header combinations, payload sources
  let unprot: Vec<Option<JwsHeader>> = vec![None, serde_json::from_str(r#"{"kid":"k2"}"#).ok(), serde_json::from_str(r#"{"alg":"EdDSA"}"#).ok(), serde_json::from_str(r#"{"b64":false}"#).ok(), serde_json::from_str(r#"{"x-a":2}"#).ok()];
  for ht in HEADER_TEXTS.iter().map(|h| Some(*h)).chain([None]) { for u in &unprot { for pl in PAYLOADS { for form in 0..2 { for src in 0..4 {
    let mut tab: Vec<Entry> = Vec::new();
    if let Some(h) = ht { tab.push(entry_from_json(h.as_bytes())); }
    let ui = u.as_ref().map(|x| { tab.push(entry_from_value(x)); (tab.len() - 1) as i64 }).unwrap_or(-1);
    let body: Vec<u8> = if form == 0 { b64(pl) } else { pl.to_vec() };
    if std::str::from_utf8(&body).is_err() && (src == 0 || src == 2) { continue; }
    let (pay, det): (Option<Vec<u8>>, Option<Vec<u8>>) = match src { 0 => (Some(body.clone()), None), 1 => (None, Some(body.clone())), 2 => (Some(body.clone()), Some(body.clone())), _ => (None, None) };
    let mut c = tabled(2, &tab); put_opt(&mut c, pay.as_deref()); put_opt(&mut c, ht.map(|h| b64(h.as_bytes())).as_deref()); c.push(ui); put_bytes(&mut c, &b64(sig)); put_opt(&mut c, det.as_deref()); c.push(-1); c.push(1);
    sink.case(c, "flattened-table");
  } } } } }
  // (d) general: two / three signatures over mixed headers (incl. recipients that disagree on b64)
  let hs = [r#"{"alg":"EdDSA"}"#, r#"{"alg":"EdDSA","b64":false,"crit":["b64"]}"#, r#"{"alg":"ES256","kid":"k"}"#, r#"{"b64":false}"#];
  for a in hs { for b in hs { for pl in [&b"hello"[..], b"aGVsbG8", b"he\"llo"] { for kalg in [-1i64, 1] {
    let tab = vec![entry_from_json(a.as_bytes()), entry_from_json(b.as_bytes()), entry_from_value(&serde_json::from_str(r#"{"kid":"u"}"#).unwrap())];
    let mut c = tabled(3, &tab); put_opt(&mut c, Some(pl)); c.push(3);
    for (hh, ui) in [(Some(a), -1i64), (Some(b), 2), (None, 2)] { put_opt(&mut c, None); put_opt(&mut c, hh.map(|h| b64(h.as_bytes())).as_deref()); c.push(ui); put_bytes(&mut c, &b64(sig)); }
    put_opt(&mut c, None); c.push(kalg); c.push(1); sink.case(c, "general-table");
  } } } }
  // (e) random byte-level mutations of valid compact tokens
  for _ in 0..(if thorough { 40000 } else { 3000 }) {
    let ht = *rng.pick(&HEADER_TEXTS[..9]); let pl = *rng.pick(PAYLOADS);
    let mut tok = b64(ht.as_bytes()); tok.push(b'.'); tok.extend(if rng.chance(1, 2) { b64(pl) } else { pl.to_vec() }); tok.push(b'.'); tok.extend(b64(sig));
    for _ in 0..rng.range(0, 2) { if tok.is_empty() { break; } let i = rng.below(tok.len() as u64) as usize; match rng.below(3) { 0 => tok[i] ^= 1 << rng.below(8), 1 => { tok.remove(i); } _ => tok.insert(i, *rng.pick(b".=Aa-_ ")) } }
    // the table holds the serde answer for whatever JSON the protected segment now decodes to
    let seg0: Vec<u8> = tok.split(|b| *b == b'.').next().unwrap_or(&[]).to_vec();
    let mut tab = vec![];
    if let Ok(js) = decode_b64(&seg0) { tab.push(entry_from_json(&js)); }
    let mut c = tabled(1, &tab); put_bytes(&mut c, &tok); put_opt(&mut c, None); c.push(*rng.pick(&[-1i64, 1, 2])); c.push(rng.range(0, 1)); sink.case(c, "compact-mutation");
  }
  crate::jws_storage::gen_bitflips(rng, thorough, sink);
}

pub fn gen_c08(rng: &mut Rng, thorough: bool, sink: &mut Sink) {
  let payloads: Vec<Vec<u8>> = vec![b"{\"iss\":\"joe\"}".to_vec(), b"hello".to_vec(), b"he.llo".to_vec(), vec![0, 255, 16, 46], "gr\u{fc}\u{df}e".as_bytes().to_vec(), b"he said \"hi\"".to_vec(), b"back\\slash".to_vec(), b"ctl\x01\x1f".to_vec(), b"~tilde_-".to_vec(), b" ".to_vec(), vec![b'a'; 40]];
  // header pool: descriptions (as in C11) x alg
  let mut hs: Vec<JwsHeader> = Vec::new();
  for b64 in [None, Some(true), Some(false)] { for crit in [None, Some(vec![1])] { for common in [vec![], vec![5, 10], vec![13, 12, 11]] { for custom in [None, Some(vec![101]), Some(vec![5])] {
    let h = H { alg: true, b64, crit: crit.clone(), common: common.clone(), custom: custom.clone() };
    if let Some(v) = c11::hdr_value(&h) { hs.push(v); }
  } } } }
  let us: Vec<Option<JwsHeader>> = vec![None, c11::hdr_value(&H { alg: false, b64: None, crit: None, common: vec![6], custom: None }), c11::hdr_value(&H { alg: false, b64: None, crit: None, common: vec![], custom: Some(vec![102]) }), c11::hdr_value(&H { alg: false, b64: None, crit: None, common: vec![5], custom: None })];
  let sig = b"\x00\x01signature\xff";
  for h in &hs { let mut tab = vec![]; push_value(&mut tab, h); for pl in &payloads { for mode in 0..3 {
    let mut c = tabled(4, &tab); c.push(0); put_bytes(&mut c, pl); c.push(mode); put_bytes(&mut c, sig); sink.case(c, "enc-compact");
  } } }
  for h in hs.iter().map(Some).chain([None]) { for u in &us { for pl in &payloads { for detached in 0..2 {
    let mut tab = vec![]; let pi = h.map(|x| push_value(&mut tab, x)).unwrap_or(-1);
    let ui = u.as_ref().map(|x| push_value(&mut tab, x)).unwrap_or(-1);
    let mut c = tabled(5, &tab); c.push(pi); c.push(ui); put_bytes(&mut c, pl); c.push(detached); c.push(std::str::from_utf8(pl).is_ok() as i64); put_bytes(&mut c, sig); sink.case(c, "enc-flattened");
  } } } }
  // general: 1..4 recipients
  let n = if thorough { 30000 } else { 4000 };
  for _ in 0..n {
    let k = rng.range(1, 4) as usize;
    let mut tab: Vec<Entry> = Vec::new(); let mut recs: Vec<(i64, i64)> = Vec::new();
    let first_b64 = rng.below(3);
    for j in 0..k {
      // mostly agreeing recipients, sometimes not
      let pick: &JwsHeader = loop { let h = rng.pick(&hs); let b = match h.b64() { None => 0, Some(true) => 1, Some(false) => 2 }; if j > 0 && rng.chance(1, 6) { break h; } if (b == 2) == (first_b64 == 2) { break h; } };
      let p = if rng.chance(1, 8) { -1 } else { push_value(&mut tab, pick) };
      let u = match rng.pick(&us) { Some(x) if p < 0 || rng.chance(1, 2) => push_value(&mut tab, x), _ => -1 };
      recs.push((p, u));
    }
    let pl = rng.pick(&payloads);
    let mut c = tabled(6, &tab); put_bytes(&mut c, pl); c.push(rng.range(0, 1)); c.push(std::str::from_utf8(pl).is_ok() as i64); c.push(k as i64);
    for (p, u) in &recs { c.push(*p); c.push(*u); put_bytes(&mut c, sig); }
    sink.case(c, "enc-general");
  }
  crate::jws_storage::gen_storage(rng, thorough, sink);
}
