//! C02 — JWT credential validation against the model.
//! see coq/theories/Run/C02Run.v for the case encoding.
use crate::common::*;
use identity_core::common::{Object, Timestamp, Url};
use identity_core::convert::FromJson;
use identity_credential::credential::Jwt;
use identity_credential::revocation::RevocationBitmap;
use identity_credential::validator::{FailFast, JwtCredentialValidationOptions, JwtCredentialValidator, JwtValidationError, StatusCheck, SubjectHolderRelationship};
use identity_did::DIDUrl;
use identity_document::document::CoreDocument;
use identity_document::verifiable::JwsVerificationOptions;
use identity_jose::jwk::Jwk;
use identity_jose::jws::{JwsVerifier, SignatureVerificationError, SignatureVerificationErrorKind, VerificationInput};
use identity_verification::{MethodRelationship, MethodScope};
use serde_json::{json, Map, Value};

/// DID 4 has DID 1 as a proper string prefix (issuer equality must be equality of DIDs, not of prefixes)
/// DID 5 differs from DID 1 in the METHOD NAME only (same method-specific id): equality of DIDs is equality of the whole identifier
pub const DIDS: [&str; 6] = ["", "did:example:issuer", "did:example:other", "did:example:third", "did:example:issuer:sub", "did:other:issuer"];
pub const RESTS: [&str; 3] = ["", "/p1", "?q=1"];
pub const BOUND_UNSET: i64 = 4102444800;
pub const Y2200: i64 = 7258118400;
#[derive(Clone, Copy, Debug, PartialEq, Eq)]
pub struct U { pub d: i64, pub r: i64, pub f: i64 }
pub fn ustr(u: U) -> String { format!("{}{}{}", DIDS[u.d as usize], RESTS[u.r as usize], if u.f < 0 { String::new() } else { format!("#f{}", u.f) }) }
pub fn key_bytes(data: i64) -> Vec<u8> { format!("key-{:028}", data).into_bytes() }
/// the verifier of the harness: a signature is good for a key iff it equals the key's bytes
pub struct KeyEcho;
impl JwsVerifier for KeyEcho {
  fn verify(&self, input: VerificationInput, key: &Jwk) -> Result<(), SignatureVerificationError> {
    let x = key.try_okp_params().map_err(|_| SignatureVerificationErrorKind::UnsupportedKeyType)?.x.clone();
    let want = identity_jose::jwu::decode_b64(x).map_err(|_| SignatureVerificationErrorKind::KeyDecodingFailure)?;
    if input.decoded_signature.as_ref() == want.as_slice() { Ok(()) } else { Err(SignatureVerificationErrorKind::InvalidSignature.into()) }
  }
}
pub fn meth_json(u: U, data: i64, ctrl: &str) -> Value {
  if data >= 0 { json!({"id": ustr(u), "controller": ctrl, "type": "JsonWebKey", "publicKeyJwk": {"kty": "OKP", "crv": "Ed25519", "x": identity_jose::jwu::encode_b64(key_bytes(data))}}) }
  else { json!({"id": ustr(u), "controller": ctrl, "type": "Ed25519VerificationKey2018", "publicKeyMultibase": format!("zDATA{}", -data)}) }
}
#[derive(Clone, Debug)]
pub enum Ent { Embed(U, i64), Refer(U) }
#[derive(Clone, Debug, Default)]
pub struct IssuerDoc { pub id: i64, pub vm: Vec<(U, i64)>, pub rels: [Vec<Ent>; 5], pub svc: Vec<(U, i64)>, pub bms: Vec<(i64, bool, Vec<i64>)> }
const RELN: [&str; 5] = ["authentication", "assertionMethod", "keyAgreement", "capabilityDelegation", "capabilityInvocation"];
pub const RELS: [MethodRelationship; 5] = [MethodRelationship::Authentication, MethodRelationship::AssertionMethod, MethodRelationship::KeyAgreement, MethodRelationship::CapabilityDelegation, MethodRelationship::CapabilityInvocation];
pub fn scope_of(z: i64) -> Option<MethodScope> { if z < 0 { None } else if z == 0 { Some(MethodScope::VerificationMethod) } else { Some(MethodScope::VerificationRelationship(RELS[(z - 1) as usize])) } }
impl IssuerDoc {
  pub fn build(&self) -> Option<CoreDocument> {
    let did = DIDS[self.id as usize];
    let mut m = Map::new(); m.insert("id".into(), json!(did));
    if !self.vm.is_empty() { m.insert("verificationMethod".into(), Value::Array(self.vm.iter().map(|(u, x)| meth_json(*u, *x, did)).collect())); }
    for k in 0..5 { if !self.rels[k].is_empty() { m.insert(RELN[k].into(), Value::Array(self.rels[k].iter().map(|e| match e { Ent::Embed(u, x) => meth_json(*u, *x, did), Ent::Refer(u) => json!(ustr(*u)) }).collect())); } }
    if !self.svc.is_empty() { m.insert("service".into(), Value::Array(self.svc.iter().map(|(u, x)| {
      let bm = self.bms.iter().find(|b| b.0 == *x);
      match bm { Some((_, true, rev)) => { let mut b = RevocationBitmap::new(); for i in rev { b.revoke(*i as u32); } serde_json::to_value(b.to_service(DIDUrl::parse(ustr(*u)).unwrap()).unwrap()).unwrap() }
                 Some((_, false, _)) if x % 2 == 0 => json!({"id": ustr(*u), "type": "RevocationBitmap2022", "serviceEndpoint": "data:application/octet-stream;base64,!!!notbase64"}),
                 _ => json!({"id": ustr(*u), "type": "LinkedDomains", "serviceEndpoint": format!("https://s.example/{}", x)}) }
    }).collect())); }
    CoreDocument::from_json_value(Value::Object(m)).ok()
  }
  pub fn enc(&self, o: &mut Vec<i64>) {
    o.push(self.id); o.push(self.vm.len() as i64); for (u, x) in &self.vm { o.extend([u.d, u.r, u.f, *x]); }
    for r in &self.rels { o.push(r.len() as i64); for e in r { match e { Ent::Embed(u, x) => o.extend([0, u.d, u.r, u.f, *x]), Ent::Refer(u) => o.extend([1, u.d, u.r, u.f]) } } }
    o.push(self.svc.len() as i64); for (u, x) in &self.svc { o.extend([u.d, u.r, u.f, *x]); }
    o.push(self.bms.len() as i64); for (d, ok, rev) in &self.bms { o.extend([*d, *ok as i64]); put_lp(o, rev); }
  }
  pub fn dec(v: &mut &[i64]) -> IssuerDoc {
    let tu = |v: &mut &[i64]| U { d: take1(v).unwrap(), r: take1(v).unwrap(), f: take1(v).unwrap() };
    let mut d = IssuerDoc { id: take1(v).unwrap(), ..Default::default() };
    for _ in 0..take1(v).unwrap() { let u = tu(v); d.vm.push((u, take1(v).unwrap())); }
    for k in 0..5 { for _ in 0..take1(v).unwrap() { let t = take1(v).unwrap(); let u = tu(v); d.rels[k].push(if t == 0 { Ent::Embed(u, take1(v).unwrap()) } else { Ent::Refer(u) }); } }
    for _ in 0..take1(v).unwrap() { let u = tu(v); d.svc.push((u, take1(v).unwrap())); }
    for _ in 0..take1(v).unwrap() { let x = take1(v).unwrap(); let ok = take1(v).unwrap() != 0; d.bms.push((x, ok, take_lp(v).unwrap().to_vec())); }
    d
  }
  /// resolution as the set-of-entries reading predicts (did + fragment match), independent of the library
  pub fn resolve(&self, q: U, scope: i64) -> Option<i64> {
    let m = |u: &U| u.d == q.d && q.f >= 0 && u.f == q.f;
    let vm = |u: &U| self.vm.iter().find(|e| e.0.d == u.d && u.f >= 0 && e.0.f == u.f).map(|e| e.1);
    let via = |e: &Ent| match e { Ent::Embed(_, x) => Some(*x), Ent::Refer(u) => vm(u) };
    let id = |e: &Ent| match e { Ent::Embed(u, _) => *u, Ent::Refer(u) => *u };
    match scope { 0 => vm(&q), 1..=5 => self.rels[(scope - 1) as usize].iter().find(|e| m(&id(e))).and_then(via),
      _ => match self.rels.iter().flatten().find(|e| m(&id(e))) { Some(e) => via(e), None => vm(&q) } }
  }
}
#[derive(Clone, Debug)]
pub struct St { pub bitmap: bool, pub wf: bool, pub u: U, pub idx: i64 }
#[derive(Clone, Debug)]
pub struct VC { pub issuer: Option<i64>, pub issued: i64, pub expires: Option<i64>, pub ctx_ok: bool, pub type_ok: bool, pub sub_id: Option<i64>, pub sub_empty: bool, pub nontransf: Option<bool>, pub status: Option<St> }
fn wo(o: &mut Vec<i64>, x: Option<i64>) { match x { Some(v) => o.extend([1, v]), None => o.extend([0, 0]) } }
fn ro(v: &mut &[i64]) -> Option<i64> { let f = take1(v).unwrap(); let x = take1(v).unwrap(); if f == 0 { None } else { Some(x) } }
impl VC {
  pub fn enc(&self, o: &mut Vec<i64>) {
    wo(o, self.issuer); o.push(self.issued); wo(o, self.expires); o.extend([self.ctx_ok as i64, self.type_ok as i64]); wo(o, self.sub_id); o.push(self.sub_empty as i64); wo(o, self.nontransf.map(|b| b as i64));
    match &self.status { None => o.push(0), Some(s) => o.extend([1, s.bitmap as i64, s.wf as i64, s.u.d, s.u.r, s.u.f, s.idx]) }
  }
  pub fn dec(v: &mut &[i64]) -> VC {
    let issuer = ro(v); let issued = take1(v).unwrap(); let expires = ro(v); let ctx_ok = take1(v).unwrap() != 0; let type_ok = take1(v).unwrap() != 0; let sub_id = ro(v); let sub_empty = take1(v).unwrap() != 0; let nontransf = ro(v).map(|x| x != 0);
    let status = if take1(v).unwrap() == 0 { None } else { Some(St { bitmap: take1(v).unwrap() != 0, wf: take1(v).unwrap() != 0, u: U { d: take1(v).unwrap(), r: take1(v).unwrap(), f: take1(v).unwrap() }, idx: take1(v).unwrap() }) };
    VC { issuer, issued, expires, ctx_ok, type_ok, sub_id, sub_empty, nontransf, status }
  }
  pub fn issuer_json(&self) -> Value { match self.issuer { Some(d) => json!(DIDS[d as usize]), None => json!("https://issuer.example/") } }
  pub fn vc_json(&self) -> Value {
    let mut vc = Map::new();
    vc.insert("@context".into(), if self.ctx_ok { json!("https://www.w3.org/2018/credentials/v1") } else { json!(["https://example.org/other/v1", "https://www.w3.org/2018/credentials/v1"]) });
    vc.insert("type".into(), if self.type_ok { json!(["VerifiableCredential", "X"]) } else { json!("OtherType") });
    vc.insert("credentialSubject".into(), if self.sub_empty { json!({}) } else { json!({"name": "x"}) });
    if let Some(b) = self.nontransf { vc.insert("nonTransferable".into(), json!(b)); }
    if let Some(s) = &self.status {
      let id = if s.wf || s.idx % 3 != 2 { ustr(s.u) } else { "https://status.example/list".to_string() };
      let index = if s.wf { format!("{}", s.idx) } else if s.idx % 3 == 0 { "notanumber".into() } else if s.idx % 3 == 1 { "-1".into() } else { format!("{}", s.idx) };
      vc.insert("credentialStatus".into(), json!({"id": id, "type": if s.bitmap { "RevocationBitmap2022" } else { "OtherStatus2022" }, "revocationBitmapIndex": index}));
    }
    Value::Object(vc)
  }
  /// claims whose vc repeats a member in disagreement with (or in the absence of) its registered claim
  pub fn bad_claims(&self, variant: i64) -> Value {
    let mut top = self.claims(true); let ts = |t: i64| json!(Timestamp::from_unix(t).unwrap().to_rfc3339());
    match variant {
      0 => top["vc"]["issuer"] = json!("did:example:somebodyelse"),
      1 => { top.as_object_mut().unwrap().remove("exp"); top["vc"]["expirationDate"] = ts(self.expires.unwrap_or(1)); }
      2 => top["vc"]["id"] = json!("https://example.edu/credentials/1"),
      3 => { top.as_object_mut().unwrap().remove("sub"); top["vc"]["credentialSubject"]["id"] = json!("did:example:holder1"); }
      4 => top["vc"]["issuanceDate"] = ts(self.issued + 1),
      5 => { top.as_object_mut().unwrap().remove("nbf"); }
      6 => top["vc"]["expirationDate"] = ts(self.expires.unwrap_or(1) + 1),
      _ => top["nbf"] = json!(253402300800i64),
    }
    top
  }
  pub fn claims(&self, consistent: bool) -> Value {
    let mut top = Map::new(); top.insert("iss".into(), self.issuer_json()); top.insert("nbf".into(), json!(self.issued));
    if let Some(e) = self.expires { top.insert("exp".into(), json!(e)); }
    if let Some(s) = self.sub_id { top.insert("sub".into(), json!(format!("did:example:holder{s}"))); }
    let mut vc = self.vc_json();
    if !consistent { vc["issuer"] = json!("did:example:somebodyelse"); }
    top.insert("vc".into(), vc); Value::Object(top)
  }
}
/// nonce 0 is the EMPTY string: present, and different from an absent nonce
pub fn nonce_str(n: i64) -> String { if n == 0 { String::new() } else { format!("n{n}") } }
pub fn jws(kid: Option<String>, nonce: Option<i64>, claims: &Value, sigkey: i64) -> String {
  let mut h = Map::new(); h.insert("alg".into(), json!("EdDSA")); h.insert("typ".into(), json!("JWT"));
  if let Some(k) = kid { h.insert("kid".into(), json!(k)); } if let Some(n) = nonce { h.insert("nonce".into(), json!(nonce_str(n))); }
  format!("{}.{}.{}", identity_jose::jwu::encode_b64(serde_json::to_vec(&Value::Object(h)).unwrap()), identity_jose::jwu::encode_b64(serde_json::to_vec(claims).unwrap()), identity_jose::jwu::encode_b64(key_bytes(sigkey)))
}
pub fn err_code(e: &JwtValidationError) -> i64 {
  use identity_credential::Error as CE;
  match e {
    JwtValidationError::JwsDecodingError(inner) => if format!("{inner:?}").contains("invalid nonce") { 1 } else { 20 },
    JwtValidationError::MethodDataLookupError { message, .. } => if message.contains("extract kid") { 2 } else if message.contains("parse kid") { 3 } else { 5 },
    JwtValidationError::DocumentMismatch { .. } => 4, JwtValidationError::Signature { .. } => 6,
    JwtValidationError::CredentialStructure(inner) => match inner { CE::MissingBaseContext | CE::MissingBaseType | CE::MissingSubject | CE::InvalidSubject => 12, _ => 7 },
    JwtValidationError::SignerUrl { .. } => 8, JwtValidationError::IdentifierMismatch { .. } => 9, JwtValidationError::IssuanceDate => 10, JwtValidationError::ExpirationDate => 11,
    JwtValidationError::SubjectHolderRelationship { .. } => 13, JwtValidationError::InvalidStatus(_) => 14, JwtValidationError::ServiceLookupError { .. } => 15, JwtValidationError::Revoked => 16, _ => 21,
  }
}
#[derive(Clone, Debug)]
pub struct Case { pub kind: i64, pub nonce: Option<i64>, pub kid: (i64, U), pub sigkey: i64, pub claims_ok: bool, pub bad: i64, pub vc: VC, pub issuers: Vec<IssuerDoc>,
  pub o_nonce: Option<i64>, pub method_id: Option<U>, pub scope: i64, pub earliest: i64, pub latest: i64, pub sh: Option<(i64, i64)>, pub status_mode: i64, pub ff: bool }
impl Case {
  pub fn enc(&self) -> Vec<i64> {
    let mut o = vec![self.kind]; wo(&mut o, self.nonce); o.push(self.kid.0); if self.kid.0 == 2 { o.extend([self.kid.1.d, self.kid.1.r, self.kid.1.f]); }
    o.push(self.sigkey); o.push(self.claims_ok as i64); if self.claims_ok { self.vc.enc(&mut o); } else { o.push(self.bad); }
    o.push(self.issuers.len() as i64); for i in &self.issuers { i.enc(&mut o); }
    wo(&mut o, self.o_nonce); match self.method_id { Some(u) => o.extend([1, u.d, u.r, u.f]), None => o.push(0) }
    o.extend([self.scope, self.earliest, self.latest]); match self.sh { Some((h, m)) => o.extend([1, h, m]), None => o.push(0) } o.extend([self.status_mode, self.ff as i64]); o
  }
  pub fn dec(case: &[i64]) -> Case {
    let mut v = &case[1..]; let nonce = ro(&mut v); let kt = take1(&mut v).unwrap();
    let ku = if kt == 2 { U { d: take1(&mut v).unwrap(), r: take1(&mut v).unwrap(), f: take1(&mut v).unwrap() } } else { U { d: 0, r: 0, f: -1 } };
    let sigkey = take1(&mut v).unwrap(); let claims_ok = take1(&mut v).unwrap() != 0;
    let mut bad = 0; let vc = if claims_ok { VC::dec(&mut v) } else { bad = take1(&mut v).unwrap(); VC { issuer: Some(1), issued: 0, expires: None, ctx_ok: true, type_ok: true, sub_id: None, sub_empty: false, nontransf: None, status: None } };
    let n = take1(&mut v).unwrap(); let issuers = (0..n).map(|_| IssuerDoc::dec(&mut v)).collect();
    let o_nonce = ro(&mut v); let method_id = if take1(&mut v).unwrap() != 0 { Some(U { d: take1(&mut v).unwrap(), r: take1(&mut v).unwrap(), f: take1(&mut v).unwrap() }) } else { None };
    let scope = take1(&mut v).unwrap(); let earliest = take1(&mut v).unwrap(); let latest = take1(&mut v).unwrap();
    let sh = if take1(&mut v).unwrap() != 0 { Some((take1(&mut v).unwrap(), take1(&mut v).unwrap())) } else { None };
    Case { kind: case[0], nonce, kid: (kt, ku), sigkey, claims_ok, bad, vc, issuers, o_nonce, method_id, scope, earliest, latest, sh, status_mode: take1(&mut v).unwrap(), ff: take1(&mut v).unwrap() != 0 }
  }
}
pub fn jws_options(c: &Case) -> JwsVerificationOptions {
  let mut vo = JwsVerificationOptions::default(); if let Some(n) = c.o_nonce { vo = vo.nonce(nonce_str(n)); } if let Some(s) = scope_of(c.scope) { vo = vo.method_scope(s); }
  if let Some(u) = c.method_id { vo = vo.method_id(DIDUrl::parse(ustr(u)).unwrap()); } vo
}

pub fn exec(case: &[i64]) -> Outcome {
  let c = Case::dec(case);
  let docs: Vec<CoreDocument> = match c.issuers.iter().map(|i| i.build()).collect::<Option<Vec<_>>>() { Some(d) => d, None => return Outcome::new(vec![-7]).class("unbuildable").trivial().fail("an issuer document of the case does not build") };
  let kid = match c.kid.0 { 0 => None, 1 => Some("not a did url".to_string()), _ => Some(ustr(c.kid.1)) };
  let token = Jwt::new(jws(kid, c.nonce, &if c.claims_ok { c.vc.claims(true) } else { c.vc.bad_claims(c.bad) }, c.sigkey));
  // a bound equal to BOUND_UNSET (year 2100, a stand-in for the clock) is LEFT UNSET: the validator then uses the current time. Token dates of those rows are in 1970-2001 or 2200, so the verdict is the same for every clock reading before 2100
  let mut opts = JwtCredentialValidationOptions::default(); if c.earliest != BOUND_UNSET { opts = opts.earliest_expiry_date(Timestamp::from_unix(c.earliest).unwrap()); } if c.latest != BOUND_UNSET { opts = opts.latest_issuance_date(Timestamp::from_unix(c.latest).unwrap()); }
  let mut opts = opts
    .status_check(match c.status_mode { 0 => StatusCheck::Strict, 1 => StatusCheck::SkipUnsupported, _ => StatusCheck::SkipAll }).verification_options(jws_options(&c));
  if let Some((h, m)) = c.sh { opts = opts.subject_holder_relationship(Url::parse(format!("did:example:holder{h}")).unwrap(), match m { 0 => SubjectHolderRelationship::AlwaysSubject, 1 => SubjectHolderRelationship::SubjectOnNonTransferable, _ => SubjectHolderRelationship::Any }); }
  let validator = JwtCredentialValidator::with_signature_verifier(KeyEcho);
  let res: Result<identity_credential::validator::DecodedJwtCredential<Object>, Vec<i64>> = if c.kind == 1 {
    validator.validate::<CoreDocument, Object>(&token, &docs[0], &opts, if c.ff { FailFast::FirstError } else { FailFast::AllErrors }).map_err(|e| e.validation_errors.iter().map(err_code).collect())
  } else { validator.verify_signature::<CoreDocument, Object>(&token, &docs, &opts.verification_options).map_err(|e| vec![err_code(&e)]) };
  // ---- the conditions of the statement, recomputed from the case description ----
  let used: &[IssuerDoc] = if c.kind == 1 { &c.issuers[..1] } else { &c.issuers[..] };
  let nonce_ok = c.nonce == c.o_nonce;
  let mid: Option<U> = c.method_id.or(if c.kid.0 == 2 { Some(c.kid.1) } else { None });
  let doc = mid.and_then(|u| used.iter().find(|i| i.id == u.d));
  let key = match (mid, doc) { (Some(u), Some(d)) => d.resolve(u, if c.scope < 0 { 9 } else { c.scope }), _ => None };
  let key_ok = key.map_or(false, |k| k >= 0);
  let sig_ok = key_ok && key == Some(c.sigkey);
  let issuer_ok = c.claims_ok && mid.is_some() && c.vc.issuer == mid.map(|u| u.d);
  let stage1 = nonce_ok && sig_ok && issuer_ok;
  let v = &c.vc;
  let u_iss = v.issued <= c.latest; let u_exp = v.expires.map_or(true, |e| e >= c.earliest);
  let u_str = v.ctx_ok && v.type_ok && !(v.sub_id.is_none() && v.sub_empty);
  let matches = c.sh.map_or(false, |(h, _)| v.sub_id == Some(h));
  let u_sh = match c.sh { None => true, Some((_, 0)) => matches, Some((_, 1)) => matches || !v.nontransf.unwrap_or(false), _ => true };
  let u_st = c.status_mode == 2 || match &v.status { None => true, Some(s) => if !s.bitmap { c.status_mode == 1 } else { s.wf && {
      let idoc = v.issuer.and_then(|d| used.iter().find(|i| i.id == d));
      idoc.and_then(|i| i.svc.iter().find(|e| e.0.d == s.u.d && s.u.f >= 0 && e.0.f == s.u.f).and_then(|e| i.bms.iter().find(|b| b.0 == e.1))).map_or(false, |b| b.1 && !b.2.contains(&s.idx)) } } };
  let units = [(10, u_iss), (11, u_exp), (12, u_str), (13, u_sh)];
  let all_ok = stage1 && (c.kind == 2 || (u_iss && u_exp && u_str && u_sh && u_st));
  match res {
    Ok(dec) => {
      let mut obs = vec![0];
      let want_vc = c.vc.vc_json(); let got = serde_json::to_value(&dec.credential).unwrap_or(Value::Null);
      let same = got.get("issuer") == Some(&c.vc.issuer_json()) && got.get("credentialStatus") == want_vc.get("credentialStatus") && got.get("@context") == want_vc.get("@context") && got.get("nonTransferable") == want_vc.get("nonTransferable")
        && dec.credential.issuance_date.to_unix() == v.issued && dec.credential.expiration_date.map(|t| t.to_unix()) == v.expires;
      if same { c.vc.enc(&mut obs); } else { obs.push(-6); }
      let mut o = Outcome::new(obs).class(if c.kind == 1 { "accepted" } else { "signature-verified" });
      if !all_ok { o = o.fail("accepted although a checked condition is false"); } else if !same { o = o.fail("the credential returned is not the one that was signed"); }
      o
    }
    Err(es) => {
      let mut obs = vec![1, es.len() as i64]; obs.extend(es.iter());
      let mut o = Outcome::new(obs).class(if es.len() == 1 && es[0] < 10 { "rejected-signature-stage" } else if c.ff { "rejected-fail-fast" } else { "rejected-all-errors" });
      if all_ok { o = o.fail("rejected although every checked condition holds"); }
      else if es.is_empty() { o = o.fail("rejected without an error"); }
      else if stage1 && c.kind == 1 {
        // every returned error names a false condition; with all errors requested every false unit is named
        for e in &es { let named_false = units.iter().any(|(code, ok)| code == e && !ok) || ([14, 15, 16, 4, 8].contains(e) && !u_st); if !named_false { o = o.fail("an error was returned for a condition that holds"); } }
        if !c.ff { for (code, ok) in units { if !ok && !es.contains(&code) { o = o.fail("a failing condition is missing from the errors although all errors were requested"); } } if !u_st && !es.iter().any(|e| [14, 15, 16, 4, 8].contains(e)) { o = o.fail("the failing status condition is missing from the errors"); } }
        else if es.len() != 1 { o = o.fail("fail-fast returned more than one error"); }
      } else if !stage1 {
        let e = es[0]; let named_false = (e == 1 && !nonce_ok) || ([2, 3, 4, 5].contains(&e) && !key_ok) || (e == 6 && !sig_ok) || ([7, 8, 9].contains(&e) && !issuer_ok);
        if es.len() != 1 || !named_false { o = o.fail("the signature-stage error does not name a false condition"); }
      }
      o
    }
  }
}

pub fn base_issuer() -> IssuerDoc {
  let u = |f: i64| U { d: 1, r: 0, f };
  IssuerDoc { id: 1, vm: vec![(U { d: 2, r: 0, f: 1 }, 21), (u(0), 10), (u(1), 11), (u(2), -5)], rels: [vec![Ent::Refer(u(0)), Ent::Embed(u(3), 13)], vec![Ent::Refer(u(1))], vec![Ent::Embed(U { d: 2, r: 0, f: 4 }, 14)], vec![Ent::Embed(u(11), 17)], vec![Ent::Refer(u(6)), Ent::Embed(u(12), 18)]],
    svc: vec![(u(7), 70), (u(8), 80), (u(9), 91)], bms: vec![(70, true, vec![5, 9, 70000]), (80, false, vec![]), (91, false, vec![])] }
}
pub fn other_issuer() -> IssuerDoc { IssuerDoc { id: 2, vm: vec![(U { d: 2, r: 0, f: 0 }, 20)], svc: vec![(U { d: 2, r: 0, f: 7 }, 71)], bms: vec![(71, true, vec![1])], ..Default::default() } }
fn to_did4(c: &mut Case) {
  let f = |u: &mut U| if u.d == 1 { u.d = 4; };
  let i = &mut c.issuers[0]; i.id = 4;
  for (u, _) in i.vm.iter_mut() { f(u); } for (u, _) in i.svc.iter_mut() { f(u); }
  for l in i.rels.iter_mut() { for e in l.iter_mut() { match e { Ent::Embed(u, _) => f(u), Ent::Refer(u) => f(u) } } }
  f(&mut c.kid.1); if let Some(st) = c.vc.status.as_mut() { f(&mut st.u); }
}
pub fn base_case() -> Case {
  Case { kind: 1, nonce: None, kid: (2, U { d: 1, r: 0, f: 0 }), sigkey: 10, claims_ok: true, bad: 0,
    vc: VC { issuer: Some(1), issued: 1000, expires: Some(5000), ctx_ok: true, type_ok: true, sub_id: Some(1), sub_empty: false, nontransf: None, status: Some(St { bitmap: true, wf: true, u: U { d: 1, r: 0, f: 7 }, idx: 3 }) },
    issuers: vec![base_issuer()], o_nonce: None, method_id: None, scope: -1, earliest: 4000, latest: 2000, sh: None, status_mode: 0, ff: false }
}
/// the independent dimensions; each function turns the base case into one variant
pub fn mutations() -> Vec<(&'static str, Vec<fn(&mut Case)>)> {
  vec![
    ("nonce", vec![|c| { c.nonce = Some(1); c.o_nonce = Some(1); }, |c| { c.nonce = Some(1); c.o_nonce = Some(2); }, |c| c.nonce = Some(1), |c| c.o_nonce = Some(1),
      // "n1" is a proper prefix of "n10" and of "n12": a nonce must be compared as a whole
      |c| { c.nonce = Some(1); c.o_nonce = Some(10); }, |c| { c.nonce = Some(12); c.o_nonce = Some(1); },
      // the empty nonce is a nonce: absent vs "" on either side, and "" on both
      |c| c.nonce = Some(0), |c| c.o_nonce = Some(0), |c| { c.nonce = Some(0); c.o_nonce = Some(0); }, |c| { c.nonce = Some(0); c.o_nonce = Some(1); }]),
    ("kid", vec![|c| c.kid = (0, U { d: 0, r: 0, f: -1 }), |c| c.kid = (1, U { d: 0, r: 0, f: -1 }), |c| c.kid.1.f = 5, |c| c.kid.1 = U { d: 2, r: 0, f: 0 }, |c| { c.kid.1.f = 1; c.sigkey = 11; }, |c| c.kid.1.f = 2, |c| { c.kid.1.f = 3; c.sigkey = 13; },
      |c| { c.kid.1 = U { d: 2, r: 0, f: 4 }; c.sigkey = 14; }, |c| c.kid.1.f = 6, |c| c.kid.1.r = 1, |c| c.kid.1.f = -1,
      |c| { c.kid.1.f = 11; c.sigkey = 17; }, |c| { c.kid.1.f = 12; c.sigkey = 18; }]),
    ("method-id", vec![|c| c.method_id = Some(U { d: 1, r: 0, f: 0 }), |c| { c.method_id = Some(U { d: 1, r: 0, f: 1 }); }, |c| { c.method_id = Some(U { d: 1, r: 0, f: 1 }); c.sigkey = 11; }, |c| { c.method_id = Some(U { d: 1, r: 0, f: 0 }); c.kid = (0, U { d: 0, r: 0, f: -1 }); }, |c| c.method_id = Some(U { d: 2, r: 0, f: 0 })]),
    ("scope", vec![|c| c.scope = 0, |c| c.scope = 1, |c| c.scope = 2, |c| c.scope = 3, |c| c.scope = 4, |c| c.scope = 5]),
    ("signature", vec![|c| c.sigkey = 11, |c| c.sigkey = 99]),
    ("claims", vec![|c| c.claims_ok = false, |c| { c.claims_ok = false; c.bad = 1; }, |c| { c.claims_ok = false; c.bad = 1; c.vc.expires = Some(100); }, |c| { c.claims_ok = false; c.bad = 2; }, |c| { c.claims_ok = false; c.bad = 3; }, |c| { c.claims_ok = false; c.bad = 4; }, |c| { c.claims_ok = false; c.bad = 5; }, |c| { c.claims_ok = false; c.bad = 6; }, |c| { c.claims_ok = false; c.bad = 7; }]),
    ("signer-did", vec![
      // the signing document is DID 4 = DID 1 + ":sub": the credential's issuer (DID 1) is a proper PREFIX of the signer's DID
      |c| { to_did4(c); }, |c| { to_did4(c); c.vc.issuer = Some(4); }]),
    ("issuer", vec![|c| c.vc.issuer = Some(2), |c| c.vc.issuer = None, |c| c.vc.issuer = Some(3), |c| c.vc.issuer = Some(4), |c| c.vc.issuer = Some(5)]),
    ("issuance", vec![|c| c.vc.issued = 1999, |c| c.vc.issued = 2000, |c| c.vc.issued = 2001]),
    ("unset-bounds", vec![|c| c.latest = BOUND_UNSET, |c| { c.latest = BOUND_UNSET; c.vc.issued = Y2200; }, |c| { c.latest = BOUND_UNSET; c.vc.issued = Y2200; c.earliest = Y2200 + 100; c.vc.expires = Some(Y2200 + 200); },
      |c| c.earliest = BOUND_UNSET, |c| { c.earliest = BOUND_UNSET; c.vc.expires = Some(Y2200); }, |c| { c.earliest = BOUND_UNSET; c.vc.expires = None; }, |c| { c.earliest = BOUND_UNSET; c.latest = BOUND_UNSET; }, |c| { c.earliest = BOUND_UNSET; c.latest = BOUND_UNSET; c.vc.expires = Some(Y2200); },
      |c| { c.earliest = BOUND_UNSET; c.latest = Y2200 + 5; c.vc.issued = Y2200; c.vc.expires = Some(Y2200 + 1); }]),
    ("expiry", vec![|c| c.vc.expires = None, |c| c.vc.expires = Some(3999), |c| c.vc.expires = Some(4000), |c| c.vc.expires = Some(4001)]),
    ("structure", vec![|c| c.vc.ctx_ok = false, |c| c.vc.type_ok = false, |c| { c.vc.sub_id = None; c.vc.sub_empty = true; }, |c| c.vc.sub_empty = true, |c| c.vc.sub_id = None]),
    ("subject-holder", vec![|c| c.sh = Some((1, 0)), |c| c.sh = Some((2, 0)), |c| c.sh = Some((2, 1)), |c| { c.sh = Some((2, 1)); c.vc.nontransf = Some(true); }, |c| { c.sh = Some((2, 1)); c.vc.nontransf = Some(false); }, |c| { c.sh = Some((1, 1)); c.vc.nontransf = Some(true); }, |c| c.sh = Some((2, 2)), |c| { c.sh = Some((1, 0)); c.vc.sub_id = None; }]),
    ("status", vec![|c| c.vc.status = None, |c| c.vc.status.as_mut().unwrap().idx = 5, |c| c.vc.status.as_mut().unwrap().idx = 70000, |c| c.vc.status.as_mut().unwrap().bitmap = false, |c| c.vc.status.as_mut().unwrap().wf = false, |c| { let s = c.vc.status.as_mut().unwrap(); s.wf = false; s.idx = 4; }, |c| { let s = c.vc.status.as_mut().unwrap(); s.wf = false; s.idx = 5; },
      |c| c.vc.status.as_mut().unwrap().u.f = 8, |c| c.vc.status.as_mut().unwrap().u.f = 9, |c| c.vc.status.as_mut().unwrap().u.f = 6, |c| c.vc.status.as_mut().unwrap().u = U { d: 2, r: 0, f: 7 }, |c| c.vc.status.as_mut().unwrap().u.r = 2]),
    ("status-mode", vec![|c| c.status_mode = 1, |c| c.status_mode = 2]),
    ("fail-fast", vec![|c| c.ff = true]),
  ]
}

pub fn gen(rng: &mut Rng, thorough: bool, sink: &mut Sink) {
  let muts = mutations();
  sink.case(base_case().enc(), "base");
  for (_, fs) in &muts { for f in fs { let mut c = base_case(); f(&mut c); sink.case(c.enc(), "single"); } }
  // every pair of dimensions, every pair of variants
  for a in 0..muts.len() { for b in (a + 1)..muts.len() { for fa in &muts[a].1 { for fb in &muts[b].1 { let mut c = base_case(); fa(&mut c); fb(&mut c); sink.case(c.enc(), "pair"); } } } }
  // random vectors: each dimension mutated with probability 1/3
  for _ in 0..(if thorough { 30000 } else { 3000 }) { let mut c = base_case(); for (k, (_, fs)) in muts.iter().enumerate() { if rng.chance(if k < 7 { 1 } else { 4 }, 8) { rng.pick(fs)(&mut c); } } sink.case(c.enc(), "random-vector"); }
  // verify_signature over several trusted issuers, in both orders, with and without the right one
  for order in 0..4 { for (_, fs) in &muts[..7] { for f in fs { let mut c = base_case(); f(&mut c); c.kind = 2; c.issuers = match order { 0 => vec![other_issuer(), base_issuer()], 1 => vec![base_issuer(), other_issuer()], 2 => vec![other_issuer()], _ => vec![] }; sink.case(c.enc(), "trusted-issuers"); } } }
  if thorough { for _ in 0..5000 { let mut c = base_case(); for (_, fs) in &muts[..7] { if rng.chance(1, 3) { rng.pick(fs)(&mut c); } } c.kind = 2; c.issuers = if rng.chance(1, 2) { vec![other_issuer(), base_issuer()] } else { vec![base_issuer(), other_issuer()] }; sink.case(c.enc(), "trusted-issuers-random"); } }
}
