//! Shared plumbing: PRNG, case sink, panic capture.
use std::io::Write;

/// xorshift64* — every random choice of every generator derives from one state (VERIF_SEED).
pub struct Rng(pub u64);
impl Rng {
  pub fn new(seed: u64) -> Self {
    Rng(seed.wrapping_mul(0x9E3779B97F4A7C15) ^ 0xD1B54A32D192ED03 | 1)
  }
  pub fn next(&mut self) -> u64 {
    let mut x = self.0;
    x ^= x >> 12;
    x ^= x << 25;
    x ^= x >> 27;
    self.0 = x;
    x.wrapping_mul(0x2545F4914F6CDD1D)
  }
  pub fn below(&mut self, n: u64) -> u64 {
    if n == 0 { 0 } else { self.next() % n }
  }
  pub fn range(&mut self, lo: i64, hi: i64) -> i64 {
    lo + self.below((hi - lo + 1) as u64) as i64
  }
  pub fn chance(&mut self, num: u64, den: u64) -> bool {
    self.below(den) < num
  }
  pub fn pick<'a, T>(&mut self, xs: &'a [T]) -> &'a T {
    &xs[self.below(xs.len() as u64) as usize]
  }
}

pub const PANIC_MARK: i64 = -777;

pub struct Outcome {
  pub obs: Vec<i64>,
  /// "ok" or "fail:<reason>" — the direct property oracle (no model involved)
  pub verdict: String,
  /// class tag for the evidence histogram
  pub class: String,
  /// counts as non-trivial by the property's rule
  pub nontrivial: bool,
  /// name of the known-finding class (a decidable predicate on the input) this case falls in
  pub known: Option<String>,
}

impl Outcome {
  pub fn new(obs: Vec<i64>) -> Self {
    Outcome { obs, verdict: "ok".into(), class: "ok".into(), nontrivial: true, known: None }
  }
  pub fn known(mut self, k: &str) -> Self { self.known = Some(k.into()); self }
  pub fn fail(mut self, why: &str) -> Self {
    if self.verdict == "ok" { self.verdict = format!("fail:{}", why.replace(' ', "-").replace('#', "%23").replace('|', "/").replace('\n', "\\n")); }
    self
  }
  pub fn class(mut self, c: &str) -> Self { self.class = c.into(); self }
  pub fn trivial(mut self) -> Self { self.nontrivial = false; self }
}

pub type ExecFn = fn(&[i64]) -> Outcome;
/// decidable known-finding class of a case, used when the run itself panics (the outcome is lost)
pub type ClassifyFn = fn(&[i64]) -> Option<&'static str>;
pub fn no_class(_: &[i64]) -> Option<&'static str> { None }

/// Runs `exec` under catch_unwind; a panic becomes the observation [PANIC_MARK] and verdict fail:panic.
pub fn exec_caught(exec: ExecFn, classify: ClassifyFn, case: &[i64]) -> Outcome {
  let c: Vec<i64> = case.to_vec();
  match std::panic::catch_unwind(move || exec(&c)) {
    Ok(o) => o,
    Err(_) => Outcome { obs: vec![PANIC_MARK], verdict: "fail:panic".into(), class: "panic".into(), nontrivial: true, known: classify(case).map(|k| k.to_string()) },
  }
}

pub struct Sink<'a> {
  pub prop: &'static str,
  pub out: &'a mut dyn Write,
  pub exec: ExecFn,
  pub classify: ClassifyFn,
  pub count: usize,
}
impl<'a> Sink<'a> {
  pub fn case(&mut self, ints: Vec<i64>, comment: &str) {
    let o = exec_caught(self.exec, self.classify, &ints);
    let s = |v: &[i64]| v.iter().map(|x| x.to_string()).collect::<Vec<_>>().join(" ");
    writeln!(
      self.out,
      "{} {} | {} | {} {} {} {} # {}",
      self.prop, s(&ints), s(&o.obs), o.verdict, o.class, if o.nontrivial { "nt" } else { "tr" },
      match &o.known { Some(k) => format!("k={}", k), None => "k=-".into() },
      comment.replace('\n', " ").replace('|', "/").replace('#', "%23")
    ).unwrap();
    self.count += 1;
  }
}

pub fn put_lp(v: &mut Vec<i64>, xs: &[i64]) { v.push(xs.len() as i64); v.extend_from_slice(xs); }
pub fn put_bytes(v: &mut Vec<i64>, xs: &[u8]) { v.push(xs.len() as i64); v.extend(xs.iter().map(|b| *b as i64)); }
pub fn take_lp<'a>(v: &mut &'a [i64]) -> Option<&'a [i64]> {
  let (n, rest) = v.split_first()?;
  let n = usize::try_from(*n).ok()?;
  if rest.len() < n { return None; }
  let (a, b) = rest.split_at(n);
  *v = b;
  Some(a)
}
pub fn take_bytes(v: &mut &[i64]) -> Option<Vec<u8>> {
  take_lp(v).map(|s| s.iter().map(|x| *x as u8).collect())
}
pub fn take1(v: &mut &[i64]) -> Option<i64> {
  let (x, rest) = v.split_first()?;
  *v = rest;
  Some(*x)
}
