//! C04 — CoreDocument mutation histories and resolution against the document model.
//! see coq/theories/Run/C04Run.v for the case encoding.
use crate::common::*;
use identity_core::convert::{FromJson, ToJson};
use identity_did::{DIDUrl, DID};
use identity_document::document::CoreDocument;
use identity_document::service::Service;
use identity_verification::{MethodData, MethodRef, MethodRelationship, MethodScope, VerificationMethod};
use serde_json::{json, Value};

/// IOTA DIDs, so that the same histories also run on an IotaDocument (the wrapper in identity_iota_core)
pub const DIDS: [&str; 3] = ["", "did:iota:0x1111111111111111111111111111111111111111111111111111111111111111", "did:iota:0x2222222222222222222222222222222222222222222222222222222222222222"];
pub const RESTS: [&str; 3] = ["", "/p1", "?q=1"];
#[derive(Clone, Copy, Debug, PartialEq, Eq)]
pub struct U { pub d: i64, pub r: i64, pub f: i64 }
pub fn ustr(u: U) -> String { format!("{}{}{}", DIDS[u.d as usize], RESTS[u.r as usize], if u.f < 0 { String::new() } else { format!("#f{}", u.f) }) }
pub fn uints(u: &DIDUrl) -> U {
  let d = DIDS.iter().position(|s| *s == u.did().as_str()).unwrap_or(0) as i64;
  let rest = format!("{}{}", u.path().unwrap_or(""), u.query().map(|q| format!("?{q}")).unwrap_or_default());
  let r = RESTS.iter().position(|s| *s == rest).unwrap_or(9) as i64;
  let f = u.fragment().and_then(|f| f.strip_prefix('f')).and_then(|n| n.parse::<i64>().ok()).unwrap_or(-1);
  U { d, r, f }
}
fn take_u(v: &mut &[i64]) -> U { U { d: take1(v).unwrap(), r: take1(v).unwrap(), f: take1(v).unwrap() } }
pub fn meth_json(u: U, data: i64) -> Value { json!({"id": ustr(u), "controller": DIDS[1], "type": "Ed25519VerificationKey2018", "publicKeyMultibase": format!("zDATA{}", data)}) }
/// the service type is spelled in the three accepted JSON forms (string, one-element array, longer array), picked by the payload number
pub fn svc_json(u: U, data: i64) -> Value { let ty = match data.rem_euclid(3) { 0 => json!("T"), 1 => json!(["T"]), _ => json!(["T", "U"]) }; json!({"id": ustr(u), "type": ty, "serviceEndpoint": format!("https://s.example/{}", data)}) }
fn data_of(m: &VerificationMethod) -> i64 { match m.data() { MethodData::PublicKeyMultibase(s) => s.trim_start_matches("zDATA").parse().unwrap_or(-1), _ => -1 } }
fn sdata_of(s: &Service) -> i64 {
  let v = serde_json::to_value(s.service_endpoint()).unwrap_or(Value::Null);
  v.as_str().and_then(|t| t.rsplit('/').next()).and_then(|n| n.parse().ok()).unwrap_or(-1)
}
fn put_u(o: &mut Vec<i64>, u: U) { o.extend([u.d, u.r, u.f]); }
const RELS: [MethodRelationship; 5] = [MethodRelationship::Authentication, MethodRelationship::AssertionMethod, MethodRelationship::KeyAgreement, MethodRelationship::CapabilityDelegation, MethodRelationship::CapabilityInvocation];
fn scope_of(z: i64) -> MethodScope { if z == 0 { MethodScope::VerificationMethod } else { MethodScope::VerificationRelationship(RELS[(z - 1) as usize]) } }
fn rel_sets(doc: &CoreDocument) -> [Vec<MethodRef>; 5] {
  [doc.authentication().iter().cloned().collect(), doc.assertion_method().iter().cloned().collect(), doc.key_agreement().iter().cloned().collect(),
   doc.capability_delegation().iter().cloned().collect(), doc.capability_invocation().iter().cloned().collect()]
}
fn qstr(d: i64, f: i64) -> String { format!("{}{}", if d < 0 { "" } else { DIDS[d as usize] }, if f < 0 { String::new() } else { format!("#f{}", f) }) }

/// abstract view of the document taken from its accessors (not from the resolution code)
struct View { vm: Vec<(U, i64)>, rels: [Vec<(bool, U, i64)>; 5], svc: Vec<(U, i64)> }
fn view(doc: &CoreDocument) -> View {
  let rs = rel_sets(doc);
  let conv = |l: &Vec<MethodRef>| l.iter().map(|e| match e { MethodRef::Embed(m) => (true, uints(m.id()), data_of(m)), MethodRef::Refer(u) => (false, uints(u), -1) }).collect::<Vec<_>>();
  View { vm: doc.verification_method().iter().map(|m| (uints(m.id()), data_of(m))).collect(),
         rels: [conv(&rs[0]), conv(&rs[1]), conv(&rs[2]), conv(&rs[3]), conv(&rs[4])],
         svc: doc.service().iter().map(|s| (uints(s.id()), sdata_of(s))).collect() }
}
fn invariant(v: &View) -> Option<String> {
  let all: Vec<(bool, U)> = v.rels.iter().flatten().map(|(e, u, _)| (*e, *u)).collect();
  for (i, (e, u)) in all.iter().enumerate() { if *e { for (j, (_, w)) in all.iter().enumerate() { if i != j && u == w { return Some(format!("embedded method id {} occurs twice / is aliased by a reference", ustr(*u))); } } } }
  for (u, _) in &v.vm { if all.iter().any(|(e, w)| *e && w == u) { return Some(format!("general-purpose and embedded method share the id {}", ustr(*u))); } }
  for (u, _) in &v.svc { if all.iter().any(|(_, w)| w == u) || v.vm.iter().any(|(w, _)| w == u) { return Some(format!("service id {} equals a method id", ustr(*u))); } }
  None
}
/// ids equal on (did, fragment) but not identical: the matcher cannot tell them apart (known class)
fn ambiguous(v: &View) -> bool {
  let mut ids: Vec<U> = v.vm.iter().map(|x| x.0).collect();
  ids.extend(v.rels.iter().flatten().map(|x| x.1)); ids.extend(v.svc.iter().map(|x| x.0));
  ids.iter().any(|a| ids.iter().any(|b| a != b && a.d == b.d && a.f == b.f && a.f >= 0))
}
fn qm(d: i64, f: i64, u: U) -> bool { (d < 0 || d == u.d) && f >= 0 && f == u.f }
/// what the set-of-entries model predicts for a method query: Some(data) / None
fn predict(v: &View, d: i64, f: i64, scope: i64) -> Option<i64> {
  let vm_lookup = |dd: i64, ff: i64| v.vm.iter().find(|(u, _)| qm(dd, ff, *u)).map(|x| x.1);
  let via = |e: &(bool, U, i64)| if e.0 { Some(e.2) } else { vm_lookup(e.1.d, e.1.f) };
  match scope {
    0 => vm_lookup(d, f),
    1..=5 => v.rels[(scope - 1) as usize].iter().find(|e| qm(d, f, e.1)).and_then(via),
    _ => match v.rels.iter().flatten().find(|e| qm(d, f, e.1)) { Some(e) => via(e), None => vm_lookup(d, f) },
  }
}

fn after(doc: &CoreDocument, queries: &[(i64, i64)], obs: &mut Vec<i64>, why: &mut Option<String>, known: &mut bool) {
  let rt = match doc.to_json().ok().and_then(|j| CoreDocument::from_json(&j).ok()) { Some(b) => b == *doc, None => false };
  obs.push(rt as i64);
  if !rt { why.get_or_insert("document does not survive its JSON round trip".into()); }
  let v = view(doc);
  if let Some(w) = invariant(&v) { why.get_or_insert(w); }
  obs.push(v.vm.len() as i64); for (u, x) in &v.vm { put_u(obs, *u); obs.push(*x); }
  for r in &v.rels { obs.push(r.len() as i64); for (e, u, x) in r { if *e { obs.push(0); put_u(obs, *u); obs.push(*x); } else { obs.push(1); put_u(obs, *u); } } }
  obs.push(v.svc.len() as i64); for (u, x) in &v.svc { put_u(obs, *u); obs.push(*x); }
  let amb = ambiguous(&v);
  if amb { *known = true; }
  let scopes: [Option<MethodScope>; 7] = [None, Some(scope_of(0)), Some(scope_of(1)), Some(scope_of(2)), Some(scope_of(3)), Some(scope_of(4)), Some(scope_of(5))];
  for (d, f) in queries {
    let q = qstr(*d, *f);
    for (k, sc) in scopes.iter().enumerate() {
      let got = doc.resolve_method(q.as_str(), *sc);
      match got { Some(m) => { obs.push(1); put_u(obs, uints(m.id())); obs.push(data_of(m)); } None => obs.push(0) }
      // every overload of the query argument must select the same entry as the text does: &String, &DIDUrl, DIDUrl (owned), &RelativeDIDUrl
      if k <= 2 { let ids = |x: Option<&VerificationMethod>| x.map(|m| m.id().to_string());
        let want_id = ids(got);
        if ids(doc.resolve_method(&q, *sc)) != want_id { why.get_or_insert(format!("resolve_method(&String {:?}) selects another entry than the &str query", q)); }
        if let Ok(u) = DIDUrl::parse(&q) { if ids(doc.resolve_method(&u, *sc)) != want_id { why.get_or_insert(format!("resolve_method(&DIDUrl {:?}) selects another entry than the text query", q)); }
          if ids(doc.resolve_method(u.clone(), *sc)) != want_id { why.get_or_insert(format!("resolve_method(DIDUrl {:?}) (owned) selects another entry than the text query", q)); }
          if k == 0 && doc.resolve_service(u.clone()).map(|s| s.id().to_string()) != doc.resolve_service(q.as_str()).map(|s| s.id().to_string()) { why.get_or_insert(format!("resolve_service(DIDUrl {:?}) (owned) selects another entry than the text query", q)); }
          if k == 0 && doc.resolve_service(&u).map(|s| s.id().to_string()) != doc.resolve_service(q.as_str()).map(|s| s.id().to_string()) { why.get_or_insert(format!("resolve_service(&DIDUrl {:?}) selects another entry than the text query", q)); } }
        if *d < 0 { if let Ok(u) = DIDUrl::parse(format!("{}{}", DIDS[1], q)) { if ids(doc.resolve_method(u.url(), *sc)) != want_id { why.get_or_insert(format!("resolve_method(&RelativeDIDUrl {:?}) selects another entry than the text query", q)); } } } }
      let pscope = if k == 0 { 9 } else { (k - 1) as i64 };
      let want = predict(&v, *d, *f, pscope);
      if !amb && got.map(data_of) != want { why.get_or_insert(format!("resolve_method({:?}, scope {}) differs from the set-of-entries prediction", q, k)); }
      // ids that differ only in path/query: a query by full id must still return the entry with exactly that id
      if amb && *d >= 0 && k <= 1 { if let Some(exact) = v.vm.iter().find(|(u, _)| *u == (U { d: *d, r: 0, f: *f })) { if got.map(data_of) != Some(exact.1) { why.get_or_insert(format!("resolve_method({:?}) returns an entry whose id differs from the queried id in its path", q)); } } }
    }
    let gs = doc.resolve_service(q.as_str());
    match gs { Some(s) => { obs.push(1); put_u(obs, uints(s.id())); obs.push(sdata_of(s)); } None => obs.push(0) }
    let ws = v.svc.iter().find(|(u, _)| qm(*d, *f, *u)).map(|x| x.1);
    if !amb && gs.map(sdata_of) != ws { why.get_or_insert(format!("resolve_service({:?}) differs from the set-of-entries prediction", q)); }
  }
  for sc in scopes.iter() { let ms = doc.methods(*sc); obs.push(ms.len() as i64); for m in ms { put_u(obs, uints(m.id())); } }
}

/// kind -9: a query TEXT against a list of ids (DID, fragment): services of one document, methods of another; the first match
fn exec_query(case: &[i64]) -> Outcome {
  let mut v = &case[1..];
  let q = String::from_utf8_lossy(&take_bytes(&mut v).unwrap()).to_string();
  let n = take1(&mut v).unwrap(); let mut ids: Vec<String> = vec![];
  for _ in 0..n { let d = String::from_utf8_lossy(&take_bytes(&mut v).unwrap()).to_string(); let hf = take1(&mut v).unwrap(); let f = String::from_utf8_lossy(&take_bytes(&mut v).unwrap()).to_string(); ids.push(if hf != 0 { format!("{d}#{f}") } else { d }); }
  let svc: Vec<Value> = ids.iter().map(|id| json!({"id": id, "type": "T", "serviceEndpoint": "https://s.example/"})).collect();
  let vms: Vec<Value> = ids.iter().map(|id| json!({"id": id, "controller": DIDS[1], "type": "Ed25519VerificationKey2018", "publicKeyMultibase": "zDATA"})).collect();
  let (ds, dm) = match (CoreDocument::from_json_value(json!({"id": DIDS[1], "service": svc})), CoreDocument::from_json_value(json!({"id": DIDS[1], "verificationMethod": vms}))) { (Ok(a), Ok(b)) => (a, b), _ => return Outcome::new(vec![-6]).class("query-doc-rejected").trivial() };
  let pos = |id: Option<String>| id.and_then(|i| ids.iter().position(|x| *x == i)).map_or(-1, |p| p as i64);
  let rs = pos(ds.resolve_service(q.as_str()).map(|s| s.id().to_string()));
  let rm = pos(dm.resolve_method(q.as_str(), None).map(|m| m.id().to_string()));
  let mut o = Outcome::new(vec![rs]).class(if rs >= 0 { "query-found" } else { "query-none" });
  if rs != rm { o = o.fail("resolve_service and resolve_method answer the same query text differently over the same ids"); }
  // what the statement demands of the three query forms: full id, #fragment, bare fragment
  for (k, id) in ids.iter().enumerate() { if let Some((d, f)) = id.split_once('#') { if f.is_empty() || f.contains('#') { continue; }
    let first_same_frag = ids.iter().position(|x| x.split_once('#').map(|p| p.1) == Some(f)).unwrap();
    let first_same_id = ids.iter().position(|x| x == id).unwrap();
    if q == *id && rs != first_same_id as i64 && k == first_same_id { o = o.fail("an entry is not found by its full id"); }
    if (q == format!("#{f}") || (q == f && !f.starts_with("did:"))) && rs != first_same_frag as i64 && k == first_same_frag { o = o.fail("an entry is not found by its fragment (with or without the leading #)"); }
    let _ = d; } }
  o
}
pub fn exec(case: &[i64]) -> Outcome {
  if case.first() == Some(&-9) { return exec_query(case); }
  let mut v = case;
  let n = take1(&mut v).unwrap(); let mut vm = Vec::new(); for _ in 0..n { let u = take_u(&mut v); let x = take1(&mut v).unwrap(); vm.push(meth_json(u, x)); }
  let mut rels: Vec<Vec<Value>> = Vec::new();
  for _ in 0..5 { let n = take1(&mut v).unwrap(); let mut l = Vec::new(); for _ in 0..n { let t = take1(&mut v).unwrap(); let u = take_u(&mut v); if t == 0 { let x = take1(&mut v).unwrap(); l.push(meth_json(u, x)); } else { l.push(json!(ustr(u))); } } rels.push(l); }
  let n = take1(&mut v).unwrap(); let mut svc = Vec::new(); for _ in 0..n { let u = take_u(&mut v); let x = take1(&mut v).unwrap(); svc.push(svc_json(u, x)); }
  let nq = take1(&mut v).unwrap(); let mut queries = Vec::new(); for _ in 0..nq { queries.push((take1(&mut v).unwrap(), take1(&mut v).unwrap())); }
  // controller: absent, a string, a one-element array, a two-element array (all accepted spellings), picked by the shape of the case
  let ctrl_form = (vm.len() + 2 * svc.len() + nq as usize) % 4;
  let mut j = json!({"id": DIDS[1], "verificationMethod": vm, "authentication": rels[0], "assertionMethod": rels[1], "keyAgreement": rels[2], "capabilityDelegation": rels[3], "capabilityInvocation": rels[4], "service": svc});
  match ctrl_form { 1 => { j["controller"] = json!(DIDS[2]); } 2 => { j["controller"] = json!([DIDS[2]]); } 3 => { j["controller"] = json!([DIDS[2], DIDS[1]]); } _ => {} }
  // the builder is a second acceptance route: it must accept exactly the documents deserialisation accepts, and build an equal document
  let via_builder: Option<CoreDocument> = (|| {
    let mut b = CoreDocument::builder(Default::default()).id(DIDS[1].parse().ok()?);
    if ctrl_form >= 1 { b = b.controller(DIDS[2].parse().ok()?); } if ctrl_form == 3 { b = b.controller(DIDS[1].parse().ok()?); }
    for m in &vm { b = b.verification_method(serde_json::from_value(m.clone()).ok()?); }
    for (k, l) in rels.iter().enumerate() { for e in l { let r: MethodRef = serde_json::from_value(e.clone()).ok()?;
      b = match k { 0 => b.authentication(r), 1 => b.assertion_method(r), 2 => b.key_agreement(r), 3 => b.capability_delegation(r), _ => b.capability_invocation(r) }; } }
    for sv in &svc { b = b.service(serde_json::from_value(sv.clone()).ok()?); }
    b.build().ok() })();
  let mut doc = match CoreDocument::from_json(&j.to_string()) { Ok(d) => d, Err(_) => { let o = Outcome::new(vec![0]).class("start-rejected"); return if via_builder.is_some() { o.fail("DocumentBuilder::build accepts a document that deserialisation rejects") } else { o.trivial() }; } };
  match &via_builder { None => return Outcome::new(vec![1]).class("start-routes-disagree").fail("DocumentBuilder::build rejects a document that deserialisation accepts"), Some(b) => if *b != doc && !(ctrl_form == 2 && { let mut d2 = doc.clone(); *d2.controller_mut() = b.controller().cloned(); *b == d2 }) { return Outcome::new(vec![1]).class("start-routes-disagree").fail("builder and deserialisation give different documents"); } }
  let mut obs = vec![1]; let mut why: Option<String> = None; let mut known = false;
  after(&doc, &queries, &mut obs, &mut why, &mut known);
  // the IotaDocument wrappers must track the core document exactly: same histories on a shadow IotaDocument
  let mut shadow: Option<identity_iota_core::IotaDocument> = identity_iota_core::IotaDocument::from_json_value(json!({"doc": j, "meta": {}})).ok();
  if shadow.is_none() { why.get_or_insert("IotaDocument rejects a document body that CoreDocument accepts (id and controllers are IOTA DIDs)".into()); }
  let (mut refused, mut changed) = (false, false);
  while !v.is_empty() {
    let t = take1(&mut v).unwrap();
    let before = doc.clone();
    let mut was_refused = false;
    match t {
      0 => { let u = take_u(&mut v); let x = take1(&mut v).unwrap(); let s = take1(&mut v).unwrap();
             let m: VerificationMethod = serde_json::from_value(meth_json(u, x)).unwrap();
             if let Some(sh) = shadow.as_mut() { let r2 = sh.insert_method(m.clone(), scope_of(s)); let r1 = doc.clone().insert_method(m.clone(), scope_of(s)); if r1.is_ok() != r2.is_ok() { why.get_or_insert("IotaDocument::insert_method answers differently from CoreDocument::insert_method".into()); } }
             match doc.insert_method(m, scope_of(s)) {
               Ok(()) => { obs.push(0); if doc.resolve_method(ustr(u).as_str(), Some(scope_of(s))).map(data_of) != Some(x) && !ambiguous(&view(&doc)) { why.get_or_insert("inserted method does not resolve in its scope".into()); } }
               Err(_) => { obs.push(1); was_refused = true; } } }
      1 => { let u = take_u(&mut v); let id = DIDUrl::parse(ustr(u)).unwrap();
             if let Some(sh) = shadow.as_mut() { let r2 = if u.f % 2 == 0 { sh.remove_method_and_scope(&id).map(|x| x.0) } else { sh.remove_method(&id) }; let r1 = doc.clone().remove_method(&id); if r1 != r2 { why.get_or_insert("IotaDocument::remove_method answers differently from CoreDocument::remove_method".into()); } }
             match doc.remove_method_and_scope(&id) {
               Some((m, s)) => { obs.extend([1, data_of(&m), (0..6).find(|z| scope_of(*z) == s).unwrap()]); let vw = view(&doc); if vw.vm.iter().any(|e| e.0 == u) || vw.rels.iter().flatten().any(|e| e.1 == u) { why.get_or_insert("removed method id still present in the document".into()); } }
               None => { obs.push(0); let vb = view(&before); was_refused = !(vb.vm.iter().any(|e| e.0 == u) || vb.rels.iter().flatten().any(|e| e.1 == u)); } } }
      2 => { let u = take_u(&mut v); let x = take1(&mut v).unwrap(); let s: Service = serde_json::from_value(svc_json(u, x)).unwrap();
             if let Some(sh) = shadow.as_mut() { let r2 = sh.insert_service(s.clone()); let r1 = doc.clone().insert_service(s.clone()); if r1.is_ok() != r2.is_ok() { why.get_or_insert("IotaDocument::insert_service answers differently from CoreDocument::insert_service".into()); } }
             match doc.insert_service(s) { Ok(()) => obs.push(0), Err(_) => { obs.push(1); was_refused = true; } } }
      3 => { let u = take_u(&mut v); let id = DIDUrl::parse(ustr(u)).unwrap();
             if let Some(sh) = shadow.as_mut() { let r2 = sh.remove_service(&id); let r1 = doc.clone().remove_service(&id); if r1 != r2 { why.get_or_insert("IotaDocument::remove_service answers differently from CoreDocument::remove_service".into()); } }
             match doc.remove_service(&id) { Some(s) => obs.extend([1, sdata_of(&s)]), None => { obs.push(0); was_refused = true; } } }
      _ => { let d = take1(&mut v).unwrap(); let f = take1(&mut v).unwrap(); let rl = take1(&mut v).unwrap(); let q = qstr(d, f);
             if let Some(sh) = shadow.as_mut() { let r2 = if t == 4 { sh.attach_method_relationship(q.as_str(), RELS[(rl - 1) as usize]) } else { sh.detach_method_relationship(q.as_str(), RELS[(rl - 1) as usize]) };
               let mut dc = doc.clone(); let r1 = if t == 4 { dc.attach_method_relationship(q.as_str(), RELS[(rl - 1) as usize]) } else { dc.detach_method_relationship(q.as_str(), RELS[(rl - 1) as usize]) };
               if r1.ok() != r2.ok() { why.get_or_insert("IotaDocument::attach / detach_method_relationship answers differently from CoreDocument's".into()); } }
             let r = if t == 4 { doc.attach_method_relationship(q.as_str(), RELS[(rl - 1) as usize]) } else { doc.detach_method_relationship(q.as_str(), RELS[(rl - 1) as usize]) };
             match r { Ok(true) => obs.push(0), Ok(false) => { obs.push(2); was_refused = true; }
                       Err(identity_document::Error::InvalidMethodEmbedded) => { obs.push(3); was_refused = true; } Err(_) => { obs.push(1); was_refused = true; } } }
    }
    if was_refused { refused = true; if doc != before { why.get_or_insert("refused operation changed the document".into()); } } else { changed = true; }
    after(&doc, &queries, &mut obs, &mut why, &mut known);
    if let Some(sh) = shadow.as_ref() {
      if sh.core_document() != &doc { why.get_or_insert("after the same history the IotaDocument's core document differs from the CoreDocument".into()); }
      for (d, f) in queries.iter().take(3) { let q = qstr(*d, *f); for sc in [None, Some(scope_of(0)), Some(scope_of(1)), Some(scope_of(5))] { if sh.resolve_method(q.as_str(), sc) != doc.resolve_method(q.as_str(), sc) { why.get_or_insert("IotaDocument::resolve_method differs from CoreDocument::resolve_method".into()); } }
        if sh.resolve_service(q.as_str()) != doc.resolve_service(q.as_str()) { why.get_or_insert("IotaDocument::resolve_service differs from CoreDocument::resolve_service".into()); } }
      if sh.methods(None).len() != doc.methods(None).len() { why.get_or_insert("IotaDocument::methods differs from CoreDocument::methods".into()); }
    }
  }
  let mut o = Outcome::new(obs).class("history");
  if !(refused && changed) { o = o.trivial(); }
  if known { o = o.known("K_path_ambiguous"); }
  match why { Some(w) => o.fail(&w), None => o }
}

// ---- generation ----
#[derive(Clone)]
pub struct Start { pub vm: Vec<(U, i64)>, pub rels: [Vec<(bool, U, i64)>; 5], pub svc: Vec<(U, i64)> }
pub fn enc_start(s: &Start, queries: &[(i64, i64)]) -> Vec<i64> {
  let mut c = vec![s.vm.len() as i64]; for (u, x) in &s.vm { c.extend([u.d, u.r, u.f, *x]); }
  for r in &s.rels { c.push(r.len() as i64); for (e, u, x) in r { if *e { c.extend([0, u.d, u.r, u.f, *x]); } else { c.extend([1, u.d, u.r, u.f]); } } }
  c.push(s.svc.len() as i64); for (u, x) in &s.svc { c.extend([u.d, u.r, u.f, *x]); }
  c.push(queries.len() as i64); for (d, f) in queries { c.extend([*d, *f]); }
  c
}
pub fn u(d: i64, r: i64, f: i64) -> U { U { d, r, f } }
pub fn starts() -> Vec<Start> {
  let e = || -> [Vec<(bool, U, i64)>; 5] { [vec![], vec![], vec![], vec![], vec![]] };
  let mut v = vec![Start { vm: vec![], rels: e(), svc: vec![] }];
  // built: one general method referenced twice, one embedded, one service
  let mut r = e(); r[0].push((false, u(1, 0, 1), -1)); r[3].push((false, u(1, 0, 1), -1)); r[1].push((true, u(1, 0, 2), 20));
  v.push(Start { vm: vec![(u(1, 0, 1), 10)], rels: r, svc: vec![(u(1, 0, 3), 30)] });
  // odd but legal: dangling reference, reference in two relationships, foreign-DID ids, ids differing only in path
  let mut r = e(); r[0].push((false, u(1, 0, 1), -1)); r[1].push((false, u(1, 0, 1), -1)); r[2].push((true, u(2, 0, 2), 21));
  v.push(Start { vm: vec![(u(2, 0, 3), 11)], rels: r, svc: vec![] });
  let mut r = e(); r[0].push((false, u(1, 1, 1), -1)); r[1].push((true, u(1, 0, 2), 22));
  v.push(Start { vm: vec![(u(1, 0, 3), 12)], rels: r, svc: vec![(u(2, 0, 1), 31)] });
  v
}
pub const QUERIES: [(i64, i64); 8] = [(1, 1), (1, 2), (1, 3), (2, 1), (2, 2), (-1, 1), (-1, 2), (-1, 3)];

fn all_ops(small: bool) -> Vec<Vec<i64>> {
  let mut ops = Vec::new();
  let ids: Vec<U> = if small { vec![u(1, 0, 1), u(1, 0, 2), u(2, 0, 1)] } else { vec![u(1, 0, 1), u(1, 0, 2), u(1, 0, 3), u(2, 0, 1), u(1, 1, 1)] };
  for id in &ids {
    for s in (if small { vec![0i64, 1, 2] } else { vec![0, 1, 2, 3, 4, 5] }) { ops.push(vec![0, id.d, id.r, id.f, 40 + s, s]); }
    ops.push(vec![1, id.d, id.r, id.f]); ops.push(vec![2, id.d, id.r, id.f, 50]); ops.push(vec![3, id.d, id.r, id.f]);
  }
  for (d, f) in (if small { vec![(1i64, 1i64), (-1, 2), (2, 1)] } else { vec![(1, 1), (1, 2), (1, 3), (-1, 1), (-1, 2), (2, 1)] }) { for rl in (if small { vec![1i64, 2] } else { vec![1, 2, 3, 4, 5] }) { ops.push(vec![4, d, f, rl]); ops.push(vec![5, d, f, rl]); } }
  ops
}
fn seqs(ops: &[Vec<i64>], depth: usize, prefix: &mut Vec<i64>, head: &[i64], sink: &mut Sink, tag: &str) {
  if depth == 0 { let mut c = head.to_vec(); c.extend_from_slice(prefix); sink.case(c, tag); return; }
  for op in ops { let n = prefix.len(); prefix.extend_from_slice(op); seqs(ops, depth - 1, prefix, head, sink, tag); prefix.truncate(n); }
}

pub fn gen(rng: &mut Rng, thorough: bool, sink: &mut Sink) {
  // string-level queries: fragments that look like the start of a DID, repeated '#', relative forms, other DIDs
  { let frags = ["f1", "didcomm", "did", "did:x", "key-1", "DID", "d", "di", "dide", "a:b", "keys/1", "k?r=2", "a/b?c"];
    let mk = |q: &str, ids: &[(usize, &str)]| -> Vec<i64> { let mut c = vec![-9]; put_bytes(&mut c, q.as_bytes()); c.push(ids.len() as i64); for (d, f) in ids { put_bytes(&mut c, DIDS[*d].as_bytes()); c.push(1); put_bytes(&mut c, f.as_bytes()); } c };
    let all: Vec<(usize, &str)> = frags.iter().map(|f| (1usize, *f)).chain(frags.iter().take(4).map(|f| (2usize, *f))).collect();
    let mut qs: Vec<String> = vec!["".into(), "#".into(), DIDS[1].into(), format!("{}#", DIDS[1]), "did".into(), "did:".into(), "#did".into()];
    for f in frags.iter() { qs.push(f.to_string()); qs.push(format!("#{f}")); qs.push(format!("{}#{f}", DIDS[1])); qs.push(format!("{}#{f}", DIDS[2])); qs.push(format!("{}/p?q=1#{f}", DIDS[1])); qs.push(format!("{}?q=1#{f}", DIDS[2])); qs.push(format!("?q#{f}")); qs.push(format!("/p#{f}")); qs.push(format!("x#y#{f}")); qs.push(format!("{f}#")); qs.push(format!("did:example:other#{f}")); qs.push(format!("{}?relativeRef=/x#{f}", DIDS[1])); qs.push(format!("{}?a=b?c#{f}", DIDS[1])); qs.push(format!("{}/p/q?r=/s#{f}", DIDS[2])); }
    for q in &qs { sink.case(mk(q, &all), "query-text"); let rev: Vec<(usize, &str)> = all.iter().rev().cloned().collect(); sink.case(mk(q, &rev), "query-text"); sink.case(mk(q, &all[3..9]), "query-text"); sink.case(mk(q, &all[8..14]), "query-text"); }
    let _ = (&rng, thorough); }
  let small = all_ops(true); let full = all_ops(false);
  for st in starts() {
    let head = enc_start(&st, &QUERIES);
    sink.case(head.clone(), "start");
    // exhaustive: every single operation of the full universe, every pair (triple in thorough) of the small one
    seqs(&full, 1, &mut Vec::new(), &head, sink, "exh-depth1");
    seqs(&small, 2, &mut Vec::new(), &head, sink, "exh-depth2");
    if thorough { seqs(&small, 3, &mut Vec::new(), &head, sink, "exh-depth3"); seqs(&full, 2, &mut Vec::new(), &head, sink, "exh-depth2-full"); }
  }
  // rejected starting documents (the gate itself)
  let e = || -> [Vec<(bool, U, i64)>; 5] { [vec![], vec![], vec![], vec![], vec![]] };
  let mut bad = Vec::new();
  let mut r = e(); r[0].push((true, u(1, 0, 1), 1)); r[1].push((true, u(1, 0, 1), 2)); bad.push(Start { vm: vec![], rels: r, svc: vec![] });
  let mut r = e(); r[0].push((true, u(1, 0, 1), 1)); r[1].push((false, u(1, 0, 1), -1)); bad.push(Start { vm: vec![], rels: r, svc: vec![] });
  let mut r = e(); r[1].push((false, u(1, 0, 1), -1)); r[3].push((true, u(1, 0, 1), 1)); bad.push(Start { vm: vec![], rels: r, svc: vec![] });
  let mut r = e(); r[0].push((true, u(1, 0, 1), 1)); bad.push(Start { vm: vec![(u(1, 0, 1), 3)], rels: r, svc: vec![] });
  bad.push(Start { vm: vec![(u(1, 0, 1), 3)], rels: e(), svc: vec![(u(1, 0, 1), 4)] });
  let mut r = e(); r[2].push((false, u(1, 0, 2), -1)); bad.push(Start { vm: vec![], rels: r, svc: vec![(u(1, 0, 2), 4)] });
  bad.push(Start { vm: vec![(u(1, 0, 1), 3), (u(1, 0, 1), 4)], rels: e(), svc: vec![] });
  let mut r = e(); r[0].push((false, u(1, 0, 1), -1)); r[0].push((false, u(1, 0, 1), -1)); bad.push(Start { vm: vec![], rels: r, svc: vec![] });
  bad.push(Start { vm: vec![(u(1, 0, 1), 3), (u(1, 1, 1), 4)], rels: e(), svc: vec![] });
  bad.push(Start { vm: vec![(u(1, 1, 1), 4), (u(1, 0, 1), 3)], rels: e(), svc: vec![] });
  for b in &bad { sink.case(enc_start(b, &QUERIES), "gate"); }
  // the whole collision table: one id in any two of the twelve places (general-purpose, embedded in each relationship, referenced from each relationship, service),
  // alone and next to an unrelated method; then a third place at random
  let place = |st: &mut Start, p: usize, id: U, data: i64| { match p { 0 => st.vm.push((id, data)), 1..=5 => st.rels[p - 1].push((true, id, data)), 6..=10 => st.rels[p - 6].push((false, id, -1)), _ => st.svc.push((id, data)) } };
  for a in 0..12usize { for b in a..12usize { for extra in [false, true] {
    let mut st = Start { vm: vec![], rels: e(), svc: vec![] };
    if extra { st.vm.push((u(1, 0, 2), 7)); }
    place(&mut st, a, u(1, 0, 1), 1); place(&mut st, b, u(1, 0, 1), 2);
    sink.case(enc_start(&st, &QUERIES[..3]), "gate-table");
    if thorough || (a + b) % 3 == 0 { let mut st3 = st.clone(); place(&mut st3, rng.below(12) as usize, u(1, 0, 1), 3); sink.case(enc_start(&st3, &QUERIES[..3]), "gate-table-3"); }
    // same fragment under another DID is a different id: must be accepted wherever a single use is
    let mut st2 = Start { vm: vec![], rels: e(), svc: vec![] }; place(&mut st2, a, u(1, 0, 1), 1); place(&mut st2, b, u(2, 0, 1), 2); sink.case(enc_start(&st2, &QUERIES[..3]), "gate-table-distinct");
  } } }
  // random walks
  let n = if thorough { 20000 } else { 1500 };
  let sts = starts();
  for _ in 0..n {
    let st = rng.pick(&sts);
    let mut c = enc_start(st, &QUERIES[..(if rng.chance(1, 3) { 8 } else { 3 })]);
    for _ in 0..rng.range(3, 40) { c.extend(rng.pick(&full)); }
    sink.case(c, "random-walk");
  }
}
