//! C18 — JWK deserialisation / projection / thumbprint / coherence against the model.
//! kinds: 1 deserialise a JSON object (kty has_ops <lp ops> <lp member ids>), member n has value "v<1000+n>"
//!        2 constructor / setter sequence (k0, ops: 0 t _ = set_kty | 1 fam priv = set_params | 2 fam priv = from_params)
use crate::common::*;
use identity_jose::jwk::*;
use identity_core::convert::FromJson;
use serde_json::{json, Map, Value};

const MEMBERS: &[(i64, &str)] = &[(1, "crv"), (2, "x"), (3, "y"), (4, "d"), (5, "n"), (6, "e"), (7, "p"), (8, "q"), (9, "dp"), (10, "dq"), (11, "qi"), (12, "oth"), (13, "k"),
  (20, "use"), (21, "key_ops"), (22, "alg"), (23, "kid"), (24, "x5u"), (25, "x5c"), (26, "x5t"), (27, "x5t#S256"), (100, "kty")];
const PRIVATE: &[&str] = &["d", "p", "q", "dp", "dq", "qi", "oth", "k"];
const OPS: &[&str] = &["sign", "verify", "encrypt", "decrypt", "wrapKey", "unwrapKey", "deriveKey", "deriveBits", "proofGeneration", "proofVerification"];
fn mname(id: i64) -> &'static str { MEMBERS.iter().find(|(i, _)| *i == id).map(|(_, n)| *n).unwrap() }
fn mid(name: &str) -> i64 { MEMBERS.iter().find(|(_, n)| *n == name).map(|(i, _)| *i).unwrap_or(-1) }
fn kty_name(c: i64) -> &'static str { ["EC", "RSA", "oct", "OKP"][c as usize] }
fn kty_code(k: JwkType) -> i64 { match k { JwkType::Ec => 0, JwkType::Rsa => 1, JwkType::Oct => 2, JwkType::Okp => 3 } }
fn family(j: &Jwk) -> i64 { match j.params() { JwkParams::Ec(_) => 0, JwkParams::Rsa(_) => 1, JwkParams::Oct(_) => 2, JwkParams::Okp(_) => 3 } }
fn mvalue(id: i64) -> Value {
  match id {
    12 => json!([{"r": "v1012", "d": "v1012", "t": "v1012"}]),
    20 => json!("sig"),
    24 => json!("https://a.example/v1024"),
    25 => json!(["v1025"]),
    _ => json!(format!("v{}", 1000 + id)),
  }
}
fn json_members(j: &Jwk) -> (Vec<i64>, Map<String, Value>) {
  let v = serde_json::to_value(j).unwrap();
  let m = v.as_object().unwrap().clone();
  let mut ids: Vec<i64> = m.keys().filter(|k| *k != "kty").map(|k| mid(k)).collect();
  ids.sort();
  (ids, m)
}
fn describe(j: &Jwk, obs: &mut Vec<i64>) { obs.extend([kty_code(j.kty()), family(j), j.is_public() as i64, j.is_private() as i64]); }
fn thumb_ids(j: &Jwk) -> Vec<i64> {
  // member names in the order they occur in the hash input
  let s = j.thumbprint_hash_input();
  let v: Value = serde_json::from_str(&s).unwrap_or(Value::Null);
  let mut ids = Vec::new();
  let mut rest = s.as_str();
  while let Some(i) = rest.find("\":\"") { let key_start = rest[..i].rfind('"').unwrap(); ids.push(mid(&rest[key_start + 1..i])); rest = &rest[i + 3..]; }
  let _ = v;
  ids
}

pub fn exec(case: &[i64]) -> Outcome {
  let mut v = &case[1..];
  match case[0] {
    1 => {
      let kty = take1(&mut v).unwrap();
      let has_ops = take1(&mut v).unwrap() != 0;
      let ops: Vec<i64> = take_lp(&mut v).unwrap().to_vec();
      let members: Vec<i64> = take_lp(&mut v).unwrap().to_vec();
      let mut m = Map::new();
      m.insert("kty".into(), json!(kty_name(kty)));
      for id in &members { m.insert(mname(*id).into(), mvalue(*id)); }
      if has_ops { m.insert("key_ops".into(), Value::Array(ops.iter().map(|o| json!(OPS[*o as usize])).collect())); }
      let src = Value::Object(m.clone());
      let j: Jwk = match serde_json::from_value(src.clone()) { Ok(j) => j, Err(_) => return Outcome::new(vec![0]).class("deser-err") };
      let mut why: Option<String> = None;
      let mut obs = vec![1];
      describe(&j, &mut obs);
      if kty_code(j.kty()) != family(&j) { why = Some("declared kty differs from the parameter family".into()); }
      let (own_ids, own_json) = json_members(&j);
      // members of other parameter families are ignored on reading; everything else must come back
      let fam_members: &[i64] = match family(&j) { 0 => &[1, 2, 3, 4], 1 => &[4, 5, 6, 7, 8, 9, 10, 11, 12], 2 => &[13], _ => &[1, 2, 4] };
      let src_kept = { let mut k = m.clone(); for id in 1..=13i64 { if !fam_members.contains(&id) { k.remove(mname(id)); } } Value::Object(k) };
      if serde_json::to_value(&j).ok().as_ref() != Some(&src_kept) { why = Some("an accepted JWK does not serialise back to the members it was read from (a member was dropped or altered)".into()); }
      let has_private = own_json.keys().any(|k| PRIVATE.contains(&k.as_str()));
      if j.is_public() == has_private { why = Some("is_public differs from 'has no private member'".into()); }
      // thumbprint: only the required public members, lexicographic, unaffected by the rest
      let t_ids = thumb_ids(&j);
      let expect_t: Vec<i64> = match family(&j) { 0 => vec![1, 100, 2, 3], 1 => vec![6, 100, 5], 2 => vec![13, 100], _ => vec![1, 100, 2] };
      if t_ids != expect_t { why = Some("thumbprint input is not the required members in lexicographic order".into()); }
      { // same key stripped of every optional and private member has the same thumbprint
        let mut bare = Map::new();
        bare.insert("kty".into(), json!(kty_name(kty)));
        for id in &expect_t { if *id != 100 { bare.insert(mname(*id).into(), mvalue(*id)); } }
        if let Ok(b) = serde_json::from_value::<Jwk>(Value::Object(bare)) { if family(&b) == family(&j) && b.thumbprint_sha256() != j.thumbprint_sha256() { why = Some("thumbprint depends on optional or private members".into()); } }
      }
      match j.to_public() {
        None => { obs.push(0); if family(&j) != 2 { why = Some("to_public refused a key that has a public part".into()); } }
        Some(p) => {
          obs.push(1); obs.push(kty_code(p.kty()));
          let (p_ids, p_json) = json_members(&p);
          put_lp(&mut obs, &p_ids);
          match p.key_ops() { Some(o) => { obs.push(1); put_lp(&mut obs, &o.iter().map(|x| OPS.iter().position(|n| *n == x.name()).unwrap() as i64).collect::<Vec<_>>()); } None => obs.extend([0, 0]) }
          let pp = p.to_public();
          let idem = pp.as_ref() == Some(&p);
          obs.push(idem as i64);
          if !idem { why = Some("public projection is not idempotent".into()); }
          if p_json.keys().any(|k| PRIVATE.contains(&k.as_str())) { why = Some("public projection contains a private member".into()); }
          if !p.is_public() { why = Some("public projection does not report itself public".into()); }
          if kty_code(p.kty()) != family(&j) { why = Some("public projection changed the key type".into()); }
          for id in &expect_t { if *id != 100 && p_json.get(mname(*id)) != own_json.get(mname(*id)) { why = Some("public projection lost a public parameter".into()); } }
          if p.thumbprint_sha256() != j.thumbprint_sha256() && kty_code(j.kty()) == family(&j) { why = Some("thumbprint changes with the private part".into()); }
          // a verification method accepts exactly public keys
          let did = identity_did::CoreDID::parse("did:example:123").unwrap();
          let m_priv = identity_verification::VerificationMethod::new_from_jwk(did.clone(), j.clone(), Some("#k"));
          if m_priv.is_ok() == has_private { why = Some("verification method constructor accepted a key with private members / refused a public one".into()); }
          if let Ok(vm) = m_priv { let s = serde_json::to_string(&vm).unwrap(); if PRIVATE.iter().any(|pn| s.contains(&format!("\"{}\":", pn))) { why = Some("verification method carries a private member".into()); } }
          // the other constructors: the builder, and the did:jwk conversions (TryFrom<DIDJwk>, CoreDocument::expand_did_jwk)
          let leaks = |s: &str| PRIVATE.iter().any(|pn| s.contains(&format!("\"{}\":", pn)));
          let built = identity_verification::VerificationMethod::builder(Default::default()).id(identity_did::DIDUrl::parse("did:example:123#k").unwrap()).controller(did.clone()).type_(identity_verification::MethodType::JSON_WEB_KEY_2020).data(identity_verification::MethodData::PublicKeyJwk(j.clone())).build();
          if built.is_ok() == has_private { why = Some("MethodBuilder accepted a key with private members / refused a public one".into()); }
          if let Ok(vm) = built { if leaks(&serde_json::to_string(&vm).unwrap()) { why = Some("verification method built by MethodBuilder carries a private member".into()); } }
          if kty_code(j.kty()) == family(&j) { if let Ok(dj) = format!("did:jwk:{}", identity_jose::jwu::encode_b64(serde_json::to_vec(&j).unwrap())).parse::<identity_did::DIDJwk>() {
            if let Ok(vm) = identity_verification::VerificationMethod::try_from(dj.clone()) { if leaks(&serde_json::to_string(&vm).unwrap()) { why = Some("verification method converted from a did:jwk carries a private member".into()); } }
            if let Ok(doc) = identity_document::document::CoreDocument::expand_did_jwk(dj) { if leaks(&serde_json::to_string(&doc).unwrap()) { why = Some("document expanded from a did:jwk carries a private member".into()); } } } }
        }
      }
      put_lp(&mut obs, &t_ids);
      put_lp(&mut obs, &own_ids);      // the members the accepted key itself serialises to
      let o = Outcome::new(obs).class(if has_private { "deser-ok-private" } else { "deser-ok-public" });
      match why { Some(w) => o.fail(&w), None => o }
    }
    2 => {
      let kt = |c: i64| [JwkType::Ec, JwkType::Rsa, JwkType::Oct, JwkType::Okp][c as usize];
      let mk = |fam: i64, private: bool| -> JwkParams {
        let d = if private { Some("v1004".to_string()) } else { None };
        match fam {
          0 => { let mut p = JwkParamsEc::new(); p.crv = "v1001".into(); p.x = "v1002".into(); p.y = "v1003".into(); p.d = d; p.into() }
          1 => { let mut p = JwkParamsRsa::new(); p.n = "v1005".into(); p.e = "v1006".into(); p.d = d; p.into() }
          2 => { let mut p = JwkParamsOct::new(); p.k = "v1013".into(); p.into() }
          _ => { let mut p = JwkParamsOkp::new(); p.crv = "v1001".into(); p.x = "v1002".into(); p.d = d; p.into() }
        }
      };
      let mut j = Jwk::new(kt(v[0]));
      let mut obs = Vec::new();
      let mut why: Option<&str> = None; let mut used_params_mut = false;
      describe(&j, &mut obs);
      let mut ops = &v[1..];
      while ops.len() >= 3 {
        let (t, a, b) = (ops[0], ops[1], ops[2]); ops = &ops[3..];
        match t {
          0 => { j.set_kty(kt(a)); obs.push(1); }
          1 => { let before = j.clone(); match j.set_params(mk(a, b != 0)) { Ok(()) => obs.push(1), Err(_) => { obs.push(0); if j != before { why = Some("refused set_params changed the key"); } } } }
          3 => { *j.params_mut() = mk(a, b != 0); obs.push(1); used_params_mut = true; }      // whole-value assignment through the mutable accessor
          _ => { j = Jwk::from_params(mk(a, b != 0)); obs.push(1); }
        }
        describe(&j, &mut obs);
        if kty_code(j.kty()) != family(&j) { why = Some("declared kty differs from the parameter family"); }
      }
      let mut o = Outcome::new(obs).class("setters");
      if used_params_mut { o = o.known("K_params_mut"); }
      match why { Some(w) => o.fail(w), None => o }
    }
    3 => {
      // conversion from the JSON-proof-token key type (jwk_ext.rs): [declared kty, shape 0 EC / 1 OKP, private, x5u 0 none / 1 url / 2 not a url, kid]
      let (decl, shape, private, x5u, kid) = (v[0], v[1], v[2] != 0, v[3], v[4] != 0);
      let mut m = Map::new(); m.insert("kty".into(), json!(kty_name(decl))); m.insert("crv".into(), json!("BLS12381G2")); m.insert("x".into(), json!("v1002"));
      if shape == 0 { m.insert("y".into(), json!("v1003")); } if private { m.insert("d".into(), json!("v1004")); } if kid { m.insert("kid".into(), json!("v1023")); }
      match x5u { 1 => { m.insert("x5u".into(), json!("https://a.example/v1024")); } 2 => { m.insert("x5u".into(), json!("not a url")); } _ => {} }
      let ext: jsonprooftoken::jwk::key::Jwk = match serde_json::from_value(Value::Object(m)) { Ok(e) => e, Err(_) => return Outcome::new(vec![-4]).class("foreign-rejected").trivial() };
      let is_ec = matches!(ext.key_params, jsonprooftoken::jwk::alg_parameters::JwkAlgorithmParameters::EllipticCurve(_));
      if is_ec != (shape == 0) { return Outcome::new(vec![-4]).class("foreign-other-variant").trivial(); }
      match Jwk::try_from(ext) {
        Err(_) => Outcome::new(vec![0]).class("foreign-refused"),
        Ok(j) => {
          let mut obs = vec![1]; describe(&j, &mut obs); let (ids, _) = json_members(&j);
          // BLS curve name is member 1 like any crv
          put_lp(&mut obs, &ids);
          let mut o = Outcome::new(obs).class("foreign-converted");
          if kty_code(j.kty()) != family(&j) { o = o.fail("declared kty differs from the parameter family after conversion from the foreign key type"); }
          else if Jwk::from_json_value(serde_json::to_value(&j).unwrap()).ok().as_ref() != Some(&j) { o = o.fail("converted key does not survive its own JSON round trip"); }
          else if j.to_public().map(|p| p.kty()) != Some(j.kty()) { o = o.fail("to_public changes the key type of a converted key"); }
          o
        }
      }
    }
    4 => {
      // byte-level RFC 7638 thumbprint against the model's SHA-256: [declared kty, family, n, (name, value)*]
      let (kty, fam, n) = (v[0], v[1], v[2]); let mut w = &v[3..];
      let mut m = Map::new(); m.insert("kty".into(), json!(kty_name(kty)));
      for _ in 0..n { let name = String::from_utf8(take_bytes(&mut w).unwrap()).unwrap(); let val = String::from_utf8(take_bytes(&mut w).unwrap()).unwrap(); if !m.contains_key(&name) { m.insert(name, json!(val)); } }
      let j: Jwk = match serde_json::from_value(Value::Object(m)) { Ok(j) => j, Err(_) => return Outcome::new(vec![-4]).class("thumb-key-rejected").trivial() };
      if kty_code(j.kty()) != kty || family(&j) != fam { return Outcome::new(vec![-4]).class("thumb-other-family").trivial(); }
      let mut obs = vec![]; put_bytes(&mut obs, j.thumbprint_hash_input().as_bytes()); put_bytes(&mut obs, j.thumbprint_sha256_b64().as_bytes());
      let mut o = Outcome::new(obs).class("thumbprint-bytes");
      if identity_jose::jwu::decode_b64(j.thumbprint_sha256_b64()).ok().as_deref() != Some(&j.thumbprint_sha256()[..]) { o = o.fail("thumbprint_sha256_b64 is not the base64url form of thumbprint_sha256"); }
      if let Some(p) = j.to_public() { if p.thumbprint_sha256_b64() != j.thumbprint_sha256_b64() { o = o.fail("thumbprint changes with the private part"); } }
      o
    }
    _ => Outcome::new(vec![-998]).fail("bad case kind"),
  }
}

fn subsets(xs: &[i64]) -> Vec<Vec<i64>> { (0..(1u32 << xs.len())).map(|m| xs.iter().enumerate().filter(|(i, _)| m >> i & 1 == 1).map(|(_, x)| *x).collect()).collect() }

pub fn gen(rng: &mut Rng, thorough: bool, sink: &mut Sink) {
  let mut emit = |sink: &mut Sink, kty: i64, ops: Option<Vec<i64>>, members: Vec<i64>, tag: &str| {
    let mut c = vec![1, kty, ops.is_some() as i64]; put_lp(&mut c, &ops.unwrap_or_default()); put_lp(&mut c, &members); sink.case(c, tag);
  };
  let opt_sets: Vec<Vec<i64>> = vec![vec![], vec![20], vec![22, 23], vec![20, 22, 23, 24, 25, 26, 27]];
  let op_sets: Vec<Option<Vec<i64>>> = vec![None, Some(vec![0]), Some(vec![1]), Some(vec![0, 1]), Some(vec![6, 2]), Some(vec![])];
  // every subset of private members for each family, under every declared kty (mismatches included)
  for kty in 0..4 {
    for sub in subsets(&[4, 7, 8, 9, 10, 11, 12]) { for (i, opt) in opt_sets.iter().enumerate() {
      let mut m = vec![5, 6]; m.extend(&sub); m.extend(opt);
      emit(sink, kty, op_sets[(i + sub.len()) % op_sets.len()].clone(), m, "rsa-private-subsets");
    } }
    for d in [vec![], vec![4]] { for opt in &opt_sets { for ops in &op_sets {
      let mut m = vec![1, 2, 3]; m.extend(&d); m.extend(opt); emit(sink, kty, ops.clone(), m, "ec");
      let mut m = vec![1, 2]; m.extend(&d); m.extend(opt); emit(sink, kty, ops.clone(), m, "okp");
      let mut m = vec![13]; m.extend(&d); m.extend(opt); emit(sink, kty, ops.clone(), m, "oct");
    } } }
    // parameter-family mixtures and missing required members
    for sub in subsets(&[1, 2, 3, 5, 6, 13, 4]) { emit(sink, kty, None, sub, "member-lattice"); }
  }
  // conversion from the foreign (JSON-proof-token) key type: every declared kty x variant x private x x5u x kid
  for decl in 0..4 { for shape in 0..2 { for private in 0..2 { for x5u in 0..3 { for kid in 0..2 { sink.case(vec![3, decl, shape, private, x5u, kid], "foreign-conversion"); } } } } }
  // byte-level thumbprints: real-looking and degenerate values of every length class (SHA-256 block boundaries: 55 / 56 / 64 / 119 / 120 bytes of input),
  // optional and private members present or not, members in any order
  { let b64 = |rng: &mut Rng, n: usize| -> String { (0..n).map(|_| *rng.pick(&"ABCXYZabcxyz0189-_".chars().collect::<Vec<char>>())).collect() };
    let fams: [(i64, &[&str], &[&str]); 4] = [(0, &["crv", "x", "y"], &["d"]), (1, &["n", "e"], &["d", "p", "q", "dp", "dq", "qi"]), (2, &["k"], &[]), (3, &["crv", "x"], &["d"])];
    let lens: Vec<usize> = if thorough { (0..140).collect() } else { vec![0, 1, 2, 3, 10, 11, 20, 21, 22, 30, 31, 32, 33, 40, 43, 44, 54, 55, 56, 57, 63, 64, 65, 86, 100, 118, 119, 120, 121, 128, 342] };
    for (fam, req, privs) in fams.iter() { for &len in &lens { for variant in 0..6 {
      let mut ms: Vec<(String, String)> = req.iter().map(|r| (r.to_string(), if *r == "crv" { ["P-256", "Ed25519", "secp256k1", "", "X"][len % 5].to_string() } else if *r == "e" { "AQAB".to_string() } else { b64(rng, len) })).collect();
      if variant & 1 == 1 { for p in privs.iter() { ms.push((p.to_string(), b64(rng, 8))); } ms.push(("kid".into(), "some-kid".into())); ms.push(("alg".into(), "EdDSA".into())); }
      if variant & 2 == 2 { ms.reverse(); }
      // a kid that LOOKS like a thumbprint (43 base64url characters: the RFC 7638 example's) but is not this key's
      if variant >= 4 { ms.push(("kid".into(), "NzbLsXh8uDCcd-6MNwXF4W_7noWXFZAfHkxZsRGC9Xs".into())); if variant == 5 { ms.reverse(); } }
      let mut c = vec![4, *fam, *fam, ms.len() as i64]; for (n, v) in &ms { put_bytes(&mut c, n.as_bytes()); put_bytes(&mut c, v.as_bytes()); } sink.case(c, "thumbprint-bytes");
    } } }
    // values that a JSON writer would escape: the format string inserts them verbatim
    for val in ["a\"b", "a\\b", "\u{e9}", "a b", "{", "\n"] { let mut c = vec![4, 3, 3, 2]; put_bytes(&mut c, b"crv"); put_bytes(&mut c, b"Ed25519"); put_bytes(&mut c, b"x"); put_bytes(&mut c, val.as_bytes()); sink.case(c, "thumbprint-verbatim"); } }
  // constructor / setter sequences, exhaustive to depth 2 (3 in thorough), random beyond
  let mut steps: Vec<[i64; 3]> = Vec::new();
  for t in 0..4 { steps.push([0, t, 0]); for p in 0..2 { steps.push([1, t, p]); steps.push([2, t, p]); } }
  for k0 in 0..4 { for a in &steps { for b in &steps {
    let mut c = vec![2, k0]; c.extend(a); c.extend(b); sink.case(c, "setters-depth2");
    if thorough { for d in &steps { let mut c = vec![2, k0]; c.extend(a); c.extend(b); c.extend(d); sink.case(c, "setters-depth3"); } }
  } } }
  // whole-value assignment through params_mut(): every family over every declared type, alone and followed by each checked step
  for k0 in 0..4 { for fam in 0..4 { for p in 0..2 { sink.case(vec![2, k0, 3, fam, p], "params-mut-assign"); for a in &steps { let mut c = vec![2, k0, 3, fam, p]; c.extend(a); sink.case(c, "params-mut-assign"); } } } }
  for _ in 0..(if thorough { 5000 } else { 500 }) {
    let mut c = vec![2, rng.range(0, 3)];
    for _ in 0..rng.range(3, 12) { c.extend(rng.pick(&steps)); }
    sink.case(c, "setters-random");
  }
}
