//! C14 — IOTA state-metadata pack / unpack against the model.
//! see coq/theories/Run/C14Run.v for the case encoding.
use crate::common::*;
use identity_core::common::Timestamp;
use identity_core::convert::{FromJson, ToJson};
use identity_iota_core::{Error as IErr, IotaDID, IotaDocument, StateMetadataDocument};
use serde_json::{json, Map, Value};

const DIDS: [(i64, &str); 13] = [
  (0, "did:0:0"),
  (1, "did:iota:0x1111111111111111111111111111111111111111111111111111111111111111"),
  (2, "did:iota:0x2222222222222222222222222222222222222222222222222222222222222222"),
  (3, "did:iota:smr:0x3333333333333333333333333333333333333333333333333333333333333333"),
  (4, "did:iota:rms:0x4444444444444444444444444444444444444444444444444444444444444444"),
  (5, "did:iota:0x5555555555555555555555555555555555555555555555555555555555555555"),
  // foreign DIDs that share the 32-byte tag of DID 1 / DID 2 but live on another network
  (6, "did:iota:smr:0x1111111111111111111111111111111111111111111111111111111111111111"),
  (7, "did:iota:rms:0x2222222222222222222222222222222222222222222222222222222222222222"),
  // a NON-normal spelling of DID 1 (explicit default network): as a CoreDID inside the document it is a different, foreign DID
  (8, "did:iota:iota:0x1111111111111111111111111111111111111111111111111111111111111111"),
  // foreign DIDs with an ALL-ZERO tag (a document that was not published yet): not the placeholder
  (9, "did:iota:0x0000000000000000000000000000000000000000000000000000000000000000"),
  (12, "did:iota:smr:0x0000000000000000000000000000000000000000000000000000000000000000"),
  (10, "did:example:abc"),
  (11, "did:web:example.com"),
];
const RESTS: [&str; 3] = ["", "/p1", "?q=1"];
const T0: i64 = 1_600_000_000;
fn did_s(d: i64) -> String { DIDS.iter().find(|x| x.0 == d).map(|x| x.1.to_string()).unwrap_or_else(|| format!("did:bad:{}", d)) }
fn did_n(s: &str) -> Option<i64> { DIDS.iter().find(|x| x.1 == s).map(|x| x.0) }

#[derive(Clone, Copy, PartialEq, Debug)] struct U { d: i64, r: i64, f: i64 }
#[derive(Clone, Copy, PartialEq, Debug)] struct M { u: U, c: i64, x: i64 }
#[derive(Clone, Copy, PartialEq, Debug)] enum E { Embed(M), Refer(U) }
#[derive(Clone, PartialEq, Debug, Default)] struct D { id: i64, ctrl: Vec<i64>, vm: Vec<M>, rels: [Vec<E>; 5], svc: Vec<(U, i64)>, aka: Vec<i64>, props: i64 }
#[derive(Clone, Copy, PartialEq, Debug)] struct Meta { c: i64, u: i64, d: i64, g: i64, s: i64, p: i64 }
const RELN: [&str; 5] = ["authentication", "assertionMethod", "keyAgreement", "capabilityDelegation", "capabilityInvocation"];

fn ustr(u: U) -> String { format!("{}{}{}", did_s(u.d), RESTS[u.r as usize], if u.f < 0 { String::new() } else { format!("#f{}", u.f) }) }
fn uparse(s: &str) -> Option<U> {
  let (head, f) = match s.split_once('#') { Some((h, f)) => (h, f.strip_prefix('f')?.parse::<i64>().ok()?), None => (s, -1) };
  for (r, rest) in RESTS.iter().enumerate().rev() { if let Some(d) = head.strip_suffix(rest) { if let Some(n) = did_n(d) { return Some(U { d: n, r: r as i64, f }); } } }
  None
}
fn aka_s(k: i64) -> String { if k >= 100 { format!("https://aka.example/{}", k) } else { did_s(k) } }
fn aka_n(s: &str) -> Option<i64> { if let Some(n) = s.strip_prefix("https://aka.example/") { n.parse().ok() } else { did_n(s) } }
fn props_v(p: i64) -> Map<String, Value> {
  let v = match p {
    0 => json!({}),
    1 => json!({"customA": did_s(1)}),
    2 => json!({"customB": {"ref": did_s(3), "n": 2}, "customC": [did_s(1), did_s(2)]}),
    3 => json!({"customA": did_s(2)}),
    4 => json!({"customU": "gr\u{fc}\u{df}e \u{20ac} \u{1f600}"}),     // non-ASCII text: the frame's length prefix counts BYTES
    p if p >= 1000 => json!({"pad": "x".repeat((p - 1000) as usize)}),
    _ => json!({"customZ": p}),
  };
  v.as_object().unwrap().clone()
}
fn props_n(m: &Map<String, Value>) -> Option<i64> {
  if let Some(Value::String(s)) = m.get("pad") { if m.len() == 1 && s.bytes().all(|b| b == b'x') { return Some(1000 + s.len() as i64); } }
  if let Some(Value::Number(n)) = m.get("customZ") { if m.len() == 1 { return n.as_i64(); } }
  (0..5).find(|p| props_v(*p) == *m)
}
fn mjson(m: &M) -> Value { json!({"id": ustr(m.u), "controller": did_s(m.c), "type": "Ed25519VerificationKey2018", "publicKeyMultibase": format!("zDATA{}", m.x)}) }
fn mparse(v: &Value) -> Option<M> {
  let o = v.as_object()?;
  if o.len() != 4 || o.get("type")?.as_str()? != "Ed25519VerificationKey2018" { return None; }
  Some(M { u: uparse(o.get("id")?.as_str()?)?, c: did_n(o.get("controller")?.as_str()?)?, x: o.get("publicKeyMultibase")?.as_str()?.strip_prefix("zDATA")?.parse().ok()? })
}
fn doc_json(d: &D) -> Value {
  let mut o = props_v(d.props);
  o.insert("id".into(), json!(did_s(d.id)));
  if !d.ctrl.is_empty() { o.insert("controller".into(), if d.ctrl.len() == 1 && (d.ctrl[0] + d.id + d.props) % 2 == 0 { json!(did_s(d.ctrl[0])) } else {   /* a single controller in both JSON spellings: string, one-element array */ json!(d.ctrl.iter().map(|c| did_s(*c)).collect::<Vec<_>>()) }); }
  if !d.aka.is_empty() { o.insert("alsoKnownAs".into(), json!(d.aka.iter().map(|k| aka_s(*k)).collect::<Vec<_>>())); }
  if !d.vm.is_empty() { o.insert("verificationMethod".into(), Value::Array(d.vm.iter().map(mjson).collect())); }
  for (k, name) in RELN.iter().enumerate() { if !d.rels[k].is_empty() { o.insert(name.to_string(), Value::Array(d.rels[k].iter().map(|e| match e { E::Embed(m) => mjson(m), E::Refer(u) => json!(ustr(*u)) }).collect())); } }
  if !d.svc.is_empty() { o.insert("service".into(), Value::Array(d.svc.iter().map(|(u, x)| json!({"id": ustr(*u), "type": "T", "serviceEndpoint": format!("https://s.example/{}", x)})).collect())); }
  Value::Object(o)
}
fn doc_parse(v: &Value) -> Option<D> {
  let mut o = v.as_object()?.clone();
  let mut d = D { id: did_n(o.remove("id")?.as_str()?)?, ..Default::default() };
  if let Some(c) = o.remove("controller") { match c { Value::String(s) => d.ctrl.push(did_n(&s)?), Value::Array(a) => { for x in a { d.ctrl.push(did_n(x.as_str()?)?); } } _ => return None } }
  if let Some(Value::Array(a)) = o.remove("alsoKnownAs") { for x in a { d.aka.push(aka_n(x.as_str()?)?); } }
  if let Some(Value::Array(a)) = o.remove("verificationMethod") { for x in a { d.vm.push(mparse(&x)?); } }
  for (k, name) in RELN.iter().enumerate() { if let Some(Value::Array(a)) = o.remove(*name) { for x in a { d.rels[k].push(match &x { Value::String(s) => E::Refer(uparse(s)?), _ => E::Embed(mparse(&x)?) }); } } }
  if let Some(Value::Array(a)) = o.remove("service") { for x in a { let s = x.as_object()?; if s.len() != 3 || s.get("type")?.as_str()? != "T" { return None; } d.svc.push((uparse(s.get("id")?.as_str()?)?, s.get("serviceEndpoint")?.as_str()?.strip_prefix("https://s.example/")?.parse().ok()?)); } }
  d.props = props_n(&o)?;
  Some(d)
}
fn ts(n: i64) -> String { Timestamp::from_unix(T0 + n).unwrap().to_rfc3339() }
fn meta_json(m: &Meta) -> Value {
  let mut o = Map::new();
  if m.c >= 0 { o.insert("created".into(), json!(ts(m.c))); }
  if m.u >= 0 { o.insert("updated".into(), json!(ts(m.u))); }
  if m.d >= 0 { o.insert("deactivated".into(), json!(m.d != 0)); }
  if m.g >= 0 { o.insert("governorAddress".into(), json!(format!("addr{}", m.g))); }
  if m.s >= 0 { o.insert("stateControllerAddress".into(), json!(format!("addr{}", m.s))); }
  if m.p > 0 { o.insert("mp".into(), json!(m.p)); }
  Value::Object(o)
}
fn meta_parse(v: &Value) -> Option<Meta> {
  let mut o = v.as_object()?.clone();
  let t = |x: Option<Value>| -> Option<i64> { match x { None => Some(-1), Some(Value::String(s)) => Some(Timestamp::parse(&s).ok()?.to_unix() - T0), _ => None } };
  let a = |x: Option<Value>| -> Option<i64> { match x { None => Some(-1), Some(Value::String(s)) => s.strip_prefix("addr")?.parse().ok(), _ => None } };
  let m = Meta { c: t(o.remove("created"))?, u: t(o.remove("updated"))?, d: match o.remove("deactivated") { None => -1, Some(Value::Bool(b)) => b as i64, _ => return None },
                 g: a(o.remove("governorAddress"))?, s: a(o.remove("stateControllerAddress"))?, p: match o.remove("mp") { None => 0, Some(x) => x.as_i64()? } };
  if o.is_empty() { Some(m) } else { None }
}
fn put_u(o: &mut Vec<i64>, u: U) { o.extend([u.d, u.r, u.f]); }
fn put_m(o: &mut Vec<i64>, m: &M) { put_u(o, m.u); o.extend([m.c, m.x]); }
fn enc_doc(o: &mut Vec<i64>, d: &D) {
  o.push(d.id); put_lp(o, &d.ctrl);
  o.push(d.vm.len() as i64); for m in &d.vm { put_m(o, m); }
  for r in &d.rels { o.push(r.len() as i64); for e in r { match e { E::Embed(m) => { o.push(0); put_m(o, m); } E::Refer(u) => { o.push(1); put_u(o, *u); } } } }
  o.push(d.svc.len() as i64); for (u, x) in &d.svc { put_u(o, *u); o.push(*x); }
  put_lp(o, &d.aka); o.push(d.props);
}
fn enc_meta(o: &mut Vec<i64>, m: &Meta) { o.extend([m.c, m.u, m.d, m.g, m.s, m.p]); }
fn tk_u(v: &mut &[i64]) -> Option<U> { Some(U { d: take1(v)?, r: take1(v)?, f: take1(v)? }) }
fn tk_m(v: &mut &[i64]) -> Option<M> { Some(M { u: tk_u(v)?, c: take1(v)?, x: take1(v)? }) }
fn dec_doc(v: &mut &[i64]) -> Option<D> {
  let mut d = D { id: take1(v)?, ctrl: take_lp(v)?.to_vec(), ..Default::default() };
  for _ in 0..take1(v)? { d.vm.push(tk_m(v)?); }
  for k in 0..5 { for _ in 0..take1(v)? { let t = take1(v)?; d.rels[k].push(if t == 0 { E::Embed(tk_m(v)?) } else { E::Refer(tk_u(v)?) }); } }
  for _ in 0..take1(v)? { let u = tk_u(v)?; d.svc.push((u, take1(v)?)); }
  d.aka = take_lp(v)?.to_vec(); d.props = take1(v)?;
  Some(d)
}
fn dec_meta(v: &mut &[i64]) -> Option<Meta> { Some(Meta { c: take1(v)?, u: take1(v)?, d: take1(v)?, g: take1(v)?, s: take1(v)?, p: take1(v)? }) }
fn build(d: &D, m: &Meta) -> Option<IotaDocument> { IotaDocument::from_json_value(json!({"doc": doc_json(d), "meta": meta_json(m)})).ok() }
fn pair_of(v: &Value) -> Option<(D, Meta)> { Some((doc_parse(v.get("doc")?)?, meta_parse(v.get("meta")?)?)) }
fn cleared(m: &Meta) -> Meta { Meta { g: -1, s: -1, ..*m } }
fn unpack_code(e: &IErr) -> i64 {
  match e { IErr::InvalidDoc(_) => 10, IErr::SerializationError(..) => 12,
    IErr::InvalidStateMetadata(s) => if s.contains("marker") { 11 } else if s.contains("version") { 13 } else if s.contains("encoding") { 14 } else { 15 }, _ => 16 }
}
/// the renaming of the property statement, done on the abstract document (no library code involved)
fn renamed(d: &D, tgt: i64) -> D {
  let f = |x: i64| if x == d.id { tgt } else { x };
  let fu = |u: U| U { d: f(u.d), ..u }; let fm = |m: &M| M { u: fu(m.u), c: f(m.c), x: m.x };
  let mut ctrl: Vec<i64> = vec![]; for c in &d.ctrl { if !ctrl.contains(&f(*c)) { ctrl.push(f(*c)); } }
  D { id: tgt, ctrl, vm: d.vm.iter().map(fm).collect(), rels: [0, 1, 2, 3, 4].map(|k| d.rels[k].iter().map(|e| match e { E::Embed(m) => E::Embed(fm(m)), E::Refer(u) => E::Refer(fu(*u)) }).collect()),
      svc: d.svc.iter().map(|(u, x)| (fu(*u), *x)).collect(), aka: d.aka.clone(), props: d.props }
}

pub fn exec(case: &[i64]) -> Outcome {
  let kind = case[0]; let mut v = &case[1..];
  if kind == 1 {
    let tgt = take1(&mut v).unwrap();
    let (d, m) = match (dec_doc(&mut v), dec_meta(&mut v)) { (Some(d), Some(m)) => (d, m), _ => return Outcome::new(vec![-998]).fail("undecodable case") };
    let doc = match build(&d, &m) { Some(x) => x, None => return Outcome::new(vec![-7]).class("unbuildable").trivial().fail("case document does not build") };
    let tgt_did = IotaDID::parse(did_s(tgt)).unwrap();
    let body_len = { let mut c = doc.clone(); c.metadata.governor_address = None; c.metadata.state_controller_address = None; StateMetadataDocument::from(c).to_json_vec().unwrap().len() };
    let bytes = match doc.clone().pack() {
      Err(_) => { let mut o = Outcome::new(vec![20]).class("pack-too-large"); if body_len <= 65535 { o = o.fail("pack failed although the body fits the 16-bit length"); } return o; }
      Ok(b) => b,
    };
    let mut obs = vec![0, bytes.len() as i64]; obs.extend(bytes.iter().take(7).map(|b| *b as i64));
    let mut why: Option<String> = None;
    if body_len > 65535 { why = Some("pack succeeded although the body does not fit the 16-bit length".into()); }
    if bytes.len() != 7 + body_len || &bytes[0..5] != b"DID\x01\x00" || bytes[5] as usize + 256 * bytes[6] as usize != body_len { why.get_or_insert("frame is not marker, version 1, encoding 0, u16 LE length, body".into()); }
    // same DID, with and without a tail
    let same = |data: &[u8]| StateMetadataDocument::unpack(data).and_then(|s| s.into_iota_document(doc.id()));
    let mut want = doc.clone(); want.metadata.governor_address = None; want.metadata.state_controller_address = None;
    match same(&bytes) { Ok(x) if x == want => {} _ => { why.get_or_insert("unpack for the same DID does not return an equal document and metadata".into()); } }
    let mut tailed = bytes.clone(); tailed.extend_from_slice(b"{\"garbage\":1}\xff\x00");
    match same(&tailed) { Ok(x) if x == want => {} _ => { why.get_or_insert("bytes beyond the prefixed length are not ignored".into()); } }
    // target DID
    let res = StateMetadataDocument::unpack(&bytes).map_err(|e| unpack_code(&e)).and_then(|s| s.into_iota_document(&tgt_did).map_err(|e| match e { IErr::DIDSyntaxError(_) => 1, IErr::InvalidDoc(_) => 2, _ => 3 }));
    let expect = build(&renamed(&d, tgt), &cleared(&m));
    let class;
    match &res {
      Ok(got) => {
        class = if tgt == d.id { "same-did" } else { "rebased" };
        match got.to_json_value().ok().as_ref().and_then(pair_of) { Some((gd, gm)) => { obs.push(0); enc_doc(&mut obs, &gd); enc_meta(&mut obs, &gm); } None => obs.push(-6) }
        match &expect { Some(e) if e == got => {} Some(_) => { why.get_or_insert("unpack for the target DID is not the document with exactly its self-references rewritten".into()); }
                        None => { why.get_or_insert("unpack returned a document although rewriting the self-references gives no valid document".into()); } }
      }
      Err(c) => { class = "rebase-refused"; obs.push(*c); if expect.is_some() { why.get_or_insert("unpack for the target DID failed although the rewritten document is valid".into()); } }
    }
    let mut o = Outcome::new(obs).class(class);
    if let Some(w) = why { o = o.fail(&w); }
    o
  } else if kind == 2 {
    let data = take_bytes(&mut v).unwrap();
    let res = StateMetadataDocument::unpack(&data);
    let framed_ok = data.len() >= 7 && &data[0..3] == b"DID" && data[3] == 1 && data[4] == 0 && 7 + data[5] as usize + 256 * data[6] as usize <= data.len();
    match res {
      Ok(smd) => {
        let mut obs = vec![];
        match serde_json::to_value(&smd).ok().as_ref().and_then(pair_of) { Some((gd, gm)) => { obs.push(0); enc_doc(&mut obs, &gd); enc_meta(&mut obs, &gm); } None => obs.push(-6) }
        let mut o = Outcome::new(obs).class("unpack-ok");
        if !framed_ok { o = o.fail("bytes with a wrong marker, version, encoding or an uncovered length prefix were accepted"); }
        else { let n = data[5] as usize + 256 * data[6] as usize; match StateMetadataDocument::from_json_slice(&data[7..7 + n]) { Ok(x) if x == smd => {} _ => { o = o.fail("unpack does not return the document of the prefixed body"); } } }
        o
      }
      Err(e) => {
        let mut o = Outcome::new(vec![unpack_code(&e)]).class(if framed_ok { "body-rejected" } else { "frame-rejected" });
        if framed_ok { let n = data[5] as usize + 256 * data[6] as usize; if StateMetadataDocument::from_json_slice(&data[7..7 + n]).is_ok() { o = o.fail("well-framed bytes with a valid body were rejected"); } }
        o
      }
    }
  } else { Outcome::new(vec![-998]).fail("bad case kind") }
}

fn case1(tgt: i64, d: &D, m: &Meta) -> Option<Vec<i64>> {
  let doc = build(d, m)?;
  let mut c = doc.clone(); c.metadata.governor_address = None; c.metadata.state_controller_address = None;
  let state = StateMetadataDocument::from(c);
  let (sd, sm) = pair_of(&serde_json::to_value(&state).ok()?)?;
  let body = state.to_json_vec().ok()?;
  let mut out = vec![1, tgt]; enc_doc(&mut out, d); enc_meta(&mut out, m);
  let mut st = vec![]; enc_doc(&mut st, &sd); enc_meta(&mut st, &sm); put_lp(&mut out, &st);
  put_bytes(&mut out, &body);
  Some(out)
}
fn case2(data: &[u8]) -> Vec<i64> {
  let mut out = vec![2]; put_bytes(&mut out, data);
  if data.len() >= 7 { let n = data[5] as usize + 256 * data[6] as usize; if 7 + n <= data.len() {
    let body = &data[7..7 + n];
    out.push(1); put_bytes(&mut out, body);
    match StateMetadataDocument::from_json_slice(body) {
      Err(_) => { out.push(0); out.push(0); }
      Ok(s) => match serde_json::to_value(&s).ok().as_ref().and_then(pair_of) { Some((sd, sm)) => { out.push(1); let mut e = vec![]; enc_doc(&mut e, &sd); enc_meta(&mut e, &sm); put_lp(&mut out, &e); } None => { out.push(2); out.push(0); } },
    }
    return out;
  } }
  out.push(0); out
}

fn gen_doc(rng: &mut Rng, self_did: i64) -> D {
  let dids = [self_did, self_did, 2, 5, 6, 7, 8, 9, 12, 10, 11];
  let mut d = D { id: self_did, ..Default::default() };
  d.ctrl = match rng.below(5) { 0 => vec![], 1 => vec![self_did], 2 => vec![self_did, 2], 3 => vec![2, 5], _ => vec![4, self_did, 5] };
  let mut u = |rng: &mut Rng| U { d: *rng.pick(&dids), r: if rng.chance(1, 8) { rng.range(1, 2) } else { 0 }, f: rng.range(0, 3) };
  for _ in 0..rng.below(4) { let uu = u(rng); d.vm.push(M { u: uu, c: *rng.pick(&dids), x: rng.range(0, 99) }); }
  for k in 0..5 { for _ in 0..rng.below(3) { let uu = u(rng); d.rels[k].push(if rng.chance(1, 2) { E::Embed(M { u: U { f: uu.f + 4, ..uu }, c: *rng.pick(&dids), x: rng.range(100, 199) }) } else if !d.vm.is_empty() && rng.chance(2, 3) { E::Refer(rng.pick(&d.vm).u) } else { E::Refer(uu) }); } }
  for _ in 0..rng.below(3) { let uu = u(rng); d.svc.push((U { f: uu.f + 10, ..uu }, rng.range(0, 9))); }
  d.aka = match rng.below(4) { 0 => vec![], 1 => vec![100], 2 => vec![self_did, 101], _ => vec![2, self_did] };
  d.props = rng.range(0, 4);
  d
}
fn gen_meta(rng: &mut Rng) -> Meta { Meta { c: rng.range(-1, 50), u: rng.range(-1, 50), d: rng.range(-1, 1), g: rng.range(-1, 3), s: rng.range(-1, 3), p: rng.range(0, 2) } }

pub fn gen(rng: &mut Rng, thorough: bool, sink: &mut Sink) {
  let m0 = Meta { c: 1, u: 2, d: -1, g: 1, s: 2, p: 0 };
  let su = |d: i64, f: i64| U { d, r: 0, f };
  // hand-written shapes: self / foreign methods sharing a fragment, references, every position a self-reference can take
  let mut shapes: Vec<D> = vec![D { id: 1, ..Default::default() }];
  shapes.push(D { id: 1, vm: vec![M { u: su(1, 7), c: 1, x: 1 }, M { u: su(2, 7), c: 2, x: 2 }], ..Default::default() });
  shapes.push(D { id: 1, ctrl: vec![1, 2], vm: vec![M { u: su(1, 1), c: 1, x: 1 }, M { u: su(10, 1), c: 10, x: 2 }, M { u: su(2, 2), c: 1, x: 3 }],
    rels: [vec![E::Refer(su(1, 1)), E::Embed(M { u: su(1, 5), c: 2, x: 4 })], vec![E::Refer(su(2, 2)), E::Refer(su(1, 9))], vec![E::Embed(M { u: su(2, 5), c: 1, x: 5 })], vec![], vec![E::Refer(su(1, 1))]],
    svc: vec![(su(1, 11), 1), (su(2, 11), 2), (su(11, 12), 3)], aka: vec![1, 100, 2], props: 2 });
  shapes.push(D { id: 3, ctrl: vec![3], vm: vec![M { u: su(3, 1), c: 3, x: 1 }], rels: [vec![E::Embed(M { u: su(3, 2), c: 3, x: 2 })], vec![E::Embed(M { u: su(4, 2), c: 4, x: 3 })], vec![], vec![], vec![]], svc: vec![(su(3, 3), 1), (su(4, 3), 2)], aka: vec![3], props: 1 });
  shapes.push(D { id: 1, vm: vec![M { u: su(1, 1), c: 1, x: 1 }], rels: [vec![E::Embed(M { u: su(2, 1), c: 2, x: 2 })], vec![], vec![], vec![], vec![]], svc: vec![(su(5, 1), 1)], ..Default::default() });
  // ONE collection colliding at a time when unpacked for the partner DID (2): services only, general methods only, one relationship only
  shapes.push(D { id: 1, svc: vec![(su(1, 11), 1), (su(2, 11), 2)], ..Default::default() });
  shapes.push(D { id: 1, vm: vec![M { u: su(1, 1), c: 1, x: 1 }], svc: vec![(su(2, 11), 2), (su(5, 11), 3), (su(1, 11), 1)], ..Default::default() });
  shapes.push(D { id: 1, rels: [vec![], vec![E::Embed(M { u: su(1, 5), c: 1, x: 4 }), E::Embed(M { u: su(2, 5), c: 2, x: 5 })], vec![], vec![], vec![]], ..Default::default() });
  shapes.push(D { id: 1, rels: [vec![], vec![], vec![], vec![], vec![E::Refer(su(1, 9)), E::Refer(su(2, 9))]], ..Default::default() });
  shapes.push(D { id: 1, ctrl: vec![8], vm: vec![M { u: su(8, 1), c: 8, x: 1 }, M { u: su(1, 1), c: 1, x: 2 }], svc: vec![(su(8, 11), 1)], ..Default::default() });
  shapes.push(D { id: 1, ctrl: vec![9, 1], vm: vec![M { u: su(9, 1), c: 12, x: 1 }, M { u: su(1, 2), c: 9, x: 2 }], svc: vec![(su(12, 11), 1)], props: 4, ..Default::default() });
  shapes.push(D { id: 3, props: 4, aka: vec![3], ..Default::default() });
  for d in &shapes { for tgt in [1i64, 2, 3, 4, 5] { if let Some(c) = case1(tgt, d, &m0) { sink.case(c, "shape"); } } }
  let n = if thorough { 4000 } else { 500 };
  for i in 0..n {
    let self_did = if rng.chance(3, 4) { 1 } else { 3 };
    let d = gen_doc(rng, self_did); let m = gen_meta(rng);
    if build(&d, &m).is_none() { continue; }
    let tgt = match i % 4 { 0 => self_did, 1 => 2, 2 => *rng.pick(&[4, 5]), _ => *rng.pick(&[1, 2, 3, 4, 5, 6, 7]) };
    if let Some(c) = case1(tgt, &d, &m) { sink.case(c, "random-doc"); }
  }
  // size boundary: bodies of 65534 .. 65537 bytes
  { let d = D { id: 1, props: 1000, ..Default::default() }; let base = { let mut c = build(&d, &m0).unwrap(); c.metadata.governor_address = None; c.metadata.state_controller_address = None; StateMetadataDocument::from(c).to_json_vec().unwrap().len() as i64 };
    for want in [65534i64, 65535, 65536, 65537] { let d = D { id: 1, props: 1000 + (want - base), ..Default::default() }; if let Some(c) = case1(if want % 2 == 0 { 1 } else { 2 }, &d, &m0) { sink.case(c, "size-boundary"); } } }
  // framing: every value of every header byte, every truncation, tails, length prefix off by some
  let small = build(&shapes[1], &m0).unwrap().pack().unwrap();
  for pos in 0..7 { for val in 0..=255u8 { if thorough || pos < 5 || val % 3 == 0 || (val as i64 - small[pos] as i64).abs() <= 2 { let mut b = small.clone(); b[pos] = val; sink.case(case2(&b), "header-byte"); } } }
  for cut in 0..=small.len() { if thorough || cut < 12 || cut % 7 == 0 || cut + 3 > small.len() { sink.case(case2(&small[..cut]), "truncated"); } }
  for tail in [&b""[..], b"x", b"}", b"{\"doc\":1}", b"\x00\xff"] { let mut b = small.clone(); b.extend_from_slice(tail); sink.case(case2(&b), "tail"); }
  let big = build(&shapes[2], &m0).unwrap().pack().unwrap();
  for delta in [-300i64, -2, -1, 1, 2, 255, 256] { let mut b = big.clone(); let n = (b.len() as i64 - 7 + delta) as usize; b[5] = (n % 256) as u8; b[6] = (n / 256) as u8; sink.case(case2(&b), "length-prefix-off"); b.extend(vec![b' '; 300]); sink.case(case2(&b), "length-prefix-off-padded"); }
  // bodies: JSON-level mutations and byte flips
  let frame = |body: &[u8]| { let mut b = b"DID\x01\x00".to_vec(); b.push((body.len() % 256) as u8); b.push((body.len() / 256) as u8); b.extend_from_slice(body); b };
  let bodies: Vec<Value> = vec![json!({}), json!({"doc": {"id": "did:0:0"}}), json!({"doc": {"id": "did:0:0"}, "meta": {}}), json!({"meta": {}}), json!([1, 2]),
    json!({"doc": {"id": "did:0:0", "verificationMethod": [mjson(&M { u: su(0, 1), c: 0, x: 1 }), mjson(&M { u: su(0, 1), c: 0, x: 2 })]}, "meta": {}}),
    json!({"doc": {"id": "did:0:0", "verificationMethod": [mjson(&M { u: su(0, 1), c: 0, x: 1 })], "authentication": [mjson(&M { u: su(0, 1), c: 0, x: 2 })]}, "meta": {}}),
    json!({"doc": {"id": "did:0:0", "verificationMethod": [mjson(&M { u: su(0, 1), c: 0, x: 1 })], "service": [{"id": ustr(su(0, 1)), "type": "T", "serviceEndpoint": "https://s.example/1"}]}, "meta": {}}),
    json!({"doc": {"id": "did:0:0", "authentication": [ustr(su(0, 1)), mjson(&M { u: su(0, 1), c: 0, x: 2 })]}, "meta": {"created": ts(5)}}),
    json!({"doc": {"id": "did:0:0", "authentication": [mjson(&M { u: su(0, 1), c: 0, x: 2 })], "keyAgreement": [ustr(su(0, 1))]}, "meta": {"deactivated": true}}),
    json!({"doc": {"id": "did:0:0", "authentication": [ustr(su(0, 1))], "keyAgreement": [ustr(su(0, 1))], "verificationMethod": [mjson(&M { u: su(0, 1), c: 2, x: 2 })]}, "meta": {"mp": 2}}),
    json!({"doc": {"id": 5}, "meta": {}}), json!({"doc": {"id": "did:0:0"}, "meta": {"created": 5}})];
  for b in &bodies { sink.case(case2(&frame(&serde_json::to_vec(b).unwrap())), "body-json"); }
  for _ in 0..(if thorough { 1500 } else { 200 }) { let mut b = big.clone(); let k = rng.range(7, b.len() as i64 - 1) as usize; b[k] = if rng.chance(1, 2) { *rng.pick(b"\"{}[],:0a ") } else { rng.below(256) as u8 }; sink.case(case2(&b), "body-byte-flip"); }
}
