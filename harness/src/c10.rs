//! C10 — CoreDID / DIDUrl parsing, setters, join, Eq/Ord/Hash.
//! kinds: 1 CoreDID::parse(bytes)  2 DIDUrl::parse(bytes)  3 DIDUrl setter (start, op 0 path|1 query|2 fragment, flag, value)
//!        4 CoreDID setter (start, op 0 method name|1 method id, value)  5 join (start, segment) — oracle only
//!        6 Eq/Ord/Hash of two DID URLs — oracle only   7 every construction route of a CoreDID / DIDUrl from one string
use crate::common::*;
use identity_did::{CoreDID, DIDUrl, DID};
use std::collections::hash_map::DefaultHasher;
use std::hash::{Hash, Hasher};

fn is_idchar(c: u8) -> bool { c.is_ascii_alphanumeric() || b".-_".contains(&c) }
fn is_pchar_plain(c: u8) -> bool { is_idchar(c) || b"~!$&'()*+,;=:@".contains(&c) }
/// W3C method-specific-id = *( *idchar ":" ) 1*idchar, idchar may be pct-encoded
fn w3c_method_id(s: &[u8]) -> Option<&'static str> {
  let mut i = 0; let mut last_colon = true;
  while i < s.len() {
    if s[i] == b'%' { if i + 2 < s.len() + 0 && i + 2 <= s.len() - 1 && s[i + 1].is_ascii_hexdigit() && s[i + 2].is_ascii_hexdigit() { i += 3; last_colon = false; continue; } return Some("method id: malformed pct-encoding"); }
    if s[i] == b':' { last_colon = true; } else if is_idchar(s[i]) { last_colon = false; } else { return Some("method id: character outside idchar"); }
    i += 1;
  }
  if s.is_empty() { return Some("method id empty"); }
  if last_colon { return Some("method id ends with ':'"); }
  None
}
fn w3c_segment(s: &[u8], extra: &[u8]) -> bool {
  let mut i = 0;
  while i < s.len() {
    if s[i] == b'%' { if i + 2 < s.len() + 0 && s[i + 1].is_ascii_hexdigit() && s[i + 2].is_ascii_hexdigit() || (i + 2 == s.len() - 1 + 0 && false) { i += 3; continue; } if i + 2 <= s.len() - 1 && s[i + 1].is_ascii_hexdigit() && s[i + 2].is_ascii_hexdigit() { i += 3; continue; } return false; }
    if !(is_pchar_plain(s[i]) || extra.contains(&s[i])) { return false; }
    i += 1;
  }
  true
}
fn hash_of<T: Hash>(t: &T) -> u64 { let mut h = DefaultHasher::new(); t.hash(&mut h); h.finish() }

fn url_checks(u: &DIDUrl, input: Option<&str>) -> Option<String> {
  let s = u.to_string();
  if let Some(inp) = input { if s != inp { return Some(format!("string form {:?} is not the accepted input", s)); } }
  let did = u.did();
  let (m, id) = (did.method().to_string(), did.method_id().to_string());
  let recomposed = format!("did:{}:{}{}{}{}", m, id, u.path().unwrap_or(""), u.query().map(|q| format!("?{q}")).unwrap_or_default(), u.fragment().map(|f| format!("#{f}")).unwrap_or_default());
  if recomposed != s { return Some(format!("components re-concatenate to {:?}, not to {:?}", recomposed, s)); }
  if m.is_empty() || !m.bytes().all(|c| c.is_ascii_lowercase() || c.is_ascii_digit()) { return Some("method name outside 1*(a-z / 0-9)".into()); }
  if let Some(w) = w3c_method_id(id.as_bytes()) { return Some(w.into()); }
  if let Some(p) = u.path() { if !p.starts_with('/') || !w3c_segment(p.as_bytes(), b"/") { return Some("path not well-formed".into()); } }
  if let Some(q) = u.query() { if !w3c_segment(q.as_bytes(), b"/?") { return Some("query not well-formed".into()); } }
  if let Some(f) = u.fragment() { if !w3c_segment(f.as_bytes(), b"/?") { return Some("fragment not well-formed".into()); } }
  match reparse(&s) { Ok(Ok(r)) => if r != *u || r.to_string() != s { return Some("value does not re-parse to itself".into()); }, Ok(Err(_)) => return Some(format!("string form {:?} does not re-parse", s)), Err(_) => return Some(format!("re-parsing the string form {:?} panics", s)) }
  None
}
fn put_opt(obs: &mut Vec<i64>, o: Option<String>) { match o { Some(s) => { obs.push(1); put_bytes(obs, s.as_bytes()); } None => obs.extend([0, 0]) } }

/// no known-finding class is a predicate on the case integers any more (K_pct: repaired, see KNOWN_FINDINGS.txt)
pub fn classify(_case: &[i64]) -> Option<&'static str> { None }

fn reparse(s: &str) -> Result<Result<DIDUrl, ()>, ()> {
  let s2 = s.to_string();
  std::panic::catch_unwind(move || DIDUrl::parse(&s2).map_err(|_| ())).map_err(|_| ())
}

fn classes(_bytes: &[u8], o: Outcome) -> Outcome { o }
fn colon_tail(s: &str) -> bool {
  // method-specific id ends with ':' (before any / ? #)
  let end = s.find(|c| c == '/' || c == '?' || c == '#').unwrap_or(s.len());
  s[..end].ends_with(':') && s[..end].matches(':').count() >= 3
}

pub fn exec(case: &[i64]) -> Outcome {
  let mut v = &case[1..];
  match case[0] {
    1 => {
      let bytes = take_bytes(&mut v).unwrap();
      let s = match String::from_utf8(bytes.clone()) { Ok(s) => s, Err(_) => return Outcome::new(vec![0]).class("not-utf8").trivial() };
      match CoreDID::parse(&s) {
        Err(_) => classes(&bytes, Outcome::new(vec![0]).class("did-err")),
        Ok(d) => {
          let mut obs = vec![1];
          put_bytes(&mut obs, d.method().as_bytes()); put_bytes(&mut obs, d.method_id().as_bytes());
          let mut why: Option<String> = None;
          if d.as_str() != s { why = Some("string form is not the accepted input".into()); }
          if format!("did:{}:{}", d.method(), d.method_id()) != s { why = Some("components do not re-concatenate to the input".into()); }
          if s.contains(|c| c == '/' || c == '?' || c == '#') { why = Some("plain DID carries a path, query or fragment".into()); }
          if why.is_none() { why = url_checks(&d.to_url(), Some(&s)); }
          if CoreDID::parse(d.as_str()).ok().as_ref() != Some(&d) { why = Some("value does not re-parse to itself".into()); }
          let _ = format!("{} {:?} {}", d, d, d.authority());
          let mut o = classes(&bytes, Outcome::new(obs).class("did-ok"));
          if colon_tail(&s) && o.known.is_none() { o = o.known("K_colon_tail"); }
          match why { Some(w) => o.fail(&w), None => o }
        }
      }
    }
    2 => {
      let bytes = take_bytes(&mut v).unwrap();
      let s = match String::from_utf8(bytes.clone()) { Ok(s) => s, Err(_) => return Outcome::new(vec![0]).class("not-utf8").trivial() };
      match DIDUrl::parse(&s) {
        Err(_) => classes(&bytes, Outcome::new(vec![0]).class("url-err")),
        Ok(u) => {
          let mut obs = vec![1];
          put_bytes(&mut obs, u.to_string().as_bytes());
          put_bytes(&mut obs, u.did().method().as_bytes()); put_bytes(&mut obs, u.did().method_id().as_bytes());
          put_opt(&mut obs, u.path().map(|p| p.to_string()));
          put_opt(&mut obs, u.query().map(|q| format!("?{q}")));
          put_opt(&mut obs, u.fragment().map(|f| format!("#{f}")));
          let why = url_checks(&u, Some(&s));
          let _ = format!("{} {:?}", u, u);
          let mut o = classes(&bytes, Outcome::new(obs).class("url-ok"));
          if colon_tail(&s) && o.known.is_none() { o = o.known("K_colon_tail"); }
          match why { Some(w) => o.fail(&w), None => o }
        }
      }
    }
    3 => {
      let start = String::from_utf8(take_bytes(&mut v).unwrap()).unwrap();
      let op = take1(&mut v).unwrap();
      let flag = take1(&mut v).unwrap() != 0;
      let val = take_bytes(&mut v).unwrap();
      let vs = match String::from_utf8(val.clone()) { Ok(s) => s, Err(_) => return Outcome::new(vec![-3]).class("not-utf8").trivial() };
      let mut u = match DIDUrl::parse(&start) { Ok(u) => u, Err(_) => return Outcome::new(vec![-2]).class("bad-start").trivial() };
      let before = u.clone();
      let arg = if flag { Some(vs.as_str()) } else { None };
      let r = match op { 0 => u.set_path(arg), 1 => u.set_query(arg), _ => u.set_fragment(arg) };
      let mut obs = vec![r.is_ok() as i64];
      put_bytes(&mut obs, u.to_string().as_bytes());
      let mut why: Option<String> = None;
      if r.is_err() && (u != before || u.to_string() != before.to_string()) { why = Some("rejected setter changed the value".into()); }
      if r.is_ok() { why = url_checks(&u, None); }
      let mut all = start.clone().into_bytes(); all.extend(&val);
      let mut o = classes(&all, Outcome::new(obs).class(if r.is_ok() { "set-ok" } else { "set-err" }));
      if colon_tail(&start) && o.known.is_none() { o = o.known("K_colon_tail"); }
      match why { Some(w) => o.fail(&w), None => o }
    }
    4 => {
      let start = String::from_utf8(take_bytes(&mut v).unwrap()).unwrap();
      let op = take1(&mut v).unwrap();
      let val = take_bytes(&mut v).unwrap();
      let vs = match String::from_utf8(val.clone()) { Ok(s) => s, Err(_) => return Outcome::new(vec![-3]).class("not-utf8").trivial() };
      let mut d = match CoreDID::parse(&start) { Ok(d) => d, Err(_) => return Outcome::new(vec![-2]).class("bad-start").trivial() };
      let before = d.clone();
      let r = if op == 0 { d.set_method_name(&vs) } else { d.set_method_id(&vs) };
      let mut obs = vec![r.is_ok() as i64];
      put_bytes(&mut obs, d.as_str().as_bytes());
      let mut why: Option<String> = None;
      if r.is_err() && d != before { why = Some("rejected setter changed the value".into()); }
      if r.is_ok() {
        why = url_checks(&d.to_url(), None);
        if CoreDID::parse(d.as_str()).ok().as_ref() != Some(&d) { why = Some("value does not re-parse to itself".into()); }
        if op == 0 && d.method() != vs || op == 1 && d.method_id() != vs { why = Some("setter stored something else".into()); }
      }
      let mut all = start.clone().into_bytes(); all.extend(&val);
      let mut o = classes(&all, Outcome::new(obs).class(if r.is_ok() { "didset-ok" } else { "didset-err" }));
      if r.is_ok() && colon_tail(d.as_str()) && o.known.is_none() { o = o.known("K_colon_tail"); }
      match why { Some(w) => o.fail(&w), None => o }
    }
    5 => {
      let start = String::from_utf8(take_bytes(&mut v).unwrap()).unwrap();
      let seg = take_bytes(&mut v).unwrap();
      let segs = match String::from_utf8(seg.clone()) { Ok(s) => s, Err(_) => return Outcome::new(vec![]).class("not-utf8").trivial() };
      let u = match DIDUrl::parse(&start) { Ok(u) => u, Err(_) => return Outcome::new(vec![]).class("bad-start").trivial() };
      let before = u.clone();
      let r = u.join(&segs);
      let mut why: Option<String> = None;
      if u != before { why = Some("join changed its receiver".into()); }
      if let Ok(j) = &r {
        why = url_checks(j, None);
        if j.did() != u.did() { why = Some("join altered the DID".into()); }
      }
      let mut all = start.clone().into_bytes(); all.extend(&seg);
      let mut jobs = vec![r.is_ok() as i64]; if let Ok(j) = &r { put_bytes(&mut jobs, j.to_string().as_bytes()); }
      let mut o = classes(&all, Outcome::new(jobs).class(if r.is_ok() { "join-ok" } else { "join-err" }));
      if colon_tail(&start) && o.known.is_none() { o = o.known("K_colon_tail"); }
      match why { Some(w) => o.fail(&w), None => o }
    }
    6 => {
      let a = String::from_utf8(take_bytes(&mut v).unwrap()).unwrap();
      let b = String::from_utf8(take_bytes(&mut v).unwrap()).unwrap();
      let (x, y) = match (DIDUrl::parse(&a), DIDUrl::parse(&b)) { (Ok(x), Ok(y)) => (x, y), _ => return Outcome::new(vec![]).class("bad-start").trivial() };
      let eq = x == y;
      let mut o = Outcome::new(vec![eq as i64, match x.cmp(&y) { std::cmp::Ordering::Less => 0, std::cmp::Ordering::Equal => 1, std::cmp::Ordering::Greater => 2 }, (hash_of(&x) == hash_of(&y)) as i64]).class("cmp");
      if eq != (x.cmp(&y) == std::cmp::Ordering::Equal) { o = o.fail("Eq and Ord disagree"); }
      if eq && hash_of(&x) != hash_of(&y) { o = o.fail("equal values hash differently"); }
      if eq != (x.to_string() == y.to_string()) { o = o.fail("equality differs from equality of string forms"); }
      if x.cmp(&y) != y.cmp(&x).reverse() { o = o.fail("ordering not antisymmetric"); }
      let mut all = a.into_bytes(); all.extend(b.bytes());
      classes(&all, o)
    }
    7 => {
      // every route to a CoreDID / DIDUrl from one string: parse, FromStr, TryFrom<&str>, TryFrom<String>, TryFrom<BaseDIDUrl>, serde, the DID inside a DIDUrl;
      // DIDUrl::parse, FromStr, TryFrom<String>, serde, CoreDID::to_url, CoreDID::into_url
      use std::str::FromStr;
      let bytes = take_bytes(&mut v).unwrap();
      let s = match String::from_utf8(bytes.clone()) { Ok(s) => s, Err(_) => return Outcome::new(vec![0]).class("not-utf8").trivial() };
      // each route under its own catch_unwind: Err(()) = that route panicked
      fn g<T>(f: impl FnOnce() -> Option<T> + std::panic::UnwindSafe) -> Result<Option<T>, ()> { std::panic::catch_unwind(f).map_err(|_| ()) }
      let (s1, s2, s3, s4, s5, s6, s7) = (s.clone(), s.clone(), s.clone(), s.clone(), s.clone(), s.clone(), s.clone());
      // route 4 hands the text to the third-party parser ITSELF before identity_did sees anything: a panic in there is the caller's, not the library's
      let mut third_party_panic = false;
      let dids: Vec<Result<Option<CoreDID>, ()>> = vec![g(move || CoreDID::parse(&s1).ok()), g(move || CoreDID::from_str(&s2).ok()), g(move || CoreDID::try_from(s3.as_str()).ok()), g(move || CoreDID::try_from(s4).ok()),
        match std::panic::catch_unwind(move || identity_did::BaseDIDUrl::parse(&s5).ok()) { Ok(b) => g(move || b.and_then(|b| CoreDID::try_from(b).ok())), Err(_) => { third_party_panic = true; Err(()) } }, g(move || serde_json::from_value::<CoreDID>(serde_json::Value::String(s6)).ok()),
        g(move || DIDUrl::parse(&s7).ok().map(|u| u.did().clone()))];
      let (t1, t2, t3, t4, t5, t6) = (s.clone(), s.clone(), s.clone(), s.clone(), s.clone(), s.clone());
      let urls: Vec<Result<Option<DIDUrl>, ()>> = vec![g(move || DIDUrl::parse(&t1).ok()), g(move || DIDUrl::from_str(&t2).ok()), g(move || DIDUrl::try_from(t3).ok()), g(move || serde_json::from_value::<DIDUrl>(serde_json::Value::String(t4)).ok()),
        g(move || CoreDID::parse(&t5).ok().map(|d| d.to_url())), g(move || CoreDID::parse(&t6).ok().map(|d| d.into_url()))];
      let mut obs = vec![]; let mut why: Option<String> = None;
      for (k, d) in dids.iter().enumerate() { match d { Err(()) => { obs.push(-777); if !(k == 4 && third_party_panic) { why.get_or_insert(format!("DID route {k} panics")); } } Ok(None) => obs.push(0), Ok(Some(d)) => { obs.push(1); put_bytes(&mut obs, d.as_str().as_bytes());
        let d2 = d.clone(); let sc = s.clone();
        let w = std::panic::catch_unwind(move || { let d = &d2; let s = &sc;
          if format!("did:{}:{}", d.method(), d.method_id()) != d.as_str() { return Some("components do not re-concatenate to the string form".to_string()); }
          if d.as_str().contains(|c| c == '/' || c == '?' || c == '#') { return Some("plain DID carries a path, query or fragment".into()); }
          if k != 6 && d.as_str() != s { return Some("string form is not the accepted input".into()); }
          if CoreDID::parse(d.as_str()).ok().as_ref() != Some(d) { return Some("value does not re-parse to itself".into()); }
          url_checks(&d.to_url(), None) }).unwrap_or(Some("an accessor of the accepted value panics".into()));
        if let Some(w) = w { why.get_or_insert(format!("DID route {k}: {w}")); } } } }
      for (k, u) in urls.iter().enumerate() { match u { Err(()) => { obs.push(-777); why.get_or_insert(format!("URL route {k} panics")); } Ok(None) => obs.push(0), Ok(Some(u)) => { obs.push(1);
        let u2 = u.clone(); let sc = s.clone();
        match std::panic::catch_unwind(move || (u2.to_string(), url_checks(&u2, Some(&sc)))) { Ok((txt, w)) => { put_bytes(&mut obs, txt.as_bytes()); if let Some(w) = w { why.get_or_insert(format!("URL route {k}: {w}")); } } Err(_) => { obs.push(-777); why.get_or_insert(format!("URL route {k}: an accessor of the accepted value panics")); } } } } }
      let dids: Vec<Option<CoreDID>> = dids.into_iter().map(|d| d.ok().flatten()).collect(); let urls: Vec<Option<DIDUrl>> = urls.into_iter().map(|u| u.ok().flatten()).collect();
      let mut o = classes(&bytes, Outcome::new(obs).class(if dids.iter().any(|d| d.is_some()) || urls.iter().any(|u| u.is_some()) { "routes-ok" } else { "routes-err" }));
      if colon_tail(&s) && o.known.is_none() { o = o.known("K_colon_tail"); }
      match why { Some(w) => o.fail(&w), None => o }
    }
    _ => Outcome::new(vec![-998]).fail("bad case kind"),
  }
}

fn bcase(kind: i64, s: &[u8]) -> Vec<i64> { let mut c = vec![kind]; put_bytes(&mut c, s); c }

fn strings(alpha: &[&str], maxlen: usize, cur: &mut String, f: &mut dyn FnMut(&str)) {
  f(cur);
  if maxlen == 0 { return; }
  for a in alpha { let n = cur.len(); cur.push_str(a); strings(alpha, maxlen - 1, cur, f); cur.truncate(n); }
}

pub fn gen(rng: &mut Rng, thorough: bool, sink: &mut Sink) {
  // (a) exhaustive short suffixes over an adversarial alphabet after "did:m:" and after "did:"
  let alpha = ["a", "Z", "4", ":", "%", "#", "/", "?", " ", ".", "+", "\n", "é", "{"];
  let depth = if thorough { 5 } else { 4 };
  let mut all: Vec<String> = Vec::new();
  strings(&alpha, depth, &mut String::new(), &mut |s| all.push(s.to_string()));
  for s in &all {
    let full = format!("did:m:{}", s);
    sink.case(bcase(1, full.as_bytes()), "exh-did");
    sink.case(bcase(2, full.as_bytes()), "exh-url");
  }
  // every construction route on the same exhaustive strings (shorter depth) and on the shifted-offset rows
  { let mut sh: Vec<String> = Vec::new(); strings(&alpha, 3, &mut String::new(), &mut |s| sh.push(s.to_string())); for s in &sh { sink.case(bcase(7, format!("did:m:{}", s).as_bytes()), "exh-routes"); } }
  let mut short: Vec<String> = Vec::new();
  strings(&alpha, 3, &mut String::new(), &mut |s| short.push(s.to_string()));
  for s in &short { let full = format!("did:{}", s); sink.case(bcase(1, full.as_bytes()), "exh-did-method"); sink.case(bcase(2, full.as_bytes()), "exh-url-method"); }
  // prefix/suffix whitespace and control bytes, scheme variants
  for base in ["did:a:b", "did:example:123/path?q=1#frag", "did:a:b#f", "did:a:%41x", "did:a:b:"] {
    for w in [" ", "\t", "\n", "\r", "\u{0}", "\u{7f}", "\u{b}", "\u{a0}"] {
      for (p, s) in [(w, ""), ("", w), (w, w)] { let full = format!("{}{}{}", p, base, s); sink.case(bcase(1, full.as_bytes()), "whitespace"); sink.case(bcase(2, full.as_bytes()), "whitespace"); }
    }
  }
  // several leading / trailing blanks shift every third-party offset (the parser trims for parsing, stores untrimmed)
  for base in ["did:a:b", "did:a:b?q", "did:ab:c?q", "did:abc:d?x=1", "did:a:b?q#f", "did:a:b#f", "did:a:b/p", "did:a:b/p?q", "did:a:bcd?q", "did:a:b:c?q"] {
    for w in [" ", "\t", "\u{0}"] { for k in 1..6usize { for (pre, suf) in [(k, 0usize), (0, k), (k, 1)] {
      let full = format!("{}{}{}", w.repeat(pre), base, w.repeat(suf));
      sink.case(bcase(1, full.as_bytes()), "whitespace-shift"); sink.case(bcase(2, full.as_bytes()), "whitespace-shift"); sink.case(bcase(7, full.as_bytes()), "whitespace-shift-routes");
    } } }
  }
  for s in ["", "d", "did", "did:", "did::", "did:a", "did:a:", "DID:a:b", "dad:a:b", "did:A:b", "did:a:b:c:d", "did:a:b/", "did:a:b?", "did:a:b#", "did:a:b???", "did:a:b/p?q#f", "did:a:b/%41", "did:a:b?%41", "did:a:b#%41", "did:a:%41", "did:a:%4", "did:a:%+1", "did:a:%+1x", "did:a:b%41", "did:a:%41%42x", "did:a:%41%4", "did:m:x/%aa?q", "did:a:b/../c", "did:a:b//", "did:a:b#a#b", "did:a:b?a?b",
    // an illegal character BEFORE a well-formed triple in the same component (and after it, and in another component)
    "did:a:b/ab cd%41", "did:a:b/a{b%41", "did:a:b?a b%41", "did:a:b?a{%41x", "did:a:b#a\"b%41", "did:a:b#a b%41", "did:a:b/%41 x", "did:a:b/%41?a b", "did:a:b/a b?%41", "did:a:b/x%41#a b", "did:a:a b%41", "did:a:a{%41"] {
    sink.case(bcase(1, s.as_bytes()), "table"); sink.case(bcase(2, s.as_bytes()), "table"); sink.case(bcase(7, s.as_bytes()), "table-routes");
  }
  // (b) random longer strings from a DID-URL grammar with mutation
  let id_chars: Vec<char> = "abzAZ09.-_:".chars().collect();
  let seg_chars: Vec<char> = "abZ9.-_:~!$&'()*+,;=@/".chars().collect();
  let n = if thorough { 60000 } else { 5000 };
  let mut valid_pool: Vec<String> = Vec::new();
  for _ in 0..n {
    let mut s = String::from("did:");
    for _ in 0..rng.range(1, 6) { s.push(*rng.pick(&['a', 'z', '0', '9', 'x'])); }
    s.push(':');
    for _ in 0..rng.range(1, 12) { if rng.chance(1, 12) { s.push_str("%4A"); } else { s.push(*rng.pick(&id_chars)); } }
    if rng.chance(1, 2) { s.push('/'); for _ in 0..rng.range(0, 8) { if rng.chance(1, 10) { s.push_str("%aa"); } else { s.push(*rng.pick(&seg_chars)); } } }
    if rng.chance(1, 2) { s.push('?'); for _ in 0..rng.range(0, 6) { s.push(*rng.pick(&seg_chars)); if rng.chance(1, 6) { s.push('?'); } } }
    if rng.chance(1, 2) { s.push('#'); for _ in 0..rng.range(0, 6) { s.push(*rng.pick(&seg_chars)); } }
    if rng.chance(1, 4) { // mutate one byte
      let mut b = s.clone().into_bytes(); let i = rng.below(b.len() as u64) as usize; b[i] = *rng.pick(&[b'%', b' ', b'#', b'?', b'/', b':', b'{', b'+', b'A']);
      if let Ok(m) = String::from_utf8(b) { s = m; }
    }
    if rng.chance(1, 10) { let k = rng.range(1, 5) as usize; s = format!("{}{}", " ".repeat(k), s); }
    sink.case(bcase(1, s.as_bytes()), "random"); sink.case(bcase(2, s.as_bytes()), "random"); if rng.chance(1, 4) { sink.case(bcase(7, s.as_bytes()), "random-routes"); }
    if valid_pool.len() < 40 && DIDUrl::parse(&s).is_ok() { valid_pool.push(s); }
  }
  // (c) setters and join over a pool of values x a pool of segments
  let starts = ["did:a:b", "did:a:b/p", "did:a:b?q", "did:a:b#f", "did:example:123/p/q?x=1&y=2#frag", "did:a:b:c/p?q?#f?", "did:a:%41", "did:a:b%41/p%41", "did:a:%41%42?q=%41#f%41", "did:a:b/p%41?%41", "did:a:x%41y/%41/q"];
  let segs = ["", "/", "/p", "p", "/p q", "?", "?q", "q", "??", "?q?r", "#", "#f", "f", "##", "a#b", "key 2", "/%41", "/%4", "%41", "?%41", "#%zz", "/a b%41", "/a{%41", "?a b%41", "#a b%41", "#a\"%41x", "/%41 b", "/é", "/a/../b", "/./x", "/a/./b/..", "/..", "/.", "/../..", "/a/b/../../c", "//a//b", "/a/.", "/a/..", "/.a", "/..a", "/a./b", "/a/...", "/../a?q", "/./?q#f", "/a/../?", "/%2e%2e/x", "/a/b/c/../../../../d", "?a=b&c=d", "#f?g/h", "/p?q#f", "?q#f", "/p#f", "noleading", "/{x}", "/~!$&'()*+,;=@:"];
  for st in starts.iter().map(|s| s.to_string()).chain(valid_pool.iter().cloned().take(if thorough { 40 } else { 10 })) {
    for sg in segs { for op in 0..3 { for flag in [1i64, 0] {
      let mut c = vec![3]; put_bytes(&mut c, st.as_bytes()); c.push(op); c.push(flag); put_bytes(&mut c, sg.as_bytes()); sink.case(c, "setter");
    } }
      let mut c = vec![5]; put_bytes(&mut c, st.as_bytes()); put_bytes(&mut c, sg.as_bytes()); sink.case(c, "join");
    }
  }
  for st in ["did:a:b", "did:example:123", "did:a:b:c", "did:a:%41", "did:a:b%41"] { for val in ["", "x", "example", "Ex", "a:b", "a:", ":", "a b", "%41", "%4", "%41x", "x%41", "%41%42", "%41%4", "%+1", "a/b", "a#b", "é", "0", "a.b-c_d"] { for op in 0..2 {
    let mut c = vec![4]; put_bytes(&mut c, st.as_bytes()); c.push(op); put_bytes(&mut c, val.as_bytes()); sink.case(c, "did-setter");
  } } }
  // (d) Eq / Ord / Hash over pairs
  let mut pool: Vec<String> = starts.iter().map(|s| s.to_string()).collect();
  pool.extend(["did:a:b/", "did:a:c", "did:b:b", "did:a:b/p?q", "did:a:b?q#f", "did:a:b/p#f", "did:a:b#g", "did:a:b?r"].iter().map(|s| s.to_string()));
  // queries (paths, fragments) that differ as text but would agree after percent / form decoding: different values
  pool.extend(["did:a:b?x=A", "did:a:b?x=%41", "did:a:b?a=b+c", "did:a:b?a=b%20c", "did:a:b?a", "did:a:b?a=", "did:a:b?a=1&b=2", "did:a:b?a=1&&b=2", "did:a:b/%41", "did:a:b/A", "did:a:b#%41", "did:a:b#A"].iter().map(|s| s.to_string()));
  pool.extend(valid_pool.iter().cloned().take(10));
  for a in &pool { for b in &pool { let mut c = vec![6]; put_bytes(&mut c, a.as_bytes()); put_bytes(&mut c, b.as_bytes()); sink.case(c, "cmp-pairs"); } }
}
