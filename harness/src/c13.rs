//! C13 — Timestamp against the unix-seconds model.
//! kinds: 1 parse(bytes)   2 from_unix(z)   3 checked arithmetic (t op unit k)   4 ordering of two unix values
use crate::common::*;
use identity_core::common::{Duration, Timestamp};

const MIN: i64 = -62167219200;
const MAX: i64 = 253402300799;

/// independent reference: days since 1970-01-01 by counting (no closed formula shared with the model)
fn is_leap(y: i64) -> bool { (y % 4 == 0 && y % 100 != 0) || y % 400 == 0 }
fn dim(y: i64, m: i64) -> i64 { match m { 2 => if is_leap(y) { 29 } else { 28 }, 4 | 6 | 9 | 11 => 30, _ => 31 } }
fn days_before_year(y: i64) -> i64 {
  // days from 0000-01-01 to y-01-01, y >= 0
  if y == 0 { 0 } else { let p = y - 1; 366 + p * 365 + p / 4 - p / 100 + p / 400 }
}
fn ref_days(y: i64, m: i64, d: i64) -> i64 {
  let mut n = days_before_year(y);
  for mm in 1..m { n += dim(y, mm); }
  n + d - 1 - 719528
}

/// RFC 3339 reference reader (any single byte separates date and time, as RFC 3339 section 5.6 NOTE permits): Some(expected instant, had_leap_second) when grammar and components are valid
fn ref_parse(s: &[u8]) -> Option<(i64, bool)> {
  let dg = |c: u8| if c.is_ascii_digit() { Some((c - b'0') as i64) } else { None };
  let d2 = |i: usize| -> Option<i64> { Some(dg(*s.get(i)?)? * 10 + dg(*s.get(i + 1)?)?) };
  if s.len() < 20 { return None; }
  let y = d2(0)? * 100 + d2(2)?;
  if s[4] != b'-' || s[7] != b'-' || s[13] != b':' || s[16] != b':' { return None; }
  let (mo, d, h, mi, sec) = (d2(5)?, d2(8)?, d2(11)?, d2(14)?, d2(17)?);
  let mut i = 19;
  if s[i] == b'.' { i += 1; let st = i; while i < s.len() && s[i].is_ascii_digit() { i += 1; } if i == st { return None; } }
  let off = if i + 1 == s.len() && (s[i] == b'Z' || s[i] == b'z') { 0 } else if i + 6 == s.len() && (s[i] == b'+' || s[i] == b'-') && s[i + 3] == b':' {
    let (oh, om) = (d2(i + 1)?, d2(i + 4)?);
    if oh > 23 || om > 59 { return None; }
    (if s[i] == b'-' { -1 } else { 1 }) * (oh * 3600 + om * 60)
  } else { return None };
  if !(1..=12).contains(&mo) || d < 1 || d > dim(y, mo) || h > 23 || mi > 59 || sec > 60 { return None; }
  let leap = sec == 60;
  let t = ref_days(y, mo, d) * 86400 + h * 3600 + mi * 60 + (if leap { 59 } else { sec }) - off;
  Some((t, leap))
}

fn fmt_obs(t: &Timestamp, obs: &mut Vec<i64>) -> Option<String> {
  let s = t.to_rfc3339();
  put_bytes(obs, s.as_bytes());
  Some(s)
}

fn accepted_checks(t: Timestamp) -> Option<&'static str> {
  let u = t.to_unix();
  if !(MIN..=MAX).contains(&u) { return Some("accepted timestamp outside 0000-01-01T00:00:00Z..9999-12-31T23:59:59Z"); }
  let s = t.to_rfc3339();
  if Timestamp::parse(&s).ok() != Some(t) { return Some("format-then-parse is not the identity"); }
  if Timestamp::from_unix(u).ok() != Some(t) { return Some("unix round trip is not the identity"); }
  let j = serde_json::to_string(&t).unwrap();
  if serde_json::from_str::<Timestamp>(&j).ok() != Some(t) { return Some("JSON round trip is not the identity"); }
  if j != format!("\"{}\"", s) { return Some("JSON form is not the RFC 3339 string"); }
  let _ = format!("{} {:?}", t, t);
  None
}

pub fn exec(case: &[i64]) -> Outcome {
  let mut v = &case[1..];
  match case[0] {
    1 => {
      let bytes = take_bytes(&mut v).unwrap();
      let s = match String::from_utf8(bytes.clone()) { Ok(s) => s, Err(_) => return Outcome::new(vec![0]).class("not-utf8").trivial() };
      let expect = ref_parse(&bytes);
      // every other route from a string must agree with parse: FromStr, TryFrom<&str>, TryFrom<String>, serde (JSON string)
      let routes: [Option<Timestamp>; 4] = { use std::str::FromStr; [Timestamp::from_str(&s).ok(), Timestamp::try_from(s.as_str()).ok(), Timestamp::try_from(s.clone()).ok(), serde_json::from_value::<Timestamp>(serde_json::Value::String(s.clone())).ok()] };
      let base = Timestamp::parse(&s).ok();
      if routes.iter().any(|r| *r != base) { return Outcome::new(vec![-8]).class("routes-disagree").fail("FromStr / TryFrom / serde disagree with Timestamp::parse on the same string"); }
      match Timestamp::parse(&s) {
        Err(_) => {
          let o = Outcome::new(vec![0]).class("parse-err");
          match expect { Some((t, false)) if (MIN..=MAX).contains(&t) => o.fail("valid in-range RFC 3339 string rejected"), _ => o }
        }
        Ok(t) => {
          let mut obs = vec![1, t.to_unix()];
          let mut why = accepted_checks(t);
          fmt_obs(&t, &mut obs);
          match expect {
            None => why = Some("string outside the RFC 3339 grammar / component ranges accepted"),
            Some((e, _)) => if e != t.to_unix() { why = Some("parsed instant differs from the instant the string denotes") },
          }
          let o = Outcome::new(obs).class(if bytes.last().map(|c| *c == b'Z').unwrap_or(false) && bytes.len() == 20 { "parse-ok-canonical" } else { "parse-ok" });
          match why { Some(w) => o.fail(w), None => o }
        }
      }
    }
    2 => {
      let z = v[0];
      match Timestamp::from_unix(z) {
        Err(_) => { let o = Outcome::new(vec![0]).class("unix-err"); if (MIN..=MAX).contains(&z) { o.fail("in-range unix value rejected") } else { o } }
        Ok(t) => {
          let mut obs = vec![1, t.to_unix()];
          let mut why = accepted_checks(t);
          if t.to_unix() != z { why = Some("from_unix changed the value"); }
          if !(MIN..=MAX).contains(&z) { why = Some("out-of-range unix value accepted"); }
          fmt_obs(&t, &mut obs);
          let o = Outcome::new(obs).class("unix-ok");
          match why { Some(w) => o.fail(w), None => o }
        }
      }
    }
    3 => {
      let (t0, op, u, k) = (v[0], v[1], v[2], v[3] as u32);
      let t = match Timestamp::from_unix(t0) { Ok(t) => t, Err(_) => return Outcome::new(vec![-1]).class("arith-bad-start").trivial() };
      let (d, unit) = match u { 0 => (Duration::seconds(k), 1i128), 1 => (Duration::minutes(k), 60), 2 => (Duration::hours(k), 3600), 3 => (Duration::days(k), 86400), _ => (Duration::weeks(k), 604800) };
      let r = if op == 0 { t.checked_add(d) } else { t.checked_sub(d) };
      let exact: i128 = t0 as i128 + (if op == 0 { 1 } else { -1 }) * unit * k as i128;
      let expect = if exact >= MIN as i128 && exact <= MAX as i128 { Some(exact as i64) } else { None };
      let got = r.map(|x| x.to_unix());
      let obs = match got { Some(x) => vec![1, x], None => vec![0] };
      let mut o = Outcome::new(obs).class(if got.is_some() { "arith-some" } else { "arith-none" });
      if got != expect { o = o.fail("checked arithmetic differs from integer arithmetic on seconds with the range gate"); }
      if let Some(x) = r { if let Some(w) = accepted_checks(x) { o = o.fail(w); } }
      o
    }
    5 => {
      // checked arithmetic with a Duration that arrived through serde ([seconds, nanoseconds]: negative and fractional spans exist on this route)
      let (t0, op, secs, nanos) = (v[0], v[1], v[2], v[3]);
      let t = match Timestamp::from_unix(t0) { Ok(t) => t, Err(_) => return Outcome::new(vec![-1]).class("arith-bad-start").trivial() };
      let d: Duration = match serde_json::from_value(serde_json::json!([secs, nanos])) { Ok(d) => d, Err(_) => return Outcome::new(vec![-2]).class("duration-not-deserialisable").trivial() };
      let r = if op == 0 { t.checked_add(d) } else { t.checked_sub(d) };
      let total: i128 = secs as i128 * 1_000_000_000 + nanos as i128;
      let exact_ns: i128 = t0 as i128 * 1_000_000_000 + (if op == 0 { total } else { -total });
      let exact = exact_ns.div_euclid(1_000_000_000);      // the instant truncated to the second (floor)
      let expect = if exact >= MIN as i128 && exact <= MAX as i128 { Some(exact as i64) } else { None };
      let got = r.map(|x| x.to_unix());
      let obs = match got { Some(x) => vec![1, x], None => vec![0] };
      let mut o = Outcome::new(obs).class(if got.is_some() { "arith-serde-some" } else { "arith-serde-none" });
      if got != expect { o = o.fail("checked arithmetic with a deserialised duration differs from integer arithmetic on seconds with the range gate"); }
      if let Some(x) = r { if let Some(w) = accepted_checks(x) { o = o.fail(w); } }
      o
    }
    4 => {
      let (a, b) = (v[0], v[1]);
      match (Timestamp::from_unix(a), Timestamp::from_unix(b)) {
        (Ok(x), Ok(y)) => {
          let c = match x.cmp(&y) { std::cmp::Ordering::Less => -1, std::cmp::Ordering::Equal => 0, std::cmp::Ordering::Greater => 1 };
          let e = match a.cmp(&b) { std::cmp::Ordering::Less => -1, std::cmp::Ordering::Equal => 0, std::cmp::Ordering::Greater => 1 };
          let mut o = Outcome::new(vec![c]).class("order");
          if c != e || (x == y) != (a == b) || (x < y) != (a < b) { o = o.fail("ordering differs from the ordering of unix seconds"); }
          o
        }
        _ => Outcome::new(vec![-2]).class("order-bad").trivial(),
      }
    }
    _ => Outcome::new(vec![-998]).fail("bad case kind"),
  }
}

fn civil(days: i64) -> (i64, i64, i64) {
  // inverse of ref_days by search (independent of the model's closed formula)
  let mut y = (days + 719528) / 366; // lower bound
  while days_before_year(y + 1) - 719528 <= days { y += 1; }
  let mut rem = days - (days_before_year(y) - 719528);
  let mut m = 1;
  while rem >= dim(y, m) { rem -= dim(y, m); m += 1; }
  (y, m, rem + 1)
}

fn render(t_local: i64, off: i64, frac: &str, sep: char, zulu: char, sec_override: Option<i64>) -> String {
  let days = t_local.div_euclid(86400);
  let sod = t_local.rem_euclid(86400);
  let (y, m, d) = civil(days);
  let sec = sec_override.unwrap_or(sod % 60);
  let offs = if off == 0 && zulu != '+' && zulu != '-' { zulu.to_string() } else { format!("{}{:02}:{:02}", if off < 0 || zulu == '-' { '-' } else { '+' }, off.abs() / 3600, off.abs() % 3600 / 60) };
  format!("{:04}-{:02}-{:02}{}{:02}:{:02}:{:02}{}{}", y, m, d, sep, sod / 3600, sod % 3600 / 60, sec, frac, offs)
}

fn parse_case(s: &str) -> Vec<i64> { let mut c = vec![1]; put_bytes(&mut c, s.as_bytes()); c }

pub fn gen(rng: &mut Rng, thorough: bool, sink: &mut Sink) {
  let fracs = ["", ".0", ".5", ".87", ".999", ".123456789", ".9999999999", ".000000000000"];
  // (a) boundary grid: local date-times at and around the range ends x offsets
  let mut offsets: Vec<i64> = Vec::new();
  for h in 0..24 { for m in (if thorough { (0..60).collect::<Vec<_>>() } else { vec![0, 1, 30, 59] }) { offsets.push(h * 3600 + m * 60); offsets.push(-(h * 3600 + m * 60)); } }
  let anchors: Vec<i64> = vec![MIN, MIN + 1, MIN + 86399, MIN + 86400, MIN + 2 * 86400 - 1, MAX, MAX - 1, MAX - 86399, MAX - 86400, MAX - 2 * 86400 + 1, 0, -1, 951782400 + 43200 /*2000-02-29*/, -2203891201 /*1900-02-28T23:59:59*/, 1709251199];
  for &a in &anchors { for &off in &offsets {
    // the same local wall clock under every offset, and the same instant under every offset
    sink.case(parse_case(&render(a, off, "", 'T', 'Z', None)), "grid-local");
    let local = a + off;
    if local >= MIN && local <= MAX { sink.case(parse_case(&render(local, off, "", 'T', 'Z', None)), "grid-instant"); }
  } }
  // (b) fractions, separators, zulu case
  for &a in &[MIN, MAX, 0, 1709251199i64] { for f in fracs { for sep in ['T', 't', ' ', '_'] { for z in ['Z', 'z', '+', '-'] {
    sink.case(parse_case(&render(a, 0, f, sep, z, None)), "frac-sep");
  } } } }
  // (c) leap seconds: :60 on month ends and elsewhere, with offsets
  for &(y, m, d) in &[(2016i64, 12i64, 31i64), (2015, 6, 30), (2016, 2, 29), (2015, 2, 28), (2016, 12, 30), (0, 1, 31), (9999, 12, 31), (2017, 1, 1)] {
    for &off in &[0i64, 3600, -3600, 19800, -86340, 86340] { for f in ["", ".5"] {
      let local = (ref_days(y, m, d) * 86400 + 86399) + off;
      if local < MIN || local > MAX + 86400 { continue; }
      sink.case(parse_case(&render(local.min(MAX), off, f, 'T', 'Z', Some(60))), "leap-second");
      sink.case(parse_case(&render((ref_days(y, m, d) * 86400 + 43259).max(MIN), off, f, 'T', 'Z', Some(60))), "leap-second-midday");
    } }
  }
  // (d) invalid components
  for s in ["2020-00-10T00:00:00Z", "2020-13-10T00:00:00Z", "2020-01-00T00:00:00Z", "2020-01-32T00:00:00Z", "2019-02-29T00:00:00Z", "2020-02-29T00:00:00Z",
            "2020-02-30T00:00:00Z", "1900-02-29T00:00:00Z", "2000-02-29T00:00:00Z", "2020-04-31T00:00:00Z", "2020-01-01T24:00:00Z", "2020-01-01T23:60:00Z",
            "2020-01-01T23:59:61Z", "2020-01-01T00:00:00+24:00", "2020-01-01T00:00:00+23:60", "2020-01-01T00:00:00-00:00", "2020-01-01T00:00:00+0000",
            "2020-01-01T00:00:00", "2020-01-01T00:00:00.Z", "2020-01-01T00:00Z", "20200101T000000Z", "+2020-01-01T00:00:00Z", "-0001-01-01T00:00:00Z",
            "10000-01-01T00:00:00Z", "2020-1-01T00:00:00Z", " 2020-01-01T00:00:00Z", "2020-01-01T00:00:00Z ", "2020-01-01T00:00:00ZZ", "", "Z",
            "9999-12-31T23:59:59-01:00", "0000-01-01T00:00:00+01:00", "9999-12-31T23:59:60Z", "0000-01-01T00:00:00-00:01", "9999-12-31T23:59:59.999999999+00:00"] {
    sink.case(parse_case(s), "component-table");
  }
  // (e) malformed stream: truncations and single-byte replacements of valid strings
  let seeds = ["2023-11-05T14:27:40Z", "1937-01-01T12:00:27.87+00:20", "0000-01-01T00:00:00Z", "9999-12-31T23:59:59-00:00"];
  let adv = ["+", "-", " ", "Z", ":", ".", "0", "9", "T", "é", "\n", "a", "/"];
  for s in seeds {
    let chars: Vec<char> = s.chars().collect();
    for n in 0..chars.len() { sink.case(parse_case(&chars[..n].iter().collect::<String>()), "truncation"); }
    for i in 0..chars.len() { for a in adv { let mut t: String = chars[..i].iter().collect(); t.push_str(a); t.extend(chars[i + 1..].iter()); sink.case(parse_case(&t), "replacement"); } }
  }
  // (f) uniformly random instants with random offset / fraction / separators
  let n = if thorough { 200000 } else { 8000 };
  for _ in 0..n {
    let t = rng.range(MIN - 90000, MAX + 90000);
    let off = *rng.pick(&offsets);
    let local = t + off;
    if local < MIN || local > MAX { continue; }
    let f = *rng.pick(&fracs);
    let sep = *rng.pick(&['T', 'T', 't', ' ']);
    let zu = *rng.pick(&['Z', 'Z', 'z', '+']);
    sink.case(parse_case(&render(local, off, f, sep, zu, None)), "random-instant");
  }
  // (g) unix seconds at and around the range, i64 extremes
  for d in -3..=3 { sink.case(vec![2, MIN + d], "unix-edge"); sink.case(vec![2, MAX + d], "unix-edge"); }
  for z in [0i64, -1, 1, i64::MAX, i64::MIN, i64::MAX / 2, -377705116800, 377705116799, -377705116801, 253402300800 + 86400 * 366] { sink.case(vec![2, z], "unix-extreme"); }
  for _ in 0..(if thorough { 20000 } else { 1000 }) { let z = rng.range(MIN - 1000000, MAX + 1000000); sink.case(vec![2, z], "unix-random"); }
  // (h) checked arithmetic with every constructor at the boundaries
  for &t in &[MIN, MIN + 1, MIN + 59, MIN + 604799, 0, MAX, MAX - 1, MAX - 60, MAX - 604800, MAX - 604801] {
    for op in 0..2 { for u in 0..5 { for &k in &[0i64, 1, 2, 59, 60, 61, 3600, 86400, 604800, 4294967295, 4294967294, 315537897599 / [1, 60, 3600, 86400, 604800][u as usize]] {
      if k <= 4294967295 { sink.case(vec![3, t, op, u, k], "arith-edge"); }
    } } }
  }
  for _ in 0..(if thorough { 30000 } else { 2000 }) {
    let t = rng.range(MIN, MAX); let u = rng.range(0, 4);
    let unit = [1i64, 60, 3600, 86400, 604800][u as usize];
    let k = if rng.chance(1, 3) { rng.range(0, 4294967295) } else { let room = if rng.chance(1, 2) { MAX - t } else { t - MIN }; (room / unit + rng.range(-2, 2)).clamp(0, 4294967295) };
    sink.case(vec![3, t, rng.range(0, 1), u, k], "arith-random");
  }
  // (h2) durations that arrive through serde: negative and fractional spans, at the boundaries and at random
  for &t in &[MIN, MIN + 1, 0, 1, MAX - 1, MAX] { for op in 0..2 { for &secs in &[0i64, 1, -1, 86400, -86400, 60, -60] { for &nanos in &[0i64, 1, -1, 999_999_999, -999_999_999, 500_000_000] {
    sink.case(vec![5, t, op, secs, nanos], "arith-serde-edge"); } } } }
  for _ in 0..(if thorough { 10000 } else { 800 }) { let t = rng.range(MIN, MAX); let secs = if rng.chance(1, 2) { rng.range(-1000, 1000) } else { let room = if rng.chance(1, 2) { MAX - t } else { MIN - t }; room + rng.range(-2, 2) };
    sink.case(vec![5, t, rng.range(0, 1), secs, rng.range(-999_999_999, 999_999_999)], "arith-serde-random"); }
  // (i) ordering of pairs
  for _ in 0..(if thorough { 20000 } else { 1000 }) {
    let a = rng.range(MIN, MAX); let b = if rng.chance(1, 4) { a } else if rng.chance(1, 2) { (a + rng.range(-2, 2)).clamp(MIN, MAX) } else { rng.range(MIN, MAX) };
    sink.case(vec![4, a, b], "order");
  }
}
