//! C17 — IotaDID parsing / construction / equality against the model.
//! kinds: 1 IotaDID::parse(bytes)  2 IotaDID::new(tag hex chars, network bytes)  3 equality of two parsed DIDs
use crate::common::*;
use identity_did::DID;
use identity_iota_core::{IotaDID, NetworkName};
use identity_core::convert::FromJson;

const VALID_ID: &str = "did:iota:0x9999999999999999999999999999999999999999999999999999999999999999";
/// StateMetadataDocument::unpack of hand-framed bytes ("DID", version 1, JSON encoding, length, body), then into_iota_document for VALID_ID
fn unpacked(body: &serde_json::Value) -> Option<identity_iota_core::IotaDocument> {
  let js = serde_json::to_vec(body).ok()?; let mut bytes = b"DID\x01\x00".to_vec(); bytes.extend((js.len() as u16).to_le_bytes()); bytes.extend(js);
  identity_iota_core::StateMetadataDocument::unpack(&bytes).ok()?.into_iota_document(&IotaDID::parse(VALID_ID).ok()?).ok()
}
fn value_obs(d: &IotaDID, obs: &mut Vec<i64>) {
  obs.push(1);
  put_bytes(obs, d.to_string().as_bytes()); put_bytes(obs, d.network_str().as_bytes()); put_bytes(obs, d.tag_str().as_bytes());
}
fn checks(d: &IotaDID) -> Option<String> {
  let s = d.to_string();
  if d.method() != "iota" { return Some("method is not iota".into()); }
  let (n, t) = (d.network_str().to_string(), d.tag_str().to_string());
  if n.is_empty() || n.len() > 6 || !n.bytes().all(|c| c.is_ascii_lowercase() || c.is_ascii_digit()) { return Some("network name outside 1-6 lowercase alphanumerics".into()); }
  if t.len() != 66 || !t.starts_with("0x") || !t[2..].bytes().all(|c| c.is_ascii_hexdigit() && !c.is_ascii_uppercase()) { return Some("tag is not 32 hex-encoded bytes in lower case".into()); }
  if s != s.to_lowercase() { return Some("not held in lower case".into()); }
  if s.contains(|c| c == '/' || c == '?' || c == '#') { return Some("carries a path, query or fragment".into()); }
  let expect = if n == "iota" { format!("did:iota:{}", t) } else { format!("did:iota:{}:{}", n, t) };
  if s != expect { return Some(format!("accessors do not recompose the string / default network spelled out: {:?}", s)); }
  match IotaDID::parse(&s) { Ok(r) => if r != *d { return Some("does not re-parse to an equal value".into()); }, Err(_) => return Some("string form does not re-parse".into()) }
  None
}

pub fn exec(case: &[i64]) -> Outcome {
  let mut v = &case[1..];
  match case[0] {
    1 => {
      let bytes = take_bytes(&mut v).unwrap();
      let s = match String::from_utf8(bytes.clone()) { Ok(s) => s, Err(_) => return Outcome::new(vec![0]).class("not-utf8").trivial() };
      match IotaDID::parse(&s) {
        Err(_) => Outcome::new(vec![0]).class("err"),
        Ok(d) => { let mut obs = vec![]; value_obs(&d, &mut obs); let o = Outcome::new(obs).class("ok"); match checks(&d) { Some(w) => o.fail(&w), None => o } }
      }
    }
    2 => {
      let tag = take_bytes(&mut v).unwrap();
      let net = String::from_utf8(take_bytes(&mut v).unwrap()).unwrap();
      // a NetworkName can be obtained through its constructor or by deserialisation; both must validate
      let by_ctor = NetworkName::try_from(net.clone()).ok();
      let by_serde: Option<NetworkName> = serde_json::from_value(serde_json::Value::String(net.clone())).ok();
      if by_ctor.is_some() != by_serde.is_some() { return Outcome::new(vec![-4]).class("netname").fail("NetworkName constructor and deserialisation disagree on validity"); }
      let nn = match by_serde { Some(n) => n, None => return Outcome::new(vec![0]).class("bad-network") };
      let mut raw = [0u8; 32];
      let hexs = String::from_utf8(tag.clone()).unwrap();
      for i in 0..32 { raw[i] = u8::from_str_radix(&hexs[2 * i..2 * i + 2], 16).unwrap(); }
      let d = IotaDID::new(&raw, &nn);
      let mut obs = vec![]; value_obs(&d, &mut obs);
      let mut o = Outcome::new(obs).class("new");
      if let Some(w) = checks(&d) { o = o.fail(&w); }
      if d.network_str() != net { o = o.fail("constructor does not expose the network name"); }
      if d.tag_str() != format!("0x{}", hexs.to_lowercase()) { o = o.fail("constructor does not expose the tag bytes"); }
      o
    }
    3 => {
      let a = String::from_utf8(take_bytes(&mut v).unwrap()).unwrap();
      let b = String::from_utf8(take_bytes(&mut v).unwrap()).unwrap();
      match (IotaDID::parse(&a), IotaDID::parse(&b)) {
        (Ok(x), Ok(y)) => {
          let eq = x == y;
          let same = x.network_str() == y.network_str() && x.tag_str() == y.tag_str();
          let mut o = Outcome::new(vec![eq as i64, same as i64]).class("eq");
          if eq != same { o = o.fail("equality differs from equality of (network, tag)"); }
          o
        }
        _ => Outcome::new(vec![-2]).class("eq-bad").trivial(),
      }
    }
    4 => {
      // every construction route of an IotaDID from one string: parse, FromStr, TryFrom<&str>, TryFrom<String>, try_from_core, TryFrom<CoreDID>,
      // TryFrom<BaseDIDUrl>, serde, and the id of an IotaDocument deserialised from JSON
      use std::str::FromStr;
      let bytes = take_bytes(&mut v).unwrap();
      let s = match String::from_utf8(bytes) { Ok(s) => s, Err(_) => return Outcome::new(vec![0]).class("not-utf8").trivial() };
      let routes: Vec<Option<IotaDID>> = vec![
        IotaDID::parse(&s).ok(), IotaDID::from_str(&s).ok(), IotaDID::try_from(s.as_str()).ok(), IotaDID::try_from(s.clone()).ok(),
        identity_did::CoreDID::parse(&s).ok().and_then(|c| IotaDID::try_from_core(c).ok()),
        identity_did::CoreDID::parse(&s).ok().and_then(|c| IotaDID::try_from(c).ok()),
        identity_did::BaseDIDUrl::parse(&s).ok().and_then(|b| IotaDID::try_from(b).ok()),
        serde_json::from_value::<IotaDID>(serde_json::Value::String(s.clone())).ok(),
        identity_iota_core::IotaDocument::from_json_value(serde_json::json!({"doc": {"id": s}, "meta": {}})).ok().map(|d| d.id().clone()),
        // the controller of a deserialised IotaDocument, and the id / controller of a document unpacked from state metadata, are handed out as IotaDIDs too
        identity_iota_core::IotaDocument::from_json_value(serde_json::json!({"doc": {"id": VALID_ID, "controller": s}, "meta": {}})).ok().and_then(|d| d.controller().next().cloned()),
        unpacked(&serde_json::json!({"doc": {"id": "did:0:0", "controller": s}, "meta": {}})).and_then(|d| d.controller().next().cloned()),
        unpacked(&serde_json::json!({"doc": {"id": s}, "meta": {}})).map(|d| d.id().clone()),
      ];
      let mut obs = vec![]; let mut o_fail: Option<String> = None;
      for (k, r) in routes.iter().enumerate() { match r { None => obs.push(0), Some(d) => { value_obs(d, &mut obs); if let Some(w) = checks(d) { o_fail.get_or_insert(format!("route {k}: {w}")); } } } }
      // values obtained through different routes from one string must be equal when network and tag agree
      for a in routes.iter().flatten() { for b in routes.iter().flatten() { if (a == b) != (a.network_str() == b.network_str() && a.tag_str().eq_ignore_ascii_case(b.tag_str())) { o_fail.get_or_insert("two routes give values that are unequal although network and tag bytes agree".into()); } } }
      let mut o = Outcome::new(obs).class(if routes.iter().any(|r| r.is_some()) { "routes-ok" } else { "routes-err" });
      if let Some(w) = o_fail { o = o.fail(&w); }
      o
    }
    _ => Outcome::new(vec![-998]).fail("bad case kind"),
  }
}

fn bcase(kind: i64, s: &[u8]) -> Vec<i64> { let mut c = vec![kind]; put_bytes(&mut c, s); c }

pub fn gen(rng: &mut Rng, thorough: bool, sink: &mut Sink) {
  let tag = "0xf29dd16310c2100fd1bf568b345fb1cc14d71caa3bd9b5ad735d2bd6d455ca3b";
  let tag_up = "0xF29DD16310C2100FD1BF568B345FB1CC14D71CAA3BD9B5AD735D2BD6D455CA3B";
  // (a) shapes: method x segment counts x tag lengths x case x trailing parts
  let methods = ["iota", "IOTA", "Iota", "iot", "iotaa", "key", ""];
  let nets = ["", "iota", "IOTA", "main", "Main", "smr", "a", "abcdef", "abcdefg", "iota1", "iotax", "xiota", "0", "a-b", "a b", "é", "rms:dev"];
  let tails = ["", "/path", "?q=1", "#frag", " ", "/", "#", ":"];
  for m in methods { for n in nets { for t in [tag, tag_up] { for tl in tails {
    let s = if n.is_empty() { format!("did:{}:{}{}", m, t, tl) } else { format!("did:{}:{}:{}{}", m, n, t, tl) };
    sink.case(bcase(1, s.as_bytes()), "shape");
  } } } }
  for len in 0..=70usize { for pre in ["0x", "0X", "", "x0"] {
    let body: String = (0..len).map(|i| ['0', 'a', 'F', '9'][i % 4]).collect();
    sink.case(bcase(1, format!("did:iota:{}{}", pre, body).as_bytes()), "tag-length");
    sink.case(bcase(1, format!("did:iota:dev:{}{}", pre, body).as_bytes()), "tag-length");
  } }
  // every network spelling with an empty / degenerate tag (the method id may end in ':')
  for n in nets { for t in ["", "0x", "0", ":", "0x1", "x"] { for m in ["iota", "IOTA", "key"] { sink.case(bcase(1, format!("did:{}:{}:{}", m, n, t).as_bytes()), "empty-tag"); } } }
  for bad in ["g", "G", " ", ":", "%", "-"] { let mut t = tag.to_string(); t.replace_range(10..11, bad); sink.case(bcase(1, format!("did:iota:{}", t).as_bytes()), "tag-nonhex"); }
  for s in ["", "did:iota", "did:iota:", "did:iota::", " did:iota:0x00", "did:iota:a:b:c"] { sink.case(bcase(1, s.as_bytes()), "table"); }
  // str::to_lowercase is Unicode-aware: KELVIN SIGN lowers to ASCII 'k', U+0130 to 'i' + combining dot
  for n in ["\u{212A}", "a\u{212A}", "\u{212A}\u{212A}k", "\u{0130}", "\u{0130}ota", "io\u{212A}a", "\u{212B}", "\u{00C9}", "a\u{212A}\u{0130}"] {
    for t in [tag, tag_up] { sink.case(bcase(1, format!("did:iota:{}:{}", n, t).as_bytes()), "unicode-lower"); }
    sink.case(bcase(1, format!("did:{}:{}", n, tag).as_bytes()), "unicode-lower");
  }
  sink.case(bcase(1, format!("did:iota:0\u{212A}{}", &tag[2..]).as_bytes()), "unicode-lower");
  // (b) all network names up to length 2 over an alphabet, random longer ones, with random tags, through new()
  let alpha: Vec<char> = "az09AZ-".chars().collect();
  let mut names: Vec<String> = vec![String::new()];
  for a in &alpha { names.push(a.to_string()); for b in &alpha { names.push(format!("{}{}", a, b)); } }
  for _ in 0..(if thorough { 3000 } else { 300 }) { let l = rng.range(3, 8); names.push((0..l).map(|_| *rng.pick(&alpha)).collect()); }
  names.extend(["iota", "iota1", "iotax", "main", "abcdef", "abcdefg", "INVALID NAME"].iter().map(|s| s.to_string()));
  for n in &names {
    let hexs: String = (0..64).map(|_| *rng.pick(&['0', '1', '7', 'a', 'c', 'f', 'A', 'F'])).collect();
    let mut c = vec![2]; put_bytes(&mut c, hexs.as_bytes()); put_bytes(&mut c, n.as_bytes()); sink.case(c, "new");
    sink.case(bcase(1, format!("did:iota:{}:0x{}", n, hexs).as_bytes()), "parse-network");
  }
  // (b2) every construction route on the interesting spellings
  let tag_mixed = "0xF29dd16310c2100fd1bf568b345fb1cc14d71caa3bd9b5ad735d2bd6d455CA3b"; let tag_one_up = "0xf29dd16310c2100fd1bf568b345fb1cc14d71caa3bd9b5ad735d2bd6d455ca3B";
  for n in ["", "iota:", "IOTA:", "Iota:", "smr:", "Smr:", "iota1:", "abcdefg:", "a:b:"] { for t in [tag, tag_up, tag_mixed, tag_one_up, "0x", ""] { for m in ["iota", "IOTA", "key"] { for tl in ["", "#f", "/p", "?q=1", " ", "#", "?", "?#", "/", "/#"] {
    sink.case(bcase(4, format!("did:{}:{}{}{}", m, n, t, tl).as_bytes()), "routes"); } } } }
  // (c) equality pairs
  let t2 = "0x0000000000000000000000000000000000000000000000000000000000000001";
  let mut pool: Vec<String> = Vec::new();
  for n in ["", "iota:", "IOTA:", "main:", "smr:", "iota1:"] { for t in [tag, tag_up, t2] { pool.push(format!("did:iota:{}{}", n, t)); } }
  for a in &pool { for b in &pool { let mut c = vec![3]; put_bytes(&mut c, a.as_bytes()); put_bytes(&mut c, b.as_bytes()); sink.case(c, "eq-pairs"); } }
}
