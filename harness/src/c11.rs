//! C11 — JOSE header policy against the decision model.
//! case: entry first_b64 | p_present hdr | u_present hdr        (see coq/theories/Run/C11Run.v)
use crate::common::*;
use identity_jose::jwk::Jwk;
use identity_jose::jws::*;
use serde_json::{json, Map, Value};

pub const NAMES: &[(i64, &str)] = &[
  (0, "alg"), (1, "b64"), (2, "crit"), (3, "jku"), (4, "jwk"), (5, "kid"), (6, "x5u"), (7, "x5c"), (8, "x5t"), (9, "x5t#S256"),
  (10, "typ"), (11, "cty"), (12, "url"), (13, "nonce"), (14, "enc"), (15, "zip"), (16, "epk"), (17, "apu"), (18, "apv"), (19, "iv"),
  (20, "tag"), (21, "p2s"), (22, "p2c"), (23, "x5t#s256"), (24, "exp"), (100, "x-unknown"), (101, "x-a"), (102, "x-b"),
  // case variants of registered / implemented names are OTHER names (header parameter names are case sensitive)
  (103, "B64"), (104, "Crit"), (105, "ALG"), (106, "KID"),
];
pub fn name(id: i64) -> &'static str { NAMES.iter().find(|(i, _)| *i == id).map(|(_, n)| *n).unwrap_or("x-other") }

#[derive(Clone, Debug)]
pub struct H { pub alg: bool, pub b64: Option<bool>, pub crit: Option<Vec<i64>>, pub common: Vec<i64>, pub custom: Option<Vec<i64>> }

pub fn take_hdr(v: &mut &[i64]) -> Option<H> {
  let present = take1(v)? != 0;
  let alg = take1(v)? != 0;
  let b64 = match take1(v)? { 0 => None, 1 => Some(true), _ => Some(false) };
  let cp = take1(v)? != 0;
  let crit = take_lp(v)?.to_vec();
  let common = take_lp(v)?.to_vec();
  let kp = take1(v)? != 0;
  let custom = take_lp(v)?.to_vec();
  if present { Some(H { alg, b64, crit: if cp { Some(crit) } else { None }, common, custom: if kp { Some(custom) } else { None } }) } else { None }
}
pub fn put_hdr(c: &mut Vec<i64>, h: Option<&H>) {
  match h {
    None => c.extend([0, 0, 0, 0, 0, 0, 0, 0]),
    Some(h) => {
      c.extend([1, h.alg as i64, match h.b64 { None => 0, Some(true) => 1, Some(false) => 2 }, h.crit.is_some() as i64]);
      put_lp(c, h.crit.as_deref().unwrap_or(&[]));
      put_lp(c, &h.common);
      c.push(h.custom.is_some() as i64);
      put_lp(c, h.custom.as_deref().unwrap_or(&[]));
    }
  }
}

fn field_value(id: i64) -> Value {
  match id {
    3 | 6 | 12 => json!("https://a.example/x"),
    4 => json!({"kty": "OKP", "crv": "Ed25519", "x": "11qYAYKxCrfVS_7TyWQHOg7hcvPapiMlrwIaaPcHURo"}),
    7 => json!(["AAAA"]),
    _ => json!("v"),
  }
}

/// JSON object of a header description; registered names (< 14) inside `custom` cannot be expressed in JSON
pub fn hdr_json(h: &H) -> Option<Value> {
  let mut m = Map::new();
  if h.alg { m.insert("alg".into(), json!("EdDSA")); }
  if let Some(b) = h.b64 { m.insert("b64".into(), json!(b)); }
  if let Some(c) = &h.crit { m.insert("crit".into(), Value::Array(c.iter().map(|i| json!(name(*i))).collect())); }
  for id in &h.common { m.insert(name(*id).into(), field_value(*id)); }
  if let Some(c) = &h.custom { for id in c { if *id < 14 { return None; } m.insert(name(*id).into(), json!("c")); } }
  Some(Value::Object(m))
}
/// the JwsHeader value (custom keys that collide with registered names go through set_custom)
pub fn hdr_value(h: &H) -> Option<JwsHeader> {
  let mut clean = h.clone();
  let collide: Vec<i64> = h.custom.clone().unwrap_or_default().into_iter().filter(|i| *i < 14).collect();
  if let Some(c) = clean.custom.as_mut() { c.retain(|i| *i >= 14); }
  let mut hv: JwsHeader = serde_json::from_value(hdr_json(&clean)?).ok()?;
  if !collide.is_empty() {
    let mut map = hv.custom().cloned().unwrap_or_default();
    for id in collide { map.insert(name(id).to_string(), json!("c")); }
    hv.set_custom(map);
  }
  Some(hv)
}

// ---- the rules of the statement, written directly (the property oracle) ----
fn has(h: &H, c: i64) -> bool {
  match c { 0 => h.alg, 1 => h.b64.is_some(), 2 => h.crit.is_some() || h.custom.as_ref().map(|k| k.contains(&2)).unwrap_or(false),
            3..=13 => h.common.contains(&c) || h.custom.as_ref().map(|k| k.contains(&c)).unwrap_or(false),
            _ => h.custom.as_ref().map(|k| k.contains(&c)).unwrap_or(false) }
}
fn registered(c: i64) -> bool { [0, 3, 4, 5, 6, 7, 8, 23, 10, 11, 2, 14, 15, 16, 17, 18, 19, 20, 21, 22].contains(&c) }
fn policy_ok(p: Option<&H>, u: Option<&H>) -> bool {
  if u.map(|h| has(h, 2)).unwrap_or(false) { return false; }                       // crit outside the protected header
  let crit: Option<&Vec<i64>> = p.and_then(|h| h.crit.as_ref());
  if crit.map(|c| c.is_empty()).unwrap_or(false) { return false; }                // empty crit
  for c in crit.cloned().unwrap_or_default() {
    if registered(c) { return false; }                                            // names a registered parameter
    if c != 1 { return false; }                                                   // names an extension it does not implement
    if !(p.map(|h| has(h, c)).unwrap_or(false) || u.map(|h| has(h, c)).unwrap_or(false)) { return false; } // absent from the headers
  }
  if u.and_then(|h| h.b64).is_some() { return false; }                            // b64 outside the protected header
  if p.and_then(|h| h.b64).is_some() && !crit.map(|c| c.contains(&1)).unwrap_or(false) { return false; } // b64 not listed in crit
  if let (Some(a), Some(b)) = (p, u) {                                            // shared parameter name
    let all: Vec<i64> = NAMES.iter().map(|(i, _)| *i).collect();
    let names = |h: &H, c: i64| has(h, c) || h.custom.as_ref().map(|k| k.contains(&c)).unwrap_or(false);
    if all.iter().any(|c| names(a, *c) && names(b, *c)) { return false; }
  }
  true
}

struct AcceptAll;
impl JwsVerifier for AcceptAll {
  fn verify(&self, _input: VerificationInput, _public_key: &Jwk) -> Result<(), SignatureVerificationError> { Ok(()) }
}

pub fn exec(case: &[i64]) -> Outcome {
  if case[0] == 9 {
    // known class K_custom_registered: `crit` / `b64` smuggled in through the custom map (set_custom) are invisible to the policy,
    // which reads the dedicated fields only; serde then flattens them next to the typed members.  variant: 0 crit:[exp]  1 b64:false  2 crit:[b64] + b64:false  3 crit:[]
    let mut h = JwsHeader::new(); h.set_alg(JwsAlgorithm::EdDSA);
    let mut m = std::collections::BTreeMap::new();
    match case[1] { 0 => { m.insert("crit".to_string(), json!(["exp"])); } 1 => { m.insert("b64".to_string(), json!(false)); } 2 => { m.insert("crit".to_string(), json!(["b64"])); m.insert("b64".to_string(), json!(false)); } _ => { m.insert("crit".to_string(), json!([])); } }
    h.set_custom(m);
    let accepted = match case[2] { 0 => CompactJwsEncoder::new(b"aGk", &h).is_ok(), 1 => FlattenedJwsEncoder::new(b"aGk", Recipient::new().protected(&h), false).is_ok(), _ => GeneralJwsEncoder::new(b"aGk", Recipient::new().protected(&h), false).is_ok() };
    let expect = case[1] == 2;      // only that header set violates none of the rules once it is written out
    let mut o = Outcome::new(vec![accepted as i64]).class("custom-map-crit-b64").known("K_custom_registered");
    if accepted != expect { o = o.fail("crit / b64 carried in the custom map bypass the header policy of the encoders"); }
    return o;
  }
  let entry = case[0];
  let fb = case[1] != 0;
  let mut v = &case[2..];
  let p = take_hdr(&mut v);
  let u = take_hdr(&mut v);
  let pol = policy_ok(p.as_ref(), u.as_ref());
  let some = p.is_some() || u.is_some();
  let eb64 = p.as_ref().and_then(|h| h.b64).unwrap_or(true);
  let skip = |why: &str| Outcome::new(vec![-5]).class(why).trivial();
  let (accepted, expect): (bool, bool) = match entry {
    0..=3 => {
      let pv = match &p { Some(h) => match hdr_value(h) { Some(x) => Some(x), None => return skip("header-not-constructible") }, None => None };
      let uv = match &u { Some(h) => match hdr_value(h) { Some(x) => Some(x), None => return skip("header-not-constructible") }, None => None };
      let rec = || { let mut r = Recipient::new(); if let Some(x) = pv.as_ref() { r = r.protected(x); } if let Some(x) = uv.as_ref() { r = r.unprotected(x); } r };
      match entry {
        0 => match pv.as_ref() { Some(x) => (CompactJwsEncoder::new(b"aGk", x).is_ok(), pol && u.is_none() || (u.is_some() && policy_ok(p.as_ref(), None))), None => return skip("compact-needs-protected") },
        1 => (FlattenedJwsEncoder::new(b"aGk", rec(), false).is_ok(), some && pol),
        2 => (GeneralJwsEncoder::new(b"aGk", rec(), false).is_ok(), some && pol),
        _ => {
          let mut first = JwsHeader::new();
          first.set_alg(JwsAlgorithm::EdDSA);
          if !fb { first.set_b64(false); first.set_crit(["b64"]); }
          let enc = GeneralJwsEncoder::new(b"aGk", Recipient::new().protected(&first), false).unwrap().set_signature(b"sig");
          (enc.add_recipient(rec()).is_ok(), some && pol && eb64 == fb)
        }
      }
    }
    _ => {
      let pj = match &p { Some(h) => match hdr_json(h) { Some(x) => Some(x), None => return skip("header-not-expressible-in-json") }, None => None };
      let uj = match &u { Some(h) => match hdr_json(h) { Some(x) => Some(x), None => return skip("header-not-expressible-in-json") }, None => None };
      let pb = pj.as_ref().map(|j| identity_jose::jwu::encode_b64(serde_json::to_vec(j).unwrap()));
      let dec = Decoder::new();
      match entry {
        5 => match &pb { Some(pb) => (dec.decode_compact_serialization(format!("{}.aGk.c2ln", pb).as_bytes(), None).is_ok(), policy_ok(p.as_ref(), None)), None => return skip("compact-needs-protected") },
        4 | 7 => {
          let mut m = Map::new();
          m.insert("payload".into(), json!("aGk")); m.insert("signature".into(), json!("c2ln"));
          if let Some(pb) = &pb { m.insert("protected".into(), json!(pb)); }
          if let Some(uj) = &uj { m.insert("header".into(), uj.clone()); }
          let tok = serde_json::to_vec(&Value::Object(m)).unwrap();
          let d = dec.decode_flattened_serialization(&tok, None);
          if entry == 4 { (d.is_ok(), some && pol) } else {
            let jwk: Jwk = serde_json::from_value(field_value(4)).unwrap();
            (d.and_then(|it| it.verify(&AcceptAll, &jwk)).is_ok(), some && pol && p.as_ref().map(|h| h.alg).unwrap_or(false))
          }
        }
        8 | 10 => {
          // two signatures: the first with b64 = fb (absent or false + crit), the second is (p, u); entry 10 puts a signature with an UNDECODABLE protected member between them
          let first = if fb { json!({"alg": "EdDSA"}) } else { json!({"alg": "EdDSA", "b64": false, "crit": ["b64"]}) };
          let mut sig = Map::new();
          sig.insert("signature".into(), json!("c2ln"));
          if let Some(pb) = &pb { sig.insert("protected".into(), json!(pb)); }
          if let Some(uj) = &uj { sig.insert("header".into(), uj.clone()); }
          let firstv = json!({"protected": identity_jose::jwu::encode_b64(serde_json::to_vec(&first).unwrap()), "signature": "c2ln"});
          let sigs = if entry == 8 { vec![firstv, Value::Object(sig)] } else { vec![firstv, json!({"protected": "!!", "signature": "c2ln"}), Value::Object(sig)] };
          let tok = serde_json::to_vec(&json!({"payload": "aGk", "signatures": sigs})).unwrap();
          let ok = match dec.decode_general_serialization(&tok, None) { Ok(it) => { let items: Vec<_> = it.collect(); matches!(items.first(), Some(Ok(_))) && matches!(items.last(), Some(Ok(_))) && (entry == 8 || matches!(items.get(1), Some(Err(_)))) } Err(_) => false };
          (ok, some && pol && eb64 == fb)
        }
        _ => {
          let mut sig = Map::new();
          sig.insert("signature".into(), json!("c2ln"));
          if let Some(pb) = &pb { sig.insert("protected".into(), json!(pb)); }
          if let Some(uj) = &uj { sig.insert("header".into(), uj.clone()); }
          let tok = serde_json::to_vec(&json!({"payload": "aGk", "signatures": [Value::Object(sig)]})).unwrap();
          let ok = match dec.decode_general_serialization(&tok, None) { Ok(mut it) => matches!(it.next(), Some(Ok(_))), Err(_) => false };
          (ok, some && pol)
        }
      }
    }
  };
  let mut o = Outcome::new(vec![accepted as i64]).class(if accepted { "accepted" } else { "rejected" });
  if accepted != expect { o = o.fail(if accepted { "header set violating a rule was accepted" } else { "header set violating no rule was rejected" }); }
  if p.is_none() && u.is_none() { o = o.trivial(); }
  o
}

fn case(entry: i64, fb: i64, p: Option<&H>, u: Option<&H>) -> Vec<i64> { let mut c = vec![entry, fb]; put_hdr(&mut c, p); put_hdr(&mut c, u); c }

pub fn gen(rng: &mut Rng, thorough: bool, sink: &mut Sink) {
  let crits: Vec<Option<Vec<i64>>> = vec![None, Some(vec![]), Some(vec![1]), Some(vec![1, 1]), Some(vec![0]), Some(vec![24]), Some(vec![100]), Some(vec![9]), Some(vec![1, 5]), Some(vec![12]), Some(vec![23]), Some(vec![103]), Some(vec![1, 103]), Some(vec![106])];
  let mut ps: Vec<Option<H>> = vec![None];
  for alg in [false, true] { for b64 in [None, Some(true), Some(false)] { for crit in &crits { for common in [vec![], vec![5]] { for custom in [None, Some(vec![100]), Some(vec![101]), Some(vec![103]), Some(vec![103, 106])] {
    ps.push(Some(H { alg, b64, crit: crit.clone(), common: common.clone(), custom: custom.clone() }));
  } } } } }
  let mut us: Vec<Option<H>> = vec![None];
  for alg in [false, true] { for b64 in [None, Some(true), Some(false)] { for crit in [None, Some(vec![1])] { for common in [vec![], vec![5], vec![11]] { for custom in [None, Some(vec![100]), Some(vec![102])] {
    us.push(Some(H { alg, b64, crit: crit.clone(), common: common.clone(), custom: custom.clone() }));
  } } } } }
  let us_small: Vec<Option<H>> = vec![None,
    Some(H { alg: false, b64: None, crit: None, common: vec![], custom: None }),
    Some(H { alg: false, b64: None, crit: None, common: vec![5], custom: None }),
    Some(H { alg: true, b64: None, crit: None, common: vec![11], custom: Some(vec![100]) }),
    Some(H { alg: false, b64: Some(false), crit: None, common: vec![], custom: None }),
    Some(H { alg: false, b64: None, crit: Some(vec![1]), common: vec![], custom: Some(vec![101]) }),
    Some(H { alg: false, b64: None, crit: Some(vec![]), common: vec![10], custom: None })];
  // full decision table for the flattened encoder and the flattened decoder
  for p in &ps { for u in &us { sink.case(case(1, 1, p.as_ref(), u.as_ref()), "table-enc-flattened"); sink.case(case(4, 1, p.as_ref(), u.as_ref()), "table-dec-flattened"); } }
  // the other entry points over the full protected pool x a small unprotected pool
  for p in &ps { for u in &us_small {
    if p.is_some() { sink.case(case(0, 1, p.as_ref(), u.as_ref()), "table-enc-compact"); sink.case(case(5, 1, p.as_ref(), u.as_ref()), "table-dec-compact"); }
    sink.case(case(2, 1, p.as_ref(), u.as_ref()), "table-enc-general");
    sink.case(case(3, 1, p.as_ref(), u.as_ref()), "table-add-recipient-b64true");
    sink.case(case(3, 0, p.as_ref(), u.as_ref()), "table-add-recipient-b64false");
    sink.case(case(6, 1, p.as_ref(), u.as_ref()), "table-dec-general");
    sink.case(case(7, 1, p.as_ref(), u.as_ref()), "table-verify");
    sink.case(case(8, 1, p.as_ref(), u.as_ref()), "table-dec-general-two-b64true");
    sink.case(case(8, 0, p.as_ref(), u.as_ref()), "table-dec-general-two-b64false");
    sink.case(case(10, 1, p.as_ref(), u.as_ref()), "table-dec-general-three-undecodable-middle"); sink.case(case(10, 0, p.as_ref(), u.as_ref()), "table-dec-general-three-undecodable-middle");
  } }
  // registered names smuggled into the custom map (set_custom), every common field shared both ways
  for id in 0..14 { for e in 0..4 {
    let p = H { alg: true, b64: None, crit: None, common: vec![], custom: Some(vec![id]) };
    let u = H { alg: false, b64: None, crit: None, common: if (3..=13).contains(&id) { vec![id] } else { vec![] }, custom: None };
    sink.case(case(e, 1, Some(&p), Some(&u)), "custom-registered-name");
    sink.case(case(e, 1, Some(&u), Some(&p)), "custom-registered-name");
  } }
  for id in [0i64, 1, 2] { for e in 1..4 {
    let p = H { alg: id != 0, b64: None, crit: None, common: vec![], custom: Some(vec![id]) };
    let u = H { alg: false, b64: None, crit: None, common: vec![], custom: Some(vec![id]) };
    sink.case(case(e, 1, Some(&p), Some(&u)), "custom-registered-both");
  } }
  for id in 3..=13 { for e in [1i64, 4] {
    let p = H { alg: true, b64: None, crit: None, common: vec![id], custom: None };
    let u = H { alg: false, b64: None, crit: None, common: vec![id], custom: None };
    sink.case(case(e, 1, Some(&p), Some(&u)), "shared-registered");
    let u2 = H { alg: false, b64: None, crit: None, common: vec![if id == 13 { 3 } else { id + 1 }], custom: None };
    sink.case(case(e, 1, Some(&p), Some(&u2)), "distinct-registered");
  } }
  for v in 0..4 { for e in 0..3 { sink.case(vec![9, v, e], "custom-map-crit-b64"); } }
  // random headers with longer crit lists and several fields
  for _ in 0..(if thorough { 60000 } else { 4000 }) {
    let mut mk = |rng: &mut Rng| -> Option<H> {
      if rng.chance(1, 8) { return None; }
      let pool = [0i64, 1, 1, 1, 2, 5, 9, 12, 13, 23, 24, 100, 101];
      let crit = if rng.chance(1, 2) { None } else { Some((0..rng.below(4)).map(|_| *rng.pick(&pool)).collect()) };
      let common: Vec<i64> = (3..=13).filter(|_| rng.chance(1, 5)).collect();
      let custom = if rng.chance(1, 2) { None } else { Some((0..rng.below(3)).map(|_| *rng.pick(&[24i64, 100, 101, 102, 14])).collect::<std::collections::BTreeSet<i64>>().into_iter().collect()) };
      Some(H { alg: rng.chance(2, 3), b64: *rng.pick(&[None, None, Some(true), Some(false)]), crit, common, custom })
    };
    let p = mk(rng); let u = mk(rng);
    let e = rng.range(0, 8);
    if p.is_none() && (e == 0 || e == 5) { continue; }
    sink.case(case(e, rng.range(0, 1), p.as_ref(), u.as_ref()), "random");
  }
}
