#!/usr/bin/env python3
"""Prints the prompt handed to a fresh sub-agent for a second-round seeded change (property text only, nothing from /verif)."""
import json, sys
pid = sys.argv[1]
props = {json.loads(l)['id']: json.loads(l) for l in open('/verif/properties.jsonl')}
p = props[pid]
print(f"""You are working in a scratch git worktree of the Rust repository iotaledger/identity.rs located at /tmp/seed5/{pid} (a checkout of the current HEAD). Work ONLY inside /tmp/seed5/{pid} and /tmp/seed5/out/{pid}. Never touch or read /repo or /verif. The sandbox has no network: always use `CARGO_NET_OFFLINE=true cargo <cmd> --offline`.

Here is a semantic property the library is supposed to satisfy:

  "{p['title']}": {p['statement']}

Your task: produce TWO independent and different changes (call them H and I) to the library's source code that each BREAK this property, while the code still compiles and the ENTIRE existing test suite still passes (`CARGO_NET_OFFLINE=true cargo nextest run --workspace --no-fail-fast --offline --test-threads 8`; fallback `cargo test --workspace --offline`). Each change must:
  - be small (a few lines) and look like a plausible refactor, optimisation, "simplification" or slip that a maintainer could make and a reviewer could miss;
  - need something specific to manifest: a particular multi-step sequence of operations, an unusual input or option combination, a fault at a particular point, a particular interleaving, or two cooperating sites that each look fine alone. NOT something that ordinary use of the API would expose at once, and not something any existing test notices;
  - H and I must touch different functions / mechanisms and break different clauses of the property if possible;
  - earlier attempts at this exercise already tried the obvious sites and also: helper crates, wrapper types, serde attributes, trait default methods, error-kind mapping, case-insensitive comparisons, boundary sizes, iterator size hints. Do something DIFFERENT. Ideas: (a) the behaviour of a RARELY USED BUT DOCUMENTED option, feature flag, generic parameter or overload of the public API that reaches the property's mechanism (e.g. the IOTA-specific document type and its metadata, custom verifier / resolver / storage implementations supplied by the caller, `*_mut` accessors, builder `Default`s); (b) derived or hand-written `PartialEq` / `Eq` / `Ord` / `Hash` / `Clone` / `Default` / `Display` / `FromStr` / `From` / `TryFrom` / `AsRef` impls whose change alters an observable clause; (c) ordering: which of several candidates is picked first, what happens with duplicates, what a second call sees after a first call; (d) integer conversions (`as`, `try_into`, saturating / wrapping arithmetic), off-by-one in ranges and slices; (e) early returns and `?` that skip a later step, or a step moved across an `await`. Avoid the most obvious single-line negation of the main check, and avoid anything an existing test notices.

For each change X in {{H, I}} deliver in /tmp/seed5/out/{pid}/X/ :
  - patch.diff : `git diff` of the library source only (must apply with `git apply` on the clean worktree HEAD);
  - demo/ : a small standalone cargo crate (its Cargo.toml has an empty `[workspace]` table; path dependencies written as `../identity_xxx` because the crate will be copied to <worktree>/seed_demo/ before running; use `default-features = false` plus the features you need (identity_credential without default features avoids network crates); copy the worktree's Cargo.lock into demo/ so that it resolves offline) whose `cargo test --offline` PASSES on the unchanged worktree and FAILS with the patch applied. The test must assert the property's behaviour, not implementation details;
  - notes.md : which clause it breaks, exactly what is needed for it to manifest, what you ran and what happened (demo without the patch, demo with the patch, existing suite with the patch).

Verify all three facts yourself before delivering (demo passes without, fails with, existing suite passes with). When done, restore the worktree to a clean state (`git checkout -- .`, remove seed_demo; you may leave target/). Finish with a short summary of H and I (what, where, trigger).""")
