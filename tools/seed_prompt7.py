#!/usr/bin/env python3
"""Prints the prompt handed to a fresh sub-agent for a second-round seeded change (property text only, nothing from /verif)."""
import json, sys
pid = sys.argv[1]
props = {json.loads(l)['id']: json.loads(l) for l in open('/verif/properties.jsonl')}
p = props[pid]
print(f"""You are working in a scratch git worktree of the Rust repository iotaledger/identity.rs located at /tmp/seed7/{pid} (a checkout of the current HEAD). Work ONLY inside /tmp/seed7/{pid} and /tmp/seed7/out/{pid}. Never touch or read /repo or /verif. The sandbox has no network: always use `CARGO_NET_OFFLINE=true cargo <cmd> --offline`.

Here is a semantic property the library is supposed to satisfy:

  "{p['title']}": {p['statement']}

Your task: produce TWO independent and different changes (call them L and M) to the library's source code that each BREAK this property, while the code still compiles and the ENTIRE existing test suite still passes (`CARGO_NET_OFFLINE=true cargo nextest run --workspace --no-fail-fast --offline --test-threads 8`; fallback `cargo test --workspace --offline`). Each change must:
  - be small (a few lines) and look like a plausible refactor, optimisation, "simplification" or slip that a maintainer could make and a reviewer could miss;
  - need something specific to manifest: a particular multi-step sequence of operations, an unusual input or option combination, a fault at a particular point, a particular interleaving, or two cooperating sites that each look fine alone. NOT something that ordinary use of the API would expose at once, and not something any existing test notices;
  - L and M must touch different functions / mechanisms and break different clauses of the property if possible;
  - earlier attempts at this exercise (six rounds) already tried the obvious sites and also: helper crates, wrapper types, serde attributes, trait default methods, error-kind mapping, case-insensitive comparisons, boundary sizes, iterator size hints, rarely used options and overloads, derived trait impls, candidate ordering, integer conversions, early returns. Do something DIFFERENT. Ideas: (a) swallowing a failure into a default (`unwrap_or_default`, `.ok()`, `filter_map` that silently drops an item, `if let Ok(..)` without an else) so that a step of the property is skipped only for unusual inputs; (b) string handling: `trim`, `split` vs `splitn` vs `rsplit`, `find` vs `rfind`, `starts_with` / `ends_with` / `contains` where equality is meant, byte vs char indices, normalisation applied on one side of a comparison only; (c) collection semantics: `retain`, `dedup`, `extend` vs `insert`, map `insert` overwriting, `entry().or_insert`, `take` / `skip` / `zip` truncating silently, `any` vs `all`, `first` vs `last`; (d) `Option` / `Result` combinators: `or` vs `xor`, `and_then`, `zip`, `unwrap_or(true)`, `map_or(false, ..)`; comparison operators `<` vs `<=`; (e) state carried between calls: a value computed before a mutation and used after it, a field updated on one path but not on the other, `clone` taken too early, `mem::take` / `replace` leaving a default behind; (f) feature-gated or type-specific paths (the IOTA document type, SD-JWT VC, JPT / BBS+, status-list 2021, domain linkage, the Stronghold store, custom resolver handlers) that the default test run reaches only lightly. Avoid the most obvious single-line negation of the main check, and avoid anything an existing test notices.

For each change X in {{L, M}} deliver in /tmp/seed7/out/{pid}/X/ :
  - patch.diff : `git diff` of the library source only (must apply with `git apply` on the clean worktree HEAD);
  - demo/ : a small standalone cargo crate (its Cargo.toml has an empty `[workspace]` table; path dependencies written as `../identity_xxx` because the crate will be copied to <worktree>/seed_demo/ before running; use `default-features = false` plus the features you need (identity_credential without default features avoids network crates); copy the worktree's Cargo.lock into demo/ so that it resolves offline) whose `cargo test --offline` PASSES on the unchanged worktree and FAILS with the patch applied. The test must assert the property's behaviour, not implementation details;
  - notes.md : which clause it breaks, exactly what is needed for it to manifest, what you ran and what happened (demo without the patch, demo with the patch, existing suite with the patch).

Verify all three facts yourself before delivering (demo passes without, fails with, existing suite passes with). When done, restore the worktree to a clean state (`git checkout -- .`, remove seed_demo; you may leave target/). Finish with a short summary of L and M (what, where, trigger).""")
