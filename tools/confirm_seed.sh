#!/bin/bash
# confirm_seed.sh <worktree> <seed dir containing patch.diff and demo/>
# Confirms a seeded breaking change in a scratch worktree of /repo (never in /repo itself):
#   1. demo passes without the change   2. demo fails with it   3. the existing workspace suite passes with it.
# Prints a RESULT line; writes confirm.log into the seed dir.
set -u
WT=$1; SD=$(realpath "$2"); LOG=$SD/confirm.log
export CARGO_NET_OFFLINE=true
export CARGO_TARGET_DIR=$(realpath "$1")/target
cd "$WT" || exit 2
git checkout -q -- . ; git clean -fdq -e target -e seed_demo 2>/dev/null
rm -rf seed_demo; cp -r "$SD/demo" seed_demo; [ -f seed_demo/Cargo.lock ] || cp Cargo.lock seed_demo/Cargo.lock
: > "$LOG"
echo "== without the change: demo" >> "$LOG"
( cd seed_demo && cargo test --offline 2>&1 | grep -E '^test |test result|panicked|error' | head -60 ) >> "$LOG"
( cd seed_demo && cargo test --offline >/dev/null 2>&1 ); W0=$?
git apply "$SD/patch.diff" || { echo "RESULT patch does not apply"; exit 2; }
echo "== with the change: demo (exit without=$W0)" >> "$LOG"
( cd seed_demo && cargo test --offline 2>&1 | grep -E '^test |test result|panicked|error' | head -60 ) >> "$LOG"
( cd seed_demo && cargo test --offline >/dev/null 2>&1 ); W1=$?
echo "== with the change: existing workspace suite" >> "$LOG"
cargo nextest run --workspace --no-fail-fast --offline --test-threads 8 > /tmp/confirm_$$.log 2>&1; T=$?
grep -E 'Summary|FAIL|error(\[|:)' /tmp/confirm_$$.log | head -30 >> "$LOG"; rm -f /tmp/confirm_$$.log
git checkout -q -- . ; rm -rf seed_demo
echo "RESULT demo_without_exit=$W0 demo_with_exit=$W1 existing_suite_exit=$T" | tee -a "$LOG"
[ $W0 -eq 0 ] && [ $W1 -ne 0 ] && [ $T -eq 0 ]
