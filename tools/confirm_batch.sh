#!/bin/bash
# confirm_batch.sh <ids...> : copies $SEED_ROOT/out/<id>/{letters} to /verif/seeded/<id>-<letter> and confirms each in $SEED_ROOT/tmpl
# SEED_ROOT defaults to /tmp/seed2, SEED_LETTERS to "A B" (round 3: SEED_ROOT=/tmp/seed3 SEED_LETTERS="C D E"; round 5: /tmp/seed5 "H I")
ROOT=${SEED_ROOT:-/tmp/seed2}; LETTERS=${SEED_LETTERS:-A B}
for id in "$@"; do for x in $LETTERS; do
  src=$ROOT/out/$id/$x; dst=/verif/seeded/$id-$x
  [ -f $src/patch.diff ] || { echo "$id-$x: no patch"; continue; }
  rm -rf $dst; mkdir -p $dst; cp $src/patch.diff $dst/; cp -r $src/demo $dst/demo; rm -rf $dst/demo/target; cp $src/notes.md $dst/ 2>/dev/null
  echo "$id-$x: $(/verif/tools/confirm_seed.sh $ROOT/tmpl $dst 2>&1 | tail -1)"
done; done
