#!/bin/bash
# confirm_batch.sh <ids...> : copies /tmp/seed2/out/<id>/{A,B} to /verif/seeded/<id>-{A,B} and confirms each in /tmp/seed2/tmpl
for id in "$@"; do for x in A B; do
  src=/tmp/seed2/out/$id/$x; dst=/verif/seeded/$id-$x
  [ -f $src/patch.diff ] || { echo "$id-$x: no patch"; continue; }
  rm -rf $dst; mkdir -p $dst; cp $src/patch.diff $dst/; cp -r $src/demo $dst/demo; rm -rf $dst/demo/target; cp $src/notes.md $dst/ 2>/dev/null
  echo "$id-$x: $(/verif/tools/confirm_seed.sh /tmp/seed2/tmpl $dst 2>&1 | tail -1)"
done; done
