#!/bin/bash
# try_seed.sh <patch.diff> <check id> [more check ids]
# Applies a seeded change to /repo, runs the quick checks, ALWAYS restores /repo. Prints one line per check.
set -u
P=$(realpath "$1"); shift
cd /repo || exit 2
if ! git diff --quiet; then echo "REFUSED: /repo has uncommitted changes"; exit 2; fi
git apply "$P" || { echo "patch does not apply"; exit 2; }
# evidence/ is rewritten by every run: keep the clean-tree records (a seeded run must never end up committed as evidence)
rm -rf /verif/work/evidence.keep; cp -r /verif/evidence /verif/work/evidence.keep
trap 'git -C /repo checkout -q -- .; rm -rf /verif/evidence; mv /verif/work/evidence.keep /verif/evidence' EXIT
for id in "$@"; do
  out=$(cd /verif && ./check "$id" --tier quick 2>&1)
  echo "$out" | grep -E "^(C[0-9]+ tier|VIOLATION|INFRA|PROOF)" | cut -c1-300
  if echo "$out" | grep -q "^VIOLATION"; then
    f=$(echo "$out" | grep -m1 "^VIOLATION" | sed 's/.*replay=\([^ ]*\).*/\1/'); echo "  replay head: $(head -c 400 "$f" | head -3 | tr '\n' ' ')"
  fi
done
