#!/usr/bin/env python3
"""write_meta.py <seed dir name> <property> <breaks> <needs> <detected_by> — writes seeded/<name>/meta.json for a confirmed second-round seed"""
import json, sys, os
name, prop, breaks, needs, det = sys.argv[1:6]
d = os.path.join('/verif/seeded', name)
log = open(os.path.join(d, 'confirm.log')).read().strip().splitlines()[-1] if os.path.exists(os.path.join(d, 'confirm.log')) else 'not confirmed'
json.dump({"property": prop, "round": int(os.environ.get("SEED_ROUND", "2")), "breaks": breaks, "needs_to_manifest": needs,
           "what_was_run": "written by a fresh sub-agent that saw only the property text, in a scratch worktree under /tmp/seed2 .. /tmp/seed5 (rounds 2 .. 5) for %s; confirmed by tools/confirm_seed.sh in a second scratch worktree (demo passes without the patch, fails with it, the whole existing workspace suite passes with it): %s" % (prop, log),
           "detected_by": det}, open(os.path.join(d, 'meta.json'), 'w'), indent=1)
print(name, log)
