#!/bin/bash
# replay_seeds.sh [seed dir names...] : applies every stored seeded change (default: all under /verif/seeded) to /repo, runs the quick check of its
# property, restores /repo and evidence/, and prints DETECTED / MISSED / SKIPPED (patch no longer applies) per seed.  Nothing is committed.
cd /verif/seeded || exit 2
names=("$@"); [ ${#names[@]} -eq 0 ] && names=($(ls))
for n in "${names[@]}"; do
  [ -f "$n/patch.diff" ] || continue
  prop=$(python3 -c "import json;print(json.load(open('$n/meta.json'))['property'])" 2>/dev/null); [ -n "$prop" ] || prop=${n%%[-_]*}
  if ! git -C /repo apply --check "/verif/seeded/$n/patch.diff" 2>/dev/null; then echo "$n $prop SKIPPED (patch does not apply to the current tree)"; continue; fi
  out=$(/verif/tools/try_seed.sh "/verif/seeded/$n/patch.diff" "$prop" 2>&1)
  if echo "$out" | grep -q "^VIOLATION"; then echo "$n $prop DETECTED $(echo "$out" | grep -m1 '^VIOLATION' | grep -o 'no-failing-input-found')"; else echo "$n $prop MISSED"; fi
done
