(* Wire format shared by the Rust harness, the OCaml runner and the in-Coq cross-check:
   a case is a flat list of integers; an observation is a flat list of integers.
   The decoders here are part of the executable model (they run on both sides of the
   extraction), they carry no proof obligations. *)
From Coq Require Import List ZArith NArith Bool.
Import ListNotations.
Open Scope Z_scope.

Definition ERR_DECODE : list Z := [-999].   (* model could not decode the case: always a DIFF *)

Fixpoint take (n : nat) (l : list Z) : option (list Z * list Z) :=
  match n with
  | O => Some ([], l)
  | S n' => match l with
            | [] => None
            | x :: r => match take n' r with
                        | Some (a, b) => Some (x :: a, b)
                        | None => None end
            end
  end.

(* length-prefixed list of integers *)
Definition take_lp (l : list Z) : option (list Z * list Z) :=
  match l with
  | [] => None
  | n :: r => if n <? 0 then None else take (Z.to_nat n) r
  end.

Fixpoint pairs_of (l : list Z) : option (list (Z * Z)) :=
  match l with
  | [] => Some []
  | a :: b :: r => match pairs_of r with Some ps => Some ((a, b) :: ps) | None => None end
  | _ => None
  end.

(* n pairs *)
Definition take_pairs (l : list Z) : option (list (Z * Z) * list Z) :=
  match l with
  | [] => None
  | n :: r => if n <? 0 then None else
      match take (2 * Z.to_nat n) r with
      | Some (a, b) => match pairs_of a with Some ps => Some (ps, b) | None => None end
      | None => None end
  end.

Definition put_lp (l : list Z) : list Z := Z.of_nat (length l) :: l.
Definition put_pairs (l : list (Z * Z)) : list Z :=
  Z.of_nat (length l) :: flat_map (fun p => [fst p; snd p]) l.
Definition zb (b : bool) : Z := if b then 1 else 0.
Definition bz (z : Z) : bool := negb (z =? 0).
Definition bytes_of (l : list Z) : list N := map Z.to_N l.
Definition zs_of (l : list N) : list Z := map Z.of_N l.
