(* Proleptic Gregorian calendar on Z with floor division (days since 1970-01-01), as used by
   the `time` crate for OffsetDateTime <-> unix seconds.  Definitions only. *)
From Coq Require Import ZArith Bool.
Open Scope Z_scope.

Definition days_from_civil (y m d : Z) : Z :=
  let y' := if m <=? 2 then y - 1 else y in
  let era := y' / 400 in
  let yoe := y' - era * 400 in
  let mp := if m >? 2 then m - 3 else m + 9 in
  let doy := (153 * mp + 2) / 5 + d - 1 in
  let doe := yoe * 365 + yoe / 4 - yoe / 100 + doy in
  era * 146097 + doe - 719468.

Definition civil_from_days (z : Z) : Z * Z * Z :=
  let z' := z + 719468 in
  let era := z' / 146097 in
  let doe := z' - era * 146097 in
  let yoe := (doe - doe / 1460 + doe / 36524 - doe / 146096) / 365 in
  let y := yoe + era * 400 in
  let doy := doe - (365 * yoe + yoe / 4 - yoe / 100) in
  let mp := (5 * doy + 2) / 153 in
  let d := doy - (153 * mp + 2) / 5 + 1 in
  let m := if mp <? 10 then mp + 3 else mp - 9 in
  (if m <=? 2 then y + 1 else y, m, d).

Definition is_leap (y : Z) : bool := ((y mod 4 =? 0) && negb (y mod 100 =? 0)) || (y mod 400 =? 0).
Definition dim (y m : Z) : Z :=
  if m =? 2 then (if is_leap y then 29 else 28)
  else if (m =? 4) || (m =? 6) || (m =? 9) || (m =? 11) then 30 else 31.

Definition year_of_days (z : Z) : Z := let '(y, _, _) := civil_from_days z in y.

(* era-relative versions: doe in [0,146097) *)
Definition cfd_era (doe : Z) : Z * Z * Z :=
  let yoe := (doe - doe / 1460 + doe / 36524 - doe / 146096) / 365 in
  let doy := doe - (365 * yoe + yoe / 4 - yoe / 100) in
  let mp := (5 * doy + 2) / 153 in
  let d := doy - (153 * mp + 2) / 5 + 1 in
  let m := if mp <? 10 then mp + 3 else mp - 9 in
  (if m <=? 2 then yoe + 1 else yoe, m, d).

Definition dfc_era (y m d : Z) : Z :=
  let y'' := if m <=? 2 then y - 1 else y in
  let mp := if m >? 2 then m - 3 else m + 9 in
  let doy := (153 * mp + 2) / 5 + d - 1 in
  y'' * 365 + y'' / 4 - y'' / 100 + doy.

(* first day-of-era of the last January/February of an era (Jan 1 of era year 400) *)
Definition DOE_JAN1 : Z := 146037.
