(* RFC 4648 base64url WITHOUT padding, strict (what multibase Base64Url -> data_encoding
   BASE64URL_NOPAD does: any byte outside the alphabet, a length = 1 mod 4, or non-zero trailing
   bits is an error).  Definitions only; proofs in Proofs/Base64Proofs.v. *)
From Coq Require Import List NArith Bool.
Import ListNotations.
Open Scope N_scope.

(* sextet level *)
Fixpoint b64_enc (bs : list N) : list N :=
  match bs with
  | a :: b :: c :: r => a / 4 :: (a mod 4) * 16 + b / 16 :: (b mod 16) * 4 + c / 64 :: c mod 64 :: b64_enc r
  | [a; b] => [a / 4; (a mod 4) * 16 + b / 16; (b mod 16) * 4]
  | [a] => [a / 4; (a mod 4) * 16]
  | [] => []
  end.

Fixpoint b64_dec (ss : list N) : option (list N) :=
  match ss with
  | w :: x :: y :: z :: r =>
      match b64_dec r with
      | Some bs => Some (w * 4 + x / 16 :: (x mod 16) * 16 + y / 4 :: (y mod 4) * 64 + z :: bs)
      | None => None end
  | [w; x; y] => if y mod 4 =? 0 then Some [w * 4 + x / 16; (x mod 16) * 16 + y / 4] else None
  | [w; x] => if x mod 16 =? 0 then Some [w * 4 + x / 16] else None
  | [_] => None
  | [] => Some []
  end.

(* URL-safe alphabet: A-Z a-z 0-9 - _ *)
Definition b64u_char (s : N) : N :=
  if s <? 26 then 65 + s else if s <? 52 then 71 + s else if s <? 62 then s - 4 else if s =? 62 then 45 else 95.
Definition b64u_val (c : N) : option N :=
  if (65 <=? c) && (c <=? 90) then Some (c - 65)
  else if (97 <=? c) && (c <=? 122) then Some (c - 71)
  else if (48 <=? c) && (c <=? 57) then Some (c + 4)
  else if c =? 45 then Some 62 else if c =? 95 then Some 63 else None.

Fixpoint map_opt {A B} (f : A -> option B) (l : list A) : option (list B) :=
  match l with
  | [] => Some []
  | x :: r => match f x, map_opt f r with Some y, Some ys => Some (y :: ys) | _, _ => None end
  end.

Definition b64u_encode (bs : list N) : list N := map b64u_char (b64_enc bs).
Definition b64u_decode (s : list N) : option (list N) :=
  match map_opt b64u_val s with Some ss => b64_dec ss | None => None end.

Definition is_b64u_char (c : N) : bool := match b64u_val c with Some _ => true | None => false end.
