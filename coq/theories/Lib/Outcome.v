(* Three-valued results: every Rust panic site is a [Panic] branch guarded by the Rust condition. *)
Inductive outcome (A E : Type) : Type :=
| Ok (a : A)
| Err (e : E)
| Panic.
Arguments Ok {A E} a.
Arguments Err {A E} e.
Arguments Panic {A E}.
