(* SHA-256 (FIPS 180-4) on byte lists, as the `sha2` crate computes it for RFC 7638 thumbprints (Jwk::thumbprint_sha256).
   Words are N below 2^32.  Executable; compared byte for byte with the implementation in the C18 correspondence run. *)
From Coq Require Import List NArith Bool.
Import ListNotations.
Open Scope N_scope.

Definition W32 : N := 4294967296.
Definition add32 (a b : N) : N := (a + b) mod W32.
Definition rotr (n x : N) : N := N.lor (N.shiftr x n) ((N.shiftl x (32 - n)) mod W32).
Definition shr (n x : N) : N := N.shiftr x n.
Definition not32 (x : N) : N := N.lxor x 4294967295.
Definition ch (x y z : N) : N := N.lxor (N.land x y) (N.land (not32 x) z).
Definition maj (x y z : N) : N := N.lxor (N.lxor (N.land x y) (N.land x z)) (N.land y z).
Definition bsig0 (x : N) : N := N.lxor (N.lxor (rotr 2 x) (rotr 13 x)) (rotr 22 x).
Definition bsig1 (x : N) : N := N.lxor (N.lxor (rotr 6 x) (rotr 11 x)) (rotr 25 x).
Definition ssig0 (x : N) : N := N.lxor (N.lxor (rotr 7 x) (rotr 18 x)) (shr 3 x).
Definition ssig1 (x : N) : N := N.lxor (N.lxor (rotr 17 x) (rotr 19 x)) (shr 10 x).

Definition K256 : list N :=
  [1116352408; 1899447441; 3049323471; 3921009573; 961987163; 1508970993; 2453635748; 2870763221;
   3624381080; 310598401; 607225278; 1426881987; 1925078388; 2162078206; 2614888103; 3248222580;
   3835390401; 4022224774; 264347078; 604807628; 770255983; 1249150122; 1555081692; 1996064986;
   2554220882; 2821834349; 2952996808; 3210313671; 3336571891; 3584528711; 113926993; 338241895;
   666307205; 773529912; 1294757372; 1396182291; 1695183700; 1986661051; 2177026350; 2456956037;
   2730485921; 2820302411; 3259730800; 3345764771; 3516065817; 3600352804; 4094571909; 275423344;
   430227734; 506948616; 659060556; 883997877; 958139571; 1322822218; 1537002063; 1747873779;
   1955562222; 2024104815; 2227730452; 2361852424; 2428436474; 2756734187; 3204031479; 3329325298].
Definition H256 : list N := [1779033703; 3144134277; 1013904242; 2773480762; 1359893119; 2600822924; 528734635; 1541459225].

(* padding: 0x80, zeros up to 56 mod 64, the bit length as 8 big-endian bytes *)
Fixpoint be_bytes (n : nat) (x : N) : list N := match n with O => [] | S m => be_bytes m (x / 256) ++ [x mod 256] end.
Definition pad (msg : list N) : list N :=
  let l := N.of_nat (length msg) in
  let z := (55 + 64 - l mod 64) mod 64 in
  msg ++ [128] ++ repeat 0 (N.to_nat z) ++ be_bytes 8 (8 * l).
Fixpoint words (fuel : nat) (bs : list N) : list N :=
  match fuel, bs with
  | S f, a :: b :: c :: d :: r => (16777216 * a + 65536 * b + 256 * c + d) :: words f r
  | _, _ => []
  end.
(* message schedule: w holds the words so far in REVERSE order (newest first) *)
Fixpoint schedule (n : nat) (w : list N) : list N :=
  match n with
  | O => w
  | S m => match w with
           | w2' :: w2 :: _ =>
               let w2v := w2 in
               let w7 := nth 6 w 0 in let w15 := nth 14 w 0 in let w16 := nth 15 w 0 in
               schedule m (add32 (add32 (ssig1 w2v) w7) (add32 (ssig0 w15) w16) :: w)
           | _ => w end
  end.
Record st := { sa : N; sb : N; sc : N; sd : N; se : N; sf : N; sg : N; sh : N }.
Definition round (s : st) (k w : N) : st :=
  let t1 := add32 (add32 (add32 (sh s) (bsig1 (se s))) (add32 (ch (se s) (sf s) (sg s)) k)) w in
  let t2 := add32 (bsig0 (sa s)) (maj (sa s) (sb s) (sc s)) in
  {| sa := add32 t1 t2; sb := sa s; sc := sb s; sd := sc s; se := add32 (sd s) t1; sf := se s; sg := sf s; sh := sg s |}.
Fixpoint rounds (s : st) (ks ws : list N) : st :=
  match ks, ws with k :: ks', w :: ws' => rounds (round s k w) ks' ws' | _, _ => s end.
Definition st_of (h : list N) : st :=
  {| sa := nth 0 h 0; sb := nth 1 h 0; sc := nth 2 h 0; sd := nth 3 h 0; se := nth 4 h 0; sf := nth 5 h 0; sg := nth 6 h 0; sh := nth 7 h 0 |}.
Definition compress (h : list N) (block : list N) : list N :=
  let w := rev (schedule 48 (rev (words 16 block))) in
  let s0 := st_of h in
  let s := rounds s0 K256 w in
  [add32 (sa s0) (sa s); add32 (sb s0) (sb s); add32 (sc s0) (sc s); add32 (sd s0) (sd s);
   add32 (se s0) (se s); add32 (sf s0) (sf s); add32 (sg s0) (sg s); add32 (sh s0) (sh s)].
Fixpoint blocks (fuel : nat) (h : list N) (bs : list N) : list N :=
  match fuel with
  | O => h
  | S f => match bs with [] => h | _ => blocks f (compress h (firstn 64 bs)) (skipn 64 bs) end
  end.
Definition sha256 (msg : list N) : list N :=
  let p := pad msg in flat_map (be_bytes 4) (blocks (S (Nat.div (length p) 64)) H256 p).

(* "abc" and the empty string (FIPS 180-4 / NIST vectors) *)
Example sha256_abc : sha256 [97; 98; 99] =
  [186;120;22;191;143;1;207;234;65;65;64;222;93;174;34;35;176;3;97;163;150;23;122;156;180;16;255;97;242;0;21;173].
Proof. vm_compute. reflexivity. Qed.
Example sha256_empty : sha256 [] =
  [227;176;196;66;152;252;28;20;154;251;244;200;153;111;185;36;39;174;65;228;100;155;147;76;164;149;153;27;120;82;184;85].
Proof. vm_compute. reflexivity. Qed.
(* 56 bytes: the padding spills into a second block *)
Example sha256_two_blocks : sha256 (repeat 97 56) =
  [179;84;57;164;172;111;9;72;182;214;249;227;198;175;15;95;89;12;226;15;27;222;112;144;239;121;112;104;110;198;115;138].
Proof. vm_compute. reflexivity. Qed.
