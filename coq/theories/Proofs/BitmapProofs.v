(* Proofs about the revocation bitmap model (C06). *)
From Coq Require Import List NArith ZArith Bool Lia.
From IdV Require Import Lib.Base64 Doc.Doc Cred.Bitmap Proofs.Base64Proofs.
Import ListNotations.
Open Scope N_scope.
Ltac Zify.zify_post_hook ::= Z.to_euclidean_division_equations.

(* ---------- sets ---------- *)
Lemma mem_in x s : mem x s = true <-> In x s.
Proof. unfold mem. rewrite existsb_exists. split; [intros [y [Hy E]]; apply N.eqb_eq in E; subst; exact Hy|intros H; exists x; split; [exact H|apply N.eqb_refl]]. Qed.
Lemma in_ins x y s : In x (ins y s) <-> x = y \/ In x s.
Proof. induction s as [|z r IH]; cbn [ins].
  - cbn. intuition congruence.
  - destruct (y <? z) eqn:A; [cbn; intuition congruence|]. destruct (y =? z) eqn:B.
    + apply N.eqb_eq in B. subst. cbn. intuition congruence.
    + cbn [In]. rewrite IH. intuition congruence. Qed.
Lemma sorted_cons x r : sorted (x :: r) = true -> sorted r = true /\ (forall y, In y r -> x < y).
Proof. revert x. induction r as [|z r IH]; intros x H; [split; [reflexivity|intros y []]|].
  cbn [sorted] in H. apply andb_true_iff in H. destruct H as [H1 H2]. apply N.ltb_lt in H1. split; [exact H2|].
  intros y [->|Hy]; [exact H1|]. destruct (IH z H2) as [_ K]. specialize (K y Hy). lia. Qed.
Lemma sorted_intro x r : sorted r = true -> (forall y, In y r -> x < y) -> sorted (x :: r) = true.
Proof. destruct r as [|z r]; intros H K; [reflexivity|]. cbn [sorted]. apply andb_true_iff. split; [apply N.ltb_lt; apply K; left; reflexivity|exact H]. Qed.
Lemma sorted_ins x s : sorted s = true -> sorted (ins x s) = true.
Proof. induction s as [|z r IH]; intros H; cbn [ins]; [reflexivity|].
  destruct (x <? z) eqn:A; [apply N.ltb_lt in A; apply sorted_intro; [exact H|]|].
  { intros y [->|Hy]; [exact A|]. destruct (sorted_cons _ _ H) as [_ K]. specialize (K y Hy). lia. }
  destruct (x =? z) eqn:B; [exact H|]. apply N.ltb_ge in A. apply N.eqb_neq in B.
  destruct (sorted_cons _ _ H) as [Hr K]. apply sorted_intro; [apply IH; exact Hr|].
  intros y Hy. apply in_ins in Hy. destruct Hy as [->|Hy]; [lia|apply K; exact Hy]. Qed.
Lemma in_del x y s : sorted s = true -> (In x (del y s) <-> x <> y /\ In x s).
Proof. induction s as [|z r IH]; intros H; cbn [del]; [cbn; tauto|].
  destruct (sorted_cons _ _ H) as [Hr K].
  destruct (y =? z) eqn:A.
  - apply N.eqb_eq in A. subst z. cbn [In]. split.
    + intros Hx. split; [specialize (K x Hx); lia|right; exact Hx].
    + intros [Hn [E|Hx]]; [congruence|exact Hx].
  - apply N.eqb_neq in A. destruct (y <? z) eqn:B.
    + apply N.ltb_lt in B. cbn [In]. split.
      * intros [->|Hx]; [split; [lia|left; reflexivity]|split; [specialize (K x Hx); lia|right; exact Hx]].
      * intros [_ Hx]. exact Hx.
    + cbn [In]. rewrite (IH Hr). split.
      * intros [->|[Hn Hx]]; [split; [congruence|left; reflexivity]|split; [exact Hn|right; exact Hx]].
      * intros [Hn [->|Hx]]; [left; reflexivity|right; split; assumption]. Qed.
Lemma sorted_del x s : sorted s = true -> sorted (del x s) = true.
Proof. induction s as [|z r IH]; intros H; cbn [del]; [reflexivity|]. destruct (sorted_cons _ _ H) as [Hr K].
  destruct (x =? z); [exact Hr|]. destruct (x <? z); [exact H|]. apply sorted_intro; [apply IH; exact Hr|].
  intros y Hy. apply (in_del y x r Hr) in Hy. apply K. apply Hy. Qed.
Lemma revoke_all_spec idxs : forall s, sorted s = true -> sorted (revoke_all idxs s) = true /\ forall x, In x (revoke_all idxs s) <-> In x idxs \/ In x s.
Proof. unfold revoke_all. induction idxs as [|i r IH]; intros s H; cbn [fold_left]; [split; [exact H|intros x; cbn; tauto]|].
  destruct (IH (ins i s) (sorted_ins i s H)) as [A B]. split; [exact A|]. intros x. rewrite B, in_ins. cbn [In]. intuition congruence. Qed.
Lemma unrevoke_all_spec idxs : forall s, sorted s = true -> sorted (unrevoke_all idxs s) = true /\ forall x, In x (unrevoke_all idxs s) <-> ~ In x idxs /\ In x s.
Proof. unfold unrevoke_all. induction idxs as [|i r IH]; intros s H; cbn [fold_left]; [split; [exact H|intros x; cbn; tauto]|].
  destruct (IH (del i s) (sorted_del i s H)) as [A B]. split; [exact A|]. intros x. rewrite B, (in_del x i s H). cbn [In]. intuition congruence. Qed.

(* ---------- the standard alphabet ---------- *)
Lemma sval_char s : s < 64 -> b64s_val (b64s_char s) = Some s.
Proof.
  intros H. unfold b64s_char, b64s_val.
  destruct (s <? 26) eqn:A; [apply N.ltb_lt in A|apply N.ltb_ge in A].
  { replace ((65 <=? 65 + s) && (65 + s <=? 90)) with true by (symmetry; apply andb_true_intro; split; apply N.leb_le; lia). f_equal; lia. }
  destruct (s <? 52) eqn:B; [apply N.ltb_lt in B|apply N.ltb_ge in B].
  { replace ((65 <=? 71 + s) && (71 + s <=? 90)) with false by (symmetry; apply andb_false_intro2; apply N.leb_gt; lia).
    replace ((97 <=? 71 + s) && (71 + s <=? 122)) with true by (symmetry; apply andb_true_intro; split; apply N.leb_le; lia). f_equal; lia. }
  destruct (s <? 62) eqn:C; [apply N.ltb_lt in C|apply N.ltb_ge in C].
  { replace ((65 <=? s - 4) && (s - 4 <=? 90)) with false by (symmetry; apply andb_false_intro1; apply N.leb_gt; lia).
    replace ((97 <=? s - 4) && (s - 4 <=? 122)) with false by (symmetry; apply andb_false_intro1; apply N.leb_gt; lia).
    replace ((48 <=? s - 4) && (s - 4 <=? 57)) with true by (symmetry; apply andb_true_intro; split; apply N.leb_le; lia). f_equal; lia. }
  destruct (s =? 62) eqn:D; [apply N.eqb_eq in D; subst; reflexivity|apply N.eqb_neq in D].
  assert (s = 63) by lia. subst. reflexivity.
Qed.
Lemma smap_opt_map s : Forall sx_ok s -> map_opt b64s_val (map b64s_char s) = Some s.
Proof. induction 1 as [|x r Hx Hr IH]; cbn; [reflexivity|]. rewrite (sval_char _ Hx), IH. reflexivity. Qed.
Theorem b64s_decode_encode bs : Forall byte_ok bs -> b64s_decode (b64s_encode bs) = Some bs.
Proof. intros F. unfold b64s_decode, b64s_encode. rewrite (smap_opt_map _ (enc_sx_ok _ F)). apply dec_enc. exact F. Qed.

(* ---------- prefixes ---------- *)
Lemma strip_prefix_app p l : strip_prefix p (p ++ l) = Some l.
Proof. induction p as [|a p IH]; cbn; [reflexivity|]. rewrite N.eqb_refl. exact IH. Qed.
(* the text of a zlib stream (header 0x78 0x9C) starts with "eJ" and then one of w x y z *)
Lemma zlib_text_prefix r : exists c rest, b64u_encode (120 :: 156 :: r) = 101 :: 74 :: c :: rest.
Proof. unfold b64u_encode. destruct r as [|x [|y r]]; cbn [b64_enc map]; eexists; eexists; reflexivity. Qed.
Lemma legacy_text_prefix t : exists rest, b64s_encode (101 :: 74 :: t) = 90 :: 85 :: rest.
Proof. unfold b64s_encode. destruct t as [|x r]; cbn [b64_enc map]; eexists; reflexivity. Qed.

(* ---------- validity is kept by the set operations ---------- *)
Lemma valid_ins i s : i < 4294967296 -> valid_set s -> valid_set (ins i s).
Proof. intros Hi [S F]. split; [apply sorted_ins; exact S|]. apply Forall_forall. intros x Hx. apply in_ins in Hx. rewrite Forall_forall in F. destruct Hx as [->|Hx]; [exact Hi|apply F; exact Hx]. Qed.
Lemma valid_del i s : valid_set s -> valid_set (del i s).
Proof. intros [S F]. split; [apply sorted_del; exact S|]. apply Forall_forall. intros x Hx. apply (in_del x i s S) in Hx. rewrite Forall_forall in F. apply F. apply Hx. Qed.
Lemma valid_revoke_all idxs : forall s, Forall (fun x => x < 4294967296) idxs -> valid_set s -> valid_set (revoke_all idxs s).
Proof. unfold revoke_all. induction idxs as [|i r IH]; intros s Fi V; cbn [fold_left]; [exact V|]. inversion Fi as [|? ? Hi Fr]; subst. apply IH; [exact Fr|apply valid_ins; assumption]. Qed.
Lemma valid_unrevoke_all idxs : forall s, valid_set s -> valid_set (unrevoke_all idxs s).
Proof. unfold unrevoke_all. induction idxs as [|i r IH]; intros s V; cbn [fold_left]; [exact V|]. apply IH. apply valid_del. exact V. Qed.

Section CodecProofs.
Variable comp : list N -> list N.
Variable decomp : list N -> option (list N).
(* the codec (zlib over the roaring bytes) is asked to round-trip the values a bitmap can hold, and only those *)
Hypothesis Hdc : forall s, valid_set s -> decomp (comp s) = Some s.
Hypothesis Hzl : forall s, valid_set s -> exists r, comp s = 120 :: 156 :: r.           (* zlib header of Compression::default() *)
Hypothesis Hby : forall s, valid_set s -> Forall byte_ok (comp s).

Lemma ser64_not_legacy s : valid_set s -> legacy_fixed (ser64 comp s) = false.
Proof. intros V. unfold legacy_fixed, ser64. destruct (Hzl s V) as [r ->]. destruct (zlib_text_prefix r) as [c [rest ->]]. reflexivity. Qed.
Theorem deser_ser s : valid_set s -> deser64 decomp legacy_fixed (ser64 comp s) = Some s.
Proof. intros V. unfold deser64. rewrite (ser64_not_legacy s V). unfold ser64. rewrite (b64u_decode_encode _ (Hby s V)). apply Hdc. exact V. Qed.
Theorem service_roundtrip id s : valid_set s -> try_from_service decomp legacy_fixed (to_service comp id s) = Some s.
Proof. intros V. unfold try_from_service, to_service, to_endpoint; cbn [bs_type_ok bs_ep negb]. rewrite strip_prefix_app. apply deser_ser. exact V. Qed.

(* every character of a base64url text is ASCII *)
Lemma b64u_char_ascii s : s < 64 -> b64u_char s < 128.
Proof. intros H. unfold b64u_char. destruct (s <? 26) eqn:A; [apply N.ltb_lt in A; lia|]. destruct (s <? 52) eqn:B; [apply N.ltb_lt in B; lia|].
  destruct (s <? 62) eqn:C; [apply N.ltb_lt in C; lia|]. destruct (s =? 62); lia. Qed.
Lemma ser64_ascii s : valid_set s -> Forall (fun c => c < 128) (ser64 comp s).
Proof. intros V. unfold ser64, b64u_encode. pose proof (enc_sx_ok _ (Hby s V)) as H. induction H as [|x r Hx Hr IH]; cbn [map]; constructor; [apply b64u_char_ascii; exact Hx|exact IH]. Qed.
(* the legacy double-encoded form still decodes *)
Theorem legacy_decodes s : valid_set s -> deser64 decomp legacy_fixed (b64s_encode (ser64 comp s)) = Some s.
Proof. intros V. unfold deser64.
  assert (L : legacy_fixed (b64s_encode (ser64 comp s)) = true).
  { unfold ser64. destruct (Hzl s V) as [r ->]. destruct (zlib_text_prefix r) as [c [rest ->]]. destruct (legacy_text_prefix (c :: rest)) as [rest' ->]. reflexivity. }
  rewrite L. pose proof (ser64_ascii s V) as Ha.
  assert (Hb : Forall byte_ok (ser64 comp s)) by (apply (Forall_impl byte_ok) with (2 := Ha); intros c Hc; unfold byte_ok; lia).
  rewrite (b64s_decode_encode _ Hb).
  assert (Hf : forallb (fun c => c <? 128) (ser64 comp s) = true) by (apply forallb_forall; rewrite Forall_forall in Ha; intros c Hc; apply N.ltb_lt; apply Ha; exact Hc).
  rewrite Hf. unfold ser64. rewrite (b64u_decode_encode _ (Hby s V)). apply Hdc. exact V. Qed.

(* ---------- revoking through the document ---------- *)
Lemma find_replace_first d q ep sv : find (fun sv => qmatches q (bs_id sv)) d = Some sv ->
  find (fun sv => qmatches q (bs_id sv)) (replace_first d q ep) = Some {| bs_id := bs_id sv; bs_type_ok := bs_type_ok sv; bs_ep := ep |}.
Proof. induction d as [|x r IH]; cbn [find replace_first]; [discriminate|]. destruct (qmatches q (bs_id x)) eqn:E.
  - intros H. injection H as <-. cbn [find bs_id]. rewrite E. reflexivity.
  - intros H. cbn [find]. rewrite E. apply IH. exact H. Qed.

Hypothesis Hvalid : forall z s, decomp z = Some s -> valid_set s.       (* the decoder yields strictly increasing 32-bit indices *)
Lemma resolve_valid d q bm : resolve_bitmap decomp legacy_fixed d q = Some bm -> valid_set bm.
Proof. unfold resolve_bitmap, try_from_service, deser64. destruct (find _ d) as [sv|]; [|discriminate]. destruct (bs_type_ok sv); [|discriminate]. cbn [negb].
  destruct (bs_ep sv) as [t|]; [|discriminate]. destruct (strip_prefix DATA_PREFIX t) as [enc|]; [|discriminate].
  destruct (if legacy_fixed enc then _ else _) as [t'|]; [|discriminate]. destruct (b64u_decode t') as [z|]; [|discriminate]. apply Hvalid. Qed.
Theorem update_spec d q f d' : (forall bm, valid_set bm -> valid_set (f bm)) -> update_bitmap comp decomp legacy_fixed d q f = Some d' ->
  exists bm, resolve_bitmap decomp legacy_fixed d q = Some bm /\ resolve_bitmap decomp legacy_fixed d' q = Some (f bm) /\ map bs_id d' = map bs_id d.
Proof. intros Hf. unfold update_bitmap. destruct (resolve_bitmap decomp legacy_fixed d q) as [bm|] eqn:E; [|discriminate]. intros H. injection H as <-.
  pose proof (Hf bm (resolve_valid d q bm E)) as Vf.
  exists bm. split; [reflexivity|]. unfold resolve_bitmap in *. destruct (find (fun sv => qmatches q (bs_id sv)) d) as [sv|] eqn:F; [|discriminate E].
  rewrite (find_replace_first d q _ sv F). split.
  - unfold try_from_service in *. cbn [bs_type_ok bs_ep]. destruct (bs_type_ok sv); [|discriminate E]. cbn [negb]. unfold to_endpoint. rewrite strip_prefix_app. apply deser_ser. exact Vf.
  - clear. induction d as [|x r IH]; cbn [replace_first map]; [reflexivity|]. destruct (qmatches q (bs_id x)); cbn [map bs_id]; [reflexivity|]. f_equal. exact IH. Qed.
(* services that the query does not select are untouched *)
Theorem update_frame d q f d' : update_bitmap comp decomp legacy_fixed d q f = Some d' ->
  forall sv, In sv d -> qmatches q (bs_id sv) = false -> In sv d'.
Proof. unfold update_bitmap. destruct (resolve_bitmap decomp legacy_fixed d q) as [bm|]; [|discriminate]. intros H. injection H as <-.
  intros sv Hin Hq. induction d as [|x r IH]; [destruct Hin|]. cbn [replace_first]. destruct Hin as [->|Hin].
  - rewrite Hq. left. reflexivity.
  - destruct (qmatches q (bs_id x)); [right; exact Hin|right; apply IH; exact Hin]. Qed.
(* revoking / un-revoking changes membership of exactly the requested indices (u32 indices, as the API takes them) *)
Theorem revoke_exact d q idxs d' : Forall (fun x => x < 4294967296) idxs -> revoke_credentials comp decomp legacy_fixed d q idxs = Some d' ->
  exists bm bm', resolve_bitmap decomp legacy_fixed d q = Some bm /\ resolve_bitmap decomp legacy_fixed d' q = Some bm'
    /\ forall x, In x bm' <-> In x idxs \/ In x bm.
Proof. intros Fi H. destruct (update_spec d q _ d' (fun bm V => valid_revoke_all idxs bm Fi V) H) as [bm [A [B _]]]. exists bm, (revoke_all idxs bm). split; [exact A|]. split; [exact B|].
  apply revoke_all_spec. apply (resolve_valid d q bm A). Qed.
Theorem unrevoke_exact d q idxs d' : unrevoke_credentials comp decomp legacy_fixed d q idxs = Some d' ->
  exists bm bm', resolve_bitmap decomp legacy_fixed d q = Some bm /\ resolve_bitmap decomp legacy_fixed d' q = Some bm'
    /\ forall x, In x bm' <-> ~ In x idxs /\ In x bm.
Proof. intros H. destruct (update_spec d q _ d' (fun bm V => valid_unrevoke_all idxs bm V) H) as [bm [A [B _]]]. exists bm, (unrevoke_all idxs bm). split; [exact A|]. split; [exact B|].
  apply unrevoke_all_spec. apply (resolve_valid d q bm A). Qed.
End CodecProofs.

(* ---------- the pinned tree took every text not starting with "eJy" for the legacy form ---------- *)
Definition toy_comp (s : list N) : list N := [120; 156; 237; 1].     (* a zlib stream whose first deflate byte has top bits 11: text "eJzt.." *)
Definition toy_decomp (z : list N) : option (list N) := Some [].
Theorem pinned_roundtrip_refuted :
  (forall s, exists r, toy_comp s = 120 :: 156 :: r) /\ deser64 toy_decomp legacy_pinned (ser64 toy_comp []) = None
  /\ deser64 toy_decomp legacy_fixed (ser64 toy_comp []) = Some [].
Proof. split; [intros s; eexists; reflexivity|]. split; vm_compute; reflexivity. Qed.
