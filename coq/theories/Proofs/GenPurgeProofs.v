From Coq Require Import List ZArith Bool Lia.
From IdV Require Import Doc.Doc Proofs.DocProofs Storage.GenPurge.
Import ListNotations.
Open Scope Z_scope.

Lemma same_obs_refl st : same_obs st st.
Proof. repeat split; auto. Qed.

Lemma keys_del_fresh ks k : ~ In k ks -> same_keys (keys_del (ks ++ [k]) k) ks.
Proof.
  intros Hn x. unfold keys_del. rewrite filter_In, in_app_iff. cbn [In]. split.
  - intros [[I|[E|[]]] N]; [exact I|]. subst. rewrite Z.eqb_refl in N. discriminate.
  - intros I. split; [left; exact I|]. apply negb_true_iff. apply Z.eqb_neq. intros E. subst. contradiction.
Qed.

(* generate: with a fresh key, every fault script yields Ok, an explicit undo failure, or a plain error
   with document and both stores observably unchanged *)
Theorem generate_atomic st k ou sc fs r st' : ~ In k (s_keys st) ->
  generate true st k ou sc fs = (r, st') ->
  match r with
  | SOk => (exists u d', ou = Some u /\ insert_method (s_doc st) {| m_id := u; m_data := k |} sc = inl d' /\ s_doc st' = d')
           /\ In k (s_keys st') /\ kids_get (s_kids st ++ [(k, k)]) k = kids_get (s_kids st') k
  | SPlain => same_obs st' st
  | SUndoFailed => True
  end.
Proof.
  intros Hf. unfold generate. destruct (next fs) as [f1 fs1]. destruct f1.
  { intros H; inversion H; subst. apply same_obs_refl. }
  destruct ou as [u|].
  2:{ unfold undo_keygen. destruct (next fs1) as [f3 fs3]. destruct f3; intros H; inversion H; subst; [exact I|].
      unfold same_obs. cbn [s_doc s_keys s_kids]. split; [reflexivity|split; [apply keys_del_fresh; exact Hf|intros dg; reflexivity]]. }
  destruct (insert_method (s_doc st) {| m_id := u; m_data := k |} sc) as [d'|e] eqn:Ei.
  - destruct (next fs1) as [f2 fs2].
    destruct (f2 || match kids_get (s_kids st) k with Some _ => true | None => false end) eqn:Ef.
    + unfold undo_keygen. destruct (next fs2) as [f3 fs3]. destruct f3; intros H; inversion H; subst; [exact I|].
      unfold same_obs. cbn [s_doc s_keys s_kids]. split; [reflexivity|split; [apply keys_del_fresh; exact Hf|intros dg; reflexivity]].
    + intros H; inversion H; subst. cbn [s_doc s_keys s_kids]. split; [exists u, d'; auto|]. split; [|reflexivity].
      apply in_app_iff. right. left. reflexivity.
  - unfold undo_keygen. destruct (next fs1) as [f3 fs3]. destruct f3; intros H; inversion H; subst; [exact I|].
    unfold same_obs. cbn [s_doc s_keys s_kids]. split; [reflexivity|split; [apply keys_del_fresh; exact Hf|intros dg; reflexivity]].
Qed.

Lemma kids_get_del_other l dg dg' : dg' <> dg -> kids_get (kids_del l dg) dg' = kids_get l dg'.
Proof.
  intros N. unfold kids_get, kids_del. induction l as [|[a b] r IH]; cbn [filter find fst snd]; [reflexivity|].
  destruct (a =? dg) eqn:E; cbn [negb].
  - apply Z.eqb_eq in E. subst a. replace (dg =? dg') with false by (symmetry; apply Z.eqb_neq; congruence). exact IH.
  - cbn [find fst]. destruct (a =? dg'); [reflexivity|exact IH].
Qed.
Lemma kids_get_del_same l dg : kids_get (kids_del l dg) dg = None.
Proof.
  unfold kids_get, kids_del. induction l as [|[a b] r IH]; cbn [filter find fst]; [reflexivity|].
  destruct (a =? dg) eqn:E; cbn [negb]; [exact IH|]. cbn [find fst]. rewrite E. exact IH.
Qed.
Lemma kids_get_app_new l dg k dg' : kids_get l dg = None ->
  kids_get (l ++ [(dg, k)]) dg' = if dg =? dg' then Some k else kids_get l dg'.
Proof.
  unfold kids_get. induction l as [|[a b] r IH]; cbn [app find fst snd]; intros H.
  - destruct (dg =? dg'); reflexivity.
  - destruct (a =? dg) eqn:E; [discriminate|]. destruct (a =? dg') eqn:E'.
    + apply Z.eqb_eq in E'. subst a. rewrite Z.eqb_sym, E. reflexivity.
    + apply IH. exact H.
Qed.

(* purge: every fault script yields Ok with method, key and key id gone, an explicit undo failure,
   or a plain error with document and both stores observably unchanged *)
Theorem purge_atomic st u fs r st' : purge st u fs = (r, st') ->
  match r with
  | SOk => exists m sc k, snd (remove_method (s_doc st) u) = Some (m, sc) /\ s_doc st' = fst (remove_method (s_doc st) u)
           /\ kids_get (s_kids st) (m_data m) = Some k /\ ~ In k (s_keys st') /\ kids_get (s_kids st') (m_data m) = None
           /\ (forall k', k' <> k -> (In k' (s_keys st') <-> In k' (s_keys st)))
           /\ (forall dg, dg <> m_data m -> kids_get (s_kids st') dg = kids_get (s_kids st) dg)
  | SPlain => same_obs st' st
  | SUndoFailed => True
  end.
Proof.
  unfold purge. destruct (snd (remove_method (s_doc st) u)) as [[m sc]|] eqn:R.
  2:{ intros H; inversion H; subst. apply same_obs_refl. }
  destruct (next fs) as [f1 fs1].
  destruct (if f1 then None else kids_get (s_kids st) (m_data m)) as [k|] eqn:G.
  2:{ intros H; inversion H; subst. apply same_obs_refl. }
  assert (kids_get (s_kids st) (m_data m) = Some k) as Gk by (destruct f1; [discriminate|exact G]).
  destruct (next fs1) as [fk fs2]. destruct (next fs2) as [fi fs3].
  destruct (fk || negb (existsb (Z.eqb k) (s_keys st))) eqn:Fk; destruct fi.
  - intros H; inversion H; subst. apply same_obs_refl.
  - destruct (next fs3) as [fr fs4]. destruct fr; intros H; inversion H; subst; [exact I|].
    unfold same_obs. cbn [s_doc s_keys s_kids]. split; [reflexivity|split; [intros x; tauto|]].
    intros dg. rewrite kids_get_app_new; [|apply kids_get_del_same].
    destruct (m_data m =? dg) eqn:E.
    + apply Z.eqb_eq in E. subst dg. symmetry. exact Gk.
    + apply kids_get_del_other. apply Z.eqb_neq in E. congruence.
  - intros H; inversion H; subst. exact I.
  - intros H; inversion H; subst. cbn [s_doc s_keys s_kids]. exists m, sc, k. repeat split; auto.
    + unfold keys_del. rewrite filter_In. intros [_ N]. rewrite Z.eqb_refl in N. discriminate.
    + apply kids_get_del_same.
    + unfold keys_del. rewrite filter_In. tauto.
    + unfold keys_del. rewrite filter_In. intros I. split; [exact I|]. apply negb_true_iff. apply Z.eqb_neq. exact H0.
    + intros dg N. apply kids_get_del_other. exact N.
Qed.

(* the tree's rollback of generate_method (remove_method instead of restoring the saved document) is
   refuted: a dangling reference with the new method's id is dropped although a plain error is returned *)
Theorem generate_rollback_refuted : exists st k u sc fs st',
  ~ In k (s_keys st) /\ generate false st k (Some u) sc fs = (SPlain, st') /\ s_doc st' <> s_doc st.
Proof.
  pose (kk := {| u_did := 1; u_rest := 0; u_frag := Some 7 |}).
  exists {| s_doc := {| d_vm := []; d_rels := fun r => match r with RAuth => [Refer kk] | _ => [] end; d_svc := [] |}; s_keys := []; s_kids := [] |},
         5, kk, SVm, [false; true; false].
  eexists. split; [cbn; tauto|]. split; [vm_compute; reflexivity|].
  cbn. intros E. apply (f_equal (fun d => length (d_rels d RAuth))) in E. cbn in E. discriminate.
Qed.

(* the construction error path: no fragment, and the store's JWK carries no kid *)
Theorem generate_no_id st k sc fs r st' : ~ In k (s_keys st) -> generate true st k None sc fs = (r, st') ->
  (r = SPlain /\ same_obs st' st) \/ r = SUndoFailed.
Proof. intros Hf H. pose proof (generate_atomic st k None sc fs r st' Hf H) as A. destruct r; [|left; split; [reflexivity|exact A]|right; reflexivity].
  destruct A as [[u [d' [E _]]] _]. discriminate. Qed.
Example generate_no_id_undo : generate true {| s_doc := {| d_vm := []; d_rels := fun _ => []; d_svc := [] |}; s_keys := [3]; s_kids := [(3, 3)] |} 5 None SVm [false; false]
  = (SPlain, {| s_doc := {| d_vm := []; d_rels := fun _ => []; d_svc := [] |}; s_keys := [3]; s_kids := [(3, 3)] |}).
Proof. reflexivity. Qed.

(* an explicit undo failure needs a storage fault: on a fault-free script generate / purge end in Ok or
   in a plain error (state unchanged by the atomicity theorems), and generate succeeds whenever the
   document accepts the method and the digest is free *)
Lemma next_true fs r : next fs = (true, r) -> In true fs.
Proof. destruct fs as [|b t]; cbn [next]; intros H; inversion H; subst. left; reflexivity. Qed.
Lemma next_rest fs b r x : next fs = (b, r) -> In x r -> In x fs.
Proof. destruct fs as [|c t]; cbn [next]; intros H; inversion H; subst; [intros []|intros I; right; exact I]. Qed.
Lemma undo_keygen_fault st k fs st' : undo_keygen st k fs = (SUndoFailed, st') -> In true fs.
Proof.
  unfold undo_keygen. destruct (next fs) as [f r] eqn:N. destruct f; [|discriminate].
  intros _. exact (next_true _ _ N).
Qed.
Theorem generate_undo_failed_needs_fault sn st k ou sc fs st' :
  generate sn st k ou sc fs = (SUndoFailed, st') -> In true fs.
Proof.
  unfold generate. destruct (next fs) as [f1 fs1] eqn:N1. destruct f1; [discriminate|].
  destruct ou as [u|]; [|intros H; apply undo_keygen_fault in H; exact (next_rest _ _ _ _ N1 H)].
  destruct (insert_method _ _ _) as [d'|e]; [|intros H; apply undo_keygen_fault in H; exact (next_rest _ _ _ _ N1 H)].
  destruct (next fs1) as [f2 fs2] eqn:N2.
  destruct (f2 || _); [|discriminate].
  intros H; apply undo_keygen_fault in H. apply (next_rest _ _ _ _ N1). exact (next_rest _ _ _ _ N2 H).
Qed.
Theorem purge_undo_failed_needs_fault st u fs st' :
  purge st u fs = (SUndoFailed, st') -> In true fs.
Proof.
  unfold purge. destruct (snd (remove_method (s_doc st) u)) as [[m sc]|]; [|discriminate].
  destruct (next fs) as [f1 fs1] eqn:N1.
  destruct (if f1 then None else kids_get (s_kids st) (m_data m)) as [k|]; [|discriminate].
  destruct (next fs1) as [fk fs2] eqn:N2. destruct (next fs2) as [fi fs3] eqn:N3.
  destruct (fk || _), fi; try discriminate.
  - destruct (next fs3) as [fr fs4] eqn:N4. destruct fr; [|discriminate]. intros _.
    apply (next_rest _ _ _ _ N1), (next_rest _ _ _ _ N2), (next_rest _ _ _ _ N3). exact (next_true _ _ N4).
  - intros _. apply (next_rest _ _ _ _ N1), (next_rest _ _ _ _ N2). exact (next_true _ _ N3).
Qed.
Lemma next_fault_free fs : (forall b, In b fs -> b = false) -> exists r, next fs = (false, r) /\ (forall b, In b r -> b = false).
Proof.
  destruct fs as [|c t]; cbn [next]; intros A.
  - exists []. split; [reflexivity|intros b []].
  - rewrite (A c (or_introl eq_refl)). exists t. split; [reflexivity|]. intros b I. apply A. right; exact I.
Qed.
Theorem generate_fault_free_succeeds sn st k u sc fs d' :
  (forall b, In b fs -> b = false) ->
  insert_method (s_doc st) {| m_id := u; m_data := k |} sc = inl d' -> kids_get (s_kids st) k = None ->
  generate sn st k (Some u) sc fs = (SOk, {| s_doc := d'; s_keys := s_keys st ++ [k]; s_kids := s_kids st ++ [(k, k)] |}).
Proof.
  intros A I K. unfold generate.
  destruct (next_fault_free fs A) as [fs1 [N1 A1]]. rewrite N1, I.
  destruct (next_fault_free fs1 A1) as [fs2 [N2 _]]. rewrite N2, K. reflexivity.
Qed.
