From Coq Require Import List NArith Bool Lia.
From IdV Require Import Cred.Bitmap Did.DidParse Doc.UrlQuery Proofs.BitmapProofs.
Import ListNotations.
Open Scope N_scope.

Lemma leqb_refl a : list_eqb a a = true.
Proof. induction a as [|x a IH]; cbn [list_eqb]; [reflexivity|]. rewrite N.eqb_refl. exact IH. Qed.
Lemma leqb_eq a : forall b, list_eqb a b = true <-> a = b.
Proof. induction a as [|x a IH]; intros [|y b]; cbn [list_eqb]; split; try discriminate; try reflexivity.
  - intros H. apply andb_true_iff in H. destruct H as [H1 H2]. apply N.eqb_eq in H1. apply IH in H2. congruence.
  - intros H. injection H as -> ->. rewrite N.eqb_refl. apply IH. reflexivity. Qed.
Lemma before_none c a : ~ In c a -> before c a = a.
Proof. induction a as [|x a IH]; intros H; cbn [before]; [reflexivity|]. destruct (x =? c) eqn:E; [apply N.eqb_eq in E; subst; exfalso; apply H; left; reflexivity|].
  f_equal. apply IH. intros Hc. apply H. right. exact Hc. Qed.
Lemma before_app c a r : ~ In c a -> before c (a ++ c :: r) = a.
Proof. induction a as [|x a IH]; intros H; cbn [app before]; [rewrite N.eqb_refl; reflexivity|]. destruct (x =? c) eqn:E; [apply N.eqb_eq in E; subst; exfalso; apply H; left; reflexivity|].
  f_equal. apply IH. intros Hc. apply H. right. exact Hc. Qed.
Lemma after_last_none c l : ~ In c l -> after_last c l = None.
Proof. induction l as [|x l IH]; intros H; cbn [after_last]; [reflexivity|]. rewrite IH by (intros Hc; apply H; right; exact Hc).
  destruct (x =? c) eqn:E; [apply N.eqb_eq in E; subst; exfalso; apply H; left; reflexivity|reflexivity]. Qed.
Lemma after_last_app c a r : ~ In c r -> after_last c (a ++ c :: r) = Some r.
Proof. intros H. induction a as [|x a IH]; cbn [app after_last]; [rewrite (after_last_none _ _ H), N.eqb_refl; reflexivity|]. rewrite IH. reflexivity. Qed.
Lemma starts_with_app p r : starts_with p (p ++ r) = true.
Proof. unfold starts_with. rewrite strip_prefix_app. reflexivity. Qed.

Definition no3 (l : list N) : Prop := ~ In 35 l /\ ~ In 47 l /\ ~ In 63 l.
Definition mid_ok (m : list N) : Prop := (m = [] \/ exists t, m = 47 :: t \/ m = 63 :: t) /\ ~ In 35 m.
Lemma cut_did did m : no3 did -> mid_ok m -> before 63 (before 47 (did ++ m)) = did.
Proof. intros [_ [H47 H63]] [[->|[t [->| ->]]] _].
  - rewrite app_nil_r. rewrite (before_none 47 _ H47). apply before_none. exact H63.
  - rewrite (before_app 47 _ _ H47). apply before_none. exact H63.
  - destruct (in_dec N.eq_dec 47 t) as [Hi|Hn].
    + apply in_split in Hi. destruct Hi as [t1 [t2 ->]].
      assert (exists u1 u2, t1 ++ 47 :: t2 = u1 ++ 47 :: u2 /\ ~ In 47 u1) as [u1 [u2 [E Hu]]].
      { clear. induction t1 as [|x t1 IH]; [exists [], t2; split; [reflexivity|intros []]|]. destruct (N.eq_dec x 47) as [->|Hx]; [exists [], (t1 ++ 47 :: t2); split; [reflexivity|intros []]|].
        destruct IH as [u1 [u2 [E Hu]]]. exists (x :: u1), u2. split; [cbn; rewrite E; reflexivity|intros [H|H]; [congruence|exact (Hu H)]]. }
      rewrite E. replace (did ++ 63 :: u1 ++ 47 :: u2) with ((did ++ 63 :: u1) ++ 47 :: u2) by (rewrite <- app_assoc; reflexivity).
      rewrite (before_app 47); [apply before_app; exact H63|]. intros Hc. apply in_app_or in Hc. destruct Hc as [Hc|[Hc|Hc]]; [exact (H47 Hc)|discriminate|exact (Hu Hc)].
    + rewrite (before_none 47); [apply before_app; exact H63|]. intros Hc. apply in_app_or in Hc. destruct Hc as [Hc|[Hc|Hc]]; [exact (H47 Hc)|discriminate|exact (Hn Hc)]. Qed.

(* a full DID URL as query: DID, then nothing or a path / query part, then '#' fragment *)
Theorem query_full_url pfx did m frag : starts_with pfx did = true -> no3 did -> mid_ok m -> ~ In 35 frag -> frag <> [] ->
  q_did_str pfx (did ++ m ++ 35 :: frag) = Some did /\ q_fragment pfx (did ++ m ++ 35 :: frag) = Some frag.
Proof. intros Hp Hd Hm Hf Hne.
  assert (Hs : starts_with pfx (did ++ m ++ 35 :: frag) = true).
  { unfold starts_with in *. destruct (strip_prefix pfx did) as [t|] eqn:E; [|discriminate]. clear Hp.
    assert (G : forall p l t r, strip_prefix p l = Some t -> strip_prefix p (l ++ r) = Some (t ++ r)).
    { clear. induction p as [|a p IH]; intros l t r; cbn [strip_prefix]; [intros H; injection H as <-; reflexivity|]. destruct l as [|b l]; [discriminate|]. cbn [app strip_prefix].
      destruct (a =? b); [apply IH|discriminate]. }
    rewrite (G _ _ _ _ E). reflexivity. }
  unfold q_did_str, q_fragment. rewrite Hs. split.
  - f_equal. replace (did ++ m ++ 35 :: frag) with ((did ++ m) ++ 35 :: frag) by (rewrite <- app_assoc; reflexivity).
    rewrite before_app; [apply cut_did; assumption|]. intros Hc. apply in_app_or in Hc. destruct Hd as [H35 _]. destruct Hm as [_ Hm35]. destruct Hc; contradiction.
  - replace (did ++ m ++ 35 :: frag) with ((did ++ m) ++ 35 :: frag) by (rewrite <- app_assoc; reflexivity). rewrite (after_last_app _ _ _ Hf).
    destruct frag; [congruence|reflexivity]. Qed.
(* "#fragment", and a relative URL with a fragment *)
Theorem query_relative pfx m frag : starts_with pfx (m ++ 35 :: frag) = false -> ~ In 35 frag -> frag <> [] ->
  q_did_str pfx (m ++ 35 :: frag) = None /\ q_fragment pfx (m ++ 35 :: frag) = Some frag.
Proof. intros Hs Hf Hne. unfold q_did_str, q_fragment. rewrite Hs. split; [reflexivity|]. rewrite (after_last_app _ _ _ Hf). destruct frag; [congruence|reflexivity]. Qed.
(* the bare fragment *)
Theorem query_bare pfx frag : starts_with pfx frag = false -> ~ In 35 frag -> frag <> [] ->
  q_did_str pfx frag = None /\ q_fragment pfx frag = Some frag.
Proof. intros Hs Hf Hne. unfold q_did_str, q_fragment. rewrite Hs. split; [reflexivity|]. rewrite (after_last_none _ _ Hf). destruct frag; [congruence|reflexivity]. Qed.
(* so the three query forms match an id (DID, fragment) exactly as the structured query of Doc.v does *)
Theorem matches_full pfx did m frag d f : starts_with pfx did = true -> no3 did -> mid_ok m -> ~ In 35 frag -> frag <> [] ->
  q_matches pfx (did ++ m ++ 35 :: frag) d f = true <-> did = d /\ f = Some frag.
Proof. intros H1 H2 H3 H4 H5. unfold q_matches. destruct (query_full_url pfx did m frag H1 H2 H3 H4 H5) as [-> ->]. rewrite andb_true_iff, leqb_eq.
  destruct f as [b|]; [rewrite leqb_eq; split; [intros [-> ->]; split; reflexivity|intros [-> E]; injection E as ->; split; reflexivity]|split; [intros [_ H]; discriminate|intros [_ H]; discriminate]]. Qed.
Theorem matches_fragment_only pfx q frag d f : (q_did_str pfx q = None /\ q_fragment pfx q = Some frag) ->
  q_matches pfx q d f = true <-> f = Some frag.
Proof. intros [E1 E2]. unfold q_matches. rewrite E1, E2. cbn [andb]. destruct f as [b|]; [rewrite leqb_eq; split; [intros ->; reflexivity|intros E; injection E as ->; reflexivity]|split; discriminate]. Qed.
(* the pinned tree took every query that merely starts with the letters "did" for a DID URL: the bare fragment "didcomm" never matched *)
Theorem pinned_bare_fragment_refuted :
  let didcomm := [100; 105; 100; 99; 111; 109; 109] in
  (forall d, q_matches PFX_PINNED didcomm d (Some didcomm) = false) /\ (forall d, q_matches PFX_FIXED didcomm d (Some didcomm) = true).
Proof. cbv zeta. split; intros d; unfold q_matches.
  - replace (q_fragment PFX_PINNED [100; 105; 100; 99; 111; 109; 109]) with (@None (list N)) by reflexivity. apply andb_false_r.
  - reflexivity. Qed.
