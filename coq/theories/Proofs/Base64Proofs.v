From Coq Require Import List NArith ZArith Bool Lia.
From IdV Require Import Lib.Base64.
Import ListNotations.
Open Scope N_scope.
Ltac Zify.zify_post_hook ::= Z.to_euclidean_division_equations.

Definition byte_ok (b : N) := b < 256.
Definition sx_ok (s : N) := s < 64.

Lemma list_ind3 {A} (P : list A -> Prop) :
  P [] -> (forall a, P [a]) -> (forall a b, P [a; b]) ->
  (forall a b c r, P r -> P (a :: b :: c :: r)) -> forall l, P l.
Proof.
  intros H0 H1 H2 H3 l. assert (P l /\ (forall a, P (a :: l)) /\ (forall a b, P (a :: b :: l))) as [H _]; [|exact H].
  induction l as [|x l [IH0 [IH1 IH2]]]; [auto|]. repeat split; auto.
Qed.
Lemma list_ind4 {A} (P : list A -> Prop) :
  P [] -> (forall a, P [a]) -> (forall a b, P [a; b]) -> (forall a b c, P [a; b; c]) ->
  (forall a b c d r, P r -> P (a :: b :: c :: d :: r)) -> forall l, P l.
Proof.
  intros H0 H1 H2 H3 H4 l.
  assert (P l /\ (forall a, P (a :: l)) /\ (forall a b, P (a :: b :: l)) /\ (forall a b c, P (a :: b :: c :: l))) as [H _]; [|exact H].
  induction l as [|x l [IH0 [IH1 [IH2 IH3]]]]; [auto|]. repeat split; auto.
Qed.

Theorem dec_enc bs : Forall byte_ok bs -> b64_dec (b64_enc bs) = Some bs.
Proof.
  induction bs as [| a | a b | a b c r IH] using list_ind3; intros F.
  - reflexivity.
  - inversion F as [|? ? Ha _]; subst. unfold byte_ok in Ha. cbn [b64_enc b64_dec].
    replace ((a mod 4 * 16) mod 16 =? 0) with true by (symmetry; apply N.eqb_eq; lia).
    f_equal. f_equal. lia.
  - inversion F as [|? ? Ha F1]; subst. inversion F1 as [|? ? Hb _]; subst. unfold byte_ok in *. cbn [b64_enc b64_dec].
    replace ((b mod 16 * 4) mod 4 =? 0) with true by (symmetry; apply N.eqb_eq; lia).
    f_equal. repeat f_equal; lia.
  - inversion F as [|? ? Ha F1]; subst. inversion F1 as [|? ? Hb F2]; subst. inversion F2 as [|? ? Hc F3]; subst.
    unfold byte_ok in *. cbn [b64_enc b64_dec]. rewrite (IH F3). f_equal. repeat f_equal; lia.
Qed.

Theorem enc_sx_ok bs : Forall byte_ok bs -> Forall sx_ok (b64_enc bs).
Proof.
  induction bs as [| a | a b | a b c r IH] using list_ind3; intros F; cbn [b64_enc].
  - constructor.
  - inversion F as [|? ? Ha _]; subst. unfold byte_ok, sx_ok in *. repeat constructor; lia.
  - inversion F as [|? ? Ha F1]; subst. inversion F1 as [|? ? Hb _]; subst. unfold byte_ok, sx_ok in *. repeat constructor; lia.
  - inversion F as [|? ? Ha F1]; subst. inversion F1 as [|? ? Hb F2]; subst. inversion F2 as [|? ? Hc F3]; subst.
    unfold byte_ok, sx_ok in *. repeat constructor; try lia. exact (IH F3).
Qed.

Theorem enc_dec ss : Forall sx_ok ss -> forall bs, b64_dec ss = Some bs -> b64_enc bs = ss /\ Forall byte_ok bs.
Proof.
  induction ss as [| w | w x | w x y | w x y z r IH] using list_ind4; intros F bs H.
  - inversion H; subst. split; [reflexivity|constructor].
  - discriminate.
  - inversion F as [|? ? Hw F1]; subst. inversion F1 as [|? ? Hx _]; subst. unfold sx_ok in *.
    cbn [b64_dec] in H. destruct (x mod 16 =? 0) eqn:E; [|discriminate]. apply N.eqb_eq in E. inversion H; subst.
    cbn [b64_enc]. split; [repeat f_equal; lia|]. repeat constructor; unfold byte_ok; lia.
  - inversion F as [|? ? Hw F1]; subst. inversion F1 as [|? ? Hx F2]; subst. inversion F2 as [|? ? Hy _]; subst. unfold sx_ok in *.
    cbn [b64_dec] in H. destruct (y mod 4 =? 0) eqn:E; [|discriminate]. apply N.eqb_eq in E. inversion H; subst.
    cbn [b64_enc]. split; [repeat f_equal; lia|]. repeat constructor; unfold byte_ok; lia.
  - inversion F as [|? ? Hw F1]; subst. inversion F1 as [|? ? Hx F2]; subst. inversion F2 as [|? ? Hy F3]; subst. inversion F3 as [|? ? Hz F4]; subst.
    unfold sx_ok in *. cbn [b64_dec] in H. destruct (b64_dec r) as [bs'|] eqn:D; [|discriminate]. inversion H; subst.
    destruct (IH F4 bs' eq_refl) as [E Fb]. cbn [b64_enc]. rewrite E. split; [repeat f_equal; lia|].
    repeat constructor; unfold byte_ok; try lia. exact Fb.
Qed.

(* alphabet *)
Lemma val_char s : s < 64 -> b64u_val (b64u_char s) = Some s.
Proof.
  intros H. unfold b64u_char, b64u_val.
  destruct (s <? 26) eqn:A; [apply N.ltb_lt in A|apply N.ltb_ge in A].
  { replace ((65 <=? 65 + s) && (65 + s <=? 90)) with true by (symmetry; apply andb_true_intro; split; apply N.leb_le; lia). f_equal; lia. }
  destruct (s <? 52) eqn:B; [apply N.ltb_lt in B|apply N.ltb_ge in B].
  { replace ((65 <=? 71 + s) && (71 + s <=? 90)) with false by (symmetry; apply andb_false_intro2; apply N.leb_gt; lia).
    replace ((97 <=? 71 + s) && (71 + s <=? 122)) with true by (symmetry; apply andb_true_intro; split; apply N.leb_le; lia). f_equal; lia. }
  destruct (s <? 62) eqn:C; [apply N.ltb_lt in C|apply N.ltb_ge in C].
  { replace ((65 <=? s - 4) && (s - 4 <=? 90)) with false by (symmetry; apply andb_false_intro1; apply N.leb_gt; lia).
    replace ((97 <=? s - 4) && (s - 4 <=? 122)) with false by (symmetry; apply andb_false_intro1; apply N.leb_gt; lia).
    replace ((48 <=? s - 4) && (s - 4 <=? 57)) with true by (symmetry; apply andb_true_intro; split; apply N.leb_le; lia). f_equal; lia. }
  destruct (s =? 62) eqn:D; [apply N.eqb_eq in D; subst; reflexivity|apply N.eqb_neq in D].
  assert (s = 63) by lia. subst. reflexivity.
Qed.
Lemma char_val c s : b64u_val c = Some s -> b64u_char s = c /\ s < 64.
Proof.
  unfold b64u_val, b64u_char.
  destruct ((65 <=? c) && (c <=? 90)) eqn:A.
  { apply andb_prop in A as [A1 A2]. apply N.leb_le in A1, A2. intros H; inversion H; subst.
    replace (c - 65 <? 26) with true by (symmetry; apply N.ltb_lt; lia). split; lia. }
  destruct ((97 <=? c) && (c <=? 122)) eqn:B.
  { apply andb_prop in B as [B1 B2]. apply N.leb_le in B1, B2. intros H; inversion H; subst.
    replace (c - 71 <? 26) with false by (symmetry; apply N.ltb_ge; lia).
    replace (c - 71 <? 52) with true by (symmetry; apply N.ltb_lt; lia). split; lia. }
  destruct ((48 <=? c) && (c <=? 57)) eqn:C.
  { apply andb_prop in C as [C1 C2]. apply N.leb_le in C1, C2. intros H; inversion H; subst.
    replace (c + 4 <? 26) with false by (symmetry; apply N.ltb_ge; lia).
    replace (c + 4 <? 52) with false by (symmetry; apply N.ltb_ge; lia).
    replace (c + 4 <? 62) with true by (symmetry; apply N.ltb_lt; lia). split; lia. }
  destruct (c =? 45) eqn:D; [apply N.eqb_eq in D; subst; intros H; inversion H; subst; split; [reflexivity|lia]|].
  destruct (c =? 95) eqn:E; [apply N.eqb_eq in E; subst; intros H; inversion H; subst; split; [reflexivity|lia]|].
  discriminate.
Qed.

Lemma map_opt_map s : Forall sx_ok s -> map_opt b64u_val (map b64u_char s) = Some s.
Proof.
  induction 1 as [|x r Hx Hr IH]; cbn; [reflexivity|]. rewrite (val_char _ Hx), IH. reflexivity.
Qed.
Lemma map_opt_inv cs : forall ss, map_opt b64u_val cs = Some ss -> map b64u_char ss = cs /\ Forall sx_ok ss.
Proof.
  induction cs as [|c r IH]; intros ss H; cbn in H.
  - inversion H; subst. split; [reflexivity|constructor].
  - destruct (b64u_val c) as [s|] eqn:V; [|discriminate]. destruct (map_opt b64u_val r) as [ss'|] eqn:M; [|discriminate].
    inversion H; subst. destruct (IH ss' eq_refl) as [A B]. destruct (char_val _ _ V) as [C D].
    cbn. split; [congruence|constructor; assumption].
Qed.

(* byte-level theorems *)
Theorem b64u_decode_encode bs : Forall byte_ok bs -> b64u_decode (b64u_encode bs) = Some bs.
Proof.
  intros F. unfold b64u_decode, b64u_encode. rewrite (map_opt_map _ (enc_sx_ok _ F)). apply dec_enc. exact F.
Qed.
Theorem b64u_encode_decode s bs : b64u_decode s = Some bs -> b64u_encode bs = s /\ Forall byte_ok bs.
Proof.
  unfold b64u_decode, b64u_encode. destruct (map_opt b64u_val s) as [ss|] eqn:M; [|discriminate].
  intros D. destruct (map_opt_inv _ _ M) as [A B]. destruct (enc_dec _ B _ D) as [E F]. split; [congruence|exact F].
Qed.
(* canonical form: two accepted texts never decode to the same bytes *)
Corollary b64u_decode_inj s1 s2 bs : b64u_decode s1 = Some bs -> b64u_decode s2 = Some bs -> s1 = s2.
Proof. intros H1 H2. destruct (b64u_encode_decode _ _ H1), (b64u_encode_decode _ _ H2). congruence. Qed.
(* the encoded text consists of alphabet characters only: in particular no dot, quote, backslash or control byte *)
Theorem b64u_encode_charset bs : Forall byte_ok bs -> forallb is_b64u_char (b64u_encode bs) = true.
Proof.
  intros F. unfold b64u_encode. pose proof (enc_sx_ok _ F) as S. induction S as [|x r Hx Hr IH]; cbn; [reflexivity|].
  unfold is_b64u_char at 1. rewrite (val_char _ Hx). exact IH.
Qed.
Lemma b64u_char_not_dot c : is_b64u_char c = true -> c <> 46.
Proof. intros H E. subst. discriminate. Qed.
