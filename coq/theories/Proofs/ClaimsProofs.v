(* Proofs about the credential / presentation <-> JWT claims model (C07). *)
From Coq Require Import List ZArith Bool Lia.
From IdV Require Import Core.Timestamp Cred.Claims.
Import ListNotations.
Open Scope Z_scope.

Lemma cu_get_none cu (reg : Z -> bool) n : forallb (fun kv => negb (reg (fst kv))) cu = true -> reg n = true -> cu_get cu n = None.
Proof. induction cu as [|[k v] r IH]; cbn [forallb cu_get fst]; intros H Hn; [reflexivity|].
  apply andb_true_iff in H. destruct H as [H1 H2]. destruct (k =? n) eqn:E; [|apply IH; assumption].
  apply Z.eqb_eq in E. subst k. rewrite Hn in H1. discriminate H1. Qed.
Lemma absorb_none field n cu : cu_get cu n = None -> absorb field n cu = Some (field, cu).
Proof. intros H. unfold absorb. rewrite H. reflexivity. Qed.

Lemma reparse_id k cu : custom_ok cu = true -> reparse k cu = Some (k, cu).
Proof. intros H. unfold reparse.
  rewrite (cu_get_none cu cred_registered N_ISS H eq_refl), (cu_get_none cu cred_registered N_VC H eq_refl).
  rewrite !absorb_none by (apply (cu_get_none cu cred_registered); [exact H|reflexivity]).
  destruct k; reflexivity. Qed.
Lemma from_to_claims c : cred_wf c = true -> from_claims (to_claims c) = ROk c.
Proof. unfold cred_wf. intros H. apply andb_true_iff in H. destruct H as [H1 H2].
  destruct c as [ctx id ty sid sp iss isd ex st sc rf tu ev nt pr pf]. cbn [c_issued c_expires] in H1, H2.
  unfold from_claims, check_consistency, to_claims, to_issuance_date; cbn -[ts_gate]. rewrite H1. cbn -[ts_gate].
  destruct ex as [e|]; [rewrite H2|]; reflexivity. Qed.
Theorem cred_roundtrip_ok c cu : cred_wf c = true -> custom_ok cu = true -> cred_roundtrip c cu = Some (ROk c, cu).
Proof. intros Hc Hu. unfold cred_roundtrip. rewrite (reparse_id _ _ Hu), (from_to_claims _ Hc). reflexivity. Qed.

Theorem registered_once c :
  let k := to_claims c in
  k_iss k = c_issuer c /\ k_sub k = c_sub_id c /\ k_jti k = c_id c /\ k_nbf k = Some (c_issued c) /\ k_iat k = None /\ k_exp k = c_expires c
  /\ i_issuer (k_vc k) = None /\ i_sub_id (k_vc k) = None /\ i_id (k_vc k) = None /\ i_issued (k_vc k) = None /\ i_expires (k_vc k) = None.
Proof. cbn. repeat split. Qed.

(* acceptance, characterised *)
Ltac brk H := match type of H with
  | context [if negb ?b then _ else _] => destruct b eqn:?; cbn [negb] in H; try discriminate H
  | context [match ?x with _ => _ end] => destruct x eqn:?; try discriminate H end.
Definition consistent (k : claims) (d : Z) : Prop :=
  (forall v, i_issuer (k_vc k) = Some v -> v = k_iss k)
  /\ (forall v, i_issued (k_vc k) = Some v -> v = d)
  /\ (forall v, i_expires (k_vc k) = Some v -> k_exp k = Some v)
  /\ (forall v, i_id (k_vc k) = Some v -> k_jti k = Some v)
  /\ (forall v, i_sub_id (k_vc k) = Some v -> k_sub k = Some v).
Lemma check_ok k : check_consistency k = ROk tt -> exists d, to_issuance_date (k_iat k) (k_nbf k) = ROk d /\ consistent k d.
Proof. unfold check_consistency. intros H.
  destruct (match i_issuer (k_vc k) with Some v => v =? k_iss k | None => true end) eqn:E1; cbn [negb] in H; [|discriminate H].
  destruct (to_issuance_date (k_iat k) (k_nbf k)) as [d|e] eqn:Ed; [|discriminate H].
  destruct (match i_issued (k_vc k) with Some v => v =? d | None => true end) eqn:E2; cbn [negb] in H; [|discriminate H].
  destruct (match i_expires (k_vc k) with Some v => match k_exp k with Some e => e =? v | None => false end | None => true end) eqn:E3; cbn [negb] in H; [|discriminate H].
  destruct (match i_id (k_vc k) with Some v => match k_jti k with Some j => j =? v | None => false end | None => true end) eqn:E4; cbn [negb] in H; [|discriminate H].
  exists d. split; [reflexivity|]. unfold consistent. repeat split; intros v Hv.
  - rewrite Hv in E1. apply Z.eqb_eq in E1. exact E1.
  - rewrite Hv in E2. apply Z.eqb_eq in E2. exact E2.
  - rewrite Hv in E3. destruct (k_exp k) as [e|]; [|discriminate E3]. apply Z.eqb_eq in E3. subst. reflexivity.
  - rewrite Hv in E4. destruct (k_jti k) as [j|]; [|discriminate E4]. apply Z.eqb_eq in E4. subst. reflexivity.
  - rewrite Hv in H. destruct (k_sub k) as [s0|]; [|discriminate H]. destruct (s0 =? v) eqn:E5; [|discriminate H]. apply Z.eqb_eq in E5. subst. reflexivity. Qed.
Lemma check_ok_conv k d : to_issuance_date (k_iat k) (k_nbf k) = ROk d -> consistent k d -> check_consistency k = ROk tt.
Proof. intros Ed [C1 [C2 [C3 [C4 C5]]]]. unfold check_consistency. rewrite Ed.
  destruct (i_issuer (k_vc k)) as [v|]; [rewrite (C1 v eq_refl), Z.eqb_refl|]; cbn [negb];
  (destruct (i_issued (k_vc k)) as [v2|]; [rewrite (C2 v2 eq_refl), Z.eqb_refl|]; cbn [negb];
   (destruct (i_expires (k_vc k)) as [v3|]; [rewrite (C3 v3 eq_refl), Z.eqb_refl|]; cbn [negb];
    (destruct (i_id (k_vc k)) as [v4|]; [rewrite (C4 v4 eq_refl), Z.eqb_refl|]; cbn [negb];
     (destruct (i_sub_id (k_vc k)) as [v5|]; [rewrite (C5 v5 eq_refl), Z.eqb_refl|]; reflexivity)))). Qed.
Lemma issuance_gate ia nb d : to_issuance_date ia nb = ROk d -> ts_gate d = true.
Proof. unfold to_issuance_date. destruct nb as [n|]; [destruct (ts_gate n) eqn:E; [intros H; injection H as <-; exact E|discriminate]|].
  destruct ia as [i|]; [|discriminate]. destruct (ts_gate i) eqn:E; [intros H; injection H as <-; exact E|discriminate]. Qed.
Definition rebuilt (k : claims) (d : Z) : cred :=
  let vc := k_vc k in
  {| c_ctx := i_ctx vc; c_id := k_jti k; c_types := i_types vc; c_sub_id := k_sub k; c_sub_props := i_sub_props vc;
     c_issuer := k_iss k; c_issued := d; c_expires := k_exp k; c_status := i_status vc; c_schema := i_schema vc;
     c_refresh := i_refresh vc; c_tou := i_tou vc; c_evidence := i_evidence vc; c_nontransf := i_nontransf vc;
     c_props := i_props vc; c_proof := i_proof vc |}.
(* from_claims accepts exactly the consistent claims sets whose used dates are in range, and returns the rebuilt credential *)
Theorem from_claims_ok_iff k c : from_claims k = ROk c <->
  exists d, to_issuance_date (k_iat k) (k_nbf k) = ROk d /\ consistent k d
            /\ (forall e, k_exp k = Some e -> ts_gate e = true) /\ c = rebuilt k d.
Proof. split.
  - unfold from_claims. destruct (check_consistency k) as [[]|e] eqn:Ec; [|discriminate].
    destruct (check_ok k Ec) as [d [Ed Hc]]. rewrite Ed.
    destruct (k_exp k) as [e|] eqn:Ee.
    + destruct (ts_gate e) eqn:Eg; [|discriminate]. intros H. injection H as <-. exists d. repeat split; try exact Ed; try apply Hc.
      * intros e' He'. injection He' as <-. exact Eg.
      * unfold rebuilt. rewrite Ee. reflexivity.
    + intros H. injection H as <-. exists d. repeat split; try exact Ed; try apply Hc.
      * intros e' He'. discriminate He'.
      * unfold rebuilt. rewrite Ee. reflexivity.
  - intros [d [Ed [Hc [Hg ->]]]]. unfold from_claims. rewrite (check_ok_conv k d Ed Hc), Ed.
    destruct (k_exp k) as [e|] eqn:Ee; [rewrite (Hg e eq_refl)|]; unfold rebuilt; rewrite Ee; reflexivity. Qed.

(* a value repeated inside vc that disagrees with its registered claim: rejected *)
Theorem inconsistent_rejected k :
  (exists v, i_issuer (k_vc k) = Some v /\ v <> k_iss k)
  \/ (exists v d, i_issued (k_vc k) = Some v /\ to_issuance_date (k_iat k) (k_nbf k) = ROk d /\ v <> d)
  \/ (exists v, i_expires (k_vc k) = Some v /\ k_exp k <> Some v)
  \/ (exists v, i_id (k_vc k) = Some v /\ k_jti k <> Some v)
  \/ (exists v, i_sub_id (k_vc k) = Some v /\ k_sub k <> Some v)
  -> exists e, from_claims k = RErr e.
Proof. intros H. destruct (from_claims k) as [c|e] eqn:E; [|exists e; reflexivity]. exfalso.
  apply from_claims_ok_iff in E. destruct E as [d [Ed [[C1 [C2 [C3 [C4 C5]]]] _]]].
  destruct H as [[v [A B]]|[[v [d' [A [B C]]]]|[[v [A B]]|[[v [A B]]|[v [A B]]]]]].
  - apply B. apply C1. exact A.
  - rewrite Ed in B. injection B as <-. apply C. apply C2. exact A.
  - apply B. apply C3. exact A.
  - apply B. apply C4. exact A.
  - apply B. apply C5. exact A. Qed.
(* a date the conversion uses (exp; nbf, or iat when nbf is absent) outside years 0000-9999, or no issuance date: rejected *)
Theorem range_rejected k :
  (exists e, k_exp k = Some e /\ ts_gate e = false)
  \/ (exists n, k_nbf k = Some n /\ ts_gate n = false)
  \/ (k_nbf k = None /\ (k_iat k = None \/ exists i, k_iat k = Some i /\ ts_gate i = false))
  -> exists e, from_claims k = RErr e.
Proof. intros H. destruct (from_claims k) as [c|e] eqn:E; [|exists e; reflexivity]. exfalso.
  apply from_claims_ok_iff in E. destruct E as [d [Ed [_ [Hg _]]]].
  destruct H as [[e [A B]]|[[n [A B]]|[A B]]].
  - rewrite (Hg e A) in B. discriminate B.
  - unfold to_issuance_date in Ed. rewrite A, B in Ed. discriminate Ed.
  - unfold to_issuance_date in Ed. rewrite A in Ed. destruct B as [B|[i [B C]]]; rewrite B in Ed; [discriminate Ed|]. rewrite C in Ed. discriminate Ed. Qed.
Theorem nbf_over_iat ia ia' n : to_issuance_date ia (Some n) = to_issuance_date ia' (Some n).
Proof. reflexivity. Qed.

(* a custom claim carrying a registered name is absorbed by the typed record when the credential leaves that
   member empty: the decoded credential differs (known finding K_custom_registered) *)
Definition ex_cred : cred :=
  {| c_ctx := 0; c_id := None; c_types := 0; c_sub_id := None; c_sub_props := 0; c_issuer := 1; c_issued := 1000; c_expires := None;
     c_status := None; c_schema := 0; c_refresh := 0; c_tou := 0; c_evidence := 0; c_nontransf := None; c_props := 0; c_proof := None |}.
Theorem custom_registered_refuted :
  cred_wf ex_cred = true /\ exists c', cred_roundtrip ex_cred [(N_EXP, 2000)] = Some (ROk c', []) /\ c' <> ex_cred.
Proof. split; [vm_compute; reflexivity|]. eexists. split; [vm_compute; reflexivity|]. intros H. discriminate H. Qed.
(* ... and is rejected when the credential has that member *)
Lemma cu_get_del cu n m : n <> m -> cu_get (cu_del cu n) m = cu_get cu m.
Proof. intros Hn. induction cu as [|[k v] r IH]; [reflexivity|]. unfold cu_del in *. cbn [filter fst cu_get].
  destruct (k =? n) eqn:E; cbn [negb].
  - apply Z.eqb_eq in E. subst k. destruct (n =? m) eqn:E2; [apply Z.eqb_eq in E2; contradiction|exact IH].
  - cbn [cu_get]. destruct (k =? m); [reflexivity|exact IH]. Qed.
Lemma absorb_get field n cu f' cu' m : absorb field n cu = Some (f', cu') -> n <> m -> cu_get cu' m = cu_get cu m.
Proof. unfold absorb. destruct (cu_get cu n) as [v|]; [destruct field; [discriminate|]|]; intros H Hn; injection H as <- <-; [apply cu_get_del; exact Hn|reflexivity]. Qed.
Theorem custom_duplicate_rejected c cu v :
  cu_get cu N_ISS = Some v \/ cu_get cu N_VC = Some v \/ cu_get cu N_NBF = Some v \/ (cu_get cu N_EXP = Some v /\ c_expires c <> None) ->
  cred_roundtrip c cu = None.
Proof. intros H. unfold cred_roundtrip.
  assert (R : reparse (to_claims c) cu = None); [|rewrite R; reflexivity]. unfold reparse.
  destruct (cu_get cu N_ISS) eqn:E1; [reflexivity|]. destruct (cu_get cu N_VC) eqn:E2; [reflexivity|].
  destruct H as [H|[H|[H|[H Hx]]]]; try discriminate H.
  - destruct (absorb (k_exp (to_claims c)) N_EXP cu) as [[e cu1]|] eqn:A1; [|reflexivity].
    destruct (absorb (k_iat (to_claims c)) N_IAT cu1) as [[ia cu2]|] eqn:A2; [|reflexivity].
    assert (G : cu_get cu2 N_NBF = Some v).
    { rewrite (absorb_get _ _ _ _ _ N_NBF A2) by discriminate. rewrite (absorb_get _ _ _ _ _ N_NBF A1) by discriminate. exact H. }
    unfold absorb at 1. rewrite G. reflexivity.
  - unfold absorb at 1. rewrite H. cbn [to_claims k_exp]. destruct (c_expires c); [reflexivity|contradiction]. Qed.

(* ---------------- presentations ---------------- *)
Lemma preparse_id k cu : pcustom_ok cu = true -> preparse k cu = Some (k, cu).
Proof. intros H. unfold preparse.
  rewrite (cu_get_none cu pres_registered N_ISS H eq_refl), (cu_get_none cu pres_registered N_VP H eq_refl).
  unfold absorb_issuance.
  rewrite !absorb_none by (apply (cu_get_none cu pres_registered); [exact H|reflexivity]).
  destruct k; reflexivity. Qed.
Theorem pres_roundtrip_ok p o cu : popts_wf o = true -> pcustom_ok cu = true ->
  pres_roundtrip p o cu = Some (ROk {| d_pres := p; d_expires := o_expires o; d_issued := o_issued o; d_aud := o_aud o |}, cu).
Proof. intros Ho Hu. unfold pres_roundtrip. rewrite (preparse_id _ _ Hu). f_equal. f_equal.
  unfold popts_wf in Ho. apply andb_true_iff in Ho. destruct Ho as [H1 H2].
  destruct p as [ctx id ty vcs h rf tu pr pf]. destruct o as [ex isd au]. cbn [o_expires o_issued] in H1, H2.
  unfold from_pclaims, to_pclaims, pcheck, to_issuance_date; cbn -[ts_gate].
  destruct ex as [e|]; [rewrite H1|]; (destruct isd as [i|]; [rewrite H2|]); reflexivity. Qed.
Theorem pres_inconsistent_rejected k :
  (exists v, pi_id (pk_vp k) = Some v /\ pk_jti k <> Some v) \/ (exists v, pi_holder (pk_vp k) = Some v /\ pk_iss k <> v)
  -> exists e, from_pclaims k = RErr e.
Proof. intros H. unfold from_pclaims.
  destruct (match pk_exp k with Some e => if ts_gate e then ROk (Some e) else RErr PTimestamp | None => ROk None end) as [ex|e]; [|exists e; reflexivity].
  destruct (match pk_iat k, pk_nbf k with None, None => ROk None | ia, nb => match to_issuance_date ia nb with ROk d => ROk (Some d) | RErr _ => RErr PTimestamp end end) as [isd|e]; [|exists e; reflexivity].
  unfold pcheck. destruct H as [[v [A B]]|[v [A B]]].
  - rewrite A. destruct (pk_jti k) as [j|]; [|eexists; reflexivity]. destruct (j =? v) eqn:E; [apply Z.eqb_eq in E; subst; contradiction|eexists; reflexivity].
  - rewrite A. destruct (match pi_id (pk_vp k) with Some v0 => match pk_jti k with Some j => j =? v0 | None => false end | None => true end); cbn [negb]; [|eexists; reflexivity].
    destruct (pk_iss k =? v) eqn:E; [apply Z.eqb_eq in E; contradiction|eexists; reflexivity]. Qed.
Theorem pres_range_rejected k :
  (exists e, pk_exp k = Some e /\ ts_gate e = false) \/ (exists n, pk_nbf k = Some n /\ ts_gate n = false)
  \/ (pk_nbf k = None /\ exists i, pk_iat k = Some i /\ ts_gate i = false)
  -> exists e, from_pclaims k = RErr e.
Proof. intros H. unfold from_pclaims. destruct H as [[e [A B]]|[[n [A B]]|[A [i [B C]]]]].
  - rewrite A, B. eexists; reflexivity.
  - destruct (match pk_exp k with Some e => if ts_gate e then ROk (Some e) else RErr PTimestamp | None => ROk None end) as [ex|e]; [|exists e; reflexivity].
    rewrite A. unfold to_issuance_date. rewrite B. destruct (pk_iat k); eexists; reflexivity.
  - destruct (match pk_exp k with Some e => if ts_gate e then ROk (Some e) else RErr PTimestamp | None => ROk None end) as [ex|e]; [|exists e; reflexivity].
    rewrite A, B. unfold to_issuance_date. rewrite C. eexists; reflexivity. Qed.
Theorem from_pclaims_ok k d : from_pclaims k = ROk d ->
  p_holder (d_pres d) = pk_iss k /\ p_id (d_pres d) = pk_jti k /\ d_expires d = pk_exp k /\ d_aud d = pk_aud k
  /\ (forall v, pi_id (pk_vp k) = Some v -> pk_jti k = Some v) /\ (forall v, pi_holder (pk_vp k) = Some v -> pk_iss k = v)
  /\ (forall e, pk_exp k = Some e -> ts_gate e = true) /\ (forall t, d_issued d = Some t -> ts_gate t = true /\ to_issuance_date (pk_iat k) (pk_nbf k) = ROk t)
  /\ p_ctx (d_pres d) = pi_ctx (pk_vp k) /\ p_types (d_pres d) = pi_types (pk_vp k) /\ p_vcs (d_pres d) = pi_vcs (pk_vp k)
  /\ p_refresh (d_pres d) = pi_refresh (pk_vp k) /\ p_tou (d_pres d) = pi_tou (pk_vp k) /\ p_props (d_pres d) = pi_props (pk_vp k) /\ p_proof (d_pres d) = pi_proof (pk_vp k).
Proof. intros H. destruct (from_pclaims k) as [d0|e] eqn:E; [|discriminate H]. injection H as ->.
  assert (NI : forall v, pi_id (pk_vp k) = Some v -> pk_jti k = Some v).
  { intros v Hv. destruct (Z.eq_dec 0 0) as [_|]; [|lia]. destruct (pk_jti k) as [j|] eqn:Ej.
    - destruct (Z.eq_dec j v) as [->|N]; [reflexivity|]. destruct (pres_inconsistent_rejected k) as [e He]; [left; exists v; split; [exact Hv|rewrite Ej; congruence]|]. rewrite He in E. discriminate E.
    - destruct (pres_inconsistent_rejected k) as [e He]; [left; exists v; split; [exact Hv|rewrite Ej; discriminate]|]. rewrite He in E. discriminate E. }
  assert (NH : forall v, pi_holder (pk_vp k) = Some v -> pk_iss k = v).
  { intros v Hv. destruct (Z.eq_dec (pk_iss k) v) as [->|N]; [reflexivity|]. destruct (pres_inconsistent_rejected k) as [e He]; [right; exists v; split; assumption|]. rewrite He in E. discriminate E. }
  unfold from_pclaims in E.
  destruct (pk_exp k) as [ex|] eqn:Ex.
  - destruct (ts_gate ex) eqn:Eg; [|discriminate E].
    destruct (match pk_iat k, pk_nbf k with None, None => ROk None | ia, nb => match to_issuance_date ia nb with ROk d => ROk (Some d) | RErr _ => RErr PTimestamp end end) as [isd|e] eqn:Ei; [|discriminate E].
    destruct (pcheck k); [|discriminate E]. injection E as <-. cbn. repeat split; try assumption.
    + intros e He. injection He as <-. exact Eg.
    + destruct (pk_iat k) as [i|]; destruct (pk_nbf k) as [n|]; try (destruct (to_issuance_date _ _) as [t'|] eqn:Et; [|discriminate Ei]; injection Ei as <-; injection H as <-; apply (issuance_gate _ _ _ Et)).
      injection Ei as <-. discriminate H.
    + destruct (pk_iat k) as [i|]; destruct (pk_nbf k) as [n|]; try (destruct (to_issuance_date _ _) as [t'|] eqn:Et; [|discriminate Ei]; injection Ei as <-; injection H as <-; reflexivity).
      injection Ei as <-. discriminate H.
  - destruct (match pk_iat k, pk_nbf k with None, None => ROk None | ia, nb => match to_issuance_date ia nb with ROk d => ROk (Some d) | RErr _ => RErr PTimestamp end end) as [isd|e] eqn:Ei; [|discriminate E].
    destruct (pcheck k); [|discriminate E]. injection E as <-. cbn. repeat split; try assumption.
    + intros e He. discriminate He.
    + destruct (pk_iat k) as [i|]; destruct (pk_nbf k) as [n|]; try (destruct (to_issuance_date _ _) as [t'|] eqn:Et; [|discriminate Ei]; injection Ei as <-; injection H as <-; apply (issuance_gate _ _ _ Et)).
      injection Ei as <-. discriminate H.
    + destruct (pk_iat k) as [i|]; destruct (pk_nbf k) as [n|]; try (destruct (to_issuance_date _ _) as [t'|] eqn:Et; [|discriminate Ei]; injection Ei as <-; injection H as <-; reflexivity).
      injection Ei as <-. discriminate H. Qed.
