From Coq Require Import List NArith ZArith Bool Lia.
From IdV Require Import Cred.BitmapStatus.
Import ListNotations.
Open Scope N_scope.
Ltac Zify.zify_post_hook ::= Z.to_euclidean_division_equations.

Definition dv (acc : N) (l : list N) : N := fold_left (fun a c => a * 10 + (c - 48)) l acc.
Lemma dv_ge l : forall acc, acc <= dv acc l.
Proof. induction l as [|c r IH]; intros acc; cbn [dv fold_left]; [lia|]. specialize (IH (acc * 10 + (c - 48))). unfold dv in IH. lia. Qed.
Lemma digits_val_ok l : forall acc, forallb is_digit l = true -> dv acc l <= U32_MAX -> digits_val acc l = Some (dv acc l).
Proof. induction l as [|c r IH]; intros acc D H; cbn [digits_val dv fold_left]; [reflexivity|]. cbn [forallb] in D. apply andb_true_iff in D. destruct D as [Dc Dr].
  rewrite Dc. cbn [dv fold_left] in H. pose proof (dv_ge r (acc * 10 + (c - 48))) as G. unfold dv in *.
  replace (acc * 10 + (c - 48) <=? U32_MAX) with true by (symmetry; apply N.leb_le; lia). apply IH; assumption. Qed.
Lemma digits_val_range l : forall acc n, acc <= U32_MAX -> digits_val acc l = Some n -> n <= U32_MAX.
Proof. induction l as [|c r IH]; intros acc n Ha; cbn [digits_val]; [intros H; injection H as <-; exact Ha|].
  destruct (is_digit c); [|discriminate]. destruct (acc * 10 + (c - 48) <=? U32_MAX) eqn:E; [|discriminate]. apply N.leb_le in E. apply IH. exact E. Qed.
Theorem parse_u32_range s n : parse_u32 s = Some n -> n < 4294967296.
Proof. unfold parse_u32. destruct s as [|c r]; [discriminate|]. assert (Z0 : 0 <= U32_MAX) by (unfold U32_MAX; lia).
  destruct (c =? 43); [destruct r as [|d t]; [discriminate|]|]; intros H; apply digits_val_range in H; try exact Z0; unfold U32_MAX in H; lia. Qed.

Fixpoint pow10 (f : nat) : N := match f with O => 1 | S g => 10 * pow10 g end.
Lemma digits_rev_spec f : forall n, n < pow10 f -> f <> O -> forallb is_digit (rev (digits_rev f n)) = true /\ dv 0 (rev (digits_rev f n)) = n /\ digits_rev f n <> [] /\ (forall c, In c (digits_rev f n) -> c <> 43).
Proof. induction f as [|g IH]; intros n H Hf; [congruence|]. clear Hf. cbn [digits_rev]. cbn [pow10] in H. destruct (n <? 10) eqn:E.
  - apply N.ltb_lt in E. cbn [rev app forallb]. unfold is_digit, dv. cbn [fold_left]. repeat split.
    + rewrite andb_true_r. apply andb_true_intro. split; apply N.leb_le; lia.
    + lia.
    + discriminate.
    + intros c [<-|[]]. lia.
  - apply N.ltb_ge in E. assert (Hq : n / 10 < pow10 g) by lia. assert (Hg : g <> O) by (intros ->; cbn [pow10] in Hq; lia). destruct (IH _ Hq Hg) as [D [V [Ne Np]]]. cbn [rev]. repeat split.
    + rewrite forallb_app. rewrite D. cbn [forallb andb]. rewrite andb_true_r. unfold is_digit. apply andb_true_intro. split; apply N.leb_le; lia.
    + unfold dv in *. rewrite fold_left_app. rewrite V. cbn [fold_left]. lia.
    + discriminate.
    + intros c [<-|Hc]; [lia|apply Np; exact Hc]. Qed.
(* u32::to_string then u32::from_str is the identity *)
Lemma parse_print_gen f n : n < pow10 f -> f <> O -> n <= U32_MAX -> parse_u32 (rev (digits_rev f n)) = Some n.
Proof. intros Hp Hf Hm. destruct (digits_rev_spec f n Hp Hf) as [D [V [Ne Np]]].
  unfold parse_u32. destruct (rev (digits_rev f n)) as [|c r] eqn:E.
  - exfalso. apply Ne. apply (f_equal (@rev N)) in E. rewrite rev_involutive in E. exact E.
  - assert (Hc : c <> 43). { apply Np. apply in_rev. rewrite E. left. reflexivity. }
    replace (c =? 43) with false by (symmetry; apply N.eqb_neq; exact Hc).
    rewrite (digits_val_ok _ 0 D); [rewrite V; reflexivity|rewrite V; exact Hm]. Qed.
Lemma pow10_10 : pow10 10 = 10000000000.
Proof. vm_compute. reflexivity. Qed.
Theorem parse_print n : n < 4294967296 -> parse_u32 (print_u32 n) = Some n.
Proof. intros H. unfold print_u32. apply parse_print_gen; [rewrite pow10_10; lia|discriminate|unfold U32_MAX; lia]. Qed.

(* try_from accepts exactly: the type, a string property that reads as a u32, every index query value reading as the same number *)
Theorem status_try_from_spec st n : status_try_from st = Some n <->
  bst_type_ok st = true /\ exists s, bst_prop st = IpStr s /\ parse_u32 s = Some n /\ forall v, In v (bst_query_index st) -> parse_u32 v = Some n.
Proof. unfold status_try_from. destruct (bst_type_ok st); cbn [negb]; [|split; [discriminate|intros [H _]; discriminate]].
  destruct (bst_prop st) as [| |s]; try (split; [discriminate|intros [_ [s' [H _]]]; discriminate]).
  destruct (parse_u32 s) as [m|] eqn:P.
  - destruct (forallb _ (bst_query_index st)) eqn:F.
    + split.
      * intros H. injection H as <-. split; [reflexivity|]. exists s. repeat split; [exact P|]. intros v Hv. rewrite forallb_forall in F. specialize (F v Hv).
        destruct (parse_u32 v) as [k|]; [|discriminate]. apply N.eqb_eq in F. subst. reflexivity.
      * intros [_ [s' [E [P' _]]]]. injection E as <-. congruence.
    + split; [discriminate|]. intros [_ [s' [E [P' Q]]]]. injection E as <-. assert (m = n) by congruence. subst m. exfalso.
      assert (forallb (fun v => match parse_u32 v with Some k => k =? n | None => false end) (bst_query_index st) = true).
      { apply forallb_forall. intros v Hv. rewrite (Q v Hv). apply N.eqb_refl. } congruence.
  - split; [discriminate|]. intros [_ [s' [E [P' _]]]]. injection E as <-. congruence. Qed.
Theorem status_new_accepted n : n < 4294967296 -> status_try_from (status_new n) = Some n.
Proof. intros H. apply status_try_from_spec. split; [reflexivity|]. exists (print_u32 n). repeat split; [apply parse_print; exact H|]. intros v [<-|[]]. apply parse_print. exact H. Qed.
(* C06, third clause: with a status entry that is accepted and whose id is a DID URL, the check reports revoked exactly when the index is a member *)
Theorem status_check_revoked_iff st bm n : status_try_from st = Some n ->
  (status_check st true bm = 1 <-> In n bm) /\ (status_check st true bm = 0 <-> ~ In n bm).
Proof. intros H. unfold status_check. rewrite H. cbn [negb]. destruct (existsb (N.eqb n) bm) eqn:E.
  - apply existsb_exists in E. destruct E as [x [Hx Ex]]. apply N.eqb_eq in Ex. subst x. split; split; intros K; try reflexivity; try exact Hx; try discriminate; try contradiction.
  - assert (Hn : ~ In n bm). { intros Hi. assert (existsb (N.eqb n) bm = true) by (apply existsb_exists; exists n; split; [exact Hi|apply N.eqb_refl]). congruence. }
    split; split; intros K; try reflexivity; try exact Hn; try discriminate; try contradiction. Qed.
Theorem status_check_invalid st id_ok bm : status_try_from st = None \/ id_ok = false -> status_check st id_ok bm = 2.
Proof. unfold status_check. intros [H| ->]; [rewrite H; reflexivity|]. destruct (status_try_from st); reflexivity. Qed.
(* what u32::from_str takes and refuses *)
Example parse_examples :
  parse_u32 [53] = Some 5 /\ parse_u32 [43; 53] = Some 5 /\ parse_u32 [48; 48; 53] = Some 5 /\ parse_u32 [] = None /\ parse_u32 [43] = None
  /\ parse_u32 [45; 48] = None /\ parse_u32 [32; 53] = None /\ parse_u32 [52;50;57;52;57;54;55;50;57;53] = Some 4294967295
  /\ parse_u32 [52;50;57;52;57;54;55;50;57;54] = None /\ parse_u32 [43; 43; 53] = None.
Proof. vm_compute. repeat split. Qed.
