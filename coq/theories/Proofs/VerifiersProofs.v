From Coq Require Import List NArith Bool Arith.
From IdV Require Import Lib.Base64 Jose.Jwk Jose.Verifiers.
Import ListNotations.
Open Scope N_scope.

Section P.
  Variable ed_point_ok : list N -> bool.
  Variable ed_verify : list N -> list N -> list N -> bool.
  Variable ec_point_ok : bool -> list N -> bool.
  Variable ec_sig_ok : bool -> list N -> bool.
  Variable ec_verify : bool -> list N -> list N -> list N -> bool.

  Lemma bytes_eqb_eq a b : bytes_eqb a b = true <-> a = b.
  Proof. unfold bytes_eqb. destruct (list_eq_dec N.eq_dec a b) as [E|E]; split; intros H; [exact E|reflexivity|discriminate H|contradiction]. Qed.

  (* the EdDSA verifier answers Ok exactly when: the header says EdDSA, the key is an OKP key on Ed25519 whose x decodes to a valid
     32-byte point, the signature AS RECEIVED has exactly 64 bytes, and the primitive accepts exactly those bytes over exactly that message *)
  Theorem eddsa_ok_iff a k sg msg :
    eddsa_jws_verify ed_point_ok ed_verify a k sg msg = None <->
    a = AEdDSA /\ vk_family k = KOkp /\ vk_crv k = ED25519
    /\ exists pk, b64u_decode (vk_x k) = Some pk /\ length pk = 32%nat /\ ed_point_ok pk = true
       /\ length sg = 64%nat /\ ed_verify pk sg msg = true.
  Proof.
    unfold eddsa_jws_verify, ed25519_verify. split.
    - destruct a; try discriminate. destruct (vk_family k); try discriminate.
      destruct (bytes_eqb (vk_crv k) ED25519) eqn:C; cbn [negb]; [|discriminate]. apply bytes_eqb_eq in C.
      destruct (b64u_decode (vk_x k)) as [pk|]; [|discriminate].
      destruct (Nat.eqb (length pk) 32) eqn:L; cbn [negb]; [|discriminate]. destruct (ed_point_ok pk) eqn:P; cbn [negb]; [|discriminate].
      destruct (Nat.eqb (length sg) 64) eqn:S; cbn [negb]; [|discriminate]. destruct (ed_verify pk sg msg) eqn:V; [|discriminate].
      intros _. repeat split; auto. exists pk. apply Nat.eqb_eq in L, S. repeat split; auto.
    - intros [-> [F [C [pk [D [L [P [S V]]]]]]]]. rewrite F, C, D. replace (bytes_eqb ED25519 ED25519) with true by reflexivity. cbn [negb].
      rewrite L, P, S, V. reflexivity.
  Qed.
  (* hence a signature of any other length is never verified, whatever the primitive would say about a part of it *)
  Corollary eddsa_length_exact a k sg msg : length sg <> 64%nat -> eddsa_jws_verify ed_point_ok ed_verify a k sg msg <> None.
  Proof. intros H E. apply eddsa_ok_iff in E. destruct E as [_ [_ [_ [pk [_ [_ [_ [S _]]]]]]]]. contradiction. Qed.

  Theorem ecdsa_ok_iff a k sg msg :
    ecdsa_jws_verify ec_point_ok ec_sig_ok ec_verify a k sg msg = None <->
    exists k1 : bool, a = (if k1 then AES256K else AES256) /\ vk_family k = KEc
    /\ exists x y, b64u_decode (vk_x k) = Some x /\ b64u_decode (vk_y k) = Some y /\ length x = 32%nat /\ length y = 32%nat
       /\ ec_point_ok k1 (x ++ y) = true /\ length sg = 64%nat /\ ec_sig_ok k1 sg = true /\ ec_verify k1 (x ++ y) sg msg = true.
  Proof.
    unfold ecdsa_jws_verify. split.
    - assert (G : forall k1, ecdsa_verify ec_point_ok ec_sig_ok ec_verify k1 k sg msg = None ->
        vk_family k = KEc /\ exists x y, b64u_decode (vk_x k) = Some x /\ b64u_decode (vk_y k) = Some y /\ length x = 32%nat /\ length y = 32%nat
          /\ ec_point_ok k1 (x ++ y) = true /\ length sg = 64%nat /\ ec_sig_ok k1 sg = true /\ ec_verify k1 (x ++ y) sg msg = true).
      { intros k1. unfold ecdsa_verify. destruct (vk_family k); try discriminate.
        destruct (b64u_decode (vk_x k)) as [x|]; [|discriminate]. destruct (b64u_decode (vk_y k)) as [y|]; [|discriminate].
        destruct (Nat.eqb (length x) 32 && Nat.eqb (length y) 32) eqn:L; cbn [negb]; [|discriminate]. apply andb_prop in L as [Lx Ly]. apply Nat.eqb_eq in Lx, Ly.
        destruct (ec_point_ok k1 (x ++ y)) eqn:P; cbn [negb]; [|discriminate]. destruct (Nat.eqb (length sg) 64) eqn:S; cbn [negb]; [|discriminate]. apply Nat.eqb_eq in S.
        destruct (ec_sig_ok k1 sg) eqn:Q; cbn [negb]; [|discriminate]. destruct (ec_verify k1 (x ++ y) sg msg) eqn:V; [|discriminate].
        intros _. split; [reflexivity|]. exists x, y. repeat split; auto. }
      destruct a; try discriminate; intros H; [exists false|exists true]; (split; [reflexivity|]); apply G; exact H.
    - intros [k1 [-> [F [x [y [Dx [Dy [Lx [Ly [P [S [Q V]]]]]]]]]]]].
      assert (ecdsa_verify ec_point_ok ec_sig_ok ec_verify k1 k sg msg = None) as E.
      { unfold ecdsa_verify. rewrite F, Dx, Dy, Lx, Ly, P, S, Q, V. reflexivity. }
      destruct k1; exact E.
  Qed.
End P.

(* ---- the decoder and the shipped verifier together: a token reported verified by JwsValidationItem::verify with the EdDSA verifier (the
   ECDSA verifier) carries a signature segment that decodes to EXACTLY 64 bytes which the primitive accepts over EXACTLY the received
   signing input, under the key's own coordinates ---- *)
From Coq Require Import ZArith.
From IdV Require Import Lib.Outcome Jose.Header Jose.Jws Proofs.JwsProofs.
Definition valg_of (a : Z) : valg := if Z.eqb a 1 then AEdDSA else if Z.eqb a 2 then AES256 else if Z.eqb a 3 then AES256K else AOther.
Section Composed.
  Variable H : Type.
  Variable halg : H -> option Z.
  Variable ed_point_ok : list N -> bool.
  Variable ed_verify : list N -> list N -> list N -> bool.
  Variable ec_point_ok : bool -> list N -> bool.
  Variable ec_sig_ok : bool -> list N -> bool.
  Variable ec_verify : bool -> list N -> list N -> list N -> bool.
  Definition V_eddsa (k : vkey) (a : Z) (si sg : list N) : bool :=
    match eddsa_jws_verify ed_point_ok ed_verify (valg_of a) k sg si with None => true | Some _ => false end.
  Definition V_ecdsa (k : vkey) (a : Z) (si sg : list N) : bool :=
    match ecdsa_jws_verify ec_point_ok ec_sig_ok ec_verify (valg_of a) k sg si with None => true | Some _ => false end.
  Theorem verified_by_eddsa it kalg d k : verify H halg (V_eddsa k) it kalg = Ok d ->
    d = it /\ vk_family k = KOkp /\ vk_crv k = ED25519
    /\ exists pk, b64u_decode (vk_x k) = Some pk /\ length pk = 32%nat /\ ed_point_ok pk = true
       /\ length (it_sig H it) = 64%nat /\ ed_verify pk (it_sig H it) (it_si H it) = true.
  Proof.
    intros E. destruct (verify_sound H halg (V_eddsa k) it kalg d E) as [-> [h [a [_ [_ [_ Hv]]]]]]. split; [reflexivity|].
    unfold V_eddsa in Hv. destruct (eddsa_jws_verify ed_point_ok ed_verify (valg_of a) k (it_sig H it) (it_si H it)) eqn:R; [discriminate|].
    apply eddsa_ok_iff in R. destruct R as [_ [F [C [pk [D [L [P [S V]]]]]]]]. split; [exact F|]. split; [exact C|]. exists pk. repeat split; assumption.
  Qed.
  Theorem verified_by_ecdsa it kalg d k : verify H halg (V_ecdsa k) it kalg = Ok d ->
    d = it /\ vk_family k = KEc
    /\ exists (k1 : bool) x y, b64u_decode (vk_x k) = Some x /\ b64u_decode (vk_y k) = Some y /\ length x = 32%nat /\ length y = 32%nat
       /\ ec_point_ok k1 (x ++ y) = true /\ length (it_sig H it) = 64%nat /\ ec_sig_ok k1 (it_sig H it) = true
       /\ ec_verify k1 (x ++ y) (it_sig H it) (it_si H it) = true.
  Proof.
    intros E. destruct (verify_sound H halg (V_ecdsa k) it kalg d E) as [-> [h [a [_ [_ [_ Hv]]]]]]. split; [reflexivity|].
    unfold V_ecdsa in Hv. destruct (ecdsa_jws_verify ec_point_ok ec_sig_ok ec_verify (valg_of a) k (it_sig H it) (it_si H it)) eqn:R; [discriminate|].
    apply ecdsa_ok_iff in R. destruct R as [k1 [_ [F [x [y [Dx [Dy [Lx [Ly [P [S [Q V]]]]]]]]]]]]. split; [exact F|]. exists k1, x, y. repeat split; assumption.
  Qed.
End Composed.
