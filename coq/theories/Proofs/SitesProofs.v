From Coq Require Import List NArith Bool Lia Arith.
From IdV Require Import Lib.Outcome Lib.Base64 Cred.Bitmap Panic.Sites.
Import ListNotations.
Open Scope N_scope.

Theorem integrity_accessors_never_panic s v : integrity_parse s = Some v ->
  im_alg v <> Panic /\ im_digest v <> Panic /\ im_digest_bytes v <> Panic.
Proof. unfold integrity_parse. destruct (split_dash s) as [[a rest]|] eqn:E; [|discriminate].
  destruct (digest_ok (first_piece rest)) eqn:D; [|discriminate]. intros H. injection H as <-.
  unfold im_alg, im_digest_bytes, im_digest. rewrite E. repeat split; try discriminate.
  unfold digest_ok in D. destruct (b64s_decode (first_piece rest)); [discriminate|discriminate D]. Qed.
(* the variant that also accepts '='-padded digests (or any other digest the accessor cannot decode) does panic *)
Definition integrity_parse_lenient (s : list N) : option (list N) := match split_dash s with None => None | Some _ => Some s end.
Theorem lenient_parse_panics : exists s v, integrity_parse_lenient s = Some v /\ im_digest_bytes v = Panic.
Proof. exists [97; 45; 65; 61], [97; 45; 65; 61]. split; vm_compute; reflexivity. Qed.

(* ---------- MethodDigest ---------- *)
Lemma from_le_bytes n : forall v, v < 256 ^ N.of_nat n -> from_le (le_bytes n v) = v.
Proof. induction n as [|m IH]; intros v H; cbn [le_bytes from_le].
  - cbn in H. lia.
  - rewrite Nat2N.inj_succ, N.pow_succ_r' in H. rewrite IH; [|apply N.div_lt_upper_bound; lia]. pose proof (N.div_mod v 256). lia. Qed.
Lemma le_bytes_length n : forall v, length (le_bytes n v) = n.
Proof. induction n as [|m IH]; intros v; cbn [le_bytes length]; [reflexivity|]. rewrite IH. reflexivity. Qed.
Theorem md_unpack_never_panics bytes : md_unpack true bytes <> Panic.
Proof. unfold md_unpack. cbn [andb]. destruct (Nat.eqb (length bytes) 9) eqn:E; cbn [negb]; [|discriminate].
  apply Nat.eqb_eq in E. destruct bytes as [|b0 r]; [discriminate E|]. unfold idx. cbn [nth_error]. destruct (negb (b0 =? 0)); [discriminate|].
  unfold slice. rewrite E. cbn [Nat.ltb Nat.leb]. destruct (Nat.eqb _ 8); discriminate. Qed.
Theorem md_unpack_pack d : md_version d = 0 -> md_value d < 18446744073709551616 -> md_unpack true (md_pack d) = Ok d.
Proof. intros Hv Hm. unfold md_unpack, md_pack. cbn [length]. rewrite le_bytes_length. cbn [Nat.eqb negb andb]. unfold idx. cbn [nth_error]. rewrite Hv. cbn [N.eqb negb].
  unfold slice. cbn [length]. rewrite le_bytes_length. cbn [Nat.ltb Nat.leb Nat.sub skipn].
  pose proof (firstn_all (le_bytes 8 (md_value d))) as F. rewrite le_bytes_length in F. rewrite F.
  rewrite le_bytes_length. cbn [Nat.eqb]. rewrite from_le_bytes; [destruct d; cbn in *; subst; reflexivity|]. cbn. exact Hm. Qed.
Theorem md_unpack_accepts_only_packed bytes d : md_unpack true bytes = Ok d -> Forall (fun b => b < 256) bytes -> md_version d = 0 /\ length bytes = 9%nat /\ md_value d < 18446744073709551616.
Proof. unfold md_unpack. cbn [andb]. destruct (Nat.eqb (length bytes) 9) eqn:E; cbn [negb]; [|discriminate]. apply Nat.eqb_eq in E.
  destruct bytes as [|b0 [|b1 [|b2 [|b3 [|b4 [|b5 [|b6 [|b7 [|b8 [|b9 r]]]]]]]]]]; try discriminate E. unfold idx. cbn [nth_error].
  destruct (b0 =? 0) eqn:B; cbn [negb]; [|discriminate]. apply N.eqb_eq in B. unfold slice. cbn [length Nat.ltb Nat.leb Nat.sub skipn firstn Nat.eqb]. intros H F.
  assert (Hd : d = {| md_version := b0; md_value := from_le [b1; b2; b3; b4; b5; b6; b7; b8] |}) by congruence. subst d. cbn [md_version md_value from_le].
  repeat match goal with H : Forall _ (_ :: _) |- _ => inversion H; subst; clear H end. split; [reflexivity|]. split; [reflexivity|]. lia. Qed.
(* without the length test the indexing panics on short input *)
Theorem md_unpack_unguarded_panics : md_unpack false [] = Panic /\ md_unpack false [0; 1; 2] = Panic.
Proof. split; reflexivity. Qed.
