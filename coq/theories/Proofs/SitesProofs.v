From Coq Require Import List NArith Bool.
From IdV Require Import Lib.Outcome Lib.Base64 Cred.Bitmap Panic.Sites.
Import ListNotations.
Open Scope N_scope.

Theorem integrity_accessors_never_panic s v : integrity_parse s = Some v ->
  im_alg v <> Panic /\ im_digest v <> Panic /\ im_digest_bytes v <> Panic.
Proof. unfold integrity_parse. destruct (split_dash s) as [[a rest]|] eqn:E; [|discriminate].
  destruct (digest_ok (first_piece rest)) eqn:D; [|discriminate]. intros H. injection H as <-.
  unfold im_alg, im_digest_bytes, im_digest. rewrite E. repeat split; try discriminate.
  unfold digest_ok in D. destruct (b64s_decode (first_piece rest)); [discriminate|discriminate D]. Qed.
(* the variant that also accepts '='-padded digests (or any other digest the accessor cannot decode) does panic *)
Definition integrity_parse_lenient (s : list N) : option (list N) := match split_dash s with None => None | Some _ => Some s end.
Theorem lenient_parse_panics : exists s v, integrity_parse_lenient s = Some v /\ im_digest_bytes v = Panic.
Proof. exists [97; 45; 65; 61], [97; 45; 65; 61]. split; vm_compute; reflexivity. Qed.
