From Coq Require Import List ZArith Bool Permutation Lia.
From IdV Require Import Resolver.Resolver Doc.Doc Proofs.DocProofs.
Import ListNotations.
Open Scope Z_scope.

Lemma rdid_eqb_spec a b : reflect (a = b) (rdid_eqb a b).
Proof.
  destruct a as [m1 i1], b as [m2 i2]. unfold rdid_eqb; cbn.
  destruct (Z.eqb_spec m1 m2); cbn; [|constructor; congruence].
  destruct (Z.eqb_spec i1 i2); constructor; congruence.
Qed.

Section ResolverProofs.
  Variable table : list (Z * Z).
  Variable accepts : Z -> rdid -> bool.
  Variable answer : Z -> rdid -> option Z.
  Notation resolve := (resolve table accepts answer).
  Notation collect := (collect table accepts answer).
  Notation lookup := (lookup table).

  (* dispatch: exactly the registered handler, once, with that DID; otherwise no call at all *)
  Theorem dispatch_exact d :
    match lookup (r_method d) with
    | None => resolve d = (RErr EUnsupported, [])
    | Some h => if accepts h d
                then snd (resolve d) = [(h, d)] /\ fst (resolve d) = match answer h d with Some doc => ROk doc | None => RErr EHandler end
                else resolve d = (RErr EParse, [])
    end.
  Proof.
    unfold Resolver.resolve. destruct (lookup (r_method d)) as [h|]; [|reflexivity].
    destruct (accepts h d); [split; reflexivity|reflexivity].
  Qed.
  Theorem dispatch_handler_registered d h x : In (h, x) (snd (resolve d)) -> x = d /\ lookup (r_method d) = Some h.
  Proof.
    unfold Resolver.resolve. destruct (lookup (r_method d)) as [h'|] eqn:L; [|intros []].
    destruct (accepts h' d); [|intros []]. intros [E|[]]. inversion E; subst. auto.
  Qed.

  (* dedup: distinct, same elements *)
  Lemma dedup_in l d : In d (dedup l) <-> In d l.
  Proof.
    induction l as [|x r IH]; cbn [dedup]; [tauto|].
    destruct (existsb (rdid_eqb x) r) eqn:E.
    - rewrite IH. cbn. split; [auto|]. intros [->|I]; [|exact I].
      apply existsb_exists in E as [y [Iy Ey]]. destruct (rdid_eqb_spec d y); [subst; exact Iy|discriminate].
    - cbn. rewrite IH. tauto.
  Qed.
  Lemma dedup_nodup l : NoDup (dedup l).
  Proof.
    induction l as [|x r IH]; cbn [dedup]; [constructor|].
    destruct (existsb (rdid_eqb x) r) eqn:E; [exact IH|]. constructor; [|exact IH].
    intros I. apply (proj1 (dedup_in r x)) in I.
    assert (existsb (rdid_eqb x) r = true); [|congruence].
    apply existsb_exists. exists x. split; [exact I|]. destruct (rdid_eqb_spec x x); congruence.
  Qed.

  (* collect succeeds iff every element resolves, and then lists every element with its own result *)
  Lemma collect_ok order l : collect order = inl l ->
    map fst l = order /\ (forall d doc, In (d, doc) l -> fst (resolve d) = ROk doc).
  Proof.
    revert l. induction order as [|d r IH]; intros l H; cbn [Resolver.collect] in H.
    - inversion H; subst. split; [reflexivity|intros ? ? []].
    - destruct (fst (resolve d)) as [doc|e] eqn:R; [|discriminate].
      destruct (collect r) as [l'|e]; [|discriminate]. inversion H; subst.
      destruct (IH l' eq_refl) as [A B]. split; [cbn; f_equal; exact A|].
      intros d0 doc0 [E|I]; [inversion E; subst; exact R|exact (B d0 doc0 I)].
  Qed.
  Lemma collect_all_ok order : (forall d, In d order -> exists doc, fst (resolve d) = ROk doc) ->
    exists l, collect order = inl l.
  Proof.
    induction order as [|d r IH]; intros H; cbn [Resolver.collect]; [eauto|].
    destruct (H d (or_introl eq_refl)) as [doc ->].
    destruct IH as [l ->]; [intros x I; apply H; right; exact I|]. eauto.
  Qed.
  Lemma collect_some_fail order : (exists d e, In d order /\ fst (resolve d) = RErr e) -> exists e, collect order = inr e.
  Proof.
    induction order as [|d r IH]; intros [x [e [I R]]]; [destruct I|]. cbn [Resolver.collect].
    destruct (fst (resolve d)) as [doc|e'] eqn:Rd; [|eauto].
    destruct I as [->|I]; [congruence|].
    destruct IH as [e'' ->]; eauto.
  Qed.

  Lemma collect_err order e : collect order = inr e -> exists d, In d order /\ fst (resolve d) = RErr e.
  Proof.
    induction order as [|d r IH]; cbn [Resolver.collect]; [discriminate|].
    destruct (fst (resolve d)) as [doc|e0] eqn:R.
    - destruct (collect r) as [l|e1]; [discriminate|]. intros H; inversion H; subst.
      destruct (IH eq_refl) as [x [I Rx]]. exists x. split; [right; exact I|exact Rx].
    - intros H; inversion H; subst. exists d. split; [left; reflexivity|exact R].
  Qed.

  (* independence of the completion order *)
  Theorem multiple_order_indep dids order order' :
    Permutation order (dedup dids) -> Permutation order' (dedup dids) ->
    match collect order, collect order' with
    | inl l, inl l' => Permutation l l' /\ NoDup (map fst l) /\ (forall d, In d dids <-> In d (map fst l))
                       /\ (forall d doc, In (d, doc) l -> fst (resolve d) = ROk doc)
    | inr _, inr _ => exists d e, In d dids /\ fst (resolve d) = RErr e
    | _, _ => False
    end.
  Proof.
    intros P P'.
    assert (forall d, In d order <-> In d dids) as Io.
    { intros d. split; intros I.
      - apply (proj1 (dedup_in dids d)). eapply Permutation_in; [exact P|exact I].
      - eapply Permutation_in; [symmetry; exact P|]. apply (proj2 (dedup_in dids d)). exact I. }
    assert (forall d, In d order' <-> In d dids) as Io'.
    { intros d. split; intros I.
      - apply (proj1 (dedup_in dids d)). eapply Permutation_in; [exact P'|exact I].
      - eapply Permutation_in; [symmetry; exact P'|]. apply (proj2 (dedup_in dids d)). exact I. }
    destruct (collect order) as [l|e] eqn:C; destruct (collect order') as [l'|e'] eqn:C'.
    - destruct (collect_ok _ _ C) as [A B]. destruct (collect_ok _ _ C') as [A' B'].
      repeat split.
      + (* both lists are determined by their key lists, which are permutations of each other *)
        assert (l = map (fun d => (d, match fst (resolve d) with ROk doc => doc | RErr _ => 0 end)) order) as ->.
        { clear - A B. revert order A. induction l as [|[d doc] r IH]; intros order A; cbn in A; subst order; [reflexivity|].
          cbn [map fst]. rewrite (B d doc (or_introl eq_refl)). f_equal. apply IH; [|reflexivity]. intros; apply B; right; assumption. }
        assert (l' = map (fun d => (d, match fst (resolve d) with ROk doc => doc | RErr _ => 0 end)) order') as ->.
        { clear - A' B'. revert order' A'. induction l' as [|[d doc] r IH]; intros order' A'; cbn in A'; subst order'; [reflexivity|].
          cbn [map fst]. rewrite (B' d doc (or_introl eq_refl)). f_equal. apply IH; [|reflexivity]. intros; apply B'; right; assumption. }
        apply Permutation_map. eapply Permutation_trans; [exact P|symmetry; exact P'].
      + rewrite A. eapply Permutation_NoDup; [symmetry; exact P|apply dedup_nodup].
      + rewrite A. apply Io.
      + rewrite A. apply Io.
      + exact B.
    - exfalso. destruct (collect_all_ok order') as [x X]; [|congruence].
      intros d I. apply Io' in I. apply Io in I. destruct (collect_ok _ _ C) as [A B].
      rewrite <- A in I. apply in_map_iff in I as [[d0 doc] [E I]]. cbn in E. subst. eauto.
    - exfalso. destruct (collect_all_ok order) as [x X]; [|congruence].
      intros d I. apply Io in I. apply Io' in I. destruct (collect_ok _ _ C') as [A B].
      rewrite <- A in I. apply in_map_iff in I as [[d0 doc] [E I]]. cbn in E. subst. eauto.
    - destruct (collect_err _ _ C) as [d [I R]]. exists d, e. split; [apply Io; exact I|exact R].
  Qed.
  (* a failing resolve_multiple reports the error of the FIRST failure in completion order *)
  Theorem multiple_error_is_first_failure order e : collect order = inr e ->
    exists pre d post, order = pre ++ d :: post
      /\ (forall x, In x pre -> exists doc, fst (resolve x) = ROk doc) /\ fst (resolve d) = RErr e.
  Proof.
    induction order as [|d r IH]; cbn [Resolver.collect]; [discriminate|].
    destruct (fst (resolve d)) as [doc|e'] eqn:R.
    - destruct (collect r) as [l|e''] eqn:C; [discriminate|]. intros H. injection H as <-.
      destruct (IH eq_refl) as [pre [d0 [post [E [A B]]]]].
      exists (d :: pre), d0, post. split; [rewrite E; reflexivity|]. split; [|exact B].
      intros x [<-|I]; [exists doc; exact R|apply A; exact I].
    - intros H. injection H as <-. exists [], d, r. split; [reflexivity|]. split; [intros x []|exact R].
  Qed.
End ResolverProofs.

(* attach_handler histories: the handler in force for a method is the one attached LAST for it;
   attaching for another method changes nothing about the resolution of a DID *)
Lemma lookup_attach_same t m h : lookup (attach_handler t m h) m = Some h.
Proof. unfold lookup, attach_handler. cbn [find fst snd]. rewrite Z.eqb_refl. reflexivity. Qed.
Lemma lookup_attach_other t m h m' : m' <> m -> lookup (attach_handler t m h) m' = lookup t m'.
Proof.
  intros N. unfold lookup, attach_handler. cbn [find fst snd].
  destruct (Z.eqb_spec m m') as [E|_]; [congruence|reflexivity].
Qed.
Lemma table_of_rev hist : table_of hist = rev hist.
Proof.
  unfold table_of. rewrite <- (app_nil_r (rev hist)). generalize (@nil (Z * Z)) as acc.
  induction hist as [|[m h] r IH]; intros acc; cbn [fold_left rev fst snd]; [reflexivity|].
  rewrite IH. unfold attach_handler. rewrite <- app_assoc. reflexivity.
Qed.
Lemma table_of_snoc hist m h : table_of (hist ++ [(m, h)]) = attach_handler (table_of hist) m h.
Proof. unfold table_of. rewrite fold_left_app. reflexivity. Qed.
Lemma lookup_none_iff t m : lookup t m = None <-> (forall e, In e t -> fst e <> m).
Proof.
  unfold lookup. induction t as [|[m' h'] r IH]; cbn [find fst snd].
  - split; [intros _ e []|reflexivity].
  - destruct (Z.eqb_spec m' m) as [E|N].
    + split; [discriminate|]. intros A. exfalso. apply (A (m', h')); [left; reflexivity|exact E].
    + rewrite IH. split.
      * intros A e [<-|I]; [exact N|apply A; exact I].
      * intros A e I. apply A. right. exact I.
Qed.
Lemma lookup_app_skip a b m : (forall e, In e a -> fst e <> m) -> lookup (a ++ b) m = lookup b m.
Proof.
  intros A. unfold lookup. induction a as [|[m' h'] r IH]; cbn [app find fst snd]; [reflexivity|].
  destruct (Z.eqb_spec m' m) as [E|_].
  - exfalso. apply (A (m', h')); [left; reflexivity|exact E].
  - apply IH. intros e I. apply A. right. exact I.
Qed.
Theorem last_attachment_wins before after m h :
  (forall e, In e after -> fst e <> m) ->
  lookup (table_of (before ++ (m, h) :: after)) m = Some h.
Proof.
  intros A. rewrite table_of_rev, rev_app_distr. cbn [rev]. rewrite <- app_assoc. cbn [app].
  rewrite lookup_app_skip by (intros e I; apply A; apply in_rev; exact I).
  apply (lookup_attach_same (rev before) m h).
Qed.
Theorem never_attached_unsupported hist m :
  lookup (table_of hist) m = None <-> (forall e, In e hist -> fst e <> m).
Proof.
  rewrite table_of_rev, lookup_none_iff. split; intros A e I; apply A; [apply -> in_rev|apply <- in_rev]; exact I.
Qed.
Theorem attach_other_method_irrelevant accepts answer t m h d :
  r_method d <> m -> resolve (attach_handler t m h) accepts answer d = resolve t accepts answer d.
Proof. intros N. unfold resolve. rewrite lookup_attach_other by exact N. reflexivity. Qed.
Theorem attach_same_method_replaces accepts answer t m h d :
  r_method d = m ->
  resolve (attach_handler t m h) accepts answer d =
    if accepts h d then (match answer h d with Some doc => ROk doc | None => RErr EHandler end, [(h, d)])
    else (RErr EParse, []).
Proof. intros E. unfold resolve. rewrite E, lookup_attach_same. reflexivity. Qed.

(* did:jwk expansion: a valid document with a single method carrying exactly the encoded key,
   reachable through the four relationships that reference it *)
Local Opaque Z.eqb.
Theorem did_jwk_single_method did key :
  let d := expand_did_jwk did key in
  check d = true /\ sets_ok d = true
  /\ methods d None = [{| m_id := jwk_method_id did; m_data := key |}]
  /\ (forall r, r <> RKeyAgr ->
        resolve_method d (query_of_url (jwk_method_id did)) (Some (SRel r)) = Some {| m_id := jwk_method_id did; m_data := key |})
  /\ resolve_method d (query_of_url (jwk_method_id did)) (Some (SRel RKeyAgr)) = None.
Proof.
  cbv zeta. unfold expand_did_jwk, jwk_method_id.
  assert (forall x : Z, (x =? x) = true) as R by (intros; apply Z.eqb_refl).
  split; [|split; [|split; [|split]]].
  - unfold check, entries, all_rels, count_id, rl_has, vm_has, ueqb, ofeqb. cbn. try rewrite !R. reflexivity.
  - unfold sets_ok, all_rels. cbn. reflexivity.
  - unfold methods, entries, all_rels. cbn. reflexivity.
  - intros r Hr. unfold resolve_method, rl_query, resolve_ref, vm_query, qmatches, query_of_url.
    destruct r; try congruence; cbn; try rewrite !R; cbn; try rewrite !R; reflexivity.
  - unfold resolve_method, rl_query. cbn. reflexivity.
Qed.
