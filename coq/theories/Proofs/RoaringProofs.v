(* Proofs about the Roaring wire format model (C06): the writer's output is read back to the same set, for every
   strictly increasing list of 32-bit indices; whatever the reader accepts is such a list. *)
From Coq Require Import List NArith ZArith Bool Lia.
From IdV Require Import Lib.Base64 Doc.Doc Cred.Bitmap Cred.Roaring Proofs.Base64Proofs Proofs.BitmapProofs.
Import ListNotations.
Open Scope N_scope.
Ltac Zify.zify_post_hook ::= Z.to_euclidean_division_equations.

(* ---------- little-endian integers ---------- *)
Lemma rd16_le16 x r : x < 65536 -> rd16 (le16 x ++ r) = Some (x, r).
Proof. intros H. unfold rd16, le16. cbn [app]. f_equal. f_equal. lia. Qed.
Lemma rd32_le32 x r : x < 4294967296 -> rd32 (le32 x ++ r) = Some (x, r).
Proof. intros H. unfold rd32, le32. cbn [app]. f_equal. f_equal. lia. Qed.
Lemma le16_bytes x : x < 65536 -> Forall byte_ok (le16 x).
Proof. intros H. unfold le16, byte_ok. repeat constructor; lia. Qed.
Lemma le32_bytes x : x < 4294967296 -> Forall byte_ok (le32 x).
Proof. intros H. unfold le32, byte_ok. repeat constructor; lia. Qed.
Lemma rd16_inv l x r : rd16 l = Some (x, r) -> Forall byte_ok l -> x < 65536 /\ Forall byte_ok r.
Proof. unfold rd16. destruct l as [|a [|b t]]; try discriminate. intros E F.
  assert (Hx : a + 256 * b = x) by congruence. assert (Hr : t = r) by congruence. subst x r. clear E.
  inversion F as [|? ? Ha F1]; subst. inversion F1 as [|? ? Hb F2]; subst. unfold byte_ok in *. split; [lia|exact F2]. Qed.
Lemma rd32_inv l x r : rd32 l = Some (x, r) -> Forall byte_ok l -> Forall byte_ok r.
Proof. unfold rd32. destruct l as [|a [|b [|c [|d t]]]]; try discriminate. intros E F. injection E as <- <-.
  inversion F as [|? ? _ F1]; subst. inversion F1 as [|? ? _ F2]; subst. inversion F2 as [|? ? _ F3]; subst. inversion F3 as [|? ? _ F4]; subst. exact F4. Qed.

Lemma firstn_app_len (a r : list N) : firstn (length a) (a ++ r) = a.
Proof. induction a as [|x a IH]; cbn; [destruct r; reflexivity|f_equal; exact IH]. Qed.
Lemma skipn_app_len (a r : list N) : skipn (length a) (a ++ r) = r.
Proof. induction a as [|x a IH]; cbn; [reflexivity|exact IH]. Qed.
Lemma take_n_app a r : take_n (length a) (a ++ r) = Some (a, r).
Proof. unfold take_n. rewrite app_length. replace (Nat.ltb (length a + length r) (length a)) with false by (symmetry; apply Nat.ltb_ge; lia).
  rewrite firstn_app_len, skipn_app_len. reflexivity. Qed.
Lemma take_n_inv n l a r : take_n n l = Some (a, r) -> l = a ++ r /\ length a = n.
Proof. unfold take_n. destruct (Nat.ltb (length l) n) eqn:E; [discriminate|]. apply Nat.ltb_ge in E. intros H. injection H as <- <-.
  split; [symmetry; apply firstn_skipn|apply firstn_length_le; exact E]. Qed.

(* ---------- cutting a sorted list at a bound ---------- *)
Lemma take_drop b l : take_lt b l ++ drop_lt b l = l.
Proof. induction l as [|x r IH]; cbn [take_lt drop_lt]; [reflexivity|]. destruct (x <? b); [cbn; f_equal; exact IH|reflexivity]. Qed.
Lemma take_lt_lt b l x : In x (take_lt b l) -> x < b.
Proof. induction l as [|y r IH]; cbn [take_lt]; [intros []|]. destruct (y <? b) eqn:E; [|intros []]. apply N.ltb_lt in E. intros [<-|H]; [exact E|apply IH; exact H]. Qed.
Lemma sorted_app_inv a c : sorted (a ++ c) = true -> sorted a = true /\ sorted c = true.
Proof. induction a as [|x a IH]; cbn [app]; intros H; [split; [reflexivity|exact H]|].
  destruct (sorted_cons _ _ H) as [Hr K]. destruct (IH Hr) as [Ha Hc]. split; [|exact Hc].
  apply sorted_intro; [exact Ha|]. intros y Hy. apply K. apply in_or_app. left. exact Hy. Qed.
Lemma sorted_take b l : sorted l = true -> sorted (take_lt b l) = true.
Proof. intros H. rewrite <- (take_drop b l) in H. apply (sorted_app_inv _ _ H). Qed.
Lemma sorted_drop b l : sorted l = true -> sorted (drop_lt b l) = true.
Proof. intros H. rewrite <- (take_drop b l) in H. apply (sorted_app_inv _ _ H). Qed.
Lemma drop_lt_ge b l x : sorted l = true -> In x (drop_lt b l) -> b <= x.
Proof. induction l as [|y r IH]; cbn [drop_lt]; intros S; [intros []|]. destruct (sorted_cons _ _ S) as [Sr K].
  destruct (y <? b) eqn:E; [apply IH; exact Sr|]. apply N.ltb_ge in E. intros [<-|H]; [exact E|]. specialize (K x H). lia. Qed.
Lemma take_lt_in b l x : In x (take_lt b l) -> In x l.
Proof. intros H. rewrite <- (take_drop b l). apply in_or_app. left. exact H. Qed.
Lemma drop_lt_in b l x : In x (drop_lt b l) -> In x l.
Proof. intros H. rewrite <- (take_drop b l). apply in_or_app. right. exact H. Qed.
Lemma drop_lt_length b x l : x < b -> (length (drop_lt b (x :: l)) <= length l)%nat.
Proof. intros H. cbn [drop_lt]. apply N.ltb_lt in H. rewrite H. clear H x. induction l as [|y r IH]; cbn [drop_lt length]; [lia|]. destruct (y <? b); [lia|cbn [length]; lia]. Qed.

(* filtering a sorted enumeration by membership in a sorted sub-list gives that sub-list *)
Lemma mem_false_lt x l : (forall y, In y l -> x < y) -> mem x l = false.
Proof. intros K. destruct (mem x l) eqn:E; [|reflexivity]. apply mem_in in E. specialize (K x E). lia. Qed.
Lemma filter_mem_sorted E : forall l, sorted E = true -> sorted l = true -> (forall x, In x l -> In x E) -> filter (fun x => mem x l) E = l.
Proof. induction E as [|e E IH]; intros l SE Sl Sub.
  - destruct l as [|y l]; [reflexivity|]. destruct (Sub y (or_introl eq_refl)).
  - destruct (sorted_cons _ _ SE) as [SE' KE]. cbn [filter]. destruct l as [|y l].
    + cbn [mem existsb]. apply (IH [] SE' eq_refl). intros x [].
    + destruct (sorted_cons _ _ Sl) as [Sl' Kl]. destruct (N.eq_dec y e) as [->|Hne].
      * replace (mem e (e :: l)) with true by (symmetry; apply mem_in; left; reflexivity). f_equal.
        transitivity (filter (fun x => mem x l) E); [|apply (IH l SE' Sl')].
        -- apply filter_ext_in. intros x Hx. unfold mem. cbn [existsb]. specialize (KE x Hx). replace (x =? e) with false by (symmetry; apply N.eqb_neq; lia). reflexivity.
        -- intros x Hx. destruct (Sub x (or_intror Hx)) as [E1|H]; [specialize (Kl x Hx); lia|exact H].
      * assert (Hy : In y E) by (destruct (Sub y (or_introl eq_refl)) as [<-|H]; [congruence|exact H]).
        pose proof (KE y Hy) as Hey.
        replace (mem e (y :: l)) with false.
        2:{ symmetry. apply mem_false_lt. intros z [<-|Hz]; [exact Hey|specialize (Kl z Hz); lia]. }
        apply (IH (y :: l) SE' Sl). intros x Hx. destruct (Sub x Hx) as [E1|H]; [|exact H]. subst x.
        destruct Hx as [E2|Hx]; [lia|specialize (Kl e Hx); lia]. Qed.
Lemma map_filter_comm (f : N -> N) (p : N -> bool) l : map f (filter (fun i => p (f i)) l) = filter p (map f l).
Proof. induction l as [|x r IH]; cbn [filter map]; [reflexivity|]. destruct (p (f x)); cbn [map]; [f_equal|]; exact IH. Qed.

(* ---------- bitmap containers ---------- *)
Lemma byte_bits_roundtrip mine base :
  filter (N.testbit (byte_of_bits (bits_of mine base))) BITS8 = filter (fun i => mem (base + i) mine) BITS8.
Proof. unfold bits_of, BITS8. cbn [map filter].
  generalize (mem (base + 0) mine), (mem (base + 1) mine), (mem (base + 2) mine), (mem (base + 3) mine),
             (mem (base + 4) mine), (mem (base + 5) mine), (mem (base + 6) mine), (mem (base + 7) mine).
  intros b0 b1 b2 b3 b4 b5 b6 b7. destruct b0, b1, b2, b3, b4, b5, b6, b7; vm_compute; reflexivity. Qed.
Lemma byte_of_bits_lt mine base : byte_of_bits (bits_of mine base) < 256.
Proof. unfold bits_of, BITS8. cbn [map].
  generalize (mem (base + 0) mine), (mem (base + 1) mine), (mem (base + 2) mine), (mem (base + 3) mine),
             (mem (base + 4) mine), (mem (base + 5) mine), (mem (base + 6) mine), (mem (base + 7) mine).
  intros b0 b1 b2 b3 b4 b5 b6 b7. destruct b0, b1, b2, b3, b4, b5, b6, b7; vm_compute; reflexivity. Qed.
Lemma sorted_bits8 base : sorted (map (N.add base) BITS8) = true.
Proof. unfold BITS8. cbn [map sorted]. repeat (apply andb_true_intro; split); try reflexivity; apply N.ltb_lt; lia. Qed.
Lemma in_bits8 base x : base <= x < base + 8 -> In x (map (N.add base) BITS8).
Proof. intros H. unfold BITS8. cbn [map In].
  assert (K : x = base + 0 \/ x = base + 1 \/ x = base + 2 \/ x = base + 3 \/ x = base + 4 \/ x = base + 5 \/ x = base + 6 \/ x = base + 7) by lia.
  intuition congruence. Qed.
Lemma unpack_byte mine base : sorted mine = true -> (forall x, In x mine -> base <= x < base + 8) ->
  map (N.add base) (filter (N.testbit (byte_of_bits (bits_of mine base))) BITS8) = mine.
Proof. intros S K. rewrite byte_bits_roundtrip. rewrite (map_filter_comm (N.add base) (fun x => mem x mine)).
  apply filter_mem_sorted; [apply sorted_bits8|exact S|]. intros x Hx. apply in_bits8. apply K. exact Hx. Qed.
Lemma pack_length fuel : forall base lows, length (pack fuel base lows) = fuel.
Proof. induction fuel as [|f IH]; intros base lows; cbn [pack length]; [reflexivity|]. rewrite IH. reflexivity. Qed.
Lemma pack_bytes fuel : forall base lows, Forall byte_ok (pack fuel base lows).
Proof. induction fuel as [|f IH]; intros base lows; cbn [pack]; constructor; [apply byte_of_bits_lt|apply IH]. Qed.
Theorem unpack_pack fuel : forall base lows, sorted lows = true -> (forall x, In x lows -> base <= x < base + 8 * N.of_nat fuel) ->
  unpack base (pack fuel base lows) = lows.
Proof. induction fuel as [|f IH]; intros base lows S K.
  - destruct lows as [|x r]; [reflexivity|]. specialize (K x (or_introl eq_refl)). cbn in K. lia.
  - cbn [pack unpack]. rewrite unpack_byte.
    + rewrite IH; [apply take_drop|apply sorted_drop; exact S|].
      intros x Hx. pose proof (drop_lt_ge _ _ _ S Hx) as H1. specialize (K x (drop_lt_in _ _ _ Hx)). lia.
    + apply sorted_take. exact S.
    + intros x Hx. pose proof (take_lt_lt _ _ _ Hx) as H1. specialize (K x (take_lt_in _ _ _ Hx)). lia. Qed.
Lemma unpack_bound bytes : forall base x, In x (unpack base bytes) -> base <= x < base + 8 * N.of_nat (length bytes).
Proof. induction bytes as [|v r IH]; intros base x; cbn [unpack length]; [intros []|]. intros H. apply in_app_or in H. destruct H as [H|H].
  - apply in_map_iff in H. destruct H as [i [<- Hi]]. apply filter_In in Hi. destruct Hi as [Hi _]. unfold BITS8 in Hi. cbn [In] in Hi. lia.
  - specialize (IH _ _ H). lia. Qed.
Lemma bm_bytes : N.of_nat BM_BYTES = 8192.
Proof. unfold BM_BYTES. apply N2Nat.id. Qed.
Lemma lows_n : N.of_nat LOWS = 65536.
Proof. unfold LOWS. apply N2Nat.id. Qed.
Opaque BM_BYTES LOWS.
Lemma nrange_bound fuel : forall a x, In x (nrange fuel a) -> a <= x < a + N.of_nat fuel.
Proof. induction fuel as [|f IH]; intros a x; cbn [nrange]; [intros []|]. intros [<-|H]; [lia|]. specialize (IH _ _ H). lia. Qed.

(* ---------- one container ---------- *)
Lemma rd16s_flat vs r : Forall (fun x => x < 65536) vs -> rd16s (length vs) (flat_map le16 vs ++ r) = Some (vs, r).
Proof. induction 1 as [|x l Hx Hl IH]; cbn [length rd16s flat_map]; [reflexivity|]. rewrite <- app_assoc. rewrite (rd16_le16 _ _ Hx). rewrite IH. reflexivity. Qed.
Lemma rd16s_inv n : forall l vs r, rd16s n l = Some (vs, r) -> Forall byte_ok l -> Forall (fun x => x < 65536) vs /\ Forall byte_ok r.
Proof. induction n as [|m IH]; intros l vs r; cbn [rd16s].
  - intros E F. injection E as <- <-. split; [constructor|exact F].
  - destruct (rd16 l) as [[x t]|] eqn:E1; [|discriminate]. destruct (rd16s m t) as [[xs t']|] eqn:E2; [|discriminate]. intros E F. injection E as <- <-.
    destruct (rd16_inv _ _ _ E1 F) as [Hx Ft]. destruct (IH _ _ _ E2 Ft) as [Hxs Fr]. split; [constructor; assumption|exact Fr]. Qed.
Lemma rd_runs_inv n : forall l rs r, rd_runs n l = Some (rs, r) -> Forall byte_ok l -> Forall byte_ok r.
Proof. induction n as [|m IH]; intros l rs r; cbn [rd_runs].
  - intros E F. injection E as <- <-. exact F.
  - destruct (rd16 l) as [[x t]|] eqn:E1; [|discriminate]. destruct (rd16 t) as [[y t1]|] eqn:E2; [|discriminate].
    destruct (rd_runs m t1) as [[xs t']|] eqn:E3; [|discriminate]. intros E F. injection E as <- <-.
    destruct (rd16_inv _ _ _ E1 F) as [_ Ft]. destruct (rd16_inv _ _ _ E2 Ft) as [_ Ft1]. apply (IH _ _ _ E3 Ft1). Qed.
Definition lows_ok (lows : list N) : Prop := lows <> [] /\ sorted lows = true /\ Forall (fun x => x < 65536) lows.
Lemma sorted_length_le l : forall a n, sorted l = true -> (forall x, In x l -> a <= x < n) -> N.of_nat (length l) <= n - a.
Proof. induction l as [|x r IH]; intros a n S K; cbn [length]; [lia|]. destruct (sorted_cons _ _ S) as [Sr Kx].
  pose proof (K x (or_introl eq_refl)) as Hx.
  assert (H : N.of_nat (length r) <= n - (x + 1)).
  { apply IH; [exact Sr|]. intros y Hy. specialize (Kx y Hy). specialize (K y (or_intror Hy)). lia. }
  lia. Qed.
Lemma lows_ok_length lows : lows_ok lows -> 1 <= N.of_nat (length lows) <= 65536.
Proof. intros [Hne [S F]]. split; [destruct lows; [congruence|cbn [length]; lia]|].
  pose proof (sorted_length_le lows 0 65536 S) as H. rewrite Forall_forall in F. assert (K : forall x, In x lows -> 0 <= x < 65536) by (intros x Hx; specialize (F x Hx); lia).
  specialize (H K). lia. Qed.
Theorem cont_data_bytes lows r : lows_ok lows -> cont_data false (N.of_nat (length lows)) (cont_bytes lows ++ r) = Some (lows, r).
Proof. intros Hok. destruct Hok as [Hne [S F]]. unfold cont_data, cont_bytes, is_array. destruct (N.of_nat (length lows) <=? 4096) eqn:E.
  - rewrite Nat2N.id. rewrite (rd16s_flat _ _ F). rewrite S. reflexivity.
  - rewrite <- (pack_length BM_BYTES 0 lows) at 1. rewrite take_n_app. cbv zeta.
    rewrite unpack_pack; [rewrite N.eqb_refl; reflexivity|exact S|]. rewrite bm_bytes. rewrite Forall_forall in F. intros x Hx. specialize (F x Hx). lia. Qed.
Lemma cont_bytes_ok lows : Forall (fun x => x < 65536) lows -> Forall byte_ok (cont_bytes lows).
Proof. intros F. unfold cont_bytes. destruct (is_array lows); [|apply pack_bytes].
  induction F as [|x l Hx Hl IH]; cbn [flat_map]; [constructor|]. apply Forall_app. split; [apply le16_bytes; exact Hx|exact IH]. Qed.
Theorem cont_data_inv is_run card l vs r : cont_data is_run card l = Some (vs, r) -> Forall byte_ok l -> Forall (fun x => x < 65536) vs /\ Forall byte_ok r.
Proof. unfold cont_data. destruct is_run.
  - destruct (rd16 l) as [[nr t]|] eqn:E1; [|discriminate]. destruct (rd_runs (N.to_nat nr) t) as [[runs t']|] eqn:E2; [|discriminate].
    destruct (forallb run_ok runs); [|discriminate]. intros E F. injection E as <- <-.
    destruct (rd16_inv _ _ _ E1 F) as [_ Ft]. split; [|apply (rd_runs_inv _ _ _ _ E2 Ft)].
    apply Forall_forall. intros x Hx. apply filter_In in Hx. destruct Hx as [Hx _]. apply nrange_bound in Hx. rewrite lows_n in Hx. lia.
  - destruct (card <=? 4096).
    + destruct (rd16s (N.to_nat card) l) as [[xs t]|] eqn:E1; [|discriminate]. destruct (sorted xs); [|discriminate]. intros E F. injection E as <- <-. apply (rd16s_inv _ _ _ _ E1 F).
    + destruct (take_n BM_BYTES l) as [[bs t]|] eqn:E1; [|discriminate]. cbv zeta. destruct (N.of_nat (length (unpack 0 bs)) =? card); [|discriminate]. intros E F. injection E as <- <-.
      destruct (take_n_inv _ _ _ _ E1) as [-> Hlen]. apply Forall_app in F. destruct F as [Fb Ft]. split; [|exact Ft].
      apply Forall_forall. intros x Hx. apply unpack_bound in Hx. rewrite Hlen, bm_bytes in Hx. lia. Qed.

(* ---------- containers of a set ---------- *)
Definition cont_ok (c : N * list N) : Prop := fst c < 65536 /\ lows_ok (snd c).
Lemma sorted_map_sub c l : sorted l = true -> (forall x, In x l -> c <= x) -> sorted (map (fun y => y - c) l) = true.
Proof. induction l as [|x r IH]; intros S K; [reflexivity|]. destruct (sorted_cons _ _ S) as [Sr Kx]. cbn [map]. apply sorted_intro.
  - apply IH; [exact Sr|]. intros y Hy. apply K. right. exact Hy.
  - intros y Hy. apply in_map_iff in Hy. destruct Hy as [z [<- Hz]]. specialize (Kx z Hz). pose proof (K x (or_introl eq_refl)). pose proof (K z (or_intror Hz)). lia. Qed.
Lemma map_add_sub c l : (forall x, In x l -> c <= x) -> map (fun v => c + v) (map (fun y => y - c) l) = l.
Proof. induction l as [|x r IH]; intros K; cbn [map]; [reflexivity|]. f_equal; [pose proof (K x (or_introl eq_refl)); lia|apply IH; intros y Hy; apply K; right; exact Hy]. Qed.
Theorem group_spec fuel : forall s, (length s <= fuel)%nat -> valid_set s ->
  flat_map cont_values (group fuel s) = s /\ Forall cont_ok (group fuel s) /\ (forall c, In c (group fuel s) -> exists x, In x s /\ fst c = x / 65536).
Proof. induction fuel as [|f IH]; intros s Hlen [S F].
  - destruct s as [|x r]; [|cbn in Hlen; lia]. cbn. repeat split; [constructor|intros c []].
  - destruct s as [|x r]; [cbn; repeat split; [constructor|intros c []]|].
    cbn [group]. set (k := x / 65536). set (b := (k + 1) * 65536). set (s := x :: r) in *.
    assert (Hxb : x < b) by (unfold b, k; lia).
    assert (Hge : forall y, In y s -> k * 65536 <= y).
    { intros y [<-|Hy]; [unfold k; lia|]. destruct (sorted_cons _ _ S) as [_ Kx]. specialize (Kx y Hy). unfold k. lia. }
    assert (Hrest : valid_set (drop_lt b s)).
    { split; [apply sorted_drop; exact S|]. rewrite Forall_forall in *. intros y Hy. apply F. apply (drop_lt_in _ _ _ Hy). }
    assert (Hl : (length (drop_lt b s) <= f)%nat) by (pose proof (drop_lt_length b x r Hxb); unfold s in *; cbn [length] in Hlen; lia).
    destruct (IH _ Hl Hrest) as [A [B C]].
    assert (Hmine : forall y, In y (take_lt b s) -> k * 65536 <= y) by (intros y Hy; apply Hge; apply (take_lt_in _ _ _ Hy)).
    split; [|split].
    + cbn [flat_map]. rewrite A. unfold cont_values. cbn [fst snd]. rewrite (map_add_sub _ _ Hmine). apply take_drop.
    + constructor; [|exact B]. unfold cont_ok. cbn [fst snd]. rewrite Forall_forall in F. pose proof (F x (or_introl eq_refl)) as Hx. split; [unfold k; lia|]. split; [|split].
      * unfold s. cbn [take_lt]. apply N.ltb_lt in Hxb. rewrite Hxb. cbn [map]. discriminate.
      * apply sorted_map_sub; [apply sorted_take; exact S|exact Hmine].
      * apply Forall_forall. intros v Hv. apply in_map_iff in Hv. destruct Hv as [y [<- Hy]]. pose proof (take_lt_lt _ _ _ Hy) as H1. specialize (Hmine y Hy). unfold b in H1. lia.
    + intros c [<-|Hc]; [exists x; split; [left; reflexivity|reflexivity]|]. destruct (C c Hc) as [y [Hy E]]. exists y. split; [apply (drop_lt_in _ _ _ Hy)|exact E]. Qed.
Lemma group_keys_sorted fuel : forall s, (length s <= fuel)%nat -> valid_set s -> sorted (map fst (group fuel s)) = true.
Proof. induction fuel as [|f IH]; intros s Hlen [S F]; [destruct s; reflexivity|]. destruct s as [|x r]; [reflexivity|].
  cbn [group map fst]. set (k := x / 65536). set (b := (k + 1) * 65536). set (s := x :: r) in *.
  assert (Hxb : x < b) by (unfold b, k; lia).
  assert (Hrest : valid_set (drop_lt b s)).
  { split; [apply sorted_drop; exact S|]. rewrite Forall_forall in *. intros y Hy. apply F. apply (drop_lt_in _ _ _ Hy). }
  assert (Hl : (length (drop_lt b s) <= f)%nat) by (pose proof (drop_lt_length b x r Hxb); unfold s in *; cbn [length] in Hlen; lia).
  apply sorted_intro; [apply IH; assumption|]. intros kk Hk. apply in_map_iff in Hk. destruct Hk as [c [<- Hc]].
  destruct (group_spec f _ Hl Hrest) as [_ [_ C]]. destruct (C c Hc) as [y [Hy ->]]. pose proof (drop_lt_ge _ _ _ S Hy) as H1. unfold b in H1. lia. Qed.
Lemma group_count s : valid_set s -> N.of_nat (length (group (length s) s)) <= 65536.
Proof. intros V. pose proof (group_keys_sorted (length s) s (le_n _) V) as Sk. destruct (group_spec (length s) s (le_n _) V) as [_ [B _]].
  pose proof (sorted_length_le (map fst (group (length s) s)) 0 65536 Sk) as H. rewrite map_length in H.
  assert (K : forall x, In x (map fst (group (length s) s)) -> 0 <= x < 65536).
  { intros x Hx. apply in_map_iff in Hx. destruct Hx as [c [<- Hc]]. rewrite Forall_forall in B. destruct (B c Hc) as [Hk _]. lia. }
  specialize (H K). lia. Qed.

(* ---------- the whole stream ---------- *)
Lemma rd_descs_flat cs r : Forall cont_ok cs ->
  rd_descs (length cs) (flat_map desc_bytes cs ++ r) = Some (map (fun c => (fst c, N.of_nat (length (snd c)))) cs, r).
Proof. induction 1 as [|c l Hc Hl IH]; cbn [length rd_descs flat_map map]; [reflexivity|]. destruct Hc as [Hk Hlows]. pose proof (lows_ok_length _ Hlows) as Hn.
  unfold desc_bytes at 1. rewrite <- !app_assoc. rewrite (rd16_le16 _ _ Hk). rewrite rd16_le16 by lia. rewrite IH. repeat f_equal. lia. Qed.
Lemma offsets_length cs : forall off, length (offsets off cs) = (4 * length cs)%nat.
Proof. induction cs as [|c l IH]; intros off; cbn [offsets length]; [reflexivity|]. rewrite app_length. rewrite IH. cbn [le32 length]. lia. Qed.
Lemma rd_conts_flat cs : forall idx r, Forall cont_ok cs ->
  rd_conts (map (fun c => (fst c, N.of_nat (length (snd c)))) cs) None idx (flat_map (fun c => cont_bytes (snd c)) cs ++ r) = Some cs.
Proof. induction cs as [|c l IH]; intros idx r F; cbn [map rd_conts flat_map]; [reflexivity|]. inversion F as [|? ? Hc Hl]; subst. destruct Hc as [_ Hlows].
  rewrite <- app_assoc. rewrite (cont_data_bytes _ _ Hlows). rewrite (IH _ _ Hl). destruct c; reflexivity. Qed.
Theorem rdecode_conts_ser cs : Forall cont_ok cs -> N.of_nat (length cs) <= 65536 -> rdecode_conts (ser_conts cs) = Some cs.
Proof. intros F Hn. unfold rdecode_conts, ser_conts, rd_header. cbv zeta. rewrite rd32_le32 by lia. rewrite N.eqb_refl. rewrite rd32_le32 by lia.
  replace (65536 <? N.of_nat (length cs)) with false by (symmetry; apply N.ltb_ge; exact Hn).
  rewrite Nat2N.id. rewrite (rd_descs_flat _ _ F).
  replace (N.to_nat (4 * N.of_nat (length cs))) with (length (offsets (8 + 8 * N.of_nat (length cs)) cs)) by (rewrite offsets_length; lia).
  rewrite take_n_app. rewrite <- (app_nil_r (flat_map _ cs)). apply rd_conts_flat. exact F. Qed.
(* C06: every set of 32-bit indices survives the roaring layer *)
Theorem rdecode_rser s : valid_set s -> rdecode (rser s) = Some s.
Proof. intros V. unfold rdecode, rser. destruct (group_spec (length s) s (le_n _) V) as [A [B _]].
  rewrite (rdecode_conts_ser _ B (group_count s V)). cbv zeta. rewrite A. destruct V as [S _]. rewrite S. reflexivity. Qed.

(* the writer emits bytes *)
Lemma offsets_bytes cs : forall off, off + 8192 * N.of_nat (length cs) < 4294967296 -> (forall c, In c cs -> cont_size (snd c) <= 8192) -> Forall byte_ok (offsets off cs).
Proof. induction cs as [|c l IH]; intros off H K; cbn [offsets]; [constructor|]. apply Forall_app. cbn [length] in H. pose proof (K c (or_introl eq_refl)). split; [apply le32_bytes; lia|].
  apply IH; [lia|intros d Hd; apply K; right; exact Hd]. Qed.
Lemma cont_size_le lows : lows_ok lows -> cont_size lows <= 8192.
Proof. intros H. unfold cont_size, is_array. destruct (N.of_nat (length lows) <=? 4096) eqn:E; [apply N.leb_le in E; lia|lia]. Qed.
Theorem rser_bytes s : valid_set s -> Forall byte_ok (rser s).
Proof. intros V. unfold rser, ser_conts. destruct (group_spec (length s) s (le_n _) V) as [_ [B _]]. pose proof (group_count s V) as Hn. cbv zeta.
  set (cs := group (length s) s) in *. rewrite Forall_forall in B.
  repeat (apply Forall_app; split).
  - apply le32_bytes. lia.
  - apply le32_bytes. lia.
  - apply Forall_forall. intros x Hx. apply in_flat_map in Hx. destruct Hx as [c [Hc Hx]]. destruct (B c Hc) as [Hk Hl]. pose proof (lows_ok_length _ Hl). unfold desc_bytes in Hx.
    apply in_app_or in Hx. destruct Hx as [Hx|Hx]; [pose proof (le16_bytes (fst c) Hk) as L|assert (L : Forall byte_ok (le16 (N.of_nat (length (snd c)) - 1))) by (apply le16_bytes; lia)]; rewrite Forall_forall in L; apply L; exact Hx.
  - apply offsets_bytes; [lia|]. intros c Hc. apply cont_size_le. apply (B c Hc).
  - apply Forall_forall. intros x Hx. apply in_flat_map in Hx. destruct Hx as [c [Hc Hx]]. destruct (B c Hc) as [_ [_ [_ Hl]]]. pose proof (cont_bytes_ok _ Hl) as L. rewrite Forall_forall in L. apply L. exact Hx. Qed.

(* ---------- whatever the reader accepts is a set of 32-bit indices ---------- *)
Lemma rd_descs_inv n : forall l ds r, rd_descs n l = Some (ds, r) -> Forall byte_ok l -> Forall (fun d => fst d < 65536) ds /\ Forall byte_ok r.
Proof. induction n as [|m IH]; intros l ds r; cbn [rd_descs].
  - intros E F. injection E as <- <-. split; [constructor|exact F].
  - destruct (rd16 l) as [[key t]|] eqn:E1; [|discriminate]. destruct (rd16 t) as [[c1 t1]|] eqn:E2; [|discriminate].
    destruct (rd_descs m t1) as [[xs t']|] eqn:E3; [|discriminate]. intros E F. injection E as <- <-.
    destruct (rd16_inv _ _ _ E1 F) as [Hk Ft]. destruct (rd16_inv _ _ _ E2 Ft) as [_ Ft1]. destruct (IH _ _ _ E3 Ft1) as [Hxs Fr]. split; [constructor; [exact Hk|exact Hxs]|exact Fr]. Qed.
Lemma rd_conts_inv ds : forall rb idx l cs, rd_conts ds rb idx l = Some cs -> Forall (fun d => fst d < 65536) ds -> Forall byte_ok l ->
  Forall (fun c => fst c < 65536 /\ Forall (fun x => x < 65536) (snd c)) cs.
Proof. induction ds as [|[key card] ds IH]; intros rb idx l cs; cbn [rd_conts].
  - intros E _ _. injection E as <-. constructor.
  - destruct (cont_data _ card l) as [[vs t]|] eqn:E1; [|discriminate]. destruct (rd_conts ds rb (idx + 1) t) as [cs'|] eqn:E2; [|discriminate].
    intros E Fd F. injection E as <-. inversion Fd as [|? ? Hk Fd']; subst. destruct (cont_data_inv _ _ _ _ _ E1 F) as [Hvs Ft].
    constructor; [split; [exact Hk|exact Hvs]|apply (IH _ _ _ _ E2 Fd' Ft)]. Qed.
Lemma take_n_bytes n l a r : take_n n l = Some (a, r) -> Forall byte_ok l -> Forall byte_ok r.
Proof. intros E F. destruct (take_n_inv _ _ _ _ E) as [-> _]. apply Forall_app in F. apply F. Qed.
Theorem rdecode_conts_inv z cs : rdecode_conts z = Some cs -> Forall byte_ok z -> Forall (fun c => fst c < 65536 /\ Forall (fun x => x < 65536) (snd c)) cs.
Proof. unfold rdecode_conts. destruct (rd_header z) as [[[[size has_off] has_runs] r2]|] eqn:EH; [|discriminate]. intros E F.
  assert (F2 : Forall byte_ok r2).
  { unfold rd_header in EH. destruct (rd32 z) as [[cookie r1]|] eqn:E1; [|discriminate]. pose proof (rd32_inv _ _ _ E1 F) as F1.
    destruct (cookie =? 12346).
    - destruct (rd32 r1) as [[sz r2']|] eqn:E2; [|discriminate]. injection EH as _ _ _ <-. apply (rd32_inv _ _ _ E2 F1).
    - destruct (cookie mod 65536 =? 12347); [|discriminate]. injection EH as _ _ _ <-. exact F1. }
  destruct (if has_runs then _ else _) as [[rb r3]|] eqn:ER; [|discriminate].
  assert (F3 : Forall byte_ok r3).
  { destruct has_runs; [|injection ER as _ <-; exact F2]. destruct (take_n _ r2) as [[bm t]|] eqn:E3; [|discriminate]. injection ER as _ <-. apply (take_n_bytes _ _ _ _ E3 F2). }
  destruct (65536 <? size); [discriminate|]. destruct (rd_descs (N.to_nat size) r3) as [[descs r4]|] eqn:ED; [|discriminate].
  destruct (rd_descs_inv _ _ _ _ ED F3) as [Fd F4].
  destruct (if has_off then _ else _) as [r5|] eqn:EO; [|discriminate].
  assert (F5 : Forall byte_ok r5).
  { destruct has_off; [|injection EO as <-; exact F4]. destruct (take_n _ r4) as [[o t]|] eqn:E5; [|discriminate]. injection EO as <-. apply (take_n_bytes _ _ _ _ E5 F4). }
  apply (rd_conts_inv _ _ _ _ _ E Fd F5). Qed.
Theorem rdecode_valid z s : rdecode z = Some s -> Forall byte_ok z -> valid_set s.
Proof. unfold rdecode. destruct (rdecode_conts z) as [cs|] eqn:E; [|discriminate]. cbv zeta. destruct (sorted (flat_map cont_values cs)) eqn:S; [|discriminate].
  intros H F. injection H as <-. split; [exact S|]. pose proof (rdecode_conts_inv _ _ E F) as K. rewrite Forall_forall in K.
  apply Forall_forall. intros x Hx. apply in_flat_map in Hx. destruct Hx as [c [Hc Hx]]. destruct (K c Hc) as [Hk Hv]. unfold cont_values in Hx. apply in_map_iff in Hx.
  destruct Hx as [v [<- Hvv]]. rewrite Forall_forall in Hv. specialize (Hv v Hvv). lia. Qed.
(* an accepted value can be written again and read back as itself: no accepted bitmap is unserialisable *)
Corollary rdecode_reencodes z s : rdecode z = Some s -> Forall byte_ok z -> rdecode (rser s) = Some s.
Proof. intros E F. apply rdecode_rser. apply (rdecode_valid _ _ E F). Qed.

(* the pinned tree kept the reader's container structure: a run container without runs is accepted and holds nothing,
   and serialize_into writes (len - 1) as u16 for it (underflow).  Roaring bytes 3b 30 00 00 01 00 00 02 00 00 00. *)
Example pinned_accepts_empty_container :
  rdecode_conts [59; 48; 0; 0; 1; 0; 0; 2; 0; 0; 0] = Some [(0, [])] /\ has_empty_container [59; 48; 0; 0; 1; 0; 0; 2; 0; 0; 0] = true
  /\ rdecode [59; 48; 0; 0; 1; 0; 0; 2; 0; 0; 0] = Some [].
Proof. Transparent LOWS BM_BYTES. vm_compute. repeat split. Qed.
(* container keys out of order were accepted by the pinned tree as well; the rebuild rejects them *)
Example unordered_keys_rejected :
  rdecode_conts [58; 48; 0; 0; 2; 0; 0; 0; 1; 0; 0; 0; 0; 0; 0; 0; 24; 0; 0; 0; 26; 0; 0; 0; 7; 0; 5; 0] = Some [(1, [7]); (0, [5])]
  /\ rdecode [58; 48; 0; 0; 2; 0; 0; 0; 1; 0; 0; 0; 0; 0; 0; 0; 24; 0; 0; 0; 26; 0; 0; 0; 7; 0; 5; 0] = None.
Proof. vm_compute. repeat split. Qed.
