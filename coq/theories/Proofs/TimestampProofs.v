From Coq Require Import List ZArith NArith Lia Bool.
From IdV Require Import Lib.Outcome Lib.Calendar Proofs.CalendarProofs Core.Timestamp.
Import ListNotations.
Open Scope Z_scope.
Ltac Zify.zify_post_hook ::= Z.to_euclidean_division_equations.

(* the year gate is the seconds range *)
Theorem gate_iff t : ts_gate t = true <-> TS_MIN <= t <= TS_MAX.
Proof.
  unfold ts_gate, TS_MIN, TS_MAX. cbv zeta.
  pose proof (year_range_iff (t / 86400)) as Y. unfold DAY_MIN, DAY_MAX in Y.
  split; intros H.
  - apply andb_prop in H as [H1 H2]. apply Z.leb_le in H1, H2.
    assert (-719528 <= t / 86400 <= 2932896) as D by (apply Y; lia). lia.
  - assert (-719528 <= t / 86400 <= 2932896) as D by lia. apply Y in D.
    apply andb_true_intro; split; apply Z.leb_le; lia.
Qed.

Theorem parse_in_range s t : ts_parse s = Ok t -> TS_MIN <= t <= TS_MAX.
Proof.
  unfold ts_parse. destruct (ts_lex s) as [c|]; [|discriminate].
  destruct (negb (ts_valid c)); [discriminate|].
  destruct ((c_ss c =? 60) && negb (ts_leap_ok (ts_instant c))); [discriminate|].
  destruct (ts_gate (ts_instant c)) eqn:G; [|discriminate]. intros H; inversion H; subst.
  apply gate_iff. exact G.
Qed.

Theorem parse_denotes s t : ts_parse s = Ok t ->
  exists c, ts_lex s = Some c /\ ts_valid c = true /\ t = ts_instant c.
Proof.
  unfold ts_parse. destruct (ts_lex s) as [c|]; [|discriminate].
  destruct (ts_valid c) eqn:V; cbn [negb]; [|discriminate].
  destruct ((c_ss c =? 60) && negb (ts_leap_ok (ts_instant c))); [discriminate|].
  destruct (ts_gate (ts_instant c)); [|discriminate]. intros H; inversion H; subst. eauto.
Qed.

Theorem parse_never_panics s : ts_parse s <> Panic.
Proof.
  unfold ts_parse. destruct (ts_lex s) as [c|]; [|discriminate].
  destruct (negb (ts_valid c)); [discriminate|].
  destruct ((c_ss c =? 60) && negb (ts_leap_ok (ts_instant c))); [discriminate|].
  destruct (ts_gate (ts_instant c)); discriminate.
Qed.

Theorem from_unix_iff z : ts_from_unix z = Ok z <-> TS_MIN <= z <= TS_MAX.
Proof.
  unfold ts_from_unix. rewrite <- gate_iff. destruct (ts_gate z); split; intros H; try reflexivity; discriminate.
Qed.
Theorem from_unix_out z : ~ (TS_MIN <= z <= TS_MAX) -> ts_from_unix z = Err TsInvalid.
Proof.
  intros H. unfold ts_from_unix. destruct (ts_gate z) eqn:G; [|reflexivity].
  apply gate_iff in G. contradiction.
Qed.

Theorem format_total t : TS_MIN <= t <= TS_MAX -> exists s, ts_to_rfc3339 t = Ok s.
Proof.
  intros H. apply gate_iff in H. unfold ts_gate, year_of_days in H. cbv zeta in H.
  unfold ts_to_rfc3339. destruct (civil_from_days (t / 86400)) as [[y m] d].
  rewrite H. eauto.
Qed.

(* digits *)
Lemma dig2_fmt2 n : 0 <= n < 100 ->
  match ts_fmt2 n with [a; b] => ts_dig2 a b = Some n | _ => False end.
Proof.
  intros H. unfold ts_fmt2, ts_dig2, ts_dig.
  assert (0 <= n / 10 < 10) by lia. assert (0 <= n mod 10 < 10) by lia.
  replace ((48 <=? Z.to_N (48 + n / 10))%N && (Z.to_N (48 + n / 10) <=? 57)%N) with true
    by (symmetry; apply andb_true_intro; split; apply N.leb_le; lia).
  replace ((48 <=? Z.to_N (48 + n mod 10))%N && (Z.to_N (48 + n mod 10) <=? 57)%N) with true
    by (symmetry; apply andb_true_intro; split; apply N.leb_le; lia).
  f_equal. lia.
Qed.

Lemma dig2_fmt2' n a b : 0 <= n < 100 -> ts_fmt2 n = [a; b] -> ts_dig2 a b = Some n.
Proof. intros H E. pose proof (dig2_fmt2 n H) as D. rewrite E in D. exact D. Qed.

Theorem format_parse t : TS_MIN <= t <= TS_MAX ->
  exists s, ts_to_rfc3339 t = Ok s /\ ts_parse s = Ok t.
Proof.
  intros H. pose proof H as G. apply gate_iff in G.
  unfold ts_to_rfc3339. pose proof (dfc_cfd (t / 86400)) as C.
  pose proof G as G'. unfold ts_gate, year_of_days in G'. cbv zeta in G'.
  destruct (civil_from_days (t / 86400)) as [[y m] d] eqn:E. rewrite G'.
  destruct C as [Cd [Cm Cdd]]. apply andb_prop in G' as [Gy1 Gy2]. apply Z.leb_le in Gy1, Gy2.
  eexists; split; [reflexivity|].
  set (sod := t mod 86400). assert (0 <= sod < 86400) as Hs by (unfold sod; lia).
  assert (dim y m <= 31) as Hdim by (unfold dim; destruct (m =? 2); [destruct (is_leap y); lia|destruct ((m =? 4) || (m =? 6) || (m =? 9) || (m =? 11)); lia]).
  unfold ts_parse, ts_lex, ts_fmt4.
  remember (ts_fmt2 (y / 100)) as f1 eqn:F1. remember (ts_fmt2 (y mod 100)) as f2 eqn:F2.
  remember (ts_fmt2 m) as f3 eqn:F3. remember (ts_fmt2 d) as f4 eqn:F4.
  remember (ts_fmt2 (sod / 3600)) as f5 eqn:F5. remember (ts_fmt2 (sod mod 3600 / 60)) as f6 eqn:F6.
  remember (ts_fmt2 (sod mod 60)) as f7 eqn:F7.
  unfold ts_fmt2 in F1, F2, F3, F4, F5, F6, F7. subst f1 f2 f3 f4 f5 f6 f7.
  cbn [app]. cbn [N.eqb Pos.eqb andb orb negb].
  unfold ts_dig4.
  rewrite (dig2_fmt2' (y / 100) _ _ ltac:(lia) eq_refl).
  rewrite (dig2_fmt2' (y mod 100) _ _ ltac:(lia) eq_refl).
  rewrite (dig2_fmt2' m _ _ ltac:(lia) eq_refl).
  rewrite (dig2_fmt2' d _ _ ltac:(lia) eq_refl).
  rewrite (dig2_fmt2' (sod / 3600) _ _ ltac:(lia) eq_refl).
  rewrite (dig2_fmt2' (sod mod 3600 / 60) _ _ ltac:(lia) eq_refl).
  rewrite (dig2_fmt2' (sod mod 60) _ _ ltac:(lia) eq_refl).
  cbn [ts_lex_tail ts_lex_offset N.eqb Pos.eqb orb].
  replace (100 * (y / 100) + y mod 100) with y by lia.
  unfold ts_valid. cbn [c_mo c_dy c_yr c_hh c_mi c_ss c_offh c_offm].
  replace ((1 <=? m) && (m <=? 12) && (1 <=? d) && (d <=? dim y m) && (sod / 3600 <=? 23)
           && (sod mod 3600 / 60 <=? 59) && (sod mod 60 <=? 60) && (0 <=? 23) && (0 <=? 59)) with true.
  2:{ symmetry. repeat (apply andb_true_intro; split); apply Z.leb_le; lia. }
  cbn [negb]. unfold ts_instant. cbn [c_mo c_dy c_yr c_hh c_mi c_ss c_off].
  replace (sod mod 60 =? 60) with false by (symmetry; apply Z.eqb_neq; lia).
  cbn [andb]. rewrite Cd.
  replace (t / 86400 * 86400 + sod / 3600 * 3600 + sod mod 3600 / 60 * 60 + sod mod 60 - 0) with t by (unfold sod; lia).
  rewrite G. reflexivity.
Qed.

Theorem format_never_panics_on_accepted s t : ts_parse s = Ok t -> ts_to_rfc3339 t <> Panic.
Proof.
  intros H. apply parse_in_range in H. destruct (format_total t H) as [x ->]. discriminate.
Qed.

Theorem checked_add_spec t d : ts_checked_add t d = if (TS_MIN <=? t + d) && (t + d <=? TS_MAX) then Some (t + d) else None.
Proof.
  unfold ts_checked_add. destruct (ts_gate (t + d)) eqn:G.
  - apply gate_iff in G. replace ((TS_MIN <=? t + d) && (t + d <=? TS_MAX)) with true; [reflexivity|].
    symmetry. apply andb_true_intro; split; apply Z.leb_le; lia.
  - destruct ((TS_MIN <=? t + d) && (t + d <=? TS_MAX)) eqn:R; [|reflexivity].
    apply andb_prop in R as [R1 R2]. apply Z.leb_le in R1, R2.
    assert (ts_gate (t + d) = true) by (apply gate_iff; lia). congruence.
Qed.
Theorem checked_sub_spec t d : ts_checked_sub t d = if (TS_MIN <=? t - d) && (t - d <=? TS_MAX) then Some (t - d) else None.
Proof.
  unfold ts_checked_sub. destruct (ts_gate (t - d)) eqn:G.
  - apply gate_iff in G. replace ((TS_MIN <=? t - d) && (t - d <=? TS_MAX)) with true; [reflexivity|].
    symmetry. apply andb_true_intro; split; apply Z.leb_le; lia.
  - destruct ((TS_MIN <=? t - d) && (t - d <=? TS_MAX)) eqn:R; [|reflexivity].
    apply andb_prop in R as [R1 R2]. apply Z.leb_le in R1, R2.
    assert (ts_gate (t - d) = true) by (apply gate_iff; lia). congruence.
Qed.

(* durations with a fractional / negative part (serde route): whole-second durations behave as the integer arithmetic, the result is always
   inside the range, and a fraction never moves the result by more than one second *)
Theorem checked_add_ns_whole t secs : ts_checked_add_ns t secs 0 = ts_checked_add t secs.
Proof. unfold ts_checked_add_ns, ts_checked_add, NS. replace (t * 1000000000 + (secs * 1000000000 + 0)) with ((t + secs) * 1000000000) by lia. rewrite Z.div_mul by lia. reflexivity. Qed.
Theorem checked_sub_ns_whole t secs : ts_checked_sub_ns t secs 0 = ts_checked_sub t secs.
Proof. unfold ts_checked_sub_ns, ts_checked_sub, NS. replace (t * 1000000000 - (secs * 1000000000 + 0)) with ((t - secs) * 1000000000) by lia. rewrite Z.div_mul by lia. reflexivity. Qed.
Theorem checked_add_ns_in_range t secs nanos x : ts_checked_add_ns t secs nanos = Some x -> ts_gate x = true.
Proof. unfold ts_checked_add_ns. destruct (ts_gate _) eqn:E; [|discriminate]. intros H; inversion H; subst. exact E. Qed.
Theorem checked_sub_ns_in_range t secs nanos x : ts_checked_sub_ns t secs nanos = Some x -> ts_gate x = true.
Proof. unfold ts_checked_sub_ns. destruct (ts_gate _) eqn:E; [|discriminate]. intros H; inversion H; subst. exact E. Qed.
Theorem checked_add_ns_floor t secs nanos x : -1000000000 < nanos < 1000000000 -> ts_checked_add_ns t secs nanos = Some x ->
  t + secs - 1 <= x <= t + secs.
Proof.
  unfold ts_checked_add_ns, NS. intros Hn. destruct (ts_gate _); [|discriminate]. intros H; inversion H; subst x; clear H.
  pose proof (Z.div_mod (t * 1000000000 + (secs * 1000000000 + nanos)) 1000000000 ltac:(lia)) as D.
  pose proof (Z.mod_pos_bound (t * 1000000000 + (secs * 1000000000 + nanos)) 1000000000 ltac:(lia)) as M. lia.
Qed.
