From Coq Require Import List NArith ZArith Bool Lia Arith.
From IdV Require Import Proofs.Base64Proofs Proofs.BitmapProofs Lib.Base64 Cred.Bitmap Lib.Outcome Cred.StatusList.
Import ListNotations.
Open Scope N_scope.
(* N.modulo is zified to Z.rem: use the hook that covers div/mod and quot/rem *)
Ltac Zify.zify_post_hook ::= Z.to_euclidean_division_equations.

(* ---------- finite table, by computation, lifted with the bound in the statement ---------- *)
Fixpoint allN (n : nat) (f : N -> bool) : bool :=
  match n with O => true | S n' => f (N.of_nat n') && allN n' f end.
Lemma allN_spec n f : allN n f = true -> forall x, (x < N.of_nat n)%N -> f x = true.
Proof.
  induction n as [|n IH]; intros H x Hx; [lia|].
  cbn [allN] in H. apply andb_prop in H as [H1 H2].
  destruct (N.eq_dec x (N.of_nat n)) as [->|Ne]; [exact H1|]. apply IH; [exact H2|lia].
Qed.

Definition byte_row (set : N -> N -> bool -> N) (b o : N) (v : bool) : bool :=
  (set b o v <? 256) &&
  allN 8 (fun o' => Bool.eqb (sl_get_byte (set b o v) o') (if o' =? o then v else sl_get_byte b o')).
Definition byte_table (set : N -> N -> bool -> N) : bool :=
  allN 256 (fun b => allN 8 (fun o => byte_row set b o true && byte_row set b o false)).

Lemma byte_table_ok : byte_table sl_set_byte = true.
Proof. vm_compute. reflexivity. Qed.

Theorem byte_table_spec b o v o' : b < 256 -> o < 8 -> o' < 8 ->
  sl_get_byte (sl_set_byte b o v) o' = (if o' =? o then v else sl_get_byte b o')
  /\ sl_set_byte b o v < 256.
Proof.
  intros Hb Ho Ho'. pose proof byte_table_ok as T. unfold byte_table in T.
  pose proof (allN_spec 256 _ T b Hb) as T1. cbv beta in T1.
  pose proof (allN_spec 8 _ T1 o Ho) as T2. cbv beta in T2.
  apply andb_prop in T2 as [Tt Tf].
  assert (byte_row sl_set_byte b o v = true) as R by (destruct v; assumption).
  unfold byte_row in R. apply andb_prop in R as [R1 R2].
  pose proof (allN_spec 8 _ R2 o' Ho') as R3. cbv beta in R3.
  apply eqb_prop in R3. split; [exact R3|]. apply N.ltb_lt. exact R1.
Qed.

(* the pinned tree's mask violates the table (finding F1) *)
Lemma byte_table_pinned_refuted : byte_table sl_set_byte_pinned = false.
Proof. vm_compute. reflexivity. Qed.
Lemma byte_pinned_witness :
  sl_get_byte (sl_set_byte_pinned 192 1 false) 0 = false /\ sl_get_byte 192 0 = true.
Proof. vm_compute. split; reflexivity. Qed.

(* ---------- list level ---------- *)
Lemma upd_length k f l : length (sl_upd k f l) = length l.
Proof. revert k; induction l as [|x r IH]; intros [|k]; cbn; auto. Qed.
Lemma upd_nth_same k f l x : nth_error l k = Some x -> nth_error (sl_upd k f l) k = Some (f x).
Proof.
  revert k; induction l as [|y r IH]; intros [|k]; cbn; try discriminate.
  - intros H; inversion H; reflexivity.
  - apply IH.
Qed.
Lemma upd_nth_other k j f l : k <> j -> nth_error (sl_upd k f l) j = nth_error l j.
Proof.
  revert k j; induction l as [|y r IH]; intros [|k] [|j] H; cbn; auto; try congruence.
Qed.
Lemma upd_forall (P : N -> Prop) k f l :
  Forall P l -> (forall x, P x -> P (f x)) -> Forall P (sl_upd k f l).
Proof.
  intros H Hf. revert k. induction H as [|y r Hy Hr IH]; intros [|k]; cbn; constructor; auto.
Qed.

Definition bytes_ok (l : list N) : Prop := Forall (fun b => b < 256) l.

Lemma nth_in_range l i : i < sl_len l -> exists b, nth_error l (N.to_nat (i / 8)) = Some b.
Proof.
  unfold sl_len. intros H.
  assert (N.to_nat (i / 8) < length l)%nat as Hl.
  { assert (i / 8 < N.of_nat (length l)) by (apply N.div_lt_upper_bound; lia). lia. }
  apply nth_error_Some in Hl. destruct (nth_error l (N.to_nat (i / 8))) as [b|]; [eauto|congruence].
Qed.

Theorem sl_get_no_panic l i : sl_get l i <> Panic.
Proof.
  unfold sl_get. destruct (i <? sl_len l) eqn:E; [|discriminate].
  apply N.ltb_lt in E. destruct (nth_in_range l i E) as [b ->]. discriminate.
Qed.
Theorem sl_set_no_panic l i v : sl_set l i v <> Panic.
Proof.
  unfold sl_set. destruct (i <? sl_len l) eqn:E; [|discriminate].
  apply N.ltb_lt in E. destruct (nth_in_range l i E) as [b ->]. discriminate.
Qed.

Theorem sl_out_of_range l i v : sl_len l <= i ->
  sl_get l i = Err SlIndexOutOfBounds /\ sl_set l i v = Err SlIndexOutOfBounds.
Proof.
  intros H. unfold sl_get, sl_set. apply N.ltb_ge in H. rewrite H. auto.
Qed.
Theorem sl_in_range l i v : i < sl_len l ->
  (exists b, sl_get l i = Ok b) /\ (exists l', sl_set l i v = Ok l').
Proof.
  intros H. unfold sl_get, sl_set. destruct (nth_in_range l i H) as [b Hb].
  apply N.ltb_lt in H. rewrite H, Hb. eauto.
Qed.

Theorem sl_set_len l i v l' : sl_set l i v = Ok l' -> length l' = length l.
Proof.
  unfold sl_set. destruct (i <? sl_len l); [|discriminate].
  destruct (nth_error l _); [|discriminate]. intros H; inversion H. apply upd_length.
Qed.

Theorem sl_set_bytes_ok l i v l' : bytes_ok l -> sl_set l i v = Ok l' -> bytes_ok l'.
Proof.
  unfold sl_set. intros Hb. destruct (i <? sl_len l); [|discriminate].
  destruct (nth_error l _); [|discriminate]. intros H; inversion H; subst.
  apply upd_forall; [exact Hb|]. intros x Hx. cbv beta.
  apply (byte_table_spec x (i mod 8) v 0); [exact Hx| |lia].
  apply N.mod_lt. lia.
Qed.

Theorem sl_get_set_same l i v l' : bytes_ok l -> sl_set l i v = Ok l' -> sl_get l' i = Ok v.
Proof.
  intros Hb H. pose proof (sl_set_len _ _ _ _ H) as Hl. unfold sl_set in H. unfold sl_get, sl_len.
  rewrite Hl. fold (sl_len l). destruct (i <? sl_len l) eqn:E; [|discriminate].
  destruct (nth_error l (N.to_nat (i / 8))) as [b|] eqn:Nb; [|discriminate]. inversion H; subst.
  rewrite (upd_nth_same _ _ _ _ Nb). f_equal.
  assert (b < 256) as Hbb.
  { unfold bytes_ok in Hb. rewrite Forall_forall in Hb. apply Hb. eapply nth_error_In; eauto. }
  assert (i mod 8 < 8) as Ho by (apply N.mod_lt; lia).
  destruct (byte_table_spec b (i mod 8) v (i mod 8) Hbb Ho Ho) as [T _].
  rewrite T, N.eqb_refl. reflexivity.
Qed.

Theorem sl_get_set_other l i v l' j : bytes_ok l -> j <> i ->
  sl_set l i v = Ok l' -> sl_get l' j = sl_get l j.
Proof.
  intros Hb Hij H. pose proof (sl_set_len _ _ _ _ H) as Hl. unfold sl_set in H. unfold sl_get, sl_len.
  rewrite Hl. fold (sl_len l). destruct (i <? sl_len l) eqn:E; [|discriminate].
  destruct (nth_error l (N.to_nat (i / 8))) as [b|] eqn:Nb; [|discriminate]. inversion H; subst.
  destruct (j <? sl_len l) eqn:Ej; [|reflexivity].
  destruct (N.eq_dec (i / 8) (j / 8)) as [Eq|Ne].
  - rewrite <- Eq. rewrite (upd_nth_same _ _ _ _ Nb), Nb. f_equal.
    assert (b < 256) as Hbb.
    { unfold bytes_ok in Hb. rewrite Forall_forall in Hb. apply Hb. eapply nth_error_In; eauto. }
    assert (i mod 8 < 8) as Ho by (apply N.mod_lt; lia).
    assert (j mod 8 < 8) as Ho' by (apply N.mod_lt; lia).
    destruct (byte_table_spec b (i mod 8) v (j mod 8) Hbb Ho Ho') as [T _]. rewrite T.
    destruct (j mod 8 =? i mod 8) eqn:Em; [|reflexivity].
    apply N.eqb_eq in Em. exfalso. apply Hij.
    rewrite (N.div_mod' j 8), (N.div_mod' i 8). rewrite Em, Eq. reflexivity.
  - rewrite upd_nth_other; [reflexivity|]. intros C. apply Ne. apply N2Nat.inj. exact C.
Qed.

(* ---------- constructor ---------- *)
Lemma repeat_bytes_ok n : bytes_ok (repeat 0 n).
Proof. induction n; cbn; constructor; [lia|assumption]. Qed.
Theorem sl_new_spec n :
  match sl_new n with
  | Ok l => SL_MIN <= n /\ n <= sl_len l < n + 8 /\ bytes_ok l /\ (forall i, i < sl_len l -> sl_get l i = Ok false)
  | Err e => n < SL_MIN /\ e = SlInvalidListSize
  | Panic => False
  end.
Proof.
  unfold sl_new. destruct (n <? SL_MIN) eqn:E.
  - apply N.ltb_lt in E. auto.
  - apply N.ltb_ge in E. split; [exact E|].
    set (k := n / 8 + (if n mod 8 =? 0 then 0 else 1)).
    assert (sl_len (repeat 0 (N.to_nat k)) = 8 * k) as Hl.
    { unfold sl_len. rewrite repeat_length. lia. }
    rewrite Hl. split; [|split; [apply repeat_bytes_ok|]].
    + unfold k. pose proof (N.div_mod' n 8) as D. assert (n mod 8 < 8) as M by (apply N.mod_lt; lia).
      destruct (n mod 8 =? 0) eqn:Hz; [apply N.eqb_eq in Hz|apply N.eqb_neq in Hz]; lia.
    + intros i Hi. unfold sl_get. rewrite Hl. apply N.ltb_lt in Hi. rewrite Hi. apply N.ltb_lt in Hi.
      assert (nth_error (repeat 0 (N.to_nat k)) (N.to_nat (i / 8)) = Some 0) as ->.
      { assert (N.to_nat (i / 8) < N.to_nat k)%nat as L.
        { assert (i / 8 < k) by (apply N.div_lt_upper_bound; lia). lia. }
        revert L. generalize (N.to_nat (i / 8)) as a. generalize (N.to_nat k) as m.
        induction m as [|m IH]; intros a L; [lia|]. destruct a; cbn; [reflexivity|]. apply IH. lia. }
      reflexivity.
Qed.

(* ---------- credential level ---------- *)
Definition cred_ok (c : sl_cred) : Prop := bytes_ok (sc_list c).

Lemma set_entry_ok c i v c' : cred_ok c -> sl_set_entry c i v = Ok c' ->
  sc_purpose c' = sc_purpose c /\ cred_ok c' /\ sl_set (sc_list c) i v = Ok (sc_list c')
  /\ length (sc_list c') = length (sc_list c).
Proof.
  unfold sl_set_entry, cred_ok. intros Hb.
  destruct (sl_get (sc_list c) i) as [cur|e|]; try discriminate.
  destruct (sl_purpose_eqb (sc_purpose c) PRevocation && negb v && cur); [discriminate|].
  destruct (sl_set (sc_list c) i v) as [l'|e|] eqn:S; try discriminate.
  intros H; inversion H; subst; cbn. repeat split; auto.
  - eapply sl_set_bytes_ok; eauto.
  - eapply sl_set_len; eauto.
Qed.

Lemma apply_keeps c op : cred_ok c ->
  cred_ok (sl_apply c op) /\ sc_purpose (sl_apply c op) = sc_purpose c
  /\ length (sc_list (sl_apply c op)) = length (sc_list c).
Proof.
  intros H. unfold sl_apply. destruct (sl_set_entry c (fst op) (snd op)) as [c'|e|] eqn:E; auto.
  destruct (set_entry_ok _ _ _ _ H E) as [A [B [_ D]]]. auto.
Qed.

(* one step never un-revokes *)
Lemma apply_monotone c op i : cred_ok c -> sc_purpose c = PRevocation ->
  sl_get (sc_list c) i = Ok true -> sl_get (sc_list (sl_apply c op)) i = Ok true.
Proof.
  intros Hb Hp Hg. unfold sl_apply. destruct op as [j v]. cbn [fst snd].
  destruct (sl_set_entry c j v) as [c'|e|] eqn:E; auto.
  destruct (set_entry_ok _ _ _ _ Hb E) as [_ [_ [S _]]].
  destruct (N.eq_dec j i) as [->|Ne].
  - (* same index: the write must have been `true` *)
    unfold sl_set_entry in E. rewrite Hg, Hp in E. cbn [sl_purpose_eqb andb] in E.
    destruct v; cbn [negb] in E; [|discriminate].
    eapply sl_get_set_same; eauto.
  - rewrite (sl_get_set_other _ _ _ _ i Hb (not_eq_sym Ne) S). exact Hg.
Qed.

Theorem revocation_monotone ops : forall c i, cred_ok c -> sc_purpose c = PRevocation ->
  sl_entry c i = Ok StRevoked -> sl_entry (sl_run ops c) i = Ok StRevoked.
Proof.
  unfold sl_run. induction ops as [|op ops IH]; intros c i Hb Hp He; cbn [fold_left]; [exact He|].
  destruct (apply_keeps c op Hb) as [Hb' [Hp' _]].
  apply IH; [exact Hb'|congruence|].
  assert (sl_get (sc_list c) i = Ok true) as Hg.
  { unfold sl_entry in He. destruct (sl_get (sc_list c) i) as [[|]|e|]; try discriminate; reflexivity. }
  unfold sl_entry. rewrite (apply_monotone c op i Hb Hp Hg). rewrite Hp', Hp. reflexivity.
Qed.

Theorem run_len_fixed ops : forall c, cred_ok c ->
  length (sc_list (sl_run ops c)) = length (sc_list c) /\ sc_purpose (sl_run ops c) = sc_purpose c.
Proof.
  unfold sl_run. induction ops as [|op ops IH]; intros c Hb; cbn [fold_left]; [auto|].
  destruct (apply_keeps c op Hb) as [Hb' [Hp' Hl']]. destruct (IH _ Hb') as [A B]. split; congruence.
Qed.

Theorem suspension_clearable c i v : cred_ok c -> sc_purpose c = PSuspension -> i < sl_len (sc_list c) ->
  exists c', sl_set_entry c i v = Ok c' /\
             sl_entry c' i = Ok (if v then StSuspended else StValid).
Proof.
  intros Hb Hp Hi. unfold sl_set_entry.
  destruct (sl_in_range (sc_list c) i v Hi) as [[cur Hg] [l' Hs]].
  rewrite Hg, Hp. cbn [sl_purpose_eqb andb]. rewrite Hs. eexists; split; [reflexivity|].
  unfold sl_entry; cbn [sc_list sc_purpose]. rewrite (sl_get_set_same _ _ _ _ Hb Hs). destruct v; reflexivity.
Qed.

Theorem revocation_refused c i : sc_purpose c = PRevocation ->
  sl_entry c i = Ok StRevoked -> sl_set_entry c i false = Err SlUnreversible.
Proof.
  intros Hp He. unfold sl_set_entry. unfold sl_entry in He.
  destruct (sl_get (sc_list c) i) as [[|]|e|]; try discriminate.
  rewrite Hp. reflexivity.
Qed.

Theorem entry_iff_set c i : sl_entry c i = Ok (match sc_purpose c with PRevocation => StRevoked | PSuspension => StSuspended end)
  <-> sl_get (sc_list c) i = Ok true.
Proof.
  unfold sl_entry. destruct (sl_get (sc_list c) i) as [[|]|e|]; destruct (sc_purpose c); split; intros H; try discriminate; reflexivity.
Qed.

(* validator: revoked/suspended exactly when the entry parses, names this list, purposes match and the bit is set *)
Theorem check_status_iff c mode entry :
  (sl_check_status c mode entry = VRevoked \/ sl_check_status c mode entry = VSuspended) <->
  (mode <> ChkSkipAll /\ exists idm p i, entry = Some (true, idm, p, i) /\ idm = true /\ p = sc_purpose c
                                  /\ sl_get (sc_list c) i = Ok true).
Proof.
  unfold sl_check_status. split.
  - intros H. destruct mode; try (destruct H; discriminate).
    all: split; [discriminate|].
    all: destruct entry as [[[[parses idm] p] i]|]; [|destruct H; discriminate].
    all: destruct parses; cbn [negb] in H; [|destruct H; discriminate].
    all: destruct idm; cbn [andb] in H; [|destruct H; discriminate].
    all: destruct (sl_purpose_eqb p (sc_purpose c)) eqn:Ep; [|destruct H; discriminate].
    all: assert (p = sc_purpose c) by (destruct p, (sc_purpose c); try discriminate; reflexivity).
    all: exists true, p, i; repeat split; auto.
    all: unfold sl_entry in H; destruct (sl_get (sc_list c) i) as [[|]|e|]; try reflexivity; destruct H; discriminate.
  - intros [Hm [idm [p [i [-> [-> [-> Hg]]]]]]].
    assert (sl_purpose_eqb (sc_purpose c) (sc_purpose c) = true) as R by (destruct (sc_purpose c); reflexivity).
    destruct mode; try congruence; cbn [negb andb]; rewrite R; unfold sl_entry; rewrite Hg;
      destruct (sc_purpose c); auto.
Qed.

(* codec round trip, for every codec with a left inverse *)
Theorem encode_roundtrip (gz : list N -> list N) (gunzip : list N -> option (list N)) :
  (forall x, gunzip (gz x) = Some x) -> (forall x, Forall (fun b => b < 256) (gz x)) -> forall l, sl_decode gunzip (sl_encode gz l) = Ok l.
Proof. intros H B l. unfold sl_decode, sl_encode. rewrite (b64s_decode_encode _ (B l)). rewrite H. reflexivity. Qed.
(* a text that is not Base64, or whose bytes do not inflate, is an encoding error - never a list *)
Theorem decode_rejects (gunzip : list N -> option (list N)) s : b64s_decode s = None -> sl_decode gunzip s = Err SlInvalidEncoding.
Proof. intros H. unfold sl_decode. rewrite H. reflexivity. Qed.

(* ---- update() over a batch of writes ---- *)
Lemma try_all_is_run ops : forall c c', sl_try_all ops c = Ok c' -> c' = sl_run ops c.
Proof.
  induction ops as [|op r IH]; intros c c' H; cbn [sl_try_all] in H; [inversion H; reflexivity|].
  unfold sl_run. cbn [fold_left]. unfold sl_apply at 2.
  destruct (sl_set_entry c (fst op) (snd op)) as [c1|e|]; try discriminate. exact (IH c1 c' H).
Qed.
(* all-or-nothing: the credential afterwards is either untouched (and the error is reported) or the result of ALL the writes *)
Theorem update_all_spec c ops : 
  match sl_update_all c ops with
  | (c', Ok _) => c' = sl_run ops c /\ sl_try_all ops c = Ok c'
  | (c', Err _) => c' = c
  | (c', Panic) => c' = c
  end.
Proof.
  unfold sl_update_all. destruct (sl_try_all ops c) as [c'|e|] eqn:E; [|reflexivity|reflexivity].
  split; [exact (try_all_is_run ops c c' E)|reflexivity].
Qed.
(* one-way revocation holds through update() whatever the closure does with refusals *)
Theorem update_revocation_monotone c ops i : cred_ok c -> sc_purpose c = PRevocation -> sl_entry c i = Ok StRevoked ->
  sl_entry (sl_update_best_effort c ops) i = Ok StRevoked /\ sl_entry (fst (sl_update_all c ops)) i = Ok StRevoked.
Proof.
  intros Hc Hp He. split; [exact (revocation_monotone ops c i Hc Hp He)|].
  pose proof (update_all_spec c ops) as S. destruct (sl_update_all c ops) as [c' [u|e|]]; cbn [fst].
  - destruct S as [-> _]. exact (revocation_monotone ops c i Hc Hp He).
  - subst c'. exact He.
  - subst c'. exact He.
Qed.
(* the variant that writes before it checks (what a swapped set / check order does) is refuted: a best-effort batch clears a revocation *)
Definition sl_set_entry_write_first (c : sl_cred) (i : N) (v : bool) : sl_cred * outcome unit sl_err :=
  match sl_get (sc_list c) i with
  | Ok cur =>
      match sl_set (sc_list c) i v with
      | Ok l' => let c' := {| sc_purpose := sc_purpose c; sc_list := l' |} in
                 if sl_purpose_eqb (sc_purpose c) PRevocation && negb v && cur then (c', Err SlUnreversible) else (c', Ok tt)
      | Err e => (c, Err e)
      | Panic => (c, Panic)
      end
  | Err e => (c, Err e)
  | Panic => (c, Panic)
  end.
Theorem write_first_refuted : exists c i,
  cred_ok c /\ sc_purpose c = PRevocation /\ sl_entry c i = Ok StRevoked
  /\ snd (sl_set_entry_write_first c i false) = Err SlUnreversible
  /\ sl_entry (fst (sl_set_entry_write_first c i false)) i = Ok StValid.
Proof.
  exists {| sc_purpose := PRevocation; sc_list := [128] |}, 0.
  split; [unfold cred_ok; cbn; repeat constructor|]. repeat split; vm_compute; reflexivity.
Qed.
