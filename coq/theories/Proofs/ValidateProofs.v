(* Proofs about the JWT credential validation model (C02). *)
From Coq Require Import List ZArith Bool Lia.
From IdV Require Import Doc.Doc Cred.Validate.
Import ListNotations.
Open Scope Z_scope.

Lemma oz_eqb_eq a b : oz_eqb a b = true <-> a = b.
Proof. destruct a, b; cbn; split; intros H; try discriminate; try reflexivity.
  - apply Z.eqb_eq in H. subst. reflexivity. - injection H as ->. apply Z.eqb_refl. Qed.

(* ---- the five units, one condition each ---- *)
Definition structure_ok (c : vcred) : Prop :=
  v_ctx_ok c = true /\ v_type_ok c = true /\ (v_sub_id c = None -> v_sub_empty c = false).
Definition sh_ok (c : vcred) (o : vopts) : Prop :=
  match o_sh o with
  | None => True
  | Some (holder, AlwaysSubject) => v_sub_id c = Some holder
  | Some (holder, SubjectOnNonTransferable) => v_sub_id c = Some holder \/ v_nontransf c <> Some true
  | Some (_, AnyRel) => True
  end.
Definition status_ok (c : vcred) (issuers : list issuer) (o : vopts) : Prop :=
  o_status o = SkipAll \/ v_status c = None \/
  exists st, v_status c = Some st /\
    ((st_bitmap_type st = false /\ o_status o = SkipUnsupported)
     \/ (st_bitmap_type st = true /\ st_well_formed st = true /\
         exists d i sv revoked, v_issuer c = Some d /\ find (fun i => is_id i =? d) issuers = Some i
           /\ resolve_service (is_doc i) (query_of_url (st_svc st)) = Some sv /\ is_bitmap i (s_data sv) = Some revoked
           /\ ~ In (st_index st) revoked)).

Lemma unit_issuance_ok c o : unit_issuance c o = None <-> v_issued c <= o_latest_issuance o.
Proof. unfold unit_issuance. destruct (v_issued c <=? o_latest_issuance o) eqn:E; split; intros H; try reflexivity; try discriminate.
  - apply Z.leb_le. exact E. - apply Z.leb_le in H. rewrite H in E. discriminate E. Qed.
Lemma unit_expiry_ok c o : unit_expiry c o = None <-> (forall e, v_expires c = Some e -> o_earliest_expiry o <= e).
Proof. unfold unit_expiry. destruct (v_expires c) as [e|]; [|split; [intros _ e H; discriminate H|reflexivity]].
  destruct (o_earliest_expiry o <=? e) eqn:E; split; intros H; try reflexivity; try discriminate.
  - intros e' He. injection He as <-. apply Z.leb_le. exact E.
  - specialize (H e eq_refl). apply Z.leb_le in H. rewrite H in E. discriminate E. Qed.
Lemma unit_structure_ok c : unit_structure c = None <-> structure_ok c.
Proof. unfold unit_structure, structure_ok. destruct (v_ctx_ok c), (v_type_ok c), (v_sub_id c) as [s|], (v_sub_empty c); cbn;
  split; intros H; try reflexivity; try discriminate; try (repeat split; try reflexivity; intros K; discriminate K);
  try (destruct H as [A [B C]]; try discriminate A; try discriminate B; specialize (C eq_refl); discriminate C). Qed.
Lemma unit_sh_ok c o : unit_subject_holder c o = None <-> sh_ok c o.
Proof. unfold unit_subject_holder, sh_ok. destruct (o_sh o) as [[holder mode]|]; [|split; auto].
  destruct mode.
  - destruct (v_sub_id c) as [s|]; [|split; intros H; discriminate H].
    destruct (s =? holder) eqn:E; split; intros H; try reflexivity; try discriminate.
    + apply Z.eqb_eq in E. subst. reflexivity. + injection H as ->. rewrite Z.eqb_refl in E. discriminate E.
  - destruct (v_sub_id c) as [s|].
    + destruct (s =? holder) eqn:E; cbn [orb].
      * split; [intros _; left; apply Z.eqb_eq in E; subst; reflexivity|reflexivity].
      * destruct (v_nontransf c) as [[|]|]; cbn; split; intros H; try reflexivity; try discriminate; try (right; discriminate).
        destruct H as [H|H]; [injection H as ->; rewrite Z.eqb_refl in E; discriminate E|contradiction].
    + cbn [orb]. destruct (v_nontransf c) as [[|]|]; cbn; split; intros H; try reflexivity; try discriminate; try (right; discriminate).
      destruct H as [H|H]; [discriminate H|contradiction].
  - split; auto. Qed.
Lemma existsb_in_z l x : existsb (fun y => y =? x) l = true <-> In x l.
Proof. rewrite existsb_exists. split; [intros [y [Hy E]]; apply Z.eqb_eq in E; subst; exact Hy|intros H; exists x; split; [exact H|apply Z.eqb_refl]]. Qed.
Lemma unit_status_ok c issuers o : unit_status c issuers o = None <-> status_ok c issuers o.
Proof. unfold unit_status, status_ok. split.
  - intros H. destruct (o_status o) eqn:Em; [| |left; reflexivity]; right;
    (destruct (v_status c) as [st|]; [right; exists st; split; [reflexivity|]|left; reflexivity]);
    (destruct (st_bitmap_type st) eqn:Eb; cbn [negb] in H; [right|try discriminate H; left; split; reflexivity]);
    (destruct (st_well_formed st) eqn:Ew; cbn [negb] in H; [|discriminate H]);
    (destruct (v_issuer c) as [d|]; [|discriminate H]);
    (destruct (find (fun i => is_id i =? d) issuers) as [i|] eqn:Ef; [|discriminate H]);
    (destruct (resolve_service (is_doc i) (query_of_url (st_svc st))) as [sv|] eqn:Es; [|discriminate H]);
    (destruct (is_bitmap i (s_data sv)) as [revoked|] eqn:Ebm; [|discriminate H]);
    (destruct (existsb (fun x => x =? st_index st) revoked) eqn:Ee; [discriminate H|]);
    (split; [reflexivity|split; [reflexivity|]]; exists d, i, sv, revoked; repeat split; try assumption; try reflexivity;
     intros Hin; apply existsb_in_z in Hin; rewrite Hin in Ee; discriminate Ee).
  - intros [H|[H|[st [Hs H]]]].
    + rewrite H. reflexivity.
    + rewrite H. destruct (o_status o); reflexivity.
    + rewrite Hs. destruct H as [[Hb Hm]|[Hb [Hw [d [i [sv [revoked [Hd [Hf [Hsv [Hbm Hn]]]]]]]]]]].
      * rewrite Hm, Hb. reflexivity.
      * rewrite Hb, Hw, Hd, Hf, Hsv, Hbm. cbn [negb].
        destruct (existsb (fun x => x =? st_index st) revoked) eqn:Ee; [apply existsb_in_z in Ee; contradiction|].
        destruct (o_status o); reflexivity. Qed.

Lemma errs_nil l : errs l = [] <-> Forall (fun x => x = None) l.
Proof. induction l as [|[e|] r IH]; cbn [errs]; split; intros H; try constructor; try discriminate.
  - inversion H as [|? ? K]; discriminate K. - reflexivity. - apply IH. exact H. - apply IH. inversion H; assumption. Qed.
Lemma firstn1_nil {A} (l : list A) : firstn 1 l = [] <-> l = [].
Proof. destruct l; cbn; split; intros H; try reflexivity; discriminate H. Qed.
Definition units_ok (c : vcred) (issuers : list issuer) (o : vopts) : Prop :=
  v_issued c <= o_latest_issuance o /\ (forall e, v_expires c = Some e -> o_earliest_expiry o <= e)
  /\ structure_ok c /\ sh_ok c o /\ status_ok c issuers o.
Theorem validate_decoded_ok c issuers o ff r : validate_decoded c issuers o ff = inl r <-> (r = c /\ units_ok c issuers o).
Proof. unfold validate_decoded.
  assert (K : (if ff then firstn 1 (errs (units c issuers o)) else errs (units c issuers o)) = [] <-> units_ok c issuers o).
  { transitivity (errs (units c issuers o) = []). { destruct ff; [apply firstn1_nil|reflexivity]. }
    rewrite errs_nil. unfold units, units_ok. split.
    - intros H. inversion H as [|? ? H1 T1]; subst. inversion T1 as [|? ? H2 T2]; subst. inversion T2 as [|? ? H3 T3]; subst.
      inversion T3 as [|? ? H4 T4]; subst. inversion T4 as [|? ? H5 T5]; subst.
      repeat split; [apply unit_issuance_ok|apply unit_expiry_ok|apply unit_structure_ok|apply unit_structure_ok|apply unit_structure_ok|apply unit_sh_ok|apply unit_status_ok]; assumption.
    - intros [H1 [H2 [H3 [H4 H5]]]]. repeat constructor; [apply unit_issuance_ok|apply unit_expiry_ok|apply unit_structure_ok|apply unit_sh_ok|apply unit_status_ok]; assumption. }
  destruct (if ff then firstn 1 (errs (units c issuers o)) else errs (units c issuers o)) as [|e es] eqn:E.
  - split; [intros H; injection H as <-; split; [reflexivity|apply K; reflexivity]|intros [-> _]; reflexivity].
  - split; [discriminate|]. intros [_ H]. apply K in H. discriminate H. Qed.

(* ---- signature stage ---- *)
Definition signed_by (t : token) (issuers : list issuer) (o : vopts) (c : vcred) : Prop :=
  t_nonce t = o_nonce o /\
  exists u i m, method_id_of t o = inl u /\ find (fun i => is_id i =? u_did u) issuers = Some i
    /\ resolve_method (is_doc i) (query_of_url u) (o_scope o) = Some m /\ is_jwk (m_data m) = true
    /\ t_sig_ok t (m_data m) = true /\ t_claims t = Some c /\ v_issuer c = Some (u_did u).
Theorem verify_signature_ok t issuers o c : verify_signature t issuers o = inl c <-> signed_by t issuers o c.
Proof. unfold verify_signature, parse_jwk, signed_by. split.
  - destruct (oz_eqb (t_nonce t) (o_nonce o)) eqn:En; cbn [negb]; [|discriminate]. apply oz_eqb_eq in En.
    destruct (method_id_of t o) as [u|e]; [|discriminate].
    destruct (find (fun i => is_id i =? u_did u) issuers) as [i|] eqn:Ef; [|discriminate].
    destruct (resolve_method (is_doc i) (query_of_url u) (o_scope o)) as [m|] eqn:Er; [|discriminate].
    destruct (is_jwk (m_data m)) eqn:Ej; [|discriminate].
    destruct (t_sig_ok t (m_data m)) eqn:Es; cbn [negb]; [|discriminate].
    destruct (t_claims t) as [c'|] eqn:Ec; [|discriminate]. destruct (v_issuer c') as [d|] eqn:Ei; [|discriminate].
    destruct (d =? u_did u) eqn:Ed; [|discriminate]. intros H. injection H as <-. apply Z.eqb_eq in Ed. subst d.
    split; [exact En|]. exists u, i, m. repeat split; try assumption; reflexivity.
  - intros [En [u [i [m [Hu [Hf [Hr [Hj [Hs [Hc Hi]]]]]]]]]]. apply oz_eqb_eq in En. rewrite En, Hu, Hf, Hr, Hj. cbn [negb]. rewrite Hs, Hc, Hi, Z.eqb_refl. reflexivity. Qed.

(* ---- the whole validation: accepted exactly when every condition holds; the credential returned is the signed one ---- *)
Theorem validate_accept_iff t i o ff c :
  validate t i o ff = inl c <-> (signed_by t [i] o c /\ units_ok c [i] o).
Proof. unfold validate. destruct (verify_signature t [i] o) as [c'|e] eqn:E.
  - rewrite validate_decoded_ok. apply verify_signature_ok in E. split.
    + intros [-> H]. split; assumption.
    + intros [Hs H]. apply verify_signature_ok in Hs. apply verify_signature_ok in E. rewrite E in Hs. injection Hs as ->. split; [reflexivity|exact H].
  - split; [discriminate|]. intros [Hs _]. apply verify_signature_ok in Hs. rewrite Hs in E. discriminate E. Qed.

(* ---- errors: with all errors requested, exactly the failing units, in chain order; fail-fast: the first of them ---- *)
Theorem all_errors_exact c issuers o es : validate_decoded c issuers o false = inr es ->
  es = errs (units c issuers o) /\ es <> []
  /\ (In VIssuance es <-> ~ v_issued c <= o_latest_issuance o)
  /\ (In VExpiry es <-> ~ (forall e, v_expires c = Some e -> o_earliest_expiry o <= e))
  /\ (In VStructure es <-> ~ structure_ok c)
  /\ (In VSubjectHolder es <-> ~ sh_ok c o)
  /\ ((exists e, In e es /\ (e = VStatusInvalid \/ e = VServiceLookup \/ e = VRevoked \/ e = VDocMismatch \/ e = VSignerUrl)) <-> ~ status_ok c issuers o).
Proof. unfold validate_decoded. destruct (errs (units c issuers o)) as [|e0 r] eqn:E; [discriminate|]. intros H. injection H as <-.
  split; [reflexivity|]. split; [discriminate|]. rewrite <- E. clear E e0 r. unfold units. cbn [errs].
  pose proof (unit_issuance_ok c o) as K1. pose proof (unit_expiry_ok c o) as K2. pose proof (unit_structure_ok c) as K3.
  pose proof (unit_sh_ok c o) as K4. pose proof (unit_status_ok c issuers o) as K5.
  assert (U1 : forall e, unit_issuance c o = Some e -> e = VIssuance) by (unfold unit_issuance; intros e; destruct (_ <=? _); [discriminate|intros H; injection H as <-; reflexivity]).
  assert (U2 : forall e, unit_expiry c o = Some e -> e = VExpiry) by (unfold unit_expiry; intros e; destruct (v_expires c); [destruct (_ <=? _)|]; try discriminate; intros H; injection H as <-; reflexivity).
  assert (U3 : forall e, unit_structure c = Some e -> e = VStructure) by (unfold unit_structure; intros e; destruct (_ && _); [discriminate|intros H; injection H as <-; reflexivity]).
  assert (U4 : forall e, unit_subject_holder c o = Some e -> e = VSubjectHolder).
  { unfold unit_subject_holder. intros e. destruct (o_sh o) as [[h md]|]; [|discriminate]. match goal with |- (if ?b then _ else _) = _ -> _ => destruct b end; [discriminate|intros H; injection H as <-; reflexivity]. }
  assert (U5 : forall e, unit_status c issuers o = Some e -> e = VStatusInvalid \/ e = VServiceLookup \/ e = VRevoked \/ e = VDocMismatch \/ e = VSignerUrl).
  { unfold unit_status. intros e H.
    destruct (o_status o); try discriminate H; (destruct (v_status c) as [st|]; [|discriminate H]);
    (destruct (st_bitmap_type st); cbn [negb] in H; [|try discriminate H; injection H as <-; auto]);
    (destruct (st_well_formed st); cbn [negb] in H; [|injection H as <-; auto]);
    (destruct (v_issuer c) as [d|]; [|injection H as <-; auto 6]);
    (destruct (find _ issuers) as [i|]; [|injection H as <-; auto 6]);
    (destruct (resolve_service _ _) as [sv|]; [|injection H as <-; auto]);
    (destruct (is_bitmap i (s_data sv)) as [rv|]; [|injection H as <-; auto]);
    (destruct (existsb _ rv); [injection H as <-; auto|discriminate H]). }
  destruct (unit_issuance c o) as [e1|] eqn:E1; destruct (unit_expiry c o) as [e2|] eqn:E2; destruct (unit_structure c) as [e3|] eqn:E3;
  destruct (unit_subject_holder c o) as [e4|] eqn:E4; destruct (unit_status c issuers o) as [e5|] eqn:E5;
  try rewrite (U1 _ eq_refl) in *; try rewrite (U2 _ eq_refl) in *; try rewrite (U3 _ eq_refl) in *; try rewrite (U4 _ eq_refl) in *;
  try (pose proof (U5 _ eq_refl) as V5);
  repeat split; intros H;
  try (intros G; first [apply K1 in G|apply K2 in G|apply K3 in G|apply K4 in G|apply K5 in G]; discriminate G);
  try (cbn [In]; tauto);
  try (exfalso; apply H; first [apply K1|apply K2|apply K3|apply K4|apply K5]; reflexivity);
  try (cbn [In] in H; repeat (destruct H as [H|H]; try discriminate H); try contradiction;
       try (subst; destruct V5 as [V|[V|[V|[V|V]]]]; discriminate V));
  try (destruct H as [e [Hin Hk]]; cbn [In] in Hin; repeat (destruct Hin as [Hin|Hin]; try (subst e; destruct Hk as [V|[V|[V|[V|V]]]]; discriminate V)); try contradiction);
  try (exists e5; split; [cbn [In]; tauto|exact V5]).
Qed.
Theorem fail_fast_first c issuers o es : validate_decoded c issuers o true = inr es ->
  exists e rest, errs (units c issuers o) = e :: rest /\ es = [e].
Proof. unfold validate_decoded. destruct (errs (units c issuers o)) as [|e r]; cbn [firstn]; [discriminate|]. intros H. injection H as <-. exists e, r. split; reflexivity. Qed.

(* the two modes agree: same acceptance, and the fail-fast error is the first of the all-errors list *)
Theorem modes_agree_decoded c issuers o :
  match validate_decoded c issuers o true, validate_decoded c issuers o false with
  | inl a, inl b => a = c /\ b = c
  | inr ef, inr ea => exists e rest, ef = [e] /\ ea = e :: rest
  | _, _ => False
  end.
Proof.
  unfold validate_decoded. destruct (errs (units c issuers o)) as [|e r]; cbn [firstn].
  - split; reflexivity.
  - exists e, r. split; reflexivity.
Qed.
Theorem modes_agree t i o :
  match validate t i o true, validate t i o false with
  | inl a, inl b => a = b
  | inr ef, inr ea => exists e rest, ef = [e] /\ ea = e :: rest
  | _, _ => False
  end.
Proof.
  unfold validate. destruct (verify_signature t [i] o) as [c|e].
  - pose proof (modes_agree_decoded c [i] o) as H.
    destruct (validate_decoded c [i] o true), (validate_decoded c [i] o false); try exact H.
    destruct H as [-> ->]. reflexivity.
  - exists e, []. split; reflexivity.
Qed.
(* a signature failure is reported alone, before any unit is looked at *)
Theorem signature_error_alone t i o ff e : verify_signature t [i] o = inr e -> validate t i o ff = inr [e].
Proof. intros H. unfold validate. rewrite H. reflexivity. Qed.
