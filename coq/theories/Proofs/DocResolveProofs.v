(* C04, second part:
   (1) check_id_constraints (the hash-map pass of core_document.rs) = the declarative gate `check`;
   (2) the OrderedSet uniqueness of the seven collections is preserved by every mutation;
   (3) resolution refines the abstract set-of-entries model. *)
From Coq Require Import List ZArith Bool Arith Lia.
From IdV Require Import Doc.Doc Proofs.DocProofs.
Import ListNotations.
Open Scope Z_scope.

(* ---------- (1) the association map ---------- *)
Lemma am_get_set m u b v : am_get (am_set m u b) v = if ueqb u v then Some b else am_get m v.
Proof.
  induction m as [|[k x] r IH]; cbn [am_set am_get].
  - reflexivity.
  - destruct (ueqb_spec k u) as [E|N].
    + subst k. cbn [am_get]. destruct (ueqb u v); reflexivity.
    + cbn [am_get]. rewrite IH. destruct (ueqb_spec k v) as [E2|N2]; [|reflexivity].
      subst k. destruct (ueqb_spec u v) as [E3|_]; [congruence|reflexivity].
Qed.

Definition has_embed (l : list mref) (u : url) : bool := existsb (fun e => is_embed e && ueqb (r_id e) u) l.
(* what the map holds after a prefix was processed without error *)
Definition absmap (pre : list mref) (u : url) : option bool :=
  if has_embed pre u then Some true else if rl_has pre u then Some false else None.

Lemma has_embed_app l1 l2 u : has_embed (l1 ++ l2) u = has_embed l1 u || has_embed l2 u.
Proof. unfold has_embed. apply existsb_app. Qed.
Lemma rl_has_app l1 l2 u : rl_has (l1 ++ l2) u = rl_has l1 u || rl_has l2 u.
Proof. unfold rl_has. apply existsb_app. Qed.
Lemma has_embed_rl_has l u : has_embed l u = true -> rl_has l u = true.
Proof.
  unfold has_embed, rl_has. intros H. apply existsb_exists in H as [e [I H]]. apply andb_prop in H as [_ H].
  apply existsb_exists. exists e. split; assumption.
Qed.

Lemma has_embed_single e u : has_embed [e] u = is_embed e && ueqb (r_id e) u.
Proof. unfold has_embed. cbn [existsb]. apply orb_false_r. Qed.
Lemma rl_has_single e u : rl_has [e] u = ueqb (r_id e) u.
Proof. unfold rl_has. cbn [existsb]. apply orb_false_r. Qed.

(* one-step specification of the relationship pass *)
Fixpoint ok_rels (pre es : list mref) : bool :=
  match es with
  | [] => true
  | e :: r => negb (has_embed pre (r_id e)) && negb (is_embed e && rl_has pre (r_id e)) && ok_rels (pre ++ [e]) r
  end.

Lemma pass_rels_spec es : forall pre m,
  (forall u, am_get m u = absmap pre u) ->
  match pass_rels es m with
  | None => ok_rels pre es = false
  | Some m' => ok_rels pre es = true /\ forall u, am_get m' u = absmap (pre ++ es) u
  end.
Proof.
  induction es as [|e r IH]; intros pre m Hm; cbn [pass_rels ok_rels].
  - split; [reflexivity|]. rewrite app_nil_r. exact Hm.
  - rewrite (Hm (r_id e)). unfold absmap at 1.
    destruct (has_embed pre (r_id e)) eqn:He; cbn [negb andb]; [reflexivity|].
    assert (Hnext : rl_has pre (r_id e) = false \/ is_embed e = false ->
              forall u, am_get (am_set m (r_id e) (is_embed e)) u = absmap (pre ++ [e]) u).
    { intros Hc u. rewrite am_get_set, Hm. unfold absmap. rewrite has_embed_app, rl_has_app.
      rewrite has_embed_single, rl_has_single.
      destruct (ueqb_spec (r_id e) u) as [E|N].
      - subst u. rewrite He. cbn [orb]. rewrite andb_true_r. destruct (is_embed e) eqn:Em; [reflexivity|].
        rewrite orb_true_r. reflexivity.
      - rewrite andb_false_r, !orb_false_r. reflexivity. }
    destruct (rl_has pre (r_id e)) eqn:Hr.
    + destruct (is_embed e) eqn:Em; cbn [negb andb]; [reflexivity|].
      specialize (IH (pre ++ [e]) _ (Hnext (or_intror eq_refl))).
      destruct (pass_rels r _) as [m'|]; [|exact IH]. rewrite <- app_assoc in IH. exact IH.
    + rewrite andb_false_r. cbn [negb andb].
      specialize (IH (pre ++ [e]) _ (Hnext (or_introl eq_refl))).
      destruct (pass_rels r _) as [m'|]; [|exact IH]. rewrite <- app_assoc in IH. exact IH.
Qed.

Lemma count_id_app u l1 l2 : count_id u (l1 ++ l2) = (count_id u l1 + count_id u l2)%nat.
Proof. unfold count_id. rewrite filter_app, app_length. reflexivity. Qed.
Lemma count_id_cons u e l : count_id u (e :: l) = ((if ueqb (r_id e) u then 1 else 0) + count_id u l)%nat.
Proof. unfold count_id. cbn [filter]. destruct (ueqb (r_id e) u); reflexivity. Qed.
Lemma has_embed_false l u : has_embed l u = false <-> forall e, In e l -> is_embed e = true -> r_id e <> u.
Proof.
  unfold has_embed. rewrite existsb_false. split; intros H e I.
  - intros Em E. specialize (H e I). rewrite Em, E, ueqb_refl in H. discriminate.
  - destruct (is_embed e) eqn:Em; [|reflexivity]. cbn. destruct (ueqb_spec (r_id e) u) as [E|N]; [exfalso; exact (H e I Em E)|reflexivity].
Qed.

Lemma ok_rels_spec es : forall pre,
  ok_rels pre es = true <->
  forall e, In e es -> has_embed pre (r_id e) = false /\ (is_embed e = true -> count_id (r_id e) (pre ++ es) = 1%nat).
Proof.
  induction es as [|x r IH]; intros pre; cbn [ok_rels].
  - split; [intros _ e []|reflexivity].
  - rewrite !andb_true_iff, !negb_true_iff, IH. split.
    + intros [[C1 C2] H] e [<-|I].
      * split; [exact C1|]. intros Em. rewrite Em in C2. cbn [andb] in C2.
        rewrite count_id_app, count_id_cons, ueqb_refl.
        assert (count_id (r_id x) pre = 0%nat) as -> by (apply count_zero_iff; apply rl_has_false; exact C2).
        assert (count_id (r_id x) r = 0%nat) as ->; [|reflexivity].
        apply count_zero_iff. intros e I E. destruct (H e I) as [Hn _]. rewrite has_embed_app in Hn.
        apply orb_false_elim in Hn as [_ Hn]. unfold has_embed in Hn. cbn [existsb] in Hn. rewrite Em, E, ueqb_refl in Hn. discriminate.
      * destruct (H e I) as [Hn Hc]. rewrite has_embed_app in Hn. apply orb_false_elim in Hn as [Hn _].
        split; [exact Hn|]. intros Em. rewrite <- app_assoc in Hc. exact (Hc Em).
    + intros H. split; [split|].
      * exact (proj1 (H x (or_introl eq_refl))).
      * destruct (is_embed x) eqn:Em; [|reflexivity]. cbn [andb].
        pose proof (proj2 (H x (or_introl eq_refl)) Em) as C. rewrite count_id_app, count_id_cons, ueqb_refl in C.
        apply rl_has_false. apply count_zero_iff. lia.
      * intros e I. destruct (H e (or_intror I)) as [Hn Hc]. split.
        -- rewrite has_embed_app, Hn. cbn [orb]. unfold has_embed. cbn [existsb]. rewrite orb_false_r.
           destruct (is_embed x) eqn:Em; [|reflexivity]. cbn [andb].
           destruct (ueqb_spec (r_id x) (r_id e)) as [E|N]; [|reflexivity]. exfalso.
           pose proof (proj2 (H x (or_introl eq_refl)) Em) as C. rewrite count_id_app, count_id_cons, ueqb_refl in C.
           pose proof (count_pos (r_id x) r e I (eq_sym E)). lia.
        -- intros Em. rewrite <- app_assoc. exact (Hc Em).
Qed.

Lemma ok_rels_P1 l : ok_rels [] l = true <-> forall e, In e l -> is_embed e = true -> count_id (r_id e) l = 1%nat.
Proof.
  rewrite ok_rels_spec. cbn [app]. split.
  - intros H e I Em. exact (proj2 (H e I) Em).
  - intros H e I. split; [reflexivity|exact (H e I)].
Qed.

(* the general-purpose pass *)
Lemma pass_vm_spec es ms : forall done m,
  (forall u, am_get m u = if has_embed es u then Some true else if rl_has es u || vm_has done u then Some false else None) ->
  match pass_vm ms m with
  | None => exists x, In x ms /\ has_embed es (m_id x) = true
  | Some m' => (forall x, In x ms -> has_embed es (m_id x) = false)
               /\ forall u, am_get m' u = if has_embed es u then Some true else if rl_has es u || vm_has (done ++ ms) u then Some false else None
  end.
Proof.
  induction ms as [|x r IH]; intros done m Hm; cbn [pass_vm].
  - split; [intros x []|]. rewrite app_nil_r. exact Hm.
  - rewrite (Hm (m_id x)). destruct (has_embed es (m_id x)) eqn:He.
    + exists x. split; [left; reflexivity|exact He].
    + assert (forall u, am_get (am_set m (m_id x) false) u =
               if has_embed es u then Some true else if rl_has es u || vm_has (done ++ [x]) u then Some false else None) as Hn.
      { intros u. rewrite am_get_set, Hm. unfold vm_has. rewrite existsb_app. cbn [existsb]. rewrite orb_false_r.
        destruct (ueqb_spec (m_id x) u) as [E|N].
        - subst u. rewrite He, !orb_true_r. reflexivity.
        - rewrite orb_false_r. reflexivity. }
      specialize (IH (done ++ [x]) _ Hn).
      destruct (rl_has es (m_id x) || vm_has done (m_id x));
      (destruct (pass_vm r _) as [m'|];
       [ destruct IH as [IH1 IH2]; split;
         [ intros y [<-|I]; [exact He|exact (IH1 y I)] | rewrite <- app_assoc in IH2; exact IH2 ]
       | destruct IH as [y [I Hy]]; exists y; split; [right; exact I|exact Hy] ]).
Qed.

Theorem check_id_constraints_spec d : check_id_constraints d = true <-> P1 d /\ P2 d /\ P3 d.
Proof.
  unfold check_id_constraints.
  pose proof (pass_rels_spec (entries d) [] [] (fun u => eq_refl)) as R.
  destruct (pass_rels (entries d) []) as [m1|].
  - destruct R as [R1 R2]. cbn [app] in R2. pose proof (proj1 (ok_rels_P1 _) R1) as R1'. clear R1. rename R1' into R1.
    pose proof (pass_vm_spec (entries d) (d_vm d) [] m1) as V.
    assert (forall u, am_get m1 u = if has_embed (entries d) u then Some true else if rl_has (entries d) u || vm_has [] u then Some false else None) as Hm1.
    { intros u. rewrite R2. unfold absmap, vm_has. cbn [existsb]. rewrite orb_false_r. reflexivity. }
    specialize (V Hm1). destruct (pass_vm (d_vm d) m1) as [m2|].
    + destruct V as [V1 V2]. cbn [app] in V2. rewrite forallb_forall. split.
      * intros H. split; [exact R1|]. split.
        -- intros m e Im Ie Em E. specialize (V1 m Im). rewrite has_embed_false in V1. exact (V1 e Ie Em E).
        -- intros s Is. specialize (H s Is). rewrite V2 in H.
           destruct (has_embed (entries d) (s_id s)); [discriminate|].
           destruct (rl_has (entries d) (s_id s) || vm_has (d_vm d) (s_id s)) eqn:O; [discriminate|].
           apply orb_false_elim in O as [O1 O2]. split; [apply rl_has_false; exact O1|apply vm_has_false; exact O2].
      * intros [_ [_ C]] s Is. rewrite V2. destruct (C s Is) as [C1 C2].
        assert (rl_has (entries d) (s_id s) = false) as Hr by (apply rl_has_false; exact C1).
        assert (vm_has (d_vm d) (s_id s) = false) as -> by (apply vm_has_false; exact C2).
        rewrite Hr. destruct (has_embed (entries d) (s_id s)) eqn:He; [|reflexivity].
        apply has_embed_rl_has in He. congruence.
    + destruct V as [x [Ix Hx]]. split; [discriminate|]. intros [_ [B _]]. exfalso.
      unfold has_embed in Hx. apply existsb_exists in Hx as [e [Ie He]]. apply andb_prop in He as [Em E]. apply ueqb_true in E.
      exact (B x e Ix Ie Em E).
  - split; [discriminate|]. intros [A _]. pose proof (proj2 (ok_rels_P1 _) A). congruence.
Qed.

Theorem check_id_constraints_eq_check d : check_id_constraints d = check d.
Proof.
  destruct (check_id_constraints d) eqn:E1, (check d) eqn:E2; try reflexivity.
  - apply check_id_constraints_spec in E1. apply check_spec in E1. congruence.
  - apply check_spec in E2. apply check_id_constraints_spec in E2. congruence.
Qed.

(* the real gate, over every history *)
Theorem drun_keeps_constraints ops d : check_id_constraints d = true -> check_id_constraints (drun ops d) = true.
Proof. rewrite !check_id_constraints_eq_check. apply drun_keeps. Qed.

(* ---------- (2) OrderedSet uniqueness of the seven collections ---------- *)
Definition SetsOk (d : doc) : Prop :=
  nodup_by m_id (d_vm d) = true /\ (forall r, nodup_by r_id (d_rels d r) = true) /\ nodup_by s_id (d_svc d) = true.
Lemma sets_ok_spec d : sets_ok d = true <-> SetsOk d.
Proof.
  unfold sets_ok, SetsOk, all_rels. cbn [forallb]. rewrite !andb_true_iff. split.
  - intros [[A [B1 [B2 [B3 [B4 [B5 _]]]]]] C]. split; [exact A|]. split; [|exact C]. intros r; destruct r; assumption.
  - intros [A [B C]]. repeat split; auto.
Qed.

Lemma nodup_by_snoc {A} (key : A -> url) l x :
  nodup_by key l = true -> existsb (fun y => ueqb (key y) (key x)) l = false -> nodup_by key (l ++ [x]) = true.
Proof.
  induction l as [|a r IH]; cbn [app nodup_by existsb]; intros H E; [reflexivity|].
  apply andb_prop in H as [H1 H2]. apply orb_false_elim in E as [E1 E2].
  apply andb_true_intro. split; [|exact (IH H2 E2)].
  rewrite existsb_app. cbn [existsb]. apply negb_true_iff in H1. rewrite H1, orb_false_r, ueqb_sym, E1. reflexivity.
Qed.
Lemma nodup_by_sub {A} (key : A -> url) (rm : list A -> list A) :
  (forall l x, In x (rm l) -> In x l) ->
  (forall a r, rm (a :: r) = r \/ rm (a :: r) = a :: rm r) ->
  forall l, nodup_by key l = true -> nodup_by key (rm l) = true.
Proof.
  intros Hsub Hstep l. induction l as [|a r IH]; intros H.
  - destruct (rm []) as [|x xs] eqn:E; [reflexivity|]. exfalso. apply (Hsub [] x). rewrite E. left. reflexivity.
  - cbn [nodup_by] in H. apply andb_prop in H as [H1 H2]. destruct (Hstep a r) as [-> | ->]; [exact H2|].
    cbn [nodup_by]. rewrite (IH H2), andb_true_r. apply negb_true_iff. apply negb_true_iff in H1.
    rewrite existsb_false in *. intros x I. apply H1. exact (Hsub r x I).
Qed.
Lemma vm_remove_nodup l u : nodup_by m_id l = true -> nodup_by m_id (fst (vm_remove l u)) = true.
Proof.
  apply (nodup_by_sub m_id (fun l => fst (vm_remove l u))).
  - intros l0 x. apply vm_remove_sub.
  - intros a r. cbn [vm_remove]. destruct (ueqb (m_id a) u); [left; reflexivity|]. destruct (vm_remove r u). right. reflexivity.
Qed.
Lemma rl_remove_nodup l u : nodup_by r_id l = true -> nodup_by r_id (fst (rl_remove l u)) = true.
Proof.
  apply (nodup_by_sub r_id (fun l => fst (rl_remove l u))).
  - intros l0 x. apply (proj1 (rl_remove_sub l0 u)).
  - intros a r. cbn [rl_remove]. destruct (ueqb (r_id a) u); [left; reflexivity|]. destruct (rl_remove r u). right. reflexivity.
Qed.
Lemma sv_remove_nodup l u : nodup_by s_id l = true -> nodup_by s_id (fst (sv_remove l u)) = true.
Proof.
  apply (nodup_by_sub s_id (fun l => fst (sv_remove l u))).
  - intros l0 x. apply sv_remove_sub.
  - intros a r. cbn [sv_remove]. destruct (ueqb (s_id a) u); [left; reflexivity|]. destruct (sv_remove r u). right. reflexivity.
Qed.

Lemma upd_same f r l : upd f r l r = l.
Proof. unfold upd. destruct r; reflexivity. Qed.
Lemma upd_nodup f r l : (forall r', nodup_by r_id (f r') = true) -> nodup_by r_id l = true -> forall r', nodup_by r_id (upd f r l r') = true.
Proof. intros Hf Hl r'. unfold upd. destruct (releqb r' r); [exact Hl|apply Hf]. Qed.

Theorem dstep_keeps_sets d o : SetsOk d -> SetsOk (dstep d o).
Proof.
  intros [A [B C]]. destruct o as [m s|u|s|u|q r|q r]; cbn [dstep].
  - destruct (insert_method d m s) as [d'|e] eqn:E; [|exact (conj A (conj B C))].
    unfold insert_method in E. destruct (_ || _ || _); [discriminate|]. inversion E; subst d'; clear E.
    destruct s as [|r]; unfold SetsOk; cbn [d_vm d_rels d_svc]; repeat split; auto.
    + destruct (vm_has (d_vm d) (m_id m)) eqn:Hh; [exact A|]. apply nodup_by_snoc; [exact A|exact Hh].
    + apply upd_nodup; [exact B|]. destruct (rl_has (d_rels d r) (m_id m)) eqn:Hh; [apply B|].
      apply nodup_by_snoc; [apply B|exact Hh].
  - unfold remove_method. destruct (first_embedded_removed d u).
    + cbn [fst]. unfold SetsOk; cbn [d_vm d_rels d_svc]. repeat split; auto. intros r. unfold rels_removed. apply rl_remove_nodup. apply B.
    + pose proof (vm_remove_nodup (d_vm d) u A) as V. destruct (vm_remove (d_vm d) u) as [vm' o]. cbn [fst] in *.
      unfold SetsOk; cbn [d_vm d_rels d_svc]. repeat split; auto. intros r. unfold rels_removed. apply rl_remove_nodup. apply B.
  - destruct (insert_service d s) as [d'|e] eqn:E; [|exact (conj A (conj B C))].
    unfold insert_service in E. destruct (rl_has (entries d) (s_id s) || vm_has (d_vm d) (s_id s)) eqn:G1; [discriminate|]. cbn [orb] in E.
    destruct (sv_has (d_svc d) (s_id s)) eqn:G2; [discriminate|]. inversion E; subst d'; clear E.
    unfold SetsOk; cbn [d_vm d_rels d_svc]. repeat split; auto. apply nodup_by_snoc; [exact C|exact G2].
  - unfold remove_service. pose proof (sv_remove_nodup (d_svc d) u C) as V. destruct (sv_remove (d_svc d) u) as [l o]. cbn [fst] in *.
    unfold SetsOk; cbn [d_vm d_rels d_svc]. repeat split; auto.
  - destruct (attach d q r) as [[d' b]|e] eqn:E; [|exact (conj A (conj B C))].
    unfold attach in E. destruct (resolve_method d q (Some SVm)) as [m|]; [|destruct (resolve_method d q None); discriminate].
    destruct (rl_has (d_rels d r) (m_id m)) eqn:Hh; inversion E; subst d' b; clear E; [exact (conj A (conj B C))|].
    unfold SetsOk; cbn [d_vm d_rels d_svc]. repeat split; auto. apply upd_nodup; [exact B|]. apply nodup_by_snoc; [apply B|exact Hh].
  - destruct (detach d q r) as [[d' b]|e] eqn:E; [|exact (conj A (conj B C))].
    unfold detach in E. destruct (resolve_method d q (Some SVm)) as [m|]; [|destruct (resolve_method d q None); discriminate].
    pose proof (rl_remove_nodup (d_rels d r) (m_id m) (B r)) as V.
    destruct (rl_remove (d_rels d r) (m_id m)) as [l o]. cbn [fst] in V. inversion E; subst d' b; clear E.
    unfold SetsOk; cbn [d_vm d_rels d_svc]. repeat split; auto. apply upd_nodup; [exact B|exact V].
Qed.

Theorem drun_keeps_sets ops : forall d, sets_ok d = true -> sets_ok (drun ops d) = true.
Proof.
  unfold drun. induction ops as [|o ops IH]; intros d H; cbn [fold_left]; [exact H|].
  apply IH. apply sets_ok_spec. apply dstep_keeps_sets. apply sets_ok_spec. exact H.
Qed.

(* what from_json accepts (sets by construction of OrderedSet + check_id_constraints) is kept by every history *)
Theorem drun_keeps_accepted ops d :
  sets_ok d && check_id_constraints d = true -> sets_ok (drun ops d) && check_id_constraints (drun ops d) = true.
Proof.
  rewrite !andb_true_iff. intros [S K]. split; [apply drun_keeps_sets; exact S|apply drun_keeps_constraints; exact K].
Qed.

(* ---------- (3) resolution refines the abstract set-of-entries model ---------- *)
Definition id_of (d : doc) (u : url) : Prop :=
  (exists m, In m (d_vm d) /\ m_id m = u) \/ (exists e, In e (entries d) /\ r_id e = u) \/ (exists s, In s (d_svc d) /\ s_id s = u).
(* the query does not hit two different identifiers of the document (outside class K_path_ambiguous this
   always holds: identifiers that agree on DID and fragment are then equal) *)
Definition unamb (d : doc) (q : query) : Prop :=
  forall u v, id_of d u -> id_of d v -> qmatches q u = true -> qmatches q v = true -> u = v.
(* the abstract model: the entries of the document that are methods *)
Definition is_method (d : doc) (m : meth) : Prop := In m (d_vm d) \/ In (Embed m) (entries d).

Lemma find_app {A} (f : A -> bool) l1 l2 : find f (l1 ++ l2) = match find f l1 with Some x => Some x | None => find f l2 end.
Proof. induction l1 as [|a r IH]; cbn [app find]; [reflexivity|]. destruct (f a); [reflexivity|exact IH]. Qed.
Lemma find_some_unique {A} (f : A -> bool) l x :
  In x l -> f x = true -> (forall y, In y l -> f y = true -> y = x) -> find f l = Some x.
Proof.
  intros I F U. destruct (find f l) as [y|] eqn:E.
  - apply find_some in E as [Iy Fy]. rewrite (U y Iy Fy). reflexivity.
  - rewrite (find_none f l E x I) in F. discriminate.
Qed.
Lemma nodup_by_inj {A} (key : A -> url) l a b : nodup_by key l = true -> In a l -> In b l -> key a = key b -> a = b.
Proof.
  induction l as [|x r IH]; intros H Ia Ib E; [destruct Ia|].
  cbn [nodup_by] in H. apply andb_prop in H as [H1 H2]. apply negb_true_iff in H1. rewrite existsb_false in H1.
  destruct Ia as [<-|Ia], Ib as [<-|Ib].
  - reflexivity.
  - specialize (H1 b Ib). rewrite E, ueqb_refl in H1. discriminate.
  - specialize (H1 a Ia). rewrite E, ueqb_refl in H1. discriminate.
  - exact (IH H2 Ia Ib E).
Qed.
Lemma count_one_unique u l a b : count_id u l = 1%nat -> In a l -> In b l -> r_id a = u -> r_id b = u -> a = b.
Proof.
  induction l as [|x r IH]; intros C Ia Ib Ea Eb; [destruct Ia|].
  rewrite count_id_cons in C. destruct (ueqb_spec (r_id x) u) as [Ex|Nx].
  - assert (count_id u r = 0%nat) as Z by lia. rewrite count_zero_iff in Z.
    destruct Ia as [<-|Ia]; [|exfalso; exact (Z a Ia Ea)]. destruct Ib as [<-|Ib]; [reflexivity|exfalso; exact (Z b Ib Eb)].
  - destruct Ia as [<-|Ia]; [congruence|]. destruct Ib as [<-|Ib]; [congruence|]. apply IH; auto.
Qed.

Lemma first_rel_match_find d q rs : first_rel_match d q rs = find (fun e => qmatches q (r_id e)) (flat_map (d_rels d) rs).
Proof.
  induction rs as [|r rs IH]; cbn [first_rel_match flat_map]; [reflexivity|]. rewrite find_app. unfold rl_query.
  destruct (find _ (d_rels d r)); [reflexivity|exact IH].
Qed.
Lemma rel_in_entries d r e : In e (d_rels d r) -> In e (entries d).
Proof. unfold entries, all_rels. cbn [flat_map]. rewrite !in_app_iff. destruct r; tauto. Qed.

Lemma qmatches_frag q u : qmatches q u = true -> exists f, u_frag u = Some f.
Proof. unfold qmatches. intros H. apply andb_prop in H as [_ H]. destruct (q_frag q), (u_frag u); try discriminate. eauto. Qed.
Lemma qmatches_self u : (exists f, u_frag u = Some f) -> qmatches (query_of_url u) u = true.
Proof. intros [f E]. unfold qmatches, query_of_url. cbn. rewrite E, !Z.eqb_refl. reflexivity. Qed.
Lemma qmatches_trans q u v : qmatches q u = true -> qmatches (query_of_url u) v = true -> qmatches q v = true.
Proof.
  unfold qmatches, query_of_url. cbn. intros H1 H2. apply andb_prop in H1 as [A1 B1]. apply andb_prop in H2 as [A2 B2].
  apply Z.eqb_eq in A2. destruct (u_frag u) as [fu|]; [|destruct (q_frag q); discriminate].
  destruct (u_frag v) as [fv|]; [|discriminate]. apply Z.eqb_eq in B2. subst fv. rewrite <- A2, A1, B1. reflexivity.
Qed.

Section Resolution.
  Variables (d : doc) (q : query).
  Hypothesis (G : Gate d) (S : SetsOk d) (U : unamb d q).

  Let vm_id m : In m (d_vm d) -> id_of d (m_id m).
  Proof. intros I. left. eauto. Qed.
  Let en_id e : In e (entries d) -> id_of d (r_id e).
  Proof. intros I. right. left. eauto. Qed.
  Let sv_id s : In s (d_svc d) -> id_of d (s_id s).
  Proof. intros I. right. right. eauto. Qed.

  (* looking a general-purpose method up by the (full) identifier of a matching entry *)
  Lemma vm_query_by_id m : In m (d_vm d) -> qmatches q (m_id m) = true -> vm_query (d_vm d) (query_of_url (m_id m)) = Some m.
  Proof.
    intros I M. apply find_some_unique; [exact I|apply qmatches_self; exact (qmatches_frag _ _ M)|].
    intros y Iy My. apply (nodup_by_inj m_id (d_vm d)); [exact (proj1 S)|exact Iy|exact I|].
    apply U; [apply vm_id; exact Iy|apply vm_id; exact I|exact (qmatches_trans _ _ _ M My)|exact M].
  Qed.

  Theorem resolve_vm_scope m :
    resolve_method d q (Some SVm) = Some m <-> In m (d_vm d) /\ qmatches q (m_id m) = true.
  Proof.
    cbn [resolve_method]. unfold vm_query. split.
    - intros H. apply find_some in H. exact H.
    - intros [I M]. apply find_some_unique; [exact I|exact M|]. intros y Iy My.
      apply (nodup_by_inj m_id (d_vm d)); [exact (proj1 S)|exact Iy|exact I|]. apply U; auto.
  Qed.

  Theorem resolve_rel_scope r m :
    resolve_method d q (Some (SRel r)) = Some m <->
    qmatches q (m_id m) = true /\ (In (Embed m) (d_rels d r) \/ (In (Refer (m_id m)) (d_rels d r) /\ In m (d_vm d))).
  Proof.
    destruct G as [A [B C]]. cbn [resolve_method]. unfold rl_query. split.
    - destruct (find _ (d_rels d r)) as [e|] eqn:F; [|discriminate]. apply find_some in F as [Ie Me].
      destruct e as [m'|u]; cbn [resolve_ref r_id] in *.
      + intros H; inversion H; subst m'. split; [exact Me|left; exact Ie].
      + intros H. unfold vm_query in H. apply find_some in H as [Im Mm].
        pose proof (qmatches_trans _ _ _ Me Mm) as M. split; [exact M|]. right.
        assert (u = m_id m) as -> by (apply U; [exact (en_id (Refer u) (rel_in_entries _ _ _ Ie))|apply vm_id; exact Im|exact Me|exact M]).
        split; assumption.
    - intros [M [Ie|[Ie Im]]].
      + assert (find (fun e => qmatches q (r_id e)) (d_rels d r) = Some (Embed m)) as ->; [|reflexivity].
        apply find_some_unique; [exact Ie|exact M|]. intros y Iy My.
        pose proof (rel_in_entries _ _ _ Ie) as Ie'. pose proof (rel_in_entries _ _ _ Iy) as Iy'.
        apply (count_one_unique (m_id m) (entries d)); [exact (A _ Ie' eq_refl)|exact Iy'|exact Ie'| |reflexivity].
        apply U; [apply en_id; exact Iy'|exact (en_id _ Ie')|exact My|exact M].
      + destruct (find (fun e => qmatches q (r_id e)) (d_rels d r)) as [e|] eqn:F.
        2:{ pose proof (find_none _ _ F _ Ie) as X. cbn [r_id] in X. congruence. }
        apply find_some in F as [Iy My]. pose proof (rel_in_entries _ _ _ Iy) as Iy'.
        assert (r_id e = m_id m) as E by (apply U; [apply en_id; exact Iy'|apply vm_id; exact Im|exact My|exact M]).
        destruct e as [m'|u]; cbn [r_id resolve_ref] in *.
        * exfalso. exact (B m (Embed m') Im Iy' eq_refl E).
        * subst u. apply vm_query_by_id; assumption.
  Qed.

  Theorem resolve_no_scope m :
    resolve_method d q None = Some m <-> is_method d m /\ qmatches q (m_id m) = true.
  Proof.
    destruct G as [A [B C]]. cbn [resolve_method]. rewrite first_rel_match_find. fold (entries d). unfold is_method. split.
    - destruct (find _ (entries d)) as [e|] eqn:F.
      + apply find_some in F as [Ie Me]. destruct e as [m'|u]; cbn [r_id] in *.
        * intros H; inversion H; subst m'. split; [right; exact Ie|exact Me].
        * intros H. unfold vm_query in H. apply find_some in H as [Im Mm]. split; [left; exact Im|exact (qmatches_trans _ _ _ Me Mm)].
      + intros H. unfold vm_query in H. apply find_some in H as [Im Mm]. split; [left; exact Im|exact Mm].
    - intros [[Im|Ie] M].
      + destruct (find _ (entries d)) as [e|] eqn:F.
        * apply find_some in F as [Iy My].
          assert (r_id e = m_id m) as E by (apply U; [apply en_id; exact Iy|apply vm_id; exact Im|exact My|exact M]).
          destruct e as [m'|u]; cbn [r_id] in *.
          -- exfalso. exact (B m (Embed m') Im Iy eq_refl E).
          -- subst u. apply vm_query_by_id; assumption.
        * unfold vm_query. apply find_some_unique; [exact Im|exact M|]. intros y Iy My.
          apply (nodup_by_inj m_id (d_vm d)); [exact (proj1 S)|exact Iy|exact Im|]. apply U; auto.
      + assert (find (fun e => qmatches q (r_id e)) (entries d) = Some (Embed m)) as ->; [|reflexivity].
        apply find_some_unique; [exact Ie|exact M|]. intros y Iy My.
        apply (count_one_unique (m_id m) (entries d)); [exact (A _ Ie eq_refl)|exact Iy|exact Ie| |reflexivity].
        apply U; [apply en_id; exact Iy|exact (en_id _ Ie)|exact My|exact M].
  Qed.

  Theorem resolve_service_spec s :
    resolve_service d q = Some s <-> In s (d_svc d) /\ qmatches q (s_id s) = true.
  Proof.
    unfold resolve_service, sv_query. split.
    - intros H. apply find_some in H. exact H.
    - intros [I M]. apply find_some_unique; [exact I|exact M|]. intros y Iy My.
      apply (nodup_by_inj s_id (d_svc d)); [exact (proj2 (proj2 S))|exact Iy|exact I|]. apply U; auto.
  Qed.

  (* a scoped answer is an unscoped answer *)
  Corollary resolve_scope_sub sc m : resolve_method d q (Some sc) = Some m -> resolve_method d q None = Some m.
  Proof.
    intros H. apply resolve_no_scope. destruct sc as [|r].
    - apply resolve_vm_scope in H as [I M]. split; [left; exact I|exact M].
    - apply resolve_rel_scope in H as [M [I|[_ I]]]; (split; [|exact M]); [right; exact (rel_in_entries _ _ _ I)|left; exact I].
  Qed.
End Resolution.

(* a query by full identifier (DID + fragment given): outside K_path_ambiguous the answer carries that identifier *)
Theorem resolve_full_id d u m sc : Gate d -> SetsOk d -> unamb d (query_of_url u) -> id_of d u ->
  resolve_method d (query_of_url u) sc = Some m -> m_id m = u.
Proof.
  intros G S U Iu H.
  assert (resolve_method d (query_of_url u) None = Some m) as H' by (destruct sc as [sc|]; [exact (resolve_scope_sub d _ G S U sc m H)|exact H]).
  apply (resolve_no_scope d _ G S U) in H' as [Im M].
  assert (exists f, u_frag u = Some f) as Fu.
  { unfold qmatches, query_of_url in M. cbn in M. apply andb_prop in M as [_ M]. destruct (u_frag u); [eauto|discriminate]. }
  apply U; [|exact Iu|exact M|exact (qmatches_self u Fu)].
  destruct Im as [Im|Im]; [left; eauto|right; left; exists (Embed m); split; [exact Im|reflexivity]].
Qed.

(* non-vacuity: a document with a reference, an embedded method and a service meets the hypotheses, and a
   reference resolves to the general-purpose method it names *)
Example resolution_hyps_hold :
  let k f := {| u_did := 1; u_rest := 0; u_frag := Some f |} in
  let d := {| d_vm := [{| m_id := k 7; m_data := 70 |}];
              d_rels := fun r => match r with RAuth => [Refer (k 7); Embed {| m_id := k 8; m_data := 80 |}] | _ => [] end;
              d_svc := [{| s_id := k 9; s_data := 90 |}] |} in
  let q := {| q_did := None; q_frag := Some 7 |} in
  check d = true /\ sets_ok d = true /\ unamb d q /\ resolve_method d q (Some (SRel RAuth)) = Some {| m_id := k 7; m_data := 70 |}.
Proof.
  cbv zeta. repeat split.
  intros u v Hu Hv Mu Mv.
  assert (forall w, id_of {| d_vm := [{| m_id := {| u_did := 1; u_rest := 0; u_frag := Some 7 |}; m_data := 70 |}];
              d_rels := fun r => match r with RAuth => [Refer {| u_did := 1; u_rest := 0; u_frag := Some 7 |}; Embed {| m_id := {| u_did := 1; u_rest := 0; u_frag := Some 8 |}; m_data := 80 |}] | _ => [] end;
              d_svc := [{| s_id := {| u_did := 1; u_rest := 0; u_frag := Some 9 |}; s_data := 90 |}] |} w ->
            qmatches {| q_did := None; q_frag := Some 7 |} w = true -> w = {| u_did := 1; u_rest := 0; u_frag := Some 7 |}) as K.
  { intros w [[m [I E]]|[[e [I E]]|[s [I E]]]] M; cbn in I.
    - destruct I as [<-|[]]. subst w. reflexivity.
    - destruct I as [<-|[<-|[]]]; subst w; [reflexivity|discriminate].
    - destruct I as [<-|[]]. subst w. discriminate. }
  rewrite (K u Hu Mu), (K v Hv Mv). reflexivity.
Qed.
