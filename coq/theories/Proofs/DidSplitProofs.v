(* DIDUrl::parse as it is since fix 6c07746 (did_url_split_parse: the fragment, the query and the path are split off by
   identity_did itself, the DID goes through CoreDID::parse, the components through the setters).  For EVERY byte string:
   total, verbatim, components well formed, re-parses to itself - no exception for percent signs any more.
   Percent-free: accepts exactly the well-formed texts (same statement the third-party route satisfied). *)
From Coq Require Import List NArith Bool Lia.
From IdV Require Import Lib.Outcome Did.DidParse Proofs.DidProofs Proofs.DidUrlProofs Proofs.DidCompleteProofs Proofs.DidTotalProofs.
Import ListNotations.
Open Scope N_scope.

(* ---------- splitting ---------- *)
Lemma before_c_split c l : before_c c l ++ skipn (length (before_c c l)) l = l /\ ~ In c (before_c c l)
  /\ (skipn (length (before_c c l)) l = [] \/ exists t, skipn (length (before_c c l)) l = c :: t).
Proof. induction l as [|x l IH]; cbn [before_c]; [repeat split; [intros []|left; reflexivity]|]. destruct (x =? c) eqn:E.
  - apply N.eqb_eq in E. subst. cbn. repeat split; [intros []|right; exists l; reflexivity].
  - destruct IH as [A [B C]]. cbn [length skipn app]. repeat split; [f_equal; exact A| |exact C]. intros [H|H]; [apply N.eqb_neq in E; congruence|exact (B H)]. Qed.
Lemma before_c_app c a r : ~ In c a -> before_c c (a ++ c :: r) = a.
Proof. induction a as [|x a IH]; intros H; cbn [app before_c]; [rewrite N.eqb_refl; reflexivity|]. destruct (x =? c) eqn:E; [apply N.eqb_eq in E; subst; exfalso; apply H; left; reflexivity|].
  f_equal. apply IH. intros Hc. apply H. right. exact Hc. Qed.
Lemma before_c_none c a : ~ In c a -> before_c c a = a.
Proof. induction a as [|x a IH]; intros H; cbn [before_c]; [reflexivity|]. destruct (x =? c) eqn:E; [apply N.eqb_eq in E; subst; exfalso; apply H; left; reflexivity|].
  f_equal. apply IH. intros Hc. apply H. right. exact Hc. Qed.
Lemma skipn_app_len {A} (a r : list A) : skipn (length a) (a ++ r) = r.
Proof. induction a as [|x a IH]; cbn; [reflexivity|exact IH]. Qed.

(* ---------- the setters on a component with its delimiter ---------- *)
Lemma set_query_pref q uq : set_query (match q with Some x => Some (63 :: x) | None => None end) = Ok uq ->
  uq = option_map (cons 63) q /\ forall x, q = Some x -> x <> [] /\ valid_seg char_query x = true.
Proof. destruct q as [x|]; cbn [option_map]; [|intros H; injection H as <-; split; [reflexivity|intros x Hx; discriminate]].
  unfold set_query. change (strip1 63 (63 :: x)) with x. destruct (is_nil x || negb (valid_seg char_query x)) eqn:E; [discriminate|].
  intros H. injection H as <-. split; [reflexivity|]. intros y Hy. injection Hy as <-. apply orb_false_elim in E as [E1 E2]. apply negb_false_iff in E2.
  split; [intros ->; discriminate|exact E2]. Qed.
Lemma set_fragment_pref f uf : set_fragment (match f with Some x => Some (35 :: x) | None => None end) = Ok uf ->
  uf = option_map (cons 35) f /\ forall x, f = Some x -> x <> [] /\ valid_seg char_query x = true.
Proof. destruct f as [x|]; cbn [option_map]; [|intros H; injection H as <-; split; [reflexivity|intros x Hx; discriminate]].
  unfold set_fragment. change (strip1 35 (35 :: x)) with x. destruct (is_nil x || negb (valid_seg char_query x)) eqn:E; [discriminate|].
  intros H. injection H as <-. split; [reflexivity|]. intros y Hy. injection Hy as <-. apply orb_false_elim in E as [E1 E2]. apply negb_false_iff in E2.
  split; [intros ->; discriminate|exact E2]. Qed.
Lemma set_path_some p up : set_path (Some p) = Ok up -> oapp up = p /\ forall x, up = Some x -> x = p /\ exists t, p = 47 :: t /\ valid_seg char_path p = true.
Proof. intros H. pose proof (set_path_sound _ _ H) as S. destruct up as [x|]; cbn [oapp].
  - destruct S as [E [t [Et V]]]. injection E as <-. split; [reflexivity|]. intros y Hy. injection Hy as <-. split; [reflexivity|]. exists t. split; assumption.
  - destruct S as [S|S]; [discriminate|]. injection S as ->. split; [reflexivity|intros x Hx; discriminate]. Qed.

(* ---------- total, on every byte string ---------- *)
Lemma obind_total {A B E} (o : outcome A E) (f : A -> outcome B E) : o <> Panic -> (forall a, f a <> Panic) -> obind o f <> Panic.
Proof. intros H K. destruct o as [a|e|]; cbn [obind]; [apply K|discriminate|congruence]. Qed.
Theorem did_url_split_total s : did_url_split_parse s <> Panic.
Proof. unfold did_url_split_parse. cbv zeta. apply obind_total; [apply core_did_parse_total|]. intros mi.
  apply obind_total; [apply set_path_total|]. intros up. apply obind_total; [apply set_query_total|]. intros uq.
  apply obind_total; [apply set_fragment_total|]. intros uf. discriminate. Qed.

(* ---------- what an accepted value is, on every byte string ---------- *)
Theorem did_url_split_sound s u : did_url_split_parse s = Ok u ->
  did_url_to_string u = s
  /\ u_did u = [100; 105; 100; 58] ++ u_method u ++ [58] ++ u_mid u
  /\ u_method u <> [] /\ u_mid u <> [] /\ valid_method_name (u_method u) = true /\ valid_method_id (u_mid u) = true
  /\ (forall p, u_path u = Some p -> exists t, p = 47 :: t /\ valid_seg char_path p = true)
  /\ (forall q, u_query u = Some q -> exists t, q = 63 :: t /\ t <> [] /\ valid_seg char_query t = true /\ ~ In 35 t)
  /\ (forall f, u_frag u = Some f -> exists t, f = 35 :: t /\ t <> [] /\ valid_seg char_query t = true).
Proof. unfold did_url_split_parse. cbv zeta.
  set (rf := match split_once 35 s with Some (r, f) => (r, Some f) | None => (s, None) end).
  set (rq := match split_once 63 (fst rf) with Some (r, q) => (r, Some q) | None => (fst rf, None) end).
  set (did := before_c 47 (fst rq)). set (path := skipn (length did) (fst rq)).
  intros H. apply obind_ok in H as [[m i] [Hd H]]. apply obind_ok in H as [up [Hp H]]. apply obind_ok in H as [uq [Hq H]]. apply obind_ok in H as [uf [Hf H]].
  injection H as <-. cbn [u_did u_method u_mid u_path u_query u_frag fst snd].
  destruct (core_did_parse_sound _ _ _ Hd) as [Ed [Nm [Ni [Vm Vi]]]].
  destruct (set_path_some _ _ Hp) as [Ep Wp]. destruct (set_query_pref _ _ Hq) as [Eq Wq]. destruct (set_fragment_pref _ _ Hf) as [Ef Wf].
  (* the pieces put back together *)
  assert (Es : s = fst rf ++ optpre 35 (snd rf) /\ forall f, snd rf = Some f -> True).
  { unfold rf. destruct (split_once 35 s) as [[r f]|] eqn:E; cbn [fst snd optpre]; [destruct (split_once_some _ _ _ _ E) as [-> _]; split; [reflexivity|trivial]|rewrite app_nil_r; split; [reflexivity|trivial]]. }
  assert (Er : fst rf = fst rq ++ optpre 63 (snd rq) /\ forall q, snd rq = Some q -> ~ In 35 q).
  { assert (N35 : ~ In 35 (fst rf)).
    { unfold rf. destruct (split_once 35 s) as [[r f]|] eqn:E; cbn [fst]; [apply (split_once_some _ _ _ _ E)|apply (split_once_none _ _ E)]. }
    unfold rq. destruct (split_once 63 (fst rf)) as [[r q]|] eqn:E; cbn [fst snd optpre].
    - destruct (split_once_some _ _ _ _ E) as [E' _]. split; [exact E'|]. intros q' Hq'. injection Hq' as <-. intros Hc. apply N35. rewrite E'. apply in_or_app. right. right. exact Hc.
    - rewrite app_nil_r. split; [reflexivity|intros q' Hq'; discriminate]. }
  destruct (before_c_split 47 (fst rq)) as [Eb _]. fold did in Eb. fold path in Eb.
  destruct Es as [Es _]. destruct Er as [Er Er35]. clearbody path did. clearbody rq. clearbody rf.
  repeat split; try assumption.
  - unfold did_url_to_string. cbn [u_did u_path u_query u_frag]. rewrite Ep, Eq, Ef. rewrite Es, Er, <- Eb. rewrite <- !app_assoc. f_equal. f_equal.
    destruct (snd rq), (snd rf); reflexivity.
  - intros p Hp'. destruct (Wp p Hp') as [-> X]. exact X.
  - intros q Hq'. rewrite Eq in Hq'. destruct (snd rq) as [x|] eqn:Ex; [|discriminate]. cbn [option_map] in Hq'. injection Hq' as <-.
    destruct (Wq x eq_refl) as [A B]. exists x. repeat split; try assumption. apply Er35. reflexivity.
  - intros f Hf'. rewrite Ef in Hf'. destruct (snd rf) as [x|] eqn:Ex; [|discriminate]. cbn [option_map] in Hf'. injection Hf' as <-.
    destruct (Wf x eq_refl) as [A B]. exists x. repeat split; assumption. Qed.
(* every accepted value re-parses from its string form to itself, percent signs or not *)
Theorem did_url_split_reparse s u : did_url_split_parse s = Ok u -> did_url_split_parse (did_url_to_string u) = Ok u.
Proof. intros H. destruct (did_url_split_sound s u H) as [-> _]. exact H. Qed.
(* no surrounding blanks or control characters are accepted (every byte string) *)
Definition nonblank (c : N) : bool := negb (ctrl_or_space c).
Lemma trim_nonblank l : forallb nonblank l = true -> trim l = l.
Proof. assert (D : forall x, forallb nonblank x = true -> drop_while ctrl_or_space x = x).
  { intros [|c x]; [reflexivity|]. cbn [forallb drop_while]. intros H. apply andb_prop in H as [H _]. unfold nonblank in H. apply negb_true_iff in H. rewrite H. reflexivity. }
  intros H. unfold trim. rewrite (D l H). rewrite (D (rev l) (forallb_rev _ _ H)). apply rev_involutive. Qed.
Lemma hexdig_nonblank c : is_hexdig c = true -> nonblank c = true.
Proof. unfold is_hexdig, is_digit, nonblank, ctrl_or_space. intros H. apply negb_true_iff. apply orb_false_iff. split; [apply N.leb_gt|apply N.eqb_neq];
  repeat (apply orb_prop in H as [H|H]); apply andb_prop in H as [H1 H2]; apply N.leb_le in H1, H2; lia. Qed.
Lemma query_nonblank c : char_query c = true -> nonblank c = true.
Proof. intros H. apply char_query_plain in H. unfold plain_char in H. apply andb_prop in H as [_ H]. exact H. Qed.
Lemma valid_seg_nonblank ok : (forall c, ok c = true -> nonblank c = true) -> forall n l, (length l <= n)%nat -> valid_seg ok l = true -> forallb nonblank l = true.
Proof. intros Hok. induction n as [|n IH]; intros l L V; [destruct l; [reflexivity|cbn in L; lia]|]. destruct l as [|c r]; [reflexivity|]. cbn [valid_seg] in V. cbn [forallb].
  destruct (c =? 37) eqn:E.
  - apply N.eqb_eq in E. subst c. destruct r as [|h1 [|h2 r2]]; try discriminate. apply andb_prop in V as [V V3]. apply andb_prop in V as [V1 V2].
    cbn [forallb]. rewrite (hexdig_nonblank _ V1), (hexdig_nonblank _ V2). rewrite (IH r2); [reflexivity|cbn [length] in L; lia|exact V3].
  - apply andb_prop in V as [V1 V2]. rewrite (Hok _ V1). rewrite (IH r); [reflexivity|cbn [length] in L; lia|exact V2]. Qed.
Lemma valid_mid_seg : forall n l, (length l <= n)%nat -> valid_method_id l = valid_seg char_method_id l.
Proof. induction n as [|n IH]; intros l L; [destruct l; [reflexivity|cbn in L; lia]|]. destruct l as [|c r]; [reflexivity|]. cbn [valid_method_id valid_seg].
  destruct (c =? 37); [destruct r as [|h1 [|h2 r2]]; try reflexivity; rewrite (IH r2); [reflexivity|cbn [length] in L; lia]|rewrite (IH r); [reflexivity|cbn [length] in L; lia]]. Qed.
Theorem did_url_split_trimmed s u : did_url_split_parse s = Ok u -> trim s = s.
Proof. intros H. destruct (did_url_split_sound s u H) as [Es [Ed [Nm [Ni [Vm [Vi [Wp [Wq Wf]]]]]]]]. apply trim_nonblank. rewrite <- Es.
  unfold did_url_to_string. rewrite Ed. rewrite !forallb_app.
  assert (Hm : forallb nonblank (u_method u) = true).
  { unfold valid_method_name in Vm. revert Vm. apply forallb_imp. intros c Hc. apply query_nonblank. apply char_path_query, char_mid_path, char_method_mid. exact Hc. }
  assert (Hi : forallb nonblank (u_mid u) = true).
  { rewrite (valid_mid_seg _ _ (le_n _)) in Vi. apply (valid_seg_nonblank char_method_id) with (n := length (u_mid u)); [|apply le_n|exact Vi].
    intros c Hc. apply query_nonblank. apply char_path_query, char_mid_path. exact Hc. }
  rewrite Hm, Hi. cbn [forallb andb].
  assert (Hp : forallb nonblank (oapp (u_path u)) = true).
  { destruct (u_path u) as [p|]; [|reflexivity]. destruct (Wp p eq_refl) as [t [_ V]]. cbn [oapp]. apply (valid_seg_nonblank char_path) with (n := length p); [|apply le_n|exact V].
    intros c Hc. apply query_nonblank. apply char_path_query. exact Hc. }
  assert (Hq : forallb nonblank (oapp (u_query u)) = true).
  { destruct (u_query u) as [q|]; [|reflexivity]. destruct (Wq q eq_refl) as [t [-> [_ [V _]]]]. cbn [oapp forallb]. rewrite (valid_seg_nonblank char_query query_nonblank _ t (le_n _) V). reflexivity. }
  assert (Hf : forallb nonblank (oapp (u_frag u)) = true).
  { destruct (u_frag u) as [f|]; [|reflexivity]. destruct (Wf f eq_refl) as [t [-> [_ V]]]. cbn [oapp forallb]. rewrite (valid_seg_nonblank char_query query_nonblank _ t (le_n _) V). reflexivity. }
  rewrite Hp, Hq, Hf. reflexivity. Qed.

(* ---------- complete on the well-formed percent-free texts ---------- *)
Lemma class_notin (ok : N -> bool) c l : ok c = false -> forallb ok l = true -> ~ In c l.
Proof. intros Hc F Hi. rewrite forallb_forall in F. specialize (F c Hi). congruence. Qed.
Theorem did_url_split_complete m i p oq of : wf_parts m i p oq of ->
  did_url_split_parse (url_text m i p oq of)
  = Ok {| u_did := [100; 105; 100; 58] ++ m ++ [58] ++ i; u_method := m; u_mid := i;
          u_path := opt_nonempty p; u_query := option_map (cons 63) oq; u_frag := option_map (cons 35) of |}.
Proof. intros W. destruct (wf_m _ _ _ _ _ W) as [Nm Cm]. destruct (wf_i _ _ _ _ _ W) as [Ni Ci]. pose proof (wf_p_class _ _ _ _ _ W) as Cp.
  set (did := [100; 105; 100; 58] ++ m ++ [58] ++ i).
  assert (Cd : forallb char_path did = true).
  { unfold did. rewrite !forallb_app. rewrite (forallb_imp _ _ _ char_mid_path Ci). rewrite (forallb_imp _ _ _ (fun c H => char_mid_path c (char_method_mid c H)) Cm). reflexivity. }
  assert (Cdm : forallb char_method_id did = true).
  { unfold did. rewrite !forallb_app. rewrite Ci. rewrite (forallb_imp _ _ _ char_method_mid Cm). reflexivity. }
  assert (Et : url_text m i p oq of = (did ++ p) ++ optpre 63 oq ++ optpre 35 of) by (unfold url_text, did; rewrite <- !app_assoc; reflexivity).
  assert (N35dp : ~ In 35 (did ++ p)) by (apply (class_notin char_path); [reflexivity|rewrite forallb_app, Cd, Cp; reflexivity]).
  assert (N63dp : ~ In 63 (did ++ p)) by (apply (class_notin char_path); [reflexivity|rewrite forallb_app, Cd, Cp; reflexivity]).
  assert (N35q : forall q, oq = Some q -> ~ In 35 q).
  { intros q Hq Hi. destruct (wf_q _ _ _ _ _ W q Hq) as [_ [_ S]]. assert (existsb stop_query q = true) by (apply existsb_exists; exists 35; split; [exact Hi|reflexivity]). congruence. }
  assert (N47d : ~ In 47 did) by (apply (class_notin char_method_id); [reflexivity|exact Cdm]).
  unfold did_url_split_parse. cbv zeta. rewrite Et.
  (* fragment *)
  assert (S1 : (match split_once 35 ((did ++ p) ++ optpre 63 oq ++ optpre 35 of) with Some (r, f) => (r, Some f) | None => ((did ++ p) ++ optpre 63 oq ++ optpre 35 of, None) end)
               = ((did ++ p) ++ optpre 63 oq, of)).
  { destruct of as [f|]; cbn [optpre].
    - rewrite app_assoc. rewrite split_once_app; [reflexivity|]. intros Hc. apply in_app_or in Hc. destruct Hc as [Hc|Hc]; [exact (N35dp Hc)|].
      destruct oq as [q|]; cbn [optpre] in Hc; [destruct Hc as [Hc|Hc]; [discriminate|exact (N35q q eq_refl Hc)]|destruct Hc].
    - rewrite app_nil_r. rewrite split_once_notin; [reflexivity|]. intros Hc. apply in_app_or in Hc. destruct Hc as [Hc|Hc]; [exact (N35dp Hc)|].
      destruct oq as [q|]; cbn [optpre] in Hc; [destruct Hc as [Hc|Hc]; [discriminate|exact (N35q q eq_refl Hc)]|destruct Hc]. }
  rewrite S1. cbn [fst snd].
  assert (S2 : (match split_once 63 ((did ++ p) ++ optpre 63 oq) with Some (r, q) => (r, Some q) | None => ((did ++ p) ++ optpre 63 oq, None) end) = (did ++ p, oq)).
  { destruct oq as [q|]; cbn [optpre]; [rewrite split_once_app; [reflexivity|exact N63dp]|rewrite app_nil_r, split_once_notin; [reflexivity|exact N63dp]]. }
  rewrite S2. cbn [fst snd].
  assert (S3 : before_c 47 (did ++ p) = did).
  { destruct (wf_p _ _ _ _ _ W) as [->|[t [-> _]]]; [rewrite app_nil_r; apply before_c_none; exact N47d|apply before_c_app; exact N47d]. }
  rewrite S3. rewrite skipn_app_len.
  unfold did. rewrite (core_did_complete m i Nm Cm Ni Ci). cbn [obind fst snd].
  rewrite (set_path_of_wf _ _ _ _ _ W). cbn [obind].
  assert (Sq : set_query (match oq with Some x => Some (63 :: x) | None => None end) = Ok (option_map (cons 63) oq)).
  { apply set_query_of_class. intros q Hq. destruct (wf_q _ _ _ _ _ W q Hq) as [A [B _]]. split; assumption. }
  rewrite Sq. cbn [obind].
  assert (Sf : set_fragment (match of with Some x => Some (35 :: x) | None => None end) = Ok (option_map (cons 35) of)).
  { apply set_fragment_of_class. intros f Hf. exact (wf_f _ _ _ _ _ W f Hf). }
  rewrite Sf. cbn [obind]. reflexivity. Qed.

(* ---------- consequences, in the words of the property ---------- *)
Theorem split_wf_reparses u : wf_url u -> did_url_split_parse (did_url_to_string u) = Ok u.
Proof.
  intros [Ed [Nm [Cm [Ni [Ci [Wp [Wq Wf]]]]]]].
  destruct u as [d m i up uq uf]. cbn [u_did u_method u_mid u_path u_query u_frag] in *.
  set (p := oapp up).
  set (oq := match uq with Some (_ :: t) => Some t | _ => None end).
  set (of := match uf with Some (_ :: t) => Some t | _ => None end).
  assert (up = opt_nonempty p) as Ep.
  { unfold p. destruct up as [x|]; [|reflexivity]. destruct (Wp x eq_refl) as [t [-> _]]. reflexivity. }
  assert (uq = option_map (cons 63) oq) as Eq.
  { unfold oq. destruct uq as [x|]; [|reflexivity]. destruct (Wq x eq_refl) as [t [-> _]]. reflexivity. }
  assert (uf = option_map (cons 35) of) as Ef.
  { unfold of. destruct uf as [x|]; [|reflexivity]. destruct (Wf x eq_refl) as [t [-> _]]. reflexivity. }
  assert (wf_parts m i p oq of) as W.
  { constructor; auto.
    - unfold p. destruct up as [x|]; [|left; reflexivity]. right. exact (Wp x eq_refl).
    - intros q Hq. unfold oq in Hq. destruct uq as [x|]; [|discriminate]. destruct (Wq x eq_refl) as [t [-> [Nt [Ct St]]]].
      inversion Hq; subst q. auto.
    - intros f Hf. unfold of in Hf. destruct uf as [x|]; [|discriminate]. destruct (Wf x eq_refl) as [t [-> [Nt Ct]]].
      inversion Hf; subst f. auto. }
  pose proof (did_url_split_complete _ _ _ _ _ W) as C.
  assert (did_url_to_string {| u_did := d; u_method := m; u_mid := i; u_path := up; u_query := uq; u_frag := uf |} = url_text m i p oq of) as Es.
  { unfold did_url_to_string, url_text. cbn [u_did u_path u_query u_frag]. rewrite Ed, Eq, Ef. fold p.
    rewrite <- !app_assoc. destruct oq, of; reflexivity. }
  rewrite Es, C, <- Ed, <- Ep, <- Eq, <- Ef. reflexivity.
Qed.
(* percent-free: an accepted value is well formed in the percent-free sense, and the parser accepts EXACTLY the well-formed texts *)
Theorem split_parse_wf s u : no_pct s = true -> did_url_split_parse s = Ok u -> wf_url u.
Proof. intros NP H. destruct (did_url_split_sound s u H) as [Es [Ed [Nm [Ni [Vm [Vi [Wp [Wq Wf]]]]]]]].
  rewrite <- Es in NP. unfold did_url_to_string in NP. rewrite Ed in NP.
  apply no_pct_app in NP as [NPd NP]. apply no_pct_app in NPd as [_ NPd]. apply no_pct_app in NPd as [_ NPd]. apply no_pct_app in NPd as [_ NPi].
  apply no_pct_app in NP as [NPp NP]. apply no_pct_app in NP as [NPq NPf].
  unfold wf_url. repeat split; auto.
  - exact (valid_mid_class _ NPi Vi).
  - intros p Hp. destruct (Wp p Hp) as [t [Et V]]. exists t. split; [exact Et|]. rewrite Hp in NPp. cbn [oapp] in NPp. exact (valid_seg_class _ _ NPp V).
  - intros q Hq. destruct (Wq q Hq) as [t [Et [Nt [V N35]]]]. exists t. split; [exact Et|]. rewrite Hq in NPq. cbn [oapp] in NPq. subst q. apply no_pct_cons in NPq as [_ NPq].
    pose proof (valid_seg_class _ _ NPq V) as C. split; [exact Nt|]. split; [exact C|exact (class_excludes _ _ _ query_not_stop C)].
  - intros f Hf. destruct (Wf f Hf) as [t [Et [Nt V]]]. exists t. split; [exact Et|]. rewrite Hf in NPf. cbn [oapp] in NPf. subst f. apply no_pct_cons in NPf as [_ NPf].
    split; [exact Nt|exact (valid_seg_class _ _ NPf V)]. Qed.
Theorem split_accept_iff s : no_pct s = true ->
  ((exists u, did_url_split_parse s = Ok u) <-> exists m i p oq of, s = url_text m i p oq of /\ wf_parts m i p oq of).
Proof. intros NP. split.
  - intros [u H]. pose proof (split_parse_wf s u NP H) as W. destruct (did_url_split_sound s u H) as [Es _]. destruct (wf_url_parts u W) as [p [oq [of [Wp [Et _]]]]].
    exists (u_method u), (u_mid u), p, oq, of. split; [rewrite <- Es; exact Et|exact Wp].
  - intros [m [i [p [oq [of [-> W]]]]]]. eexists. apply did_url_split_complete, W. Qed.
(* the old (third-party) route and the new one agree on every percent-free string *)
Theorem split_agrees_with_third_party s : no_pct s = true -> forall u, did_url_split_parse s = Ok u <-> did_url_parse s = Ok u.
Proof. intros NP u. split; intros H.
  - pose proof (split_parse_wf s u NP H) as W. destruct (did_url_split_sound s u H) as [<- _]. apply wf_url_reparses. exact W.
  - pose proof (did_url_parse_wf s u NP H) as W. destruct (did_url_verbatim s u NP H) as [<- _]. apply split_wf_reparses. exact W. Qed.
(* setters and join on well-formed values give values that re-parse to themselves *)
Theorem split_set_path_reparses u v r : wf_url u -> set_path v = Ok r -> no_pct (oapp r) = true ->
  did_url_split_parse (did_url_to_string (with_path u r)) = Ok (with_path u r).
Proof.
  intros [Ed [Nm [Cm [Ni [Ci [Wp [Wq Wf]]]]]]] S NP. apply split_wf_reparses. unfold wf_url, with_path. cbn [u_did u_method u_mid u_path u_query u_frag].
  repeat split; auto. intros p Hp. subst r. apply set_path_sound in S. destruct S as [_ [t [Et V]]]. exists t. split; [exact Et|].
  exact (valid_seg_class _ _ NP V).
Qed.
Theorem split_set_query_reparses u v r : wf_url u -> set_query v = Ok r -> no_pct (oapp r) = true ->
  did_url_split_parse (did_url_to_string (with_query u r)) = Ok (with_query u r).
Proof.
  intros [Ed [Nm [Cm [Ni [Ci [Wp [Wq Wf]]]]]]] S NP. apply split_wf_reparses. unfold wf_url, with_query. cbn [u_did u_method u_mid u_path u_query u_frag].
  repeat split; auto. intros q Hq. subst r. apply set_query_sound in S. destruct S as [t [Et [Nt [V _]]]]. exists t. split; [exact Et|].
  subst q. cbn [oapp] in NP. apply no_pct_cons in NP as [_ NP]. pose proof (valid_seg_class _ _ NP V) as C.
  split; [exact Nt|]. split; [exact C|exact (class_excludes _ _ _ query_not_stop C)].
Qed.
Theorem split_set_fragment_reparses u v r : wf_url u -> set_fragment v = Ok r -> no_pct (oapp r) = true ->
  did_url_split_parse (did_url_to_string (with_frag u r)) = Ok (with_frag u r).
Proof.
  intros [Ed [Nm [Cm [Ni [Ci [Wp [Wq Wf]]]]]]] S NP. apply split_wf_reparses. unfold wf_url, with_frag. cbn [u_did u_method u_mid u_path u_query u_frag].
  repeat split; auto. intros f Hf. subst r. apply set_fragment_sound in S. destruct S as [t [Et [Nt [V _]]]]. exists t. split; [exact Et|].
  subst f. cbn [oapp] in NP. apply no_pct_cons in NP as [_ NP]. split; [exact Nt|exact (valid_seg_class _ _ NP V)].
Qed.
Theorem split_join_sound u seg j : wf_url u -> did_url_join u seg = Ok j ->
  u_did j = u_did u /\ u_method j = u_method u /\ u_mid j = u_mid u
  /\ (no_pct (did_url_to_string j) = true -> wf_url j /\ did_url_split_parse (did_url_to_string j) = Ok j).
Proof. intros W H. destruct (join_sound u seg j W H) as [A [B [C D]]]. split; [exact A|]. split; [exact B|]. split; [exact C|]. intros NP. destruct (D NP) as [Wj _]. split; [exact Wj|apply split_wf_reparses; exact Wj]. Qed.

(* ---- DIDUrl::join never panics, for EVERY receiver and EVERY segment: the receiver's text is not re-parsed (its DID may end in a percent
   triple), and the offsets parse_relative computes for the segment stay inside it even when the scanning loop overshoots at its end ---- *)
Lemma skipn_cons_lt {A} n (l : list A) x r : skipn n l = x :: r -> (n < length l)%nat /\ length l = (n + 1 + length r)%nat.
Proof.
  intros H. assert (length (skipn n l) = S (length r)) as L by (rewrite H; reflexivity). rewrite skipn_length in L. lia.
Qed.
Lemma tp_rel_bounds d c : tp_rel_offsets d = Ok c ->
  o_path c = O /\ (forall q, o_query c = Some q -> (q < length d)%nat)
  /\ (forall f, o_frag c = Some f -> (f < length d)%nat /\ match o_query c with Some q => (q < f)%nat | None => True end).
Proof.
  unfold tp_rel_offsets. intros H.
  destruct (match d with [] => Some O | c3 :: _ => if stop_path c3 then Some O else tp_loop stop_path char_path d end) as [n3|]; [|discriminate].
  destruct (skipn n3 d) as [|c4 r4'] eqn:S4.
  - inversion H; subst c; cbn. split; [reflexivity|]. split; intros ? X; discriminate.
  - destruct (skipn_cons_lt _ _ _ _ S4) as [L3 Ld].
    destruct (c4 =? 35) eqn:E35.
    + cbn iota in H. rewrite E35 in H. cbn [negb] in H. destruct (tp_loop stop_none char_query r4'); [|discriminate].
      inversion H; subst c; cbn. split; [reflexivity|]. split; [intros ? X; discriminate|]. intros f X. inversion X; subst f. split; [exact L3|exact I].
    + destruct (c4 =? 63) eqn:E63; [|discriminate].
      destruct (tp_loop stop_query char_query r4') as [n4|]; [|discriminate]. cbn iota in H.
      destruct (skipn n4 r4') as [|c5 r5'] eqn:S5.
      * inversion H; subst c; cbn. split; [reflexivity|]. split; [intros q X; inversion X; subst q; exact L3|intros ? X; discriminate].
      * destruct (skipn_cons_lt _ _ _ _ S5) as [L4 _].
        destruct (negb (c5 =? 35)); [discriminate|]. destruct (tp_loop stop_none char_query r5'); [|discriminate].
        inversion H; subst c; cbn. split; [reflexivity|]. split; [intros q X; inversion X; subst q; exact L3|].
        intros f X. inversion X; subst f. split; lia.
Qed.
Lemma tp_rel_offsets_total d : tp_rel_offsets d <> Panic.
Proof.
  unfold tp_rel_offsets. destruct (match d with [] => Some O | c3 :: _ => if stop_path c3 then Some O else tp_loop stop_path char_path d end) as [n3|]; [|discriminate].
  destruct (skipn n3 d) as [|c4 r4']; [discriminate|]. destruct (c4 =? 35).
  - cbn iota. destruct (negb (c4 =? 35)); [discriminate|]. destruct (tp_loop stop_none char_query r4'); discriminate.
  - destruct (c4 =? 63); [|discriminate]. destruct (tp_loop stop_query char_query r4') as [n4|]; [|discriminate]. cbn iota.
    destruct (skipn n4 r4') as [|c5 r5']; [discriminate|]. destruct (negb (c5 =? 35)); [discriminate|]. destruct (tp_loop stop_none char_query r5'); discriminate.
Qed.
Theorem join_total u seg : did_url_join u seg <> Panic.
Proof.
  unfold did_url_join. destruct seg as [|c0 seg']; [discriminate|]. destruct (negb _); [discriminate|].
  set (d := c0 :: seg').
  destruct (tp_rel_offsets d) as [rc|e|] eqn:R; cbn [obind]; [|discriminate|exfalso; exact (tp_rel_offsets_total _ R)].
  destruct (tp_rel_bounds _ _ R) as [Op [Oq Of]].
  assert (exists P, tp_path d rc = Ok P) as [P HP].
  { unfold tp_path, slice_from. rewrite Op. destruct (o_query rc) as [q|] eqn:Eq.
    - apply slice_in_range. specialize (Oq q eq_refl). lia.
    - destruct (o_frag rc) as [f|] eqn:Ef; apply slice_in_range; [destruct (Of f eq_refl); lia|lia]. }
  assert (exists Q, tp_query d rc = Ok Q) as [Q HQ].
  { unfold tp_query, slice_from. destruct (o_query rc) as [q|] eqn:Eq; [|eauto]. specialize (Oq q eq_refl).
    destruct (o_frag rc) as [f|] eqn:Ef.
    - destruct (Of f eq_refl) as [Lf Lq]. destruct (slice_in_range d (q + 1) f) as [y Hy]; [lia|]. rewrite Hy. cbn [obind]. eauto.
    - destruct (slice_in_range d (q + 1) (length d)) as [y Hy]; [lia|]. rewrite Hy. cbn [obind]. eauto. }
  assert (exists F, tp_fragment d rc = Ok F) as [F HF].
  { unfold tp_fragment, slice_from. destruct (o_frag rc) as [f|] eqn:Ef; [|eauto]. destruct (Of f eq_refl) as [Lf _].
    destruct (slice_in_range d (f + 1) (length d)) as [y Hy]; [lia|]. rewrite Hy. cbn [obind]. eauto. }
  rewrite HP, HQ, HF. cbn [obind]. cbv zeta.
  apply obind_total; [apply set_path_total|]. intros up. apply obind_total; [apply set_query_total|]. intros uq. apply obind_total; [apply set_fragment_total|]. intros uf.
  destruct (_ || _); discriminate.
Qed.
