(* C06 over the roaring wire model: only zlib is left as an assumption (round trip on byte strings, the 0x78 0x9C header of
   Compression::default(), bytes in, bytes out). *)
From Coq Require Import List NArith ZArith Bool Lia.
From IdV Require Import Lib.Base64 Doc.Doc Cred.Bitmap Cred.Roaring Proofs.Base64Proofs Proofs.BitmapProofs Proofs.RoaringProofs.
Import ListNotations.
Open Scope N_scope.

Section Zlib.
Variable zc : list N -> list N.
Variable zd : list N -> option (list N).
Hypothesis Hz1 : forall b, Forall byte_ok b -> zd (zc b) = Some b.
Hypothesis Hz2 : forall b, Forall byte_ok b -> exists r, zc b = 120 :: 156 :: r.
Hypothesis Hz3 : forall b, Forall byte_ok b -> Forall byte_ok (zc b).
Hypothesis Hz4 : forall z b, zd z = Some b -> Forall byte_ok b.

Lemma comp_dc s : valid_set s -> decomp_r zd (comp_r zc s) = Some s.
Proof. intros V. unfold decomp_r, comp_r. rewrite (Hz1 _ (rser_bytes s V)). apply rdecode_rser. exact V. Qed.
Lemma comp_zl s : valid_set s -> exists r, comp_r zc s = 120 :: 156 :: r.
Proof. intros V. apply Hz2. apply rser_bytes. exact V. Qed.
Lemma comp_by s : valid_set s -> Forall byte_ok (comp_r zc s).
Proof. intros V. apply Hz3. apply rser_bytes. exact V. Qed.
Lemma decomp_valid z s : decomp_r zd z = Some s -> valid_set s.
Proof. unfold decomp_r. destruct (zd z) as [b|] eqn:E; [|discriminate]. intros H. apply (rdecode_valid _ _ H (Hz4 _ _ E)). Qed.

Theorem r_service_roundtrip id s : valid_set s -> try_from_service (decomp_r zd) legacy_fixed (to_service (comp_r zc) id s) = Some s.
Proof. apply (service_roundtrip (comp_r zc) (decomp_r zd) comp_dc comp_zl comp_by). Qed.
Theorem r_legacy_decodes s : valid_set s -> deser64 (decomp_r zd) legacy_fixed (b64s_encode (ser64 (comp_r zc) s)) = Some s.
Proof. apply (legacy_decodes (comp_r zc) (decomp_r zd) comp_dc comp_zl comp_by). Qed.
Theorem r_revoke_exact d q idxs d' : Forall (fun x => x < 4294967296) idxs -> revoke_credentials (comp_r zc) (decomp_r zd) legacy_fixed d q idxs = Some d' ->
  exists bm bm', resolve_bitmap (decomp_r zd) legacy_fixed d q = Some bm /\ resolve_bitmap (decomp_r zd) legacy_fixed d' q = Some bm'
    /\ forall x, In x bm' <-> In x idxs \/ In x bm.
Proof. apply (revoke_exact (comp_r zc) (decomp_r zd) comp_dc comp_zl comp_by decomp_valid). Qed.
Theorem r_unrevoke_exact d q idxs d' : unrevoke_credentials (comp_r zc) (decomp_r zd) legacy_fixed d q idxs = Some d' ->
  exists bm bm', resolve_bitmap (decomp_r zd) legacy_fixed d q = Some bm /\ resolve_bitmap (decomp_r zd) legacy_fixed d' q = Some bm'
    /\ forall x, In x bm' <-> ~ In x idxs /\ In x bm.
Proof. apply (unrevoke_exact (comp_r zc) (decomp_r zd) comp_dc comp_zl comp_by decomp_valid). Qed.
(* whatever service decodes, decodes to a set that can be written back and read again *)
Theorem r_accepted_reencodes sv s : try_from_service (decomp_r zd) legacy_fixed sv = Some s ->
  valid_set s /\ forall id, try_from_service (decomp_r zd) legacy_fixed (to_service (comp_r zc) id s) = Some s.
Proof. intros H. assert (V : valid_set s).
  { unfold try_from_service, deser64 in H. destruct (negb (bs_type_ok sv)); [discriminate|]. destruct (bs_ep sv) as [t|]; [|discriminate].
    destruct (strip_prefix DATA_PREFIX t) as [enc|]; [|discriminate]. destruct (if legacy_fixed enc then _ else _) as [t'|]; [|discriminate].
    destruct (b64u_decode t') as [z|]; [|discriminate]. apply (decomp_valid _ _ H). }
  split; [exact V|]. intros id. apply r_service_roundtrip. exact V. Qed.
End Zlib.

(* what is asked of zlib can be met (so the theorems above are not vacuous): a "stored" stand-in *)
Lemma toy_forallb r : forallb (fun x => x <? 256) r = true <-> Forall byte_ok r.
Proof. rewrite forallb_forall, Forall_forall. unfold byte_ok. split; intros H x Hx; [apply N.ltb_lt|apply N.ltb_lt]; apply H; exact Hx. Qed.
Lemma toy_z1 b : Forall byte_ok b -> toy_zd (toy_zc b) = Some b.
Proof. intros F. unfold toy_zd, toy_zc. apply toy_forallb in F. rewrite F. reflexivity. Qed.
Lemma toy_z2 b : Forall byte_ok b -> exists r, toy_zc b = 120 :: 156 :: r.
Proof. intros _. exists b. reflexivity. Qed.
Lemma toy_z3 b : Forall byte_ok b -> Forall byte_ok (toy_zc b).
Proof. intros F. unfold toy_zc, byte_ok. constructor; [lia|constructor; [lia|exact F]]. Qed.
Lemma toy_z4 z b : toy_zd z = Some b -> Forall byte_ok b.
Proof. unfold toy_zd. destruct z as [|a [|c r]]; try discriminate. destruct ((a =? 120) && (c =? 156)); cbn [andb]; [|discriminate].
  destruct (forallb (fun x => x <? 256) r) eqn:E; [|discriminate]. intros H. injection H as <-. apply toy_forallb. exact E. Qed.
Theorem toy_service_roundtrip id s : valid_set s -> try_from_service (decomp_r toy_zd) legacy_fixed (to_service (comp_r toy_zc) id s) = Some s.
Proof. apply (r_service_roundtrip toy_zc toy_zd toy_z1 toy_z2 toy_z3). Qed.
Example toy_roundtrip_example : try_from_service (decomp_r toy_zd) legacy_fixed (to_service (comp_r toy_zc) {| u_did := 1%Z; u_rest := 0%Z; u_frag := Some 7%Z |} [3; 5; 70000; 4294967295]) = Some [3; 5; 70000; 4294967295].
Proof. vm_compute. reflexivity. Qed.
