From Coq Require Import List NArith Bool Arith Lia.
From IdV Require Import Lib.Outcome Did.DidParse.
Import ListNotations.
Open Scope N_scope.

Lemma list_eqb_eq a : forall b, list_eqb a b = true -> a = b.
Proof.
  induction a as [|x a IH]; intros [|y b] H; cbn in H; try discriminate; [reflexivity|].
  apply andb_prop in H as [H1 H2]. apply N.eqb_eq in H1. subst. f_equal. apply IH. exact H2.
Qed.

Lemma plain_loop_spec stop ok l : forall n, tp_loop_plain stop ok l = Some n ->
  (n <= length l)%nat /\ forallb ok (firstn n l) = true.
Proof.
  induction l as [|c r IH]; intros n H; cbn in H.
  - inversion H; subst. cbn. auto.
  - destruct (stop c); [inversion H; subst; cbn; split; [lia|reflexivity]|].
    destruct (ok c) eqn:E; [|discriminate].
    destruct (tp_loop_plain stop ok r) as [m|] eqn:L; [|discriminate]. inversion H; subst.
    destruct (IH m eq_refl) as [A B]. cbn [firstn forallb length]. rewrite E, B. split; [lia|reflexivity].
Qed.

(* what an accepted offset record says about the (trimmed) text *)
Lemma offsets_inv d c : tp_parse_offsets d = Ok c ->
  exists r1 n1 r2 n2, d = 100 :: 105 :: 100 :: 58 :: r1
    /\ tp_loop_plain is_colon char_method r1 = Some n1 /\ skipn n1 r1 = 58 :: r2
    /\ o_method c = 3%nat /\ o_mid c = (4 + n1)%nat /\ o_path c = (4 + n1 + 1 + n2)%nat.
Proof.
  unfold tp_parse_offsets. intros H.
  destruct d as [|a [|b [|c0 r0]]]; try discriminate.
  destruct ((a =? 100) && (b =? 105) && (c0 =? 100)) eqn:E; cbn [negb] in H; [|discriminate].
  apply andb_prop in E as [E E3]. apply andb_prop in E as [E1 E2].
  apply N.eqb_eq in E1, E2, E3. subst.
  destruct r0 as [|col r1]; [discriminate|].
  destruct (is_colon col) eqn:Ec; cbn [negb] in H; [|discriminate].
  unfold is_colon in Ec. apply N.eqb_eq in Ec. subst col.
  destruct (tp_loop_plain is_colon char_method r1) as [n1|] eqn:L1; [|discriminate].
  destruct (skipn n1 r1) as [|col2 r2] eqn:S1; [discriminate|].
  destruct (is_colon col2) eqn:Ec2; cbn [negb] in H; [|discriminate].
  unfold is_colon in Ec2. apply N.eqb_eq in Ec2. subst col2.
  destruct (tp_loop stop_mid char_method_id r2) as [n2|] eqn:L2; [|discriminate].
  exists r1, n1, r2, n2. split; [reflexivity|]. split; [exact L1|]. split; [exact S1|].
  match type of H with (match ?x with _ => _ end) = _ => destruct x as [n3|]; [|discriminate] end.
  destruct (skipn n3 (skipn n2 r2)) as [|c4 r4']; [inversion H; subst; cbn; auto|].
  match type of H with (match ?x with _ => _ end) = _ => destruct x as [[[oq r5] i5]|]; [|discriminate] end.
  destruct r5 as [|c5 r5']; [inversion H; subst; cbn; auto|].
  destruct (negb (c5 =? 35)); [discriminate|].
  destruct (tp_loop stop_none char_query r5'); [|discriminate].
  inversion H; subst; cbn; auto.
Qed.

Lemma skipn_succ {A} (l : list A) : forall n x r, skipn n l = x :: r -> skipn (n + 1) l = r.
Proof.
  induction l as [|y l IH]; intros [|n] x r H; cbn in *; try discriminate.
  - inversion H. reflexivity.
  - apply (IH n x r H).
Qed.

Lemma slice_ok data a b x : slice data a b = Ok x -> (a <= b <= length data)%nat /\ x = firstn (b - a) (skipn a data).
Proof.
  unfold slice. destruct ((b <=? length data)%nat && (a <=? b)%nat) eqn:E; [|discriminate].
  apply andb_prop in E as [E1 E2]. apply Nat.leb_le in E1, E2. intros H; inversion H. split; [lia|reflexivity].
Qed.

Lemma obind_ok {A B E} (o : outcome A E) (f : A -> outcome B E) b : obind o f = Ok b -> exists a, o = Ok a /\ f a = Ok b.
Proof. destruct o; cbn; intros H; try discriminate. eauto. Qed.

Lemma is_nil_true l : is_nil l = true -> l = [].
Proof. destruct l; [reflexivity|discriminate]. Qed.

(* CoreDID::parse, for EVERY byte string (no percent exclusion needed: check_validity re-validates
   the whole method id and the guards exclude the parser's offset overshoot) *)
Theorem core_did_parse_tp_sound s m i : core_did_parse_tp s = Ok (m, i) ->
  s = [100; 105; 100; 58] ++ m ++ [58] ++ i
  /\ m <> [] /\ i <> [] /\ valid_method_name m = true /\ valid_method_id i = true.
Proof.
  unfold core_did_parse_tp. intros H.
  destruct (list_eqb (trim s) s) eqn:T; cbn [negb] in H; [|discriminate].
  apply list_eqb_eq in T.
  destruct (ends_with_pct s); [discriminate|].
  apply obind_ok in H as [c [P V]].
  unfold tp_parse in P. rewrite T in P.
  apply obind_ok in P as [c0 [Po P]].
  apply obind_ok in P as [m0 [Pm P]].
  destruct (match m0 with [] => true | _ => false end) eqn:Em; [discriminate|].
  apply obind_ok in P as [i0 [Pi P]].
  destruct (match i0 with [] => true | _ => false end) eqn:Ei; [discriminate|].
  inversion P; subst c0; clear P.
  unfold check_validity in V.
  apply obind_ok in V as [m1 [Vm V]]. rewrite Pm in Vm. inversion Vm; subst m1; clear Vm.
  destruct (valid_method_name m0) eqn:Vn; cbn [negb] in V; [|discriminate].
  apply obind_ok in V as [i1 [Vi V]]. rewrite Pi in Vi. inversion Vi; subst i1; clear Vi.
  destruct (valid_method_id i0) eqn:Vd; cbn [negb] in V; [|discriminate].
  apply obind_ok in V as [p [Vp V]].
  apply obind_ok in V as [f [Vf V]].
  apply obind_ok in V as [q [Vq V]].
  destruct (negb (is_nil p) || match f with Some _ => true | None => false end || match q with Some _ => true | None => false end) eqn:U; [discriminate|].
  inversion V; subst m0 i0; clear V.
  apply orb_false_elim in U as [U Uq]. apply orb_false_elim in U as [Up Uf].
  apply negb_false_iff in Up. apply is_nil_true in Up. subst p.
  destruct f; [discriminate|]. destruct q; [discriminate|].
  (* no query and no fragment offsets *)
  assert (o_query c = None) as Oq.
  { unfold tp_query in Vq. destruct (o_query c) as [qq|]; [|reflexivity].
    destruct (o_frag c) as [ff|]; cbn in Vq.
    - destruct (slice s (qq + 1) ff); discriminate.
    - destruct (slice_from s (qq + 1)); discriminate. }
  assert (o_frag c = None) as Of.
  { unfold tp_fragment in Vf. destruct (o_frag c) as [ff|]; [|reflexivity].
    cbn in Vf. destruct (slice_from s (ff + 1)); discriminate. }
  unfold tp_path in Vp. rewrite Oq, Of in Vp. unfold slice_from in Vp.
  apply slice_ok in Vp as [Rp Ep].
  destruct (offsets_inv _ _ Po) as [r1 [n1 [r2 [n2 [Es [L1 [S1 [Om [Oi Op]]]]]]]]].
  unfold tp_method in Pm. unfold tp_method_id in Pi. rewrite Om, Oi in Pm. rewrite Oi in Pi.
  apply slice_ok in Pm as [Rm Emm]. apply slice_ok in Pi as [Ri Eii].
  (* the path is empty, so the path offset is the end of the text *)
  assert (o_path c = length s) as Lp.
  { symmetry in Ep. apply (f_equal (@length N)) in Ep. rewrite firstn_length, skipn_length in Ep. cbn in Ep. lia. }
  destruct (plain_loop_spec _ _ _ _ L1) as [Ln1 Fn1].
  pose proof (firstn_skipn n1 r1) as FS. rewrite S1 in FS.
  assert (m = firstn n1 r1) as Hm.
  { rewrite Emm, Es. replace (4 + n1 - (3 + 1))%nat with n1 by lia. reflexivity. }
  assert (skipn (n1 + 1) r1 = r2) as Sk.
  { apply (skipn_succ r1 n1 58 r2 S1). }
  assert (i = r2) as Hi.
  { rewrite Eii, Lp, Es.
    replace (4 + n1 + 1)%nat with (4 + (n1 + 1))%nat by lia.
    change (skipn (4 + (n1 + 1)) (100 :: 105 :: 100 :: 58 :: r1)) with (skipn (n1 + 1) r1).
    rewrite Sk. apply firstn_all2.
    assert (length r1 = (n1 + S (length r2))%nat) as Lr.
    { rewrite <- FS. rewrite app_length, firstn_length. cbn [length]. lia. }
    cbn [length]. lia. }
  clear Emm Eii. subst m i. repeat split.
  - rewrite Es. cbn [app]. do 4 f_equal. symmetry. exact FS.
  - intros E. rewrite E in Em. discriminate.
  - intros E. rewrite E in Ei. discriminate.
  - exact Vn.
  - exact Vd.
Qed.

(* W3C: a method-specific id validated by valid_method_id consists of idchars and
   well-formed pct-encoded triples only: decomposition into tokens *)
Inductive mid_token : list N -> Prop :=
| MT_nil : mid_token []
| MT_char c r : char_method_id c = true -> c <> 37 -> mid_token r -> mid_token (c :: r)
| MT_pct h1 h2 r : is_hexdig h1 = true -> is_hexdig h2 = true -> mid_token r -> mid_token (37 :: h1 :: h2 :: r).
Lemma valid_method_id_tokens : forall n s, (length s <= n)%nat -> valid_method_id s = true -> mid_token s.
Proof.
  induction n as [|n IH]; intros s L V.
  - destruct s; [constructor|cbn in L; lia].
  - destruct s as [|c r]; [constructor|]. cbn [valid_method_id] in V.
    destruct (c =? 37) eqn:E.
    + apply N.eqb_eq in E. subst. destruct r as [|h1 [|h2 r2]]; try discriminate.
      apply andb_prop in V as [V V3]. apply andb_prop in V as [V1 V2].
      apply MT_pct; auto. apply IH; [cbn in L; cbn; lia|exact V3].
    + apply andb_prop in V as [V1 V2]. apply MT_char; auto.
      * apply N.eqb_neq. exact E.
      * apply IH; [cbn in L; lia|exact V2].
Qed.

(* a plain DID has no URL parts: none of / ? # occurs in an accepted DID's components *)
Lemma char_method_no_delim c : char_method c = true -> stop_mid c = false.
Proof.
  unfold char_method, stop_mid, is_digit, is_lower. intros H.
  destruct (c =? 47) eqn:A; [apply N.eqb_eq in A; subst; discriminate|].
  destruct (c =? 63) eqn:B; [apply N.eqb_eq in B; subst; discriminate|].
  destruct (c =? 35) eqn:C; [apply N.eqb_eq in C; subst; discriminate|]. reflexivity.
Qed.
Lemma char_mid_no_delim c : char_method_id c = true -> stop_mid c = false.
Proof.
  unfold char_method_id, stop_mid, is_digit, is_lower, is_upper. intros H.
  destruct (c =? 47) eqn:A; [apply N.eqb_eq in A; subst; discriminate|].
  destruct (c =? 63) eqn:B; [apply N.eqb_eq in B; subst; discriminate|].
  destruct (c =? 35) eqn:C; [apply N.eqb_eq in C; subst; discriminate|]. reflexivity.
Qed.
Lemma hexdig_no_delim c : is_hexdig c = true -> stop_mid c = false.
Proof.
  unfold is_hexdig, stop_mid, is_digit. intros H.
  destruct (c =? 47) eqn:A; [apply N.eqb_eq in A; subst; discriminate|].
  destruct (c =? 63) eqn:B; [apply N.eqb_eq in B; subst; discriminate|].
  destruct (c =? 35) eqn:C; [apply N.eqb_eq in C; subst; discriminate|]. reflexivity.
Qed.
Lemma tokens_no_delim s : mid_token s -> existsb stop_mid s = false.
Proof.
  induction 1; cbn; [reflexivity| |].
  - rewrite (char_mid_no_delim _ H). exact IHmid_token.
  - rewrite (hexdig_no_delim _ H), (hexdig_no_delim _ H0). exact IHmid_token.
Qed.
Lemma method_no_delim m : forallb char_method m = true -> existsb stop_mid m = false.
Proof.
  induction m as [|c r IH]; [reflexivity|]. cbn. intros V.
  apply andb_prop in V as [A B]. rewrite (char_method_no_delim _ A). auto.
Qed.
(* ---- str::split_once ---- *)
Lemma split_once_some c l : forall a b, split_once c l = Some (a, b) -> l = a ++ c :: b /\ ~ In c a.
Proof. induction l as [|x l IH]; intros a b; cbn [split_once]; [discriminate|]. destruct (x =? c) eqn:E.
  - intros H. injection H as <- <-. apply N.eqb_eq in E. subst x. split; [reflexivity|intros []].
  - destruct (split_once c l) as [[a' b']|]; [|discriminate]. intros H. injection H as <- <-. destruct (IH a' b' eq_refl) as [-> Hn].
    split; [reflexivity|]. intros [Hx|Hx]; [subst x; rewrite N.eqb_refl in E; discriminate|exact (Hn Hx)]. Qed.
Lemma split_once_none c l : split_once c l = None -> ~ In c l.
Proof. induction l as [|x l IH]; cbn [split_once]; [intros _ []|]. destruct (x =? c) eqn:E; [discriminate|]. destruct (split_once c l) as [[a b]|]; [discriminate|].
  intros _ [Hx|Hx]; [subst x; rewrite N.eqb_refl in E; discriminate|exact (IH eq_refl Hx)]. Qed.
Lemma split_once_app c a b : ~ In c a -> split_once c (a ++ c :: b) = Some (a, b).
Proof. induction a as [|x a IH]; intros H; cbn [app split_once]; [rewrite N.eqb_refl; reflexivity|].
  destruct (x =? c) eqn:E; [apply N.eqb_eq in E; subst x; exfalso; apply H; left; reflexivity|]. rewrite IH; [reflexivity|]. intros Hc. apply H. right. exact Hc. Qed.
Lemma split_once_notin c l : ~ In c l -> split_once c l = None.
Proof. induction l as [|x l IH]; intros H; cbn [split_once]; [reflexivity|]. destruct (x =? c) eqn:E; [apply N.eqb_eq in E; subst; exfalso; apply H; left; reflexivity|].
  rewrite IH; [reflexivity|]. intros Hc. apply H. right. exact Hc. Qed.

(* CoreDID::parse (own splitter), for EVERY byte string *)
Theorem core_did_parse_sound s m i : core_did_parse s = Ok (m, i) ->
  s = [100; 105; 100; 58] ++ m ++ [58] ++ i
  /\ m <> [] /\ i <> [] /\ valid_method_name m = true /\ valid_method_id i = true.
Proof.
  unfold core_did_parse. intros H. destruct s as [|a [|b [|c [|col rest]]]]; try discriminate.
  - destruct (negb _); discriminate.
  - destruct ((a =? 100) && (b =? 105) && (c =? 100)) eqn:E3; cbn [negb] in H; [|discriminate].
    apply andb_prop in E3 as [E3 Ec]. apply andb_prop in E3 as [Ea Eb]. apply N.eqb_eq in Ea, Eb, Ec. subst a b c.
    unfold is_colon in H. destruct (col =? 58) eqn:E4; cbn [negb] in H; [|discriminate]. apply N.eqb_eq in E4. subst col.
    destruct (split_once 58 rest) as [[m' i']|] eqn:S; cbn [fst snd] in H.
    + destruct (is_nil m' || negb (valid_method_name m')) eqn:G1; [discriminate|]. destruct (is_nil i' || negb (valid_method_id i')) eqn:G2; [discriminate|].
      injection H as <- <-. apply orb_false_elim in G1 as [N1 V1]. apply orb_false_elim in G2 as [N2 V2]. apply negb_false_iff in V1, V2.
      destruct (split_once_some _ _ _ _ S) as [-> _]. repeat split; auto; intros ->; discriminate.
    + cbn [is_nil] in H. destruct (is_nil rest || negb (valid_method_name rest)); [discriminate|]. cbn [orb] in H. discriminate.
Qed.

Theorem core_did_no_url_parts s m i : core_did_parse s = Ok (m, i) ->
  existsb stop_mid m = false /\ existsb stop_mid i = false.
Proof.
  intros H. destruct (core_did_parse_sound _ _ _ H) as [_ [_ [_ [Vm Vi]]]]. split.
  - apply method_no_delim. exact Vm.
  - apply tokens_no_delim. apply (valid_method_id_tokens (length i)); [lia|exact Vi].
Qed.

(* setters: an accepted component is stored with its delimiter and is a valid segment; a rejected
   call returns Err (the caller's value is left as it was: the setter assigns only on Ok) *)
Theorem set_path_sound v r : set_path v = Ok r ->
  match r with
  | None => v = None \/ v = Some []
  | Some p => v = Some p /\ exists t, p = 47 :: t /\ valid_seg char_path p = true
  end.
Proof.
  unfold set_path. destruct v as [[|c t]|]; intros H; try (inversion H; subst; auto; fail).
  destruct ((c =? 47) && valid_seg char_path (c :: t)) eqn:E; [|discriminate]. inversion H; subst.
  apply andb_prop in E as [E1 E2]. apply N.eqb_eq in E1. subst. split; [reflexivity|]. eauto.
Qed.
Theorem set_query_sound v r : set_query v = Ok r ->
  match r with
  | None => v = None \/ v = Some []
  | Some q => exists t, q = 63 :: t /\ t <> [] /\ valid_seg char_query t = true /\ (v = Some t \/ v = Some q)
  end.
Proof.
  unfold set_query. destruct v as [[|c t]|]; intros H; try (inversion H; subst; auto; fail).
  destruct (is_nil (strip1 63 (c :: t)) || negb (valid_seg char_query (strip1 63 (c :: t)))) eqn:E; [discriminate|].
  inversion H; subst. apply orb_false_elim in E as [E1 E2]. apply negb_false_iff in E2.
  exists (strip1 63 (c :: t)). repeat split; auto.
  - intros X. rewrite X in E1. discriminate.
  - unfold strip1. destruct (c =? 63) eqn:C; [right; apply N.eqb_eq in C; subst; reflexivity|left; reflexivity].
Qed.
Theorem set_fragment_sound v r : set_fragment v = Ok r ->
  match r with
  | None => v = None \/ v = Some []
  | Some q => exists t, q = 35 :: t /\ t <> [] /\ valid_seg char_query t = true /\ (v = Some t \/ v = Some q)
  end.
Proof.
  unfold set_fragment. destruct v as [[|c t]|]; intros H; try (inversion H; subst; auto; fail).
  destruct (is_nil (strip1 35 (c :: t)) || negb (valid_seg char_query (strip1 35 (c :: t)))) eqn:E; [discriminate|].
  inversion H; subst. apply orb_false_elim in E as [E1 E2]. apply negb_false_iff in E2.
  exists (strip1 35 (c :: t)). repeat split; auto.
  - intros X. rewrite X in E1. discriminate.
  - unfold strip1. destruct (c =? 35) eqn:C; [right; apply N.eqb_eq in C; subst; reflexivity|left; reflexivity].
Qed.

(* DIDUrl::parse: every component of an accepted value is well-formed (all inputs) *)
Theorem did_url_components_wf s u : did_url_parse s = Ok u ->
  u_method u <> [] /\ valid_method_name (u_method u) = true /\ valid_method_id (u_mid u) = true
  /\ (forall p, u_path u = Some p -> exists t, p = 47 :: t /\ valid_seg char_path p = true)
  /\ (forall q, u_query u = Some q -> exists t, q = 63 :: t /\ t <> [] /\ valid_seg char_query t = true)
  /\ (forall f, u_frag u = Some f -> exists t, f = 35 :: t /\ t <> [] /\ valid_seg char_query t = true).
Proof.
  unfold did_url_parse. intros H.
  destruct (list_eqb (trim s) s); cbn [negb] in H; [|discriminate].
  apply obind_ok in H as [c [P H]].
  apply obind_ok in H as [p [Hp H]].
  apply obind_ok in H as [up [Sp H]].
  apply obind_ok in H as [q [Hq H]].
  apply obind_ok in H as [uq [Sq H]].
  apply obind_ok in H as [f [Hf H]].
  apply obind_ok in H as [uf [Sf H]].
  apply obind_ok in H as [[m i] [V H]].
  inversion H; subst u; clear H. cbn [u_method u_mid u_path u_query u_frag fst snd].
  unfold check_validity in V.
  apply obind_ok in V as [m1 [Vm V]].
  destruct (valid_method_name m1) eqn:Vn; cbn [negb] in V; [|discriminate].
  apply obind_ok in V as [i1 [Vi V]].
  destruct (valid_method_id i1) eqn:Vd; cbn [negb] in V; [|discriminate].
  apply obind_ok in V as [p1 [_ V]]. apply obind_ok in V as [f1 [_ V]]. apply obind_ok in V as [q1 [_ V]].
  destruct (negb (is_nil p1) || _ || _); [discriminate|]. inversion V; subst m1 i1; clear V.
  (* method non-empty: the same slice of the stored text was tested by tp_parse *)
  assert (m <> []) as Mne.
  { unfold tp_parse in P. apply obind_ok in P as [c0 [_ P]]. apply obind_ok in P as [m0 [Pm P]].
    destruct (match m0 with [] => true | _ => false end) eqn:Em; [discriminate|].
    apply obind_ok in P as [i0 [_ P]]. destruct (match i0 with [] => true | _ => false end); [discriminate|].
    inversion P; subst c0. unfold tp_method in Pm, Vm. cbn [o_method o_mid] in Vm.
    apply slice_ok in Pm as [R1 E1]. apply slice_ok in Vm as [R2 E2].
    assert (length m0 <> 0)%nat as L0 by (destruct m0; [discriminate|cbn; lia]).
    rewrite E1, firstn_length, skipn_length in L0.
    intros X. apply (f_equal (@length N)) in E2. rewrite X, firstn_length, skipn_length in E2. cbn [length] in E2. lia. }
  repeat split; auto.
  - intros p0 E. subst up. apply set_path_sound in Sp as [_ X]. exact X.
  - intros q0 E. subst uq. apply set_query_sound in Sq as [t [A [B [C _]]]]. eauto.
  - intros f0 E. subst uf. apply set_fragment_sound in Sf as [t [A [B [C _]]]]. eauto.
Qed.

(* the third-party parser alone is refuted (finding F8/F9, class K_pct): a byte after a
   percent-encoded triple is swallowed unvalidated, and a trailing triple overshoots *)
Theorem tp_pct_swallow_refuted :
  tp_loop stop_mid char_method_id [37; 52; 49; 35; 120] = Some 5%nat      (* "%41#x": '#' swallowed *)
  /\ tp_loop stop_mid char_method_id [37; 52; 49] = Some 4%nat.          (* "%41": cursor = len + 1 *)
Proof. split; reflexivity. Qed.
Theorem did_url_pct_panics : did_url_parse [100;105;100;58;97;58;37;52;49] = Panic.   (* did:a:%41 *)
Proof. vm_compute. reflexivity. Qed.
