From Coq Require Import List NArith Bool Lia.
From IdV Require Import Lib.Base64 Lib.Sha256 Jose.Jwk Jose.Thumbprint.
Import ListNotations.
Open Scope N_scope.

(* SHA-256 always yields 32 bytes *)
Lemma be_bytes_length n x : length (be_bytes n x) = n.
Proof. revert x. induction n as [|n IH]; intros x; cbn [be_bytes]; [reflexivity|]. rewrite app_length, IH. cbn. lia. Qed.
Lemma be_bytes_lt n : forall x, Forall (fun b => b < 256) (be_bytes n x).
Proof. induction n as [|n IH]; intros x; cbn [be_bytes]; [constructor|]. apply Forall_app. split; [apply IH|]. constructor; [|constructor]. apply N.mod_lt. discriminate. Qed.
Lemma compress_length h b : length (compress h b) = 8%nat.
Proof. reflexivity. Qed.
Lemma blocks_length fuel : forall h bs, length h = 8%nat -> length (blocks fuel h bs) = 8%nat.
Proof. induction fuel as [|f IH]; intros h bs H; cbn [blocks]; [exact H|]. destruct bs; [exact H|]. apply IH. apply compress_length. Qed.
Lemma flat_map_be4_length l : length (flat_map (be_bytes 4) l) = (4 * length l)%nat.
Proof. induction l as [|x l IH]; [reflexivity|]. cbn [flat_map]. rewrite app_length, be_bytes_length, IH. cbn [length]. lia. Qed.
Theorem sha256_length msg : length (sha256 msg) = 32%nat.
Proof. unfold sha256. rewrite flat_map_be4_length, blocks_length; reflexivity. Qed.
Theorem sha256_bytes msg : Forall (fun b => b < 256) (sha256 msg).
Proof. unfold sha256. generalize (blocks (S (Nat.div (length (pad msg)) 64)) H256 (pad msg)). intros l. induction l as [|x l IH]; cbn [flat_map]; [constructor|].
  apply Forall_app. split; [apply be_bytes_lt|exact IH]. Qed.

(* the thumbprint depends on nothing but the declared key type, the parameter family and the values of the REQUIRED members:
   optional members, private members, member order in the source and anything else about the key cannot influence it *)
Theorem thumb_text_required_only kty family get get' :
  (forall n, In n (thumb_names family) -> n <> n_kty -> get n = get' n) -> thumb_text kty family get = thumb_text kty family get'.
Proof. intros H. unfold thumb_text. f_equal. f_equal. f_equal. apply map_ext_in. intros n Hn. destruct (list_eq_dec N.eq_dec n n_kty) as [E|E]; [reflexivity|]. rewrite (H n Hn E). reflexivity. Qed.
Theorem thumbprint_required_only_bytes kty family get get' :
  (forall n, In n (thumb_names family) -> n <> n_kty -> get n = get' n) -> thumbprint_b64 kty family get = thumbprint_b64 kty family get'.
Proof. intros H. unfold thumbprint_b64, thumbprint. rewrite (thumb_text_required_only kty family get get' H). reflexivity. Qed.
(* RFC 7638 section 3.1 example key: the thumbprint is NzbLsXh8uDCcd-6MNwXF4W_7noWXFZAfHkxZsRGC9Xs *)
Example rfc7638_example :
  let n := [48;118;120;55;97;103;111;101;98;71;99;81;83;117;117;80;105;76;74;88;90;112;116;78;57;110;110;100;114;81;109;98;88;69;112;115;50;97;105;65;70;98;87;104;77;55;56;76;104;87;120;52;99;98;98;102;65;65;116;86;84;56;54;122;119;117;49;82;75;55;97;80;70;70;120;117;104;68;82;49;76;54;116;83;111;99;95;66;74;69;67;80;101;98;87;75;82;88;106;66;90;67;105;70;86;52;110;51;111;107;110;106;104;77;115;116;110;54;52;116;90;95;50;87;45;53;74;115;71;89;52;72;99;53;110;57;121;66;88;65;114;119;108;57;51;108;113;116;55;95;82;78;53;119;54;67;102;48;104;52;81;121;81;53;118;45;54;53;89;71;106;81;82;48;95;70;68;87;50;81;118;122;113;89;51;54;56;81;81;77;105;99;65;116;97;83;113;122;115;56;75;74;90;103;110;89;98;57;99;55;100;48;122;103;100;65;90;72;122;117;54;113;77;81;118;82;76;53;104;97;106;114;110;49;110;57;49;67;98;79;112;98;73;83;68;48;56;113;78;76;121;114;100;107;116;45;98;70;84;87;104;65;73;52;118;77;81;70;104;54;87;101;90;117;48;102;77;52;108;70;100;50;78;99;82;119;114;51;88;80;107;115;73;78;72;97;81;45;71;95;120;66;110;105;73;113;98;119;48;76;115;49;106;70;52;52;45;99;115;70;67;117;114;45;107;69;103;85;56;97;119;97;112;74;122;75;110;113;68;75;103;119] in
  thumbprint_b64 KRsa KRsa (fun name => if list_eq_dec N.eq_dec name n_e then [65;81;65;66] else n)
  = [78;122;98;76;115;88;104;56;117;68;67;99;100;45;54;77;78;119;88;70;52;87;95;55;110;111;87;88;70;90;65;102;72;107;120;90;115;82;71;67;57;88;115].
Proof. vm_compute. reflexivity. Qed.
