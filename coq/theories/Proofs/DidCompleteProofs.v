(* C10 / C17, completeness: every percent-free string "did:" m ":" i [path] ["?" q] ["#" f] whose components are
   in their character classes IS accepted by DIDUrl::parse / CoreDID::parse and decomposes into exactly those
   components.  Together with did_url_verbatim (soundness) this gives: an accepted value re-parses from its
   string form to itself, and a setter that succeeds yields a value that re-parses to itself. *)
From Coq Require Import List NArith Bool Arith Lia.
From IdV Require Import Lib.Outcome Did.DidParse Proofs.DidProofs Proofs.DidUrlProofs.
Import ListNotations.
Open Scope N_scope.

(* ---- character classes: no class contains '%', a blank or a control character ---- *)
Definition plain_char (c : N) : bool := negb (c =? 37) && negb (ctrl_or_space c).

Lemma char_query_plain c : char_query c = true -> plain_char c = true.
Proof.
  unfold plain_char, ctrl_or_space. intros H.
  destruct (c =? 37) eqn:E1; [apply N.eqb_eq in E1; subst; discriminate|].
  destruct (c <=? 32) eqn:E2.
  { exfalso. apply N.leb_le in E2. revert H.
    unfold char_query, char_path, char_method_id, is_digit, is_lower, is_upper.
    repeat match goal with |- context [?a <=? ?b] => destruct (N.leb_spec a b); try lia end;
    repeat match goal with |- context [?a =? ?b] => destruct (N.eqb_spec a b); try lia end; cbn; discriminate. }
  destruct (c =? 127) eqn:E3; [apply N.eqb_eq in E3; subst; discriminate|]. reflexivity.
Qed.
Lemma char_path_query c : char_path c = true -> char_query c = true.
Proof. unfold char_query. intros ->. reflexivity. Qed.
Lemma char_mid_path c : char_method_id c = true -> char_path c = true.
Proof. unfold char_path. intros ->. reflexivity. Qed.
Lemma char_method_mid c : char_method c = true -> char_method_id c = true.
Proof. unfold char_method, char_method_id. intros H. apply orb_prop in H as [H|H]; rewrite H; rewrite ?orb_true_r; reflexivity. Qed.

Lemma forallb_imp {A} (p q : A -> bool) l : (forall x, p x = true -> q x = true) -> forallb p l = true -> forallb q l = true.
Proof. intros I. induction l as [|x l IH]; cbn [forallb]; [auto|]. intros H. apply andb_prop in H as [H1 H2]. rewrite (I _ H1), (IH H2). reflexivity. Qed.

Lemma plain_no_pct l : forallb plain_char l = true -> no_pct l = true.
Proof.
  unfold no_pct. induction l as [|c l IH]; [reflexivity|]. cbn [forallb existsb]. intros H. apply andb_prop in H as [H1 H2].
  unfold plain_char in H1. apply andb_prop in H1 as [H1 _]. rewrite N.eqb_sym. apply negb_true_iff in H1. rewrite H1. cbn [orb]. exact (IH H2).
Qed.

(* ---- trimming is the identity on strings without blanks / control characters ---- *)
Lemma drop_while_plain l : forallb plain_char l = true -> drop_while ctrl_or_space l = l.
Proof.
  destruct l as [|c l]; [reflexivity|]. cbn [forallb drop_while]. intros H. apply andb_prop in H as [H _].
  unfold plain_char in H. apply andb_prop in H as [_ H]. apply negb_true_iff in H. rewrite H. reflexivity.
Qed.
Lemma forallb_rev {A} (p : A -> bool) l : forallb p l = true -> forallb p (rev l) = true.
Proof. rewrite !forallb_forall. intros H x Hx. apply H. apply in_rev. exact Hx. Qed.
Lemma trim_plain l : forallb plain_char l = true -> trim l = l.
Proof.
  intros H. unfold trim. rewrite (drop_while_plain l H). rewrite (drop_while_plain (rev l) (forallb_rev _ _ H)). apply rev_involutive.
Qed.

(* ---- the scanning loop on a run of allowed characters followed by a stop character or the end ---- *)
Definition boundary (stop : N -> bool) (b : list N) : Prop := b = [] \/ exists c r, b = c :: r /\ stop c = true.

Lemma plain_loop_complete stop ok a b :
  forallb ok a = true -> existsb stop a = false -> boundary stop b -> tp_loop_plain stop ok (a ++ b) = Some (length a).
Proof.
  intros Ho Hs Hb. induction a as [|c a IH]; cbn [app length].
  - destruct Hb as [->|[c [r [-> Hc]]]]; cbn [tp_loop_plain]; [reflexivity|rewrite Hc; reflexivity].
  - cbn [forallb existsb] in Ho, Hs. apply andb_prop in Ho as [Ho1 Ho2]. apply orb_false_elim in Hs as [Hs1 Hs2].
    cbn [tp_loop_plain]. rewrite Hs1, Ho1, (IH Ho2 Hs2). reflexivity.
Qed.
Lemma loop_complete stop ok a b :
  forallb ok a = true -> existsb stop a = false -> no_pct a = true -> boundary stop b -> tp_loop stop ok (a ++ b) = Some (length a).
Proof.
  intros Ho Hs Hp Hb. induction a as [|c a IH]; cbn [app length].
  - destruct Hb as [->|[c [r [-> Hc]]]]; cbn [tp_loop]; [reflexivity|rewrite Hc; reflexivity].
  - cbn [forallb existsb] in Ho, Hs. apply andb_prop in Ho as [Ho1 Ho2]. apply orb_false_elim in Hs as [Hs1 Hs2].
    apply no_pct_cons in Hp as [Hp1 Hp2].
    cbn [tp_loop]. rewrite Hs1, Hp1, Ho1, (IH Ho2 Hs2 Hp2). reflexivity.
Qed.

Lemma stop_none_never l : existsb stop_none l = false.
Proof. induction l; [reflexivity|exact IHl]. Qed.

(* a class that excludes the stop characters *)
Lemma class_excludes (ok stop : N -> bool) l : (forall c, ok c = true -> stop c = false) -> forallb ok l = true -> existsb stop l = false.
Proof.
  intros I. induction l as [|c l IH]; [reflexivity|]. cbn [forallb existsb]. intros H. apply andb_prop in H as [H1 H2].
  rewrite (I _ H1), (IH H2). reflexivity.
Qed.

Ltac class_cases :=
  unfold char_query, char_path, char_method_id, char_method, is_digit, is_lower, is_upper, stop_mid, stop_path, stop_query, is_colon;
  intros c;
  repeat match goal with |- context [?a <=? ?b] => destruct (N.leb_spec a b); try lia end;
  repeat match goal with |- context [?a =? ?b] => destruct (N.eqb_spec a b); try lia end; cbn; congruence.

Lemma method_not_colon : forall c, char_method c = true -> is_colon c = false.
Proof. class_cases. Qed.
Lemma mid_not_stop : forall c, char_method_id c = true -> stop_mid c = false.
Proof. exact char_mid_no_delim. Qed.
Lemma path_not_stop : forall c, char_path c = true -> stop_path c = false.
Proof. class_cases. Qed.
Lemma query_not_stop : forall c, char_query c = true -> stop_query c = false.
Proof. class_cases. Qed.

(* valid segments / ids from plain class membership *)
Lemma valid_seg_plain ok l : forallb ok l = true -> no_pct l = true -> valid_seg ok l = true.
Proof.
  induction l as [|c l IH]; [reflexivity|]. cbn [forallb]. intros H Hp. apply andb_prop in H as [H1 H2].
  apply no_pct_cons in Hp as [Hp1 Hp2]. cbn [valid_seg]. rewrite Hp1, H1, (IH H2 Hp2). reflexivity.
Qed.
Lemma valid_mid_plain l : forallb char_method_id l = true -> valid_method_id l = true.
Proof.
  intros H. assert (no_pct l = true) as Hp.
  { apply plain_no_pct. revert H. apply forallb_imp. intros c Hc. apply char_query_plain, char_path_query, char_mid_path, Hc. }
  revert H Hp. induction l as [|c l IH]; [reflexivity|]. cbn [forallb]. intros H Hp. apply andb_prop in H as [H1 H2].
  apply no_pct_cons in Hp as [Hp1 Hp2]. cbn [valid_method_id]. rewrite Hp1, H1, (IH H2 Hp2). reflexivity.
Qed.

(* ---- well-formed percent-free components ---- *)
Record wf_parts (m i p : list N) (oq of : option (list N)) : Prop := {
  wf_m : m <> [] /\ forallb char_method m = true;
  wf_i : i <> [] /\ forallb char_method_id i = true;
  wf_p : p = [] \/ exists t, p = 47 :: t /\ forallb char_path p = true;
  wf_q : forall q, oq = Some q -> q <> [] /\ forallb char_query q = true /\ existsb stop_query q = false;
  wf_f : forall f, of = Some f -> f <> [] /\ forallb char_query f = true }.

Definition url_text (m i p : list N) (oq of : option (list N)) : list N :=
  [100; 105; 100; 58] ++ m ++ [58] ++ i ++ p ++ optpre 63 oq ++ optpre 35 of.

Lemma wf_p_class m i p oq of : wf_parts m i p oq of -> forallb char_path p = true.
Proof. intros W. destruct (wf_p _ _ _ _ _ W) as [->|[t [_ H]]]; [reflexivity|exact H]. Qed.

Lemma optpre_query_class oq : (forall q, oq = Some q -> forallb char_query q = true) -> forallb char_query (optpre 63 oq) = true.
Proof. destruct oq as [q|]; [|reflexivity]. intros H. cbn [optpre forallb]. rewrite (H q eq_refl). reflexivity. Qed.

(* every byte of the text is a plain character, except that '#' is not in char_query: handle it directly *)
Lemma url_text_plain m i p oq of : wf_parts m i p oq of -> forallb plain_char (url_text m i p oq of) = true.
Proof.
  intros W. unfold url_text. rewrite !forallb_app.
  assert (forall l, forallb char_query l = true -> forallb plain_char l = true) as Q by (intros l; apply forallb_imp; exact char_query_plain).
  destruct (wf_m _ _ _ _ _ W) as [_ Hm]. destruct (wf_i _ _ _ _ _ W) as [_ Hi]. pose proof (wf_p_class _ _ _ _ _ W) as Hp.
  repeat (apply andb_true_intro; split); try reflexivity.
  - apply Q. revert Hm. apply forallb_imp. intros c Hc. apply char_path_query, char_mid_path, char_method_mid, Hc.
  - apply Q. revert Hi. apply forallb_imp. intros c Hc. apply char_path_query, char_mid_path, Hc.
  - apply Q. revert Hp. apply forallb_imp. exact char_path_query.
  - apply Q. apply optpre_query_class. intros q Hq. apply (wf_q _ _ _ _ _ W q Hq).
  - destruct of as [f|]; [|reflexivity]. cbn [optpre forallb]. apply andb_true_intro. split; [reflexivity|].
    apply Q. apply (wf_f _ _ _ _ _ W f eq_refl).
Qed.

Lemma url_text_no_pct m i p oq of : wf_parts m i p oq of -> no_pct (url_text m i p oq of) = true.
Proof. intros W. apply plain_no_pct, url_text_plain, W. Qed.

(* ---- the third-party offsets, forwards ---- *)
Lemma boundary_mid p oq of : (p = [] \/ exists t, p = 47 :: t /\ forallb char_path p = true) ->
  boundary stop_mid (p ++ optpre 63 oq ++ optpre 35 of).
Proof.
  intros [->|[t [-> _]]]; [|right; exists 47, (t ++ optpre 63 oq ++ optpre 35 of); split; reflexivity].
  destruct oq as [q|]; [right; exists 63, (q ++ optpre 35 of); split; reflexivity|].
  destruct of as [f|]; [right; exists 35, f; split; reflexivity|left; reflexivity].
Qed.
Lemma boundary_path oq of : boundary stop_path (optpre 63 oq ++ optpre 35 of).
Proof.
  destruct oq as [q|]; [right; exists 63, (q ++ optpre 35 of); split; reflexivity|].
  destruct of as [f|]; [right; exists 35, f; split; reflexivity|left; reflexivity].
Qed.
Lemma boundary_query of : boundary stop_query (optpre 35 of).
Proof. destruct of as [f|]; [right; exists 35, f; split; reflexivity|left; reflexivity]. Qed.

Lemma sub_no_pct_of_class l : forallb char_query l = true -> no_pct l = true.
Proof. intros H. apply plain_no_pct. revert H. apply forallb_imp. exact char_query_plain. Qed.

Lemma loop_end f : forallb char_query f = true -> tp_loop stop_none char_query f = Some (length f).
Proof.
  intros Hf. pose proof (loop_complete stop_none char_query f [] Hf (stop_none_never _) (sub_no_pct_of_class _ Hf) (or_introl eq_refl)) as L.
  rewrite app_nil_r in L. exact L.
Qed.

Lemma offsets_complete m i p oq of : wf_parts m i p oq of ->
  exists c, tp_parse_offsets (url_text m i p oq of) = Ok c
    /\ o_method c = 3%nat /\ o_mid c = (4 + length m)%nat /\ o_path c = (5 + length m + length i)%nat
    /\ o_query c = match oq with Some _ => Some (5 + length m + length i + length p)%nat | None => None end
    /\ o_frag c = match of with Some _ => Some (5 + length m + length i + length p + olen oq)%nat | None => None end.
Proof.
  intros W.
  destruct (wf_m _ _ _ _ _ W) as [_ Hm]. destruct (wf_i _ _ _ _ _ W) as [_ Hi]. pose proof (wf_p_class _ _ _ _ _ W) as Hp.
  unfold url_text, tp_parse_offsets. cbn [app].
  change ((100 =? 100) && (105 =? 105) && (100 =? 100)) with true. cbn [negb].
  change (is_colon 58) with true. cbn [negb].
  (* method name *)
  rewrite (plain_loop_complete is_colon char_method m (58 :: i ++ p ++ optpre 63 oq ++ optpre 35 of) Hm
             (class_excludes _ _ _ method_not_colon Hm)) by (right; exists 58, (i ++ p ++ optpre 63 oq ++ optpre 35 of); split; reflexivity).
  rewrite skipn_exact. change (is_colon 58) with true. cbn [negb].
  (* method id *)
  assert (forallb char_query i = true) as Hiq by (revert Hi; apply forallb_imp; intros c Hc; apply char_path_query, char_mid_path, Hc).
  rewrite (loop_complete stop_mid char_method_id i (p ++ optpre 63 oq ++ optpre 35 of) Hi
             (class_excludes _ _ _ mid_not_stop Hi) (sub_no_pct_of_class _ Hiq) (boundary_mid _ _ _ (wf_p _ _ _ _ _ W))).
  rewrite skipn_exact.
  (* path *)
  assert ((match p ++ optpre 63 oq ++ optpre 35 of with
           | [] => Some O
           | c3 :: _ => if stop_path c3 then Some O else tp_loop stop_path char_path (p ++ optpre 63 oq ++ optpre 35 of)
           end) = Some (length p)) as EP.
  { destruct (wf_p _ _ _ _ _ W) as [->|[t [Ept Hpt]]].
    - cbn [app length]. destruct oq as [q|]; [reflexivity|]. destruct of as [f|]; reflexivity.
    - assert (forallb char_query p = true) as Hpq by (revert Hp; apply forallb_imp; exact char_path_query).
      rewrite <- (loop_complete stop_path char_path p (optpre 63 oq ++ optpre 35 of) Hp
                 (class_excludes _ _ _ path_not_stop Hp) (sub_no_pct_of_class _ Hpq) (boundary_path _ _)).
      subst p. reflexivity. }
  rewrite EP. rewrite skipn_exact.
  (* query and fragment *)
  destruct oq as [q|]; cbn [optpre app].
  - destruct (wf_q _ _ _ _ _ W q eq_refl) as [_ [Hq Sq]].
    change (63 =? 35) with false. change (63 =? 63) with true. cbn iota.
    rewrite (loop_complete stop_query char_query q (optpre 35 of) Hq Sq (sub_no_pct_of_class _ Hq) (boundary_query _)).
    rewrite skipn_exact.
    destruct of as [f|]; cbn [optpre].
    + destruct (wf_f _ _ _ _ _ W f eq_refl) as [_ Hf].
      change (35 =? 35) with true. cbn [negb].
      rewrite (loop_end f Hf).
      eexists. split; [reflexivity|]. cbn [o_method o_mid o_path o_query o_frag olen]. repeat split; try reflexivity; try lia; f_equal; lia.
    + eexists. split; [reflexivity|]. cbn [o_method o_mid o_path o_query o_frag olen]. repeat split; try reflexivity; try lia; f_equal; lia.
  - destruct of as [f|]; cbn [optpre].
    + destruct (wf_f _ _ _ _ _ W f eq_refl) as [_ Hf].
      change (35 =? 35) with true. cbn iota. cbn [negb].
      rewrite (loop_end f Hf).
      eexists. split; [reflexivity|]. cbn [o_method o_mid o_path o_query o_frag olen]. repeat split; try reflexivity; try lia; f_equal; lia.
    + eexists. split; [reflexivity|]. cbn [o_method o_mid o_path o_query o_frag olen]. repeat split; try reflexivity; try lia.
Qed.

(* ---- the slices selected by those offsets ---- *)
Lemma slices_of_offsets m i p oq of c :
  o_method c = 3%nat -> o_mid c = (4 + length m)%nat -> o_path c = (5 + length m + length i)%nat ->
  o_query c = match oq with Some _ => Some (5 + length m + length i + length p)%nat | None => None end ->
  o_frag c = match of with Some _ => Some (5 + length m + length i + length p + olen oq)%nat | None => None end ->
  let s := url_text m i p oq of in
  tp_method s c = Ok m /\ tp_method_id s c = Ok i /\ tp_path s c = Ok p /\ tp_query s c = Ok oq /\ tp_fragment s c = Ok of
  /\ firstn (o_path c) s = [100; 105; 100; 58] ++ m ++ [58] ++ i.
Proof.
  intros Om Oi Op Oq Of s. unfold s, url_text. repeat split.
  - unfold tp_method. rewrite Om, Oi.
    apply (slice_mid [100; 105; 100; 58] m ([58] ++ i ++ p ++ optpre 63 oq ++ optpre 35 of)); cbn [length]; lia.
  - unfold tp_method_id. rewrite Oi, Op.
    replace ([100; 105; 100; 58] ++ m ++ [58] ++ i ++ p ++ optpre 63 oq ++ optpre 35 of)
      with (([100; 105; 100; 58] ++ m ++ [58]) ++ i ++ (p ++ optpre 63 oq ++ optpre 35 of)) by (rewrite <- !app_assoc; reflexivity).
    apply slice_mid; rewrite !app_length; cbn [length]; lia.
  - unfold tp_path. rewrite Oq, Of, Op.
    replace ([100; 105; 100; 58] ++ m ++ [58] ++ i ++ p ++ optpre 63 oq ++ optpre 35 of)
      with (([100; 105; 100; 58] ++ m ++ [58] ++ i) ++ p ++ (optpre 63 oq ++ optpre 35 of)) by (rewrite <- !app_assoc; reflexivity).
    destruct oq as [q|], of as [f|]; try (apply slice_mid; rewrite !app_length; cbn [length olen]; lia).
    rewrite slice_end; [cbn [optpre]; rewrite !app_nil_r; reflexivity|]. rewrite !app_length; cbn [length]; lia.
  - unfold tp_query. rewrite Oq, Of. destruct oq as [q|]; [|reflexivity].
    replace ([100; 105; 100; 58] ++ m ++ [58] ++ i ++ p ++ optpre 63 (Some q) ++ optpre 35 of)
      with (([100; 105; 100; 58] ++ m ++ [58] ++ i ++ p ++ [63]) ++ q ++ optpre 35 of)
      by (rewrite <- !app_assoc; cbn [optpre app]; reflexivity).
    destruct of as [f|].
    + rewrite (slice_mid _ q _); [reflexivity| |]; rewrite !app_length; cbn [length olen]; lia.
    + cbn [optpre]. rewrite app_nil_r. rewrite slice_end; [reflexivity|]. rewrite !app_length; cbn [length]; lia.
  - unfold tp_fragment. rewrite Of. destruct of as [f|]; [|reflexivity].
    replace ([100; 105; 100; 58] ++ m ++ [58] ++ i ++ p ++ optpre 63 oq ++ optpre 35 (Some f))
      with (([100; 105; 100; 58] ++ m ++ [58] ++ i ++ p ++ optpre 63 oq ++ [35]) ++ f)
      by (rewrite <- !app_assoc; cbn [optpre app]; reflexivity).
    rewrite slice_end; [reflexivity|]. rewrite !app_length. cbn [length]. destruct oq; cbn [optpre olen length]; lia.
  - rewrite Op.
    replace ([100; 105; 100; 58] ++ m ++ [58] ++ i ++ p ++ optpre 63 oq ++ optpre 35 of)
      with (([100; 105; 100; 58] ++ m ++ [58] ++ i) ++ (p ++ optpre 63 oq ++ optpre 35 of)) by (rewrite <- !app_assoc; reflexivity).
    replace (5 + length m + length i)%nat with (length ([100; 105; 100; 58] ++ m ++ [58] ++ i)) by (rewrite !app_length; cbn [length]; lia).
    apply firstn_exact.
Qed.

Lemma list_eqb_refl' a : list_eqb a a = true.
Proof. induction a; cbn; [reflexivity|]. rewrite N.eqb_refl. exact IHa. Qed.

(* third-party DID::parse accepts the text and yields exactly the offsets above *)
Lemma tp_parse_complete m i p oq of : wf_parts m i p oq of ->
  exists c, tp_parse (url_text m i p oq of) = Ok c
    /\ o_method c = 3%nat /\ o_mid c = (4 + length m)%nat /\ o_path c = (5 + length m + length i)%nat
    /\ o_query c = match oq with Some _ => Some (5 + length m + length i + length p)%nat | None => None end
    /\ o_frag c = match of with Some _ => Some (5 + length m + length i + length p + olen oq)%nat | None => None end.
Proof.
  intros W. destruct (offsets_complete _ _ _ _ _ W) as [c [P [Om [Oi [Op [Oq Of]]]]]].
  exists c. split; [|auto].
  unfold tp_parse. rewrite (trim_plain _ (url_text_plain _ _ _ _ _ W)), P. cbn [obind].
  destruct (slices_of_offsets m i p oq of c Om Oi Op Oq Of) as [Hm [Hi _]]. rewrite Hm. cbn [obind].
  destruct (wf_m _ _ _ _ _ W) as [Nm _]. destruct (wf_i _ _ _ _ _ W) as [Ni _].
  destruct m as [|m0 m']; [congruence|]. rewrite Hi. cbn [obind]. destruct i as [|i0 i']; [congruence|]. reflexivity.
Qed.

(* check_validity on the plain DID text "did:" m ":" i *)
Lemma check_validity_base m i c :
  m <> [] -> forallb char_method m = true -> i <> [] -> forallb char_method_id i = true ->
  o_method c = 3%nat -> o_mid c = (4 + length m)%nat -> o_path c = (5 + length m + length i)%nat ->
  o_query c = None -> o_frag c = None ->
  check_validity ([100; 105; 100; 58] ++ m ++ [58] ++ i) c = Ok (m, i).
Proof.
  intros Nm Hm Ni Hi Om Oi Op Oq Of.
  pose proof (slices_of_offsets m i [] None None c Om Oi Op) as S. cbn [olen] in S.
  specialize (S Oq Of). cbn zeta in S. unfold url_text in S. cbn [optpre] in S. rewrite !app_nil_r in S.
  destruct S as [Sm [Si [Sp [Sq [Sf _]]]]].
  unfold check_validity. rewrite Sm. cbn [obind]. unfold valid_method_name. rewrite Hm. cbn [negb].
  rewrite Si. cbn [obind]. rewrite (valid_mid_plain _ Hi). cbn [negb].
  rewrite Sp, Sf, Sq. cbn [obind is_nil negb orb]. reflexivity.
Qed.

Definition opt_nonempty (p : list N) : option (list N) := match p with [] => None | _ => Some p end.

(* DIDUrl::parse is complete on well-formed percent-free texts *)
Theorem did_url_complete m i p oq of : wf_parts m i p oq of ->
  did_url_parse (url_text m i p oq of)
  = Ok {| u_did := [100; 105; 100; 58] ++ m ++ [58] ++ i; u_method := m; u_mid := i;
          u_path := opt_nonempty p; u_query := option_map (cons 63) oq; u_frag := option_map (cons 35) of |}.
Proof.
  intros W. destruct (tp_parse_complete _ _ _ _ _ W) as [c [P [Om [Oi [Op [Oq Of]]]]]].
  destruct (slices_of_offsets m i p oq of c Om Oi Op Oq Of) as [Hm [Hi [Hp [Hq [Hf Hb]]]]].
  destruct (wf_m _ _ _ _ _ W) as [Nm Cm]. destruct (wf_i _ _ _ _ _ W) as [Ni Ci].
  unfold did_url_parse. rewrite (trim_plain _ (url_text_plain _ _ _ _ _ W)), list_eqb_refl'. cbn [negb].
  rewrite P. cbn [obind]. rewrite Hp. cbn [obind].
  assert (set_path (Some p) = Ok (opt_nonempty p)) as Sp.
  { destruct (wf_p _ _ _ _ _ W) as [->|[t [Ept Hpt]]]; [reflexivity|].
    assert (forallb char_query p = true) as Hpq by (revert Hpt; apply forallb_imp; exact char_path_query).
    pose proof (valid_seg_plain char_path p Hpt (sub_no_pct_of_class _ Hpq)) as V.
    subst p. unfold set_path. change (47 =? 47) with true. rewrite V. reflexivity. }
  rewrite Sp. cbn [obind]. rewrite Hq. cbn [obind].
  assert (set_query (match oq with Some x => Some (63 :: x) | None => None end) = Ok (option_map (cons 63) oq)) as Sq.
  { destruct oq as [q|]; [|reflexivity]. destruct (wf_q _ _ _ _ _ W q eq_refl) as [Nq [Cq _]].
    unfold set_query. change (strip1 63 (63 :: q)) with q. rewrite (valid_seg_plain char_query q Cq (sub_no_pct_of_class _ Cq)).
    destruct q; [congruence|reflexivity]. }
  rewrite Sq. cbn [obind]. rewrite Hf. cbn [obind].
  assert (set_fragment (match of with Some x => Some (35 :: x) | None => None end) = Ok (option_map (cons 35) of)) as Sf.
  { destruct of as [f|]; [|reflexivity]. destruct (wf_f _ _ _ _ _ W f eq_refl) as [Nf Cf].
    unfold set_fragment. change (strip1 35 (35 :: f)) with f. rewrite (valid_seg_plain char_query f Cf (sub_no_pct_of_class _ Cf)).
    destruct f; [congruence|reflexivity]. }
  rewrite Sf. cbn [obind]. rewrite Hb.
  rewrite (check_validity_base m i _ Nm Cm Ni Ci); cbn [o_method o_mid o_path o_query o_frag]; auto.
Qed.

(* CoreDID::parse is complete on "did:" m ":" i *)
Lemma ends_with_pct_no_pct l : no_pct l = true -> ends_with_pct l = false.
Proof.
  induction l as [|c l IH]; [reflexivity|]. intros H. pose proof (no_pct_cons _ _ H) as [H1 H2].
  cbn [ends_with_pct]. destruct l as [|a [|b [|d r]]]; try (apply IH; exact H2); try exact H1.
Qed.

Theorem core_did_tp_complete m i : m <> [] -> forallb char_method m = true -> i <> [] -> forallb char_method_id i = true ->
  core_did_parse_tp ([100; 105; 100; 58] ++ m ++ [58] ++ i) = Ok (m, i).
Proof.
  intros Nm Cm Ni Ci.
  assert (wf_parts m i [] None None) as W by (constructor; auto; intros x Hx; discriminate).
  destruct (tp_parse_complete _ _ _ _ _ W) as [c [P [Om [Oi [Op [Oq Of]]]]]].
  assert (url_text m i [] None None = [100; 105; 100; 58] ++ m ++ [58] ++ i) as E by (unfold url_text; cbn [optpre]; rewrite !app_nil_r; reflexivity).
  rewrite E in P. unfold core_did_parse_tp.
  rewrite <- E at 1 2. rewrite (trim_plain _ (url_text_plain _ _ _ _ _ W)), list_eqb_refl'. cbn [negb].
  rewrite <- E at 1. rewrite (ends_with_pct_no_pct _ (url_text_no_pct _ _ _ _ _ W)).
  rewrite P. cbn [obind]. apply check_validity_base; auto.
Qed.

(* CoreDID::parse (own splitter) is complete on "did:" m ":" i for EVERY valid method id, percent-encoded triples included *)
Lemma method_no_colon m : forallb char_method m = true -> ~ In 58 m.
Proof. intros H Hc. rewrite forallb_forall in H. specialize (H _ Hc). vm_compute in H. discriminate. Qed.
Theorem core_did_complete_pct m i : m <> [] -> forallb char_method m = true -> i <> [] -> valid_method_id i = true ->
  core_did_parse ([100; 105; 100; 58] ++ m ++ [58] ++ i) = Ok (m, i).
Proof.
  intros Nm Cm Ni Vi. cbn [app]. unfold core_did_parse. rewrite !N.eqb_refl. cbn [andb negb]. unfold is_colon. rewrite N.eqb_refl. cbn [negb].
  rewrite (split_once_app 58 m i (method_no_colon m Cm)). cbn [fst snd]. unfold valid_method_name. rewrite Cm, Vi.
  destruct m; [contradiction|]. destruct i; [contradiction|]. reflexivity.
Qed.
Theorem core_did_complete m i : m <> [] -> forallb char_method m = true -> i <> [] -> forallb char_method_id i = true ->
  core_did_parse ([100; 105; 100; 58] ++ m ++ [58] ++ i) = Ok (m, i).
Proof. intros Nm Cm Ni Ci. apply core_did_complete_pct; auto. apply valid_mid_plain. exact Ci. Qed.
(* whatever the route through the third-party parser accepted is accepted, with the same components *)
Theorem core_did_parse_tp_included s mi : core_did_parse_tp s = Ok mi -> core_did_parse s = Ok mi.
Proof. destruct mi as [m i]. intros H. destruct (core_did_parse_tp_sound s m i H) as [-> [Nm [Ni [Vm Vi]]]]. apply core_did_complete_pct; auto. Qed.

(* ---- consequences in the words of the property ---- *)

(* soundness gives well-formed parts back (percent-free input), so accepted values re-parse to themselves *)
Lemma valid_seg_class ok l : no_pct l = true -> valid_seg ok l = true -> forallb ok l = true.
Proof.
  induction l as [|c l IH]; [reflexivity|]. intros Hp H. apply no_pct_cons in Hp as [Hp1 Hp2].
  cbn [valid_seg] in H. rewrite Hp1 in H. apply andb_prop in H as [H1 H2]. cbn [forallb]. rewrite H1, (IH Hp2 H2). reflexivity.
Qed.
Lemma valid_mid_class l : no_pct l = true -> valid_method_id l = true -> forallb char_method_id l = true.
Proof.
  induction l as [|c l IH]; [reflexivity|]. intros Hp H. apply no_pct_cons in Hp as [Hp1 Hp2].
  cbn [valid_method_id] in H. rewrite Hp1 in H. apply andb_prop in H as [H1 H2]. cbn [forallb]. rewrite H1, (IH Hp2 H2). reflexivity.
Qed.

(* a did_url value is well formed (percent-free) when its components are *)
Definition wf_url (u : did_url) : Prop :=
  u_did u = [100; 105; 100; 58] ++ u_method u ++ [58] ++ u_mid u
  /\ u_method u <> [] /\ forallb char_method (u_method u) = true
  /\ u_mid u <> [] /\ forallb char_method_id (u_mid u) = true
  /\ (forall p, u_path u = Some p -> exists t, p = 47 :: t /\ forallb char_path p = true)
  /\ (forall q, u_query u = Some q -> exists t, q = 63 :: t /\ t <> [] /\ forallb char_query t = true /\ existsb stop_query t = false)
  /\ (forall f, u_frag u = Some f -> exists t, f = 35 :: t /\ t <> [] /\ forallb char_query t = true).

Theorem wf_url_reparses u : wf_url u -> did_url_parse (did_url_to_string u) = Ok u.
Proof.
  intros [Ed [Nm [Cm [Ni [Ci [Wp [Wq Wf]]]]]]].
  destruct u as [d m i up uq uf]. cbn [u_did u_method u_mid u_path u_query u_frag] in *.
  set (p := oapp up).
  set (oq := match uq with Some (_ :: t) => Some t | _ => None end).
  set (of := match uf with Some (_ :: t) => Some t | _ => None end).
  assert (up = opt_nonempty p) as Ep.
  { unfold p. destruct up as [x|]; [|reflexivity]. destruct (Wp x eq_refl) as [t [-> _]]. reflexivity. }
  assert (uq = option_map (cons 63) oq) as Eq.
  { unfold oq. destruct uq as [x|]; [|reflexivity]. destruct (Wq x eq_refl) as [t [-> _]]. reflexivity. }
  assert (uf = option_map (cons 35) of) as Ef.
  { unfold of. destruct uf as [x|]; [|reflexivity]. destruct (Wf x eq_refl) as [t [-> _]]. reflexivity. }
  assert (wf_parts m i p oq of) as W.
  { constructor; auto.
    - unfold p. destruct up as [x|]; [|left; reflexivity]. right. exact (Wp x eq_refl).
    - intros q Hq. unfold oq in Hq. destruct uq as [x|]; [|discriminate]. destruct (Wq x eq_refl) as [t [-> [Nt [Ct St]]]].
      inversion Hq; subst q. auto.
    - intros f Hf. unfold of in Hf. destruct uf as [x|]; [|discriminate]. destruct (Wf x eq_refl) as [t [-> [Nt Ct]]].
      inversion Hf; subst f. auto. }
  pose proof (did_url_complete _ _ _ _ _ W) as C.
  assert (did_url_to_string {| u_did := d; u_method := m; u_mid := i; u_path := up; u_query := uq; u_frag := uf |} = url_text m i p oq of) as Es.
  { unfold did_url_to_string, url_text. cbn [u_did u_path u_query u_frag]. rewrite Ed, Eq, Ef. fold p.
    rewrite <- !app_assoc. destruct oq, of; reflexivity. }
  rewrite Es, C, <- Ed, <- Ep, <- Eq, <- Ef. reflexivity.
Qed.

(* every accepted percent-free DID URL is such a text with well-formed parts *)
Lemma parse_gives_wf_parts s u : no_pct s = true -> did_url_parse s = Ok u ->
  exists m i p oq of, s = url_text m i p oq of /\ wf_parts m i p oq of.
Proof.
  intros NP H. unfold did_url_parse in H.
  destruct (list_eqb (trim s) s) eqn:T; cbn [negb] in H; [|discriminate]. apply list_eqb_eq in T.
  apply obind_ok in H as [c [P H]].
  unfold tp_parse in P. rewrite T in P. apply obind_ok in P as [c0 [Po P]].
  destruct (offsets_full s c0 NP Po) as [m [i [p [oq [of [Es [Om [Oi [Op [Oq Of]]]]]]]]]].
  destruct (slices_of_offsets m i p oq of c0 Om Oi Op Oq Of) as [Hm [Hi [Hp [Hq [Hf Hb]]]]].
  fold (url_text m i p oq of) in Es. rewrite <- Es in Hm, Hi, Hp, Hq, Hf, Hb.
  rewrite Hm in P. cbn [obind] in P. destruct m as [|m0 m']; [discriminate|].
  rewrite Hi in P. cbn [obind] in P. destruct i as [|i0 i']; [discriminate|].
  inversion P; subst c0; clear P.
  rewrite Hp in H. cbn [obind] in H. apply obind_ok in H as [up [Sp H]].
  rewrite Hq in H. cbn [obind] in H. apply obind_ok in H as [uq [Sq H]].
  rewrite Hf in H. cbn [obind] in H. apply obind_ok in H as [uf [Sf H]].
  apply obind_ok in H as [[m1 i1] [V _]]. rewrite Hb in V.
  assert (check_validity ([100; 105; 100; 58] ++ (m0 :: m') ++ [58] ++ i0 :: i')
            {| o_method := o_method c; o_mid := o_mid c; o_path := o_path c; o_query := None; o_frag := None |} = Ok (m1, i1)
          -> valid_method_name (m0 :: m') = true /\ valid_method_id (i0 :: i') = true) as VV.
  { pose proof (slices_of_offsets (m0 :: m') (i0 :: i') [] None None
                  {| o_method := o_method c; o_mid := o_mid c; o_path := o_path c; o_query := None; o_frag := None |} Om Oi Op eq_refl eq_refl) as S.
    cbn zeta in S. unfold url_text in S. cbn [optpre] in S. rewrite !app_nil_r in S. destruct S as [Sm [Si _]].
    unfold check_validity. rewrite Sm. cbn [obind]. destruct (valid_method_name (m0 :: m')); cbn [negb]; [|discriminate].
    rewrite Si. cbn [obind]. destruct (valid_method_id (i0 :: i')); cbn [negb]; [|discriminate]. auto. }
  destruct (VV V) as [Vm Vi]. clear VV V.
  assert (no_pct (i0 :: i') = true /\ no_pct p = true /\ no_pct (optpre 63 oq) = true /\ no_pct (optpre 35 of) = true) as [Pi [Pp [Pq Pf]]].
  { rewrite Es in NP. unfold url_text in NP. repeat (apply no_pct_app in NP as [? NP]). auto. }
  exists (m0 :: m'), (i0 :: i'), p, oq, of. split; [exact Es|]. constructor.
  - split; [discriminate|exact Vm].
  - split; [discriminate|exact (valid_mid_class _ Pi Vi)].
  - destruct p as [|c1 r]; [left; reflexivity|]. right. unfold set_path in Sp.
    destruct (c1 =? 47) eqn:E; cbn [andb] in Sp; [|discriminate]. apply N.eqb_eq in E. subst c1.
    destruct (valid_seg char_path (47 :: r)) eqn:V; [|discriminate]. exists r. split; [reflexivity|exact (valid_seg_class _ _ Pp V)].
  - intros q Eq. subst oq. unfold set_query in Sq. change (strip1 63 (63 :: q)) with q in Sq.
    destruct q as [|q0 q']; [discriminate|]. cbn [is_nil orb] in Sq.
    destruct (valid_seg char_query (q0 :: q')) eqn:V; cbn [negb] in Sq; [|discriminate].
    assert (no_pct (q0 :: q') = true) as Pq' by (cbn [optpre] in Pq; apply no_pct_cons in Pq; tauto).
    pose proof (valid_seg_class _ _ Pq' V) as C. split; [discriminate|]. split; [exact C|]. exact (class_excludes _ _ _ query_not_stop C).
  - intros f Ef. subst of. unfold set_fragment in Sf. change (strip1 35 (35 :: f)) with f in Sf.
    destruct f as [|f0 f']; [discriminate|]. cbn [is_nil orb] in Sf.
    destruct (valid_seg char_query (f0 :: f')) eqn:V; cbn [negb] in Sf; [|discriminate].
    assert (no_pct (f0 :: f') = true) as Pf' by (cbn [optpre] in Pf; apply no_pct_cons in Pf; tauto).
    split; [discriminate|exact (valid_seg_class _ _ Pf' V)].
Qed.

Lemma wf_parts_wf_url m i p oq of : wf_parts m i p oq of ->
  wf_url {| u_did := [100; 105; 100; 58] ++ m ++ [58] ++ i; u_method := m; u_mid := i;
            u_path := opt_nonempty p; u_query := option_map (cons 63) oq; u_frag := option_map (cons 35) of |}.
Proof.
  intros W. destruct (wf_m _ _ _ _ _ W) as [Nm Cm]. destruct (wf_i _ _ _ _ _ W) as [Ni Ci].
  unfold wf_url. cbn [u_did u_method u_mid u_path u_query u_frag]. repeat split; auto.
  - intros x Hx. destruct (wf_p _ _ _ _ _ W) as [->|[t [-> Hp]]]; [discriminate|]. inversion Hx; subst x. eauto.
  - intros x Hx. destruct oq as [q|]; [|discriminate]. inversion Hx; subst x. destruct (wf_q _ _ _ _ _ W q eq_refl) as [A [B C]]. eauto.
  - intros x Hx. destruct of as [f|]; [|discriminate]. inversion Hx; subst x. destruct (wf_f _ _ _ _ _ W f eq_refl) as [A B]. eauto.
Qed.

Theorem did_url_parse_wf s u : no_pct s = true -> did_url_parse s = Ok u -> wf_url u.
Proof.
  intros NP H. destruct (parse_gives_wf_parts s u NP H) as [m [i [p [oq [of [Es W]]]]]].
  rewrite Es, (did_url_complete _ _ _ _ _ W) in H. inversion H; subst u. apply wf_parts_wf_url, W.
Qed.

(* accepted => string form re-parses to the same value *)
Theorem did_url_reparse s u : no_pct s = true -> did_url_parse s = Ok u -> did_url_parse (did_url_to_string u) = Ok u.
Proof. intros NP H. apply wf_url_reparses. exact (did_url_parse_wf s u NP H). Qed.

(* the parser decides exactly the well-formed percent-free texts *)
Theorem did_url_accept_iff s : no_pct s = true ->
  ((exists u, did_url_parse s = Ok u) <-> exists m i p oq of, s = url_text m i p oq of /\ wf_parts m i p oq of).
Proof.
  intros NP. split.
  - intros [u H]. exact (parse_gives_wf_parts s u NP H).
  - intros [m [i [p [oq [of [-> W]]]]]]. eexists. apply did_url_complete, W.
Qed.

(* ---- setters: a successful set on a well-formed value gives a well-formed value (so it re-parses to itself) ---- *)
Definition with_path u v := {| u_did := u_did u; u_method := u_method u; u_mid := u_mid u; u_path := v; u_query := u_query u; u_frag := u_frag u |}.
Definition with_query u v := {| u_did := u_did u; u_method := u_method u; u_mid := u_mid u; u_path := u_path u; u_query := v; u_frag := u_frag u |}.
Definition with_frag u v := {| u_did := u_did u; u_method := u_method u; u_mid := u_mid u; u_path := u_path u; u_query := u_query u; u_frag := v |}.

Theorem set_path_reparses u v r : wf_url u -> set_path v = Ok r -> no_pct (oapp r) = true ->
  did_url_parse (did_url_to_string (with_path u r)) = Ok (with_path u r).
Proof.
  intros [Ed [Nm [Cm [Ni [Ci [Wp [Wq Wf]]]]]]] S NP. apply wf_url_reparses. unfold wf_url, with_path. cbn [u_did u_method u_mid u_path u_query u_frag].
  repeat split; auto. intros p Hp. subst r. apply set_path_sound in S. destruct S as [_ [t [Et V]]]. exists t. split; [exact Et|].
  exact (valid_seg_class _ _ NP V).
Qed.
Theorem set_query_reparses u v r : wf_url u -> set_query v = Ok r -> no_pct (oapp r) = true ->
  did_url_parse (did_url_to_string (with_query u r)) = Ok (with_query u r).
Proof.
  intros [Ed [Nm [Cm [Ni [Ci [Wp [Wq Wf]]]]]]] S NP. apply wf_url_reparses. unfold wf_url, with_query. cbn [u_did u_method u_mid u_path u_query u_frag].
  repeat split; auto. intros q Hq. subst r. apply set_query_sound in S. destruct S as [t [Et [Nt [V _]]]]. exists t. split; [exact Et|].
  subst q. cbn [oapp] in NP. apply no_pct_cons in NP as [_ NP]. pose proof (valid_seg_class _ _ NP V) as C.
  split; [exact Nt|]. split; [exact C|exact (class_excludes _ _ _ query_not_stop C)].
Qed.
Theorem set_fragment_reparses u v r : wf_url u -> set_fragment v = Ok r -> no_pct (oapp r) = true ->
  did_url_parse (did_url_to_string (with_frag u r)) = Ok (with_frag u r).
Proof.
  intros [Ed [Nm [Cm [Ni [Ci [Wp [Wq Wf]]]]]]] S NP. apply wf_url_reparses. unfold wf_url, with_frag. cbn [u_did u_method u_mid u_path u_query u_frag].
  repeat split; auto. intros f Hf. subst r. apply set_fragment_sound in S. destruct S as [t [Et [Nt [V _]]]]. exists t. split; [exact Et|].
  subst f. cbn [oapp] in NP. apply no_pct_cons in NP as [_ NP]. split; [exact Nt|exact (valid_seg_class _ _ NP V)].
Qed.

(* plain DID: accepted percent-free strings re-parse; acceptance is exactly well-formedness *)
Theorem core_did_accept_iff s :
  ((exists mi, core_did_parse s = Ok mi) <->
   exists m i, s = [100; 105; 100; 58] ++ m ++ [58] ++ i /\ m <> [] /\ forallb char_method m = true /\ i <> [] /\ valid_method_id i = true).
Proof.
  split.
  - intros [[m i] H]. destruct (core_did_parse_sound s m i H) as [Es [Nm [Ni [Vm Vi]]]]. exists m, i. repeat split; auto.
  - intros [m [i [-> [Nm [Cm [Ni Vi]]]]]]. exists (m, i). apply core_did_complete_pct; auto.
Qed.
(* the accepted value re-parses from its string form to itself, and so does the value after a successful set_method_name / set_method_id
   (each validates its argument with valid_method_name / valid_method_id and refuses the empty string) - for EVERY value, percent or not *)
Theorem core_did_reparse s m i : core_did_parse s = Ok (m, i) -> core_did_parse ([100; 105; 100; 58] ++ m ++ [58] ++ i) = Ok (m, i).
Proof. intros H. destruct (core_did_parse_sound s m i H) as [<- _]. exact H. Qed.
Theorem core_did_set_method_id_reparses s m i i' : core_did_parse s = Ok (m, i) -> i' <> [] -> valid_method_id i' = true ->
  core_did_parse ([100; 105; 100; 58] ++ m ++ [58] ++ i') = Ok (m, i').
Proof. intros H Ni Vi. destruct (core_did_parse_sound s m i H) as [_ [Nm [_ [Vm _]]]]. apply core_did_complete_pct; auto. Qed.
Theorem core_did_set_method_name_reparses s m i m' : core_did_parse s = Ok (m, i) -> m' <> [] -> valid_method_name m' = true ->
  core_did_parse ([100; 105; 100; 58] ++ m' ++ [58] ++ i) = Ok (m', i).
Proof. intros H Nm Vm. destruct (core_did_parse_sound s m i H) as [_ [_ [Ni [_ Vi]]]]. apply core_did_complete_pct; auto. Qed.

(* ---- totality outside K_pct: on a percent-free input neither parser panics ---- *)
Lemma set_path_total v : set_path v <> Panic.
Proof. unfold set_path. destruct v as [[|c r]|]; try discriminate. destruct ((c =? 47) && valid_seg char_path (c :: r)); discriminate. Qed.
Lemma set_query_total v : set_query v <> Panic.
Proof. unfold set_query. destruct v as [[|c r]|]; try discriminate. destruct (is_nil (strip1 63 (c :: r)) || negb (valid_seg char_query (strip1 63 (c :: r)))); discriminate. Qed.
Lemma set_fragment_total v : set_fragment v <> Panic.
Proof. unfold set_fragment. destruct v as [[|c r]|]; try discriminate. destruct (is_nil (strip1 35 (c :: r)) || negb (valid_seg char_query (strip1 35 (c :: r)))); discriminate. Qed.

Lemma check_validity_total_base m i c :
  o_method c = 3%nat -> o_mid c = (4 + length m)%nat -> o_path c = (5 + length m + length i)%nat ->
  o_query c = None -> o_frag c = None ->
  check_validity ([100; 105; 100; 58] ++ m ++ [58] ++ i) c <> Panic.
Proof.
  intros Om Oi Op Oq Of.
  pose proof (slices_of_offsets m i [] None None c Om Oi Op) as S. cbn [olen] in S.
  specialize (S Oq Of). cbn zeta in S. unfold url_text in S. cbn [optpre] in S. rewrite !app_nil_r in S.
  destruct S as [Sm [Si [Sp [Sq [Sf _]]]]].
  unfold check_validity. rewrite Sm. cbn [obind]. destruct (negb (valid_method_name m)); [discriminate|].
  rewrite Si. cbn [obind]. destruct (negb (valid_method_id i)); [discriminate|].
  rewrite Sp, Sf, Sq. cbn [obind is_nil negb orb]. discriminate.
Qed.

Theorem did_url_total_pct_free s : no_pct s = true -> did_url_parse s <> Panic.
Proof.
  intros NP. unfold did_url_parse.
  destruct (list_eqb (trim s) s) eqn:T; cbn [negb]; [|discriminate]. apply list_eqb_eq in T.
  unfold tp_parse. rewrite T.
  destruct (tp_parse_offsets s) as [c0|e|] eqn:Po; cbn [obind]; try discriminate.
  - destruct (offsets_full s c0 NP Po) as [m [i [p [oq [of [Es [Om [Oi [Op [Oq Of]]]]]]]]]].
    destruct (slices_of_offsets m i p oq of c0 Om Oi Op Oq Of) as [Hm [Hi [Hp [Hq [Hf Hb]]]]].
    fold (url_text m i p oq of) in Es. rewrite <- Es in Hm, Hi, Hp, Hq, Hf, Hb.
    rewrite Hm. cbn [obind]. destruct m as [|m0 m']; [discriminate|].
    rewrite Hi. cbn [obind]. destruct i as [|i0 i']; [discriminate|]. cbn [obind].
    rewrite Hp. cbn [obind]. destruct (set_path (Some p)) as [up|e|] eqn:Sp; cbn [obind]; [|discriminate|exact (fun _ => set_path_total _ Sp)].
    rewrite Hq. cbn [obind].
    destruct (set_query match oq with Some x => Some (63 :: x) | None => None end) as [uq|e|] eqn:Sq; cbn [obind]; [|discriminate|exact (fun _ => set_query_total _ Sq)].
    rewrite Hf. cbn [obind].
    destruct (set_fragment match of with Some x => Some (35 :: x) | None => None end) as [uf|e|] eqn:Sf; cbn [obind]; [|discriminate|exact (fun _ => set_fragment_total _ Sf)].
    rewrite Hb.
    pose proof (check_validity_total_base (m0 :: m') (i0 :: i')
                  {| o_method := o_method c0; o_mid := o_mid c0; o_path := o_path c0; o_query := None; o_frag := None |} Om Oi Op eq_refl eq_refl) as V.
    destruct (check_validity _ _) as [mi|e|]; cbn [obind]; [discriminate|discriminate|contradiction].
  - (* the offset computation itself never panics *)
    exfalso. revert Po. unfold tp_parse_offsets.
    repeat match goal with
           | |- context [match ?x with _ => _ end] => destruct x; try discriminate
           end.
Qed.

(* ---- the unguarded route to a CoreDID (TryFrom<BaseDIDUrl>, hence serde): outside K_pct it accepts only what CoreDID::parse accepts ---- *)
Lemma drop_while_len p l : (length (drop_while p l) <= length l)%nat.
Proof. induction l as [|c l IH]; [cbn; lia|]. cbn [drop_while]. destruct (p c); cbn [length]; lia. Qed.
Lemma drop_while_same p l : length (drop_while p l) = length l -> drop_while p l = l.
Proof.
  destruct l as [|c l]; [reflexivity|]. cbn [drop_while]. destruct (p c); [|reflexivity].
  intros H. pose proof (drop_while_len p l). cbn [length] in H. lia.
Qed.
Lemma trim_len l : (length (trim l) <= length l)%nat.
Proof.
  unfold trim. rewrite rev_length. pose proof (drop_while_len ctrl_or_space (rev (drop_while ctrl_or_space l))).
  rewrite rev_length in H. pose proof (drop_while_len ctrl_or_space l). lia.
Qed.
Lemma trim_same l : length (trim l) = length l -> trim l = l.
Proof.
  unfold trim. rewrite rev_length. intros H.
  pose proof (drop_while_len ctrl_or_space (rev (drop_while ctrl_or_space l))) as A. rewrite rev_length in A.
  pose proof (drop_while_len ctrl_or_space l) as B.
  assert (drop_while ctrl_or_space l = l) as E1 by (apply drop_while_same; lia).
  rewrite E1 in *. rewrite drop_while_same; [apply rev_involutive|]. rewrite rev_length. lia.
Qed.
Lemma existsb_drop_while p q l : existsb q l = false -> existsb q (drop_while p l) = false.
Proof. induction l as [|c l IH]; [reflexivity|]. cbn [existsb drop_while]. intros H. apply orb_false_elim in H as [H1 H2]. destruct (p c); [exact (IH H2)|]. cbn [existsb]. rewrite H1, H2. reflexivity. Qed.
Lemma no_pct_trim l : no_pct l = true -> no_pct (trim l) = true.
Proof.
  unfold no_pct, trim. intros H. apply negb_true_iff in H. apply negb_true_iff.
  assert (forall x, existsb (N.eqb 37) x = false -> existsb (N.eqb 37) (rev x) = false) as R.
  { intros x Hx. destruct (existsb (N.eqb 37) (rev x)) eqn:E; [|reflexivity]. apply existsb_exists in E as [y [Hy Ey]]. apply in_rev in Hy.
    assert (existsb (N.eqb 37) x = true) by (apply existsb_exists; eauto). congruence. }
  apply R. apply existsb_drop_while. apply R. apply existsb_drop_while. exact H.
Qed.

Theorem core_did_from_base_sound s m i : no_pct s = true -> core_did_from_base s = Ok (m, i) -> core_did_parse s = Ok (m, i).
Proof.
  intros NP H. unfold core_did_from_base in H.
  assert (trim s = s) as T.
  { apply obind_ok in H as [c [P V]]. unfold tp_parse in P. apply obind_ok in P as [c0 [Po P]].
    apply obind_ok in P as [m0 [_ P]]. destruct (match m0 with [] => true | _ => false end); [discriminate|].
    apply obind_ok in P as [i0 [_ P]]. destruct (match i0 with [] => true | _ => false end); [discriminate|]. inversion P; subst c0; clear P.
    destruct (offsets_full (trim s) c (no_pct_trim s NP) Po) as [m' [i' [p [oq [of [Es [Om [Oi [Op [Oq Of]]]]]]]]]].
    (* a plain DID has no query and no fragment, and the path slice of the STORED text must be empty *)
    unfold check_validity in V.
    apply obind_ok in V as [m1 [_ V]]. destruct (negb (valid_method_name m1)); [discriminate|].
    apply obind_ok in V as [i1 [_ V]]. destruct (negb (valid_method_id i1)); [discriminate|].
    apply obind_ok in V as [p1 [Hp V]]. apply obind_ok in V as [f1 [Hf V]]. apply obind_ok in V as [q1 [Hq V]].
    destruct p1 as [|x p1']; [|discriminate]. destruct f1 as [f1|]; [discriminate|]. destruct q1 as [q1|]; [discriminate|]. clear V.
    assert (oq = None) as ->.
    { destruct oq as [q|]; [|reflexivity]. unfold tp_query in Hq. rewrite Oq in Hq. destruct (o_frag c); apply obind_ok in Hq as [? [_ X]]; discriminate. }
    assert (of = None) as ->.
    { destruct of as [f|]; [|reflexivity]. unfold tp_fragment in Hf. rewrite Of in Hf. apply obind_ok in Hf as [? [_ X]]. discriminate. }
    unfold tp_path in Hp. rewrite Oq, Of in Hp. unfold slice_from in Hp. apply slice_ok in Hp as [[L1 _] Ep].
    (* [] = firstn (len - o_path) (skipn o_path s): the stored text is no longer than o_path <= length of the trimmed text *)
    assert (length s <= o_path c)%nat as L2.
    { destruct (le_lt_dec (length s) (o_path c)) as [X|X]; [exact X|]. exfalso.
      assert (length (firstn (length s - o_path c) (skipn (o_path c) s)) = (length s - o_path c)%nat) as Lf.
      { rewrite firstn_length, skipn_length. lia. }
      rewrite <- Ep in Lf. cbn [length] in Lf. lia. }
    assert (o_path c <= length (trim s))%nat as L3.
    { rewrite Op. rewrite Es at 1. rewrite !app_length. cbn [length optpre]. lia. }
    apply trim_same. pose proof (trim_len s). lia. }
  apply core_did_parse_tp_included. unfold core_did_parse_tp. rewrite T, list_eqb_refl'. cbn [negb]. rewrite (ends_with_pct_no_pct _ NP). exact H.
Qed.

(* ---- Eq / Ord / Hash agree with one another ---- *)
Lemma bytes_cmp_eq a : forall b, bytes_cmp a b = Eq <-> a = b.
Proof.
  induction a as [|x a IH]; intros [|y b]; cbn [bytes_cmp]; try (split; [discriminate|discriminate]); [split; reflexivity|].
  destruct (N.compare_spec x y) as [E|L|L].
  - subst. rewrite IH. split; [intros ->; reflexivity|intros H; inversion H; reflexivity].
  - split; [discriminate|]. intros H; inversion H; lia.
  - split; [discriminate|]. intros H; inversion H; lia.
Qed.
Lemma bytes_cmp_antisym a : forall b, bytes_cmp b a = CompOpp (bytes_cmp a b).
Proof.
  induction a as [|x a IH]; intros [|y b]; cbn [bytes_cmp CompOpp]; try reflexivity.
  rewrite (N.compare_antisym x y). destruct (N.compare x y); cbn [CompOpp]; [apply IH|reflexivity|reflexivity].
Qed.
Lemma list_eqb_iff a b : list_eqb a b = true <-> a = b.
Proof. split; [apply list_eqb_eq|intros ->; apply list_eqb_refl']. Qed.

(* Eq holds exactly when Ord answers Equal *)
Theorem url_eq_iff_cmp u v : url_eqb u v = true <-> url_cmp u v = Eq.
Proof.
  unfold url_eqb, url_cmp. rewrite !andb_true_iff, !list_eqb_iff. split.
  - intros [[[-> ->] ->] ->]. repeat (rewrite (proj2 (bytes_cmp_eq _ _) eq_refl)). reflexivity.
  - destruct (bytes_cmp (u_did u) (u_did v)) eqn:E1; try discriminate. apply bytes_cmp_eq in E1.
    destruct (bytes_cmp (oapp (u_path u)) (oapp (u_path v))) eqn:E2; try discriminate. apply bytes_cmp_eq in E2.
    destruct (bytes_cmp (oapp (u_query u)) (oapp (u_query v))) eqn:E3; try discriminate. apply bytes_cmp_eq in E3.
    intros E4. apply bytes_cmp_eq in E4. auto.
Qed.
(* Ord is antisymmetric *)
Theorem url_cmp_antisym u v : url_cmp v u = CompOpp (url_cmp u v).
Proof.
  unfold url_cmp. rewrite (bytes_cmp_antisym (u_did u) (u_did v)). destruct (bytes_cmp (u_did u) (u_did v)); cbn [CompOpp]; try reflexivity.
  rewrite (bytes_cmp_antisym (oapp (u_path u))). destruct (bytes_cmp (oapp (u_path u)) (oapp (u_path v))); cbn [CompOpp]; try reflexivity.
  rewrite (bytes_cmp_antisym (oapp (u_query u))). destruct (bytes_cmp (oapp (u_query u)) (oapp (u_query v))); cbn [CompOpp]; try reflexivity.
  apply bytes_cmp_antisym.
Qed.
(* equal values feed the same bytes to the hasher *)
Theorem url_eq_same_hash_input u v : url_eqb u v = true -> url_hash_input u = url_hash_input v.
Proof.
  unfold url_eqb, url_hash_input, did_url_to_string. rewrite !andb_true_iff, !list_eqb_iff. intros [[[-> ->] ->] ->]. reflexivity.
Qed.
(* and for well-formed values (everything the parsers, setters and join produce outside K_pct) the converse holds: the string form
   determines the value, so Eq, Ord = Equal, equal hasher input and equal string forms are one and the same relation *)
Theorem url_string_injective u v : wf_url u -> wf_url v -> did_url_to_string u = did_url_to_string v -> u = v.
Proof.
  intros Wu Wv E. pose proof (wf_url_reparses u Wu) as Pu. pose proof (wf_url_reparses v Wv) as Pv. rewrite E in Pu. rewrite Pu in Pv. inversion Pv. reflexivity.
Qed.
Theorem url_eq_iff_string u v : wf_url u -> wf_url v -> (url_eqb u v = true <-> did_url_to_string u = did_url_to_string v).
Proof.
  intros Wu Wv. split; [apply url_eq_same_hash_input|]. intros E. rewrite (url_string_injective u v Wu Wv E).
  unfold url_eqb. rewrite !list_eqb_refl'. reflexivity.
Qed.

(* ---- DIDUrl::join ---- *)
(* what the base (the string form of a well-formed value) parses to *)
Lemma wf_url_parts u : wf_url u -> exists p oq of,
  wf_parts (u_method u) (u_mid u) p oq of /\ did_url_to_string u = url_text (u_method u) (u_mid u) p oq of
  /\ u_path u = opt_nonempty p /\ u_query u = option_map (cons 63) oq /\ u_frag u = option_map (cons 35) of.
Proof.
  intros [Ed [Nm [Cm [Ni [Ci [Wp [Wq Wf]]]]]]].
  destruct u as [d m i up uq uf]. cbn [u_did u_method u_mid u_path u_query u_frag] in *.
  exists (oapp up), (match uq with Some (_ :: t) => Some t | _ => None end), (match uf with Some (_ :: t) => Some t | _ => None end).
  assert (up = opt_nonempty (oapp up)) as Ep.
  { destruct up as [x|]; [|reflexivity]. destruct (Wp x eq_refl) as [t [-> _]]. reflexivity. }
  assert (uq = option_map (cons 63) (match uq with Some (_ :: t) => Some t | _ => None end)) as Eq.
  { destruct uq as [x|]; [|reflexivity]. destruct (Wq x eq_refl) as [t [-> _]]. reflexivity. }
  assert (uf = option_map (cons 35) (match uf with Some (_ :: t) => Some t | _ => None end)) as Ef.
  { destruct uf as [x|]; [|reflexivity]. destruct (Wf x eq_refl) as [t [-> _]]. reflexivity. }
  split.
  - constructor; auto.
    + destruct up as [x|]; [|left; reflexivity]. right. exact (Wp x eq_refl).
    + intros q Hq. destruct uq as [x|]; [|discriminate]. destruct (Wq x eq_refl) as [t [-> [Nt [Ct St]]]]. inversion Hq; subst q. auto.
    + intros f Hf. destruct uf as [x|]; [|discriminate]. destruct (Wf x eq_refl) as [t [-> [Nt Ct]]]. inversion Hf; subst f. auto.
  - split; [|auto]. unfold did_url_to_string, url_text. cbn [u_did u_path u_query u_frag]. rewrite Ed, <- !app_assoc.
    destruct uq as [[|? ?]|]; destruct uf as [[|? ?]|]; try reflexivity;
      try (destruct (Wq _ eq_refl) as [t [X _]]; discriminate); try (destruct (Wf _ eq_refl) as [t [X _]]; discriminate);
      cbn [option_map] in Eq, Ef; try (inversion Eq; subst); try (inversion Ef; subst); reflexivity.
Qed.

(* join never touches the DID part, and whatever it returns (percent-free) is well formed, hence re-parses to itself *)
Theorem join_sound u seg j : wf_url u -> did_url_join u seg = Ok j ->
  u_did j = u_did u /\ u_method j = u_method u /\ u_mid j = u_mid u
  /\ (no_pct (did_url_to_string j) = true -> wf_url j /\ did_url_parse (did_url_to_string j) = Ok j).
Proof.
  intros W H. pose proof W as [Ed [Nm [Cm [Ni [Ci _]]]]].
  unfold did_url_join in H. destruct seg as [|c seg']; [discriminate|].
  destruct (negb ((c =? 47) || (c =? 63) || (c =? 35))); [discriminate|].
  apply obind_ok in H as [rc [_ H]]. apply obind_ok in H as [P' [_ H]]. apply obind_ok in H as [Q' [_ H]]. apply obind_ok in H as [F' [_ H]].
  cbv zeta in H.
  apply obind_ok in H as [up [Sp H]]. apply obind_ok in H as [uq [Sq H]]. apply obind_ok in H as [uf [Sf H]].
  destruct (negb (valid_method_name (u_method u)) || negb (valid_method_id (u_mid u))); [discriminate|].
  inversion H; subst j; clear H. cbn [u_did u_method u_mid u_path u_query u_frag].
  split; [reflexivity|]. split; [reflexivity|]. split; [reflexivity|].
  intros NP.
  assert (wf_url {| u_did := u_did u; u_method := u_method u; u_mid := u_mid u; u_path := up; u_query := uq; u_frag := uf |}) as Wj.
  { unfold did_url_to_string in NP. cbn [u_did u_path u_query u_frag] in NP.
    apply no_pct_app in NP as [_ NP]. apply no_pct_app in NP as [NPp NP]. apply no_pct_app in NP as [NPq NPf].
    unfold wf_url. cbn [u_did u_method u_mid u_path u_query u_frag]. repeat split; auto.
    - intros x Hx. subst up. apply set_path_sound in Sp. destruct Sp as [_ [t [Et V]]]. exists t. split; [exact Et|]. exact (valid_seg_class _ _ NPp V).
    - intros x Hx. subst uq. apply set_query_sound in Sq. destruct Sq as [t [Et [Nt [V _]]]]. exists t. split; [exact Et|].
      subst x. cbn [oapp] in NPq. apply no_pct_cons in NPq as [_ NPq]. pose proof (valid_seg_class _ _ NPq V) as C.
      split; [exact Nt|]. split; [exact C|exact (class_excludes _ _ _ query_not_stop C)].
    - intros x Hx. subst uf. apply set_fragment_sound in Sf. destruct Sf as [t [Et [Nt [V _]]]]. exists t. split; [exact Et|].
      subst x. cbn [oapp] in NPf. apply no_pct_cons in NPf as [_ NPf]. split; [exact Nt|exact (valid_seg_class _ _ NPf V)]. }
  split; [exact Wj|exact (wf_url_reparses _ Wj)].
Qed.
(* join never touches the DID part - for EVERY receiver and segment (percent or not): the receiver's text is not re-parsed *)
Theorem join_keeps_did u seg j : did_url_join u seg = Ok j -> u_did j = u_did u /\ u_method j = u_method u /\ u_mid j = u_mid u.
Proof.
  unfold did_url_join. destruct seg as [|c seg']; [discriminate|]. destruct (negb _); [discriminate|]. intros H.
  apply obind_ok in H as [rc [_ H]]. apply obind_ok in H as [P' [_ H]]. apply obind_ok in H as [Q' [_ H]]. apply obind_ok in H as [F' [_ H]]. cbv zeta in H.
  apply obind_ok in H as [up [_ H]]. apply obind_ok in H as [uq [_ H]]. apply obind_ok in H as [uf [_ H]].
  destruct (_ || _); [discriminate|]. inversion H. cbn. auto.
Qed.

(* a segment that is not a relative path, query or fragment is refused *)
Theorem join_rejects_non_relative u seg : (match seg with c :: _ => negb ((c =? 47) || (c =? 63) || (c =? 35)) | [] => true end) = true ->
  did_url_join u seg = Err EPath.
Proof. unfold did_url_join. destruct seg as [|c r]; [reflexivity|]. intros ->. reflexivity. Qed.

(* the setters accept the components of a well-formed value *)
Lemma set_path_of_wf m i p oq of : wf_parts m i p oq of -> set_path (Some p) = Ok (opt_nonempty p).
Proof.
  intros W. destruct (wf_p _ _ _ _ _ W) as [->|[t [Ept Hpt]]]; [reflexivity|].
  assert (forallb char_query p = true) as Hpq by (revert Hpt; apply forallb_imp; exact char_path_query).
  pose proof (valid_seg_plain char_path p Hpt (sub_no_pct_of_class _ Hpq)) as V.
  subst p. unfold set_path. change (47 =? 47) with true. rewrite V. reflexivity.
Qed.
Lemma set_query_of_class oq : (forall q, oq = Some q -> q <> [] /\ forallb char_query q = true) ->
  set_query (match oq with Some x => Some (63 :: x) | None => None end) = Ok (option_map (cons 63) oq).
Proof.
  destruct oq as [q|]; [|reflexivity]. intros H. destruct (H q eq_refl) as [Nq Cq].
  unfold set_query. change (strip1 63 (63 :: q)) with q. rewrite (valid_seg_plain char_query q Cq (sub_no_pct_of_class _ Cq)).
  destruct q; [congruence|reflexivity].
Qed.
Lemma set_fragment_of_class of : (forall f, of = Some f -> f <> [] /\ forallb char_query f = true) ->
  set_fragment (match of with Some x => Some (35 :: x) | None => None end) = Ok (option_map (cons 35) of).
Proof.
  destruct of as [f|]; [|reflexivity]. intros H. destruct (H f eq_refl) as [Nf Cf].
  unfold set_fragment. change (strip1 35 (35 :: f)) with f. rewrite (valid_seg_plain char_query f Cf (sub_no_pct_of_class _ Cf)).
  destruct f; [congruence|reflexivity].
Qed.

(* the dominant use, did_url.join("#fragment"): exactly the receiver with its fragment replaced *)
Theorem join_fragment u f : wf_url u -> f <> [] -> forallb char_query f = true ->
  did_url_join u (35 :: f) = Ok (with_frag u (Some (35 :: f))).
Proof.
  intros W Nf Cf. destruct (wf_url_parts u W) as [p [oq [of [Wp [Es [Ep [Eq Ef]]]]]]].
  pose proof W as [Ed [Nm [Cm [Ni [Ci _]]]]].
  unfold did_url_join. change (negb ((35 =? 47) || (35 =? 63) || (35 =? 35))) with false. cbn iota.
  (* the relative reference "#f" *)
  assert (tp_rel_offsets (35 :: f) = Ok {| o_method := 0; o_mid := 0; o_path := 0; o_query := None; o_frag := Some O |}) as R.
  { unfold tp_rel_offsets. change (stop_path 35) with true. cbn iota. cbn [skipn]. change (35 =? 35) with true. cbn iota. cbn [negb].
    rewrite (loop_end f Cf). reflexivity. }
  rewrite R. cbn [obind].
  assert (tp_path (35 :: f) {| o_method := 0; o_mid := 0; o_path := 0; o_query := None; o_frag := Some O |} = Ok []) as RP by reflexivity.
  assert (tp_query (35 :: f) {| o_method := 0; o_mid := 0; o_path := 0; o_query := None; o_frag := Some O |} = Ok None) as RQ by reflexivity.
  assert (tp_fragment (35 :: f) {| o_method := 0; o_mid := 0; o_path := 0; o_query := None; o_frag := Some O |} = Ok (Some f)) as RF.
  { unfold tp_fragment, slice_from, slice. cbn [o_frag length Nat.add]. rewrite Nat.leb_refl. cbn [Nat.leb andb obind skipn]. 
    replace (S (length f) - 1)%nat with (length f) by lia. rewrite firstn_all. reflexivity. }
  rewrite RP, RQ, RF. cbn [obind is_nil]. cbv zeta.
  assert (oapp (u_path u) = p) as Bp by (rewrite Ep; destruct p; reflexivity).
  assert (match u_query u with Some q => Some (strip1 63 q) | None => None end = oq) as Bq by (rewrite Eq; destruct oq; reflexivity).
  rewrite Bp, Bq.
  rewrite (set_path_of_wf _ _ _ _ _ Wp). cbn [obind].
  rewrite (set_query_of_class oq) by (intros q Hq; destruct (wf_q _ _ _ _ _ Wp q Hq) as [A [B _]]; auto). cbn [obind].
  rewrite (set_fragment_of_class (Some f)) by (intros x Hx; inversion Hx; subst x; auto). cbn [obind].
  unfold valid_method_name. rewrite Cm, (valid_mid_plain _ Ci). cbn [negb orb option_map]. unfold with_frag. rewrite <- Ep, <- Eq. reflexivity.
Qed.
