(* Proofs about the key-store models (C15). *)
From Coq Require Import List ZArith Bool Lia.
From IdV Require Import Storage.KeyStore.
Import ListNotations.
Open Scope Z_scope.

(* ---------- the JWK store ---------- *)
Definition ids_below (s : kstate) : Prop := forall id j, lookup (ks_store s) id = Some j -> id < ks_next s.
Lemma lookup_remove s id id' : lookup (remove s id) id' = if id' =? id then None else lookup s id'.
Proof. induction s as [|[k v] r IH]; cbn [remove lookup]; [destruct (id' =? id); reflexivity|].
  destruct (Z.eqb_spec k id) as [E1|N].
  - rewrite IH. destruct (Z.eqb_spec id' id) as [E2|N2]; [reflexivity|]. destruct (Z.eqb_spec k id') as [E|_]; [congruence|reflexivity].
  - cbn [lookup]. rewrite IH. destruct (Z.eqb_spec k id') as [E3|N3]; [|reflexivity]. destruct (Z.eqb_spec id' id) as [E|_]; [congruence|reflexivity]. Qed.
Lemma kstep_ids_below s o : ids_below s -> ids_below (fst (kstep s o)).
Proof. intros H. unfold ids_below in *. destruct o as [k e sec|j|id p|id|id]; cbn [kstep].
  - destruct (memtype_of_ktype k); [|exact H]. destruct (negb _); [exact H|]. cbn [fst ks_store ks_next lookup]. intros idq jq.
    destruct (ks_next s =? idq) eqn:E; [intros _; apply Z.eqb_eq in E; lia|intros K; specialize (H idq jq K); lia].
  - destruct (memtype_of_jwk j); [|exact H]. destruct (negb (j_private j)); [exact H|]. destruct (j_alg j) as [[| |]|]; try exact H;
    (destruct (negb _); [exact H|]); cbn [fst ks_store ks_next lookup]; intros idq jq;
    (destruct (ks_next s =? idq) eqn:E; [intros _; apply Z.eqb_eq in E; lia|intros K; specialize (H idq jq K); lia]).
  - destruct (p_alg p) as [[| |]|]; try exact H. destruct (p_kind p); try exact H. destruct (lookup (ks_store s) id) as [j|]; [destruct (j_d_ok j)|]; exact H.
  - destruct (lookup (ks_store s) id) as [j0|] eqn:E; [|exact H]. cbn [fst ks_store ks_next]. intros id' j'. rewrite lookup_remove. destruct (id' =? id); [discriminate|apply H].
  - exact H. Qed.
Lemma krun_ids_below ops : forall s, ids_below s -> ids_below (krun ops s).
Proof. induction ops as [|o r IH]; intros s H; [exact H|]. cbn [krun fold_left]. apply IH. apply kstep_ids_below. exact H. Qed.
Lemma init_ids_below : ids_below ks_init. Proof. intros id j H. discriminate H. Qed.
Theorem ids_fresh ops : ids_below (krun ops ks_init).
Proof. apply krun_ids_below. exact init_ids_below. Qed.

(* generate: a fresh key id, a public-only JWK of the new key whose kid is its thumbprint and whose alg is the requested one *)
Theorem generate_output s k e sec s' id p : ids_below s -> kstep s (OGenerate k e sec) = (s', RGen id p) ->
  lookup (ks_store s) id = None /\ k = KtEd25519 /\ e = true
  /\ p_public_only p = true /\ p_kid_is_thumbprint p = true /\ p_alg p = Some AEdDSA /\ p_key p = pub sec
  /\ (forall id', lookup (ks_store s') id' = if id' =? id then Some {| j_kind := JOkpEd25519; j_private := true; j_alg := Some AEdDSA; j_secret := sec; j_d_ok := true |} else lookup (ks_store s) id').
Proof. intros Hb. cbn [kstep]. destruct k; cbn [memtype_of_ktype]; try discriminate; destruct e; cbn [compatible negb]; try discriminate.
  intros H. injection H as <- <- <-. repeat split.
  - destruct (lookup (ks_store s) (ks_next s)) as [j|] eqn:E; [|reflexivity]. specialize (Hb _ _ E). lia.
  - intros id'. cbn [ks_store lookup]. rewrite Z.eqb_sym. reflexivity. Qed.
(* insert: accepted only for a fully private Ed25519 JWK whose alg is EdDSA *)
Theorem insert_requires s j s' id : kstep s (OInsert j) = (s', RId id) ->
  j_kind j = JOkpEd25519 /\ j_private j = true /\ j_alg j = Some AEdDSA /\ id = ks_next s.
Proof. cbn [kstep]. unfold memtype_of_jwk. destruct (j_kind j); try discriminate; (destruct (j_private j); cbn [negb]; [|discriminate]);
  destruct (j_alg j) as [[| |]|]; cbn [compatible negb]; try discriminate; intros H; injection H as <- <-; repeat split. Qed.
(* sign: only for a stored key id; the signature verifies under that key's public key and under no other key *)
Theorem sign_own_only s id p s' sec : kstep s (OSign id p) = (s', RSig sec) ->
  s' = s /\ exists j, lookup (ks_store s) id = Some j /\ j_secret j = sec /\ (forall pk, verifies pk sec = true <-> pk = pub (j_secret j)).
Proof. cbn [kstep]. destruct (p_alg p) as [[| |]|]; try discriminate. destruct (p_kind p); try discriminate.
  destruct (lookup (ks_store s) id) as [j|]; [|discriminate]. destruct (j_d_ok j); [|discriminate]. intros H. injection H as <- <-.
  split; [reflexivity|]. exists j. repeat split; unfold verifies; intros K; [apply Z.eqb_eq in K; exact K|subst; apply Z.eqb_refl]. Qed.
(* a deleted or never-issued key id neither signs, exists nor deletes *)
Theorem absent_id_inert s id : lookup (ks_store s) id = None ->
  (forall p, exists e, kstep s (OSign id p) = (s, RErr e)) /\ kstep s (OExists id) = (s, RBool false) /\ kstep s (ODelete id) = (s, RErr EKeyNotFound).
Proof. intros H. cbn [kstep]. rewrite H. repeat split. intros p. destruct (p_alg p) as [[| |]|]; try (eexists; reflexivity). destruct (p_kind p); eexists; reflexivity. Qed.
Theorem never_issued_absent ops id : ks_next (krun ops ks_init) <= id -> lookup (ks_store (krun ops ks_init)) id = None.
Proof. intros H. pose proof (krun_ids_below ops ks_init init_ids_below) as K. destruct (lookup (ks_store (krun ops ks_init)) id) as [j|] eqn:E; [|reflexivity]. specialize (K _ _ E). lia. Qed.
Theorem deleted_absent s id s' : kstep s (ODelete id) = (s', RUnit) -> lookup (ks_store s') id = None /\ forall id', id' <> id -> lookup (ks_store s') id' = lookup (ks_store s) id'.
Proof. cbn [kstep]. destruct (lookup (ks_store s) id); [|discriminate]. intros H. injection H as <-. cbn [ks_store]. split.
  - rewrite lookup_remove, Z.eqb_refl. reflexivity.
  - intros id' Hn. rewrite lookup_remove. destruct (id' =? id) eqn:E; [apply Z.eqb_eq in E; contradiction|reflexivity]. Qed.
(* errors and queries leave the store as it was *)
Theorem failed_op_no_effect s o e : snd (kstep s o) = RErr e -> fst (kstep s o) = s.
Proof. destruct o as [k ed sec|j|id p|id|id]; cbn [kstep].
  - destruct (memtype_of_ktype k); [|reflexivity]. destruct (negb _); [reflexivity|discriminate].
  - destruct (memtype_of_jwk j); [|reflexivity]. destruct (negb (j_private j)); [reflexivity|]. destruct (j_alg j) as [[| |]|]; try reflexivity; (destruct (negb _); [reflexivity|discriminate]).
  - destruct (p_alg p) as [[| |]|]; try reflexivity. destruct (p_kind p); try reflexivity. destruct (lookup _ _) as [j|]; [destruct (j_d_ok j)|]; reflexivity.
  - destruct (lookup _ _); [discriminate|reflexivity].
  - discriminate. Qed.

(* ---------- the key-id store ---------- *)
Lemma id_get_remove s d d' : id_get (id_remove s d) d' = if d' =? d then None else id_get s d'.
Proof. induction s as [|[k v] r IH]; cbn [id_remove id_get]; [destruct (d' =? d); reflexivity|].
  destruct (Z.eqb_spec k d) as [E1|N].
  - rewrite IH. destruct (Z.eqb_spec d' d) as [E2|N2]; [reflexivity|]. destruct (Z.eqb_spec k d') as [E|_]; [congruence|reflexivity].
  - cbn [id_get]. rewrite IH. destruct (Z.eqb_spec k d') as [E3|N3]; [|reflexivity]. destruct (Z.eqb_spec d' d) as [E|_]; [congruence|reflexivity]. Qed.
(* a second insert for a digest fails and leaves the first mapping intact *)
Theorem keyid_at_most_one s d kid kid' : id_get s d = Some kid -> idstep s (IInsert d kid') = (s, IExists).
Proof. intros H. cbn [idstep]. rewrite H. reflexivity. Qed.
Theorem keyid_insert_get s d kid s' : idstep s (IInsert d kid) = (s', IOk) ->
  id_get s d = None /\ id_get s' d = Some kid /\ forall d', d' <> d -> id_get s' d' = id_get s d'.
Proof. cbn [idstep]. destruct (id_get s d) eqn:E; [discriminate|]. intros H. injection H as <-. cbn [id_get]. rewrite Z.eqb_refl. repeat split.
  intros d' Hn. destruct (d =? d') eqn:E2; [apply Z.eqb_eq in E2; congruence|reflexivity]. Qed.
Theorem keyid_delete s d s' : idstep s (IDelete d) = (s', IOk) -> id_get s' d = None /\ forall d', d' <> d -> id_get s' d' = id_get s d'.
Proof. cbn [idstep]. destruct (id_get s d); [|discriminate]. intros H. injection H as <-. split; [rewrite id_get_remove, Z.eqb_refl; reflexivity|].
  intros d' Hn. rewrite id_get_remove. destruct (d' =? d) eqn:E; [apply Z.eqb_eq in E; contradiction|reflexivity]. Qed.

(* ---------- racing inserts of one digest ---------- *)
Definition quiet (p : pc) : Prop := match p with Start | Done _ => True | _ => False end.
Definition race_inv (r : race) : Prop :=
  (match r_lock r with
   | Some t => (r_pc r t = Holding \/ exists b, r_pc r t = Checked b) /\ forall t', t' <> t -> quiet (r_pc r t')
   | None => forall t, quiet (r_pc r t) end)
  /\ (forall t b, r_pc r t = Checked b -> (b = true <-> r_store r <> None))
  /\ (forall t, r_pc r t = Done true -> r_store r = Some t)
  /\ (forall w, r_store r = Some w -> r_pc r w = Done true)
  /\ (forall t, r_pc r t = Done false -> r_store r <> None).
Lemma set_pc_same f t p : set_pc f t p t = p. Proof. unfold set_pc. rewrite Z.eqb_refl. reflexivity. Qed.
Lemma set_pc_other f t p t' : t' <> t -> set_pc f t p t' = f t'. Proof. intros H. unfold set_pc. destruct (t' =? t) eqn:E; [apply Z.eqb_eq in E; contradiction|reflexivity]. Qed.

Lemma holder_is_lock r t : race_inv r -> (r_pc r t = Holding \/ exists b, r_pc r t = Checked b) -> r_lock r = Some t.
Proof. intros [L _] H. destruct (r_lock r) as [t0|].
  - destruct L as [_ Q]. destruct (Z.eq_dec t t0) as [->|N]; [reflexivity|]. specialize (Q t N). destruct H as [H|[b H]]; rewrite H in Q; destruct Q.
  - specialize (L t). destruct H as [H|[b H]]; rewrite H in L; destruct L. Qed.
Lemma race_inv_init : race_inv race_init.
Proof. unfold race_inv, race_init; cbn. split; [intros t; exact Logic.I|]. split; [intros t b H; discriminate H|]. split; [intros t H; discriminate H|]. split; [intros w H; discriminate H|intros t H; discriminate H]. Qed.
Ltac inv5 := unfold race_inv; cbn [r_pc r_lock r_store]; split; [|split; [|split; [|split]]].
Lemma rstep_inv r t : race_inv r -> race_inv (rstep r t).
Proof. intros I. pose proof I as [L [C [W [S F]]]]. unfold rstep. destruct (r_pc r t) as [| |b|ok] eqn:Ept.
  - (* Start *) destruct (r_lock r) as [t0|] eqn:El; [exact I|]. inv5.
    + split; [left; apply set_pc_same|]. intros t' N. rewrite (set_pc_other _ _ _ _ N). apply L.
    + intros t0 b0 H0. destruct (Z.eq_dec t0 t) as [E|N]; [subst t0; rewrite set_pc_same in H0; discriminate H0|]. rewrite (set_pc_other _ _ _ _ N) in H0. apply (C t0 b0 H0).
    + intros t0 H. destruct (Z.eq_dec t0 t) as [E|N]; [subst t0; rewrite set_pc_same in H; discriminate H|]. rewrite (set_pc_other _ _ _ _ N) in H. apply W. exact H.
    + intros w H. destruct (Z.eq_dec w t) as [E|N]; [subst w; apply S in H; rewrite Ept in H; discriminate H|]. rewrite (set_pc_other _ _ _ _ N). apply S. exact H.
    + intros t0 H. destruct (Z.eq_dec t0 t) as [E|N]; [subst t0; rewrite set_pc_same in H; discriminate H|]. rewrite (set_pc_other _ _ _ _ N) in H. apply (F t0). exact H.
  - (* Holding *) assert (El : r_lock r = Some t) by (apply holder_is_lock; [exact I|left; exact Ept]). rewrite El in L. destruct L as [_ Q].
    inv5.
    + rewrite El. split; [right; eexists; apply set_pc_same|]. intros t' N. rewrite (set_pc_other _ _ _ _ N). apply Q. exact N.
    + intros t0 b0 H0. destruct (Z.eq_dec t0 t) as [E|N].
      * subst t0. rewrite set_pc_same in H0. injection H0 as <-. destruct (r_store r); split; intros K; [discriminate|reflexivity|discriminate K|exfalso; apply K; reflexivity].
      * rewrite (set_pc_other _ _ _ _ N) in H0. specialize (Q t0 N). rewrite H0 in Q. destruct Q.
    + intros t0 H. destruct (Z.eq_dec t0 t) as [E|N]; [subst t0; rewrite set_pc_same in H; discriminate H|]. rewrite (set_pc_other _ _ _ _ N) in H. apply W. exact H.
    + intros w H. destruct (Z.eq_dec w t) as [E|N]; [subst w; apply S in H; rewrite Ept in H; discriminate H|]. rewrite (set_pc_other _ _ _ _ N). apply S. exact H.
    + intros t0 H. destruct (Z.eq_dec t0 t) as [E|N]; [subst t0; rewrite set_pc_same in H; discriminate H|]. rewrite (set_pc_other _ _ _ _ N) in H. apply (F t0). exact H.
  - (* Checked *) assert (El : r_lock r = Some t) by (apply holder_is_lock; [exact I|right; exists b; exact Ept]). rewrite El in L. destruct L as [_ Q].
    assert (Qall : forall p x, quiet (set_pc (r_pc r) t (Done p) x)).
    { intros p x. destruct (Z.eq_dec x t) as [E|N]; [subst x; rewrite set_pc_same; exact Logic.I|rewrite (set_pc_other _ _ _ _ N); apply Q; exact N]. }
    assert (NoChk : forall p t0 b0, set_pc (r_pc r) t (Done p) t0 = Checked b0 -> False).
    { intros p t0 b0 H. destruct (Z.eq_dec t0 t) as [E|N]; [subst t0; rewrite set_pc_same in H; discriminate H|]. rewrite (set_pc_other _ _ _ _ N) in H. specialize (Q t0 N). rewrite H in Q. destruct Q. }
    destruct b.
    + (* present: fail *) assert (St : r_store r <> None) by (apply (C t true Ept); reflexivity).
      inv5.
      * apply (Qall false).
      * intros t0 b0 H0. exfalso. apply (NoChk _ _ _ H0).
      * intros t0 H. destruct (Z.eq_dec t0 t) as [E|N]; [subst t0; rewrite set_pc_same in H; discriminate H|]. rewrite (set_pc_other _ _ _ _ N) in H. apply W. exact H.
      * intros w H. destruct (Z.eq_dec w t) as [E|N]; [subst w; apply S in H; rewrite Ept in H; discriminate H|]. rewrite (set_pc_other _ _ _ _ N). apply S. exact H.
      * intros t0 _. exact St.
    + (* absent: win *) assert (St : r_store r = None). { destruct (r_store r) eqn:E; [|reflexivity]. assert (K : false = true) by (apply (C t false Ept); discriminate). discriminate K. }
      inv5.
      * apply (Qall true).
      * intros t0 b0 H0. exfalso. apply (NoChk _ _ _ H0).
      * intros t0 H. destruct (Z.eq_dec t0 t) as [E|N]; [subst t0; reflexivity|]. rewrite (set_pc_other _ _ _ _ N) in H. apply W in H. rewrite St in H. discriminate H.
      * intros w H. injection H as <-. apply set_pc_same.
      * intros t0 _. discriminate.
  - exact I. Qed.
Theorem race_inv_run schedule : race_inv (rrun schedule).
Proof. unfold rrun. assert (G : forall r, race_inv r -> race_inv (fold_left rstep schedule r)).
  { induction schedule as [|t rest IH]; intros r H; [exact H|]. cbn [fold_left]. apply IH. apply rstep_inv. exact H. }
  apply G. apply race_inv_init. Qed.
(* any schedule after which every one of the racing threads has finished: exactly one insert returned Ok, and the digest maps to that thread's key id *)
Theorem race_one_winner schedule (threads : list Z) : threads <> [] ->
  (forall t, In t threads -> exists ok, r_pc (rrun schedule) t = Done ok) ->
  (forall t, ~ In t threads -> r_pc (rrun schedule) t = Start) ->
  exists w, In w threads /\ r_store (rrun schedule) = Some w /\ r_pc (rrun schedule) w = Done true
            /\ forall t, r_pc (rrun schedule) t = Done true -> t = w.
Proof. intros Hne Hd Hs. pose proof (race_inv_run schedule) as [_ [_ [W [S F]]]].
  destruct threads as [|t0 rest]; [contradiction|]. destruct (Hd t0 (or_introl eq_refl)) as [ok Hok].
  assert (St : r_store (rrun schedule) <> None) by (destruct ok; [rewrite (W t0 Hok); discriminate|apply (F t0 Hok)]).
  destruct (r_store (rrun schedule)) as [w|] eqn:E; [|contradiction]. exists w. pose proof (S w eq_refl) as Hw. repeat split; try assumption.
  - destruct (in_dec Z.eq_dec w (t0 :: rest)) as [I|NI]; [exact I|]. rewrite (Hs w NI) in Hw. discriminate Hw.
  - intros t Ht. apply W in Ht. injection Ht as <-. reflexivity. Qed.
(* what the lock buys: with contains_key outside the lock two threads can both succeed *)
Theorem race_unlocked_refuted :
  let r := fold_left rstep_unlocked [1; 2; 1; 2] race_init in r_pc r 1 = Done true /\ r_pc r 2 = Done true.
Proof. vm_compute. split; reflexivity. Qed.

(* the Stronghold-backed store refines the in-memory contract: whatever it completes, the contract completes with the same result and state;
   whatever it refuses leaves the store as it was *)
Definition is_err (r : kres) : bool := match r with RErr _ => true | _ => false end.
Theorem kstep_sh_refines s o s' r : kstep_sh s o = (s', r) -> (is_err r = false -> kstep s o = (s', r)) /\ (is_err r = true -> s' = s).
Proof.
  assert (G : forall o0 s1 r1, kstep s o0 = (s1, r1) -> (is_err r1 = false -> kstep s o0 = (s1, r1)) /\ (is_err r1 = true -> s1 = s)).
  { intros o0 s1 r1 K. split; [intros _; exact K|]. intros E. destruct r1 as [? ?|?|?| |?|e]; try discriminate.
    pose proof (failed_op_no_effect s o0 e) as F. rewrite K in F. cbn [fst snd] in F. symmetry. symmetry in F. rewrite F; reflexivity. }
  unfold kstep_sh. destruct o as [k e sec|j|id p|id|id]; try (apply G).
  destruct (kstep s (OInsert j)) as [s1 r1] eqn:K.
  assert (G1 : forall s2 r2, (s1, r1) = (s2, r2) -> (is_err r2 = false -> (s1, r1) = (s2, r2)) /\ (is_err r2 = true -> s2 = s)).
  { intros s2 r2 H. injection H as <- <-. split; [intros _; reflexivity|intros E; apply (G _ _ _ K); exact E]. }
  destruct r1 as [id p|id|sec| |b|e]; try (apply G1).
  destruct (j_d_ok j); [apply G1|]. intros H. injection H as <- <-. split; [discriminate|reflexivity].
Qed.
