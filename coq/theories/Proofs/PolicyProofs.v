From Coq Require Import List ZArith Bool Lia.
From IdV Require Import Jose.Header Jose.Policy.
Import ListNotations.
Open Scope Z_scope.

Lemma mem_In x l : mem x l = true <-> In x l.
Proof.
  unfold mem. rewrite existsb_exists. split.
  - intros [y [I E]]. apply Z.eqb_eq in E. subst. exact I.
  - intros I. exists x. split; [exact I|apply Z.eqb_refl].
Qed.

Lemma permitted_b64 c : permitted c = true -> c = N_B64.
Proof. unfold permitted. apply Z.eqb_eq. Qed.

(* has "b64" is presence of the b64 field *)
Lemma has_b64 h : hdr_has h N_B64 = match h_b64 h with Some _ => true | None => false end.
Proof. reflexivity. Qed.

(* is_disjoint is exactly "no parameter name is present in both headers" *)
Lemma mem_fields c l : (3 <=? c) && (c <=? 13) = true -> mem c l = true ->
  forall l', mem c l' = true -> existsb (fun x => mem x l && mem x l') [3;4;5;6;7;8;9;10;11;12;13] = true.
Proof.
  intros R M l' M'. apply existsb_exists. exists c. split; [|rewrite M, M'; reflexivity].
  apply andb_prop in R as [R1 R2]. apply Z.leb_le in R1, R2.
  assert (c = 3 \/ c = 4 \/ c = 5 \/ c = 6 \/ c = 7 \/ c = 8 \/ c = 9 \/ c = 10 \/ c = 11 \/ c = 12 \/ c = 13) as H by lia.
  cbn. intuition.
Qed.

Lemma names_custom h c : cmem h c = true -> hdr_names h c = true.
Proof. intros H. unfold hdr_names. rewrite H. apply orb_true_r. Qed.

Theorem disjoint_iff a b :
  hdr_disjoint a b = true <-> (forall c, hdr_names a c = true -> hdr_names b c = true -> False).
Proof.
  unfold hdr_disjoint, common_disjoint, custom_disjoint. split.
  - intros H c Ha Hb.
    apply andb_prop in H as [H Hcu]. apply andb_prop in H as [Hab Hco].
    apply negb_true_iff in Hab. apply orb_false_elim in Hab as [Halg Hb64].
    apply andb_prop in Hco as [Hf Hcr]. apply negb_true_iff in Hf, Hcr.
    apply andb_prop in Hcu as [C1 C2]. apply negb_true_iff in C1, C2.
    destruct (cmem a c) eqn:Ca.
    { unfold custom_clash in C1. unfold cmem in Ca. destruct (h_custom a) as [ka|]; [|discriminate].
      assert (existsb (hdr_names b) ka = true); [|congruence].
      apply existsb_exists. exists c. split; [apply mem_In; exact Ca|exact Hb]. }
    destruct (cmem b c) eqn:Cb.
    { unfold custom_clash in C2. unfold cmem in Cb. destruct (h_custom b) as [kb|]; [|discriminate].
      assert (existsb (hdr_names a) kb = true); [|congruence].
      apply existsb_exists. exists c. split; [apply mem_In; exact Cb|exact Ha]. }
    unfold hdr_names in Ha, Hb. rewrite Ca in Ha. rewrite Cb in Hb. rewrite orb_false_r in Ha, Hb.
    unfold hdr_has in Ha, Hb. fold (cmem a c) in Ha. fold (cmem b c) in Hb. rewrite Ca in Ha. rewrite Cb in Hb.
    destruct (c =? N_ALG) eqn:E0.
    { rewrite Ha, Hb in Halg. discriminate. }
    destruct (c =? N_B64) eqn:E1.
    { destruct (h_b64 a), (h_b64 b); discriminate. }
    rewrite orb_false_r in Ha, Hb.
    unfold common_has in Ha, Hb. destruct (c =? N_CRIT).
    + destruct (h_crit a), (h_crit b); discriminate.
    + destruct ((3 <=? c) && (c <=? 13)) eqn:R; [|discriminate].
      rewrite (mem_fields c _ R Ha _ Hb) in Hf. discriminate.
  - intros H.
    assert (forall h, h_alg h = true -> hdr_names h N_ALG = true) as Nalg by (intros h E; unfold hdr_names, hdr_has; cbn; rewrite E; reflexivity).
    assert (forall h x, h_b64 h = Some x -> hdr_names h N_B64 = true) as Nb64 by (intros h x E; unfold hdr_names, hdr_has; cbn; rewrite E; reflexivity).
    assert (forall h x, h_crit h = Some x -> hdr_names h N_CRIT = true) as Ncrit by (intros h x E; unfold hdr_names, hdr_has, common_has; cbn; rewrite E; reflexivity).
    apply andb_true_intro; split; [apply andb_true_intro; split|].
    + apply negb_true_iff. apply orb_false_intro.
      * destruct (h_alg a) eqn:A, (h_alg b) eqn:B; try reflexivity. exfalso. apply (H N_ALG); auto.
      * destruct (h_b64 a) eqn:A, (h_b64 b) eqn:B; try reflexivity. exfalso. apply (H N_B64); eauto.
    + apply andb_true_intro; split; apply negb_true_iff.
      * destruct (existsb _ _) eqn:E; [|reflexivity]. exfalso.
        apply existsb_exists in E as [c [Ic M]]. apply andb_prop in M as [Ma Mb].
        assert (3 <= c <= 13) as R by (cbn in Ic; lia).
        assert (forall h, mem c (h_common h) = true -> hdr_names h c = true) as Hh.
        { intros h Mh. unfold hdr_names, hdr_has, common_has.
          replace (c =? N_ALG) with false by (symmetry; apply Z.eqb_neq; unfold N_ALG; lia).
          replace (c =? N_B64) with false by (symmetry; apply Z.eqb_neq; unfold N_B64; lia).
          replace (c =? N_CRIT) with false by (symmetry; apply Z.eqb_neq; unfold N_CRIT; lia).
          replace ((3 <=? c) && (c <=? 13)) with true by (symmetry; apply andb_true_intro; split; apply Z.leb_le; lia).
          rewrite Mh. reflexivity. }
        apply (H c); apply Hh; assumption.
      * destruct (h_crit a) eqn:A, (h_crit b) eqn:B; try reflexivity. exfalso. apply (H N_CRIT); eauto.
    + apply andb_true_intro; split; apply negb_true_iff; unfold custom_clash.
      * destruct (h_custom a) as [ka|] eqn:A; [|reflexivity].
        destruct (existsb (hdr_names b) ka) eqn:E; [|reflexivity]. exfalso.
        apply existsb_exists in E as [c [Ic Hb]]. apply (H c); [|exact Hb].
        apply names_custom. unfold cmem. rewrite A. apply mem_In. exact Ic.
      * destruct (h_custom b) as [kb|] eqn:B; [|reflexivity].
        destruct (existsb (hdr_names a) kb) eqn:E; [|reflexivity]. exfalso.
        apply existsb_exists in E as [c [Ic Ha]]. apply (H c); [exact Ha|].
        apply names_custom. unfold cmem. rewrite B. apply mem_In. exact Ic.
Qed.

(* the pinned tree's custom comparison missed a custom key named like a field of the other header *)
Lemma disjoint_pinned_refuted : exists a b c,
  negb ((h_alg a && h_alg b) || (match h_b64 a, h_b64 b with Some _, Some _ => true | _, _ => false end))
  && common_disjoint a b && custom_disjoint_pinned a b = true
  /\ hdr_names a c = true /\ hdr_names b c = true.
Proof.
  exists {| h_alg := true; h_b64 := None; h_crit := None; h_common := []; h_custom := Some [5] |},
         {| h_alg := false; h_b64 := None; h_crit := None; h_common := [5]; h_custom := None |}, 5.
  vm_compute. repeat split.
Qed.

Lemma crit_values_b64 (h : hdr) vs :
  forallb (fun v => negb (predefined v) && permitted v && hdr_has h v) vs = true ->
  forall c, In c vs -> c = N_B64 /\ predefined c = false /\ permitted c = true /\ hdr_has h c = true.
Proof.
  intros H c I. rewrite forallb_forall in H. specialize (H c I).
  apply andb_prop in H as [H Hh]. apply andb_prop in H as [Hp Hq]. apply negb_true_iff in Hp.
  repeat split; auto. apply permitted_b64. exact Hq.
Qed.

Theorem validate_iff_policy p u : validate_jws_headers p u = true <-> policy_ok p u.
Proof.
  unfold validate_jws_headers. split.
  - intros H. apply andb_prop in H as [H Hb]. apply andb_prop in H as [Hd Hc].
    unfold validate_crit in Hc.
    destruct (obool (omap (fun h => hdr_has h N_CRIT) u)) eqn:Eu; [discriminate|].
    assert (ohas u N_CRIT = false) as Hu.
    { unfold ohas. destruct u as [h|]; [exact Eu|reflexivity]. }
    unfold validate_b64 in Hb.
    destruct (match u with Some h => match h_b64 h with Some _ => true | None => false end | None => false end) eqn:Eub; [discriminate|].
    assert ((match u with Some h => h_b64 h | None => None end) = None) as Hub.
    { destruct u as [hu|]; [|reflexivity]. destruct (h_b64 hu); [discriminate|reflexivity]. }
    assert (forall a b c, p = Some a -> u = Some b -> hdr_names a c = true -> hdr_names b c = true -> False) as Hdj.
    { intros a b c -> ->. unfold validate_disjoint in Hd. apply disjoint_iff. exact Hd. }
    destruct p as [h|].
    + destruct (h_crit h) as [vs|] eqn:Ecr.
      * destruct vs as [|v vs']; [discriminate|].
        pose proof (crit_values_b64 h _ Hc) as Hall.
        constructor.
        -- exact Hu.
        -- rewrite Ecr. discriminate.
        -- unfold ocrit. rewrite Ecr. intros c Ic. destruct (Hall c Ic) as [_ [A [B C]]].
           repeat split; auto.
        -- exact Hub.
        -- intros _. unfold ocrit. rewrite Ecr. destruct (Hall v (or_introl eq_refl)) as [E _]. subst v. left. reflexivity.
        -- exact Hdj.
      * constructor.
        -- exact Hu.
        -- rewrite Ecr. discriminate.
        -- unfold ocrit. rewrite Ecr. intros c [].
        -- exact Hub.
        -- intros Hn. destruct (h_b64 h); [discriminate|congruence].
        -- exact Hdj.
    + constructor.
      * exact Hu.
      * discriminate.
      * intros c [].
      * exact Hub.
      * congruence.
      * exact Hdj.
  - intros [P1 P2 P3 P4 P5 P6].
    apply andb_true_intro; split; [apply andb_true_intro; split|].
    + unfold validate_disjoint. destruct p as [a|], u as [b|]; auto. apply disjoint_iff. intros c. apply (P6 a b c); reflexivity.
    + unfold validate_crit.
      assert (obool (omap (fun h => hdr_has h N_CRIT) u) = false) as -> by (destruct u; exact P1).
      destruct p as [h|]; [|reflexivity].
      destruct (h_crit h) as [[|v vs]|] eqn:Ev; [congruence| |reflexivity].
      apply forallb_forall. intros c Ic.
      assert (In c (ocrit (Some h))) as Ic' by (unfold ocrit; rewrite Ev; exact Ic).
      destruct (P3 c Ic') as [Q1 [Q2 Q3]]. rewrite Q1, Q2. cbn [negb andb].
      apply permitted_b64 in Q2. subst c.
      destruct Q3 as [Q3|Q3]; [exact Q3|].
      exfalso. unfold ohas in Q3. destruct u as [hu|]; [|discriminate].
      rewrite has_b64 in Q3. rewrite P4 in Q3. discriminate.
    + unfold validate_b64.
      assert ((match u with Some h => match h_b64 h with Some _ => true | None => false end | None => false end) = false) as ->.
      { destruct u as [h|]; [|reflexivity]. rewrite P4. reflexivity. }
      destruct p as [h|]; [|reflexivity].
      destruct (h_b64 h) as [b|] eqn:Eb; [|reflexivity].
      destruct (h_crit h) as [vs|] eqn:Ec; [destruct (mem N_B64 vs); reflexivity|].
      exfalso. assert (In N_B64 (ocrit (Some h))) as I by (apply P5; congruence).
      unfold ocrit in I. rewrite Ec in I. exact I.
Qed.

(* the catch-all arm of validate_b64 is sound only together with validate_crit *)
Theorem b64_needs_crit_rule : exists p,
  validate_b64 (Some p) None = true /\ validate_disjoint (Some p) None = true
  /\ h_b64 p = Some false /\ ~ In N_B64 (ocrit (Some p)) /\ validate_crit (Some p) None = false.
Proof.
  exists {| h_alg := true; h_b64 := Some false; h_crit := Some [24]; h_common := []; h_custom := None |}.
  vm_compute. repeat split; try reflexivity. intros [H|[]]. discriminate.
Qed.

Theorem enc_compact_iff p : enc_compact p = true <-> policy_ok (Some p) None.
Proof. unfold enc_compact. apply validate_iff_policy. Qed.
Theorem enc_json_iff p u : enc_json p u = true <-> ((p <> None \/ u <> None) /\ policy_ok p u).
Proof.
  unfold enc_json. rewrite andb_true_iff, validate_iff_policy. unfold some_header.
  destruct p, u; intuition (try congruence; try discriminate).
Qed.
Theorem dec_signature_iff p u : dec_signature p u = true <-> ((p <> None \/ u <> None) /\ policy_ok p u).
Proof.
  unfold dec_signature. rewrite andb_true_iff, validate_iff_policy. unfold some_header.
  destruct p, u; intuition (try congruence; try discriminate).
Qed.
Theorem add_recipient_iff fb p u :
  enc_add_recipient fb p u = true <-> (extract_b64 p = fb /\ (p <> None \/ u <> None) /\ policy_ok p u).
Proof.
  unfold enc_add_recipient. rewrite andb_true_iff, enc_json_iff. split; intros [A B]; split; auto.
  - apply eqb_prop. exact A.
  - subst. apply eqb_reflx.
Qed.
(* every recipient of a produced general token carries the same b64 *)
Theorem general_b64_consistent fb rs :
  forallb (fun r => enc_add_recipient fb (fst r) (snd r)) rs = true ->
  forall r, In r rs -> extract_b64 (fst r) = fb.
Proof.
  intros H r I. rewrite forallb_forall in H. specialize (H r I). apply add_recipient_iff in H. tauto.
Qed.
Theorem verify_needs_protected_alg p u : verify_headers_ok p u = true <-> exists h, p = Some h /\ h_alg h = true.
Proof.
  unfold verify_headers_ok. destruct p as [h|]; split; intros H.
  - eauto.
  - destruct H as [h' [E A]]. inversion E; subst. exact A.
  - discriminate.
  - destruct H as [h' [E _]]. discriminate.
Qed.

(* decode side of the general serialisation: every signature agrees with the first on b64 *)
Theorem dec_general_all_agree ps : dec_general_consistent ps = true ->
  forall p q, In p ps -> In q ps -> extract_b64 p = extract_b64 q.
Proof.
  destruct ps as [|p0 r]; [intros _ p q []|]. cbn [dec_general_consistent]. intros H.
  assert (forall p, In p (p0 :: r) -> extract_b64 p = extract_b64 p0) as A.
  { intros p [<-|Hp]; [reflexivity|]. rewrite forallb_forall in H. apply Bool.eqb_prop. exact (H p Hp). }
  intros p q Hp Hq. rewrite (A p Hp), (A q Hq). reflexivity.
Qed.
Theorem dec_general_complete ps : (forall p q, In p ps -> In q ps -> extract_b64 p = extract_b64 q) -> dec_general_consistent ps = true.
Proof.
  destruct ps as [|p0 r]; [reflexivity|]. intros H. cbn [dec_general_consistent]. apply forallb_forall. intros p Hp.
  rewrite (H p p0 (or_intror Hp) (or_introl eq_refl)). apply Bool.eqb_reflx.
Qed.
Theorem dec_general_pinned_refuted : exists ps p q, dec_general_consistent_pinned ps = true /\ In p ps /\ In q ps /\ extract_b64 p <> extract_b64 q.
Proof.
  exists [None; Some {| h_alg := true; h_b64 := Some false; h_crit := Some [N_B64]; h_common := []; h_custom := None |}], None,
         (Some {| h_alg := true; h_b64 := Some false; h_crit := Some [N_B64]; h_common := []; h_custom := None |}).
  split; [reflexivity|]. split; [left; reflexivity|]. split; [right; left; reflexivity|]. cbn. discriminate.
Qed.

(* the header create_jws assembles is accepted by the compact encoder for EVERY combination of signature options *)
Theorem create_jws_header_valid o : enc_compact (create_jws_header o) = true.
Proof. unfold enc_compact, validate_jws_headers, validate_disjoint, validate_crit, validate_b64, create_jws_header. cbn [obool omap h_crit h_b64].
  destruct (so_b64 o) as [[|]|]; cbn; reflexivity. Qed.
Theorem create_jws_header_b64 o : extract_b64 (Some (create_jws_header o)) = match so_b64 o with Some false => false | _ => true end.
Proof. unfold extract_b64, create_jws_header. cbn [h_b64]. destruct (so_b64 o) as [[|]|]; reflexivity. Qed.
