From Coq Require Import List ZArith Bool.
From IdV Require Import Jose.Jwk.
Import ListNotations.
Open Scope Z_scope.

Lemma jkty_eqb_eq a b : jkty_eqb a b = true <-> a = b.
Proof. destruct a, b; cbn; split; intros H; try reflexivity; try discriminate. Qed.
Lemma jkty_eqb_refl a : jkty_eqb a a = true.
Proof. destruct a; reflexivity. Qed.

Lemma olist_nil n o : olist n o = [] <-> o = None.
Proof. destruct o; cbn; split; intros H; try reflexivity; discriminate. Qed.

Theorem is_public_iff p : params_is_public p = true <-> private_members p = [].
Proof.
  destruct p as [c x y d|n e d p q dp dq qi oth|k|c x d]; cbn.
  - destruct d; cbn; split; intros H; try reflexivity; discriminate.
  - destruct d, p, q, dp, dq, qi, oth; cbn; split; intros H; try reflexivity; discriminate.
  - split; intros H; discriminate.
  - destruct d; cbn; split; intros H; try reflexivity; discriminate.
Qed.

Lemma params_to_public_spec p pp : params_to_public p = Some pp ->
  private_members pp = [] /\ public_members pp = public_members p /\ params_kty pp = params_kty p
  /\ params_to_public pp = Some pp /\ params_is_public pp = true.
Proof.
  destruct p as [c x y d|n e d p q dp dq qi oth|k|c x d]; cbn; intros H; inversion H; subst; cbn; repeat split; reflexivity.
Qed.

Theorem to_public_no_private k p : jwk_to_public k = Some p ->
  private_members (j_params p) = [] /\ jwk_is_public p = true.
Proof.
  unfold jwk_to_public, jwk_to_public_with. destruct (params_to_public (j_params k)) as [pp|] eqn:E; [|discriminate].
  intros H; inversion H; subst; cbn. destruct (params_to_public_spec _ _ E) as [A [_ [_ [_ B]]]]. split; assumption.
Qed.

Theorem to_public_keeps_public_part k p : jwk_to_public k = Some p ->
  public_members (j_params p) = public_members (j_params k) /\ j_kty p = params_kty (j_params k)
  /\ j_use p = j_use k /\ j_alg p = j_alg k /\ j_kid p = j_kid k.
Proof.
  unfold jwk_to_public, jwk_to_public_with. destruct (params_to_public (j_params k)) as [pp|] eqn:E; [|discriminate].
  intros H; inversion H; subst; cbn. destruct (params_to_public_spec _ _ E) as [_ [A [B _]]]. repeat split; assumption.
Qed.

Theorem to_public_none_iff_oct k : jwk_to_public k = None <-> params_kty (j_params k) = KOct.
Proof.
  unfold jwk_to_public, jwk_to_public_with. destruct (j_params k); cbn; split; intros H; try reflexivity; discriminate.
Qed.

Theorem to_public_idempotent k p : jwk_to_public k = Some p -> jwk_to_public p = Some p.
Proof.
  unfold jwk_to_public, jwk_to_public_with. destruct (params_to_public (j_params k)) as [pp|] eqn:E; [|discriminate].
  intros H; inversion H; subst; clear H. cbn [j_params].
  destruct (params_to_public_spec _ _ E) as [_ [_ [_ [I P]]]]. rewrite I.
  unfold jwk_is_public. cbn [j_params j_ops j_use j_alg j_kid]. rewrite P. cbn [orb negb].
  destruct (j_ops k); reflexivity.
Qed.

(* the pinned projection is not idempotent *)
Theorem to_public_pinned_refuted : exists k p q,
  jwk_to_public_pinned k = Some p /\ jwk_to_public_pinned p = Some q /\ p <> q.
Proof.
  exists {| j_kty := KOkp; j_use := None; j_ops := Some [OSign]; j_alg := None; j_kid := None; j_x5u := None;
            j_x5c := None; j_x5t := None; j_x5ts := None; j_params := POkp 1 2 (Some 3) |}.
  eexists. eexists. cbn. split; [reflexivity|split; [reflexivity|]]. intros H. inversion H.
Qed.

(* thumbprint: a function of kty and the required public members only *)
Definition thumb_of (t : jkty) (p : jparams) : list (Z * Z) :=
  let kty := (100, jkty_code t) in
  match p with
  | PEc c x y _ => [(1, c); kty; (2, x); (3, y)]
  | PRsa n e _ _ _ _ _ _ _ => [(6, e); kty; (5, n)]
  | POct kk => [(13, kk); kty]
  | POkp c x _ => [(1, c); kty; (2, x)]
  end.
Theorem thumbprint_required_only k k' :
  j_kty k = j_kty k' -> params_kty (j_params k) = params_kty (j_params k') ->
  public_members (j_params k) = public_members (j_params k') ->
  params_kty (j_params k) <> KOct ->
  jwk_thumbprint_input k = jwk_thumbprint_input k'.
Proof.
  unfold jwk_thumbprint_input. intros Hk Hf Hp Ho. rewrite Hk.
  destruct (j_params k), (j_params k'); cbn in *; try discriminate; try congruence; inversion Hp; subst; reflexivity.
Qed.
Theorem thumbprint_public_same k p : jwk_coherent k = true -> jwk_to_public k = Some p ->
  jwk_thumbprint_input p = jwk_thumbprint_input k.
Proof.
  intros C H. destruct (to_public_keeps_public_part _ _ H) as [A [B _]].
  apply jkty_eqb_eq in C.
  assert (params_kty (j_params p) = params_kty (j_params k)) as F.
  { unfold jwk_to_public, jwk_to_public_with in H. destruct (params_to_public (j_params k)) as [pp|] eqn:E; [|discriminate].
    inversion H; subst; cbn. apply (params_to_public_spec _ _ E). }
  apply thumbprint_required_only; try congruence.
  rewrite F. intros O. apply to_public_none_iff_oct in O. congruence.
Qed.

(* coherence *)
Theorem coherent_new t : jwk_coherent (jwk_new t) = true.
Proof. destruct t; reflexivity. Qed.
Theorem coherent_from_params p : jwk_coherent (jwk_from_params p) = true.
Proof. unfold jwk_coherent. cbn. apply jkty_eqb_refl. Qed.
Theorem coherent_set_kty k t : jwk_coherent (jwk_set_kty k t) = true.
Proof. destruct t; reflexivity. Qed.
Theorem coherent_set_params k p k' : jwk_set_params k p = Some k' -> jwk_coherent k' = true.
Proof.
  unfold jwk_set_params. destruct (jkty_eqb (j_kty k) (params_kty p)) eqn:E; [|discriminate].
  intros H; inversion H; subst. unfold jwk_coherent. cbn. exact E.
Qed.
Theorem set_params_refused_unchanged k p : jwk_set_params k p = None <-> j_kty k <> params_kty p.
Proof.
  unfold jwk_set_params. destruct (jkty_eqb (j_kty k) (params_kty p)) eqn:E.
  - apply jkty_eqb_eq in E. split; [discriminate|congruence].
  - split; [|reflexivity]. intros _ H. apply jkty_eqb_eq in H. congruence.
Qed.
Theorem coherent_to_public k p : jwk_to_public k = Some p -> jwk_coherent p = true.
Proof.
  unfold jwk_to_public, jwk_to_public_with. destruct (params_to_public (j_params k)) as [pp|]; [|discriminate].
  intros H; inversion H; subst. unfold jwk_coherent; cbn. apply jkty_eqb_refl.
Qed.
Theorem coherent_deser t ops m k : jwk_deser t ops m = Some k -> jwk_coherent k = true.
Proof.
  unfold jwk_deser, jwk_deser_with. destruct (params_deser m) as [p|]; [|discriminate]. cbn [andb].
  destruct (jkty_eqb t (params_kty p)) eqn:E; cbn [negb]; [|discriminate].
  intros H; inversion H; subst. unfold jwk_coherent; cbn. exact E.
Qed.
Theorem deser_pinned_refuted : exists t ops m k, jwk_deser_pinned t ops m = Some k /\ jwk_coherent k = false.
Proof. exists KEc, None, [(1, 7); (2, 8)]. eexists. cbn. split; reflexivity. Qed.

Theorem methods_public_only k m : method_from_jwk k = Some m -> m = k /\ private_members (j_params m) = [].
Proof.
  unfold method_from_jwk. destruct (jwk_is_public k) eqn:E; [|discriminate].
  intros H; inversion H; subst. split; [reflexivity|]. apply is_public_iff. exact E.
Qed.

(* known finding K_params_mut: a whole-value assignment through params_mut() breaks the agreement of kty and parameter family,
   and a following checked setter (set_params of the declared family) restores it *)
Theorem params_mut_assign_refuted : exists k p, jwk_coherent k = true /\ jwk_coherent (jwk_params_mut_assign k p) = false.
Proof. exists (jwk_new KOkp), (POct 1013). split; reflexivity. Qed.
Theorem params_mut_assign_same_family k p : j_kty k = params_kty p -> jwk_coherent (jwk_params_mut_assign k p) = true.
Proof. unfold jwk_coherent, jwk_params_mut_assign, jwk_with_params. cbn. intros ->. destruct (params_kty p); reflexivity. Qed.

(* conversion from the JSON-proof-token key type: a converted key is coherent whatever the foreign key declared, carries the
   foreign key's private member, and the conversion never panics *)
Theorem from_foreign_coherent f k : jwk_from_foreign false f = CvOk k ->
  j_kty k = params_kty (j_params k) /\ (exists c x y d, f_params f = FEc c x y d /\ j_params k = PEc c x y d) /\ j_kid k = f_kid f.
Proof. unfold jwk_from_foreign. destruct (f_x5u f) as [[[|] v]|]; try discriminate; destruct (f_params f) as [c x y d|c x d]; try discriminate;
  intros H; injection H as <-; cbn; (split; [reflexivity|split; [exists c, x, y, d; split; reflexivity|reflexivity]]). Qed.
Theorem from_foreign_total f : jwk_from_foreign false f <> CvPanic.
Proof. unfold jwk_from_foreign. destruct (f_x5u f) as [[[|] v]|]; try discriminate; destruct (f_params f); discriminate. Qed.
Theorem from_foreign_pinned_panics : exists f, jwk_from_foreign true f = CvPanic.
Proof. exists {| f_declared := KOkp; f_params := FOkp 1 2 None; f_kid := None; f_x5u := None; f_x5c := None; f_x5t := None |}. reflexivity. Qed.
