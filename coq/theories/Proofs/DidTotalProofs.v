(* C05 / C10: CoreDID::parse is TOTAL on every byte string: it never panics.  The only way the third-party offsets leave the
   text is the percent branch overshooting at the very end of the method-specific id, which the guard added by fix 5943363
   (ends_with_pct) excludes.  (DIDUrl::parse has no such guard: known class K_pct.) *)
From Coq Require Import List NArith Bool Arith Lia.
From IdV Require Import Lib.Outcome Did.DidParse Did.IotaDid Proofs.DidProofs.
Import ListNotations.
Open Scope N_scope.

(* the scanning loop advances at most one byte past the end, and only when the text ends in a percent triple *)
Lemma ends_with_pct_len l : ends_with_pct l = true -> (3 <= length l)%nat.
Proof.
  induction l as [|c l IH]; [discriminate|]. cbn [ends_with_pct]. destruct l as [|a [|b [|d r]]]; try (intros H; specialize (IH H); cbn [length] in *; lia); cbn [length]; intros; lia.
Qed.
Lemma ends_with_pct_cons c l : ends_with_pct l = true -> ends_with_pct (c :: l) = true.
Proof.
  intros H. pose proof (ends_with_pct_len l H) as L. cbn [ends_with_pct]. destruct l as [|a [|b [|d r]]]; cbn [length] in L; try lia; exact H.
Qed.
Lemma ends_with_pct_app a l : ends_with_pct l = true -> ends_with_pct (a ++ l) = true.
Proof. intros H. induction a as [|c a IH]; [exact H|]. cbn [app]. apply ends_with_pct_cons. exact IH. Qed.

Lemma tp_loop_bound stop ok : forall n l, (length l <= n)%nat -> forall k, tp_loop stop ok l = Some k ->
  (k <= length l)%nat \/ (k = S (length l) /\ ends_with_pct l = true).
Proof.
  induction n as [|n IH]; intros l Hl k H.
  - destruct l; [cbn in H; inversion H; left; cbn; lia|cbn in Hl; lia].
  - destruct l as [|c r]; [cbn in H; inversion H; left; cbn; lia|].
    cbn [tp_loop] in H. destruct (stop c); [inversion H; left; lia|].
    destruct (c =? 37) eqn:E37.
    + destruct r as [|h1 [|h2 r2]]; try discriminate.
      destruct (radix_ok h1 h2); [|discriminate].
      destruct r2 as [|x r3].
      * inversion H; subst k. right. split; [reflexivity|]. apply N.eqb_eq in E37. subst c. reflexivity.
      * destruct (tp_loop stop ok r3) as [m|] eqn:L; [|discriminate]. cbn [option_map] in H. inversion H; subst k; clear H.
        cbn [length] in Hl. destruct (IH r3 ltac:(lia) m L) as [B|[B P]].
        -- left. cbn [length]. lia.
        -- right. split; [cbn [length]; lia|]. change (c :: h1 :: h2 :: x :: r3) with ([c; h1; h2; x] ++ r3). apply ends_with_pct_app. exact P.
    + destruct (ok c); [|discriminate]. destruct (tp_loop stop ok r) as [m|] eqn:L; [|discriminate]. cbn [option_map] in H. inversion H; subst k; clear H.
      cbn [length] in Hl. destruct (IH r ltac:(lia) m L) as [B|[B P]].
      * left. cbn [length]. lia.
      * right. split; [cbn [length]; lia|]. apply ends_with_pct_cons. exact P.
Qed.

(* what an accepted offset record guarantees about positions *)
Lemma offsets_bounds d c : tp_parse_offsets d = Ok c ->
  exists n1 n2 r2, length d = (5 + n1 + length r2)%nat /\ (exists pre, d = pre ++ r2)
    /\ tp_loop stop_mid char_method_id r2 = Some n2
    /\ o_method c = 3%nat /\ o_mid c = (4 + n1)%nat /\ o_path c = (5 + n1 + n2)%nat
    /\ (forall q, o_query c = Some q -> (o_path c <= q < length d)%nat)
    /\ (forall f, o_frag c = Some f -> (f < length d)%nat /\ match o_query c with Some q => (q < f)%nat | None => (o_path c <= f)%nat end).
Proof.
  unfold tp_parse_offsets. intros H.
  destruct d as [|a [|b [|c0 r0]]]; try discriminate.
  destruct ((a =? 100) && (b =? 105) && (c0 =? 100)); cbn [negb] in H; [|discriminate].
  destruct r0 as [|col r1]; [discriminate|].
  destruct (is_colon col); cbn [negb] in H; [|discriminate].
  destruct (tp_loop_plain is_colon char_method r1) as [n1|] eqn:L1; [|discriminate].
  destruct (skipn n1 r1) as [|col2 r2] eqn:S1; [discriminate|].
  destruct (is_colon col2); cbn [negb] in H; [|discriminate].
  destruct (tp_loop stop_mid char_method_id r2) as [n2|] eqn:L2; [|discriminate].
  assert (length r1 = (n1 + 1 + length r2)%nat) as Lr1.
  { pose proof (skipn_length n1 r1) as X. rewrite S1 in X. cbn [length] in X.
    destruct (plain_loop_spec _ _ _ _ L1) as [B _]. lia. }
  assert (exists pre, a :: b :: c0 :: col :: r1 = pre ++ r2) as Pre.
  { exists (a :: b :: c0 :: col :: firstn n1 r1 ++ [col2]). rewrite <- (firstn_skipn n1 r1) at 1. rewrite S1. cbn [app]. rewrite <- app_assoc. reflexivity. }
  exists n1, n2, r2. split; [cbn [length]; lia|]. split; [exact Pre|]. split; [exact L2|].
  match type of H with (match ?x with _ => _ end) = _ => destruct x as [n3|] eqn:L3; [|discriminate] end.
  pose proof (skipn_length n2 r2) as Len3. pose proof (skipn_length n3 (skipn n2 r2)) as Len4.
  destruct (skipn n3 (skipn n2 r2)) as [|c4 r4'] eqn:S4.
  { inversion H; subst c; cbn [o_method o_mid o_path o_query o_frag]. split; [reflexivity|]. split; [lia|]. split; [lia|]. split; intros x Hx; discriminate. }
  cbn [length] in Len4.
  match type of H with (match ?x with _ => _ end) = _ => destruct x as [[[oq r5] i5]|] eqn:Q; [|discriminate] end.
  (* the three shapes of the query step *)
  assert ((oq = None /\ r5 = c4 :: r4' /\ i5 = (4 + n1 + 1 + n2 + n3)%nat)
          \/ (exists n4, oq = Some (4 + n1 + 1 + n2 + n3)%nat /\ r5 = skipn n4 r4' /\ i5 = (4 + n1 + 1 + n2 + n3 + 1 + n4)%nat)) as QQ.
  { destruct (c4 =? 35); [left; inversion Q; auto|].
    destruct (c4 =? 63); [|discriminate].
    destruct (tp_loop stop_query char_query r4') as [n4|]; [|discriminate]. right. exists n4. inversion Q; auto. }
  clear Q.
  destruct r5 as [|c5 r5'] eqn:S5.
  { inversion H; subst c; cbn [o_method o_mid o_path o_query o_frag]. split; [reflexivity|]. split; [lia|]. split; [lia|].
    split; [|intros x Hx; discriminate].
    intros q Hq. destruct QQ as [[-> _]|[n4 [-> _]]]; [discriminate|]. inversion Hq; subst q. cbn [length]. lia. }
  destruct (negb (c5 =? 35)); [discriminate|].
  destruct (tp_loop stop_none char_query r5'); [|discriminate].
  inversion H; subst c; cbn [o_method o_mid o_path o_query o_frag]. split; [reflexivity|]. split; [lia|]. split; [lia|].
  destruct QQ as [[-> [E5 ->]]|[n4 [-> [E5 ->]]]].
  - split; [intros q Hq; discriminate|]. intros f Hf. inversion Hf; subst f. cbn [length]. lia.
  - pose proof (skipn_length n4 r4') as Len5. rewrite <- E5 in Len5. cbn [length] in Len5.
    split; [intros q Hq; inversion Hq; subst q; cbn [length]; lia|]. intros f Hf. inversion Hf; subst f. cbn [length]. lia.
Qed.

Lemma slice_in_range (d : list N) a b : (a <= b <= length d)%nat -> exists x, slice d a b = Ok x.
Proof.
  intros [A B]. unfold slice. apply Nat.leb_le in A, B. rewrite A, B. cbn [andb]. eauto.
Qed.

Ltac step_slice Hs := let v := fresh "v" in destruct Hs as [v Hs]; rewrite Hs; cbn [obind].

Lemma check_validity_total d c n1 n2 :
  (5 + n1 + n2 <= length d)%nat ->
  o_method c = 3%nat -> o_mid c = (4 + n1)%nat -> o_path c = (5 + n1 + n2)%nat ->
  (forall q, o_query c = Some q -> (o_path c <= q < length d)%nat) ->
  (forall f, o_frag c = Some f -> (f < length d)%nat /\ match o_query c with Some q => (q < f)%nat | None => (o_path c <= f)%nat end) ->
  check_validity d c <> Panic.
Proof.
  intros Ld Om Oi Op Oq Of. unfold check_validity.
  assert (exists x, tp_method d c = Ok x) as S1 by (unfold tp_method; rewrite Om, Oi; apply slice_in_range; lia).
  step_slice S1. destruct (negb (valid_method_name _)); [discriminate|].
  assert (exists x, tp_method_id d c = Ok x) as S2 by (unfold tp_method_id; rewrite Oi, Op; apply slice_in_range; lia).
  step_slice S2. destruct (negb (valid_method_id _)); [discriminate|].
  assert (exists x, tp_path d c = Ok x) as S3.
  { unfold tp_path, slice_from. destruct (o_query c) as [q|] eqn:Eq; [|destruct (o_frag c) as [f|] eqn:Ef].
    - apply slice_in_range. specialize (Oq q eq_refl). lia.
    - apply slice_in_range. destruct (Of f eq_refl). lia.
    - apply slice_in_range. lia. }
  step_slice S3.
  assert (exists x, tp_fragment d c = Ok x) as S4.
  { unfold tp_fragment, slice_from. destruct (o_frag c) as [f|] eqn:Ef; [|eauto].
    destruct (Of f eq_refl) as [Lf _]. destruct (slice_in_range d (f + 1) (length d)) as [y Hy]; [lia|]. rewrite Hy. cbn [obind]. eauto. }
  step_slice S4.
  assert (exists x, tp_query d c = Ok x) as S5.
  { unfold tp_query, slice_from. destruct (o_query c) as [q|] eqn:Eq; [|eauto]. specialize (Oq q eq_refl).
    destruct (o_frag c) as [f|] eqn:Ef.
    - destruct (Of f eq_refl) as [Lf Lq]. destruct (slice_in_range d (q + 1) f) as [y Hy]; [lia|]. rewrite Hy. cbn [obind]. eauto.
    - destruct (slice_in_range d (q + 1) (length d)) as [y Hy]; [lia|]. rewrite Hy. cbn [obind]. eauto. }
  step_slice S5. destruct (negb _ || _ || _); discriminate.
Qed.

Theorem core_did_parse_total s : core_did_parse s <> Panic.
Proof.
  unfold core_did_parse. destruct s as [|a [|b [|c [|col rest]]]]; try discriminate; destruct (negb _); try discriminate.
  destruct (negb _); [discriminate|]. destruct (_ || _); [discriminate|]. destruct (_ || _); discriminate.
Qed.
Theorem core_did_parse_tp_total s : core_did_parse_tp s <> Panic.
Proof.
  unfold core_did_parse_tp.
  destruct (list_eqb (trim s) s) eqn:T; cbn [negb]; [|discriminate]. apply list_eqb_eq in T.
  destruct (ends_with_pct s) eqn:EP; [discriminate|].
  unfold tp_parse. rewrite T.
  destruct (tp_parse_offsets s) as [c|e|] eqn:Po; cbn [obind]; try discriminate.
  - destruct (offsets_bounds s c Po) as [n1 [n2 [r2 [Ls [[pre Es] [L2 [Om [Oi [Op [Oq Of]]]]]]]]]].
    assert (n2 <= length r2)%nat as B2.
    { destruct (tp_loop_bound _ _ (length r2) r2 (le_n _) n2 L2) as [B|[_ P]]; [exact B|].
      rewrite Es in EP. rewrite (ends_with_pct_app pre r2 P) in EP. discriminate. }
    assert (exists x, tp_method s c = Ok x) as S1 by (unfold tp_method; rewrite Om, Oi; apply slice_in_range; lia).
    destruct S1 as [m S1]. rewrite S1. cbn [obind]. destruct m as [|m0 m']; cbn [obind]; [discriminate|].
    assert (exists x, tp_method_id s c = Ok x) as S2 by (unfold tp_method_id; rewrite Oi, Op; apply slice_in_range; lia).
    destruct S2 as [i S2]. rewrite S2. cbn [obind]. destruct i as [|i0 i']; cbn [obind]; [discriminate|].
    cbn [obind]. apply (check_validity_total s c n1 n2); auto. lia.
  - exfalso. revert Po. unfold tp_parse_offsets.
    repeat match goal with
           | |- context [match ?x with _ => _ end] => destruct x; try discriminate
           end.
Qed.

(* hence IotaDID::parse never panics either *)
Theorem iota_parse_total s : iota_parse s <> Panic.
Proof.
  unfold iota_parse. pose proof (core_did_parse_total (to_lower s)) as T.
  destruct (core_did_parse (to_lower s)) as [[m i]|e|]; [|discriminate|contradiction].
  destruct (negb (list_eqb m IOTA)); [discriminate|]. destruct (denorm i) as [n t].
  destruct (negb (tag_ok t)); [discriminate|]. destruct (negb (net_ok n)); discriminate.
Qed.
