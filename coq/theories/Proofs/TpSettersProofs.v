(* The value CoreDID::parse assembles through the third-party setters has exactly the validated components behind its accessors and
   "did:" m ":" i as its stored string - for EVERY m and i (any bytes, any length); likewise the base DIDUrl::join assembles. *)
From Coq Require Import List NArith Bool Arith Lia.
From IdV Require Import Lib.Outcome Did.DidParse Did.TpSetters.
Import ListNotations.
Open Scope N_scope.

Lemma leb_true a b : (a <= b)%nat -> (a <=? b)%nat = true.
Proof. intros H. apply Nat.leb_le. exact H. Qed.
Lemma slice_app_mid (a b c : list N) x y : x = length a -> y = (length a + length b)%nat -> slice (a ++ b ++ c) x y = Ok b.
Proof. intros -> ->. unfold slice. rewrite !app_length. rewrite !leb_true by lia. cbn [andb].
  replace (length a + length b - length a)%nat with (length b) by lia.
  rewrite skipn_app, skipn_all, Nat.sub_diag. cbn [skipn app]. rewrite firstn_app, firstn_all, Nat.sub_diag. cbn [firstn]. rewrite app_nil_r. reflexivity. Qed.
Lemma splice_app (a b c v : list N) x y : x = length a -> y = (length a + length b)%nat -> splice (a ++ b ++ c) x y v = Ok (a ++ v ++ c).
Proof. intros -> ->. unfold splice. rewrite !app_length. rewrite !leb_true by lia. cbn [andb].
  rewrite firstn_app, firstn_all, Nat.sub_diag. cbn [firstn]. rewrite app_nil_r.
  rewrite skipn_app, skipn_all2 by lia. cbn [app]. replace (length a + length b - length a)%nat with (length b) by lia.
  rewrite skipn_app, skipn_all, Nat.sub_diag. reflexivity. Qed.
Lemma shift_ge old new x : (old <= x)%nat -> shift old new x = Ok (x - old + new)%nat.
Proof. intros H. unfold shift. destruct (new <? old)%nat eqn:E.
  - apply Nat.ltb_lt in E. rewrite leb_true by lia. f_equal. lia.
  - apply Nat.ltb_ge in E. f_equal. lia. Qed.

Lemma splice_end (d v : list N) : splice d (length d) (length d) v = Ok (d ++ v).
Proof. unfold splice. rewrite !Nat.leb_refl. cbn [andb]. rewrite firstn_all, skipn_all, app_nil_r. reflexivity. Qed.
Definition DIDP : list N := [100; 105; 100; 58].
Lemma set_method_placeholder m :
  tp_set_method tp_placeholder m
  = Ok {| t_data := DIDP ++ m ++ [58; 97]; t_core := {| o_method := 3; o_mid := (4 + length m)%nat; o_path := (6 + length m)%nat; o_query := None; o_frag := None |} |}.
Proof.
  unfold tp_set_method, tp_placeholder. cbn [t_data t_core o_method o_mid o_path o_query o_frag].
  replace [100; 105; 100; 58; 97; 58; 97] with (DIDP ++ [97] ++ [58; 97]) by reflexivity.
  rewrite (splice_app DIDP [97] [58; 97] m) by reflexivity. cbn [obind].
  rewrite (shift_ge 5 _ 5), (shift_ge 5 _ 7) by lia. cbn [obind shift_opt]. do 3 f_equal; lia.
Qed.
Lemma set_method_id_after m i :
  tp_set_method_id {| t_data := DIDP ++ m ++ [58; 97]; t_core := {| o_method := 3; o_mid := (4 + length m)%nat; o_path := (6 + length m)%nat; o_query := None; o_frag := None |} |} i
  = Ok {| t_data := DIDP ++ m ++ [58] ++ i; t_core := {| o_method := 3; o_mid := (4 + length m)%nat; o_path := (5 + length m + length i)%nat; o_query := None; o_frag := None |} |}.
Proof.
  unfold tp_set_method_id. cbn [t_data t_core o_method o_mid o_path o_query o_frag].
  replace (DIDP ++ m ++ [58; 97]) with ((DIDP ++ m ++ [58]) ++ [97] ++ []) by (rewrite <- !app_assoc; reflexivity).
  rewrite (splice_app (DIDP ++ m ++ [58]) [97] [] i) by (rewrite !app_length; cbn [length DIDP]; lia). cbn [obind].
  rewrite (shift_ge (6 + length m) _ (6 + length m)) by lia. cbn [obind shift_opt]. rewrite app_nil_r, <- !app_assoc. do 3 f_equal; lia.
Qed.

Theorem assemble_did_spec m i :
  exists t, tp_assemble_did m i = Ok t
    /\ t_data t = [100; 105; 100; 58] ++ m ++ [58] ++ i
    /\ tp_method (t_data t) (t_core t) = Ok m /\ tp_method_id (t_data t) (t_core t) = Ok i
    /\ tp_path (t_data t) (t_core t) = Ok [] /\ tp_query (t_data t) (t_core t) = Ok None /\ tp_fragment (t_data t) (t_core t) = Ok None.
Proof.
  unfold tp_assemble_did. rewrite set_method_placeholder. cbn [obind]. rewrite set_method_id_after. eexists. split; [reflexivity|].
  cbn [t_data t_core]. split; [reflexivity|].
  unfold tp_method, tp_method_id, tp_path, tp_query, tp_fragment, slice_from. cbn [o_method o_mid o_path o_query o_frag].
  repeat split.
  - apply (slice_app_mid DIDP m ([58] ++ i)); cbn [length DIDP]; lia.
  - replace (DIDP ++ m ++ [58] ++ i) with ((DIDP ++ m ++ [58]) ++ i ++ []) by (rewrite app_nil_r, <- !app_assoc; reflexivity).
    apply slice_app_mid; rewrite !app_length; cbn [length DIDP]; lia.
  - replace (DIDP ++ m ++ [58] ++ i) with ((DIDP ++ m ++ [58] ++ i) ++ [] ++ []) by (rewrite !app_nil_r; reflexivity).
    apply slice_app_mid; rewrite ?app_nil_r, !app_length; cbn [length DIDP]; lia.
Qed.

(* the base DIDUrl::join hands to the third-party join: the receiver's DID with its path, query and fragment set *)
Theorem assemble_base_spec m i p q f :
  exists t, tp_assemble_base m i p q f = Ok t
    /\ t_data t = [100; 105; 100; 58] ++ m ++ [58] ++ i ++ p ++ (match q with Some x => 63 :: x | None => [] end) ++ (match f with Some x => 35 :: x | None => [] end)
    /\ tp_method (t_data t) (t_core t) = Ok m /\ tp_method_id (t_data t) (t_core t) = Ok i
    /\ tp_path (t_data t) (t_core t) = Ok p /\ tp_query (t_data t) (t_core t) = Ok q /\ tp_fragment (t_data t) (t_core t) = Ok f.
Proof.
  unfold tp_assemble_base, tp_assemble_did. rewrite set_method_placeholder. cbn [obind]. rewrite set_method_id_after. cbn [obind].
  set (D := DIDP ++ m ++ [58] ++ i).
  assert (LD : length D = (5 + length m + length i)%nat) by (unfold D; rewrite !app_length; cbn [length DIDP]; lia).
  unfold tp_set_path. cbn [t_data t_core o_method o_mid o_path o_query o_frag].
  rewrite <- LD. rewrite splice_end. cbn [obind shift_opt].
  eexists. split; [reflexivity|].
  assert (LDp : length (D ++ p) = (5 + length m + length i + length p)%nat) by (rewrite app_length; lia).
  assert (SM : forall d a b c x y, d = a ++ b ++ c -> x = length a -> y = (length a + length b)%nat -> slice d x y = Ok b).
  { intros d a b c x y -> Hx Hy. apply slice_app_mid; assumption. }
  destruct q as [q|]; destruct f as [f|]; cbn [tp_set_query_fresh tp_set_fragment_fresh t_data t_core o_method o_mid o_path o_query o_frag];
    unfold tp_method, tp_method_id, tp_path, tp_query, tp_fragment, slice_from; cbn [o_method o_mid o_path o_query o_frag].
  - repeat split.
    + unfold D. rewrite <- !app_assoc. reflexivity.
    + apply (SM _ DIDP m ([58] ++ i ++ p ++ (63 :: q) ++ (35 :: f))); [unfold D; rewrite <- !app_assoc; reflexivity|reflexivity|cbn [length DIDP]; lia].
    + apply (SM _ (DIDP ++ m ++ [58]) i (p ++ (63 :: q) ++ (35 :: f))); [unfold D; rewrite <- !app_assoc; reflexivity|rewrite !app_length; cbn [length DIDP]; lia|rewrite !app_length; cbn [length DIDP]; lia].
    + apply (SM _ D p ((63 :: q) ++ (35 :: f))); [rewrite <- !app_assoc; reflexivity|lia|rewrite LDp; lia].
    + rewrite (SM _ ((D ++ p) ++ [63]) q (35 :: f)); [reflexivity|rewrite <- !app_assoc; reflexivity|rewrite !app_length; cbn [length]; lia|rewrite !app_length; cbn [length]; lia].
    + rewrite (SM _ (((D ++ p) ++ 63 :: q) ++ [35]) f []); [reflexivity|rewrite app_nil_r, <- !app_assoc; reflexivity|rewrite !app_length; cbn [length]; lia|rewrite !app_length; cbn [length]; lia].
  - repeat split.
    + unfold D. rewrite app_nil_r, <- !app_assoc. reflexivity.
    + apply (SM _ DIDP m ([58] ++ i ++ p ++ (63 :: q))); [unfold D; rewrite <- !app_assoc; reflexivity|reflexivity|cbn [length DIDP]; lia].
    + apply (SM _ (DIDP ++ m ++ [58]) i (p ++ (63 :: q))); [unfold D; rewrite <- !app_assoc; reflexivity|rewrite !app_length; cbn [length DIDP]; lia|rewrite !app_length; cbn [length DIDP]; lia].
    + apply (SM _ D p (63 :: q)); [rewrite <- !app_assoc; reflexivity|lia|rewrite LDp; lia].
    + rewrite (SM _ ((D ++ p) ++ [63]) q []); [reflexivity|rewrite app_nil_r, <- !app_assoc; reflexivity|rewrite !app_length; cbn [length]; lia|rewrite !app_length; cbn [length]; lia].
  - repeat split.
    + unfold D. rewrite <- !app_assoc. reflexivity.
    + apply (SM _ DIDP m ([58] ++ i ++ p ++ (35 :: f))); [unfold D; rewrite <- !app_assoc; reflexivity|reflexivity|cbn [length DIDP]; lia].
    + apply (SM _ (DIDP ++ m ++ [58]) i (p ++ (35 :: f))); [unfold D; rewrite <- !app_assoc; reflexivity|rewrite !app_length; cbn [length DIDP]; lia|rewrite !app_length; cbn [length DIDP]; lia].
    + apply (SM _ D p (35 :: f)); [rewrite <- !app_assoc; reflexivity|lia|rewrite LDp; lia].
    + rewrite (SM _ ((D ++ p) ++ [35]) f []); [reflexivity|rewrite app_nil_r, <- !app_assoc; reflexivity|rewrite !app_length; cbn [length]; lia|rewrite !app_length; cbn [length]; lia].
  - repeat split.
    + unfold D. rewrite !app_nil_r, <- !app_assoc. reflexivity.
    + apply (SM _ DIDP m ([58] ++ i ++ p)); [unfold D; rewrite <- !app_assoc; reflexivity|reflexivity|cbn [length DIDP]; lia].
    + apply (SM _ (DIDP ++ m ++ [58]) i p); [unfold D; rewrite <- !app_assoc; reflexivity|rewrite !app_length; cbn [length DIDP]; lia|rewrite !app_length; cbn [length DIDP]; lia].
    + apply (SM _ D p []); [rewrite app_nil_r; reflexivity|lia|rewrite LDp; lia].
Qed.
