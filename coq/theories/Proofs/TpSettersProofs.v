(* The value CoreDID::parse assembles through the third-party setters has exactly the validated components behind its accessors and
   "did:" m ":" i as its stored string - for EVERY m and i (any bytes, any length); likewise the base DIDUrl::join assembles. *)
From Coq Require Import List NArith Bool Arith Lia.
From IdV Require Import Lib.Outcome Did.DidParse Did.TpSetters.
Import ListNotations.
Open Scope N_scope.

Lemma leb_true a b : (a <= b)%nat -> (a <=? b)%nat = true.
Proof. intros H. apply Nat.leb_le. exact H. Qed.
Lemma slice_app_mid (a b c : list N) x y : x = length a -> y = (length a + length b)%nat -> slice (a ++ b ++ c) x y = Ok b.
Proof. intros -> ->. unfold slice. rewrite !app_length. rewrite !leb_true by lia. cbn [andb].
  replace (length a + length b - length a)%nat with (length b) by lia.
  rewrite skipn_app, skipn_all, Nat.sub_diag. cbn [skipn app]. rewrite firstn_app, firstn_all, Nat.sub_diag. cbn [firstn]. rewrite app_nil_r. reflexivity. Qed.
Lemma splice_app (a b c v : list N) x y : x = length a -> y = (length a + length b)%nat -> splice (a ++ b ++ c) x y v = Ok (a ++ v ++ c).
Proof. intros -> ->. unfold splice. rewrite !app_length. rewrite !leb_true by lia. cbn [andb].
  rewrite firstn_app, firstn_all, Nat.sub_diag. cbn [firstn]. rewrite app_nil_r.
  rewrite skipn_app, skipn_all2 by lia. cbn [app]. replace (length a + length b - length a)%nat with (length b) by lia.
  rewrite skipn_app, skipn_all, Nat.sub_diag. reflexivity. Qed.
Lemma shift_ge old new x : (old <= x)%nat -> shift old new x = Ok (x - old + new)%nat.
Proof. intros H. unfold shift. destruct (new <? old)%nat eqn:E.
  - apply Nat.ltb_lt in E. rewrite leb_true by lia. f_equal. lia.
  - apply Nat.ltb_ge in E. f_equal. lia. Qed.

Lemma splice_end (d v : list N) : splice d (length d) (length d) v = Ok (d ++ v).
Proof. unfold splice. rewrite !Nat.leb_refl. cbn [andb]. rewrite firstn_all, skipn_all, app_nil_r. reflexivity. Qed.
Definition DIDP : list N := [100; 105; 100; 58].
Lemma set_method_placeholder m :
  tp_set_method tp_placeholder m
  = Ok {| t_data := DIDP ++ m ++ [58; 97]; t_core := {| o_method := 3; o_mid := (4 + length m)%nat; o_path := (6 + length m)%nat; o_query := None; o_frag := None |} |}.
Proof.
  unfold tp_set_method, tp_placeholder. cbn [t_data t_core o_method o_mid o_path o_query o_frag].
  replace [100; 105; 100; 58; 97; 58; 97] with (DIDP ++ [97] ++ [58; 97]) by reflexivity.
  rewrite (splice_app DIDP [97] [58; 97] m) by reflexivity. cbn [obind].
  rewrite (shift_ge 5 _ 5), (shift_ge 5 _ 7) by lia. cbn [obind shift_opt]. do 3 f_equal; lia.
Qed.
Lemma set_method_id_after m i :
  tp_set_method_id {| t_data := DIDP ++ m ++ [58; 97]; t_core := {| o_method := 3; o_mid := (4 + length m)%nat; o_path := (6 + length m)%nat; o_query := None; o_frag := None |} |} i
  = Ok {| t_data := DIDP ++ m ++ [58] ++ i; t_core := {| o_method := 3; o_mid := (4 + length m)%nat; o_path := (5 + length m + length i)%nat; o_query := None; o_frag := None |} |}.
Proof.
  unfold tp_set_method_id. cbn [t_data t_core o_method o_mid o_path o_query o_frag].
  replace (DIDP ++ m ++ [58; 97]) with ((DIDP ++ m ++ [58]) ++ [97] ++ []) by (rewrite <- !app_assoc; reflexivity).
  rewrite (splice_app (DIDP ++ m ++ [58]) [97] [] i) by (rewrite !app_length; cbn [length DIDP]; lia). cbn [obind].
  rewrite (shift_ge (6 + length m) _ (6 + length m)) by lia. cbn [obind shift_opt]. rewrite app_nil_r, <- !app_assoc. do 3 f_equal; lia.
Qed.

Theorem assemble_did_spec m i :
  exists t, tp_assemble_did m i = Ok t
    /\ t_data t = [100; 105; 100; 58] ++ m ++ [58] ++ i
    /\ tp_method (t_data t) (t_core t) = Ok m /\ tp_method_id (t_data t) (t_core t) = Ok i
    /\ tp_path (t_data t) (t_core t) = Ok [] /\ tp_query (t_data t) (t_core t) = Ok None /\ tp_fragment (t_data t) (t_core t) = Ok None.
Proof.
  unfold tp_assemble_did. rewrite set_method_placeholder. cbn [obind]. rewrite set_method_id_after. eexists. split; [reflexivity|].
  cbn [t_data t_core]. split; [reflexivity|].
  unfold tp_method, tp_method_id, tp_path, tp_query, tp_fragment, slice_from. cbn [o_method o_mid o_path o_query o_frag].
  repeat split.
  - apply (slice_app_mid DIDP m ([58] ++ i)); cbn [length DIDP]; lia.
  - replace (DIDP ++ m ++ [58] ++ i) with ((DIDP ++ m ++ [58]) ++ i ++ []) by (rewrite app_nil_r, <- !app_assoc; reflexivity).
    apply slice_app_mid; rewrite !app_length; cbn [length DIDP]; lia.
  - replace (DIDP ++ m ++ [58] ++ i) with ((DIDP ++ m ++ [58] ++ i) ++ [] ++ []) by (rewrite !app_nil_r; reflexivity).
    apply slice_app_mid; rewrite ?app_nil_r, !app_length; cbn [length DIDP]; lia.
Qed.

(* the base DIDUrl::join hands to the third-party join: the receiver's DID with its path, query and fragment set *)
Theorem assemble_base_spec m i p q f :
  exists t, tp_assemble_base m i p q f = Ok t
    /\ t_data t = [100; 105; 100; 58] ++ m ++ [58] ++ i ++ p ++ (match q with Some x => 63 :: x | None => [] end) ++ (match f with Some x => 35 :: x | None => [] end)
    /\ tp_method (t_data t) (t_core t) = Ok m /\ tp_method_id (t_data t) (t_core t) = Ok i
    /\ tp_path (t_data t) (t_core t) = Ok p /\ tp_query (t_data t) (t_core t) = Ok q /\ tp_fragment (t_data t) (t_core t) = Ok f.
Proof.
  unfold tp_assemble_base, tp_assemble_did. rewrite set_method_placeholder. cbn [obind]. rewrite set_method_id_after. cbn [obind].
  set (D := DIDP ++ m ++ [58] ++ i).
  assert (LD : length D = (5 + length m + length i)%nat) by (unfold D; rewrite !app_length; cbn [length DIDP]; lia).
  unfold tp_set_path. cbn [t_data t_core o_method o_mid o_path o_query o_frag].
  rewrite <- LD. rewrite splice_end. cbn [obind shift_opt].
  eexists. split; [reflexivity|].
  assert (LDp : length (D ++ p) = (5 + length m + length i + length p)%nat) by (rewrite app_length; lia).
  assert (SM : forall d a b c x y, d = a ++ b ++ c -> x = length a -> y = (length a + length b)%nat -> slice d x y = Ok b).
  { intros d a b c x y -> Hx Hy. apply slice_app_mid; assumption. }
  destruct q as [q|]; destruct f as [f|]; cbn [tp_set_query_fresh tp_set_fragment_fresh t_data t_core o_method o_mid o_path o_query o_frag];
    unfold tp_method, tp_method_id, tp_path, tp_query, tp_fragment, slice_from; cbn [o_method o_mid o_path o_query o_frag].
  - repeat split.
    + unfold D. rewrite <- !app_assoc. reflexivity.
    + apply (SM _ DIDP m ([58] ++ i ++ p ++ (63 :: q) ++ (35 :: f))); [unfold D; rewrite <- !app_assoc; reflexivity|reflexivity|cbn [length DIDP]; lia].
    + apply (SM _ (DIDP ++ m ++ [58]) i (p ++ (63 :: q) ++ (35 :: f))); [unfold D; rewrite <- !app_assoc; reflexivity|rewrite !app_length; cbn [length DIDP]; lia|rewrite !app_length; cbn [length DIDP]; lia].
    + apply (SM _ D p ((63 :: q) ++ (35 :: f))); [rewrite <- !app_assoc; reflexivity|lia|rewrite LDp; lia].
    + rewrite (SM _ ((D ++ p) ++ [63]) q (35 :: f)); [reflexivity|rewrite <- !app_assoc; reflexivity|rewrite !app_length; cbn [length]; lia|rewrite !app_length; cbn [length]; lia].
    + rewrite (SM _ (((D ++ p) ++ 63 :: q) ++ [35]) f []); [reflexivity|rewrite app_nil_r, <- !app_assoc; reflexivity|rewrite !app_length; cbn [length]; lia|rewrite !app_length; cbn [length]; lia].
  - repeat split.
    + unfold D. rewrite app_nil_r, <- !app_assoc. reflexivity.
    + apply (SM _ DIDP m ([58] ++ i ++ p ++ (63 :: q))); [unfold D; rewrite <- !app_assoc; reflexivity|reflexivity|cbn [length DIDP]; lia].
    + apply (SM _ (DIDP ++ m ++ [58]) i (p ++ (63 :: q))); [unfold D; rewrite <- !app_assoc; reflexivity|rewrite !app_length; cbn [length DIDP]; lia|rewrite !app_length; cbn [length DIDP]; lia].
    + apply (SM _ D p (63 :: q)); [rewrite <- !app_assoc; reflexivity|lia|rewrite LDp; lia].
    + rewrite (SM _ ((D ++ p) ++ [63]) q []); [reflexivity|rewrite app_nil_r, <- !app_assoc; reflexivity|rewrite !app_length; cbn [length]; lia|rewrite !app_length; cbn [length]; lia].
  - repeat split.
    + unfold D. rewrite <- !app_assoc. reflexivity.
    + apply (SM _ DIDP m ([58] ++ i ++ p ++ (35 :: f))); [unfold D; rewrite <- !app_assoc; reflexivity|reflexivity|cbn [length DIDP]; lia].
    + apply (SM _ (DIDP ++ m ++ [58]) i (p ++ (35 :: f))); [unfold D; rewrite <- !app_assoc; reflexivity|rewrite !app_length; cbn [length DIDP]; lia|rewrite !app_length; cbn [length DIDP]; lia].
    + apply (SM _ D p (35 :: f)); [rewrite <- !app_assoc; reflexivity|lia|rewrite LDp; lia].
    + rewrite (SM _ ((D ++ p) ++ [35]) f []); [reflexivity|rewrite app_nil_r, <- !app_assoc; reflexivity|rewrite !app_length; cbn [length]; lia|rewrite !app_length; cbn [length]; lia].
  - repeat split.
    + unfold D. rewrite !app_nil_r, <- !app_assoc. reflexivity.
    + apply (SM _ DIDP m ([58] ++ i ++ p)); [unfold D; rewrite <- !app_assoc; reflexivity|reflexivity|cbn [length DIDP]; lia].
    + apply (SM _ (DIDP ++ m ++ [58]) i p); [unfold D; rewrite <- !app_assoc; reflexivity|rewrite !app_length; cbn [length DIDP]; lia|rewrite !app_length; cbn [length DIDP]; lia].
    + apply (SM _ D p []); [rewrite app_nil_r; reflexivity|lia|rewrite LDp; lia].
Qed.

(* ---- every setter maps the canonical value of some components to the canonical value of the updated components ---- *)
Lemma splice_eq (d a b c v : list N) x y : d = a ++ b ++ c -> x = length a -> y = (length a + length b)%nat -> splice d x y v = Ok (a ++ v ++ c).
Proof. intros -> Hx Hy. apply splice_app; assumption. Qed.
Ltac lens := rewrite ?app_length; cbn [length DIDP optpre' olen']; rewrite ?app_length; cbn [length]; try lia.
Ltac core_eq := apply f_equal5; try reflexivity; try (lens; fail); try (apply f_equal; lens).
Ltac canon_eq := unfold tp_canon; apply f_equal; apply f_equal2; [rewrite <- ?app_assoc; cbn [app optpre']; rewrite <- ?app_assoc; reflexivity | core_eq].

Definition DL (m i : list N) : nat := (5 + length m + length i)%nat.
Lemma canon_data_len m i p q f : length (t_data (tp_canon m i p q f)) = (DL m i + length p + olen' q + olen' f)%nat.
Proof. unfold tp_canon, DL. cbn [t_data]. destruct q, f; lens. Qed.

Ltac deq := unfold DIDP; rewrite <- ?app_assoc, ?app_nil_r; cbn [app optpre']; rewrite <- ?app_assoc; reflexivity.
Ltac canon_eq2 := unfold tp_canon; apply f_equal; apply f_equal2; [deq | core_eq].
Notation DD m i := (DIDP ++ m ++ [58] ++ i).
Lemma DD_len m i : length (DD m i) = (5 + length m + length i)%nat.
Proof. lens. Qed.

Lemma set_path_canon m i p q f v : tp_set_path (tp_canon m i p q f) v = Ok (tp_canon m i v q f).
Proof.
  unfold tp_set_path. cbn [t_core tp_canon t_data o_method o_mid o_path o_query o_frag].
  pose proof (DD_len m i) as LD.
  destruct q as [q|]; destruct f as [f|]; cbn [optpre' olen'].
  - rewrite (splice_eq _ (DD m i) p ((63 :: q) ++ 35 :: f) v) by (first [deq | lia]). cbn [obind shift_opt].
    rewrite !shift_ge by lia. cbn [obind]. canon_eq2.
  - rewrite (splice_eq _ (DD m i) p (63 :: q) v) by (first [deq | lia]). cbn [obind shift_opt].
    rewrite !shift_ge by lia. cbn [obind]. canon_eq2.
  - rewrite (splice_eq _ (DD m i) p (35 :: f) v) by (first [deq | lia]). cbn [obind shift_opt].
    rewrite !shift_ge by lia. cbn [obind]. canon_eq2.
  - rewrite (splice_eq _ (DD m i) p [] v) by (first [deq | rewrite ?app_nil_r; lens]). cbn [obind shift_opt]. canon_eq2.
Qed.
Lemma firstn_app_exact {A} (a b : list A) n : n = length a -> firstn n (a ++ b) = a.
Proof. intros ->. rewrite firstn_app, firstn_all, Nat.sub_diag. cbn [firstn]. apply app_nil_r. Qed.
Lemma set_query_canon m i p q f v : tp_set_query (tp_canon m i p q f) v = Ok (tp_canon m i p v f).
Proof.
  unfold tp_set_query. cbn [t_core tp_canon t_data o_method o_mid o_path o_query o_frag].
  pose proof (DD_len m i) as LD.
  destruct q as [q|]; destruct f as [f|]; destruct v as [v|]; cbn [optpre' olen'].
  - (* Some, Some, Some *)
    rewrite (splice_eq _ (DD m i ++ p ++ [63]) q (35 :: f) v) by (first [deq | lens]). cbn [obind]. canon_eq2.
  - (* Some, Some, None *)
    rewrite (splice_eq _ (DD m i ++ p) (63 :: q) (35 :: f) []) by (first [deq | lens]). cbn [obind]. canon_eq2.
  - (* Some, None, Some *)
    rewrite (splice_eq _ (DD m i ++ p ++ [63]) q [] v) by (first [deq | lens]). cbn [obind]. canon_eq2.
  - (* Some, None, None *)
    rewrite leb_true by lens.
    replace ([100; 105; 100; 58] ++ m ++ [58] ++ i ++ p ++ (63 :: q) ++ []) with ((DD m i ++ p) ++ (63 :: q)) by deq.
    rewrite firstn_app_exact by lens. canon_eq2.
  - (* None, Some, Some *)
    rewrite (splice_eq _ (DD m i ++ p) [] (35 :: f) (63 :: v)) by (first [deq | lens]). cbn [obind]. canon_eq2.
  - reflexivity.
  - (* None, None, Some *) canon_eq2.
  - reflexivity.
Qed.
Lemma set_fragment_canon m i p q f v : tp_set_fragment (tp_canon m i p q f) v = Ok (tp_canon m i p q v).
Proof.
  unfold tp_set_fragment. cbn [t_core tp_canon t_data o_method o_mid o_path o_query o_frag].
  pose proof (DD_len m i) as LD.
  destruct f as [f|].
  - rewrite leb_true by (destruct q; lens).
    replace ([100; 105; 100; 58] ++ m ++ [58] ++ i ++ p ++ optpre' 63 q ++ optpre' 35 (Some f)) with ((DD m i ++ p ++ optpre' 63 q) ++ (35 :: f)) by deq.
    rewrite firstn_app_exact by (destruct q; lens). cbn [obind].
    destruct v as [v|]; [|destruct q; canon_eq2].
    destruct q; unfold tp_canon; apply f_equal; apply f_equal2; try deq; apply f_equal5; try reflexivity; apply f_equal; lens.
  - cbn [obind optpre']. destruct v as [v|]; [|destruct q; canon_eq2].
    destruct q; unfold tp_canon; apply f_equal; apply f_equal2; try deq; apply f_equal5; try reflexivity; apply f_equal; lens.
Qed.
Lemma shift_opt_ge old new o : (forall x, o = Some x -> (old <= x)%nat) -> shift_opt old new o = Ok (match o with Some x => Some (x - old + new)%nat | None => None end).
Proof. destruct o as [x|]; intros H; cbn [shift_opt]; [rewrite (shift_ge old new x (H x eq_refl)); reflexivity|reflexivity]. Qed.
Lemma set_method_canon m i p q f v : tp_set_method (tp_canon m i p q f) v = Ok (tp_canon v i p q f).
Proof.
  unfold tp_set_method. cbn [t_core tp_canon t_data o_method o_mid o_path o_query o_frag].
  rewrite (splice_eq _ DIDP m ([58] ++ i ++ p ++ optpre' 63 q ++ optpre' 35 f) v) by (first [deq | lens]). cbn [obind].
  rewrite !shift_ge by lia. cbn [obind].
  rewrite !shift_opt_ge by (intros x Hx; destruct q, f; inversion Hx; lia). cbn [obind].
  destruct q, f; canon_eq2.
Qed.
Lemma set_method_id_canon m i p q f v : tp_set_method_id (tp_canon m i p q f) v = Ok (tp_canon m v p q f).
Proof.
  unfold tp_set_method_id. cbn [t_core tp_canon t_data o_method o_mid o_path o_query o_frag].
  rewrite (splice_eq _ (DIDP ++ m ++ [58]) i (p ++ optpre' 63 q ++ optpre' 35 f) v) by (first [deq | lens]). cbn [obind].
  rewrite !shift_ge by lia. cbn [obind].
  rewrite !shift_opt_ge by (intros x Hx; destruct q, f; inversion Hx; lia). cbn [obind].
  destruct q, f; canon_eq2.
Qed.
Lemma placeholder_canon : tp_placeholder = tp_canon [97] [97] [] None None.
Proof. reflexivity. Qed.

(* the accessors of a canonical value answer with its components *)
Lemma slice_eq (d a b c : list N) x y : d = a ++ b ++ c -> x = length a -> y = (length a + length b)%nat -> slice d x y = Ok b.
Proof. intros -> Hx Hy. apply slice_app_mid; assumption. Qed.
Theorem canon_accessors m i p q f :
  let t := tp_canon m i p q f in
  tp_method (t_data t) (t_core t) = Ok m /\ tp_method_id (t_data t) (t_core t) = Ok i
  /\ tp_path (t_data t) (t_core t) = Ok p /\ tp_query (t_data t) (t_core t) = Ok q /\ tp_fragment (t_data t) (t_core t) = Ok f.
Proof.
  cbv zeta. unfold tp_canon. cbn [t_data t_core]. unfold tp_method, tp_method_id, tp_path, tp_query, tp_fragment, slice_from. cbn [o_method o_mid o_path o_query o_frag].
  pose proof (DD_len m i) as LD.
  split; [apply (slice_eq _ DIDP m ([58] ++ i ++ p ++ optpre' 63 q ++ optpre' 35 f)); first [deq | lens]|].
  split; [apply (slice_eq _ (DIDP ++ m ++ [58]) i (p ++ optpre' 63 q ++ optpre' 35 f)); first [deq | lens]|].
  destruct q as [q|]; destruct f as [f|]; cbn [optpre' olen'].
  - split; [apply (slice_eq _ (DD m i) p ((63 :: q) ++ 35 :: f)); first [deq | lens]|].
    split; [rewrite (slice_eq _ (DD m i ++ p ++ [63]) q (35 :: f)); [reflexivity|deq|lens|lens]|].
    rewrite (slice_eq _ (DD m i ++ p ++ (63 :: q) ++ [35]) f []); [reflexivity|deq|lens|lens].
  - split; [apply (slice_eq _ (DD m i) p (63 :: q)); first [deq | lens]|].
    split; [rewrite (slice_eq _ (DD m i ++ p ++ [63]) q []); [reflexivity|deq|lens|lens]|reflexivity].
  - split; [apply (slice_eq _ (DD m i) p (35 :: f)); first [deq | lens]|].
    split; [reflexivity|]. rewrite (slice_eq _ (DD m i ++ p ++ [35]) f []); [reflexivity|deq|lens|lens].
  - split; [apply (slice_eq _ (DD m i) p []); first [deq | lens]|]. split; reflexivity.
Qed.

(* so: the value CoreDID::parse assembles, the base join assembles, and the value the third-party join computes from that base
   (transform_references: set_path, set_query, set_method, set_method_id, set_fragment) are canonical - every accessor answers with
   exactly the component that was put there, whatever the components are *)
Theorem assemble_did_canon m i : tp_assemble_did m i = Ok (tp_canon m i [] None None).
Proof. unfold tp_assemble_did. rewrite placeholder_canon, set_method_canon. cbn [obind]. apply set_method_id_canon. Qed.
Theorem transform_canon m i p q f path' query' F :
  tp_transform (tp_canon m i p q f) m i path' query' F = Ok (tp_canon m i path' query' F).
Proof. unfold tp_transform. rewrite set_path_canon. cbn [obind]. rewrite set_query_canon. cbn [obind]. rewrite set_method_canon. cbn [obind].
  rewrite set_method_id_canon. cbn [obind]. apply set_fragment_canon. Qed.

(* the join model of Did/DidParse.v is exactly the function that carries the third-party value along, on every receiver whose DID text is
   "did:" method ":" id (every value the library builds) *)
Theorem join_full_eq u seg : u_did u = [100; 105; 100; 58] ++ u_method u ++ [58] ++ u_mid u -> did_url_join_full u seg = did_url_join u seg.
Proof.
  intros Ed. unfold did_url_join_full, did_url_join. destruct seg as [|c seg']; [reflexivity|]. destruct (negb _); [reflexivity|].
  cbv zeta. rewrite assemble_did_canon. cbn [obind]. rewrite set_path_canon. cbn [obind]. rewrite set_query_canon. cbn [obind]. rewrite set_fragment_canon. cbn [obind].
  destruct (tp_rel_offsets (c :: seg')) as [rc|e|]; cbn [obind]; try reflexivity.
  destruct (tp_path (c :: seg') rc) as [P|e|]; cbn [obind]; try reflexivity.
  destruct (tp_query (c :: seg') rc) as [Q|e|]; cbn [obind]; try reflexivity.
  destruct (tp_fragment (c :: seg') rc) as [F|e|]; cbn [obind]; try reflexivity.
  set (bp := oapp (u_path u)). set (bq := match u_query u with Some q => Some (strip1 63 q) | None => None end). set (bf := match u_frag u with Some f => Some (strip1 35 f) | None => None end).
  destruct (canon_accessors (u_method u) (u_mid u) bp bq bf) as [A1 [A2 [A3 [A4 A5]]]]. cbv zeta in A1, A2, A3, A4, A5.
  rewrite A3, A4, A1, A2. cbn [obind].
  rewrite transform_canon. cbn [obind].
  match goal with |- context [tp_canon (u_method u) (u_mid u) ?pp ?qq F] => set (path' := pp); set (query' := qq) end.
  destruct (canon_accessors (u_method u) (u_mid u) path' query' F) as [B1 [B2 [B3 [B4 B5]]]]. cbv zeta in B1, B2, B3, B4, B5.
  rewrite B3, B4, B5. cbn [obind].
  destruct (set_path (Some path')) as [up|e|]; cbn [obind]; try reflexivity.
  destruct (set_query _) as [uq|e|]; cbn [obind]; try reflexivity.
  destruct (set_fragment _) as [uf|e|]; cbn [obind]; try reflexivity.
  rewrite set_path_canon. cbn [obind]. rewrite set_query_canon. cbn [obind]. rewrite set_fragment_canon. cbn [obind].
  destruct (canon_accessors (u_method u) (u_mid u) [] None None) as [C1 [C2 _]]. cbv zeta in C1, C2. rewrite C1, C2. cbn [obind].
  destruct (negb _ || negb _); [reflexivity|]. f_equal. f_equal. unfold tp_canon. cbn [t_data optpre']. rewrite Ed, !app_nil_r. reflexivity.
Qed.
