From Coq Require Import List ZArith Bool Arith Lia.
From IdV Require Import Doc.Doc.
Import ListNotations.
Open Scope Z_scope.

(* ---------- identifiers ---------- *)
Lemma ofeqb_spec a b : reflect (a = b) (ofeqb a b).
Proof.
  destruct a as [x|], b as [y|]; cbn; try (constructor; congruence).
  destruct (Z.eqb_spec x y); constructor; congruence.
Qed.
Lemma ueqb_spec a b : reflect (a = b) (ueqb a b).
Proof.
  destruct a as [d1 x1 f1], b as [d2 x2 f2]. unfold ueqb; cbn.
  destruct (Z.eqb_spec d1 d2); cbn; [|constructor; congruence].
  destruct (Z.eqb_spec x1 x2); cbn; [|constructor; congruence].
  destruct (ofeqb_spec f1 f2); constructor; congruence.
Qed.
Lemma ueqb_refl a : ueqb a a = true.
Proof. destruct (ueqb_spec a a); congruence. Qed.
Lemma ueqb_true a b : ueqb a b = true -> a = b.
Proof. destruct (ueqb_spec a b); congruence. Qed.
Lemma ueqb_sym a b : ueqb a b = ueqb b a.
Proof. destruct (ueqb_spec a b), (ueqb_spec b a); congruence. Qed.

Lemma existsb_false {A} (f : A -> bool) l : existsb f l = false <-> forall x, In x l -> f x = false.
Proof.
  split.
  - intros H x I. destruct (f x) eqn:E; [|reflexivity]. assert (existsb f l = true) by (apply existsb_exists; eauto). congruence.
  - intros H. destruct (existsb f l) eqn:E; [|reflexivity]. apply existsb_exists in E as [x [I Fx]]. rewrite (H x I) in Fx. discriminate.
Qed.

(* ---------- the gate as propositions ---------- *)
Definition P1 (d : doc) := forall e, In e (entries d) -> is_embed e = true -> count_id (r_id e) (entries d) = 1%nat.
Definition P2 (d : doc) := forall m e, In m (d_vm d) -> In e (entries d) -> is_embed e = true -> r_id e <> m_id m.
Definition P3 (d : doc) := forall s, In s (d_svc d) ->
  (forall e, In e (entries d) -> r_id e <> s_id s) /\ (forall m, In m (d_vm d) -> m_id m <> s_id s).

Lemma check_spec d : check d = true <-> P1 d /\ P2 d /\ P3 d.
Proof.
  unfold check, P1, P2, P3. rewrite !andb_true_iff, !forallb_forall. split.
  - intros [[A B] C]. repeat split.
    + intros e I Em. specialize (A e I). rewrite Em in A. cbn in A. apply Nat.eqb_eq in A. exact A.
    + intros m e Im Ie Em E. specialize (B m Im). apply negb_true_iff in B. rewrite existsb_false in B.
      specialize (B e Ie). rewrite Em, E, ueqb_refl in B. discriminate.
    + intros e Ie E. specialize (C s H). apply andb_prop in C as [C1 _]. apply negb_true_iff in C1.
      unfold rl_has in C1. rewrite existsb_false in C1. specialize (C1 e Ie). rewrite E, ueqb_refl in C1. discriminate.
    + intros m Im E. specialize (C s H). apply andb_prop in C as [_ C2]. apply negb_true_iff in C2.
      unfold vm_has in C2. rewrite existsb_false in C2. specialize (C2 m Im). rewrite E, ueqb_refl in C2. discriminate.
  - intros [A [B C]]. repeat split.
    + intros e I. destruct (is_embed e) eqn:Em; [|reflexivity]. cbn. apply Nat.eqb_eq. apply A; assumption.
    + intros m Im. apply negb_true_iff. apply existsb_false. intros e Ie.
      destruct (is_embed e) eqn:Em; [|reflexivity]. cbn. destruct (ueqb_spec (r_id e) (m_id m)) as [E|N]; [|reflexivity].
      exfalso. exact (B m e Im Ie Em E).
    + intros s Is. destruct (C s Is) as [C1 C2]. apply andb_true_intro; split; apply negb_true_iff; apply existsb_false.
      * intros e Ie. destruct (ueqb_spec (r_id e) (s_id s)) as [E|N]; [exfalso; exact (C1 e Ie E)|reflexivity].
      * intros m Im. destruct (ueqb_spec (m_id m) (s_id s)) as [E|N]; [exfalso; exact (C2 m Im E)|reflexivity].
Qed.

(* ---------- entries under a change of one relationship ---------- *)
Lemma entries_upd_app d r x :
  let d' := {| d_vm := d_vm d; d_rels := upd (d_rels d) r (d_rels d r ++ [x]); d_svc := d_svc d |} in
  (forall e, In e (entries d') <-> In e (entries d) \/ e = x)
  /\ (forall u, count_id u (entries d') = (count_id u (entries d) + (if ueqb (r_id x) u then 1 else 0))%nat).
Proof.
  cbv zeta. unfold entries, count_id, all_rels, upd. cbn [d_rels flat_map]. split.
  - intros e. destruct r; cbn [releqb]; repeat rewrite in_app_iff; cbn [In]; intuition congruence.
  - intros u. destruct r; cbn [releqb]; repeat rewrite filter_app; repeat rewrite app_length; cbn [filter];
      destruct (ueqb (r_id x) u); cbn [length]; lia.
Qed.

Lemma count_zero_iff u l : count_id u l = 0%nat <-> forall e, In e l -> r_id e <> u.
Proof.
  unfold count_id. split.
  - intros H e I E. assert (In e (filter (fun e => ueqb (r_id e) u) l)) as X by (apply filter_In; split; [exact I|rewrite E; apply ueqb_refl]).
    destruct (filter _ l); [exact X|discriminate].
  - intros H. destruct (filter (fun e => ueqb (r_id e) u) l) as [|y ys] eqn:F; [reflexivity|].
    assert (In y (filter (fun e => ueqb (r_id e) u) l)) as I by (rewrite F; left; reflexivity).
    apply filter_In in I as [I E]. apply ueqb_true in E. exfalso. exact (H y I E).
Qed.
Lemma count_pos u l e : In e l -> r_id e = u -> (1 <= count_id u l)%nat.
Proof.
  intros I E. destruct (count_id u l) eqn:C; [|lia]. exfalso. exact (proj1 (count_zero_iff u l) C e I E).
Qed.

(* adding an entry x to relationship r keeps the gate when x's id is fresh enough *)
Lemma ins_keeps d r x :
  P1 d -> P2 d -> P3 d ->
  (is_embed x = true -> forall e, In e (entries d) -> r_id e <> r_id x) ->      (* embedding: id unused among entries *)
  (forall e, In e (entries d) -> is_embed e = true -> r_id e <> r_id x) ->     (* no embedded entry has this id *)
  (is_embed x = true -> forall m, In m (d_vm d) -> m_id m <> r_id x) ->
  (forall s, In s (d_svc d) -> s_id s <> r_id x) ->
  let d' := {| d_vm := d_vm d; d_rels := upd (d_rels d) r (d_rels d r ++ [x]); d_svc := d_svc d |} in
  P1 d' /\ P2 d' /\ P3 d'.
Proof.
  intros A B C Hfresh Hemb Hvm Hsvc. cbv zeta.
  destruct (entries_upd_app d r x) as [Hin Hcnt]. cbv zeta in Hin, Hcnt.
  repeat split.
  - intros e Ie Em. rewrite Hcnt. apply Hin in Ie as [Ie|Ex]; [|subst e].
    + destruct (ueqb_spec (r_id x) (r_id e)) as [E|N]; [exfalso; exact (Hemb e Ie Em (eq_sym E))|]. rewrite Nat.add_0_r. exact (A e Ie Em).
    + rewrite ueqb_refl. assert (count_id (r_id x) (entries d) = 0%nat) as ->; [|reflexivity].
      apply count_zero_iff. exact (Hfresh Em).
  - intros m e Im Ie Em. cbn [d_vm] in Im. apply Hin in Ie as [Ie|Ex]; [exact (B m e Im Ie Em)|subst e].
    intros E. exact (Hvm Em m Im (eq_sym E)).
  - cbn [d_svc] in H. intros e Ie. apply Hin in Ie as [Ie|Ex]; [exact (proj1 (C s H) e Ie)|subst e]. intros E. exact (Hsvc s H (eq_sym E)).
  - cbn [d_svc d_vm] in *. exact (proj2 (C s H)).
Qed.

(* anything obtained by dropping entries keeps the gate *)
Lemma sub_keeps d d' :
  P1 d -> P2 d -> P3 d ->
  (forall e, In e (entries d') -> In e (entries d)) ->
  (forall u, (count_id u (entries d') <= count_id u (entries d))%nat) ->
  (forall m, In m (d_vm d') -> In m (d_vm d)) ->
  (forall s, In s (d_svc d') -> In s (d_svc d)) ->
  P1 d' /\ P2 d' /\ P3 d'.
Proof.
  intros A B C He Hc Hm Hs. repeat split.
  - intros e Ie Em. pose proof (A e (He e Ie) Em) as X. pose proof (Hc (r_id e)) as Y. pose proof (count_pos (r_id e) _ e Ie eq_refl) as Z. lia.
  - intros m e Im Ie Em. exact (B m e (Hm m Im) (He e Ie) Em).
  - intros e Ie. exact (proj1 (C s (Hs s H)) e (He e Ie)).
  - intros m Im. exact (proj2 (C s (Hs s H)) m (Hm m Im)).
Qed.

Lemma rl_remove_sub l u : (forall e, In e (fst (rl_remove l u)) -> In e l)
  /\ (forall v, (count_id v (fst (rl_remove l u)) <= count_id v l)%nat).
Proof.
  induction l as [|x r [IH1 IH2]]; cbn [rl_remove]; [split; [auto|intros; cbn; lia]|].
  destruct (ueqb (r_id x) u).
  - cbn [fst]. split; [intros e I; right; exact I|]. intros v. unfold count_id. cbn [filter]. cbv beta. destruct (ueqb (r_id x) v); cbn [length]; lia.
  - destruct (rl_remove r u) as [r' o]. cbn [fst] in *. split.
    + intros e [E|I]; [left; exact E|right; exact (IH1 e I)].
    + intros v. specialize (IH2 v). unfold count_id in *. cbn [filter]. cbv beta. destruct (ueqb (r_id x) v); cbn [length]; lia.
Qed.
Lemma vm_remove_sub l u : forall m, In m (fst (vm_remove l u)) -> In m l.
Proof.
  induction l as [|x r IH]; cbn [vm_remove]; [auto|]. destruct (ueqb (m_id x) u); [cbn; auto|].
  destruct (vm_remove r u) as [r' o]. cbn [fst] in *. intros m [E|I]; [left; exact E|right; exact (IH m I)].
Qed.
Lemma sv_remove_sub l u : forall s, In s (fst (sv_remove l u)) -> In s l.
Proof.
  induction l as [|x r IH]; cbn [sv_remove]; [auto|]. destruct (ueqb (s_id x) u); [cbn; auto|].
  destruct (sv_remove r u) as [r' o]. cbn [fst] in *. intros s [E|I]; [left; exact E|right; exact (IH s I)].
Qed.

(* pointwise shrinking of the relationship map shrinks the entry list *)
Lemma entries_pointwise d f :
  (forall r, (forall e, In e (f r) -> In e (d_rels d r)) /\ (forall v, (count_id v (f r) <= count_id v (d_rels d r))%nat)) ->
  let d' := {| d_vm := d_vm d; d_rels := f; d_svc := d_svc d |} in
  (forall e, In e (entries d') -> In e (entries d)) /\ (forall v, (count_id v (entries d') <= count_id v (entries d))%nat).
Proof.
  intros Hp. cbv zeta. unfold entries, all_rels. cbn [d_rels flat_map]. split.
  - intros e. repeat rewrite in_app_iff. cbn [In].
    pose proof (proj1 (Hp RAuth) e). pose proof (proj1 (Hp RAssert) e). pose proof (proj1 (Hp RKeyAgr) e).
    pose proof (proj1 (Hp RCapDel) e). pose proof (proj1 (Hp RCapInv) e). tauto.
  - intros v. unfold count_id. repeat rewrite filter_app. repeat rewrite app_length. cbn [filter length].
    pose proof (proj2 (Hp RAuth) v). pose proof (proj2 (Hp RAssert) v). pose proof (proj2 (Hp RKeyAgr) v).
    pose proof (proj2 (Hp RCapDel) v). pose proof (proj2 (Hp RCapInv) v). unfold count_id in *. lia.
Qed.

(* ---------- find / query facts ---------- *)
Lemma vm_query_in l q m : vm_query l q = Some m -> In m l.
Proof. unfold vm_query. intros H. apply find_some in H. tauto. Qed.
Lemma vm_has_false l u : vm_has l u = false <-> forall m, In m l -> m_id m <> u.
Proof.
  unfold vm_has. rewrite existsb_false. split; intros H m I.
  - intros E. specialize (H m I). rewrite E, ueqb_refl in H. discriminate.
  - destruct (ueqb_spec (m_id m) u) as [E|N]; [exfalso; exact (H m I E)|reflexivity].
Qed.
Lemma rl_has_false l u : rl_has l u = false <-> forall e, In e l -> r_id e <> u.
Proof.
  unfold rl_has. rewrite existsb_false. split; intros H e I.
  - intros E. specialize (H e I). rewrite E, ueqb_refl in H. discriminate.
  - destruct (ueqb_spec (r_id e) u) as [E|N]; [exfalso; exact (H e I E)|reflexivity].
Qed.
Lemma sv_has_false l u : sv_has l u = false <-> forall s, In s l -> s_id s <> u.
Proof.
  unfold sv_has. rewrite existsb_false. split; intros H s I.
  - intros E. specialize (H s I). rewrite E, ueqb_refl in H. discriminate.
  - destruct (ueqb_spec (s_id s) u) as [E|N]; [exfalso; exact (H s I E)|reflexivity].
Qed.

Definition Gate (d : doc) := P1 d /\ P2 d /\ P3 d.

(* ---------- each mutation keeps the gate ---------- *)
Theorem insert_method_keeps d m s d' : Gate d -> insert_method d m s = inl d' -> Gate d'.
Proof.
  intros [A [B C]]. unfold insert_method.
  destruct (id_in_use d (m_id m) (match s with SVm => false | SRel _ => true end)) eqn:U; [discriminate|].
  cbn [orb]. destruct (_ || _); [discriminate|].
  unfold id_in_use in U. apply orb_false_elim in U as [U Us]. apply orb_false_elim in U as [Uv Ue].
  rewrite vm_has_false in Uv. rewrite sv_has_false in Us. rewrite existsb_false in Ue.
  intros H; inversion H; subst d'; clear H. destruct s as [|r].
  - (* general-purpose *)
    assert (vm_has (d_vm d) (m_id m) = false) as -> by (apply vm_has_false; exact Uv).
    unfold Gate, P1, P2, P3. cbn [d_vm d_svc]. change (entries {| d_vm := d_vm d ++ [m]; d_rels := d_rels d; d_svc := d_svc d |}) with (entries d).
    repeat split.
    + exact A.
    + intros x e Ix Ie Em. apply in_app_iff in Ix as [Ix|[<-|[]]]; [exact (B x e Ix Ie Em)|].
      intros E. specialize (Ue e Ie). destruct e as [m'|v]; [|discriminate]. cbn in E. rewrite E, ueqb_refl in Ue. discriminate.
    + exact (proj1 (C s H)).
    + intros x Ix. apply in_app_iff in Ix as [Ix|[<-|[]]]; [exact (proj2 (C s H) x Ix)|]. intros E. exact (Us s H (eq_sym E)).
  - (* embedded into relationship r *)
    assert (forall e, In e (entries d) -> r_id e <> m_id m) as Hfresh.
    { intros e Ie E. specialize (Ue e Ie). destruct e as [m'|v]; cbn in E; rewrite E, ueqb_refl in Ue; discriminate. }
    assert (rl_has (d_rels d r) (m_id m) = false) as ->.
    { apply rl_has_false. intros e Ie. apply Hfresh. unfold entries, all_rels. cbn [flat_map]. repeat rewrite in_app_iff. destruct r; tauto. }
    apply (ins_keeps d r (Embed m)); auto.
Qed.

Theorem remove_method_keeps d u : Gate d -> Gate (fst (remove_method d u)).
Proof.
  intros [A [B C]]. unfold remove_method.
  assert (forall vm', (forall m, In m vm' -> In m (d_vm d)) ->
          Gate {| d_vm := vm'; d_rels := rels_removed d u; d_svc := d_svc d |}) as K.
  { intros vm' Hv.
    destruct (entries_pointwise d (rels_removed d u)) as [He Hc].
    { intros r. unfold rels_removed. exact (rl_remove_sub (d_rels d r) u). }
    cbv zeta in He, Hc.
    apply (sub_keeps d); auto. }
  destruct (first_embedded_removed d u) as [h|].
  - cbn [fst]. apply K. auto.
  - destruct (vm_remove (d_vm d) u) as [vm' o] eqn:R. cbn [fst]. apply K.
    intros m I. apply (vm_remove_sub (d_vm d) u). rewrite R. exact I.
Qed.

Theorem insert_service_keeps d s d' : Gate d -> insert_service d s = inl d' -> Gate d'.
Proof.
  intros [A [B C]]. unfold insert_service.
  destruct (rl_has (entries d) (s_id s) || vm_has (d_vm d) (s_id s) || sv_has (d_svc d) (s_id s)) eqn:G; [discriminate|].
  apply orb_false_elim in G as [G G3]. apply orb_false_elim in G as [G1 G2].
  rewrite rl_has_false in G1. rewrite vm_has_false in G2.
  intros H; inversion H; subst d'; clear H. unfold Gate, P1, P2, P3. cbn [d_vm d_svc].
  change (entries {| d_vm := d_vm d; d_rels := d_rels d; d_svc := d_svc d ++ [s] |}) with (entries d).
  repeat split; auto.
  - apply in_app_iff in H as [H|[<-|[]]]; [exact (proj1 (C s0 H))|exact G1].
  - apply in_app_iff in H as [H|[<-|[]]]; [exact (proj2 (C s0 H))|exact G2].
Qed.

Theorem remove_service_keeps d u : Gate d -> Gate (fst (remove_service d u)).
Proof.
  intros [A [B C]]. unfold remove_service. destruct (sv_remove (d_svc d) u) as [l o] eqn:R. cbn [fst].
  apply (sub_keeps d); auto. intros s I. apply (sv_remove_sub (d_svc d) u). rewrite R. exact I.
Qed.

Theorem attach_keeps d q r d' b : Gate d -> attach d q r = inl (d', b) -> Gate d'.
Proof.
  intros [A [B C]]. unfold attach. destruct (resolve_method d q (Some SVm)) as [m|] eqn:Rm.
  2:{ destruct (resolve_method d q None); discriminate. }
  cbn [resolve_method] in Rm. apply vm_query_in in Rm.
  destruct (rl_has (d_rels d r) (m_id m)) eqn:Hh; intros H; inversion H; subst; [exact (conj A (conj B C))|].
  apply (ins_keeps d r (Refer (m_id m))); auto.
  - discriminate.
  - intros e Ie Em. exact (B m e Rm Ie Em).
  - discriminate.
  - intros s Is E. exact (proj2 (C s Is) m Rm (eq_sym E)).
Qed.

Theorem detach_keeps d q r d' b : Gate d -> detach d q r = inl (d', b) -> Gate d'.
Proof.
  intros [A [B C]]. unfold detach. destruct (resolve_method d q (Some SVm)) as [m|] eqn:Rm.
  2:{ destruct (resolve_method d q None); discriminate. }
  destruct (rl_remove (d_rels d r) (m_id m)) as [l o] eqn:R. intros H; inversion H; subst d' b; clear H.
  destruct (entries_pointwise d (upd (d_rels d) r l)) as [He Hc].
  { intros r'. unfold upd. destruct (releqb r' r) eqn:E.
    - assert (r' = r) as -> by (destruct r', r; try discriminate; reflexivity).
      pose proof (rl_remove_sub (d_rels d r) (m_id m)) as S. rewrite R in S. exact S.
    - split; [auto|intros; lia]. }
  cbv zeta in He, Hc. apply (sub_keeps d); auto.
Qed.

Theorem dstep_keeps d o : Gate d -> Gate (dstep d o).
Proof.
  intros G. destruct o as [m s|u|s|u|q r|q r]; cbn [dstep].
  - destruct (insert_method d m s) as [d'|e] eqn:E; [exact (insert_method_keeps _ _ _ _ G E)|exact G].
  - exact (remove_method_keeps d u G).
  - destruct (insert_service d s) as [d'|e] eqn:E; [exact (insert_service_keeps _ _ _ G E)|exact G].
  - exact (remove_service_keeps d u G).
  - destruct (attach d q r) as [[d' b]|e] eqn:E; [exact (attach_keeps _ _ _ _ _ G E)|exact G].
  - destruct (detach d q r) as [[d' b]|e] eqn:E; [exact (detach_keeps _ _ _ _ _ G E)|exact G].
Qed.

Theorem drun_keeps ops : forall d, check d = true -> check (drun ops d) = true.
Proof.
  unfold drun. induction ops as [|o ops IH]; intros d H; cbn [fold_left]; [exact H|].
  apply IH. apply check_spec. apply dstep_keeps. apply check_spec. exact H.
Qed.

(* the pinned guard is refuted: a dangling reference hides the identifier (finding F14) *)
Theorem insert_pinned_refuted : exists d m s d',
  check d = true /\ insert_method_pinned d m s = inl d' /\ check d' = false.
Proof.
  pose (k := {| u_did := 1; u_rest := 0; u_frag := Some 7 |}).
  exists {| d_vm := []; d_rels := fun r => match r with RAuth => [Refer k] | _ => [] end; d_svc := [] |},
         {| m_id := k; m_data := 0 |}, (SRel RAssert).
  eexists. vm_compute. repeat split.
Qed.
