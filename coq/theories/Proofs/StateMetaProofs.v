(* Proofs about the state-metadata model (C14). *)
From Coq Require Import List ZArith Bool Lia.
From IdV Require Import Doc.Doc Iota.StateMeta.
Import ListNotations.
Open Scope Z_scope.

(* ---------- lists ---------- *)
Lemma filter_all {A} (p : A -> bool) l : (forall x, In x l -> p x = true) -> filter p l = l.
Proof. induction l as [|x r IH]; cbn [filter]; intros H; [reflexivity|]. rewrite (H x (or_introl eq_refl)). f_equal. apply IH. intros y Hy. apply H. right. exact Hy. Qed.
Lemma filter_length_le {A} (p : A -> bool) l : (length (filter p l) <= length l)%nat.
Proof. induction l as [|x r IH]; cbn [filter length]; [lia|]. destruct (p x); cbn [length]; lia. Qed.
Lemma filter_length_eq {A} (p : A -> bool) l : length (filter p l) = length l -> filter p l = l.
Proof. induction l as [|x r IH]; cbn [filter length]; intros H; [reflexivity|]. destruct (p x) eqn:E; cbn [length] in H.
  - f_equal. apply IH. lia. - pose proof (filter_length_le p r). lia. Qed.
Lemma dd_length_le {A} (key : A -> url) l : (length (dd key l) <= length l)%nat.
Proof. induction l as [|x r IH]; cbn [dd length]; [lia|]. pose proof (filter_length_le (fun y => negb (ueqb (key y) (key x))) (dd key r)). lia. Qed.
Lemma dd_length_eq {A} (key : A -> url) l : length (dd key l) = length l -> dd key l = l.
Proof. induction l as [|x r IH]; cbn [dd length]; intros H; [reflexivity|].
  pose proof (filter_length_le (fun y => negb (ueqb (key y) (key x))) (dd key r)) as H1. pose proof (dd_length_le key r) as H2.
  f_equal. rewrite filter_length_eq by lia. apply IH. lia. Qed.
Lemma existsb_false_forall {A} (p : A -> bool) l : existsb p l = false -> forall x, In x l -> p x = false.
Proof. induction l as [|y r IH]; cbn [existsb]; intros H x Hx; [destruct Hx|]. apply orb_false_iff in H. destruct H as [H1 H2]. destruct Hx as [E|Hx]; [subst; exact H1|apply IH; assumption]. Qed.
Lemma dd_nodup {A} (key : A -> url) l : nodup_by key l = true -> dd key l = l.
Proof. induction l as [|x r IH]; cbn [dd nodup_by]; intros H; [reflexivity|]. apply andb_true_iff in H. destruct H as [H1 H2].
  rewrite IH by exact H2. f_equal. apply filter_all. intros y Hy. apply negb_true_iff in H1. rewrite (existsb_false_forall _ _ H1 y Hy). reflexivity. Qed.
Lemma ddz_nodup l : nodupz l = true -> ddz l = l.
Proof. induction l as [|x r IH]; cbn [ddz nodupz]; intros H; [reflexivity|]. apply andb_true_iff in H. destruct H as [H1 H2].
  rewrite IH by exact H2. f_equal. apply filter_all. intros y Hy. apply negb_true_iff in H1. rewrite (existsb_false_forall _ _ H1 y Hy). reflexivity. Qed.

Lemma existsb_map' {A B} (g : A -> B) (p : B -> bool) l : existsb p (map g l) = existsb (fun x => p (g x)) l.
Proof. induction l as [|x r IH]; cbn [map existsb]; [reflexivity|]. rewrite IH. reflexivity. Qed.
Lemma forallb_map' {A B} (g : A -> B) (p : B -> bool) l : forallb p (map g l) = forallb (fun x => p (g x)) l.
Proof. induction l as [|x r IH]; cbn [map forallb]; [reflexivity|]. rewrite IH. reflexivity. Qed.
Lemma forallb_ext_in' {A} (p q : A -> bool) l : (forall x, In x l -> p x = q x) -> forallb p l = forallb q l.
Proof. induction l as [|x r IH]; cbn [forallb]; intros H; [reflexivity|]. rewrite (H x (or_introl eq_refl)), IH; [reflexivity|]. intros y Hy. apply H. right. exact Hy. Qed.

(* ---------- injective renaming and keys ---------- *)
Definition inj_on (f : Z -> Z) (P : Z -> Prop) : Prop := forall a b, P a -> P b -> f a = f b -> a = b.
Lemma ofeqb_refl o : ofeqb o o = true.
Proof. destruct o; cbn; [apply Z.eqb_refl|reflexivity]. Qed.
Lemma ueqb_umap f P u v : inj_on f P -> P (u_did u) -> P (u_did v) -> ueqb (umap f u) (umap f v) = ueqb u v.
Proof. intros Hi Hu Hv. unfold ueqb, umap; cbn [u_did u_rest u_frag].
  destruct (u_did u =? u_did v) eqn:E.
  - apply Z.eqb_eq in E. rewrite E, Z.eqb_refl. reflexivity.
  - destruct (f (u_did u) =? f (u_did v)) eqn:E2; [|reflexivity]. apply Z.eqb_eq in E2. apply Hi in E2; [|assumption|assumption]. apply Z.eqb_neq in E. contradiction. Qed.
Lemma existsb_ext_in {A} (p q : A -> bool) l : (forall x, In x l -> p x = q x) -> existsb p l = existsb q l.
Proof. induction l as [|x r IH]; cbn [existsb]; intros H; [reflexivity|]. rewrite (H x (or_introl eq_refl)), IH; [reflexivity|]. intros y Hy. apply H. right. exact Hy. Qed.
Lemma nodup_by_map {A} (key : A -> url) (g : A -> A) f P l :
  inj_on f P -> (forall x, key (g x) = umap f (key x)) -> (forall x, In x l -> P (u_did (key x))) ->
  nodup_by key (map g l) = nodup_by key l.
Proof. intros Hi Hk. induction l as [|x r IH]; cbn [map nodup_by]; intros HP; [reflexivity|].
  rewrite IH by (intros y Hy; apply HP; right; exact Hy). f_equal. f_equal. rewrite existsb_map'. apply existsb_ext_in.
  intros y Hy. rewrite !Hk. apply (ueqb_umap f P); [exact Hi|apply HP; right; exact Hy|apply HP; left; reflexivity]. Qed.
Lemma nodupz_map f P l : inj_on f P -> (forall x, In x l -> P x) -> nodupz (map f l) = nodupz l.
Proof. intros Hi. induction l as [|x r IH]; cbn [map nodupz]; intros HP; [reflexivity|].
  rewrite IH by (intros y Hy; apply HP; right; exact Hy). f_equal. f_equal. rewrite existsb_map'. apply existsb_ext_in.
  intros y Hy. destruct (y =? x) eqn:E. { apply Z.eqb_eq in E. subst. apply Z.eqb_refl. }
  destruct (f y =? f x) eqn:E2; [|reflexivity]. apply Z.eqb_eq in E2. apply Hi in E2; [|apply HP; right; exact Hy|apply HP; left; reflexivity]. apply Z.eqb_neq in E. contradiction. Qed.

(* ---------- the id-constraint gate is invariant under an injective renaming ---------- *)
Definition umeth (f : Z -> Z) (m : meth) : meth := {| m_id := umap f (m_id m); m_data := m_data m |}.
Definition umr (f : Z -> Z) (e : mref) : mref := match e with Embed m => Embed (umeth f m) | Refer u => Refer (umap f u) end.
Definition am_map (f : Z -> Z) (m : amap) : amap := map (fun kv => (umap f (fst kv), snd kv)) m.
Definition amP (P : Z -> Prop) (m : amap) : Prop := forall kv, In kv m -> P (u_did (fst kv)).
Lemma r_id_umr f e : r_id (umr f e) = umap f (r_id e). Proof. destruct e; reflexivity. Qed.
Lemma is_embed_umr f e : is_embed (umr f e) = is_embed e. Proof. destruct e; reflexivity. Qed.
Lemma tor_rmap f r : tor (rmap f r) = umr f (tor r). Proof. destruct r; reflexivity. Qed.
Lemma tom_mmap f m : tom (mmap f m) = umeth f (tom m). Proof. reflexivity. Qed.

Section Inj.
Variables (f : Z -> Z) (P : Z -> Prop).
Hypothesis Hi : inj_on f P.
Lemma am_get_map m u : amP P m -> P (u_did u) -> am_get (am_map f m) (umap f u) = am_get m u.
Proof. induction m as [|[k v] r IH]; cbn [am_map map am_get fst snd]; intros Hm Hu; [reflexivity|].
  rewrite (ueqb_umap f P) by (try exact Hi; try exact Hu; apply (Hm (k, v)); left; reflexivity).
  destruct (ueqb k u); [reflexivity|]. apply IH; [|exact Hu]. intros kv Hkv. apply Hm. right. exact Hkv. Qed.
Lemma am_set_map m u b : amP P m -> P (u_did u) -> am_map f (am_set m u b) = am_set (am_map f m) (umap f u) b.
Proof. induction m as [|[k v] r IH]; cbn [am_map map am_set fst snd]; intros Hm Hu; [reflexivity|].
  rewrite (ueqb_umap f P) by (try exact Hi; try exact Hu; apply (Hm (k, v)); left; reflexivity).
  destruct (ueqb k u); cbn [map fst snd]; [reflexivity|]. f_equal. apply IH; [|exact Hu]. intros kv Hkv. apply Hm. right. exact Hkv. Qed.
Lemma amP_set m u b : amP P m -> P (u_did u) -> amP P (am_set m u b).
Proof. induction m as [|[k v] r IH]; cbn [am_set]; intros Hm Hu kv Hkv.
  - destruct Hkv as [E|[]]. subst. exact Hu.
  - destruct (ueqb k u).
    + destruct Hkv as [E|Hkv]; [subst; apply (Hm (k, v)); left; reflexivity|apply Hm; right; exact Hkv].
    + destruct Hkv as [E|Hkv]; [subst; apply (Hm (k, v)); left; reflexivity|]. apply IH; [|exact Hu|exact Hkv]. intros kv' H'. apply Hm. right. exact H'. Qed.
Lemma pass_rels_map es : forall m, amP P m -> (forall e, In e es -> P (u_did (r_id e))) ->
  pass_rels (map (umr f) es) (am_map f m) = option_map (am_map f) (pass_rels es m)
  /\ (forall m', pass_rels es m = Some m' -> amP P m').
Proof. induction es as [|e r IH]; intros m Hm He; cbn [map pass_rels].
  - split; [reflexivity|]. intros m' E. injection E as <-. exact Hm.
  - assert (Pe : P (u_did (r_id e))) by (apply He; left; reflexivity).
    assert (Hr : forall e', In e' r -> P (u_did (r_id e'))) by (intros e' H'; apply He; right; exact H').
    rewrite r_id_umr, is_embed_umr, am_get_map by assumption.
    assert (Hs : amP P (am_set m (r_id e) (is_embed e))) by (apply amP_set; assumption).
    destruct (am_get m (r_id e)) as [[|]|].
    + split; [reflexivity|]. intros m' E; discriminate E.
    + destruct (is_embed e). { split; [reflexivity|]. intros m' E; discriminate E. }
      rewrite <- am_set_map by assumption. apply IH; assumption.
    + rewrite <- am_set_map by assumption. apply IH; assumption. Qed.
Lemma pass_vm_map ms : forall m, amP P m -> (forall x, In x ms -> P (u_did (m_id x))) ->
  pass_vm (map (umeth f) ms) (am_map f m) = option_map (am_map f) (pass_vm ms m)
  /\ (forall m', pass_vm ms m = Some m' -> amP P m').
Proof. induction ms as [|x r IH]; intros m Hm Hx; cbn [map pass_vm].
  - split; [reflexivity|]. intros m' E. injection E as <-. exact Hm.
  - assert (Px : P (u_did (m_id x))) by (apply Hx; left; reflexivity).
    assert (Hr : forall y, In y r -> P (u_did (m_id y))) by (intros y H'; apply Hx; right; exact H').
    cbn [umeth m_id]. rewrite am_get_map by assumption.
    assert (Hs : amP P (am_set m (m_id x) false)) by (apply amP_set; assumption).
    destruct (am_get m (m_id x)) as [[|]|].
    + split; [reflexivity|]. intros m' E; discriminate E.
    + rewrite <- am_set_map by assumption. apply IH; assumption.
    + rewrite <- am_set_map by assumption. apply IH; assumption. Qed.
Lemma cic_map es vm sv :
  (forall e, In e es -> P (u_did (r_id e))) -> (forall x, In x vm -> P (u_did (m_id x))) -> (forall s, In s sv -> P (u_did (s_id s))) ->
  cic (map (umr f) es) (map (umeth f) vm) (map (svmap f) sv) = cic es vm sv.
Proof. intros He Hv Hs. unfold cic.
  assert (H0 : amP P []) by (intros kv []).
  destruct (pass_rels_map es [] H0 He) as [E1 K1]. change (am_map f []) with (@nil (url * bool)) in E1. rewrite E1.
  destruct (pass_rels es []) as [m1|]; cbn [option_map]; [|reflexivity].
  destruct (pass_vm_map vm m1 (K1 m1 eq_refl) Hv) as [E2 K2]. rewrite E2.
  destruct (pass_vm vm m1) as [m2|]; cbn [option_map]; [|reflexivity].
  rewrite forallb_map'. apply forallb_ext_in'. intros s Hsv. cbn [svmap s_id].
  rewrite am_get_map; [reflexivity|apply (K2 m2 eq_refl)|apply Hs; exact Hsv]. Qed.
End Inj.

(* ---------- map_data = rename when nothing merges ---------- *)
Lemma sm_id_mmap f m : sm_id (mmap f m) = umap f (sm_id m). Proof. reflexivity. Qed.
Lemma sr_id_rmap f r : sr_id (rmap f r) = umap f (sr_id r). Proof. destruct r; reflexivity. Qed.
Lemma s_id_svmap f x : s_id (svmap f x) = umap f (s_id x). Proof. reflexivity. Qed.

Lemma map_data_rename f (p : Z -> bool) s :
  inj_on f (fun d => p d = true) -> urls_all p s = true -> nodups s = true -> map_data f s = rename f s.
Proof. intros Hi Hu Hn. unfold urls_all in Hu. unfold nodups in Hn.
  apply andb_true_iff in Hu. destruct Hu as [Hu Hu3]. apply andb_true_iff in Hu. destruct Hu as [Hu1 Hu2].
  apply andb_true_iff in Hn. destruct Hn as [Hn Hn3]. apply andb_true_iff in Hn. destruct Hn as [Hn1 Hn2].
  rewrite forallb_forall in Hu1, Hu2, Hu3, Hn2.
  unfold map_data, rename. f_equal.
  - apply dd_nodup. rewrite (nodup_by_map sm_id (mmap f) f (fun d => p d = true)); [exact Hn1|exact Hi|apply sm_id_mmap|exact Hu1].
  - apply map_ext_in. intros l Hl. apply dd_nodup.
    rewrite (nodup_by_map sr_id (rmap f) f (fun d => p d = true)); [apply Hn2; exact Hl|exact Hi|apply sr_id_rmap|].
    intros r Hr. pose proof (Hu2 l Hl) as H. rewrite forallb_forall in H. apply H. exact Hr.
  - apply dd_nodup. rewrite (nodup_by_map s_id (svmap f) f (fun d => p d = true)); [exact Hn3|exact Hi|apply s_id_svmap|exact Hu3]. Qed.

(* when every collection kept its length, map_data did not merge anything *)
Lemma map_dd_lengths {A} (key : A -> url) (g : A -> A) ls :
  map (@length A) (map (fun l => dd key (map g l)) ls) = map (@length A) ls -> map (fun l => dd key (map g l)) ls = map (map g) ls.
Proof. induction ls as [|l r IH]; cbn [map]; intros H; [reflexivity|]. injection H as H1 H2. f_equal; [|apply IH; exact H2].
  apply dd_length_eq. rewrite map_length. exact H1. Qed.
Lemma lens_eq_rename f s : lens_eqb (lens (map_data f s)) (lens s) = true -> map_data f s = rename f s.
Proof. unfold lens_eqb. destruct (list_eq_dec Nat.eq_dec (lens (map_data f s)) (lens s)) as [E|]; [|discriminate]. intros _.
  unfold lens, map_data in E; cbn [sd_vm sd_svc sd_rels] in E. injection E as E1 E2 E3.
  unfold map_data, rename. f_equal.
  - apply dd_length_eq. rewrite map_length. exact E1.
  - apply map_dd_lengths. exact E3.
  - apply dd_length_eq. rewrite map_length. exact E2. Qed.
Lemma lens_rename f s : lens (rename f s) = lens s.
Proof. unfold lens, rename; cbn [sd_vm sd_svc sd_rels]. rewrite !map_length. f_equal. f_equal. rewrite map_map. apply map_ext. intros l. apply map_length. Qed.

(* ---------- renaming: extensionality and composition ---------- *)
Lemma rename_ext f g s : dids_all (fun d => f d =? g d) s = true -> rename f s = rename g s.
Proof. unfold dids_all. intros H.
  apply andb_true_iff in H. destruct H as [H H5]. apply andb_true_iff in H. destruct H as [H H4].
  apply andb_true_iff in H. destruct H as [H H3]. apply andb_true_iff in H. destruct H as [H1 H2].
  rewrite forallb_forall in H2, H3, H4, H5. apply Z.eqb_eq in H1.
  assert (Hm : forall m, m_all (fun d => f d =? g d) m = true -> mmap f m = mmap g m).
  { intros m Hm. unfold m_all in Hm. apply andb_true_iff in Hm. destruct Hm as [A B]. apply Z.eqb_eq in A. apply Z.eqb_eq in B.
    unfold mmap, umap. rewrite A, B. reflexivity. }
  unfold rename. f_equal.
  - exact H1.
  - f_equal. apply map_ext_in. intros c Hc. apply Z.eqb_eq. apply H2. exact Hc.
  - apply map_ext_in. intros m Hin. apply Hm. apply H3. exact Hin.
  - apply map_ext_in. intros l Hl. apply map_ext_in. intros r Hr. pose proof (H4 l Hl) as K. rewrite forallb_forall in K. specialize (K r Hr).
    destruct r as [m|u]; cbn [rmap r_all] in *. { f_equal. apply Hm. exact K. } apply Z.eqb_eq in K. unfold umap. rewrite K. reflexivity.
  - apply map_ext_in. intros x Hx. apply H5 in Hx. apply Z.eqb_eq in Hx. unfold svmap, umap. rewrite Hx. reflexivity. Qed.
Lemma rename_rename g f s : ddz (map f (sd_ctrl s)) = map f (sd_ctrl s) -> rename g (rename f s) = rename (fun d => g (f d)) s.
Proof. intros Hc. unfold rename; cbn [sd_id sd_ctrl sd_vm sd_rels sd_svc sd_aka sd_props]. f_equal.
  - rewrite Hc, map_map. reflexivity.
  - rewrite map_map. reflexivity.
  - rewrite map_map. apply map_ext. intros l. rewrite map_map. apply map_ext. intros [m|u]; reflexivity.
  - rewrite map_map. reflexivity. Qed.
Lemma rename_id s : nodupz (sd_ctrl s) = true -> rename (fun d => d) s = s.
Proof. intros H. destruct s as [i c v r sv a p]. unfold rename; cbn [sd_id sd_ctrl sd_vm sd_rels sd_svc sd_aka sd_props] in *. f_equal.
  - rewrite map_id. apply ddz_nodup. exact H.
  - rewrite <- (map_id v) at 2. apply map_ext. intros [[d r' fr] c' x]. reflexivity.
  - rewrite <- (map_id r) at 2. apply map_ext. intros l. rewrite <- (map_id l) at 2. apply map_ext. intros [[[d r' fr] c' x]|[d r' fr]]; reflexivity.
  - rewrite <- (map_id sv) at 2. apply map_ext. intros [[d r' fr] x]. reflexivity. Qed.

(* the gate under an injective renaming *)
Lemma gate_rename f (p : Z -> bool) s : inj_on f (fun d => p d = true) -> urls_all p s = true -> gate (rename f s) = gate s.
Proof. intros Hi Hu. unfold urls_all in Hu.
  apply andb_true_iff in Hu. destruct Hu as [Hu Hu3]. apply andb_true_iff in Hu. destruct Hu as [Hu1 Hu2]. rewrite forallb_forall in Hu1, Hu2, Hu3.
  unfold gate, rename; cbn [sd_vm sd_rels sd_svc].
  rewrite <- concat_map, !map_map.
  rewrite (map_ext (fun x => tor (rmap f x)) (fun x => umr f (tor x))) by (intros; apply tor_rmap).
  rewrite (map_ext (fun x => tom (mmap f x)) (fun x => umeth f (tom x))) by reflexivity.
  rewrite <- (map_map tor (umr f)), <- (map_map tom (umeth f)).
  apply (cic_map f (fun d => p d = true) Hi).
  - intros e He. apply in_map_iff in He. destruct He as [r [<- Hr]]. apply in_concat in Hr. destruct Hr as [l [Hl Hr]].
    pose proof (Hu2 l Hl) as K. rewrite forallb_forall in K. specialize (K r Hr). destruct r; exact K.
  - intros x Hx. apply in_map_iff in Hx. destruct Hx as [m [<- Hm]]. apply Hu1. exact Hm.
  - exact Hu3. Qed.

(* ---------- predicates over DID positions ---------- *)
Lemma forallb_impl {A} (p q : A -> bool) l : (forall x, In x l -> p x = true -> q x = true) -> forallb p l = true -> forallb q l = true.
Proof. intros H Hp. rewrite forallb_forall in *. intros x Hx. apply H; [exact Hx|apply Hp; exact Hx]. Qed.
Lemma dids_all_impl (p q : Z -> bool) s : (forall d, p d = true -> q d = true) -> dids_all p s = true -> dids_all q s = true.
Proof. intros Hpq. unfold dids_all. intros H.
  apply andb_true_iff in H. destruct H as [H H5]. apply andb_true_iff in H. destruct H as [H H4].
  apply andb_true_iff in H. destruct H as [H H3]. apply andb_true_iff in H. destruct H as [H1 H2].
  assert (Hm : forall m, m_all p m = true -> m_all q m = true).
  { intros m Hm. unfold m_all in *. apply andb_true_iff in Hm. destruct Hm as [A B]. rewrite (Hpq _ A), (Hpq _ B). reflexivity. }
  rewrite (Hpq _ H1). cbn [andb].
  rewrite (forallb_impl p q _ (fun x _ => Hpq x) H2). cbn [andb].
  rewrite (forallb_impl _ (m_all q) _ (fun x _ => Hm x) H3). cbn [andb].
  rewrite (forallb_impl _ (forallb (r_all q)) _ (fun l _ Hl => forallb_impl _ (r_all q) l (fun r _ => match r with SEmbed m => Hm m | SRefer u => Hpq (u_did u) end) Hl) H4). cbn [andb].
  apply (forallb_impl _ _ _ (fun x _ => Hpq (u_did (s_id x))) H5). Qed.
Lemma dids_urls (p : Z -> bool) s : dids_all p s = true -> urls_all p s = true.
Proof. unfold dids_all, urls_all. intros H.
  apply andb_true_iff in H. destruct H as [H H5]. apply andb_true_iff in H. destruct H as [H H4].
  apply andb_true_iff in H. destruct H as [H H3].
  rewrite H5, andb_true_r. apply andb_true_iff. split.
  - apply (forallb_impl (m_all p)); [|exact H3]. intros m _ Hm. unfold m_all in Hm. apply andb_true_iff in Hm. apply Hm.
  - apply (forallb_impl (forallb (r_all p))); [|exact H4]. intros l _ Hl. apply (forallb_impl (r_all p)); [|exact Hl].
    intros [m|u] _ Hr; cbn [r_all sr_id] in *; [|exact Hr]. unfold m_all in Hr. apply andb_true_iff in Hr. apply Hr. Qed.
Lemma urls_all_impl (p q : Z -> bool) s : (forall d, p d = true -> q d = true) -> urls_all p s = true -> urls_all q s = true.
Proof. intros Hpq. unfold urls_all. intros H. apply andb_true_iff in H. destruct H as [H H3]. apply andb_true_iff in H. destruct H as [H1 H2].
  rewrite (forallb_impl _ (fun m => q (u_did (sm_id m))) _ (fun x _ => Hpq _) H1). cbn [andb].
  rewrite (forallb_impl _ (forallb (fun r => q (u_did (sr_id r)))) _ (fun l _ Hl => forallb_impl _ (fun r => q (u_did (sr_id r))) l (fun r _ => Hpq _) Hl) H2). cbn [andb].
  apply (forallb_impl _ _ _ (fun x _ => Hpq _) H3). Qed.
Lemma urls_all_rename (q : Z -> bool) f s : urls_all q (rename f s) = urls_all (fun d => q (f d)) s.
Proof. unfold urls_all, rename; cbn [sd_vm sd_rels sd_svc]. rewrite !forallb_map'.
  assert (E : forallb (fun x => forallb (fun r => q (u_did (sr_id r))) (map (rmap f) x)) (sd_rels s)
            = forallb (forallb (fun r => q (f (u_did (sr_id r))))) (sd_rels s)).
  { apply forallb_ext_in'. intros l _. rewrite forallb_map'. apply forallb_ext_in'. intros [m|u] _; reflexivity. }
  rewrite E. reflexivity. Qed.
Lemma nodups_rename f (p : Z -> bool) s : inj_on f (fun d => p d = true) -> urls_all p s = true -> nodups (rename f s) = nodups s.
Proof. intros Hi Hu. unfold urls_all in Hu.
  apply andb_true_iff in Hu. destruct Hu as [Hu Hu3]. apply andb_true_iff in Hu. destruct Hu as [Hu1 Hu2]. rewrite forallb_forall in Hu1, Hu2, Hu3.
  unfold nodups, rename; cbn [sd_vm sd_rels sd_svc]. f_equal; [f_equal|].
  - apply (nodup_by_map sm_id (mmap f) f (fun d => p d = true)); [exact Hi|apply sm_id_mmap|exact Hu1].
  - rewrite forallb_map'. apply forallb_ext_in'. intros l Hl.
    apply (nodup_by_map sr_id (rmap f) f (fun d => p d = true)); [exact Hi|apply sr_id_rmap|].
    intros r Hr. pose proof (Hu2 l Hl) as K. rewrite forallb_forall in K. apply K. exact Hr.
  - apply (nodup_by_map s_id (svmap f) f (fun d => p d = true)); [exact Hi|apply s_id_svmap|exact Hu3]. Qed.
Lemma lens_eqb_refl a : lens_eqb a a = true.
Proof. unfold lens_eqb. destruct (list_eq_dec Nat.eq_dec a a); [reflexivity|contradiction]. Qed.
Lemma forallb_filter {A} (p q : A -> bool) l : forallb p l = true -> forallb p (filter q l) = true.
Proof. intros H. rewrite forallb_forall in *. intros x Hx. apply filter_In in Hx. apply H. apply Hx. Qed.
Lemma forallb_ddz p l : forallb p l = true -> forallb p (ddz l) = true.
Proof. induction l as [|x r IH]; cbn [ddz forallb]; intros H; [reflexivity|]. apply andb_true_iff in H. destruct H as [H1 H2].
  rewrite H1. cbn [andb]. apply forallb_filter. apply IH. exact H2. Qed.

(* ---------- pack then unpack ---------- *)
Definition nz (d : Z) : bool := negb (d =? 0).
Lemma pack_f_inj self : inj_on (pack_f self) (fun d => nz d = true).
Proof. intros a b Ha Hb. unfold pack_f, nz in *. apply negb_true_iff in Ha, Hb. apply Z.eqb_neq in Ha, Hb.
  destruct (a =? self) eqn:E1; destruct (b =? self) eqn:E2; intros H; try lia.
  all: apply Z.eqb_eq in E1, E2; lia. Qed.
Lemma unpack_f_inj tgt : inj_on (unpack_f tgt) (fun d => ((d =? 0) || negb (d =? tgt)) = true).
Proof. intros a b Ha Hb. unfold unpack_f.
  destruct (a =? 0) eqn:E1; destruct (b =? 0) eqn:E2; cbn [orb] in Ha, Hb; intros H.
  - apply Z.eqb_eq in E1, E2. lia.
  - subst. rewrite Z.eqb_refl in Hb. discriminate Hb.
  - subst. rewrite Z.eqb_refl in Ha. discriminate Ha.
  - exact H. Qed.

Section Rebase.
Variable v : Z -> bool.
Variable s : sdoc.
Hypothesis Hwf : swf v s = true.
Hypothesis Hnp : no_placeholder s = true.
Let self := sd_id s.

Lemma swf_parts : v self = true /\ forallb v (sd_ctrl s) = true /\ nodupz (sd_ctrl s) = true /\ nodups s = true /\ gate s = true.
Proof. unfold swf in Hwf. apply andb_true_iff in Hwf. destruct Hwf as [H H5]. apply andb_true_iff in H. destruct H as [H H4].
  apply andb_true_iff in H. destruct H as [H H3]. apply andb_true_iff in H. destruct H as [H1 H2]. auto. Qed.
Lemma np_urls : urls_all nz s = true. Proof. apply dids_urls. exact Hnp. Qed.
Lemma np_ctrl : forallb nz (sd_ctrl s) = true.
Proof. unfold no_placeholder, dids_all in Hnp. apply andb_true_iff in Hnp. destruct Hnp as [H _]. apply andb_true_iff in H. destruct H as [H _].
  apply andb_true_iff in H. destruct H as [H _]. apply andb_true_iff in H. apply H. Qed.
Lemma to_state_rename : to_state s = rename (pack_f self) s.
Proof. unfold to_state. apply (map_data_rename _ nz); [apply pack_f_inj|apply np_urls|apply swf_parts]. Qed.
Lemma state_ctrl : ddz (map (pack_f self) (sd_ctrl s)) = map (pack_f self) (sd_ctrl s).
Proof. apply ddz_nodup. rewrite (nodupz_map _ (fun d => nz d = true)); [apply swf_parts|apply pack_f_inj|].
  pose proof np_ctrl as H. rewrite forallb_forall in H. exact H. Qed.
Lemma compose_rebase tgt : rename (fun d => unpack_f tgt (pack_f self d)) s = rename (rebase_f self tgt) s.
Proof. apply rename_ext. apply (dids_all_impl nz); [|exact Hnp]. intros d Hd. apply Z.eqb_eq. unfold unpack_f, pack_f, rebase_f, nz in *.
  apply negb_true_iff in Hd. destruct (d =? self); [reflexivity|]. rewrite Hd. reflexivity. Qed.

(* soundness: whatever the target, an accepted unpack is exactly the renamed document *)
Theorem rebase_sound tgt r : into_iota v tgt (to_state s) = inl r -> r = rename (rebase_f self tgt) s.
Proof. unfold into_iota. destruct (negb (checked v (sd_id (to_state s)))); [discriminate|].
  destruct (negb (forallb (checked v) (sd_ctrl (to_state s)))); [discriminate|].
  destruct (lens_eqb (lens (map_data (unpack_f tgt) (to_state s))) (lens (to_state s))) eqn:EL; cbn [negb]; [|discriminate].
  destruct (gate (map_data (unpack_f tgt) (to_state s))); [|discriminate]. intros E. injection E as <-.
  rewrite (lens_eq_rename _ _ EL), to_state_rename, rename_rename by apply state_ctrl. apply compose_rebase. Qed.

(* completeness: a target that occurs in no foreign identifier is accepted *)
Theorem rebase_complete tgt : target_fresh tgt s = true -> into_iota v tgt (to_state s) = inl (rename (rebase_f self tgt) s).
Proof. intros Hf. pose proof swf_parts as [W1 [W2 [W3 [W4 W5]]]].
  set (P' := fun d => (d =? 0) || negb (d =? tgt)).
  assert (Hst : urls_all P' (rename (pack_f self) s) = true).
  { rewrite urls_all_rename. apply (urls_all_impl (fun d => nz d && ((d =? self) || negb (d =? tgt)))).
    - intros d Hd. apply andb_true_iff in Hd. destruct Hd as [_ Hd]. unfold P', pack_f. fold self in Hd.
      destruct (d =? self); [reflexivity|]. cbn [orb] in Hd. rewrite Hd. apply orb_true_r.
    - pose proof np_urls as A. unfold target_fresh in Hf. fold self in Hf. unfold urls_all in *.
      apply andb_true_iff in A. destruct A as [A A3]. apply andb_true_iff in A. destruct A as [A1 A2].
      apply andb_true_iff in Hf. destruct Hf as [F F3]. apply andb_true_iff in F. destruct F as [F1 F2].
      rewrite forallb_forall in A1, A2, A3, F1, F2, F3.
      apply andb_true_iff; split; [apply andb_true_iff; split|]; apply forallb_forall.
      + intros m Hm. rewrite (A1 m Hm), (F1 m Hm). reflexivity.
      + intros l Hl. apply forallb_forall. intros r Hr. pose proof (A2 l Hl) as K1. pose proof (F2 l Hl) as K2. rewrite forallb_forall in K1, K2.
        rewrite (K1 r Hr), (K2 r Hr). reflexivity.
      + intros x Hx. rewrite (A3 x Hx), (F3 x Hx). reflexivity. }
  assert (Hnd : nodups (rename (pack_f self) s) = true).
  { rewrite (nodups_rename _ nz); [exact W4|apply pack_f_inj|apply np_urls]. }
  assert (Hr : map_data (unpack_f tgt) (rename (pack_f self) s) = rename (rebase_f self tgt) s).
  { rewrite (map_data_rename _ P'); [|apply unpack_f_inj|exact Hst|exact Hnd]. rewrite rename_rename by apply state_ctrl. apply compose_rebase. }
  unfold into_iota. rewrite to_state_rename.
  assert (C1 : checked v (sd_id (rename (pack_f self) s)) = true).
  { unfold rename; cbn [sd_id]. unfold pack_f. fold self. rewrite Z.eqb_refl. reflexivity. }
  rewrite C1. cbn [negb].
  assert (C2 : forallb (checked v) (sd_ctrl (rename (pack_f self) s)) = true).
  { unfold rename; cbn [sd_ctrl]. apply forallb_ddz. rewrite forallb_map'. apply (forallb_impl v); [|exact W2].
    intros c _ Hc. unfold checked, pack_f. destruct (c =? self); [reflexivity|]. rewrite Hc. apply orb_true_r. }
  rewrite C2. cbn [negb]. rewrite Hr.
  replace (lens (rename (pack_f self) s)) with (lens s) by (symmetry; apply lens_rename).
  rewrite lens_rename, lens_eqb_refl. cbn [negb].
  assert (G : gate (rename (rebase_f self tgt) s) = true).
  { rewrite <- Hr, (map_data_rename _ P') by (try apply unpack_f_inj; assumption).
    rewrite (gate_rename _ P') by (try apply unpack_f_inj; assumption).
    rewrite (gate_rename _ nz); [exact W5|apply pack_f_inj|apply np_urls]. }
  rewrite G. reflexivity. Qed.

Lemma target_fresh_self : target_fresh self s = true.
Proof. unfold target_fresh. fold self. apply (urls_all_impl nz); [|apply np_urls]. intros d _. destruct (d =? self); reflexivity. Qed.
Theorem same_did_roundtrip : into_iota v self (to_state s) = inl s.
Proof. rewrite (rebase_complete self target_fresh_self). f_equal.
  rewrite (rename_ext _ (fun d => d)). { apply rename_id. apply swf_parts. }
  apply (dids_all_impl nz); [|exact Hnp]. intros d _. apply Z.eqb_eq. unfold rebase_f. destruct (d =? self) eqn:E; [apply Z.eqb_eq in E; lia|reflexivity]. Qed.
Lemma state_gate : gate (to_state s) = true.
Proof. rewrite to_state_rename, (gate_rename _ nz); [apply swf_parts|apply pack_f_inj|apply np_urls]. Qed.
End Rebase.

(* ---------- framing ---------- *)
Theorem frame_unframe body : Z.of_nat (length body) < 65536 ->
  exists fr, frame body = Some fr /\ forall tail, unframe (fr ++ tail) = inl body.
Proof. intros Hl. unfold frame. set (n := Z.of_nat (length body)).
  assert (Hn : 0 <= n < 65536) by (unfold n; lia).
  destruct (n <? 65536) eqn:E; [|apply Z.ltb_ge in E; lia].
  eexists. split; [reflexivity|]. intros tail. unfold MARK. cbn [app unframe]. cbn [Z.eqb Pos.eqb andb negb].
  assert (Hd : n mod 256 + 256 * (n / 256) = n) by (pose proof (Z.div_mod n 256); lia).
  rewrite Hd. unfold n. rewrite Nat2Z.id.
  assert (Hle : (length body <=? length (body ++ tail))%nat = true) by (apply Nat.leb_le; rewrite app_length; lia).
  rewrite Hle. rewrite firstn_app, firstn_all, Nat.sub_diag. cbn [firstn]. rewrite app_nil_r. reflexivity. Qed.
Theorem frame_too_large body : 65536 <= Z.of_nat (length body) -> frame body = None.
Proof. intros Hl. unfold frame. destruct (Z.of_nat (length body) <? 65536) eqn:E; [apply Z.ltb_lt in E; lia|reflexivity]. Qed.
Theorem frame_some body fr : frame body = Some fr -> Z.of_nat (length body) < 65536.
Proof. unfold frame. destruct (Z.of_nat (length body) <? 65536) eqn:E; [|discriminate]. intros _. apply Z.ltb_lt in E. exact E. Qed.
(* unframe accepts only data with the marker, version 1, encoding 0 and a length prefix covered by the data; the tail is ignored *)
Theorem unframe_accepts_only data body : unframe data = inl body ->
  exists lo hi rest, data = 68 :: 73 :: 68 :: 1 :: 0 :: lo :: hi :: rest
    /\ (Z.to_nat (lo + 256 * hi) <= length rest)%nat /\ body = firstn (Z.to_nat (lo + 256 * hi)) rest.
Proof. unfold unframe. destruct data as [|a [|b [|c r3]]]; try discriminate.
  destruct ((a =? 68) && (b =? 73) && (c =? 68)) eqn:EM; cbn [negb]; [|discriminate].
  apply andb_true_iff in EM. destruct EM as [EM E3]. apply andb_true_iff in EM. destruct EM as [E1 E2].
  apply Z.eqb_eq in E1, E2, E3. subst a b c.
  destruct r3 as [|v r4]; [discriminate|]. destruct (v =? 1) eqn:EV; cbn [negb]; [|discriminate]. apply Z.eqb_eq in EV. subst v.
  destruct r4 as [|e r5]; [discriminate|]. destruct (e =? 0) eqn:EE; cbn [negb]; [|discriminate]. apply Z.eqb_eq in EE. subst e.
  destruct r5 as [|lo [|hi r7]]; try discriminate.
  destruct (Z.to_nat (lo + 256 * hi) <=? length r7)%nat eqn:EL; [|discriminate]. intros E. injection E as <-.
  exists lo, hi, r7. split; [reflexivity|]. split; [apply Nat.leb_le; exact EL|reflexivity]. Qed.

(* ---------- the whole path ---------- *)
Section FullProofs.
Variable v : Z -> bool.
Variable ser : sdoc * smeta -> list Z.
Variable de : list Z -> option (sdoc * smeta).
Hypothesis Hde : forall x, de (ser x) = Some x.       (* serde: parse (serialise x) = x, recorded per case by the harness *)
Variables (s : sdoc) (m : smeta) (fr : list Z).
Hypothesis Hwf : swf v s = true.
Hypothesis Hnp : no_placeholder s = true.
Hypothesis Hpk : pack_full ser (s, m) = Some fr.

Lemma unpack_state_packed tail : unpack_state de (fr ++ tail) = inl (to_state s, clear_addr m).
Proof. unfold pack_full in Hpk. cbn [fst snd] in Hpk. pose proof (frame_some _ _ Hpk) as Hl.
  destruct (frame_unframe _ Hl) as [fr' [E1 E2]]. rewrite Hpk in E1. injection E1 as <-.
  unfold unpack_state. rewrite E2, Hde, (state_gate v s Hwf Hnp). reflexivity. Qed.
Theorem full_same_did tail : unpack_full v de (sd_id s) (fr ++ tail) = inl (s, clear_addr m).
Proof. unfold unpack_full. rewrite unpack_state_packed, (same_did_roundtrip v s Hwf Hnp). reflexivity. Qed.
Theorem full_rebase tgt tail : target_fresh tgt s = true ->
  unpack_full v de tgt (fr ++ tail) = inl (rename (rebase_f (sd_id s) tgt) s, clear_addr m).
Proof. intros Hf. unfold unpack_full. rewrite unpack_state_packed, (rebase_complete v s Hwf Hnp tgt Hf). reflexivity. Qed.
Theorem full_rebase_sound tgt tail r m' : unpack_full v de tgt (fr ++ tail) = inl (r, m') ->
  r = rename (rebase_f (sd_id s) tgt) s /\ m' = clear_addr m.
Proof. unfold unpack_full. rewrite unpack_state_packed. destruct (into_iota v tgt (to_state s)) as [r0|e] eqn:E; [|discriminate].
  intros H. injection H as <- <-. split; [apply (rebase_sound v s Hwf Hnp tgt r0 E)|reflexivity]. Qed.
End FullProofs.
Theorem pack_full_none ser x : pack_full ser x = None <-> 65536 <= Z.of_nat (length (ser (to_state (fst x), clear_addr (snd x)))).
Proof. unfold pack_full. split.
  - intros H. destruct (Z.lt_ge_cases (Z.of_nat (length (ser (to_state (fst x), clear_addr (snd x))))) 65536) as [L|L]; [|exact L].
    destruct (frame_unframe _ L) as [fr [E _]]. rewrite E in H. discriminate H.
  - apply frame_too_large. Qed.

(* what renaming does: every DID inside an identifier and every method controller goes through f, nothing else changes *)
Theorem rename_spec f s :
  sd_id (rename f s) = f (sd_id s)
  /\ (forall c, In c (sd_ctrl (rename f s)) <-> exists c0, In c0 (sd_ctrl s) /\ c = f c0)
  /\ sd_vm (rename f s) = map (mmap f) (sd_vm s)
  /\ sd_rels (rename f s) = map (map (rmap f)) (sd_rels s)
  /\ sd_svc (rename f s) = map (svmap f) (sd_svc s)
  /\ sd_aka (rename f s) = sd_aka s /\ sd_props (rename f s) = sd_props s.
Proof. unfold rename; cbn [sd_id sd_ctrl sd_vm sd_rels sd_svc sd_aka sd_props]. repeat split; try reflexivity.
  - intros H. assert (K : forall l x, In x (ddz l) -> In x l).
    { induction l as [|y r IH]; cbn [ddz]; intros x Hx; [exact Hx|]. destruct Hx as [->|Hx]; [left; reflexivity|]. right. apply IH. apply filter_In in Hx. apply Hx. }
    apply K in H. apply in_map_iff in H. destruct H as [c0 [E Hc]]. exists c0. split; [exact Hc|symmetry; exact E].
  - intros [c0 [Hc ->]]. assert (K : forall l x, In x l -> In x (ddz l)).
    { induction l as [|y r IH]; cbn [ddz]; intros x Hx; [exact Hx|]. destruct (x =? y) eqn:E; [left; apply Z.eqb_eq in E; symmetry; exact E|].
      destruct Hx as [->|Hx]; [rewrite Z.eqb_refl in E; discriminate E|]. right. apply filter_In. split; [apply IH; exact Hx|rewrite E; reflexivity]. }
    apply K. apply in_map. exact Hc. Qed.
Lemma rebase_f_spec self tgt d : rebase_f self tgt d = (if d =? self then tgt else d). Proof. reflexivity. Qed.

(* ---------- the pinned tree merged entries silently (repaired: fixed: C14 in KNOWN_FINDINGS) ---------- *)
Definition ex_valid (d : Z) : bool := (1 <=? d) && (d <? 10).
Definition ex_doc : sdoc :=
  {| sd_id := 1; sd_ctrl := [];
     sd_vm := [ {| sm_id := {| u_did := 1; u_rest := 0; u_frag := Some 7 |}; sm_ctrl := 1; sm_data := 100 |};
                {| sm_id := {| u_did := 2; u_rest := 0; u_frag := Some 7 |}; sm_ctrl := 2; sm_data := 200 |} ];
     sd_rels := [[]; []; []; []; []]; sd_svc := []; sd_aka := []; sd_props := 0 |}.
Theorem pinned_unpack_refuted :
  swf ex_valid ex_doc = true /\ no_placeholder ex_doc = true /\
  exists r, into_iota_pinned ex_valid 2 (to_state ex_doc) = inl r /\ r <> rename (rebase_f 1 2) ex_doc /\ length (sd_vm r) = 1%nat.
Proof. split; [vm_compute; reflexivity|]. split; [vm_compute; reflexivity|]. eexists. split; [vm_compute; reflexivity|].
  split; [intros H; apply (f_equal (fun x => length (sd_vm x))) in H; vm_compute in H; discriminate H|reflexivity]. Qed.
Theorem repaired_unpack_rejects : into_iota ex_valid 2 (to_state ex_doc) = inr 2.
Proof. vm_compute. reflexivity. Qed.
(* non-vacuity of the hypotheses with a document that has foreign methods, references and a service *)
Definition ex_doc2 : sdoc :=
  {| sd_id := 1; sd_ctrl := [1; 3];
     sd_vm := [ {| sm_id := {| u_did := 1; u_rest := 0; u_frag := Some 7 |}; sm_ctrl := 1; sm_data := 100 |};
                {| sm_id := {| u_did := 10; u_rest := 0; u_frag := Some 7 |}; sm_ctrl := 10; sm_data := 200 |} ];
     sd_rels := [[SRefer {| u_did := 1; u_rest := 0; u_frag := Some 7 |}; SEmbed {| sm_id := {| u_did := 2; u_rest := 0; u_frag := Some 8 |}; sm_ctrl := 1; sm_data := 300 |}]; []; []; []; []];
     sd_svc := [ {| s_id := {| u_did := 1; u_rest := 0; u_frag := Some 9 |}; s_data := 5 |} ]; sd_aka := [1]; sd_props := 4 |}.
Example hypotheses_satisfiable : swf ex_valid ex_doc2 = true /\ no_placeholder ex_doc2 = true /\ target_fresh 4 ex_doc2 = true /\ target_fresh 2 ex_doc2 = false.
Proof. vm_compute. repeat split. Qed.
