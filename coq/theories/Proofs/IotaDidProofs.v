From Coq Require Import List NArith Bool Arith Lia.
From IdV Require Import Lib.Outcome Did.DidParse Did.IotaDid Proofs.DidProofs.
Import ListNotations.
Open Scope N_scope.

Lemma split_colon_spec l n t : split_colon l = Some (n, t) -> l = n ++ 58 :: t /\ existsb (N.eqb 58) n = false.
Proof.
  revert n t. induction l as [|c r IH]; intros n t H; cbn in H; [discriminate|].
  destruct (c =? 58) eqn:E.
  - apply N.eqb_eq in E. inversion H; subst. split; reflexivity.
  - destruct (split_colon r) as [[a b]|]; [|discriminate]. inversion H; subst.
    destruct (IH a t eq_refl) as [A B]. subst r. split; [reflexivity|]. cbn [existsb]. rewrite N.eqb_sym, E. exact B.
Qed.
Lemma split_colon_none l : split_colon l = None -> existsb (N.eqb 58) l = false.
Proof.
  induction l as [|c r IH]; cbn [split_colon existsb]; [reflexivity|]. destruct (c =? 58) eqn:E; [discriminate|].
  destruct (split_colon r) as [[a b]|]; [discriminate|]. intros _. rewrite N.eqb_sym, E. auto.
Qed.
Lemma split_colon_app n t : existsb (N.eqb 58) n = false -> split_colon (n ++ 58 :: t) = Some (n, t).
Proof.
  induction n as [|c r IH]; cbn [app split_colon existsb]; intros H; [rewrite N.eqb_refl; reflexivity|].
  apply orb_false_elim in H as [H1 H2]. rewrite N.eqb_sym in H1. rewrite H1, (IH H2). reflexivity.
Qed.

Lemma list_eqb_refl a : list_eqb a a = true.
Proof. induction a; cbn; [reflexivity|]. rewrite N.eqb_refl. exact IHa. Qed.
Lemma list_eqb_false a b : list_eqb a b = false -> a <> b.
Proof. intros H E. subst. rewrite list_eqb_refl in H. discriminate. Qed.

Lemma tag_no_colon t : tag_ok t = true -> existsb (N.eqb 58) t = false.
Proof.
  unfold tag_ok. destruct t as [|z [|x r]]; try discriminate. intros H.
  apply andb_prop in H as [H Hh]. apply andb_prop in H as [H _]. apply andb_prop in H as [Hz Hx].
  apply N.eqb_eq in Hz, Hx. subst. cbn [existsb].
  replace (58 =? 48) with false by reflexivity. replace (58 =? 120) with false by reflexivity. cbn [orb].
  induction r as [|c r IH]; [reflexivity|]. cbn [existsb forallb] in *. apply andb_prop in Hh as [A B]. rewrite (IH B), orb_false_r.
  destruct (58 =? c) eqn:E; [|reflexivity]. apply N.eqb_eq in E. subst. discriminate.
Qed.

(* shape of every accepted IOTA DID *)

Theorem iota_parse_shape s v : iota_parse s = Ok v ->
  tag_ok (iota_tag v) = true /\ net_ok (iota_network v) = true /\ iota_normal v
  /\ (v = iota_tag v \/ v = iota_network v ++ 58 :: iota_tag v)
  /\ exists i, core_did_parse (map ascii_lower s) = Ok (IOTA, i) /\ v = iota_normalize i.
Proof.
  unfold iota_parse. destruct (core_did_parse (map ascii_lower s)) as [[m i]|e|] eqn:P; try discriminate.
  destruct (list_eqb m IOTA) eqn:Em; cbn [negb]; [|discriminate]. apply list_eqb_eq in Em. subst m.
  unfold denorm, iota_normalize, iota_tag, iota_network, iota_normal.
  destruct (split_colon i) as [[n t]|] eqn:S.
  - destruct (tag_ok t) eqn:Tt; cbn [negb]; [|discriminate].
    destruct (net_ok n) eqn:Nn; cbn [negb]; [|discriminate].
    intros H; inversion H; subst v; clear H.
    destruct (list_eqb n IOTA) eqn:En.
    + (* default network spelled out: normalised to the bare tag, which has no colon *)
      pose proof (tag_no_colon _ Tt) as Nc.
      assert (split_colon t = None) as St.
      { destruct (split_colon t) as [[a b]|] eqn:X; [|reflexivity].
        apply split_colon_spec in X as [X _]. subst t. rewrite existsb_app in Nc. cbn in Nc.
        rewrite orb_true_r in Nc. discriminate. }
      unfold denorm. rewrite St. cbn [fst snd]. repeat split; auto.
      eexists; split; [reflexivity|]. rewrite S, En. reflexivity.
    + unfold denorm. rewrite S. cbn [fst snd]. apply list_eqb_false in En.
      destruct (split_colon_spec _ _ _ S) as [Ei _]. repeat split; auto.
      eexists; split; [reflexivity|]. rewrite S. destruct (list_eqb n IOTA) eqn:X; [apply list_eqb_eq in X; congruence|reflexivity].
  - cbn [fst snd]. destruct (tag_ok i) eqn:Tt; cbn [negb]; [|discriminate].
    destruct (net_ok IOTA) eqn:Nn; cbn [negb]; [|discriminate].
    intros H; inversion H; subst v; clear H. unfold denorm. rewrite S. cbn [fst snd]. repeat split; auto.
    eexists; split; [reflexivity|]. rewrite S. reflexivity.
Qed.

(* two IOTA DIDs in normal form are equal exactly when network and tag are equal *)
Theorem iota_eq_iff a b : iota_normal a -> iota_normal b ->
  (a = b <-> (iota_network a = iota_network b /\ iota_tag a = iota_tag b)).
Proof.
  unfold iota_normal, iota_network, iota_tag, denorm. intros Na Nb. split; [intros ->; auto|].
  destruct (split_colon a) as [[na ta]|] eqn:Sa; destruct (split_colon b) as [[nb tb]|] eqn:Sb; cbn [fst snd]; intros [En Et].
  - apply split_colon_spec in Sa as [-> _]. apply split_colon_spec in Sb as [-> _]. congruence.
  - congruence.
  - exfalso. apply Nb. congruence.
  - exact Et.
Qed.
